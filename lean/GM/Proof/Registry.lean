/-
  GM.Proof.Registry — lemmas about GM.Model.Registry (core Lean only).
-/
import GM.Model.Registry

namespace GM.Proof.Registry
open GM GM.Registry

/-! ## A. sorted permutations -/

/-- two strictly ascending arrangements of the same values coincide -/
theorem strict_perm_unique {α} : ∀ {l₁ l₂ : List (PV α)}, l₁.Perm l₂ →
    l₁.Pairwise (fun a b => a.prio < b.prio) → l₂.Pairwise (fun a b => a.prio < b.prio) → l₁ = l₂
  | [], l₂, p, _, _ => (List.Perm.nil_eq p)
  | a :: t₁, [], p, _, _ => by simpa using p.length_eq
  | a :: t₁, b :: t₂, p, h₁, h₂ => by
    rw [List.pairwise_cons] at h₁ h₂
    have hab : a = b := by
      have ha : a ∈ b :: t₂ := p.mem_iff.mp (List.mem_cons_self)
      have hb : b ∈ a :: t₁ := p.mem_iff.mpr (List.mem_cons_self)
      rcases List.mem_cons.mp ha with h | ha'
      · exact h
      · rcases List.mem_cons.mp hb with h | hb'
        · exact h.symm
        · have := h₁.1 b hb'
          have := h₂.1 a ha'
          omega
    subst hab
    rw [strict_perm_unique p.cons_inv h₁.2 h₂.2]

theorem asc_distinct_strict {α} {l : List (PV α)} (h : Ascending l)
    (d : l.Pairwise (fun a b => a.prio ≠ b.prio)) : l.Pairwise (fun a b => a.prio < b.prio) := by
  unfold Ascending at h
  induction l with
  | nil => exact List.Pairwise.nil
  | cons a t ih =>
    rw [List.pairwise_cons] at h d ⊢
    refine ⟨fun b hb => ?_, ih h.2 d.2⟩
    have := h.1 b hb
    have := d.1 b hb
    omega

theorem distinct_perm {α} {l₁ l₂ : List (PV α)} (p : l₁.Perm l₂)
    (d : l₁.Pairwise (fun a b => a.prio ≠ b.prio)) : l₂.Pairwise (fun a b => a.prio ≠ b.prio) :=
  p.pairwise d (fun h => fun e => h e.symm)

/-- Core uniqueness lemma: whatever two sorts satisfying the contract do to two arrangements of the same
    registrations, the sub-list of the registrations satisfying `q` comes out identical, provided the
    priorities *of those* are pairwise distinct. -/
theorem sorted_filter_unique {α} {s₁ s₂ : List (PV α) → List (PV α)} (c₁ : SortContract s₁) (c₂ : SortContract s₂)
    {l₁ l₂ : List (PV α)} (p : l₁.Perm l₂) (q : PV α → Bool)
    (d : (l₁.filter q).Pairwise (fun a b => a.prio ≠ b.prio)) :
    (s₁ l₁).filter q = (s₂ l₂).filter q := by
  have p₁ : ((s₁ l₁).filter q).Perm (l₁.filter q) := (c₁.perm l₁).filter q
  have p₂ : ((s₂ l₂).filter q).Perm (l₁.filter q) := ((c₂.perm l₂).trans p.symm).filter q
  apply strict_perm_unique (p₁.trans p₂.symm)
  · exact asc_distinct_strict ((c₁.asc l₁).filter q) (distinct_perm p₁.symm d)
  · exact asc_distinct_strict ((c₂.asc l₂).filter q) (distinct_perm p₂.symm d)

theorem sorted_unique {α} {s₁ s₂ : List (PV α) → List (PV α)} (c₁ : SortContract s₁) (c₂ : SortContract s₂)
    {l₁ l₂ : List (PV α)} (p : l₁.Perm l₂) (d : l₁.Pairwise (fun a b => a.prio ≠ b.prio)) :
    s₁ l₁ = s₂ l₂ := by
  have e : ∀ l : List (PV α), l.filter (fun _ => true) = l := fun l => List.filter_eq_self.mpr (by simp)
  have := sorted_filter_unique c₁ c₂ p (fun _ => true) (by rw [e]; exact d)
  rwa [e, e] at this

/-! ### the driver's sort satisfies the contract -/

theorem insertPV_perm {α} (a : PV α) (l : List (PV α)) : (insertPV a l).Perm (a :: l) := by
  induction l with
  | nil => exact List.Perm.refl _
  | cons b t ih =>
    unfold insertPV
    split
    · exact List.Perm.refl _
    · exact (List.Perm.cons b ih).trans (List.Perm.swap a b t)

theorem insertPV_asc {α} (a : PV α) {l : List (PV α)} (h : Ascending l) : Ascending (insertPV a l) := by
  unfold Ascending at *
  induction l with
  | nil => simp [insertPV]
  | cons b t ih =>
    rw [List.pairwise_cons] at h
    unfold insertPV
    split
    · rename_i hab
      rw [List.pairwise_cons]
      refine ⟨fun c hc => ?_, List.pairwise_cons.mpr h⟩
      rcases List.mem_cons.mp hc with rfl | hc
      · exact hab
      · have := h.1 c hc; omega
    · rename_i hab
      rw [List.pairwise_cons]
      refine ⟨fun c hc => ?_, ih h.2⟩
      have hc' : c ∈ a :: t := (insertPV_perm a t).mem_iff.mp hc
      rcases List.mem_cons.mp hc' with rfl | hc'
      · omega
      · exact h.1 c hc'

theorem isort_contract {α} : SortContract (isort (α := α)) where
  perm := by
    intro l
    induction l with
    | nil => exact List.Perm.refl _
    | cons a t ih => exact (insertPV_perm a (isort t)).trans (List.Perm.cons a ih)
  asc := by
    intro l
    induction l with
    | nil => exact List.Pairwise.nil
    | cons a t ih => exact insertPV_asc a ih

theorem isortRev_contract {α} : SortContract (isortRev (α := α)) where
  perm := fun l => (isort_contract.perm l.reverse).trans (List.reverse_perm l)
  asc := fun l => isort_contract.asc l.reverse

/-! ### carriers -/

theorem foldl_append_perm {α} (es : List (List α)) (c : List α) :
    (es.foldl (· ++ ·) c) = c ++ es.flatten := by
  induction es generalizing c with
  | nil => simp
  | cons e t ih => simp [ih]

theorem apply_fold {α} (opts : List (MdOption α)) (m : MdState α) :
    let r := opts.foldl MdOption.apply m
    (r.config ++ r.exts.flatten).Perm (m.config ++ m.exts.flatten ++ opts.flatMap MdOption.values) := by
  induction opts generalizing m with
  | nil => simp
  | cons o t ih =>
    simp only [List.foldl_cons, List.flatMap_cons]
    refine (ih (MdOption.apply m o)).trans ?_
    cases o with
    | withOptions pvs =>
      simp only [MdOption.apply, MdOption.values]
      -- (config ++ pvs) ++ exts ++ rest ~ config ++ exts ++ (pvs ++ rest)
      have : (m.config ++ pvs ++ m.exts.flatten).Perm (m.config ++ m.exts.flatten ++ pvs) := by
        rw [List.append_assoc, List.append_assoc]
        exact List.Perm.append_left _ List.perm_append_comm
      rw [← List.append_assoc (m.config ++ m.exts.flatten)]
      exact List.Perm.append_right _ this
    | withExtensions es =>
      simp only [MdOption.apply, MdOption.values, List.flatten_append]
      simp only [List.append_assoc]
      exact List.Perm.refl _

/-- Whatever carrier brought a registration in, the configuration that gets sorted holds exactly the
    registrations given to the constructor plus those carried by the options and extensions. -/
theorem mdNew_perm {α} (ctor : List (PV α)) (opts : List (MdOption α)) :
    (mdNew ctor opts).Perm (ctor ++ opts.flatMap MdOption.values) := by
  unfold mdNew
  simp only [foldl_append_perm]
  simpa using apply_fold opts ⟨ctor, []⟩

/-! ## B. tables -/

/-- append to a possibly-nil list; appending nothing keeps nil -/
def appendOpt {α} (o : Option (List α)) : List α → Option (List α)
  | [] => o
  | l => some (o.getD [] ++ l)

theorem appendOpt_appendOpt {α} (o : Option (List α)) (l₁ l₂ : List α) :
    appendOpt (appendOpt o l₁) l₂ = appendOpt o (l₁ ++ l₂) := by
  cases l₁ <;> cases l₂ <;> simp [appendOpt]

theorem push_fold {α} (p : α) (tcs : Bytes) (t : Tab α) (b : UInt8) :
    (tcs.foldl (fun tab tc => Tab.push tab tc p) t) b = appendOpt (t b) (List.replicate (tcs.count b) p) := by
  induction tcs generalizing t with
  | nil => simp [appendOpt]
  | cons tc rest ih =>
    rw [List.foldl_cons, ih]
    by_cases h : b = tc
    · subst h
      simp only [Tab.push, if_true, List.count_cons_self, List.replicate_succ]
      cases hr : List.replicate (List.count b rest) p <;> simp [appendOpt]
    · have h' : ¬ (tc == b) = true := by simpa using fun e => h e.symm
      simp [Tab.push, h, List.count_cons, h']

theorem addBlock_fold (ps : List BlockParser) (t : BlockTables) :
    let r := ps.foldl addBlockParser t
    (∀ b, r.tab b = appendOpt (t.tab b) (triggered b ps)) ∧ r.free = t.free ++ frees ps := by
  induction ps generalizing t with
  | nil => simp [triggered, frees, appendOpt]
  | cons p rest ih =>
    simp only [List.foldl_cons]
    have := ih (addBlockParser t p)
    refine ⟨fun b => ?_, ?_⟩
    · rw [this.1 b]
      unfold addBlockParser
      cases hp : p.trig with
      | none => simp [triggered, occ, hp, appendOpt]
      | some tcs =>
        simp only [push_fold, triggered, List.flatMap_cons, occ, hp, Option.getD_some]
        rw [appendOpt_appendOpt]
    · rw [this.2]
      unfold addBlockParser
      cases hp : p.trig with
      | none => simp [frees, hp]
      | some tcs => simp [frees, hp]

theorem foldl_map_val {α β} (f : β → α → β) (l : List (PV α)) (b : β) :
    l.foldl (fun t v => f t v.val) b = (l.map (·.val)).foldl f b := by
  rw [List.foldl_map]

/-- `trigger_table`: the list for byte `b` is nil when nobody is triggered by `b`, otherwise the triggered
    parsers in sorted order followed by all free parsers in sorted order. -/
theorem buildBlock_tab (sorted : List (PV BlockParser)) (b : UInt8) :
    (buildBlock sorted).tab b =
      match triggered b (sorted.map (·.val)) with
      | [] => none
      | l => some (l ++ frees (sorted.map (·.val))) := by
  unfold buildBlock
  simp only [foldl_map_val]
  have := addBlock_fold (sorted.map (·.val)) ⟨Tab.empty, []⟩
  simp only at this
  rw [this.1 b, this.2]
  cases h : triggered b (sorted.map (·.val)) <;> simp [appendOpt, Tab.empty]

theorem buildBlock_free (sorted : List (PV BlockParser)) :
    (buildBlock sorted).free = frees (sorted.map (·.val)) := by
  unfold buildBlock
  simp only [foldl_map_val]
  have := addBlock_fold (sorted.map (·.val)) ⟨Tab.empty, []⟩
  simpa using this.2

theorem lookupBlock_spec (sorted : List (PV BlockParser)) (c : Option UInt8) :
    lookupBlock (buildBlock sorted) c =
      match c with
      | none => frees (sorted.map (·.val))
      | some b => match triggered b (sorted.map (·.val)) with
        | [] => frees (sorted.map (·.val))
        | l => l ++ frees (sorted.map (·.val)) := by
  unfold lookupBlock
  cases c with
  | none => simp [buildBlock_free]
  | some b =>
    simp only [buildBlock_tab, buildBlock_free]
    cases triggered b (sorted.map (·.val)) <;> simp

/-- when no parser names a byte twice, "triggered" is a plain filter -/
theorem triggered_eq_filter (b : UInt8) (ps : List BlockParser)
    (h : ∀ p ∈ ps, (p.trig.getD []).Nodup) :
    triggered b ps = ps.filter (fun p => (p.trig.getD []).contains b) := by
  induction ps with
  | nil => rfl
  | cons p rest ih =>
    have hp := h p List.mem_cons_self
    have ih := ih (fun q hq => h q (List.mem_cons_of_mem _ hq))
    simp only [triggered, List.flatMap_cons, List.filter_cons] at ih ⊢
    rw [ih]
    by_cases hb : b ∈ p.trig.getD []
    · have : (p.trig.getD []).count b = 1 := by rw [hp.count]; simp [hb]
      simp [occ, this, hb]
    · have : (p.trig.getD []).count b = 0 := List.count_eq_zero.mpr hb
      simp [occ, this, hb]

/-- only the registrations triggered by `b` matter for the list of `b` -/
theorem triggered_filter (b : UInt8) (l : List (PV BlockParser)) :
    triggered b (l.map (·.val)) =
      triggered b ((l.filter (fun v => (v.val.trig.getD []).contains b)).map (·.val)) := by
  induction l with
  | nil => rfl
  | cons v rest ih =>
    simp only [triggered, List.map_cons, List.flatMap_cons, List.filter_cons] at ih ⊢
    by_cases hb : b ∈ v.val.trig.getD []
    · simp [hb, ih]
    · have : (v.val.trig.getD []).count b = 0 := List.count_eq_zero.mpr hb
      simp [hb, ih, occ, this]

theorem frees_filter (l : List (PV BlockParser)) :
    frees (l.map (·.val)) = (l.filter (fun v => v.val.trig.isNone)).map (·.val) := by
  simp [frees, List.filter_map, Function.comp_def]

/-! the same for inline parsers -/

theorem addInline_fold (ps : List InlineParser) (t : Tab InlineParser) (b : UInt8) :
    (ps.foldl addInlineParser t) b = appendOpt (t b) (triggeredI b ps) := by
  induction ps generalizing t with
  | nil => simp [triggeredI, appendOpt]
  | cons p rest ih =>
    simp only [List.foldl_cons, ih, addInlineParser, push_fold, triggeredI, List.flatMap_cons]
    rw [appendOpt_appendOpt]

theorem buildInline_tab (sorted : List (PV InlineParser)) (b : UInt8) :
    (buildInline sorted) b =
      match triggeredI b (sorted.map (·.val)) with
      | [] => none
      | l => some l := by
  unfold buildInline
  rw [foldl_map_val, addInline_fold]
  cases triggeredI b (sorted.map (·.val)) <;> simp [appendOpt, Tab.empty]

/-! ## C. first accept wins -/

theorem consult_spec {α} (skip accept : α → Bool) (ps : List α) :
    consult skip accept ps =
      (((ps.takeWhile (fun p => skip p || !accept p)).filter (fun p => !skip p)) ++
          (ps.find? (fun p => !skip p && accept p)).toList,
        ps.find? (fun p => !skip p && accept p)) := by
  induction ps with
  | nil => rfl
  | cons p rest ih =>
    unfold consult
    by_cases hs : skip p = true
    · simp [hs, ih]
    · by_cases ha : accept p = true
      · simp [hs, ha]
      · simp [hs, ha, ih]

theorem consult_map {α β} (f : α → β) (skip accept : β → Bool) (l : List α) :
    consult skip accept (l.map f) =
      ((consult (fun a => skip (f a)) (fun a => accept (f a)) l).1.map f,
       (consult (fun a => skip (f a)) (fun a => accept (f a)) l).2.map f) := by
  induction l with
  | nil => rfl
  | cons a t ih =>
    simp only [List.map_cons]
    unfold consult
    by_cases hs : skip (f a) = true
    · simp only [hs, if_true]; exact ih
    · by_cases ha : accept (f a) = true
      · simp [hs, ha]
      · simp only [hs, ha, if_false, Bool.false_eq_true]
        rw [ih]; rfl

theorem consult_asked_sublist {α} (skip accept : α → Bool) (ps : List α) :
    (consult skip accept ps).1.Sublist ps := by
  induction ps with
  | nil => exact List.Sublist.refl _
  | cons p rest ih =>
    unfold consult
    split
    · exact ih.cons p
    · split
      · exact (List.nil_sublist rest).cons_cons p
      · exact ih.cons_cons p

/-! ## E. renderer -/

theorem registerFuncs_fold (ks : List Nat) (id : Nat) (s : RegState) :
    let r := ks.foldl (fun s k => register s k id) s
    (∀ k, r.tmp k = if k ∈ ks then some id else s.tmp k) ∧ s.maxKind ≤ r.maxKind ∧
      (∀ k ∈ ks, k ≤ r.maxKind) := by
  induction ks generalizing s with
  | nil => simp
  | cons k0 rest ih =>
    simp only [List.foldl_cons]
    have := ih (register s k0 id)
    have h0 : s.maxKind ≤ (register s k0 id).maxKind ∧ k0 ≤ (register s k0 id).maxKind := by
      simp only [register]; split <;> omega
    refine ⟨fun k => ?_, ?_, ?_⟩
    · rw [this.1 k]
      by_cases h1 : k ∈ rest
      · simp [h1]
      · by_cases h2 : k = k0
        · simp [h2, register]
        · simp [h1, h2, register]
    · exact Nat.le_trans h0.1 this.2.1
    · intro k hk
      rcases List.mem_cons.mp hk with rfl | hk
      · exact Nat.le_trans h0.2 this.2.1
      · exact this.2.2 k hk

/-- state after registering the renderers of `l` from the last to the first -/
def regAll (l : List (PV NodeRenderer)) : RegState :=
  l.foldr (fun v s => registerFuncs s v.val) ⟨fun _ => none, 0⟩

theorem regAll_spec (l : List (PV NodeRenderer)) :
    (∀ k, (regAll l).tmp k = ((l.filter (fun v => v.val.kinds.contains k)).head?).map (·.val.id)) ∧
    (∀ k, (regAll l).tmp k ≠ none → k ≤ (regAll l).maxKind) := by
  induction l with
  | nil => simp [regAll]
  | cons v rest ih =>
    have hf := registerFuncs_fold v.val.kinds v.val.id (regAll rest)
    have e : regAll (v :: rest) = registerFuncs (regAll rest) v.val := rfl
    simp only [] at hf
    refine ⟨fun k => ?_, fun k hk => ?_⟩
    · rw [e]; unfold registerFuncs; rw [hf.1 k]
      by_cases h : k ∈ v.val.kinds
      · simp [h]
      · simp [h, ih.1 k]
    · rw [e] at hk ⊢; unfold registerFuncs at hk ⊢; rw [hf.1 k] at hk
      by_cases h : k ∈ v.val.kinds
      · exact hf.2.2 k h
      · simp only [h, if_false] at hk
        exact Nat.le_trans (ih.2 k hk) hf.2.1

theorem buildRenderer_eq (sorted : List (PV NodeRenderer)) :
    buildRenderer sorted = (List.range ((regAll sorted).maxKind + 1)).map (regAll sorted).tmp := by
  unfold buildRenderer regAll
  rw [List.foldl_reverse]

/-- The function table, read through the bounds-checked lookup, maps a kind to the FIRST renderer (in sorted,
    i.e. ascending, order) that registers the kind — inside and beyond the slice alike. -/
theorem dispatch_build (sorted : List (PV NodeRenderer)) (k : Nat) :
    dispatchKind (buildRenderer sorted) k =
      ((sorted.filter (fun v => v.val.kinds.contains k)).head?).map (·.val.id) := by
  rw [buildRenderer_eq]
  have sp := regAll_spec sorted
  unfold dispatchKind
  split
  · rename_i h
    simp [sp.1 k]
  · rename_i h
    rw [← sp.1 k]
    simp only [List.length_map, List.length_range] at h
    cases hk : (regAll sorted).tmp k with
    | none => rfl
    | some id =>
      have := sp.2 k (by simp [hk])
      omega

theorem dispatch_beyond (table : List (Option Nat)) (k : Nat) (h : table.length ≤ k) :
    dispatchKind table k = none := by
  unfold dispatchKind
  split
  · omega
  · rfl

theorem head_of_sorted_min {α} {F : List (PV α)} (asc : Ascending F) {m : PV α} (hm : m ∈ F)
    (hmin : ∀ v ∈ F, v ≠ m → m.prio < v.prio) : F.head? = some m := by
  cases F with
  | nil => cases hm
  | cons h t =>
    simp only [List.head?_cons, Option.some.injEq]
    apply Classical.byContradiction
    intro hne
    have h1 := hmin h List.mem_cons_self hne
    rcases List.mem_cons.mp hm with rfl | hmt
    · exact hne rfl
    · have := (List.pairwise_cons.mp asc).1 m hmt
      omega

/-! ## missing kinds -/

theorem walk_missing (table : List (Option Nat)) (script : Nat → Nat → Bool → Status) (k : Nat)
    (cs : List Tree) (h : dispatchKind table k = none) :
    walk table script (.node k cs) =
      ((walkList table script cs).1, if (walkList table script cs).2 = .stop then .stop else .continue) := by
  rw [walk]
  simp only [callRenderer, h]
  simp
  split <;> rfl

/-! ## combined statements used by Props/C20 -/

/-- with pairwise distinct priorities the sorted configuration IS the ascending arrangement `t` -/
theorem sorted_is_the_ascending {α} {s : List (PV α) → List (PV α)} (c : SortContract s)
    {l t : List (PV α)} (p : t.Perm l) (asc : Ascending t)
    (d : l.Pairwise (fun a b => a.prio ≠ b.prio)) : s l = t :=
  strict_perm_unique ((c.perm l).trans p.symm)
    (asc_distinct_strict (c.asc l) (distinct_perm (c.perm l).symm d))
    (asc_distinct_strict asc (distinct_perm p.symm d))

def hasTrig (b : UInt8) (v : PV BlockParser) : Bool := (v.val.trig.getD []).contains b
def isFree (v : PV BlockParser) : Bool := v.val.trig.isNone

theorem lookup_via_filters (sorted : List (PV BlockParser)) (c : Option UInt8) :
    lookupBlock (buildBlock sorted) c =
      match c with
      | none => (sorted.filter isFree).map (·.val)
      | some b => match triggered b ((sorted.filter (hasTrig b)).map (·.val)) with
        | [] => (sorted.filter isFree).map (·.val)
        | l => l ++ (sorted.filter isFree).map (·.val) := by
  rw [lookupBlock_spec]
  cases c with
  | none => simp only [frees_filter]; rfl
  | some b =>
    simp only [frees_filter]
    rw [triggered_filter]
    rfl

/-- equal priorities are harmless unless two parsers of the same list share them -/
theorem ties_harmless_lookup {s₁ s₂ : List (PV BlockParser) → List (PV BlockParser)}
    (c₁ : SortContract s₁) (c₂ : SortContract s₂) {l₁ l₂ : List (PV BlockParser)} (p : l₁.Perm l₂)
    (dt : ∀ b, (l₁.filter (hasTrig b)).Pairwise (fun a b => a.prio ≠ b.prio))
    (df : (l₁.filter isFree).Pairwise (fun a b => a.prio ≠ b.prio)) (c : Option UInt8) :
    lookupBlock (buildBlock (s₁ l₁)) c = lookupBlock (buildBlock (s₂ l₂)) c := by
  rw [lookup_via_filters, lookup_via_filters]
  rw [sorted_filter_unique c₁ c₂ p isFree df]
  cases c with
  | none => rfl
  | some b => simp only [sorted_filter_unique c₁ c₂ p (hasTrig b) (dt b)]

theorem triggered_mem {b : UInt8} {ps : List BlockParser} {p : BlockParser} (h : p ∈ triggered b ps) :
    p ∈ ps ∧ b ∈ p.trig.getD [] := by
  simp only [triggered, List.mem_flatMap, occ] at h
  obtain ⟨q, hq, hp⟩ := h
  have := List.mem_replicate.mp hp
  obtain ⟨hne, rfl⟩ := this
  refine ⟨hq, ?_⟩
  apply Classical.byContradiction
  intro hn
  exact hne (List.count_eq_zero.mpr hn)

theorem renderer_min {s : List (PV NodeRenderer) → List (PV NodeRenderer)} (c : SortContract s)
    (l : List (PV NodeRenderer)) (k : Nat) (m : PV NodeRenderer) (hm : m ∈ l) (hk : k ∈ m.val.kinds)
    (hmin : ∀ v ∈ l, k ∈ v.val.kinds → v ≠ m → m.prio < v.prio) :
    dispatchKind (buildRenderer (s l)) k = some m.val.id := by
  rw [dispatch_build]
  have hF : ((s l).filter (fun v => v.val.kinds.contains k)).head? = some m := by
    apply head_of_sorted_min ((c.asc l).filter _)
    · exact List.mem_filter.mpr ⟨(c.perm l).mem_iff.mpr hm, by simpa using hk⟩
    · intro v hv hne
      have hv' := List.mem_filter.mp hv
      exact hmin v ((c.perm l).mem_iff.mp hv'.1) (by simpa using hv'.2) hne
  rw [hF]; rfl

theorem dispatch_none_iff {s : List (PV NodeRenderer) → List (PV NodeRenderer)} (c : SortContract s)
    (l : List (PV NodeRenderer)) (k : Nat) :
    dispatchKind (buildRenderer (s l)) k = none ↔ ∀ v ∈ l, k ∉ v.val.kinds := by
  rw [dispatch_build]
  constructor
  · intro h v hv hk
    have : v ∈ (s l).filter (fun v => v.val.kinds.contains k) :=
      List.mem_filter.mpr ⟨(c.perm l).mem_iff.mpr hv, by simpa using hk⟩
    cases hf : (s l).filter (fun v => v.val.kinds.contains k) with
    | nil => rw [hf] at this; cases this
    | cons a t => rw [hf] at h; simp at h
  · intro h
    have : (s l).filter (fun v => v.val.kinds.contains k) = [] := by
      apply List.filter_eq_nil_iff.mpr
      intro v hv
      simpa using h v ((c.perm l).mem_iff.mp hv)
    rw [this]; rfl

theorem asked_by_priority {s : List (PV BlockParser) → List (PV BlockParser)} (c : SortContract s)
    (config : List (PV BlockParser)) (b : UInt8) (nodup : ∀ v ∈ config, (v.val.trig.getD []).Nodup)
    (skip accept : BlockParser → Bool) :
    ∃ A : List (PV BlockParser),
      (consult skip accept (lookupBlock (buildBlock (s config)) (some b))).1 = A.map (·.val) ∧
      (∀ a ∈ A, a ∈ config) ∧ A.Pairwise AskedBefore := by
  let T := (s config).filter (hasTrig b)
  let F := (s config).filter isFree
  have hl : lookupBlock (buildBlock (s config)) (some b) = (T ++ F).map (·.val) := by
    rw [lookup_via_filters]
    have hn : ∀ p ∈ ((s config).filter (hasTrig b)).map (·.val), (p.trig.getD []).Nodup := by
      intro p hp
      obtain ⟨v, hv, rfl⟩ := List.mem_map.mp hp
      exact nodup v ((c.perm config).mem_iff.mp (List.mem_filter.mp hv).1)
    simp only [triggered_eq_filter b _ hn]
    have e : List.filter (fun p => (p.trig.getD []).contains b) (((s config).filter (hasTrig b)).map (·.val))
        = T.map (·.val) := by
      simp only [T, List.filter_map, Function.comp_def, List.filter_filter]
      congr 1
      apply List.filter_congr
      intro x _
      simp [hasTrig]
    rw [e]
    cases hT : T.map (·.val) with
    | nil =>
      have : T = [] := by simpa using hT
      simp [this, F]
    | cons a t => simp [← hT, F]
  refine ⟨(consult (fun a => skip a.val) (fun a => accept a.val) (T ++ F)).1, ?_, ?_, ?_⟩
  · rw [hl, consult_map]
  · intro a ha
    have h1 := (consult_asked_sublist (fun a => skip a.val) (fun a => accept a.val) (T ++ F)).subset ha
    rcases List.mem_append.mp h1 with h | h
    · exact (c.perm config).mem_iff.mp (List.mem_filter.mp h).1
    · exact (c.perm config).mem_iff.mp (List.mem_filter.mp h).1
  · apply List.Pairwise.sublist (consult_asked_sublist _ _ _)
    rw [List.pairwise_append]
    have hT : ∀ a ∈ T, a.val.trig.isNone = false := by
      intro a ha
      have := (List.mem_filter.mp ha).2
      simp only [hasTrig] at this
      cases h : a.val.trig with
      | none => simp [h] at this
      | some _ => rfl
    have hF : ∀ a ∈ F, a.val.trig.isNone = true := fun a ha => (List.mem_filter.mp ha).2
    refine ⟨?_, ?_, ?_⟩
    · have asc : Ascending T := (c.asc config).filter _
      unfold Ascending at asc
      refine (List.Pairwise.and_mem.mp asc).imp ?_
      intro a b' h
      unfold AskedBefore
      exact ⟨fun ha => (by rw [hT a h.1] at ha; cases ha), fun _ => h.2.2⟩
    · have asc : Ascending F := (c.asc config).filter _
      unfold Ascending at asc
      refine (List.Pairwise.and_mem.mp asc).imp ?_
      intro a b' h
      unfold AskedBefore
      exact ⟨fun _ => hF b' h.2.1, fun _ => h.2.2⟩
    · intro a ha b' hb
      unfold AskedBefore
      exact ⟨fun h => (by rw [hT a ha] at h; cases h), fun h => (by rw [hT a ha, hF b' hb] at h; cases h)⟩

end GM.Proof.Registry
