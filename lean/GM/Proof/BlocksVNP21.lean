-- GENERATED from BlocksTNP21.lean by tools/port_blocks_v.py (package headingids): the same proofs for the monitored driver runV. Do not edit.
/-
  GM.Proof.BlocksTNP21 — the general no-panic proof of the block driver WITH paragraph transformers (setext / RequireParagraph
  path included), part 1: the window invariants of GM.Proof.BlocksDriver / BlocksDriverL re-instantiated on the WEAK key
  invariant (`W.KeysOKF`: fence half only, GM.Proof.BlocksTNP9 — after `.retryTransformed` temporaryParagraphKey is stale)
  and extended by `TreeOK` (GM.Proof.BlocksTNP20). `TmpOK s`: the key, when set, points to a paragraph with lines; it is
  required only while a setext heading block is open (`TL`). Namespace `GM.Blocks.L.GV`; what does not mention `KeysOK` is
  reused from `GM.Blocks.L` / `GM.Blocks`.
-/
import GM.Proof.BlocksVNP20
import GM.Proof.BlocksTNP9
import GM.Proof.BlocksVNP2

theorem GM.Blocks.W.KeysOKF.ext {s s' : GM.Blocks.St} (h : GM.Blocks.W.KeysOKF s) (e : GM.Blocks.Ext s s')
    (_ht : s'.pc.tmpPara = s.pc.tmpPara ∨ s'.pc.tmpPara = none)
    (hf : s'.pc.fence = s.pc.fence ∨ s'.pc.fence = none) : GM.Blocks.W.KeysOKF s' where
  fence := by
    intro f hff
    rcases hf with hf | hf
    · rw [hf] at hff
      obtain ⟨a, b, c⟩ := h.fence f hff
      exact ⟨a, b, Nat.lt_of_lt_of_le c e.len⟩
    · rw [hf] at hff; cases hff

namespace GM.Blocks.L.GV
open GM GM.Text GM.Spec GM.Proof.Reader GM.Blocks.TV GM.Blocks.TRV

/-- temporaryParagraphKey, when set, points to a paragraph that has lines -/
def TmpOK (s : St) : Prop :=
  ∀ t, s.pc.tmpPara = some t → t < s.nodes.length ∧ (nd s t).kind = .paragraph ∧ (nd s t).lines ≠ []

/-- the key is live while a setext heading block is open -/
def TL (s : St) : Prop := (∃ b ∈ s.pc.opened, b.bp = .setext) → TmpOK s

theorem TmpOK.ext {s s' : St} (h : TmpOK s) (e : Ext s s') (ht : s'.pc.tmpPara = s.pc.tmpPara) : TmpOK s' := by
  intro t htt
  rw [ht] at htt
  obtain ⟨a, b, c⟩ := h t htt
  exact ⟨Nat.lt_of_lt_of_le a e.len, by rw [e.kind t a]; exact b, e.linesNE t a (by rw [b]; simp) c⟩

theorem TL.ext {s s' : St} (h : TL s) (e : Ext s s') (ht : s'.pc.tmpPara = s.pc.tmpPara)
    (ho : ∀ b ∈ s'.pc.opened, b.bp = .setext → ∃ b' ∈ s.pc.opened, b'.bp = .setext) : TL s' := by
  intro ⟨b, hb, hs⟩
  exact (h (ho b hb hs)).ext e ht

theorem KeysOK.ofF {s : St} (h : W.KeysOKF s) (ht : TmpOK s) : KeysOK s := ⟨ht, h.fence⟩

variable {src : Bytes}

/-! ### a new node has no children (every `Open`) -/

/-- nodes with index ≥ `N` have no children -/
def KQ (N : Nat) (s : St) : Prop := ∀ j, N ≤ j → (nd s j).children = []

structure KN {α : Type} (N : Nat) (m : M α) : Prop where
  h : ∀ s a s', m s = .ok (a, s') → KQ N s → KQ N s'

theorem KN.pure {α} {N : Nat} (a : α) : KN N (Pure.pure a : M α) := ⟨fun s _ _ h hq => by cases h; exact hq⟩

theorem KN.bind {α β} {N : Nat} {m : M α} {f : α → M β} (hm : KN N m) (hf : ∀ a, KN N (f a)) : KN N (m >>= f) := by
  constructor
  intro s b s' h hq
  obtain ⟨a, s1, h1, h2⟩ := fr_bind_ok h
  exact (hf a).h s1 b s' h2 (hm.h s a s1 h1 hq)

theorem KN.ite {α} {N : Nat} {c : Prop} [Decidable c] {a b : M α} (ha : KN N a) (hb : KN N b) :
    KN N (if c then a else b) := by split <;> assumption

theorem KN.throw {α} {N : Nat} (e : Panic) : KN N (throw e : M α) := ⟨fun _ _ _ h => by cases h⟩

theorem KN.of_nodes {α} {N : Nat} {m : M α} (h : ∀ s a s', m s = .ok (a, s') → s'.nodes = s.nodes) : KN N m :=
  ⟨fun s a s' e hq j hj => by rw [nd_eq_of_nodes_eq (h s a s' e)]; exact hq j hj⟩

theorem getNode_kn {N} (id : Nat) : KN N (getNode id) := .of_nodes fun _ _ _ h => by cases h; rfl
theorem getPc_kn {N} : KN N getPc := .of_nodes fun _ _ _ h => by cases h; rfl
theorem modPc_kn {N} (f : Ctx → Ctx) : KN N (modPc f) := .of_nodes fun _ _ _ h => by cases h; rfl
theorem source_kn {N} : KN N source := .of_nodes fun _ _ _ h => by cases h; rfl
theorem position_kn {N} : KN N position := .of_nodes fun _ _ _ h => by cases h; rfl
theorem setPosition_kn {N} (l : Int) (p : Segment) : KN N (setPosition l p) := .of_nodes fun _ _ _ h => by cases h; rfl
theorem get_kn {N} : KN N (get : M St) := .of_nodes fun _ _ _ h => by cases h; rfl
theorem advanceLine_kn {N} : KN N advanceLine := .of_nodes fun _ _ _ h => by cases h; rfl
theorem liftE_kn {N α} (e : Except Panic α) : KN N (liftE e) := .of_nodes fun s a s' h => by
  cases e with
  | error x => cases h
  | ok v => cases h; rfl
theorem peekLine_kn {N} : KN N peekLine := .of_nodes fun s a s' h => ((peekLine_tsame.h s a s' h).same 0 |> fun _ => by
  unfold peekLine at h
  cases hx : s.r.peekLine with
  | error e => simp [hx, bind, Except.bind] at h
  | ok p => simp only [hx, bind, Except.bind, pure, Except.pure] at h; cases h; rfl)
theorem lineOffset_kn {N} : KN N lineOffset := .of_nodes fun s a s' h => by
  unfold lineOffset at h
  cases hx : s.r.lineOffsetOp with
  | error e => simp [hx, bind, Except.bind] at h
  | ok p => simp only [hx, bind, Except.bind, pure, Except.pure] at h; cases h; rfl
theorem advance_kn {N} (n : Int) : KN N (advance n) := .of_nodes fun s a s' h => by
  unfold advance at h
  cases hx : s.r.advance n with
  | error e => simp [hx, bind, Except.bind] at h
  | ok p => simp only [hx, bind, Except.bind, pure, Except.pure] at h; cases h; rfl
theorem advanceAndSetPadding_kn {N} (n p : Int) : KN N (advanceAndSetPadding n p) := .of_nodes fun s a s' h => by
  unfold advanceAndSetPadding at h
  cases hx : s.r.advanceAndSetPadding n p with
  | error e => simp [hx, bind, Except.bind] at h
  | ok p => simp only [hx, bind, Except.bind, pure, Except.pure] at h; cases h; rfl

theorem modNode_kn {N} (i : Nat) (f : Node → Node) (hf : ∀ n, (f n).children = n.children) : KN N (modNode i f) :=
  ⟨fun s _ s' h hq j hj => by
    cases h
    show (nd (upd s i f) j).children = []
    rw [nd_upd]; split
    · rename_i e; obtain ⟨rfl, _⟩ := e; rw [hf]; exact hq _ hj
    · exact hq j hj⟩

theorem appendLine_kn {N} (i : Nat) (seg : Segment) : KN N (appendLine i seg) := modNode_kn i _ fun _ => rfl

theorem newNode_kn {N} (n : Node) (hn : n.children = []) : KN N (newNode n) :=
  ⟨fun s _ s' h hq j hj => by
    cases h
    rw [fr_nd_append s n s.r s.pc]
    split
    · exact hq j hj
    · split
      · exact hn
      · rfl⟩

macro "kn_step" : tactic =>
  `(tactic| first
    | with_reducible apply KN.pure
    | with_reducible apply KN.bind
    | with_reducible apply KN.ite
    | with_reducible apply KN.throw
    | with_reducible apply getNode_kn
    | with_reducible apply getPc_kn
    | with_reducible apply modPc_kn
    | with_reducible apply source_kn
    | with_reducible apply position_kn
    | with_reducible apply setPosition_kn
    | with_reducible apply get_kn
    | with_reducible apply peekLine_kn
    | with_reducible apply lineOffset_kn
    | with_reducible apply advance_kn
    | with_reducible apply advanceAndSetPadding_kn
    | with_reducible apply advanceLine_kn
    | with_reducible apply liftE_kn
    | with_reducible apply appendLine_kn
    | ((with_reducible apply newNode_kn); rfl)
    | ((with_reducible apply modNode_kn); intro _; rfl)
    | apply_hyp
    | intro _
    | split)

macro "kn" : tactic => `(tactic| repeat' kn_step)

theorem lastOpenedBlock_kn {N} : KN N lastOpenedBlock := by unfold lastOpenedBlock; kn
theorem lastOffset_kn {N} (n : Nat) : KN N (lastOffset n) := by unfold lastOffset; kn
theorem lastChildCount_kn {N} (n : Nat) : KN N (lastChildCount n) := by unfold lastChildCount; kn
theorem blockquoteProcess_kn {N} : KN N blockquoteProcess := by unfold blockquoteProcess; kn
theorem preserveLeadingTab_kn {N} (seg : Segment) (ind : Int) : KN N (preserveLeadingTab seg ind) := by
  unfold preserveLeadingTab; kn
theorem codeTakeLine_kn {N} (n : Nat) (pos padding : Int) : KN N (codeTakeLine n pos padding) := by
  have := @preserveLeadingTab_kn N
  unfold codeTakeLine; kn

theorem bpOpen_kn {N} (bp : BP) (parent : Nat) : KN N (bpOpen bp parent) := by
  have := @lastOpenedBlock_kn N
  have := @lastOffset_kn N
  have := @lastChildCount_kn N
  have := @blockquoteProcess_kn N
  have := @preserveLeadingTab_kn N
  have := @codeTakeLine_kn N
  cases bp <;> unfold bpOpen
  · unfold setextOpen; kn
  · unfold thematicOpen; kn
  · unfold listOpen; kn
  · unfold listItemOpen; kn
  · unfold codeOpen; kn
  · unfold atxOpen; kn
  · unfold fencedOpen; kn
  · unfold blockquoteOpen; kn
  · unfold htmlOpen; kn
  · unfold paragraphOpen; kn

/-- the node an `Open` builds has no children -/
theorem bpOpen_new_kids (bp : BP) (parent : Nat) (s : St) (a : Option Nat × PState) (s' : St)
    (h : bpOpen bp parent s = .ok (a, s')) : ∀ j, s.nodes.length ≤ j → (nd s' j).children = [] :=
  (bpOpen_kn (N := s.nodes.length) bp parent).h s a s' h (fun j hj => by rw [nd_default_of_ge s hj]; rfl)

structure Win (src : Bytes) (A : BP → Prop) (old : List Block) (s0 s : St) (new : List Block) : Prop where
  nodes : NodesOK src s
  keys : W.KeysOKF s
  ext : ExtW s0 s
  shape : s.pc.opened = old ++ new ∨ (old ≠ [] ∧ s.pc.opened = old.dropLast ++ new)
  blocks : ∀ b ∈ s.pc.opened, BlockOK s b ∧ A b.bp
  oldlt : ∀ b ∈ old, b.node < s0.nodes.length
  leafyOld : Leafy old
  fresh : ∀ b ∈ new, s0.nodes.length ≤ b.node
  lastParent : ∀ lb, new.getLast? = some lb → (nd s lb.node).parent.isSome = true

structure Mid (src : Bytes) (A : BP → Prop) (old : List Block) (s0 : St) (id : Nat) (bp : BP) (s : St)
    (new : List Block) : Prop where
  nodes : NodesOK src s
  keys : W.KeysOKF s
  ext : ExtW s0 s
  shape : s.pc.opened = old ++ new ∨ (old ≠ [] ∧ s.pc.opened = old.dropLast ++ new)
  blocks : ∀ b ∈ s.pc.opened, BlockOK s b ∧ A b.bp
  nb : BlockOK s ⟨id, bp⟩
  abp : A bp
  idge : s0.nodes.length ≤ id
  fenceNew : bp = .fenced → ∃ f, s.pc.fence = some f ∧ f.node = id
  setextOld : bp = .setext → ∀ b ∈ old, b.bp ≠ .setext
  tmpS : bp = .setext → TmpOK s

theorem open_none {src A old s0 bp parent s c st s1 new} (hO : OpenPost src bp parent s c (none, st) s1)
    (hc : LineCtx src s c) (hw : Win src A old s0 s new) :
    LineCtx src s1 c ∧ Win src A old s0 s1 new ∧ s1.pc.opened = s.pc.opened := by
  obtain ⟨c', hri, hpad, _, hcc, _⟩ := hO.ri
  have hcc := hcc rfl
  subst hcc
  have hn := hO.noNode rfl
  have htmp : s1.pc.tmpPara = s.pc.tmpPara := by
    rcases hO.tmp with ⟨_, h, _⟩ | ⟨_, h⟩
    · cases h
    · exact h
  have hfen : s1.pc.fence = s.pc.fence := by
    rcases hO.fence with ⟨_, _, _, h, _⟩ | ⟨_, h⟩
    · cases h
    · exact h
  have hext : Ext s s1 := Ext.of_nodes_eq hn
  have hnodes : NodesOK src s1 := fun n hm => hw.nodes n (by rw [← hn]; exact hm)
  refine ⟨⟨hri, hc.lt, hpad, by rw [hO.boff]; exact hc.off, hnodes⟩, ?_, hO.opened⟩
  refine ⟨hnodes, hw.keys.ext hext (.inl htmp) (.inl hfen), hw.ext.trans (ExtW.of_ext hext), by rw [hO.opened]; exact hw.shape, ?_,
    hw.oldlt, hw.leafyOld, hw.fresh, ?_⟩
  · intro b hb
    rw [hO.opened] at hb
    have := hw.blocks b hb
    exact ⟨this.1.ext hext (fun hp => by rw [htmp]; exact (this.1.setext hp).2) (fun hp => by rw [hfen]; exact this.1.fenced hp), this.2⟩
  · intro lb hlb
    have := hw.lastParent lb hlb
    simpa only [nd, hn] using this

theorem open_some {src A old s0 bp parent s c st s1 new id} (hO : OpenPost src bp parent s c (some id, st) s1)
    (hw : Win src A old s0 s new) (hallc : ∀ b ∈ new, b.bp.isContainer = true) (habp : A bp) :
    Mid src A old s0 id bp s1 new ∧ id = s.nodes.length ∧ s1.pc.opened = s.pc.opened ∧
    (∀ j, j < s.nodes.length → nd s1 j = nd s j) ∧ (nd s1 id).parent = none ∧ s1.nodes.length = s.nodes.length + 1 ∧
    (st.requirePara = true → ∃ lb, s.pc.opened.getLast? = some lb ∧ (nd s lb.node).parent = some parent ∧
        lb.bp = .paragraph ∧ new = [] ∧ s.pc.opened = old) := by
  obtain ⟨hid, n, hn, hkind, hnok, hpar, hpl, hsl⟩ := hO.newNode id rfl
  have hext : Ext s s1 := Ext.of_append hn
  have hnd : ∀ j, j < s.nodes.length → nd s1 j = nd s j := fun j hj => nd_of_append_lt hn hj
  have hndid : nd s1 id = n := by
    rw [hid]; simp only [nd, hn]; exact getD_length_append _ _ _
  have hlen : s1.nodes.length = s.nodes.length + 1 := by rw [hn]; simp
  have hnodes : NodesOK src s1 := hw.nodes.of_append hn hnok
  -- the last opened block, when the setext parser answered
  have hsetext : bp = .setext → ∃ lb, s.pc.opened.getLast? = some lb ∧ (nd s lb.node).kind = .paragraph ∧
      (nd s lb.node).parent = some parent ∧ s1.pc.tmpPara = some lb.node ∧ lb.bp = .paragraph ∧ new = [] ∧ s.pc.opened = old := by
    intro hbp
    rcases hO.tmp with ⟨_, _, lb, h1, h2, h3, h4⟩ | ⟨h, _⟩
    · have hmem : lb ∈ s.pc.opened := List.mem_of_getLast? h1
      have hk := (hw.blocks lb hmem).1.kind
      rw [h2] at hk
      have hlbp := kind_paragraph hk.symm
      have hnew : new = [] := by
        cases hne : new.getLast? with
        | none => exact List.getLast?_eq_none_iff.1 hne
        | some x =>
          exfalso
          have hx : x ∈ new := List.mem_of_getLast? hne
          have : s.pc.opened.getLast? = some x := by
            rcases hw.shape with h | ⟨_, h⟩ <;> rw [h, List.getLast?_append, hne] <;> rfl
          rw [h1] at this; cases this
          have := hallc lb hx
          rw [hlbp] at this; cases this
      have hop : s.pc.opened = old := by
        rcases hw.shape with h | ⟨_, h⟩
        · rw [h, hnew, List.append_nil]
        · exfalso
          rw [h, hnew, List.append_nil] at hmem
          have := hw.leafyOld lb hmem
          rw [hlbp] at this; cases this
      exact ⟨lb, h1, h2, h3, h4, hlbp, hnew, hop⟩
    · rcases h with h | h
      · exact absurd hbp h
      · cases h
  have htmpS : bp = .setext → s1.pc.tmpPara.isSome = true := fun hbp => by
    obtain ⟨lb, _, _, _, h4, _⟩ := hsetext hbp; rw [h4]; rfl
  have htmpO : bp ≠ .setext → s1.pc.tmpPara = s.pc.tmpPara := fun hbp => by
    rcases hO.tmp with ⟨h, _⟩ | ⟨_, h⟩
    · exact absurd h hbp
    · exact h
  have hfenS : bp = .fenced → ∃ f, s1.pc.fence = some f ∧ f.node = id ∧ 3 ≤ f.length ∧ 0 ≤ f.indent := fun hbp => by
    rcases hO.fence with ⟨_, id', f, h1, h2, h3, h4⟩ | ⟨h, _⟩
    · cases h1; exact ⟨f, h2, h3, h4⟩
    · rcases h with h | h
      · exact absurd hbp h
      · cases h
  have hfenO : bp ≠ .fenced → s1.pc.fence = s.pc.fence := fun hbp => by
    rcases hO.fence with ⟨h, _⟩ | ⟨_, h⟩
    · exact absurd h hbp
    · exact h
  have hkeys : W.KeysOKF s1 := by
    constructor
    intro f hf
    by_cases hbp : bp = .fenced
    · obtain ⟨f', h1, h2, h3, h4⟩ := hfenS hbp
      rw [h1] at hf; cases hf
      exact ⟨h3, h4, by rw [h2, hlen, hid]; exact Nat.lt_succ_self _⟩
    · rw [hfenO hbp] at hf
      obtain ⟨a, b, c⟩ := hw.keys.fence f hf
      exact ⟨a, b, by rw [hlen]; exact Nat.lt_succ_of_lt c⟩
  have htmpOK : bp = .setext → TmpOK s1 := by
    intro hbp t ht
    obtain ⟨lb, h1, h2, _, h4, h5, _⟩ := hsetext hbp
    rw [h4] at ht; cases ht
    have hmem : lb ∈ s.pc.opened := List.mem_of_getLast? h1
    have hb := (hw.blocks lb hmem).1
    exact ⟨by rw [hlen]; exact Nat.lt_succ_of_lt hb.lt, by rw [hnd _ hb.lt]; exact h2, by rw [hnd _ hb.lt]; exact hb.para h5⟩
  have hblocks : ∀ b ∈ s1.pc.opened, BlockOK s1 b ∧ A b.bp := by
    intro b hb
    rw [hO.opened] at hb
    have := hw.blocks b hb
    refine ⟨this.1.ext hext ?_ ?_, this.2⟩
    · intro hp
      by_cases hbp : bp = .setext
      · exact htmpS hbp
      · rw [htmpO hbp]; exact (this.1.setext hp).2
    · intro hp
      by_cases hbp : bp = .fenced
      · obtain ⟨f, h1, _⟩ := hfenS hbp; rw [h1]; rfl
      · rw [hfenO hbp]; exact this.1.fenced hp
  have hnb : BlockOK s1 ⟨id, bp⟩ := by
    refine ⟨by simp only; rw [hlen, hid]; exact Nat.lt_succ_self _, by simp only; rw [hndid]; exact hkind, ?_, ?_, ?_⟩
    · intro hp; simp only at hp ⊢; rw [hndid]; exact hpl hp
    · intro hp; simp only at hp ⊢; rw [hndid]; exact ⟨hsl hp, htmpS hp⟩
    · intro hp; simp only at hp ⊢; obtain ⟨f, h1, _⟩ := hfenS hp; rw [h1]; rfl
  refine ⟨⟨hnodes, hkeys, hw.ext.trans (ExtW.of_ext hext), ?_, hblocks, hnb, habp, ?_, ?_, ?_, htmpOK⟩, hid, hO.opened, hnd, by rw [hndid]; exact hpar, hlen, ?_⟩
  · rw [hO.opened]
    rcases hw.shape with h | ⟨h1, h2⟩
    · exact .inl h
    · exact .inr ⟨h1, h2⟩
  · rw [hid]; exact hw.ext.len
  · intro hp; obtain ⟨f, h1, h2, _⟩ := hfenS hp; exact ⟨f, h1, h2⟩
  · intro hp b hb
    obtain ⟨lb, h1, _, _, _, h5, _, h7⟩ := hsetext hp
    rcases mem_dropLast_or_last old b hb with h | h
    · intro hh; have := hw.leafyOld b h; rw [hh] at this; cases this
    · rw [h7] at h1; rw [h1] at h; cases h; rw [h5]; simp
  · intro hr
    obtain ⟨hbp, _⟩ := hO.req hr
    obtain ⟨lb, h1, _, h3, _, h5, h6, h7⟩ := hsetext hbp
    exact ⟨lb, h1, h3, h5, h6, h7⟩

structure WinL (src : Bytes) (old pre : List Block) (root : Nat) (s0 s : St) (new : List Block) : Prop where
  nodes : NodesOK src s
  keys : W.KeysOKF s
  ext : ExtW s0 s
  shape : s.pc.opened = old ++ new ∨ (old ≠ [] ∧ s.pc.opened = old.dropLast ++ new)
  blocks : ∀ b ∈ s.pc.opened, BlockOK s b
  oldlt : ∀ b ∈ old, b.node < s0.nodes.length
  leafyOld : Leafy old
  fresh : ∀ b ∈ new, s0.nodes.length ≤ b.node
  ls : LStore s root
  chain : ChainedO s root (pre ++ new)
  stack : ∃ suf, s.pc.opened = pre ++ suf ++ new
  tsame : new = [] → s.pc.opened = old → TreeSame s0 s
  tree : TreeOK s
  tmplt : ∀ t, s.pc.tmpPara = some t → t < s0.nodes.length

structure MidL (src : Bytes) (old pre : List Block) (root : Nat) (s0 : St) (id : Nat) (bp : BP) (s : St)
    (new : List Block) : Prop where
  nodes : NodesOK src s
  keys : W.KeysOKF s
  ext : ExtW s0 s
  shape : s.pc.opened = old ++ new ∨ (old ≠ [] ∧ s.pc.opened = old.dropLast ++ new)
  blocks : ∀ b ∈ s.pc.opened, BlockOK s b
  nb : BlockOK s ⟨id, bp⟩
  idge : s0.nodes.length ≤ id
  fenceNew : bp = .fenced → ∃ f, s.pc.fence = some f ∧ f.node = id
  setextOld : bp = .setext → ∀ b ∈ old, b.bp ≠ .setext
  -- list part
  ls : LStore s root
  chain : ChainedO s root (pre ++ new)
  stack : ∃ suf, s.pc.opened = pre ++ suf ++ new
  idgt : ∀ b ∈ s.pc.opened, b.node < id
  rootid : root < id
  idpar : (nd s id).parent = none
  idkids : bp = .list → (nd s id).children = []
  idoff : bp = .listItem → 0 ≤ (nd s id).offset
  nopt : ∀ i, (nd s i).parent ≠ some id          -- nobody points to the new node yet
  tree : TreeOK s
  tmpS : bp = .setext → TmpOK s
  tmplt : ∀ t, s.pc.tmpPara = some t → t < s0.nodes.length

theorem WinL.toWin {src old pre root s0 s new} (h : WinL src old pre root s0 s new)
    (hallc : ∀ b ∈ new, b.bp.isContainer = true) : Win src (fun _ => True) old s0 s new where
  nodes := h.nodes
  keys := h.keys
  ext := h.ext
  shape := h.shape
  blocks := fun b hb => ⟨h.blocks b hb, trivial⟩
  oldlt := h.oldlt
  leafyOld := h.leafyOld
  fresh := h.fresh
  lastParent := fun lb hlb => by
    have hm : lb ∈ new := List.mem_of_getLast? hlb
    refine h.ls.attached lb ?_ (hallc lb hm)
    rcases h.shape with e | ⟨_, e⟩ <;> rw [e] <;> exact List.mem_append_right _ hm

theorem open_noneL {src old pre root s0 bp parent s c st s1 new} (hO : OpenPostW src bp parent s c (none, st) s1)
    (hc : LineCtx src s c) (hw : WinL src old pre root s0 s new) (hallc : ∀ b ∈ new, b.bp.isContainer = true) :
    LineCtx src s1 c ∧ WinL src old pre root s0 s1 new ∧ s1.pc.opened = s.pc.opened ∧ s1.nodes = s.nodes := by
  obtain ⟨hc1, hw1, ho⟩ := open_none (openPostW_toPost hO) hc (hw.toWin hallc)
  have hn := hO.noNode rfl
  exact ⟨hc1, ⟨hw1.nodes, hw1.keys, hw1.ext, hw1.shape, fun b hb => (hw1.blocks b hb).1, hw1.oldlt, hw1.leafyOld, hw1.fresh,
    hw.ls.congr hn ho, chainedO_congr hn _ _ hw.chain, by rw [ho]; exact hw.stack,
    fun h ho' => (hw.tsame h (by rw [← ho]; exact ho')).trans (TreeSame.of_nodes_eq hn),
    treeOK_tinv.ts (TreeSame.of_nodes_eq hn) hw.tree,
    fun t ht => hw.tmplt t (by
      rcases hO.tmp with ⟨_, h2, _⟩ | ⟨_, h⟩
      · cases h2
      · rw [← h]; exact ht)⟩, ho, hn⟩

theorem open_someL {src old pre root s0 bp parent s c st s1 new id} (hO : OpenPostW src bp parent s c (some id, st) s1)
    (hw : WinL src old pre root s0 s new) (hallc : ∀ b ∈ new, b.bp.isContainer = true)
    (hkn : ∀ j, s.nodes.length ≤ j → (nd s1 j).children = []) :
    MidL src old pre root s0 id bp s1 new ∧ id = s.nodes.length ∧ s1.pc.opened = s.pc.opened ∧
    (∀ j, j < s.nodes.length → nd s1 j = nd s j) ∧ s1.nodes.length = s.nodes.length + 1 ∧
    (st.requirePara = true → ∃ lb, s.pc.opened.getLast? = some lb ∧ (nd s lb.node).parent = some parent ∧
        lb.bp = .paragraph ∧ new = [] ∧ s.pc.opened = old) := by
  obtain ⟨hm, hid, ho, hnd, hpar, hlen, hreq⟩ := open_some (openPostW_toPost hO) (hw.toWin hallc) hallc trivial
  obtain ⟨_, n, hn, hkind, _, hnpar, hnkids, _, _, hnoff⟩ := hO.newNode id rfl
  have hndid : nd s1 id = n := by rw [hid]; exact nd_append_self hn
  have htree : TreeOK s1 := by
    have e1 : s1 = { r := s1.r, nodes := s.nodes ++ [n], pc := s1.pc } := by rw [← hn]
    rw [e1]
    exact treeOK_tinv.app n _ _ hnpar (by rw [← hndid]; exact hkn id (by omega)) hw.tree
  have htlt : ∀ t, s1.pc.tmpPara = some t → t < s0.nodes.length := by
    intro t ht
    rcases hO.tmp with ⟨_, _, lb, h1, h2, _, h4⟩ | ⟨_, h⟩
    · rw [h4] at ht; cases ht
      have hmem : lb ∈ s.pc.opened := List.mem_of_getLast? h1
      rcases hw.shape with e | ⟨_, e⟩
      · rw [e] at hmem
        rcases List.mem_append.1 hmem with h | h
        · exact hw.oldlt lb h
        · have := hallc lb h
          have hk := (hw.blocks lb (by rw [e]; exact List.mem_append_right _ h)).kind
          rw [h2] at hk
          rw [kind_paragraph hk.symm] at this; cases this
      · rw [e] at hmem
        rcases List.mem_append.1 hmem with h | h
        · exact hw.oldlt lb (List.dropLast_subset _ h)
        · have := hallc lb h
          have hk := (hw.blocks lb (by rw [e]; exact List.mem_append_right _ h)).kind
          rw [h2] at hk
          rw [kind_paragraph hk.symm] at this; cases this
    · exact hw.tmplt t (by rw [← h]; exact ht)
  have hlt : ∀ b ∈ s.pc.opened, b.node < s.nodes.length := fun b hb => (hw.blocks b hb).lt
  have hnd' : ∀ j, nd s1 j = if j < s.nodes.length then nd s j else if j = s.nodes.length then n else default := by
    intro j
    by_cases h1 : j < s.nodes.length
    · rw [if_pos h1]; exact hnd j h1
    · rw [if_neg h1]
      by_cases h2 : j = s.nodes.length
      · rw [if_pos h2, h2]; exact nd_append_self hn
      · rw [if_neg h2]; exact nd_append_gt hn (by omega)
  have hls : LStore s1 root := by
    refine ⟨⟨?_, ?_, ?_⟩, ?_, by rw [hnd root hw.ls.rootLt]; exact hw.ls.rootKind, by rw [hlen]; exact Nat.lt_succ_of_lt hw.ls.rootLt,
      fun b hb hc => by rw [ho] at hb; rw [hnd _ (hlt b hb)]; exact hw.ls.attached b hb hc, by rw [ho]; exact hw.ls.incr⟩
    · intro i lc hk hmem
      rw [hnd' i] at hk hmem
      split at hk
      · rename_i hi
        rw [if_pos hi] at hmem
        obtain ⟨a, b⟩ := hw.ls.kids.kids i lc hk hmem
        exact ⟨by rw [hlen]; exact Nat.lt_succ_of_lt a, by rw [hnd lc a]; exact b⟩
      · rename_i hi
        rw [if_neg hi] at hmem
        split at hk
        · rename_i hi2
          rw [if_pos hi2] at hmem
          rw [hkind] at hk
          have hbl : bp = .list := by cases bp <;> simp [BP.kind] at hk ⊢
          rw [hnkids hbl] at hmem; cases hmem
        · cases hk
    · intro i hk
      rw [hnd' i] at hk ⊢
      split at hk
      · rename_i hi; rw [if_pos hi]; exact hw.ls.kids.off i hk
      · rename_i hi
        rw [if_neg hi]
        split at hk
        · rename_i hi2
          rw [if_pos hi2]
          rw [hkind] at hk
          have hbl : bp = .listItem := by cases bp <;> simp [BP.kind] at hk ⊢
          exact hnoff hbl
        · cases hk
    · intro i p hp hk
      rw [hnd' i] at hp ⊢
      split at hp
      · rename_i hi
        have hpl := hw.ls.plt i p hp
        rw [hnd p hpl] at hk
        rw [if_pos ‹_›]
        exact hw.ls.kids.pk i p hp hk
      · split at hp
        · rw [hnpar] at hp; cases hp
        · cases hp
    · intro i p hp
      rw [hnd' i] at hp
      split at hp
      · rw [hlen]; exact Nat.lt_succ_of_lt (hw.ls.plt i p hp)
      · split at hp
        · rw [hnpar] at hp; cases hp
        · cases hp
  have hchain : ChainedO s1 root (pre ++ new) := by
    have hmem : ∀ b ∈ pre ++ new, b ∈ s.pc.opened := by
      obtain ⟨suf, e⟩ := hw.stack
      intro b hb
      rw [e]
      rcases List.mem_append.1 hb with h | h
      · exact List.mem_append_left _ (List.mem_append_left _ h)
      · exact List.mem_append_right _ h
    refine chainedO_agree root (pre ++ new) hw.chain ?_ ?_ ?_
    · intro a ha
      simp only [List.mem_cons, List.mem_map] at ha
      rcases ha with rfl | ⟨b, hb, rfl⟩
      · rw [hnd _ hw.ls.rootLt]
      · rw [hnd _ (hlt b (hmem b hb))]
    · intro b hb; rw [hnd _ (hlt b (hmem b hb))]
    · intro a ha
      simp only [List.mem_cons, List.mem_map] at ha
      rcases ha with rfl | ⟨b, hb, rfl⟩
      · rw [hnd _ hw.ls.rootLt]
      · rw [hnd _ (hlt b (hmem b (List.dropLast_subset _ hb)))]
  refine ⟨⟨hm.nodes, hm.keys, hm.ext, hm.shape, fun b hb => (hm.blocks b hb).1, hm.nb, hm.idge, hm.fenceNew, hm.setextOld,
    hls, hchain, by rw [ho]; exact hw.stack, fun b hb => by rw [ho] at hb; rw [hid]; exact hlt b hb,
    by rw [hid]; exact hw.ls.rootLt, by rw [hndid]; exact hnpar, fun hb => by rw [hndid]; exact hnkids hb, fun hb => by rw [hndid]; exact hnoff hb, ?_, htree, hm.tmpS, htlt⟩,
    hid, ho, hnd, hlen, hreq⟩
  intro i hp
  rw [hnd' i] at hp
  split at hp
  · have := hw.ls.plt i id hp; omega
  · split at hp
    · rw [hnpar] at hp; cases hp
    · cases hp

theorem MidL.sub {src old pre root s0 id bp s new} (h : MidL src old pre root s0 id bp s new) :
    ∀ b ∈ pre ++ new, b ∈ s.pc.opened := by
  obtain ⟨suf, e⟩ := h.stack
  intro b hb
  rw [e]
  rcases List.mem_append.1 hb with h' | h'
  · exact List.mem_append_left _ (List.mem_append_left _ h')
  · exact List.mem_append_right _ h'
theorem MidL.incr' {src old pre root s0 id bp s new} (h : MidL src old pre root s0 id bp s new) :
    (root :: (pre ++ new).map (·.node)).Pairwise (· < ·) := by
  obtain ⟨suf, e⟩ := h.stack
  have := h.ls.incr
  rw [e] at this
  refine this.sublist ?_
  refine List.Sublist.cons_cons _ (List.Sublist.map _ ?_)
  rw [List.append_assoc]
  exact List.Sublist.append (List.Sublist.refl _) (List.sublist_append_right _ _)
theorem MidL.parent_lt {src old pre root s0 id bp s new} (h : MidL src old pre root s0 id bp s new) :
    lastNode root (pre ++ new) < id ∧ lastNode root (pre ++ new) < s.nodes.length := by
  rcases lastNode_mem root (pre ++ new) with e | ⟨b, hb, e⟩
  · rw [e]
    exact ⟨h.rootid, h.ls.rootLt⟩
  · rw [e]
    exact ⟨h.idgt b (h.sub b hb), (h.blocks b (h.sub b hb)).lt⟩

theorem MidL.same {src old pre root s0 id bp s s' new} (h : MidL src old pre root s0 id bp s new)
    (e : Ext s s') (hnodes : NodesOK src s') (t : TreeSame s s') (ho : s'.pc.opened = s.pc.opened)
    (ht : s'.pc.tmpPara = s.pc.tmpPara) (hf : s'.pc.fence = s.pc.fence) : MidL src old pre root s0 id bp s' new := by
  have hbok : ∀ b, BlockOK s b → BlockOK s' b := fun b hb =>
    hb.ext e (fun hp => by rw [ht]; exact (hb.setext hp).2) (fun hp => by rw [hf]; exact hb.fenced hp)
  refine ⟨hnodes, h.keys.ext e (.inl ht) (.inl hf), h.ext.trans (ExtW.of_ext e), by rw [ho]; exact h.shape,
    fun b hb => by rw [ho] at hb; exact hbok b (h.blocks b hb), hbok _ h.nb, h.idge,
    fun hp => by rw [hf]; exact h.fenceNew hp, h.setextOld, ?_, ?_, by rw [ho]; exact h.stack,
    fun b hb => by rw [ho] at hb; exact h.idgt b hb, h.rootid, by rw [(t.same id).2.1]; exact h.idpar,
    fun hb => by rw [(t.same id).2.2.1]; exact h.idkids hb, fun hb => by rw [(t.same id).2.2.2]; exact h.idoff hb,
    fun i => by rw [(t.same i).2.1]; exact h.nopt i, treeOK_tinv.ts t h.tree,
    fun hp => TmpOK.ext (h.tmpS hp) e ht, fun t htt => h.tmplt t (by rw [← ht]; exact htt)⟩
  · exact h.ls.step e t.tf (fun i p hp => by rw [(t.same i).2.1] at hp; rw [t.len]; exact h.ls.plt i p hp) ho h.blocks
  · exact chainedO_agree root (pre ++ new) h.chain (fun a _ => (t.same a).1) (fun b _ => (t.same b.node).2.1)
      (fun a _ => (t.same a).2.2.1)

theorem MidL.pop {src old pre root s0 id bp s} (h : MidL src old pre root s0 id bp s []) (hop : s.pc.opened = old)
    (hne : old ≠ []) (hsuf : ∃ suf, old = pre ++ suf ∧ suf ≠ []) :
    MidL src old pre root s0 id bp { s with pc := { s.pc with opened := old.dropLast } } [] where
  nodes := h.nodes
  keys := ⟨h.keys.fence⟩
  ext := ⟨h.ext.len, h.ext.kind⟩
  shape := .inr ⟨hne, by simp⟩
  blocks := fun b hb => by
    have hb' : b ∈ s.pc.opened := by rw [hop]; exact List.dropLast_subset _ hb
    have := h.blocks b hb'
    exact ⟨this.lt, this.kind, this.para, this.setext, this.fenced⟩
  nb := ⟨h.nb.lt, h.nb.kind, h.nb.para, h.nb.setext, h.nb.fenced⟩
  idge := h.idge
  fenceNew := h.fenceNew
  setextOld := h.setextOld
  ls := ⟨⟨h.ls.kids.kids, h.ls.kids.off, h.ls.kids.pk⟩, h.ls.plt, h.ls.rootKind, h.ls.rootLt,
    fun b hb hc => h.ls.attached b (by rw [hop]; exact List.dropLast_subset _ hb) hc, by
      have := h.ls.incr
      rw [hop] at this
      exact this.sublist (List.Sublist.cons_cons _ (List.Sublist.map _ (List.dropLast_sublist _)))⟩
  chain := by
    have := h.chain
    exact chainedO_agree root (pre ++ []) this (fun _ _ => rfl) (fun _ _ => rfl) (fun _ _ => rfl)
  stack := by
    obtain ⟨suf, e, hs⟩ := hsuf
    refine ⟨suf.dropLast, ?_⟩
    simp only [List.append_nil]
    rw [e, List.dropLast_append_of_ne_nil hs]
  idgt := fun b hb => h.idgt b (by rw [hop]; exact List.dropLast_subset _ hb)
  rootid := h.rootid
  idpar := h.idpar
  idkids := h.idkids
  idoff := h.idoff
  nopt := h.nopt
  tree := ⟨h.tree.pc, h.tree.cp, h.tree.nodup⟩
  tmpS := h.tmpS
  tmplt := h.tmplt

theorem WinL.same {old pre : List Block} {root : Nat} {s0 s s' : St} {new : List Block}
    (h : WinL src old pre root s0 s new) (e : Ext s s') (hnodes : NodesOK src s') (t : TreeSame s s')
    (ho : s'.pc.opened = s.pc.opened) (ht : s'.pc.tmpPara = s.pc.tmpPara) (hf : s'.pc.fence = s.pc.fence) :
    WinL src old pre root s0 s' new := by
  have hbok : ∀ b, BlockOK s b → BlockOK s' b := fun b hb =>
    hb.ext e (fun hp => by rw [ht]; exact (hb.setext hp).2) (fun hp => by rw [hf]; exact hb.fenced hp)
  exact ⟨hnodes, h.keys.ext e (.inl ht) (.inl hf), h.ext.trans (ExtW.of_ext e), by rw [ho]; exact h.shape,
    fun b hb => by rw [ho] at hb; exact hbok b (h.blocks b hb), h.oldlt, h.leafyOld, h.fresh,
    h.ls.step e t.tf (fun i p hp => by rw [(t.same i).2.1] at hp; rw [t.len]; exact h.ls.plt i p hp) ho h.blocks,
    chainedO_agree root (pre ++ new) h.chain (fun a _ => (t.same a).1) (fun b _ => (t.same b.node).2.1)
      (fun a _ => (t.same a).2.2.1), by rw [ho]; exact h.stack, fun hn ho' => (h.tsame hn (by rw [← ho]; exact ho')).trans t, treeOK_tinv.ts t h.tree,
    fun t' htt => h.tmplt t' (by rw [← ht]; exact htt)⟩

theorem WinL.congr {old pre : List Block} {root : Nat} {s0 s s' : St} {new : List Block}
    (h : WinL src old pre root s0 s new) (hn : s'.nodes = s.nodes)
    (ho : s'.pc.opened = s.pc.opened) (ht : s'.pc.tmpPara = s.pc.tmpPara) (hf : s'.pc.fence = s.pc.fence) :
    WinL src old pre root s0 s' new :=
  h.same (Ext.of_nodes_eq hn) (fun n hm => h.nodes n (by rw [← hn]; exact hm)) (TreeSame.of_nodes_eq hn) ho ht hf

end GM.Blocks.L.GV
