/-
  GM.Proof.CMFrag8Inl — stage 8: the inline phase on a paragraph of rich lines (text atoms and code spans).
-/
import GM.Proof.CMFrag8Defs
import GM.Model.Convert

namespace GM.Proof.CMFrag
open GM GM.Text GM.Inl

/-! ### bytes -/

theorem sub_sub8 (src : Bytes) (q n k m : Nat) (hm : m ≤ n) :
    sub src (q + k) (q + m) = ((sub src q (q + n)).drop k).take (m - k) := by
  unfold sub
  rw [List.drop_take, List.take_take, List.drop_drop]
  congr 1 <;> omega

theorem sub_get8 (src : Bytes) (q n k : Nat) (hk : k < n) : src[q + k]? = (sub src q (q + n))[k]? := by
  unfold sub
  rw [List.getElem?_take]
  simp [hk]

theorem getByte8 (src : Bytes) (a : Int) (q n k : Nat) (l : Bytes) (c : UInt8) (h : sub src q (q + n) = l)
    (hk : k < n) (hc : l[k]? = some c) (ha : a = (q : Int) + k) : getByte src a = .ok c := by
  subst ha
  unfold getByte
  rw [if_neg (by omega)]
  have : ((q : Int) + (k : Int)).toNat = q + k := by omega
  rw [this, sub_get8 src q n k hk, h, hc]

/-! ### the code-span parser on `` `cs` `` with `cs` letters and digits -/

theorem alnum_ne96_8 {c : UInt8} (h : GM.Spec.CM.isAlnumC c = true) : (c == 96) = false := by
  cases hc : (c == 96) with
  | false => rfl
  | true => simp at hc; subst hc; exact absurd h (by decide)

theorem alnum_notSpace8 {c : UInt8} (h : GM.Spec.CM.isAlnumC c = true) : isSpace c = false := by
  cases hc : isSpace c with
  | false => rfl
  | true =>
    simp [isSpace] at hc
    rcases hc with ((hc | hc) | hc) | hc <;> subst hc <;> exact absurd h (by decide)

theorem csScan_alnum8 (rest : Bytes) (hr : rest.head? ≠ some 96) :
    ∀ (cs : Bytes) (i : Nat), (∀ c ∈ cs, GM.Spec.CM.isAlnumC c = true) →
      csScan 1 (cs ++ 96 :: rest) i = some (i + cs.length + 1)
  | [], i, _ => by
    have hs : (spanB (· == 96) rest).1 = [] := by
      cases rest with
      | nil => rfl
      | cons c r =>
        have : (c == 96) = false := by
          cases hc : (c == 96) with
          | false => rfl
          | true => exact absurd (by simp at hc; simp [hc]) hr
        simp [spanB, this]
    rw [List.nil_append, csScan]
    simp [hs]
  | c :: cs, i, h => by
    have hc := alnum_ne96_8 (h c (by simp))
    rw [List.cons_append, csScan]
    simp only [hc, Bool.false_eq_true, if_false]
    rw [csScan_alnum8 rest hr cs (i + 1) (fun x hx => h x (by simp [hx]))]
    simp only [List.length_cons]
    congr 1; omega

/-! ### the reader inside a line -/

theorem peekLine_at8 (src : Bytes) (segs : List Segment) (L j a b hd : Int) (hj : j < segs.length) (h0 : 0 ≤ a)
    (hab : a ≤ b) (hb : b ≤ src.length) (haL : a < L) :
    (rdAt src segs L j { start := a, stop := b } hd).peekLine =
      .ok ((some (sub src a.toNat b.toNat), { start := a, stop := b }), rdAt src segs L j { start := a, stop := b } hd) := by
  have hlive : (rdAt src segs L j { start := a, stop := b } hd).live = true := by
    simp [BlockReader.live, rdAt, hj, h0, haL]
  have hv : sliceB src a b = .ok (sub src a.toNat b.toNat) := by
    unfold sliceB
    rw [if_pos ⟨h0, hab, hb⟩]
  simp only [BlockReader.peekLine, hlive, if_true, bind, Except.bind, pure, Except.pure]
  simp only [rdAt, value_plain, hv]

theorem csTrim_alnum8 (src : Bytes) (a : Int) (cs : Bytes) (h0 : 0 ≤ a)
    (hsub : sub src a.toNat (a.toNat + cs.length) = cs) (hlen : a + cs.length ≤ src.length) (hcs : cs ≠ [])
    (hal : ∀ c ∈ cs, GM.Spec.CM.isAlnumC c = true) :
    csTrim src [.text { start := a, stop := a + cs.length } false false true] =
      .ok [.text { start := a, stop := a + cs.length } false false true] := by
  have hcl : 0 < cs.length := List.length_pos_iff.mpr hcs
  have hv : sliceB src a (a + cs.length) = .ok cs := by
    unfold sliceB
    rw [if_pos ⟨h0, by omega, hlen⟩]
    have : (a + (cs.length : Int)).toNat = a.toNat + cs.length := by omega
    rw [this, hsub]
  obtain ⟨c0, hc0⟩ : ∃ c, cs[0]? = some c := ⟨cs[0], by simp [hcl]⟩
  obtain ⟨c1, hc1⟩ : ∃ c, cs[cs.length - 1]? = some c := ⟨cs[cs.length - 1], by
    rw [List.getElem?_eq_getElem]⟩
  have g1 : getByte src a = .ok c0 := getByte8 src a a.toNat cs.length 0 cs c0 hsub hcl hc0 (by omega)
  have g2 : getByte src (a + cs.length - 1) = .ok c1 :=
    getByte8 src _ a.toNat cs.length (cs.length - 1) cs c1 hsub (by omega) hc1 (by omega)
  have hm0 : c0 ∈ cs := List.mem_of_getElem? hc0
  have hs0 : isSpaceOrNewline c0 = false := by
    have := alnum_notSpace8 (hal c0 hm0)
    simp [isSpace] at this
    simp [isSpaceOrNewline, this]
  have hbl : isBlank cs = false := by
    unfold isBlank
    rw [List.all_eq_false]
    exact ⟨c0, hm0, by simp [alnum_notSpace8 (hal c0 hm0)]⟩
  have e4 : ¬ (a + cs.length ≤ a) := by omega
  unfold csTrim
  simp [csIsBlank, value_plain, hv, hbl, csEdge, Segment.isEmpty, g1, g2, hs0, e4, bind, Except.bind, pure, Except.pure]

theorem parseCodeSpan_alnum8 (src : Bytes) (segs : List Segment) (L j hd : Int) (q : Nat) (cs rest : Bytes)
    (hj : j < segs.length) (hlen : q + cs.length + 2 + rest.length ≤ src.length)
    (hL : (q : Int) + cs.length + 2 + rest.length ≤ L)
    (hsub : sub src q (q + (cs.length + 2 + rest.length)) = 96 :: (cs ++ 96 :: rest))
    (hcs : cs ≠ []) (hal : ∀ c ∈ cs, GM.Spec.CM.isAlnumC c = true) (hrest : rest ≠ [])
    (hr96 : rest.head? ≠ some 96) :
    parseCodeSpan (rdAt src segs L j { start := q, stop := (q : Int) + cs.length + 2 + rest.length } hd) =
      .ok (some (.codeSpan [.text { start := (q : Int) + 1, stop := (q : Int) + 1 + cs.length } false false true]),
        rdAt src segs L j { start := (q : Int) + cs.length + 2, stop := (q : Int) + cs.length + 2 + rest.length } hd) := by
  have hrl : 0 < rest.length := List.length_pos_iff.mpr hrest
  have hcl : 0 < cs.length := List.length_pos_iff.mpr hcs
  have t1 : ((q : Int)).toNat = q := by omega
  have t2 : ((q : Int) + cs.length + 2 + rest.length).toNat = q + (cs.length + 2 + rest.length) := by omega
  have hp1 := peekLine_at8 src segs L j q ((q : Int) + cs.length + 2 + rest.length) hd hj (by omega) (by omega)
    (by omega) (by omega)
  rw [t1, t2, hsub] at hp1
  have hop : (List.takeWhile (· == 96) (96 :: (cs ++ 96 :: rest))).length = 1 := by
    cases cs with
    | nil => exact absurd rfl hcs
    | cons c cs' =>
      have := alnum_ne96_8 (hal c (by simp))
      simp [this]
  unfold parseCodeSpan
  simp only [hp1, bind, Except.bind, Option.getD_some, hop]
  rw [advance_fast _ _ _ _ _ _ _ _ (by omega)]
  simp only [BlockReader.position]
  have t3 : ((q : Int) + ((1 : Nat) : Int)).toNat = q + 1 := by omega
  have hsub2 : sub src (q + 1) (q + (cs.length + 2 + rest.length)) = cs ++ 96 :: rest := by
    rw [sub_sub8 src q (cs.length + 2 + rest.length) 1 _ (Nat.le_refl _), hsub]
    simp only [List.drop_succ_cons, List.drop_zero]
    apply List.take_of_length_le
    simp; omega
  have hp2 := peekLine_at8 src segs L j ((q : Int) + ((1 : Nat) : Int)) ((q : Int) + cs.length + 2 + rest.length) hd hj
    (by omega) (by omega) (by omega) (by omega)
  rw [t3, t2, hsub2] at hp2
  have hscan := csScan_alnum8 rest hr96 cs 0 hal
  have hcsl : csLoop 1 j { start := (q : Int) + ((1 : Nat) : Int), stop := (q : Int) + cs.length + 2 + rest.length }
      { start := q, stop := (q : Int) + cs.length + 2 + rest.length } (segs.length + 1 + 1)
      (rdAt src segs L j { start := (q : Int) + ((1 : Nat) : Int), stop := (q : Int) + cs.length + 2 + rest.length } hd) [] =
      .ok (.inr [.text { start := (q : Int) + 1, stop := (q : Int) + 1 + cs.length } false false true],
        rdAt src segs L j { start := (q : Int) + cs.length + 2, stop := (q : Int) + cs.length + 2 + rest.length } hd) := by
    rw [csLoop]
    simp only [hp2, bind, Except.bind, hscan]
    rw [advance_fast _ _ _ _ _ _ _ _ (by omega)]
    have e1 : (q : Int) + ((1 : Nat) : Int) + ((0 + cs.length + 1 : Nat) : Int) = (q : Int) + cs.length + 2 := by omega
    have e2 : (q : Int) + ((1 : Nat) : Int) + ((0 + cs.length + 1 : Nat) : Int) - ((1 : Nat) : Int) =
        (q : Int) + 1 + cs.length := by omega
    have e3 : (q : Int) + ((1 : Nat) : Int) = (q : Int) + 1 := by omega
    rw [e2, e1, e3]
    have e4 : ¬ ((q : Int) + 1 + cs.length ≤ (q : Int) + 1) := by omega
    simp [Segment.withStop, Segment.isEmpty, rawTextOf, pure, Except.pure, e4]
  rw [show (rdAt src segs L j { start := (q : Int) + ((1 : Nat) : Int), stop := (q : Int) + cs.length + 2 + rest.length } hd).segments.length + 2 = segs.length + 1 + 1 from rfl]
  simp only [rdAt] at hcsl ⊢
  rw [hcsl]
  simp only []
  have hsub3 : sub src (q + 1) (q + 1 + cs.length) = cs := by
    have := sub_sub8 src q (cs.length + 2 + rest.length) 1 (1 + cs.length) (by omega)
    rw [hsub] at this
    rw [show q + 1 + cs.length = q + (1 + cs.length) by omega, this]
    simp
  have t4 : ((q : Int) + 1).toNat = q + 1 := by omega
  rw [csTrim_alnum8 src ((q : Int) + 1) cs (by omega) (by rw [t4]; exact hsub3) (by omega) hcs hal]
  rfl


theorem parseCodeSpan_alnum8' (src : Bytes) (segs : List Segment) (L j hd : Int) (q : Nat) (cs rest : Bytes)
    (a e a' : Int) (ha : a = q) (he : e = (q : Int) + cs.length + 2 + rest.length) (ha' : a' = (q : Int) + cs.length + 2)
    (hj : j < segs.length) (hlen : q + cs.length + 2 + rest.length ≤ src.length)
    (hL : e ≤ L)
    (hsub : sub src q (q + (cs.length + 2 + rest.length)) = 96 :: (cs ++ 96 :: rest))
    (hcs : cs ≠ []) (hal : ∀ c ∈ cs, GM.Spec.CM.isAlnumC c = true) (hrest : rest ≠ [])
    (hr96 : rest.head? ≠ some 96) :
    parseCodeSpan (rdAt src segs L j { start := a, stop := e } hd) =
      .ok (some (.codeSpan [.text { start := a + 1, stop := a + 1 + cs.length } false false true]),
        rdAt src segs L j { start := a', stop := e } hd) := by
  subst ha he ha'
  exact parseCodeSpan_alnum8 src segs L j hd q cs rest hj hlen hL hsub hcs hal hrest hr96

/-! ### the byte loop up to a code span -/

theorem scan_pre8 (env : Env) (henv : env.escapedSpace = false) :
    ∀ (l tail : Bytes) (i : Nat) (s : Inl.Scan), quiet l i s.escaped = true →
      scan env (l ++ tail) i s =
        scan env tail (i + l.length) { s with n := s.n + l.length, escaped := escAfter l s.escaped }
  | [], tail, i, s, _ => by simp [escAfter]
  | c :: cs, tail, i, s, hq => by
    simp only [quiet, Bool.and_eq_true] at hq
    obtain ⟨⟨h10, htr⟩, hq⟩ := hq
    have h10' : (c == 10) = false := by simpa using h10
    simp only [List.cons_append, scan, h10', Bool.false_eq_true, if_false]
    rw [isTrigger_env env henv]
    have htr' : (isTrigger {} c i s.escaped && !(parsersFor (parserChar c i)).isEmpty) = false := by
      revert htr; cases (isTrigger {} c i s.escaped && !(parsersFor (parserChar c i)).isEmpty) <;> simp
    rw [htr']
    simp only [Bool.false_eq_true, if_false]
    have := scan_pre8 env henv cs tail (i + 1) (Inl.bump c s) (by rw [bump_eq]; exact hq)
    rw [this, bump_eq]
    simp only [escAfter, List.length_cons, Int.natCast_add, Int.natCast_one]
    have e1 : i + 1 + cs.length = i + (cs.length + 1) := by omega
    have e2 : s.n + 1 + (cs.length : Int) = s.n + ((cs.length : Int) + 1) := by omega
    rw [e1, e2]

/-- the last child is not a Text that `mergeOrAppend` would extend -/
def NoMerge8 (ks : List Inl.Node) : Prop := ∀ seg h r, ks.getLast? ≠ some (.text seg false h r)

theorem mergeOrAppend_nomerge8 (ks : List Inl.Node) (s : Segment) (h : NoMerge8 ks) :
    mergeOrAppend ks s = ks ++ [textOf s] := by
  unfold mergeOrAppend
  split
  · rename_i seg soft hard raw heq
    cases soft
    · exact absurd heq (h seg hard raw)
    · simp
  · rfl

theorem noMerge_nil8 : NoMerge8 [] := by intro seg h r; simp
theorem noMerge_code8 (ks : List Inl.Node) (kids : List Inl.Node) : NoMerge8 (ks ++ [.codeSpan kids]) := by
  intro seg h r; simp
theorem noMerge_soft8 (ks : List Inl.Node) (seg : Segment) (h r : Bool) : NoMerge8 (ks ++ [.text seg true h r]) := by
  intro seg' h' r'; simp

theorem lineLoop_hit8 (env : Env) (fuel : Nat) (esc esc' : Bool) (st st' : St) (line : Bytes) (seg : Segment)
    (hp : st.rd.peekLine = .ok ((some line, seg), st.rd)) (hne : line.isEmpty = false)
    (hscan : scan env (line.take (classify line).1) 0 { st := st, n := 0, sp := st.rd.pos, escaped := esc } =
      .ok (.hit st' esc')) :
    lineLoop env (fuel + 1) esc st = lineLoop env fuel esc' st' := by
  rw [lineLoop]
  simp only [bind, Except.bind, hp, hne, BlockReader.position, hscan]
  simp

theorem scan_code8 (env : Env) (henv : env.escapedSpace = false) (src : Bytes) (segs : List Segment) (L j hd : Int)
    (q : Nat) (bs cs rest : Bytes) (e : Int) (ks : List Inl.Node) (nid : Nat) (bts : List Bottom)
    (he : e = (q : Int) + bs.length + cs.length + 2 + rest.length)
    (hj : j < segs.length) (hlen : q + bs.length + cs.length + 2 + rest.length ≤ src.length) (hL : e ≤ L)
    (hsub : sub src q (q + (bs.length + cs.length + 2 + rest.length)) = bs ++ 96 :: (cs ++ 96 :: rest))
    (hbs : bs ≠ []) (hq : quiet bs 0 false = true) (hesc : escAfter bs false = false)
    (hcs : cs ≠ []) (hal : ∀ c ∈ cs, GM.Spec.CM.isAlnumC c = true) (hrest : rest ≠ [])
    (hr96 : rest.head? ≠ some 96) (hnm : NoMerge8 ks) :
    scan env (bs ++ 96 :: (cs ++ 96 :: rest)) 0
      { st := { rd := rdAt src segs L j { start := q, stop := e } hd, kids := ks, nextId := nid, bottoms := bts },
        n := 0, sp := { start := q, stop := e }, escaped := false } =
    .ok (.hit { rd := rdAt src segs L j { start := (q : Int) + bs.length + cs.length + 2, stop := e } hd,
                kids := ks ++ [.text { start := q, stop := (q : Int) + bs.length } false false false,
                  .codeSpan [.text { start := (q : Int) + bs.length + 1, stop := (q : Int) + bs.length + 1 + cs.length }
                    false false true]],
                nextId := nid, bottoms := bts } false) := by
  have hbl : 0 < bs.length := List.length_pos_iff.mpr hbs
  rw [scan_pre8 env henv bs _ 0 _ hq]
  simp only [hesc, Nat.zero_add, Int.zero_add]
  have hT : isTrigger env 96 bs.length false = true := by
    simp [isTrigger]; left; left; decide
  have hP : parserChar 96 bs.length = 96 := by
    have h1 : isSpace 96 = false := by decide
    have h2 : isPunct 96 = true := by decide
    simp [parserChar, h1, h2]
  have hF : parsersFor 96 = [.codeSpan] := by decide
  rw [scan]
  simp only [show ((96 : UInt8) == 10) = false by decide, Bool.false_eq_true, if_false, hT, hP, hF]
  simp only [List.isEmpty_cons, Bool.not_false, Bool.and_self, if_true]
  unfold trigger
  simp only [bind, Except.bind]
  rw [advance_fast _ _ _ _ _ _ _ _ (by omega)]
  have hne0 : (bs.length != 0) = true := by simp; omega
  have hsub2 : sub src (q + bs.length) (q + bs.length + (cs.length + 2 + rest.length)) = 96 :: (cs ++ 96 :: rest) := by
    have := sub_sub8 src q (bs.length + cs.length + 2 + rest.length) bs.length
      (bs.length + (cs.length + 2 + rest.length)) (by omega)
    rw [hsub] at this
    rw [show q + bs.length + (cs.length + 2 + rest.length) = q + (bs.length + (cs.length + 2 + rest.length)) by omega,
      this, List.drop_left]
    apply List.take_of_length_le
    simp; omega
  have hparse := parseCodeSpan_alnum8' src segs L j hd (q + bs.length) cs rest ((q : Int) + bs.length) e
    ((q : Int) + bs.length + cs.length + 2) (by omega) (by omega) (by omega) hj (by omega) hL hsub2 hcs hal hrest hr96
  simp only [hne0, if_true, BlockReader.position, Segment.between,
    Except.map, mergeOrAppend_nomerge8 ks _ hnm, tryParsers, Ip.parse, liftR, bind, Except.bind]
  simp only [show (rdAt src segs L j { start := (q : Int) + bs.length, stop := e } hd).pos =
    { start := (q : Int) + bs.length, stop := e } from rfl, bne_self_eq_false, Bool.false_eq_true, if_false]
  simp only [hparse, pure, Except.pure, textOf]
  simp


/-! ### the last text atom of a line (the steps of `CMFragInl` with the reader inside the line) -/

theorem endOfLine_mid8 (src : Bytes) (segs : List Segment) (L hd : Int)
    (j p : Nat) (l l0 : Bytes) (c : UInt8) (seg' : Segment) (ks : List Inl.Node) (nid : Nat) (bs : List Bottom)
    (e : Bool) (hl : l = l0 ++ [c]) (hs : isSpace c = false)
    (hsub : sub src p (p + l.length) = l) (hlen : p + l.length ≤ src.length)
    (hnext : segs[j + 1]? = some seg') :
    endOfLine 2 j
      { st := { rd := rdAt src segs L j { start := p, stop := (p : Int) + l.length + 1 } hd, kids := ks,
                nextId := nid, bottoms := bs },
        n := l.length, sp := { start := p, stop := (p : Int) + l.length + 1 }, escaped := e } =
    .ok { rd := rdAt src segs L (j + 1) seg' seg'.start,
          kids := ks ++ [.text { start := p, stop := (p : Int) + l.length } true false false], nextId := nid,
          bottoms := bs } := by
  have hlen0 : l.length ≠ 0 := by subst hl; simp
  have hv : sliceB src (p : Int) ((p : Int) + l.length) = .ok l := by
    rw [sliceB_nat src p l.length hlen, hsub]
  have hj : j + 1 < segs.length := (List.getElem?_eq_some_iff.mp hnext).1
  have hn : (((l.length : Nat) : Int) != 0) = true := by simp; intro h; simp [h] at hlen0
  unfold endOfLine
  simp only [hn, if_true, bind, Except.bind]
  rw [advance_fast _ _ _ _ _ _ _ _ (by omega)]
  simp only [BlockReader.position, rdAt, bne_self_eq_false, Bool.false_eq_true, if_false, Segment.between]
  simp only [Int.sub_self, pure, Except.pure]
  rw [eolText_plain src 2 p l l0 c ks rfl hl hs hv]
  have ha := advanceLine_next src segs L j { start := (p : Int) + l.length, stop := (p : Int) + l.length + 1 }
    seg' hd hnext
  simp only [rdAt] at ha
  simp only [ha]
  rfl

theorem line_step8 (env : Env) (henv : env.escapedSpace = false) (src : Bytes) (segs : List Segment) (L hd : Int)
    (j p : Nat) (l l0 : Bytes) (c : UInt8) (seg' : Segment) (ks : List Inl.Node) (nid : Nat) (bs : List Bottom)
    (fuel : Nat) (hl : l = l0 ++ [c]) (hs : isSpace c = false) (hb : c ≠ 92) (hq : quiet l 0 false = true)
    (hsub : sub src p (p + l.length + 1) = l ++ [10]) (hlen : p + l.length + 1 ≤ src.length)
    (hL : (p : Int) < L) (hnext : segs[j + 1]? = some seg') :
    lineLoop env (fuel + 1) false
      { rd := rdAt src segs L j { start := p, stop := (p : Int) + l.length + 1 } hd, kids := ks, nextId := nid,
        bottoms := bs } =
    lineLoop env fuel false
      { rd := rdAt src segs L (j + 1) seg' seg'.start,
        kids := ks ++ [.text { start := p, stop := (p : Int) + l.length } true false false], nextId := nid,
        bottoms := bs } := by
  have hv : sliceB src (p : Int) ((p : Int) + l.length + 1) = .ok (l ++ [10]) := by
    have := sliceB_nat src p (l.length + 1) (by omega)
    rw [show p + (l.length + 1) = p + l.length + 1 by omega, hsub] at this
    rw [← this]; congr 1
  have hlive : (rdAt src segs L j { start := p, stop := (p : Int) + l.length + 1 } hd).live = true := by
    have : j < segs.length := by
      have := (List.getElem?_eq_some_iff.mp hnext).1; omega
    simp [BlockReader.live, rdAt, this, hL]
  have hcl : classify (l ++ [10]) = (l.length + 1, 2) := by
    rw [hl, classify_lf l0 c hs hb]; simp
  have hsub' : sub src p (p + l.length) = l := sub_prefix src p l.length l 10 rfl hsub
  have hsc := scan_quiet env henv l [10] 0
    { st := { rd := rdAt src segs L j { start := p, stop := (p : Int) + l.length + 1 } hd, kids := ks, nextId := nid, bottoms := bs },
      n := 0, sp := { start := p, stop := (p : Int) + l.length + 1 }, escaped := false } hq (Or.inr rfl)
  rw [escAfter_good l l0 c hl hb] at hsc
  simp only [Int.zero_add] at hsc
  have heol := endOfLine_mid8 src segs L hd j p l l0 c seg' ks nid bs false hl hs hsub' (by omega) hnext
  refine lineLoop_eol env fuel false _ _ (l ++ [10]) { start := p, stop := (p : Int) + l.length + 1 }
    { st := { rd := rdAt src segs L j { start := p, stop := (p : Int) + l.length + 1 } hd, kids := ks, nextId := nid, bottoms := bs },
      n := l.length, sp := { start := p, stop := (p : Int) + l.length + 1 }, escaped := false } ?_ ?_ ?_ ?_ rfl
  · simp only [BlockReader.peekLine, hlive, if_true, bind, Except.bind, pure, Except.pure]
    simp only [rdAt, value_plain, hv]
  · simp
  · rw [hcl]
    have : List.take (l.length + 1) (l ++ [10]) = l ++ [10] := by
      apply List.take_of_length_le; simp
    simp only [this]
    exact hsc
  · rw [hcl]
    exact heol

theorem endOfLine_last8 (src : Bytes) (segs : List Segment) (hd : Int)
    (j p : Nat) (l l0 : Bytes) (c : UInt8) (ks : List Inl.Node) (nid : Nat) (bs : List Bottom)
    (e : Bool) (hl : l = l0 ++ [c]) (hs : isSpace c = false)
    (hsub : sub src p (p + l.length) = l) (hlen : p + l.length ≤ src.length)
    (hj : j + 1 = segs.length) :
    endOfLine 0 j
      { st := { rd := rdAt src segs ((p : Int) + l.length) j { start := p, stop := (p : Int) + l.length } hd, kids := ks, nextId := nid, bottoms := bs },
        n := l.length, sp := { start := p, stop := (p : Int) + l.length }, escaped := e } =
    .ok { rd := rdAt src segs ((p : Int) + l.length) (j + 1) { start := (p : Int) + l.length, stop := (p : Int) + l.length } ((p : Int) + l.length),
          kids := ks ++ [.text { start := p, stop := (p : Int) + l.length } false false false], nextId := nid,
          bottoms := bs } := by
  have hlen0 : l.length ≠ 0 := by subst hl; simp
  have hv : sliceB src (p : Int) ((p : Int) + l.length) = .ok l := by
    rw [sliceB_nat src p l.length hlen, hsub]
  have hn : (((l.length : Nat) : Int) != 0) = true := by simp; intro h; simp [h] at hlen0
  have hadv : (rdAt src segs ((p : Int) + l.length) j { start := p, stop := (p : Int) + l.length } hd).advance l.length
      = .ok (rdAt src segs ((p : Int) + l.length) j { start := (p : Int) + l.length, stop := (p : Int) + l.length } hd) := by
    unfold BlockReader.advance
    have hlt : ¬ (((l.length : Nat) : Int) < (p : Int) + l.length - p) := by omega
    simp only [rdAt, hlt, false_and, if_false, Int.toNat_natCast]
    exact advanceLoop_last src segs j _ hd l.length p
  unfold endOfLine
  simp only [hn, if_true, bind, Except.bind, hadv]
  simp only [BlockReader.position, rdAt, bne_self_eq_false, Bool.false_eq_true, if_false, Segment.between]
  simp only [Int.sub_self, pure, Except.pure]
  rw [eolText_plain src 0 p l l0 c ks rfl hl hs hv]
  have ha := advanceLine_end src segs ((p : Int) + l.length) j
    { start := (p : Int) + l.length, stop := (p : Int) + l.length } hd hj
  simp only [rdAt] at ha
  simp only [ha]
  rfl

theorem last_step8 (env : Env) (henv : env.escapedSpace = false) (src : Bytes) (segs : List Segment) (hd : Int)
    (j p : Nat) (l l0 : Bytes) (c : UInt8) (ks : List Inl.Node) (nid : Nat) (bs : List Bottom)
    (fuel : Nat) (hl : l = l0 ++ [c]) (hs : isSpace c = false) (hb : c ≠ 92) (hq : quiet l 0 false = true)
    (hsub : sub src p (p + l.length) = l) (hlen : p + l.length ≤ src.length) (hj : j + 1 = segs.length) :
    lineLoop env (fuel + 2) false
      { rd := rdAt src segs ((p : Int) + l.length) j { start := p, stop := (p : Int) + l.length } hd, kids := ks, nextId := nid, bottoms := bs } =
    .ok { rd := rdAt src segs ((p : Int) + l.length) (j + 1) { start := (p : Int) + l.length, stop := (p : Int) + l.length } ((p : Int) + l.length),
          kids := ks ++ [.text { start := p, stop := (p : Int) + l.length } false false false], nextId := nid, bottoms := bs } := by
  have hlen0 : l.length ≠ 0 := by subst hl; simp
  have hv : sliceB src (p : Int) ((p : Int) + l.length) = .ok l := by
    rw [sliceB_nat src p l.length hlen, hsub]
  have hlive : (rdAt src segs ((p : Int) + l.length) j { start := p, stop := (p : Int) + l.length } hd).live = true := by
    have : j < segs.length := by omega
    simp only [BlockReader.live, rdAt]
    have h2 : (p : Int) < (p : Int) + l.length := by omega
    simp [this, h2]
  have hc10 : c ≠ 10 := by intro h; subst h; simp [isSpace] at hs
  have hcl : classify l = (l.length, 0) := by
    rw [hl, classify_nolf l0 c hc10]; simp
  have hsc := scan_quiet env henv l [] 0
    { st := { rd := rdAt src segs ((p : Int) + l.length) j { start := p, stop := (p : Int) + l.length } hd, kids := ks, nextId := nid, bottoms := bs },
      n := 0, sp := { start := p, stop := (p : Int) + l.length }, escaped := false } hq (Or.inl rfl)
  rw [escAfter_good l l0 c hl hb] at hsc
  simp only [Int.zero_add, List.append_nil] at hsc
  have heol := endOfLine_last8 src segs hd j p l l0 c ks nid bs false hl hs hsub hlen hj
  rw [lineLoop_eol env (fuel + 1) false _ _ l { start := p, stop := (p : Int) + l.length }
    { st := { rd := rdAt src segs ((p : Int) + l.length) j { start := p, stop := (p : Int) + l.length } hd, kids := ks, nextId := nid, bottoms := bs },
      n := l.length, sp := { start := p, stop := (p : Int) + l.length }, escaped := false } ?_ ?_ ?_ ?_ rfl]
  · apply lineLoop_none env fuel false _ { start := (p : Int) + l.length, stop := (p : Int) + l.length }
    have hnl : (rdAt src segs ((p : Int) + l.length) (j + 1) { start := (p : Int) + l.length, stop := (p : Int) + l.length } ((p : Int) + l.length)).live = false := by
      have : ¬ ((j : Int) + 1 < (segs.length : Int)) := by omega
      simp [BlockReader.live, rdAt, this]
    simp only [BlockReader.peekLine, hnl, Bool.false_eq_true, if_false, pure, Except.pure]
    rfl
  · simp only [BlockReader.peekLine, hlive, if_true, bind, Except.bind, pure, Except.pure]
    simp only [rdAt, value_plain, hv]
  · cases l with
    | nil => simp at hlen0
    | cons _ _ => rfl
  · rw [hcl]
    simp only [List.take_length]
    exact hsc
  · rw [hcl]
    exact heol

/-! ### one text atom and the code span behind it -/

theorem code_step8 (env : Env) (henv : env.escapedSpace = false) (src : Bytes) (segs : List Segment) (L j hd : Int)
    (q : Nat) (bs cs rest : Bytes) (e : Int) (ks : List Inl.Node) (nid : Nat) (bts : List Bottom) (fuel : Nat)
    (he : e = (q : Int) + bs.length + cs.length + 2 + rest.length)
    (hj : j < segs.length) (hlen : q + bs.length + cs.length + 2 + rest.length ≤ src.length) (hL : e ≤ L)
    (hsub : sub src q (q + (bs.length + cs.length + 2 + rest.length)) = bs ++ 96 :: (cs ++ 96 :: rest))
    (hcl : (classify (bs ++ 96 :: (cs ++ 96 :: rest))).1 = (bs ++ 96 :: (cs ++ 96 :: rest)).length)
    (hbs : bs ≠ []) (hq : quiet bs 0 false = true) (hesc : escAfter bs false = false)
    (hcs : cs ≠ []) (hal : ∀ c ∈ cs, GM.Spec.CM.isAlnumC c = true) (hrest : rest ≠ [])
    (hr96 : rest.head? ≠ some 96) (hnm : NoMerge8 ks) :
    lineLoop env (fuel + 1) false
      { rd := rdAt src segs L j { start := q, stop := e } hd, kids := ks, nextId := nid, bottoms := bts } =
    lineLoop env fuel false
      { rd := rdAt src segs L j { start := (q : Int) + bs.length + cs.length + 2, stop := e } hd,
        kids := ks ++ [.text { start := q, stop := (q : Int) + bs.length } false false false,
          .codeSpan [.text { start := (q : Int) + bs.length + 1, stop := (q : Int) + bs.length + 1 + cs.length }
            false false true]],
        nextId := nid, bottoms := bts } := by
  have hbl : 0 < bs.length := List.length_pos_iff.mpr hbs
  have hp := peekLine_at8 src segs L j q e hd hj (by omega) (by omega) (by omega) (by omega)
  have t1 : ((q : Int)).toNat = q := by omega
  have t2 : e.toNat = q + (bs.length + cs.length + 2 + rest.length) := by omega
  rw [t1, t2, hsub] at hp
  refine lineLoop_hit8 env fuel false false _ _ _ _ hp ?_ ?_
  · cases bs with
    | nil => exact absurd rfl hbs
    | cons _ _ => rfl
  · rw [hcl, List.take_length]
    exact scan_code8 env henv src segs L j hd q bs cs rest e ks nid bts he hj hlen hL hsub hbs hq hesc hcs hal hrest
      hr96 hnm


/-! ### the children of a paragraph of rich lines -/

/-- the children one line gives, the line's atoms from byte `q` on; `soft`: the line is not the last one -/
def atomKids8 (soft : Bool) : Int → List Atom → List Inl.Node
  | _, [] => []
  | q, [.txt bs] => [.text { start := q, stop := q + bs.length } soft false false]
  | q, .txt bs :: rest => .text { start := q, stop := q + bs.length } false false false :: atomKids8 soft (q + bs.length) rest
  | q, .code cs :: rest =>
    .codeSpan [.text { start := q + 1, stop := q + 1 + cs.length } false false true] :: atomKids8 soft (q + cs.length + 2) rest

/-- the inline children `parseBlock` gives a paragraph of rich lines that starts at byte `p` -/
def richKids8 : Nat → List (List Atom) → List Inl.Node
  | _, [] => []
  | p, [l] => atomKids8 false p l
  | p, l :: l' :: rest => atomKids8 true p l ++ richKids8 (p + (lineSrc l).length + 1) (l' :: rest)

/-- passes through `retry:` a line takes: one per text atom -/
def passes8 : List Atom → Nat
  | [] => 0
  | .txt _ :: rest => passes8 rest + 1
  | .code _ :: rest => passes8 rest

/-- the shape of (the rest of) a rich line as the byte loop sees it -/
inductive RT8 : List Atom → Prop
  | last (bs l0 : Bytes) (c : UInt8) : bs = l0 ++ [c] → isSpace c = false → c ≠ 92 → quiet bs 0 false = true →
      RT8 [.txt bs]
  | cons (bs cs : Bytes) (rest : List Atom) : bs ≠ [] → quiet bs 0 false = true → escAfter bs false = false →
      cs ≠ [] → (∀ c ∈ cs, GM.Spec.CM.isAlnumC c = true) → RT8 rest → RT8 (.txt bs :: .code cs :: rest)

theorem lineSrc_single8 (bs : Bytes) : lineSrc [.txt bs] = bs := by simp [lineSrc, atomSrc]

theorem lineSrc_cons8 (bs cs : Bytes) (rest : List Atom) :
    lineSrc (.txt bs :: .code cs :: rest) = bs ++ 96 :: (cs ++ 96 :: lineSrc rest) := by
  simp [lineSrc, atomSrc]

theorem quiet_head8 (c : UInt8) (cs : Bytes) (h : quiet (c :: cs) 0 false = true) : c ≠ 96 := by
  intro hc
  subst hc
  have h1 : isSpace 96 = false := by decide
  have h2 : isPunct 96 = true := by decide
  have hF : parsersFor 96 = [.codeSpan] := by decide
  simp [quiet, isTrigger, parserChar, h1, h2, hF] at h

theorem rt_head8 {as : List Atom} (h : RT8 as) : lineSrc as ≠ [] ∧ (lineSrc as).head? ≠ some 96 := by
  cases h with
  | last bs l0 c hl hs hb hq =>
    rw [lineSrc_single8]
    subst hl
    cases l0 with
    | nil => exact ⟨by simp, by simpa using quiet_head8 _ _ hq⟩
    | cons x xs => exact ⟨by simp, by simpa using quiet_head8 _ _ hq⟩
  | cons bs cs rest hbs hq _ _ _ _ =>
    rw [lineSrc_cons8]
    cases bs with
    | nil => exact absurd rfl hbs
    | cons x xs => exact ⟨by simp, by simpa using quiet_head8 _ _ hq⟩

theorem rt_concat8 {as : List Atom} (h : RT8 as) :
    ∃ l0 c, lineSrc as = l0 ++ [c] ∧ isSpace c = false ∧ c ≠ 92 := by
  induction h with
  | last bs l0 c hl hs hb hq => exact ⟨l0, c, by rw [lineSrc_single8, hl], hs, hb⟩
  | cons bs cs rest _ _ _ _ _ _ ih =>
    obtain ⟨l0, c, hl, hs, hb⟩ := ih
    exact ⟨bs ++ 96 :: (cs ++ 96 :: l0), c, by rw [lineSrc_cons8, hl]; simp, hs, hb⟩

theorem atomKids_cons8 (soft : Bool) (q : Int) (bs cs : Bytes) (rest : List Atom) :
    atomKids8 soft q (.txt bs :: .code cs :: rest) =
      [.text { start := q, stop := q + bs.length } false false false,
        .codeSpan [.text { start := q + bs.length + 1, stop := q + bs.length + 1 + cs.length } false false true]] ++
      atomKids8 soft (q + bs.length + cs.length + 2) rest := by
  simp [atomKids8]

theorem noMerge_atoms8 {as : List Atom} (h : RT8 as) : ∀ (ks : List Inl.Node) (q : Int),
    NoMerge8 (ks ++ atomKids8 true q as) := by
  induction h with
  | last bs l0 c hl hs hb hq => intro ks q; exact noMerge_soft8 ks _ _ _
  | cons bs cs rest _ _ _ _ _ _ ih =>
    intro ks q
    rw [atomKids_cons8, ← List.append_assoc]
    exact ih _ _


/-! ### one line -/

theorem atoms_mid8 (env : Env) (henv : env.escapedSpace = false) (src : Bytes) (segs : List Segment) (L hd : Int)
    (j : Nat) (seg' : Segment) (nid : Nat) (bts : List Bottom) (hnext : segs[j + 1]? = some seg') :
    ∀ (as : List Atom), RT8 as → ∀ (q : Nat) (e : Int) (ks : List Inl.Node) (fuel : Nat),
      e = (q : Int) + (lineSrc as).length + 1 → NoMerge8 ks →
      sub src q (q + (lineSrc as).length + 1) = lineSrc as ++ [10] → q + (lineSrc as).length + 1 ≤ src.length →
      e ≤ L →
      lineLoop env (fuel + passes8 as) false
        { rd := rdAt src segs L j { start := q, stop := e } hd, kids := ks, nextId := nid, bottoms := bts } =
      lineLoop env fuel false
        { rd := rdAt src segs L (j + 1) seg' seg'.start, kids := ks ++ atomKids8 true q as, nextId := nid,
          bottoms := bts } := by
  intro as h
  induction h with
  | last bs l0 c hl hs hb hq =>
    intro q e ks fuel he hnm hsub hlen hL
    rw [lineSrc_single8] at he hsub hlen
    subst he
    exact line_step8 env henv src segs L hd j q bs l0 c seg' ks nid bts fuel hl hs hb hq hsub hlen (by omega) hnext
  | cons bs cs rest hbs hq hesc hcs hal hrt ih =>
    intro q e ks fuel he hnm hsub hlen hL
    have hj : ((j : Nat) : Int) < segs.length := by
      have := (List.getElem?_eq_some_iff.mp hnext).1; omega
    obtain ⟨hrne, hr96⟩ := rt_head8 hrt
    obtain ⟨l0, c, hl0, hs, hb⟩ := rt_concat8 hrt
    rw [lineSrc_cons8] at he hsub hlen
    have hlenE : (bs ++ 96 :: (cs ++ 96 :: lineSrc rest)).length =
        bs.length + cs.length + 2 + (lineSrc rest).length := by simp; omega
    rw [hlenE] at he hsub hlen
    have hsub' : sub src q (q + (bs.length + cs.length + 2 + (lineSrc rest ++ [10]).length)) =
        bs ++ 96 :: (cs ++ 96 :: (lineSrc rest ++ [10])) := by
      have hX : (lineSrc rest ++ [10]).length = (lineSrc rest).length + 1 := by simp
      have e0 : q + (bs.length + cs.length + 2 + ((lineSrc rest).length + 1)) =
        q + (bs.length + cs.length + 2 + (lineSrc rest).length) + 1 := by omega
      rw [hX, e0, hsub]
      simp
    have hcl : (classify (bs ++ 96 :: (cs ++ 96 :: (lineSrc rest ++ [10])))).1 =
        (bs ++ 96 :: (cs ++ 96 :: (lineSrc rest ++ [10]))).length := by
      rw [hl0, show bs ++ 96 :: (cs ++ 96 :: (l0 ++ [c] ++ [10])) = (bs ++ 96 :: (cs ++ 96 :: l0)) ++ [c] ++ [10] by simp,
        classify_lf _ c hs hb]
      simp <;> omega
    have hstep := code_step8 env henv src segs L j hd q bs cs (lineSrc rest ++ [10]) e ks nid bts (fuel + passes8 rest)
      (by simp; omega) hj (by simp; omega) hL hsub' hcl hbs hq hesc hcs hal (by simp)
      (by cases hx : lineSrc rest with
          | nil => exact absurd hx hrne
          | cons x xs => rw [hx] at hr96; simpa using hr96) hnm
    have hq' : ((q + bs.length + cs.length + 2 : Nat) : Int) = (q : Int) + bs.length + cs.length + 2 := by
      push_cast; rfl
    have hih := ih (q + bs.length + cs.length + 2) e
      (ks ++ [.text { start := q, stop := (q : Int) + bs.length } false false false,
          .codeSpan [.text { start := (q : Int) + bs.length + 1, stop := (q : Int) + bs.length + 1 + cs.length }
            false false true]]) fuel (by omega)
      (by rw [show ∀ (a b : Inl.Node), ks ++ [a, b] = (ks ++ [a]) ++ [b] by simp]; exact noMerge_code8 _ _)
      (by
        have := sub_sub8 src q (bs.length + cs.length + 2 + (lineSrc rest).length + 1) (bs.length + cs.length + 2)
          (bs.length + cs.length + 2 + (lineSrc rest).length + 1) (Nat.le_refl _)
        rw [show q + (bs.length + cs.length + 2 + (lineSrc rest).length + 1) =
          q + (bs.length + cs.length + 2 + (lineSrc rest).length) + 1 by omega, hsub] at this
        rw [show q + bs.length + cs.length + 2 + (lineSrc rest).length + 1 =
          q + (bs.length + cs.length + 2 + (lineSrc rest).length) + 1 by omega,
          show q + bs.length + cs.length + 2 = q + (bs.length + cs.length + 2) by omega, this]
        have e1 : bs ++ 96 :: (cs ++ 96 :: lineSrc rest) ++ [10] = (bs ++ 96 :: (cs ++ [96])) ++ (lineSrc rest ++ [10]) := by
          simp
        rw [e1, List.drop_left' (by simp; omega)]
        apply List.take_of_length_le
        simp; omega)
      (by omega) hL
    rw [hq'] at hih
    rw [show fuel + passes8 (.txt bs :: .code cs :: rest) = fuel + passes8 rest + 1 by simp only [passes8]; omega, hstep, hih,
      atomKids_cons8]
    simp


theorem atoms_last8 (env : Env) (henv : env.escapedSpace = false) (src : Bytes) (segs : List Segment) (hd : Int)
    (j : Nat) (nid : Nat) (bts : List Bottom) (hjl : j + 1 = segs.length) :
    ∀ (as : List Atom), RT8 as → ∀ (q : Nat) (L : Int) (ks : List Inl.Node) (fuel : Nat),
      L = (q : Int) + (lineSrc as).length → NoMerge8 ks →
      sub src q (q + (lineSrc as).length) = lineSrc as → q + (lineSrc as).length ≤ src.length →
      ∃ rd', lineLoop env (fuel + passes8 as + 1) false
        { rd := rdAt src segs L j { start := q, stop := L } hd, kids := ks, nextId := nid, bottoms := bts } =
      .ok { rd := rd', kids := ks ++ atomKids8 false q as, nextId := nid, bottoms := bts } := by
  intro as h
  induction h with
  | last bs l0 c hl hs hb hq =>
    intro q L ks fuel he hnm hsub hlen
    rw [lineSrc_single8] at he hsub hlen
    subst he
    exact ⟨_, last_step8 env henv src segs hd j q bs l0 c ks nid bts fuel hl hs hb hq hsub hlen hjl⟩
  | cons bs cs rest hbs hq hesc hcs hal hrt ih =>
    intro q L ks fuel he hnm hsub hlen
    have hj : ((j : Nat) : Int) < segs.length := by omega
    obtain ⟨hrne, hr96⟩ := rt_head8 hrt
    obtain ⟨l0, c, hl0, hs, hb⟩ := rt_concat8 hrt
    have hc10 : c ≠ 10 := by intro h; subst h; simp [isSpace] at hs
    rw [lineSrc_cons8] at he hsub hlen
    have hlenE : (bs ++ 96 :: (cs ++ 96 :: lineSrc rest)).length =
        bs.length + cs.length + 2 + (lineSrc rest).length := by simp; omega
    rw [hlenE] at he hsub hlen
    have hcl : (classify (bs ++ 96 :: (cs ++ 96 :: lineSrc rest))).1 =
        (bs ++ 96 :: (cs ++ 96 :: lineSrc rest)).length := by
      rw [hl0, show bs ++ 96 :: (cs ++ 96 :: (l0 ++ [c])) = (bs ++ 96 :: (cs ++ 96 :: l0)) ++ [c] by simp,
        classify_nolf _ c hc10]
      simp <;> omega
    have hstep := code_step8 env henv src segs L j hd q bs cs (lineSrc rest) L ks nid bts (fuel + passes8 rest + 1)
      (by omega) hj (by omega) (Int.le_refl _) hsub hcl hbs hq hesc hcs hal hrne hr96 hnm
    have hq' : ((q + bs.length + cs.length + 2 : Nat) : Int) = (q : Int) + bs.length + cs.length + 2 := by
      push_cast; rfl
    obtain ⟨rd', hih⟩ := ih (q + bs.length + cs.length + 2) L
      (ks ++ [.text { start := q, stop := (q : Int) + bs.length } false false false,
          .codeSpan [.text { start := (q : Int) + bs.length + 1, stop := (q : Int) + bs.length + 1 + cs.length }
            false false true]]) fuel (by omega)
      (by rw [show ∀ (a b : Inl.Node), ks ++ [a, b] = (ks ++ [a]) ++ [b] by simp]; exact noMerge_code8 _ _)
      (by
        have := sub_sub8 src q (bs.length + cs.length + 2 + (lineSrc rest).length) (bs.length + cs.length + 2)
          (bs.length + cs.length + 2 + (lineSrc rest).length) (Nat.le_refl _)
        rw [hsub] at this
        rw [show q + bs.length + cs.length + 2 + (lineSrc rest).length =
          q + (bs.length + cs.length + 2 + (lineSrc rest).length) by omega,
          show q + bs.length + cs.length + 2 = q + (bs.length + cs.length + 2) by omega, this]
        have e1 : bs ++ 96 :: (cs ++ 96 :: lineSrc rest) = (bs ++ 96 :: (cs ++ [96])) ++ lineSrc rest := by
          simp
        rw [e1, List.drop_left' (by simp; omega)]
        apply List.take_of_length_le
        simp)
      (by omega)
    rw [hq'] at hih
    refine ⟨rd', ?_⟩
    rw [show fuel + passes8 (.txt bs :: .code cs :: rest) + 1 = fuel + passes8 rest + 1 + 1 by simp only [passes8]; omega,
      hstep, hih, atomKids_cons8]
    simp


/-! ### the whole paragraph -/

def need8 : List (List Atom) → Nat
  | [] => 1
  | l :: rest => passes8 l + need8 rest

theorem loop_rich8 (env : Env) (henv : env.escapedSpace = false) (src : Bytes) (segs : List Segment) (L : Int)
    (nid : Nat) (bts : List Bottom) :
    ∀ (ls : List (List Atom)) (p : Nat) (done : List Segment) (ks : List Inl.Node) (f : Nat), ls ≠ [] →
      (∀ l ∈ ls, RT8 l) → LinesAtE src p (ls.map lineSrc) → segs = done ++ paraSegs p (ls.map lineSrc) →
      L = (paraEnd p (ls.map lineSrc) : Nat) → NoMerge8 ks →
      ∃ rd', lineLoop env (f + need8 ls) false
        { rd := rdAt src segs L done.length ((paraSegs p (ls.map lineSrc)).headD default) p, kids := ks,
          nextId := nid, bottoms := bts } =
        .ok { rd := rd', kids := ks ++ richKids8 p ls, nextId := nid, bottoms := bts }
  | [], _, _, _, _, h, _, _, _, _, _ => absurd rfl h
  | [l], p, done, ks, f, _, hg, hla, hsegs, hL, hnm => by
    obtain ⟨hsub, hlen⟩ := hla
    have hL' : L = (p : Int) + (lineSrc l).length := by simp [hL, paraEnd]
    have := atoms_last8 env henv src segs p done.length nid bts (by simp [hsegs, paraSegs]) l (hg l (by simp))
      p L ks f hL' hnm hsub hlen
    obtain ⟨rd', h⟩ := this
    refine ⟨rd', ?_⟩
    have e1 : (paraSegs p ([l].map lineSrc)).headD default = { start := (p : Int), stop := L } := by
      rw [hL']; rfl
    rw [e1]
    have e2 : f + need8 [l] = f + passes8 l + 1 := by simp [need8]; omega
    rw [e2, h]
    rfl
  | l :: l' :: rest, p, done, ks, f, _, hg, hla, hsegs, hL, hnm => by
    obtain ⟨hsub, hlen, hla'⟩ := hla
    have hrt := hg l (by simp)
    have hpL : (p : Int) + (lineSrc l).length + 1 ≤ L := by
      have := paraEnd_ge ((l' :: rest).map lineSrc) (p + (lineSrc l).length + 1)
      simp only [List.map_cons, paraEnd] at hL this
      omega
    have hsegs' : segs = (done ++ [{ start := (p : Int), stop := (p : Int) + (lineSrc l).length + 1 }]) ++
        paraSegs (p + (lineSrc l).length + 1) ((l' :: rest).map lineSrc) := by
      rw [hsegs]; simp [paraSegs]
    have hnext : segs[done.length + 1]? =
        some ((paraSegs (p + (lineSrc l).length + 1) ((l' :: rest).map lineSrc)).headD default) := by
      rw [hsegs']
      rw [List.getElem?_append_right (by simp)]
      simp only [List.length_append, List.length_cons, List.length_nil, Nat.zero_add, Nat.sub_self]
      cases rest <;> rfl
    have hstep := atoms_mid8 env henv src segs L p done.length _ nid bts hnext l hrt p
      ((p : Int) + (lineSrc l).length + 1) ks (f + need8 (l' :: rest)) rfl hnm hsub hlen hpL
    obtain ⟨rd', ih⟩ := loop_rich8 env henv src segs L nid bts (l' :: rest) (p + (lineSrc l).length + 1)
      (done ++ [{ start := (p : Int), stop := (p : Int) + (lineSrc l).length + 1 }])
      (ks ++ atomKids8 true p l) f (by simp)
      (fun x hx => hg x (by simp at hx ⊢; right; exact hx)) hla' hsegs' (by rw [hL]; rfl) (noMerge_atoms8 hrt ks p)
    refine ⟨rd', ?_⟩
    have e1 : (paraSegs p ((l :: l' :: rest).map lineSrc)).headD default =
        { start := (p : Int), stop := (p : Int) + (lineSrc l).length + 1 } := rfl
    have e0 : f + need8 (l :: l' :: rest) = f + need8 (l' :: rest) + passes8 l := by
      simp only [need8]; omega
    rw [e1, e0, hstep]
    have e2 : ((done ++ [({ start := (p : Int), stop := (p : Int) + (lineSrc l).length + 1 } : Segment)]).length : Int) =
        (done.length : Int) + 1 := by
      simp
    rw [e2] at ih
    have e3 : ((paraSegs (p + (lineSrc l).length + 1) ((l' :: rest).map lineSrc)).headD default).start =
        ((p + (lineSrc l).length + 1 : Nat) : Int) := by
      cases rest <;> rfl
    rw [e3]
    rw [ih]
    simp [richKids8]


/-! ### rich lines have the shape `RT8` -/

theorem rt_of_rich_aux8 : ∀ (as : List Atom), alternating as = true → (∃ bs rest, as = .txt bs :: rest) →
    (∃ bs, as.getLast? = some (.txt bs) ∧ ∀ c, bs.getLast? = some c → isSpace c = false ∧ c ≠ 92) →
    (∀ a ∈ as, AtomOK a) → RT8 as
  | [], _, hf, _, _ => by obtain ⟨_, _, h⟩ := hf; simp at h
  | .code _ :: _, _, hf, _, _ => by obtain ⟨_, _, h⟩ := hf; simp at h
  | [.txt bs], _, _, hl, hok => by
    obtain ⟨bs', hb', hc⟩ := hl
    simp at hb'; subst hb'
    obtain ⟨hne, hq, _⟩ := hok (.txt bs) (by simp)
    rcases List.eq_nil_or_concat bs with h0 | ⟨l0, c, hl⟩
    · exact absurd h0 hne
    · have hl' : bs = l0 ++ [c] := by simpa using hl
      have := hc c (by simp [hl'])
      exact .last bs l0 c hl' this.1 this.2 (hq 0)
  | .txt _ :: .txt _ :: _, ha, _, _, _ => by simp [alternating, Atom.isTxt] at ha
  | [.txt _, .code _], _, _, hl, _ => by obtain ⟨_, h, _⟩ := hl; simp at h
  | .txt _ :: .code _ :: .code _ :: _, ha, _, _, _ => by simp [alternating, Atom.isTxt] at ha
  | .txt bs :: .code cs :: .txt b' :: rest, ha, _, hl, hok => by
    obtain ⟨hne, hq, he⟩ := hok (.txt bs) (by simp)
    obtain ⟨hcne, hal⟩ := hok (.code cs) (by simp)
    refine .cons bs cs _ hne (hq 0) he hcne hal
      (rt_of_rich_aux8 (.txt b' :: rest) ?_ ⟨b', rest, rfl⟩ ?_ (fun a h => hok a (by simp at h ⊢; right; right; exact h)))
    · simp [alternating, Atom.isTxt] at ha ⊢; exact ha
    · obtain ⟨x, hx, hc⟩ := hl
      exact ⟨x, by simpa [List.getLast?_cons_cons] using hx, hc⟩

theorem rt_of_rich8 {as : List Atom} (h : RichLine as) : RT8 as := by
  refine rt_of_rich_aux8 as h.alt (by obtain ⟨bs, rest, he, _⟩ := h.first; exact ⟨bs, rest, he⟩) ?_ h.ok
  obtain ⟨init, bs, he, hc⟩ := h.last
  exact ⟨bs, by rw [he]; simp, hc⟩

/-! ### after the loop -/

def plain8 : Inl.Node → Bool
  | .text .. => true
  | .codeSpan [.text ..] => true
  | _ => false

theorem splitFirstDelim_plain8 : ∀ (ks : List Inl.Node), (∀ n ∈ ks, plain8 n = true) → splitFirstDelim ks = none
  | [], _ => rfl
  | n :: rest, h => by
    have ih := splitFirstDelim_plain8 rest (fun x hx => h x (by simp [hx]))
    have hn := h n (by simp)
    cases n <;> simp [plain8] at hn <;> simp [splitFirstDelim, ih]

theorem processDelimiters_plain8 (ks : List Inl.Node) (h : ∀ n ∈ ks, plain8 n = true) :
    processDelimiters .nil ks = .ok ks := by
  unfold processDelimiters splitLastDelim
  rw [splitFirstDelim_plain8 _ (fun n hn => h n (by simpa using hn))]

theorem closeLabelsL_plain8 : ∀ (ks : List Inl.Node), (∀ n ∈ ks, plain8 n = true) → closeLabelsL ks = ks
  | [], _ => by simp [closeLabelsL]
  | n :: rest, h => by
    have ih := closeLabelsL_plain8 rest (fun x hx => h x (by simp [hx]))
    have hn := h n (by simp)
    match n, hn with
    | .text .., _ => simp [closeLabelsL, closeLabels, ih]
    | .codeSpan [.text ..], _ => simp [closeLabelsL, closeLabels, ih]

theorem atomKids_plain8 (soft : Bool) : ∀ (as : List Atom) (q : Int), ∀ n ∈ atomKids8 soft q as, plain8 n = true
  | [], _ => by simp [atomKids8]
  | [.txt bs], q => by simp [atomKids8, plain8]
  | .txt bs :: b :: rest, q => by
    have ih := atomKids_plain8 soft (b :: rest) (q + bs.length)
    simp only [atomKids8, List.mem_cons]
    rintro n (rfl | hn)
    · rfl
    · exact ih n hn
  | .code cs :: rest, q => by
    have ih := atomKids_plain8 soft rest (q + cs.length + 2)
    simp only [atomKids8, List.mem_cons]
    rintro n (rfl | hn)
    · rfl
    · exact ih n hn

theorem richKids_plain8 : ∀ (ls : List (List Atom)) (p : Nat), ∀ n ∈ richKids8 p ls, plain8 n = true
  | [], _ => by simp [richKids8]
  | [l], p => atomKids_plain8 false l p
  | l :: l' :: rest, p => by
    intro n hn
    simp only [richKids8, List.mem_append] at hn
    rcases hn with hn | hn
    · exact atomKids_plain8 true l p n hn
    · exact richKids_plain8 (l' :: rest) _ n hn

/-! ### fuel -/

theorem passes_le8 {as : List Atom} (h : RT8 as) : passes8 as ≤ (lineSrc as).length := by
  induction h with
  | last bs l0 c hl _ _ _ => rw [lineSrc_single8, hl]; simp [passes8]
  | cons bs cs rest _ _ _ _ _ _ ih => rw [lineSrc_cons8]; simp [passes8]; omega

theorem need_le8 (src : Bytes) : ∀ (ls : List (List Atom)) (p : Nat), ls ≠ [] → (∀ l ∈ ls, RT8 l) →
    LinesAtE src p (ls.map lineSrc) → p + need8 ls ≤ src.length + 1
  | [], _, h, _, _ => absurd rfl h
  | [l], p, _, hg, hla => by
    have := passes_le8 (hg l (by simp))
    obtain ⟨_, hlen⟩ := hla
    simp only [need8]; omega
  | l :: l' :: rest, p, _, hg, hla => by
    have := passes_le8 (hg l (by simp))
    obtain ⟨_, _, hla'⟩ := hla
    have ih := need_le8 src (l' :: rest) _ (by simp) (fun x hx => hg x (by simp at hx ⊢; right; exact hx)) hla'
    simp only [need8] at ih ⊢; omega

/-- the inline phase on a paragraph of rich lines -/
theorem parseBlock_rich8 (env : GM.Inl.Env) (henv : env.escapedSpace = false) (src : Bytes) (p : Nat)
    (ls : List (List Atom)) (hne : ls ≠ []) (hg : ∀ l ∈ ls, RichLine l) (h : LinesAtE src p (ls.map lineSrc)) :
    GM.Inl.parseBlock env src (paraSegs p (ls.map lineSrc)) = .ok (richKids8 p ls) := by
  have hrt : ∀ l ∈ ls, RT8 l := fun l hl => rt_of_rich8 (hg l hl)
  have hne' : ls.map lineSrc ≠ [] := by simpa using hne
  have hfuel : need8 ls ≤ blockFuel src (paraSegs p (ls.map lineSrc)) := by
    have := need_le8 src ls p hne hrt h
    unfold blockFuel
    omega
  obtain ⟨f, hf⟩ : ∃ f, blockFuel src (paraSegs p (ls.map lineSrc)) = f + need8 ls := ⟨_, (Nat.sub_add_cancel hfuel).symm⟩
  obtain ⟨rd', h⟩ := loop_rich8 env henv src (paraSegs p (ls.map lineSrc))
    (paraEnd p (ls.map lineSrc) : Nat) 0 [] ls p [] [] f hne hrt h rfl rfl noMerge_nil8
  unfold parseBlock
  simp only [bind, Except.bind, new_para _ (ls.map lineSrc) p hne']
  have h' : lineLoop env (blockFuel src (paraSegs p (ls.map lineSrc))) false
      { rd := rdAt src (paraSegs p (ls.map lineSrc)) (paraEnd p (ls.map lineSrc) : Nat) 0
          ((paraSegs p (ls.map lineSrc)).headD default) p } =
      .ok { rd := rd', kids := richKids8 p ls, nextId := 0, bottoms := [] } := by
    rw [hf]
    simpa using h
  rw [h']
  simp only [processDelimiters_plain8 _ (richKids_plain8 ls p), closeLabelsL_plain8 _ (richKids_plain8 ls p),
    pure, Except.pure]


/-! ### the renderer's nodes -/

theorem sub_mid8 (src : Bytes) (q : Nat) (a b c : Bytes)
    (h : sub src q (q + (a ++ b ++ c).length) = a ++ b ++ c) :
    sub src (q + a.length) (q + a.length + b.length) = b := by
  have := sub_sub8 src q (a ++ b ++ c).length a.length (a.length + b.length) (by simp <;> omega)
  rw [h] at this
  rw [Nat.add_assoc, this, List.append_assoc, List.drop_left]
  have : a.length + b.length - a.length = b.length := by omega
  rw [this, List.take_left]

theorem inlineTrees_append8 (src : Bytes) : ∀ (a b : List Inl.Node) (x y : List GM.Node),
    GM.Convert.inlineTrees src a = .ok x → GM.Convert.inlineTrees src b = .ok y →
    GM.Convert.inlineTrees src (a ++ b) = .ok (x ++ y)
  | [], b, x, y, ha, hb => by
    simp [GM.Convert.inlineTrees, pure, Except.pure] at ha
    subst ha; simpa using hb
  | n :: a, b, x, y, ha, hb => by
    simp only [GM.Convert.inlineTrees, bind, Except.bind, List.cons_append] at ha ⊢
    cases hn : GM.Convert.inlineTree src n with
    | error e => simp [hn] at ha
    | ok t =>
      simp only [hn] at ha ⊢
      cases hr : GM.Convert.inlineTrees src a with
      | error e => simp [hr] at ha
      | ok ts =>
        simp only [hr, pure, Except.pure] at ha
        rw [inlineTrees_append8 src a b ts y hr hb]
        cases ha
        rfl

theorem value_at8 (src : Bytes) (q : Nat) (bs : Bytes) (h : sub src q (q + bs.length) = bs)
    (hlen : q + bs.length ≤ src.length) (a b : Int) (ha : a = q) (hb : b = (q : Int) + bs.length) :
    Segment.value { start := a, stop := b } src = .ok bs := by
  subst ha hb
  rw [value_plain, sliceB_nat src q bs.length hlen, h]

theorem atomTrees8 (src : Bytes) (soft : Bool) : ∀ (as : List Atom) (q : Nat),
    sub src q (q + (lineSrc as).length) = lineSrc as → q + (lineSrc as).length ≤ src.length →
    GM.Convert.inlineTrees src (atomKids8 soft q as) = .ok (atomNodes soft as)
  | [], _, _, _ => by simp [atomKids8, atomNodes, GM.Convert.inlineTrees, pure, Except.pure]
  | [.txt bs], q, h, hlen => by
    rw [lineSrc_single8] at h hlen
    simp [atomKids8, atomNodes, GM.Convert.inlineTrees, GM.Convert.inlineTree, bind, Except.bind, pure, Except.pure,
      value_at8 src q bs h hlen _ _ rfl rfl]
  | .txt bs :: b :: rest, q, h, hlen => by
    have hs : lineSrc (.txt bs :: b :: rest) = [] ++ bs ++ lineSrc (b :: rest) := by simp [lineSrc, atomSrc]
    have hs' : lineSrc (.txt bs :: b :: rest) = bs ++ lineSrc (b :: rest) ++ [] := by simp [lineSrc, atomSrc]
    have h1 := sub_mid8 src q [] bs (lineSrc (b :: rest)) (by rw [← hs]; exact h)
    have h2 := sub_mid8 src q bs (lineSrc (b :: rest)) [] (by rw [← hs']; exact h)
    have hl : (lineSrc (.txt bs :: b :: rest)).length = bs.length + (lineSrc (b :: rest)).length := by
      rw [hs]; simp
    have ih := atomTrees8 src soft (b :: rest) (q + bs.length) h2 (by omega)
    rw [Int.natCast_add] at ih
    simp only [List.length_nil, Nat.add_zero] at h1
    simp only [atomKids8, atomNodes, GM.Convert.inlineTrees, GM.Convert.inlineTree, bind, Except.bind, pure, Except.pure,
      value_at8 src q bs h1 (by omega) _ _ rfl rfl, ih]
  | .code cs :: rest, q, h, hlen => by
    have hs : lineSrc (.code cs :: rest) = [96] ++ cs ++ (96 :: lineSrc rest) := by simp [lineSrc, atomSrc]
    have hs' : lineSrc (.code cs :: rest) = (96 :: (cs ++ [96])) ++ lineSrc rest ++ [] := by simp [lineSrc, atomSrc]
    have h1 := sub_mid8 src q [96] cs (96 :: lineSrc rest) (by rw [← hs]; exact h)
    have h2 := sub_mid8 src q (96 :: (cs ++ [96])) (lineSrc rest) [] (by rw [← hs']; exact h)
    have hl : (lineSrc (.code cs :: rest)).length = cs.length + 2 + (lineSrc rest).length := by
      rw [hs]; simp; omega
    have e1 : q + (96 :: (cs ++ [96])).length = q + cs.length + 2 := by simp; omega
    rw [e1] at h2
    have ih := atomTrees8 src soft rest (q + cs.length + 2) h2 (by omega)
    have e2 : ((q + cs.length + 2 : Nat) : Int) = (q : Int) + cs.length + 2 := by push_cast; rfl
    rw [e2] at ih
    simp only [List.length_cons, List.length_nil, Nat.zero_add] at h1
    simp only [atomKids8, atomNodes, GM.Convert.inlineTrees, GM.Convert.inlineTree, bind, Except.bind, pure, Except.pure,
      value_at8 src (q + 1) cs h1 (by omega) _ _ (by push_cast; rfl) (by push_cast; rfl), ih]

theorem inlineTrees_richAux8 (src : Bytes) : ∀ (p : Nat) (ls : List (List Atom)),
    LinesAtE src p (ls.map lineSrc) → GM.Convert.inlineTrees src (richKids8 p ls) = .ok (richNodes ls)
  | _, [], _ => by simp [richKids8, richNodes, GM.Convert.inlineTrees, pure, Except.pure]
  | p, [l], h => by
    obtain ⟨hsub, hlen⟩ := h
    exact atomTrees8 src false l p hsub hlen
  | p, l :: l' :: rest, h => by
    obtain ⟨hsub, hlen, h'⟩ := h
    have hsub' := sub_prefix src p (lineSrc l).length (lineSrc l) 10 rfl hsub
    exact inlineTrees_append8 src _ _ _ _ (atomTrees8 src true l p hsub' (by omega))
      (inlineTrees_richAux8 src _ (l' :: rest) h')

/-- the renderer's nodes of the children of a paragraph of rich lines (`hg` is not needed) -/
theorem inlineTrees_rich8 (src : Bytes) (p : Nat) (ls : List (List Atom)) (_hg : ∀ l ∈ ls, RichLine l)
    (h : LinesAtE src p (ls.map lineSrc)) :
    GM.Convert.inlineTrees src (richKids8 p ls) = .ok (richNodes ls) :=
  inlineTrees_richAux8 src p ls h

end GM.Proof.CMFrag
