/-
  GM.Proof.LineRec — lemmas about the line recognisers of GM.Model.LineRec (core Lean only).
-/
import GM.Model.LineRec

namespace GM.Proof.LineRec
open GM GM.LineRec

/-- the line contains no tab byte (decidable) -/
def tabFree (l : Bytes) : Prop := (9 : UInt8) ∉ l
instance (l : Bytes) : Decidable (tabFree l) := by unfold tabFree; infer_instance

/-- number of leading space bytes -/
def leadSp (l : Bytes) : Nat := (l.takeWhile (· == 32)).length

theorem tabFree_cons {b : UInt8} {l : Bytes} : tabFree (b :: l) ↔ b ≠ 9 ∧ tabFree l := by
  simp only [tabFree, List.mem_cons, not_or, ne_eq]
  constructor
  · rintro ⟨h1, h2⟩; exact ⟨fun h => h1 h.symm, h2⟩
  · rintro ⟨h1, h2⟩; exact ⟨fun h => h1 h.symm, h2⟩

theorem tabFree_append {a b : Bytes} : tabFree (a ++ b) ↔ tabFree a ∧ tabFree b := by
  simp [tabFree]

theorem tabFree_nil : tabFree [] := by simp [tabFree]

theorem leadSp_cons_sp (l : Bytes) : leadSp (32 :: l) = leadSp l + 1 := by simp [leadSp]
theorem leadSp_cons_ne {b : UInt8} (h : b ≠ 32) (l : Bytes) : leadSp (b :: l) = 0 := by simp [leadSp, h]

/-! ### IndentWidth -/

theorem indentWidthGo_tabfree (c : Nat) (bs : Bytes) (h : tabFree bs) (w p : Nat) :
    indentWidthGo c bs w p = (w + leadSp bs, p + leadSp bs) := by
  induction bs generalizing w p with
  | nil => simp [indentWidthGo, leadSp]
  | cons b bs ih =>
    obtain ⟨hb, hbs⟩ := tabFree_cons.mp h
    unfold indentWidthGo
    by_cases h32 : b = 32
    · subst h32
      simp [ih hbs, leadSp_cons_sp]; omega
    · simp [h32, hb, leadSp_cons_ne h32]

theorem indentWidth_tabfree (bs : Bytes) (c : Nat) (h : tabFree bs) :
    indentWidth bs c = (leadSp bs, leadSp bs) := by
  simp [indentWidth, indentWidthGo_tabfree c bs h]

/-! ### IndentPosition -/

theorem ippLoop_tabfree (c width : Nat) (bs : Bytes) (h : tabFree bs) (i w : Nat) (hw : w ≤ width) :
    ippLoop c width bs i 0 w = (i + min (leadSp bs) (width - w), w + min (leadSp bs) (width - w)) := by
  induction bs generalizing i w with
  | nil => simp [ippLoop, leadSp]
  | cons b bs ih =>
    obtain ⟨hb, hbs⟩ := tabFree_cons.mp h
    unfold ippLoop
    by_cases h32 : b = 32
    · subst h32
      by_cases hlt : w < width
      · simp [hlt, ih hbs (i + 1) (w + 1) (by omega), leadSp_cons_sp]; omega
      · have : width - w = 0 := by omega
        simp [hlt, this]
    · simp [h32, hb, leadSp_cons_ne h32]

theorem indentPosition_tabfree (bs : Bytes) (c width : Nat) (h : tabFree bs) :
    indentPosition bs c width = if width ≤ leadSp bs then ((width : Int), 0) else (-1, -1) := by
  unfold indentPosition indentPositionPadding
  by_cases h0 : width = 0
  · subst h0; simp
  · simp only [beq_iff_eq, h0, if_false, ippLoop_tabfree c width bs h 0 0 (Nat.zero_le _)]
    by_cases hle : width ≤ leadSp bs
    · have : min (leadSp bs) (width - 0) = width := by omega
      simp [hle, this]
    · have : min (leadSp bs) (width - 0) = leadSp bs := by omega
      simp [hle, this]; omega

/-! ### generic list helpers -/

theorem take_len_takeWhile {α} (p : α → Bool) (l : List α) : l.take (l.takeWhile p).length = l.takeWhile p := by
  induction l with
  | nil => rfl
  | cons a l ih => by_cases h : p a <;> simp [List.takeWhile_cons, h, ih]

theorem drop_len_takeWhile {α} (p : α → Bool) (l : List α) : l.drop (l.takeWhile p).length = l.dropWhile p := by
  induction l with
  | nil => rfl
  | cons a l ih => by_cases h : p a <;> simp [List.takeWhile_cons, List.dropWhile_cons, h, ih]

theorem mem_takeWhile_imp {α} {p : α → Bool} {l : List α} {x : α} (h : x ∈ l.takeWhile p) : p x = true := by
  induction l with
  | nil => simp at h
  | cons a l ih =>
    by_cases ha : p a = true
    · simp only [List.takeWhile_cons, ha, if_true, List.mem_cons] at h
      rcases h with h | h
      · subst h; exact ha
      · exact ih h
    · simp [List.takeWhile_cons, ha] at h

theorem mem_of_mem_dropWhile {α} {p : α → Bool} {l : List α} {x : α} (h : x ∈ l.dropWhile p) : x ∈ l := by
  have := List.takeWhile_append_dropWhile (p := p) (l := l)
  rw [← this]; exact List.mem_append_right _ h

/-- leading indentation bytes -/
def isIndent (b : UInt8) : Bool := b == 32 || b == 9

theorem indentWidthGo_pos (c : Nat) (bs : Bytes) (w p : Nat) :
    (indentWidthGo c bs w p).2 = p + (bs.takeWhile isIndent).length := by
  induction bs generalizing w p with
  | nil => simp [indentWidthGo]
  | cons b bs ih =>
    unfold indentWidthGo
    by_cases h32 : b = 32
    · subst h32; simp [ih, isIndent, List.takeWhile_cons]; omega
    · by_cases h9 : b = 9
      · subst h9; simp [ih, isIndent, List.takeWhile_cons]; omega
      · simp [h32, h9, isIndent, List.takeWhile_cons]

theorem indentWidth_pos (bs : Bytes) (c : Nat) : (indentWidth bs c).2 = (bs.takeWhile isIndent).length := by
  simp [indentWidth, indentWidthGo_pos]

theorem isIndent_isSpace {b : UInt8} (h : isIndent b = true) : isSpace b = true := by
  simp [isIndent] at h; rcases h with h | h <;> subst h <;> decide

/-! ### thematic break -/

/-- the three thematic-break characters `*`, `-`, `_` -/
def isTBMark (m : UInt8) : Prop := m = 42 ∨ m = 45 ∨ m = 95

theorem tbMark_facts {m : UInt8} (h : isTBMark m) : m ≠ 0 ∧ isSpace m = false := by
  rcases h with h | h | h <;> subst h <;> decide

theorem tbLoop_marked (m : UInt8) (hm0 : m ≠ 0) (hms : isSpace m = false) (cs : Bytes) (n : Nat) :
    tbLoop cs m n = true ↔ (∀ c ∈ cs, c = m ∨ isSpace c = true) ∧ n + cs.count m > 2 := by
  induction cs generalizing n with
  | nil => simp [tbLoop]
  | cons c cs ih =>
    unfold tbLoop
    by_cases hs : isSpace c = true
    · have hcm : c ≠ m := by intro h; subst h; simp [hs] at hms
      simp [hs, ih, List.count_cons, hcm]
    · have hs' : isSpace c = false := by simpa using hs
      by_cases hcm : c = m
      · subst hcm
        simp [hs', hm0, ih, List.count_cons]; omega
      · simp [hs', hm0, hcm]

theorem tbLoop_start (cs : Bytes) :
    tbLoop cs 0 0 = true ↔ ∃ m, isTBMark m ∧ (∀ c ∈ cs, c = m ∨ isSpace c = true) ∧ 3 ≤ cs.count m := by
  induction cs with
  | nil => simp [tbLoop]
  | cons c cs ih =>
    unfold tbLoop
    by_cases hs : isSpace c = true
    · simp only [hs, if_true, ih]
      constructor
      · rintro ⟨m, hm, hall, hc⟩
        have hcm : c ≠ m := by intro h; subst h; simp [(tbMark_facts hm).2] at hs
        exact ⟨m, hm, by simpa [hs] using hall, by simpa [List.count_cons, hcm] using hc⟩
      · rintro ⟨m, hm, hall, hc⟩
        have hcm : c ≠ m := by intro h; subst h; simp [(tbMark_facts hm).2] at hs
        exact ⟨m, hm, fun x hx => hall x (List.mem_cons_of_mem _ hx), by simpa [List.count_cons, hcm] using hc⟩
    · have hs' : isSpace c = false := by simpa using hs
      by_cases hmark : isTBMark c
      · have hcond : (c == 42 || c == 45 || c == 95) = true := by
          rcases hmark with h | h | h <;> subst h <;> decide
        simp only [hs', Bool.false_eq_true, if_false, beq_self_eq_true, if_true, hcond]
        rw [tbLoop_marked c (tbMark_facts hmark).1 (tbMark_facts hmark).2]
        constructor
        · rintro ⟨hall, hc⟩
          exact ⟨c, hmark, by simpa using hall, by simp [List.count_cons]; omega⟩
        · rintro ⟨m, hm, hall, hc⟩
          have hcm : c = m := by
            rcases hall c (List.mem_cons_self) with h | h
            · exact h
            · simp [hs'] at h
          subst hcm
          exact ⟨fun x hx => hall x (List.mem_cons_of_mem _ hx), by simp [List.count_cons] at hc; omega⟩
      · have hcond : (c == 42 || c == 45 || c == 95) = false := by
          simp only [isTBMark] at hmark
          simp only [Bool.or_eq_false_iff, beq_eq_false_iff_ne]
          exact ⟨⟨fun h => hmark (Or.inl h), fun h => hmark (Or.inr (Or.inl h))⟩, fun h => hmark (Or.inr (Or.inr h))⟩
        simp only [hs', Bool.false_eq_true, if_false, beq_self_eq_true, if_true, hcond]
        constructor
        · intro h; cases h
        · rintro ⟨m, hm, hall, _⟩
          rcases hall c (List.mem_cons_self) with h | h
          · subst h; exact absurd hm hmark
          · simp [hs'] at h

theorem isThematicBreak_iff (line : Bytes) (off : Nat) :
    isThematicBreak line off = true ↔
      (indentWidth line off).1 ≤ 3 ∧
      ∃ m, isTBMark m ∧ (∀ c ∈ line, c = m ∨ isSpace c = true) ∧ 3 ≤ line.count m := by
  unfold isThematicBreak
  by_cases hw : (indentWidth line off).1 > 3
  · simp [hw]; omega
  · simp only [hw, if_false, indentWidth_pos, drop_len_takeWhile, tbLoop_start]
    have hsplit : line = line.takeWhile isIndent ++ line.dropWhile isIndent := (List.takeWhile_append_dropWhile).symm
    have hpre : ∀ x ∈ line.takeWhile isIndent, isSpace x = true := fun x hx => isIndent_isSpace (mem_takeWhile_imp hx)
    constructor
    · rintro ⟨m, hm, hall, hc⟩
      refine ⟨by omega, m, hm, ?_, ?_⟩
      · intro x hx
        rw [hsplit, List.mem_append] at hx
        rcases hx with hx | hx
        · exact Or.inr (hpre x hx)
        · exact hall x hx
      · rw [hsplit, List.count_append]; omega
    · rintro ⟨_, m, hm, hall, hc⟩
      refine ⟨m, hm, fun x hx => hall x (mem_of_mem_dropWhile hx), ?_⟩
      have h0 : (line.takeWhile isIndent).count m = 0 := by
        rw [List.count_eq_zero]
        intro hmem
        have := hpre m hmem
        simp [(tbMark_facts hm).2] at this
      rw [hsplit, List.count_append, h0] at hc
      omega

/-! ### one-line reader: advancing over a newline-free prefix -/

theorem advLoop_prefix (src a b : Bytes) (start : Nat) (hs : src.drop start = a ++ b) (ha : (10 : UInt8) ∉ a) :
    advLoop src a.length start 0 = some (start + a.length, 0) := by
  induction a generalizing start with
  | nil => simp [advLoop]
  | cons c a ih =>
    have hlt : start < src.length := by
      have := congrArg List.length hs
      simp at this; omega
    have hget : src[start]? = some c := by
      have := congrArg (·[0]?) hs
      simpa [List.getElem?_drop] using this
    have hc : c ≠ 10 := by intro h; subst h; simp at ha
    have hnext : src.drop (start + 1) = a ++ b := by
      have := congrArg (List.drop 1) hs
      simpa [List.drop_drop, Nat.add_comm] using this
    have ha' : (10 : UInt8) ∉ a := fun h => ha (List.mem_cons_of_mem _ h)
    simp only [List.length_cons, advLoop, hlt, if_true, hget]
    simp [hc, ih (start + 1) hnext ha']
    omega

theorem advance_prefix (r : LR) (a b : Bytes) (hp : r.padding = 0) (hs : r.src.drop r.start = a ++ b)
    (ha : (10 : UInt8) ∉ a) : r.advance a.length = some { r with start := r.start + a.length } := by
  unfold LR.advance
  by_cases hfast : (a.length < r.peek.length && r.padding == 0) = true
  · simp [hfast]
  · simp only [hfast, Bool.false_eq_true, if_false, hp, advLoop_prefix r.src a b r.start hs ha]
    cases r; simp_all

/-! ### block quote marker on tab-free lines -/

/-- reader positioned at the start of `line`, which is preceded on its source line by `pre` -/
def rd (pre line : Bytes) : LR := { src := pre ++ line, start := pre.length, padding := 0 }

/-- `line` is one line: a newline, if any, is its last byte -/
def oneLine (line : Bytes) : Prop := lineOf line = line
instance (line : Bytes) : Decidable (oneLine line) := by unfold oneLine; infer_instance

theorem peek_rd (pre line : Bytes) (hne : line ≠ []) (h1 : oneLine line) : (rd pre line).peek = line := by
  have : pre.length < (pre ++ line).length := by
    cases line with
    | nil => exact absurd rfl hne
    | cons c cs => simp
  have hpos : 0 < line.length := by cases line with
    | nil => exact absurd rfl hne
    | cons c cs => simp
  simp [rd, LR.peek, hpos]
  exact h1

theorem leadSp_replicate (k : Nat) (t : Bytes) (ht : t.head? ≠ some 32) : leadSp (List.replicate k 32 ++ t) = k := by
  induction k with
  | zero =>
    cases t with
    | nil => simp [leadSp]
    | cons c t => simp at ht; simp [leadSp, List.takeWhile_cons, ht]
  | succ k ih => simp [List.replicate_succ, leadSp_cons_sp, ih]

theorem drop_replicate_append (k : Nat) (t : Bytes) : (List.replicate k (32 : UInt8) ++ t).drop k = t := by
  simp [List.drop_append]

theorem notMem10_replicate (k : Nat) : (10 : UInt8) ∉ List.replicate k (32 : UInt8) ++ [62] := by
  simp [List.mem_replicate]

theorem quote_space (pre rest : Bytes) (k : Nat) (hk : k ≤ 3)
    (htf : tabFree rest) (h1 : oneLine (List.replicate k 32 ++ 62 :: 32 :: rest)) :
    quoteProcess (rd pre (List.replicate k 32 ++ 62 :: 32 :: rest)) =
      some (true, { src := pre ++ (List.replicate k 32 ++ 62 :: 32 :: rest), start := pre.length + k + 2, padding := 0 }) := by
  have hline_tf : tabFree (List.replicate k 32 ++ 62 :: 32 :: rest) := by
    rw [tabFree_append]; refine ⟨?_, ?_⟩
    · simp [tabFree, List.mem_replicate]
    · rw [tabFree_cons]; refine ⟨by decide, ?_⟩; rw [tabFree_cons]; exact ⟨by decide, htf⟩
  have hpeek := peek_rd pre _ (by simp) h1
  have hlead : leadSp (List.replicate k 32 ++ 62 :: 32 :: rest) = k := leadSp_replicate k _ (by simp)
  have hadv1 : (rd pre (List.replicate k 32 ++ 62 :: 32 :: rest)).advance (k + 1) =
      some { src := pre ++ (List.replicate k 32 ++ 62 :: 32 :: rest), start := pre.length + (k + 1), padding := 0 } := by
    have := advance_prefix (rd pre (List.replicate k 32 ++ 62 :: 32 :: rest)) (List.replicate k 32 ++ [62]) (32 :: rest) rfl
      (by simp [rd]) (notMem10_replicate k)
    simpa [rd] using this
  have hadv2 : ({ src := pre ++ (List.replicate k 32 ++ 62 :: 32 :: rest), start := pre.length + (k + 1), padding := 0 } : LR).advance 1 =
      some { src := pre ++ (List.replicate k 32 ++ 62 :: 32 :: rest), start := pre.length + (k + 1) + 1, padding := 0 } := by
    have := advance_prefix { src := pre ++ (List.replicate k 32 ++ 62 :: 32 :: rest), start := pre.length + (k + 1), padding := 0 }
      [32] rest rfl (by simp [List.drop_append]) (by decide)
    simpa using this
  unfold quoteProcess
  simp only [hpeek, indentWidth_tabfree _ _ hline_tf, hlead, drop_replicate_append]
  simp [show ¬ k > 3 by omega, hadv1, LR.advanceAndSetPadding, hadv2]
  omega

theorem tabFree_replicate_sp (k : Nat) : tabFree (List.replicate k (32 : UInt8)) := by
  simp [tabFree, List.mem_replicate]

theorem quote_nospace (pre rest : Bytes) (k : Nat) (hk : k ≤ 3)
    (htf : tabFree rest) (hns : rest.head? ≠ some 32) (h1 : oneLine (List.replicate k 32 ++ 62 :: rest)) :
    quoteProcess (rd pre (List.replicate k 32 ++ 62 :: rest)) =
      some (true, { src := pre ++ (List.replicate k 32 ++ 62 :: rest), start := pre.length + k + 1, padding := 0 }) := by
  have hline_tf : tabFree (List.replicate k 32 ++ 62 :: rest) := by
    rw [tabFree_append]; exact ⟨tabFree_replicate_sp k, tabFree_cons.mpr ⟨by decide, htf⟩⟩
  have hpeek := peek_rd pre _ (by simp) h1
  have hlead : leadSp (List.replicate k 32 ++ 62 :: rest) = k := leadSp_replicate k _ (by simp)
  have hadv1 : (rd pre (List.replicate k 32 ++ 62 :: rest)).advance (k + 1) =
      some { src := pre ++ (List.replicate k 32 ++ 62 :: rest), start := pre.length + (k + 1), padding := 0 } := by
    have := advance_prefix (rd pre (List.replicate k 32 ++ 62 :: rest)) (List.replicate k 32 ++ [62]) rest rfl
      (by simp [rd]) (notMem10_replicate k)
    simpa [rd] using this
  unfold quoteProcess
  simp only [hpeek, indentWidth_tabfree _ _ hline_tf, hlead, drop_replicate_append]
  cases rest with
  | nil => simp [show ¬ k > 3 by omega, hadv1]; omega
  | cons d t =>
    have hd32 : d ≠ 32 := by simpa using hns
    have hd9 : d ≠ 9 := (tabFree_cons.mp htf).1
    by_cases hd10 : d = 10
    · subst hd10; simp [show ¬ k > 3 by omega, hadv1]; omega
    · simp [show ¬ k > 3 by omega, hadv1, hd10, hd32, hd9]; omega

theorem quote_declines (pre tail : Bytes) (k : Nat) (htf : tabFree tail) (hns : tail.head? ≠ some 32)
    (h1 : oneLine (List.replicate k 32 ++ tail)) (hno : 3 < k ∨ tail.head? ≠ some 62) :
    quoteProcess (rd pre (List.replicate k 32 ++ tail)) = some (false, rd pre (List.replicate k 32 ++ tail)) := by
  have hline_tf : tabFree (List.replicate k 32 ++ tail) := tabFree_append.mpr ⟨tabFree_replicate_sp k, htf⟩
  have hlead : leadSp (List.replicate k 32 ++ tail) = k := leadSp_replicate k _ hns
  unfold quoteProcess
  by_cases hne : List.replicate k 32 ++ tail = []
  · have hk0 : k = 0 := by
      cases k with
      | zero => rfl
      | succ k => simp [List.replicate_succ] at hne
    have ht : tail = [] := by subst hk0; simpa using hne
    subst hk0; subst ht
    simp [rd, LR.peek, indentWidth, indentWidthGo]
  · have hpeek := peek_rd pre _ hne h1
    simp only [hpeek, indentWidth_tabfree _ _ hline_tf, hlead, drop_replicate_append]
    by_cases hk : k > 3
    · simp [hk]
    · have h62 : tail.head? ≠ some 62 := by
        rcases hno with h | h
        · omega
        · exact h
      cases tail with
      | nil => simp [hk]
      | cons c t =>
        have : c ≠ 62 := by simpa using h62
        simp [hk, this]

theorem exists_lead_decomp (line : Bytes) :
    ∃ k tail, line = List.replicate k 32 ++ tail ∧ tail.head? ≠ some 32 := by
  induction line with
  | nil => exact ⟨0, [], rfl, by simp⟩
  | cons c l ih =>
    by_cases hc : c = 32
    · obtain ⟨k, tail, hl, ht⟩ := ih
      exact ⟨k + 1, tail, by subst hc; simp [List.replicate_succ, hl], ht⟩
    · exact ⟨0, c :: l, rfl, by simpa using hc⟩

/-- what `process` does to a tab-free line, as a function of the line alone: (accepted, bytes consumed) -/
def quoteRel (line : Bytes) : Bool × Nat :=
  if leadSp line > 3 then (false, 0)
  else
    match line.drop (leadSp line) with
    | 62 :: 32 :: _ => (true, leadSp line + 2)
    | 62 :: _ => (true, leadSp line + 1)
    | _ => (false, 0)

theorem quoteProcess_tabfree (pre line : Bytes) (htf : tabFree line) (h1 : oneLine line) :
    quoteProcess (rd pre line) =
      some ((quoteRel line).1, { src := pre ++ line, start := pre.length + (quoteRel line).2, padding := 0 }) := by
  obtain ⟨k, tail, hline, hns⟩ := exists_lead_decomp line
  subst hline
  have htail_tf : tabFree tail := (tabFree_append.mp htf).2
  have hlead : leadSp (List.replicate k 32 ++ tail) = k := leadSp_replicate k _ hns
  unfold quoteRel
  rw [hlead, drop_replicate_append]
  by_cases hk : k > 3
  · rw [quote_declines pre tail k htail_tf hns h1 (Or.inl hk)]
    simp [hk, rd]
  · simp only [hk, if_false]
    cases tail with
    | nil =>
      rw [quote_declines pre [] k tabFree_nil (by simp) h1 (Or.inr (by simp))]; simp [rd]
    | cons c rest =>
      by_cases hc : c = 62
      · subst hc
        cases rest with
        | nil => rw [quote_nospace pre [] k (by omega) tabFree_nil (by simp) h1]; simp [Nat.add_assoc]
        | cons d rest =>
          by_cases hd : d = 32
          · subst hd
            rw [quote_space pre rest k (by omega) (tabFree_cons.mp (tabFree_cons.mp htail_tf).2).2 h1]
            simp [Nat.add_assoc]
          · rw [quote_nospace pre (d :: rest) k (by omega) (tabFree_cons.mp htail_tf).2 (by simpa using hd) h1]
            simp [hd, Nat.add_assoc]
      · rw [quote_declines pre (c :: rest) k htail_tf hns h1 (Or.inr (by simpa using hc))]
        simp [rd, hc]

/-! ### the view after the marker, the column after the marker -/

theorem lineOf_append_noNL (a b : Bytes) (ha : (10 : UInt8) ∉ a) : lineOf (a ++ b) = a ++ lineOf b := by
  induction a with
  | nil => rfl
  | cons c a ih =>
    have hc : c ≠ 10 := by intro h; subst h; simp at ha
    have ha' : (10 : UInt8) ∉ a := fun h => ha (List.mem_cons_of_mem _ h)
    simp [lineOf, hc, ih ha']

theorem oneLine_suffix (a b : Bytes) (ha : (10 : UInt8) ∉ a) (h : oneLine (a ++ b)) : oneLine b := by
  unfold oneLine at *
  rw [lineOf_append_noNL a b ha] at h
  exact List.append_cancel_left h

theorem peek_at (pre a b : Bytes) (hb : b ≠ []) (h1 : oneLine b) :
    ({ src := pre ++ (a ++ b), start := pre.length + a.length, padding := 0 } : LR).peek = b := by
  have hpos : 0 < b.length := by cases b with
    | nil => exact absurd rfl hb
    | cons c cs => simp
  have hlt : pre.length + a.length < (pre ++ (a ++ b)).length := by simp; omega
  have hdrop : (pre ++ (a ++ b)).drop (pre.length + a.length) = b := by
    rw [← List.append_assoc, ← List.length_append, List.drop_left]
  simp only [LR.peek, hlt, if_true, hdrop, List.replicate_zero, List.nil_append]
  exact h1

theorem colsFrom_append (v : Nat) (a b : Bytes) : colsFrom v (a ++ b) = colsFrom (colsFrom v a) b := by
  induction a generalizing v with
  | nil => rfl
  | cons c a ih => simp [colsFrom, ih]

theorem colsFrom_tabfree (v : Nat) (a : Bytes) (h : tabFree a) : colsFrom v a = v + a.length := by
  induction a generalizing v with
  | nil => rfl
  | cons c a ih =>
    obtain ⟨hc, ha⟩ := tabFree_cons.mp h
    simp [colsFrom, hc, ih _ ha]; omega

theorem lineOffset_at (pre a b : Bytes) (ha : tabFree a) :
    ({ src := pre ++ (a ++ b), start := pre.length + a.length, padding := 0 } : LR).lineOffset
      = (rd pre (a ++ b)).lineOffset + a.length := by
  have h1 : (pre ++ (a ++ b)).take (pre.length + a.length) = pre ++ a := by
    rw [← List.append_assoc, ← List.length_append, List.take_left]
  have h2 : (pre ++ (a ++ b)).take pre.length = pre := List.take_left
  simp [LR.lineOffset, rd, h1, h2, colsFrom_append, colsFrom_tabfree _ a ha]

/-! ### offset invariance of the offset-taking recognisers on tab-free lines -/

theorem tb_offset (line : Bytes) (h : tabFree line) (c c' : Nat) : isThematicBreak line c = isThematicBreak line c' := by
  simp only [isThematicBreak, indentWidth_tabfree _ _ h]

theorem fenceClose_offset (line : Bytes) (h : tabFree line) (c c' : Nat) (ch : UInt8) (n : Nat) :
    fenceClose line c ch n = fenceClose line c' ch n := by
  simp only [fenceClose, indentWidth_tabfree _ _ h]

theorem code_offset (line : Bytes) (h : tabFree line) (c c' : Nat) :
    codeOpen line c = codeOpen line c' ∧ codeContinue line c = codeContinue line c' := by
  simp only [codeOpen, codeContinue, indentPosition_tabfree _ _ _ h, and_self]

theorem blockOffset_offset (line : Bytes) (h : tabFree line) (c c' : Nat) : blockOffset line c = blockOffset line c' := by
  simp only [blockOffset, indentWidth_tabfree _ _ h]

theorem openLine_offset (wh : Which) (line : Bytes) (h : tabFree line) (c c' : Nat) :
    openLine wh line c = openLine wh line c' := by
  simp only [openLine, indentWidth_tabfree _ _ h, blockOffset_offset line h c c', tb_offset line h c c',
    (code_offset line h c c').1]

/-! ### assembled C08 statements -/

theorem oneLine_prefix (a b : Bytes) (ha : (10 : UInt8) ∉ a) (h : oneLine b) : oneLine (a ++ b) := by
  unfold oneLine at *
  rw [lineOf_append_noNL a b ha, h]

theorem peek_at' (pre a b : Bytes) (h1 : oneLine b) :
    ({ src := pre ++ (a ++ b), start := pre.length + a.length, padding := 0 } : LR).peek = b := by
  by_cases hb : b = []
  · subst hb; simp [LR.peek]
  · exact peek_at pre a b hb h1

theorem quote_consumes_space (pre r : Bytes) (k : Nat) (hk : k ≤ 3) (htf : tabFree r) (h1 : oneLine r) :
    ∃ r', quoteProcess (rd pre (List.replicate k 32 ++ 62 :: 32 :: r)) = some (true, r') ∧
      r'.start = (rd pre (List.replicate k 32 ++ 62 :: 32 :: r)).start + (k + 2) ∧ r'.padding = 0 ∧ r'.peek = r ∧
      r'.lineOffset = (rd pre (List.replicate k 32 ++ 62 :: 32 :: r)).lineOffset + (k + 2) := by
  have hsplit : List.replicate k 32 ++ 62 :: 32 :: r = (List.replicate k 32 ++ [62, 32]) ++ r := by simp
  have hno : (10 : UInt8) ∉ List.replicate k 32 ++ [62, 32] := by simp [List.mem_replicate]
  have hlen : (List.replicate k (32 : UInt8) ++ [62, 32]).length = k + 2 := by simp
  have h1' : oneLine (List.replicate k 32 ++ 62 :: 32 :: r) := by rw [hsplit]; exact oneLine_prefix _ _ hno h1
  have hatf : tabFree (List.replicate k 32 ++ [62, 32]) := by simp [tabFree, List.mem_replicate]
  refine ⟨_, quote_space pre r k hk htf h1', ?_, rfl, ?_, ?_⟩
  · simp [rd]; omega
  · have := peek_at' pre (List.replicate k 32 ++ [62, 32]) r h1
    rw [hlen, ← hsplit, ← Nat.add_assoc] at this
    exact this
  · have := lineOffset_at pre (List.replicate k 32 ++ [62, 32]) r hatf
    rw [hlen, ← hsplit, ← Nat.add_assoc] at this
    exact this

theorem quote_consumes_nospace (pre r : Bytes) (k : Nat) (hk : k ≤ 3) (htf : tabFree r) (h1 : oneLine r)
    (hns : r.head? ≠ some 32) :
    ∃ r', quoteProcess (rd pre (List.replicate k 32 ++ 62 :: r)) = some (true, r') ∧
      r'.start = (rd pre (List.replicate k 32 ++ 62 :: r)).start + (k + 1) ∧ r'.padding = 0 ∧ r'.peek = r ∧
      r'.lineOffset = (rd pre (List.replicate k 32 ++ 62 :: r)).lineOffset + (k + 1) := by
  have hsplit : List.replicate k 32 ++ 62 :: r = (List.replicate k 32 ++ [62]) ++ r := by simp
  have hno : (10 : UInt8) ∉ List.replicate k 32 ++ [62] := notMem10_replicate k
  have hlen : (List.replicate k (32 : UInt8) ++ [62]).length = k + 1 := by simp
  have h1' : oneLine (List.replicate k 32 ++ 62 :: r) := by rw [hsplit]; exact oneLine_prefix _ _ hno h1
  have hatf : tabFree (List.replicate k 32 ++ [62]) := by simp [tabFree, List.mem_replicate]
  refine ⟨_, quote_nospace pre r k hk htf hns h1', ?_, rfl, ?_, ?_⟩
  · simp [rd]; omega
  · have := peek_at' pre (List.replicate k 32 ++ [62]) r h1
    rw [hlen, ← hsplit, ← Nat.add_assoc] at this
    exact this
  · have := lineOffset_at pre (List.replicate k 32 ++ [62]) r hatf
    rw [hlen, ← hsplit, ← Nat.add_assoc] at this
    exact this

/-! ### runs of one byte -/

theorem run_length (c : UInt8) (n : Nat) (t : Bytes) (ht : t.head? ≠ some c) :
    ((List.replicate n c ++ t).takeWhile (· == c)).length = n := by
  induction n with
  | zero =>
    cases t with
    | nil => simp
    | cons d t => simp at ht; simp [List.takeWhile_cons, ht]
  | succ n ih =>
    simp only [List.replicate_succ, List.cons_append, List.takeWhile_cons, beq_self_eq_true, if_true, List.length_cons, ih]

theorem run_split (c : UInt8) (l : Bytes) :
    l = List.replicate (l.takeWhile (· == c)).length c ++ l.dropWhile (· == c) ∧
    (l.dropWhile (· == c)).head? ≠ some c := by
  induction l with
  | nil => simp
  | cons d l ih =>
    by_cases hd : d = c
    · subst hd
      simp only [List.takeWhile_cons, beq_self_eq_true, if_true, List.length_cons, List.replicate_succ,
        List.dropWhile_cons, List.cons_append]
      exact ⟨by rw [← ih.1], ih.2⟩
    · simp [List.takeWhile_cons, List.dropWhile_cons, hd]

/-! ### calcListOffset -/

theorem tabWidth_le' (n : Nat) : tabWidth n ≤ 4 := by unfold tabWidth; omega


theorem indentWidthGo_replicate (cur n : Nat) (t : Bytes) (w p : Nat) :
    indentWidthGo cur (List.replicate n 32 ++ t) w p = indentWidthGo cur t (w + n) (p + n) := by
  induction n generalizing w p with
  | zero => simp
  | succ n ih =>
    simp only [List.replicate_succ, List.cons_append, indentWidthGo, beq_self_eq_true, if_true, ih]
    congr 1 <;> omega

theorem indentWidthGo_stop (cur : Nat) (c : UInt8) (t : Bytes) (w p : Nat) (h32 : c ≠ 32) (h9 : c ≠ 9) :
    indentWidthGo cur (c :: t) w p = (w, p) := by
  simp [indentWidthGo, h32, h9]

theorem isSpace_not_indent {c : UInt8} (h : isSpace c = false) : c ≠ 32 ∧ c ≠ 9 := by
  constructor <;> (intro hc; subst hc; simp [isSpace] at h)

theorem calcListOffset_noContent (source : Bytes) (lo : Nat) : calcListOffset source (-1) lo = .ok 1 := by
  simp [calcListOffset]

theorem calcListOffset_blank (source : Bytes) (k lo : Nat) (hk : k ≤ source.length) (hb : isBlank (source.drop k) = true) :
    calcListOffset source k lo = .ok 1 := by
  have hk0 : ¬ ((k : Int) < 0) := by omega
  have hk1 : ¬ k > source.length := by omega
  simp [calcListOffset, hb, hk0, hk1]

theorem calcListOffset_spaces (source : Bytes) (k lo n : Nat) (c : UInt8) (t : Bytes) (hc : isSpace c = false)
    (hs : source.drop k = List.replicate n 32 ++ c :: t) :
    calcListOffset source k lo = .ok (if n > 4 then 1 else n) := by
  have hk : ¬ k > source.length := by
    intro h
    have : source.drop k = [] := List.drop_eq_nil_of_le (by omega)
    rw [this] at hs; simp at hs
  have hnb : isBlank (List.replicate n 32 ++ c :: t) = false := by
    simp [isBlank, hc]
  obtain ⟨h32, h9⟩ := isSpace_not_indent hc
  have hk0 : ¬ ((k : Int) < 0) := by omega
  simp [calcListOffset, hk, hk0, hs, hnb, indentWidth, indentWidthGo_replicate, indentWidthGo_stop _ c t _ _ h32 h9]

/-- one tab after the marker, then content: the offset is the tab's width measured from the marker's end column
    `lo + k` in the line (1–4 columns, never "more than 4") -/
theorem calcListOffset_tab (source : Bytes) (k lo : Nat) (c : UInt8) (t : Bytes) (hc : isSpace c = false)
    (hs : source.drop k = 9 :: c :: t) :
    calcListOffset source k lo = .ok (4 - (lo + k) % 4) := by
  have hk : ¬ k > source.length := by
    intro h
    have : source.drop k = [] := List.drop_eq_nil_of_le (by omega)
    rw [this] at hs; simp at hs
  have hnb : isBlank (9 :: c :: t) = false := by simp [isBlank, hc]
  obtain ⟨h32, h9⟩ := isSpace_not_indent hc
  have hk0 : ¬ ((k : Int) < 0) := by omega
  have hle : ¬ (tabWidth (lo + k) > 4) := by have := tabWidth_le' (lo + k); omega
  have e : ((9 : UInt8) == 32) = false := by decide
  simp [calcListOffset, hk, hk0, hs, hnb, indentWidth, indentWidthGo, e, h32, h9, hle]
  rfl

/-! ### closing fence -/

theorem isBlank_eq (ws : Bytes) : isBlank ws = ws.all isSpace := rfl

theorem fenceClose_iff (line : Bytes) (off : Nat) (ch : UInt8) (len : Nat) (hch : isSpace ch = false) (hlen : 1 ≤ len) :
    fenceClose line off ch len = .ok true ↔
      (indentWidth line off).1 ≤ 3 ∧
      ∃ n ws, len ≤ n ∧ ws.all isSpace = true ∧ line.dropWhile isIndent = List.replicate n ch ++ ws := by
  simp only [fenceClose, indentWidth_pos, drop_len_takeWhile]
  by_cases hw : (indentWidth line off).1 < 4
  · simp only [hw, if_true]
    obtain ⟨hsplit, hhead⟩ := run_split ch (line.dropWhile isIndent)
    have hdrop : line.drop ((line.takeWhile isIndent).length + ((line.dropWhile isIndent).takeWhile (· == ch)).length)
        = (line.dropWhile isIndent).dropWhile (· == ch) := by
      rw [← List.drop_drop, drop_len_takeWhile, drop_len_takeWhile]
    rw [hdrop]
    constructor
    · intro h
      by_cases hc : (((line.dropWhile isIndent).takeWhile (· == ch)).length ≥ len
          && isBlank ((line.dropWhile isIndent).dropWhile (· == ch))) = true
      · simp only [Bool.and_eq_true, decide_eq_true_eq] at hc
        exact ⟨by omega, _, _, hc.1, hc.2, hsplit⟩
      · simp [hc] at h
    · rintro ⟨_, n, ws, hn, hws, heq⟩
      have hwsh : ws.head? ≠ some ch := by
        cases ws with
        | nil => simp
        | cons d ws => simp at hws ⊢; intro h; subst h; simp [hch] at hws
      have hrun : ((line.dropWhile isIndent).takeWhile (· == ch)).length = n := by
        rw [heq]; exact run_length ch n ws hwsh
      have hrest : (line.dropWhile isIndent).dropWhile (· == ch) = ws := by
        rw [← drop_len_takeWhile, hrun, heq]; simp [List.drop_append]
      have hne : line.length ≠ 0 := by
        intro h0
        have : line = [] := List.eq_nil_of_length_eq_zero h0
        subst this
        simp at heq
        omega
      simp [hrun, hrest, hn, isBlank_eq, hws, hne]
  · simp [hw]; omega

theorem fenceClose_noPanic (line : Bytes) (off : Nat) (ch : UInt8) (len : Nat) (hlen : 1 ≤ len) :
    ∃ b, fenceClose line off ch len = .ok b := by
  unfold fenceClose
  by_cases hw : (indentWidth line off).1 < 4
  · simp only [hw, if_true]
    by_cases hc : (((line.drop (indentWidth line off).2).takeWhile (· == ch)).length ≥ len
        && isBlank (line.drop ((indentWidth line off).2 + ((line.drop (indentWidth line off).2).takeWhile (· == ch)).length))) = true
    · have hne : line.length ≠ 0 := by
        intro h0
        have : line = [] := List.eq_nil_of_length_eq_zero h0
        subst this
        simp at hc; omega
      simp [hc, hne]
    · simp [hc]
  · simp [hw]

/-! ### ATX heading -/

theorem atxScanBack_ok (line : Bytes) (start : Nat) (hs : 1 ≤ start) (j : Nat) (hj : j < line.length)
    (hjs : start ≤ j + 1) : ∃ k, atxScanBack line start j = .ok k ∧ k ≤ j ∧ start ≤ k + 1 := by
  induction j with
  | zero =>
    have : line[0]? = some line[0] := List.getElem?_eq_getElem hj
    have h0 : ¬ (0 ≥ start) := by omega
    exact ⟨0, by simp [atxScanBack, this, h0], Nat.le_refl _, hjs⟩
  | succ i ih =>
    have hget : line[i + 1]? = some line[i + 1] := List.getElem?_eq_getElem hj
    by_cases hc : (line[i + 1] == 35 && decide (i + 1 ≥ start)) = true
    · have hge : i + 1 ≥ start := by simp at hc; exact hc.2
      obtain ⟨k, hk, hki, hks⟩ := ih (by omega) hge
      exact ⟨k, by simp only [atxScanBack, hget, hc, if_true, hk], by omega, hks⟩
    · exact ⟨i + 1, by simp only [atxScanBack, hget, hc]; rfl, Nat.le_refl _, hjs⟩

theorem atxContent_ok (line : Bytes) (start stop0 : Nat) (hs : 1 ≤ start) (hstop : stop0 ≤ line.length) :
    ∃ c, atxContent line start stop0 = .ok c := by
  unfold atxContent
  by_cases h : stop0 ≤ start
  · exact ⟨none, by simp [h]⟩
  · obtain ⟨k, hk, hkj, hks⟩ := atxScanBack_ok line start hs (stop0 - 1) (by omega) (by omega)
    have hget : line[k]? = some line[k] := List.getElem?_eq_getElem (by omega)
    simp only [h, if_false, hk, hget]
    have hns : ¬ ((if (k != stop0 - 1 && !isSpace line[k]) = true then stop0 - 1 else k) + 1 < start) := by
      split <;> omega
    simp only [hns, if_false]
    split <;> split <;> exact ⟨_, rfl⟩

theorem run_le (c : UInt8) (l : Bytes) : (l.takeWhile (· == c)).length ≤ l.length :=
  (List.takeWhile_sublist _).length_le

/-- closed form of the last branch of `atxOpen` -/
theorem atxOpen_tail (line : Bytes) (pos : Nat)
    (hn : 1 ≤ ((line.drop pos).takeWhile (· == 35)).length) (hn6 : ((line.drop pos).takeWhile (· == 35)).length ≤ 6)
    (hi : pos + ((line.drop pos).takeWhile (· == 35)).length ≠ line.length)
    (hl : trimLeftSpaceLength (line.drop (pos + ((line.drop pos).takeWhile (· == 35)).length)) ≠ 0) :
    ∃ c, atxOpen line pos = .ok (some { level := ((line.drop pos).takeWhile (· == 35)).length, content := c }) := by
  have hle := run_le 35 (line.drop pos)
  simp only [List.length_drop] at hle
  generalize hn0 : ((line.drop pos).takeWhile (· == 35)).length = n at *
  have hc1 : (n == 0 || decide (n > 6)) = false := by simp; omega
  obtain ⟨c, hc⟩ := atxContent_ok line
    (if pos + n + trimLeftSpaceLength (line.drop (pos + n)) ≥ line.length then line.length - 1
      else pos + n + trimLeftSpaceLength (line.drop (pos + n)))
    (line.length - trimRightSpaceLength line) (by split <;> omega) (by omega)
  refine ⟨c, ?_⟩
  simp only [atxOpen, hn0, hc1, Bool.false_eq_true, if_false, beq_iff_eq, hi, hl, hc]
  rfl

theorem lvl_bounds (n : Nat) (h : ¬ (n == 0 || decide (n > 6)) = true) : 1 ≤ n ∧ n ≤ 6 := by
  simp at h; omega

theorem atxOpen_noPanic (line : Bytes) (pos : Nat) : ∃ r, atxOpen line pos = .ok r := by
  by_cases hc1 : (((line.drop pos).takeWhile (· == 35)).length == 0 || decide (((line.drop pos).takeWhile (· == 35)).length > 6)) = true
  · exact ⟨none, by simp only [atxOpen, hc1, if_true]⟩
  · by_cases hi : pos + ((line.drop pos).takeWhile (· == 35)).length = line.length
    · exact ⟨_, by simp only [atxOpen, hc1, Bool.false_eq_true, if_false, beq_iff_eq, hi, if_true]; rfl⟩
    · by_cases hl : trimLeftSpaceLength (line.drop (pos + ((line.drop pos).takeWhile (· == 35)).length)) = 0
      · exact ⟨none, by simp only [atxOpen, hc1, Bool.false_eq_true, if_false, beq_iff_eq, hi, hl, if_true]⟩
      · have := lvl_bounds _ hc1
        obtain ⟨c, hc⟩ := atxOpen_tail line pos this.1 this.2 hi hl
        exact ⟨_, hc⟩

theorem trimLeft_pos_iff (l : Bytes) : trimLeftSpaceLength l ≠ 0 ↔ ∃ c t, l = c :: t ∧ isSpace c = true := by
  cases l with
  | nil => simp [trimLeftSpaceLength]
  | cons c t =>
    by_cases hc : isSpace c = true <;> simp [trimLeftSpaceLength, List.takeWhile_cons, hc]

theorem atxOpen_iff (line : Bytes) (pos n : Nat) :
    (∃ c, atxOpen line pos = .ok (some { level := n, content := c })) ↔
      1 ≤ n ∧ n ≤ 6 ∧ ∃ rest, line.drop pos = List.replicate n 35 ++ rest ∧
        (rest = [] ∨ ∃ d t, rest = d :: t ∧ isSpace d = true) := by
  obtain ⟨hsplit, hhead⟩ := run_split 35 (line.drop pos)
  have hle := run_le 35 (line.drop pos)
  simp only [List.length_drop] at hle
  have hdrop : line.drop (pos + ((line.drop pos).takeWhile (· == 35)).length) = (line.drop pos).dropWhile (· == 35) := by
    rw [← List.drop_drop, drop_len_takeWhile]
  constructor
  · rintro ⟨c, hc⟩
    by_cases hc1 : (((line.drop pos).takeWhile (· == 35)).length == 0 || decide (((line.drop pos).takeWhile (· == 35)).length > 6)) = true
    · simp only [atxOpen, hc1, if_true] at hc; cases hc
    · have hn16 := lvl_bounds _ hc1
      by_cases hi : pos + ((line.drop pos).takeWhile (· == 35)).length = line.length
      · simp only [atxOpen, hc1, Bool.false_eq_true, if_false, beq_iff_eq, hi, if_true] at hc
        injection hc with hc; injection hc with hc; injection hc with hn _
        subst hn
        have hnil : (line.drop pos).dropWhile (· == 35) = [] := by
          rw [← hdrop]; exact List.drop_eq_nil_of_le (by omega)
        exact ⟨hn16.1, hn16.2, [], by rw [hnil] at hsplit; exact hsplit, Or.inl rfl⟩
      · by_cases hl : trimLeftSpaceLength (line.drop (pos + ((line.drop pos).takeWhile (· == 35)).length)) = 0
        · simp only [atxOpen, hc1, Bool.false_eq_true, if_false, beq_iff_eq, hi, hl, if_true] at hc; cases hc
        · obtain ⟨c', hc'⟩ := atxOpen_tail line pos hn16.1 hn16.2 hi hl
          rw [hc'] at hc
          injection hc with hc; injection hc with hc; injection hc with hn _
          subst hn
          rw [hdrop] at hl
          exact ⟨hn16.1, hn16.2, _, hsplit, Or.inr ((trimLeft_pos_iff _).mp hl)⟩
  · rintro ⟨h1, h6, rest, hrest, hshape⟩
    have hrh : rest.head? ≠ some 35 := by
      rcases hshape with h | ⟨d, t, h, hd⟩
      · subst h; simp
      · subst h; simp; intro h; subst h; simp [isSpace] at hd
    have hrun : ((line.drop pos).takeWhile (· == 35)).length = n := by rw [hrest]; exact run_length 35 n rest hrh
    have hrest' : (line.drop pos).dropWhile (· == 35) = rest := by
      rw [← drop_len_takeWhile, hrun, hrest]; simp
    have hlen : line.length - pos = n + rest.length := by
      have := congrArg List.length hrest; simpa using this
    rcases hshape with h | ⟨d, t, h, hd⟩
    · subst h
      have hi : pos + n = line.length := by simp at hlen; omega
      have hc1 : (n == 0 || decide (n > 6)) = false := by simp; omega
      exact ⟨none, by simp only [atxOpen, hrun, hc1, Bool.false_eq_true, if_false, beq_iff_eq, hi, if_true]⟩
    · have hi : pos + ((line.drop pos).takeWhile (· == 35)).length ≠ line.length := by
        rw [hrun]; subst h; simp at hlen; omega
      have hl : trimLeftSpaceLength (line.drop (pos + ((line.drop pos).takeWhile (· == 35)).length)) ≠ 0 := by
        rw [hdrop, hrest']; exact (trimLeft_pos_iff _).mpr ⟨d, t, h, hd⟩
      obtain ⟨c, hc⟩ := atxOpen_tail line pos (by omega) (by omega) hi hl
      rw [hrun] at hc
      exact ⟨c, hc⟩

/-! ### tabs and spaces reaching the same column -/

theorem indentWidthGo_append (c : Nat) (p r : Bytes) (hp : p.all isIndent = true) (w i : Nat) :
    indentWidthGo c (p ++ r) w i = indentWidthGo c r (indentWidthGo c p w i).1 (indentWidthGo c p w i).2 := by
  induction p generalizing w i with
  | nil => simp [indentWidthGo]
  | cons b p ih =>
    simp only [List.all_cons, Bool.and_eq_true] at hp
    obtain ⟨hb, hp⟩ := hp
    simp only [isIndent, Bool.or_eq_true, beq_iff_eq] at hb
    rcases hb with hb | hb <;> subst hb <;> simp [indentWidthGo, ih hp]

theorem indentWidthGo_nonindent (c : Nat) (r : Bytes) (hr : ∀ b ∈ r.head?, isIndent b = false) (w i : Nat) :
    indentWidthGo c r w i = (w, i) := by
  cases r with
  | nil => rfl
  | cons b t =>
    have := hr b (by simp)
    simp only [isIndent, Bool.or_eq_false_iff, beq_eq_false_iff_ne] at this
    simp [indentWidthGo, this.1, this.2]

theorem indentWidthGo_mono (c : Nat) (bs : Bytes) (w i : Nat) : w ≤ (indentWidthGo c bs w i).1 := by
  induction bs generalizing w i with
  | nil => simp [indentWidthGo]
  | cons b bs ih =>
    unfold indentWidthGo
    split
    · exact Nat.le_trans (by omega) (ih _ _)
    · split
      · exact Nat.le_trans (by omega) (ih _ _)
      · exact Nat.le_refl _

theorem indentWidthGo_fst_indep (c : Nat) (bs : Bytes) (w i j : Nat) :
    (indentWidthGo c bs w i).1 = (indentWidthGo c bs w j).1 := by
  induction bs generalizing w i j with
  | nil => rfl
  | cons b bs ih => unfold indentWidthGo; split; exact ih _ _ _; split; exact ih _ _ _; rfl

theorem ippLoop_reaches (c width : Nat) (bs : Bytes) (i w : Nat) :
    width ≤ (ippLoop c width bs i 0 w).2 ↔ width ≤ (indentWidthGo c bs w 0).1 := by
  induction bs generalizing i w with
  | nil => simp [ippLoop, indentWidthGo]
  | cons b bs ih =>
    unfold ippLoop indentWidthGo
    by_cases hlt : w < width
    · by_cases h9 : b = 9
      · subst h9
        simp only [Nat.lt_irrefl, if_false, beq_self_eq_true, hlt, decide_true, Bool.and_self, if_true]
        rw [ih, indentWidthGo_fst_indep c bs _ 0 1]
        simp
      · by_cases h32 : b = 32
        · subst h32
          have e : ((32 : UInt8) == 9) = false := by decide
          simp only [Nat.lt_irrefl, if_false, beq_self_eq_true, hlt, decide_true, Bool.and_self, if_true, e,
            Bool.false_and, Bool.false_eq_true]
          rw [ih, indentWidthGo_fst_indep c bs _ 0 1]
        · simp [h9, h32]
    · have hge : width ≤ w := by omega
      simp only [Nat.lt_irrefl, if_false, hlt, decide_false, Bool.and_false, Bool.false_eq_true]
      constructor
      · intro _
        split
        · exact Nat.le_trans (by omega) (indentWidthGo_mono _ _ _ _)
        · split
          · exact Nat.le_trans (by omega) (indentWidthGo_mono _ _ _ _)
          · exact hge
      · intro _; exact hge

/-- `IndentPosition` fails exactly when the line is indented by less than `width` columns -/
theorem indentPosition_fails_iff (bs : Bytes) (c width : Nat) :
    (indentPosition bs c width).1 < 0 ↔ (indentWidth bs c).1 < width := by
  unfold indentPosition indentPositionPadding indentWidth
  by_cases h0 : width = 0
  · subst h0; simp
  · have := ippLoop_reaches c width bs 0 0
    by_cases hr : width ≤ (ippLoop c width bs 0 0 0).2
    · simp only [beq_iff_eq, h0, if_false, ge_iff_le, hr, if_true]
      have h2 := this.mp hr
      constructor
      · intro h; simp at h; omega
      · intro h; omega
    · simp only [beq_iff_eq, h0, if_false, ge_iff_le, hr]
      have h2 : ¬ width ≤ (indentWidthGo c bs 0 0).1 := fun h => hr (this.mpr h)
      constructor
      · intro _; omega
      · intro _; decide

theorem takeWhile_all {α} (p : α → Bool) (l : List α) (h : l.all p = true) : l.takeWhile p = l := by
  induction l with
  | nil => rfl
  | cons a l ih =>
    simp only [List.all_cons, Bool.and_eq_true] at h
    simp [List.takeWhile_cons, h.1, ih h.2]

theorem tabs_eq_spaces (c : Nat) (p q r : Bytes) (hp : p.all isIndent = true) (hq : q.all isIndent = true)
    (hr : ∀ b ∈ r.head?, isIndent b = false) (hw : (indentWidth p c).1 = (indentWidth q c).1) :
    indentWidth (p ++ r) c = ((indentWidth p c).1, p.length) ∧
    indentWidth (q ++ r) c = ((indentWidth p c).1, q.length) ∧
    ∀ width, ((indentPosition (p ++ r) c width).1 < 0 ↔ (indentPosition (q ++ r) c width).1 < 0) := by
  have hposp : (indentWidth p c).2 = p.length := by
    rw [indentWidth_pos]; rw [takeWhile_all _ _ hp]
  have hposq : (indentWidth q c).2 = q.length := by
    rw [indentWidth_pos]; rw [takeWhile_all _ _ hq]
  have e1 : indentWidth (p ++ r) c = ((indentWidth p c).1, p.length) := by
    unfold indentWidth at *
    rw [indentWidthGo_append c p r hp, indentWidthGo_nonindent c r hr, hposp]
  have e2 : indentWidth (q ++ r) c = ((indentWidth p c).1, q.length) := by
    unfold indentWidth at *
    rw [indentWidthGo_append c q r hq, indentWidthGo_nonindent c r hr, hposq, hw]
  refine ⟨e1, e2, fun width => ?_⟩
  rw [indentPosition_fails_iff, indentPosition_fails_iff, e1, e2]

/-! ### trimming -/

theorem takeWhile_all_of {α} (p : α → Bool) (l : List α) : ∀ x ∈ l.takeWhile p, p x = true :=
  fun _ hx => mem_takeWhile_imp hx

/-- the last `trimRightSpaceLength l` bytes are white space -/
theorem drop_trailing_space (l : Bytes) : ∀ y ∈ l.drop (l.length - trimRightSpaceLength l), isSpace y = true := by
  intro y hy
  have h1 : (l.drop (l.length - trimRightSpaceLength l)).reverse = l.reverse.takeWhile isSpace := by
    rw [← List.take_reverse]; exact take_len_takeWhile isSpace l.reverse
  have : y ∈ l.reverse.takeWhile isSpace := by rw [← h1]; simpa using hy
  exact mem_takeWhile_imp this

theorem trimRight_le (l : Bytes) : trimRightSpaceLength l ≤ l.length := by
  have := (List.takeWhile_sublist (p := isSpace) (l := l.reverse)).length_le
  simpa [trimRightSpaceLength] using this

theorem trimLeft_le (l : Bytes) : trimLeftSpaceLength l ≤ l.length :=
  (List.takeWhile_sublist _).length_le

/-- the first `trimLeftSpaceLength l` bytes are white space -/
theorem take_leading_space (l : Bytes) : ∀ y ∈ l.take (trimLeftSpaceLength l), isSpace y = true := by
  intro y hy
  rw [trimLeftSpaceLength, take_len_takeWhile] at hy
  exact mem_takeWhile_imp hy

/-- a non-space byte is in `l` iff it is in the trimmed middle of `l` -/
theorem mem_trimmed (l : Bytes) (x : UInt8) (hx : isSpace x = false) :
    x ∈ (l.drop (trimLeftSpaceLength l)).take (l.length - trimRightSpaceLength l - trimLeftSpaceLength l) ↔ x ∈ l := by
  constructor
  · intro h; exact List.mem_of_mem_drop (List.mem_of_mem_take h)
  · intro h
    rw [← List.take_append_drop (trimLeftSpaceLength l) l, List.mem_append] at h
    rcases h with h | h
    · have := take_leading_space l x h; simp [hx] at this
    · rw [← List.take_append_drop (l.length - trimRightSpaceLength l - trimLeftSpaceLength l)
        (l.drop (trimLeftSpaceLength l)), List.mem_append] at h
      rcases h with h | h
      · exact h
      · rw [List.drop_drop] at h
        have hsub : (l.drop (trimLeftSpaceLength l + (l.length - trimRightSpaceLength l - trimLeftSpaceLength l))).Sublist
            (l.drop (l.length - trimRightSpaceLength l)) := List.drop_sublist_drop_left l (by omega)
        have := drop_trailing_space l x (hsub.subset h)
        simp [hx] at this

/-- when the two trims cover the whole string, it is all white space -/
theorem all_space_of_trims (l : Bytes) (h : l.length ≤ trimLeftSpaceLength l + trimRightSpaceLength l) :
    ∀ y ∈ l, isSpace y = true := by
  intro y hy
  rw [← List.take_append_drop (trimLeftSpaceLength l) l, List.mem_append] at hy
  rcases hy with hy | hy
  · exact take_leading_space l y hy
  · have hsub : (l.drop (trimLeftSpaceLength l)).Sublist (l.drop (l.length - trimRightSpaceLength l)) :=
      List.drop_sublist_drop_left l (by omega)
    exact drop_trailing_space l y (hsub.subset hy)

/-! ### opening code fence -/

/-- for a backtick fence whose run ended at `i`: the `return nil` fires iff the rest of the line has a backtick -/
theorem fenceInfoBad_backtick (line : Bytes) (i : Nat) (hh : (line.drop i).head? ≠ some 96) :
    fenceInfoBad 96 line i = true ↔ (96 : UInt8) ∈ line.drop i := by
  have hns : isSpace (96 : UInt8) = false := by decide
  unfold fenceInfoBad
  simp only [beq_self_eq_true, Bool.and_true, Bool.and_eq_true, decide_eq_true_eq, List.contains_eq_mem,
    decide_eq_true_eq]
  constructor
  · rintro ⟨_, hmem⟩
    exact (mem_trimmed _ 96 hns).mp hmem
  · intro hmem
    have hlen : (line.drop i).length = line.length - i := List.length_drop
    by_cases h1 : i + 1 < line.length
    · by_cases h2 : trimLeftSpaceLength (line.drop i) + trimRightSpaceLength (line.drop i) < (line.drop i).length
      · exact ⟨⟨h1, h2⟩, (mem_trimmed _ 96 hns).mpr hmem⟩
      · have := all_space_of_trims (line.drop i) (by omega) 96 hmem
        simp [hns] at this
    · -- at most one byte is left, and it is not a backtick
      exfalso
      cases hd : line.drop i with
      | nil => rw [hd] at hmem; simp at hmem
      | cons d t =>
        rw [hd] at hmem hh hlen
        have : t = [] := by
          cases t with
          | nil => rfl
          | cons _ _ => simp at hlen; omega
        subst this
        simp at hmem hh
        exact hh hmem.symm

theorem fenceInfoBad_tilde (c : UInt8) (line : Bytes) (i : Nat) (hc : c ≠ 96) : fenceInfoBad c line i = false := by
  simp [fenceInfoBad, hc]

theorem fenceOpen_iff (line : Bytes) (pos : Nat) (c : UInt8) (n : Nat) :
    (∃ info, fenceOpen line pos = .ok (some { char := c, indent := pos, length := n, info := info })) ↔
      (c = 96 ∨ c = 126) ∧ 3 ≤ n ∧
      ∃ rest, line.drop pos = List.replicate n c ++ rest ∧ rest.head? ≠ some c ∧ (c = 96 → (96 : UInt8) ∉ rest) := by
  constructor
  · rintro ⟨info, h⟩
    unfold fenceOpen at h
    cases hget : line[pos]? with
    | none => simp [hget] at h
    | some c0 =>
      simp only [hget] at h
      by_cases hc0 : (c0 != 96 && c0 != 126) = true
      · simp [hc0] at h
      · simp only [hc0, Bool.false_eq_true, if_false] at h
        by_cases hn : ((line.drop pos).takeWhile (· == c0)).length < 3
        · simp [hn] at h
        · simp only [hn, if_false] at h
          by_cases hbad : fenceInfoBad c0 line (pos + ((line.drop pos).takeWhile (· == c0)).length) = true
          · simp [hbad] at h
          · simp only [hbad, Bool.false_eq_true, if_false] at h
            injection h with h; injection h with h; injection h with hc _ hlen _
            subst hc; subst hlen
            obtain ⟨hsplit, hhead⟩ := run_split c0 (line.drop pos)
            have hc' : c0 = 96 ∨ c0 = 126 := by
              simp only [Bool.and_eq_true, bne_iff_ne, ne_eq] at hc0
              by_cases h96 : c0 = 96
              · exact Or.inl h96
              · by_cases h126 : c0 = 126
                · exact Or.inr h126
                · exact absurd ⟨h96, h126⟩ hc0
            refine ⟨hc', by omega, _, hsplit, hhead, ?_⟩
            intro h96; subst h96
            have hdrop : line.drop (pos + ((line.drop pos).takeWhile (· == 96)).length) = (line.drop pos).dropWhile (· == 96) := by
              rw [← List.drop_drop, drop_len_takeWhile]
            have := fenceInfoBad_backtick line (pos + ((line.drop pos).takeWhile (· == 96)).length) (by rw [hdrop]; exact hhead)
            rw [hdrop] at this
            intro hmem
            exact hbad (this.mpr hmem)
  · rintro ⟨hc, hn, rest, hrest, hhead, h96⟩
    have hrun : ((line.drop pos).takeWhile (· == c)).length = n := by rw [hrest]; exact run_length c n rest hhead
    have hget : line[pos]? = some c := by
      have := congrArg (·[0]?) hrest
      cases n with
      | zero => omega
      | succ n => simpa [List.getElem?_drop, List.replicate_succ] using this
    have hc0 : (c != 96 && c != 126) = false := by
      rcases hc with h | h <;> subst h <;> decide
    have hdrop : line.drop (pos + n) = rest := by
      rw [← List.drop_drop, hrest]; simp
    have hbad : fenceInfoBad c line (pos + n) = false := by
      by_cases hc96 : c = 96
      · subst hc96
        have := fenceInfoBad_backtick line (pos + n) (by rw [hdrop]; exact hhead)
        rw [hdrop] at this
        cases hb : fenceInfoBad 96 line (pos + n) with
        | false => rfl
        | true => exact absurd (this.mp hb) (h96 rfl)
      · exact fenceInfoBad_tilde c line _ hc96
    refine ⟨fenceInfo line (pos + n), ?_⟩
    unfold fenceOpen
    simp only [hget, hc0, Bool.false_eq_true, if_false, hrun, hbad]
    have : ¬ n < 3 := by omega
    simp [this]

/-! ### setext underline -/

theorem takeWhile_head_fails {α} (p : α → Bool) (l : List α) (h : ∀ x ∈ l.head?, p x = false) : l.takeWhile p = [] := by
  cases l with
  | nil => rfl
  | cons a l => have := h a (by simp); simp [List.takeWhile_cons, this]

theorem trimRight_append_spaces (a ws : Bytes) (hws : ws.all isSpace = true)
    (ha : ∀ x ∈ a.getLast?, isSpace x = false) : trimRightSpaceLength (a ++ ws) = ws.length := by
  unfold trimRightSpaceLength
  rw [List.reverse_append, List.takeWhile_append]
  have h1 : ws.reverse.takeWhile isSpace = ws.reverse := takeWhile_all _ _ (by simpa using hws)
  have h2 : a.reverse.takeWhile isSpace = [] := takeWhile_head_fails _ _ (by simpa [List.head?_reverse] using ha)
  simp [h1, h2]

theorem isSpace_setext {c : UInt8} (h : c = 61 ∨ c = 45) : isSpace c = false ∧ c ≠ 32 := by
  rcases h with h | h <;> subst h <;> decide

theorem setextBar_iff (line : Bytes) (c : UInt8) :
    setextBar line = .ok (some c) ↔
      ∃ k n ws, k ≤ 3 ∧ 1 ≤ n ∧ (c = 61 ∨ c = 45) ∧ ws.all isSpace = true ∧
        line = List.replicate k 32 ++ (List.replicate n c ++ ws) := by
  constructor
  · intro h
    unfold setextBar at h
    by_cases hk : (line.takeWhile (· == 32)).length > 3
    · simp [hk] at h
    · simp only [hk, if_false, drop_len_takeWhile] at h
      obtain ⟨hline, _⟩ := run_split 32 line
      cases hlast : line.getLast? with
      | none => simp [hlast] at h
      | some last =>
        simp only [hlast] at h
        -- which character, which level
        have key : ∀ (ch : UInt8) (lvl : Nat), (ch = 61 ∨ ch = 45) →
            lvl = ((line.dropWhile (· == 32)).takeWhile (· == ch)).length → 0 < lvl →
            (line.takeWhile (· == 32)).length + lvl =
              (if isSpace last = true then line.length - trimRightSpaceLength (line.dropWhile (· == 32)) else line.length) →
            ∃ k n ws, k ≤ 3 ∧ 1 ≤ n ∧ (ch = 61 ∨ ch = 45) ∧ ws.all isSpace = true ∧
              line = List.replicate k 32 ++ (List.replicate n ch ++ ws) := by
          intro ch lvl hch hlvl hpos he
          obtain ⟨hrest, _⟩ := run_split ch (line.dropWhile (· == 32))
          refine ⟨(line.takeWhile (· == 32)).length, lvl, (line.dropWhile (· == 32)).dropWhile (· == ch), Nat.le_of_not_gt hk, hpos, hch, ?_, ?_⟩
          · -- the remainder is exactly the trailing white space
            have hlen1 : line.length = (line.takeWhile (· == 32)).length + (line.dropWhile (· == 32)).length := by
              have h := congrArg List.length (List.takeWhile_append_dropWhile (p := (· == 32)) (l := line))
              rw [List.length_append] at h; exact h.symm
            have hlen2 : (line.dropWhile (· == 32)).length = lvl + ((line.dropWhile (· == 32)).dropWhile (· == ch)).length := by
              have := congrArg List.length hrest; simp at this; omega
            have htr := trimRight_le (line.dropWhile (· == 32))
            by_cases hsp : isSpace last = true
            · simp only [hsp, if_true] at he
              have hd : (line.dropWhile (· == 32)).dropWhile (· == ch) =
                  (line.dropWhile (· == 32)).drop ((line.dropWhile (· == 32)).length - trimRightSpaceLength (line.dropWhile (· == 32))) := by
                rw [← drop_len_takeWhile]; congr 1; omega
              rw [hd, List.all_eq_true]
              exact drop_trailing_space _
            · have hsp' : isSpace last = false := by simpa using hsp
              rw [hsp'] at he
              simp only [Bool.false_eq_true, if_false] at he
              have : ((line.dropWhile (· == 32)).dropWhile (· == ch)).length = 0 := by omega
              rw [List.eq_nil_of_length_eq_zero this]; rfl
          · rw [hlvl, ← hrest]; exact hline
        by_cases h1 : ((line.dropWhile (· == 32)).takeWhile (· == 61)).length = 0
        · simp only [h1, beq_self_eq_true, if_true, Nat.lt_irrefl, decide_false, Bool.false_and, Bool.false_or] at h
          by_cases hc2 : (decide (0 < ((line.dropWhile (· == 32)).takeWhile (· == 45)).length) &&
              (line.takeWhile (· == 32)).length + ((line.dropWhile (· == 32)).takeWhile (· == 45)).length ==
                (if isSpace last = true then line.length - trimRightSpaceLength (line.dropWhile (· == 32)) else line.length)) = true
          · simp only [hc2, if_true] at h
            injection h with h; injection h with h; subst h
            simp only [Bool.and_eq_true, decide_eq_true_eq, beq_iff_eq] at hc2
            exact key 45 _ (Or.inr rfl) rfl hc2.1 hc2.2
          · simp [hc2] at h
        · have h1' : (((line.dropWhile (· == 32)).takeWhile (· == 61)).length == 0) = false := by simpa using h1
          simp only [h1', Bool.false_eq_true, if_false, Nat.lt_irrefl, decide_false, Bool.false_and, Bool.or_false] at h
          by_cases hc2 : (decide (0 < ((line.dropWhile (· == 32)).takeWhile (· == 61)).length) &&
              (line.takeWhile (· == 32)).length + ((line.dropWhile (· == 32)).takeWhile (· == 61)).length ==
                (if isSpace last = true then line.length - trimRightSpaceLength (line.dropWhile (· == 32)) else line.length)) = true
          · simp only [hc2, if_true] at h
            injection h with h; injection h with h; subst h
            simp only [Bool.and_eq_true, decide_eq_true_eq, beq_iff_eq] at hc2
            exact key 61 _ (Or.inl rfl) rfl hc2.1 hc2.2
          · simp [hc2] at h
  · rintro ⟨k, n, ws, hk, hn, hc, hws, hline⟩
    obtain ⟨hcs, hc32⟩ := isSpace_setext hc
    have hwsh : ∀ (d : UInt8), d ≠ 32 → isSpace d = false → ws.head? ≠ some d := by
      intro d _ hd
      cases ws with
      | nil => simp
      | cons e ws => simp at hws ⊢; intro h; subst h; simp [hd] at hws
    have hnh : (List.replicate n c ++ ws).head? ≠ some 32 := by
      cases n with
      | zero => omega
      | succ n => simp [List.replicate_succ]; exact hc32
    have hlead : (line.takeWhile (· == 32)).length = k := by rw [hline]; exact run_length 32 k _ hnh
    have hrest : line.dropWhile (· == 32) = List.replicate n c ++ ws := by
      rw [← drop_len_takeWhile, hlead, hline]; simp
    have hlen : line.length = k + (n + ws.length) := by rw [hline]; simp
    have hrunc : ((List.replicate n c ++ ws).takeWhile (· == c)).length = n := run_length c n ws (hwsh c hc32 hcs)
    -- the last byte and the trailing white space
    have hlastrep : (List.replicate n c).getLast? = some c := by
      rw [List.getLast?_replicate]; simp; omega
    have htrim : trimRightSpaceLength (List.replicate n c ++ ws) = ws.length :=
      trimRight_append_spaces _ ws hws (by rw [hlastrep]; simpa using hcs)
    have hlast : ∃ last, line.getLast? = some last ∧
        (if isSpace last = true then line.length - trimRightSpaceLength (List.replicate n c ++ ws) else line.length) = k + n := by
      cases hw : ws.getLast? with
      | none =>
        have : ws = [] := by simpa using hw
        subst this
        refine ⟨c, by rw [hline]; simp [List.getLast?_append, hlastrep], ?_⟩
        simp [hcs, hlen]
      | some l =>
        have hl : isSpace l = true := by
          have := List.mem_of_getLast? hw
          exact (List.all_eq_true.mp hws) l this
        refine ⟨l, by rw [hline]; simp [List.getLast?_append, hw], ?_⟩
        simp [hl, htrim, hlen]; omega
    obtain ⟨last, hl1, hl2⟩ := hlast
    unfold setextBar
    have hk' : ¬ (line.takeWhile (· == 32)).length > 3 := by omega
    have hdropk : line.drop k = List.replicate n c ++ ws := by rw [hline]; simp
    have hk3 : ¬ k > 3 := by omega
    simp only [hlead, hdropk, hl1, hk3, if_false]
    rw [hl2]
    have hn0 : (n == 0) = false := by simp; omega
    have hpos : decide (n > 0) = true := by simp; omega
    rcases hc with hc | hc
    · subst hc
      simp only [hrunc, hn0, hpos, beq_self_eq_true, Bool.and_self, Bool.true_or, if_true, Bool.false_eq_true, if_false]
    · subst hc
      have h61 : ((List.replicate n 45 ++ ws).takeWhile (· == 61)).length = 0 := by
        cases n with
        | zero => omega
        | succ n => simp [List.replicate_succ]
      simp only [h61, hrunc, hpos, beq_self_eq_true, Bool.and_self, Bool.or_true, if_true]

/-! ### list markers -/

/-- what may follow a list marker: end of line (nothing, or the line's LF) or a space / tab -/
def restOK : Bytes → Bool
  | [] => true
  | d :: _ => d == 10 || d == 32 || d == 9

/-- bullet list marker characters `-`, `*`, `+` -/
def isBullet (c : UInt8) : Bool := c == 45 || c == 42 || c == 43

theorem iw_zero_iff (c : UInt8) (cs : Bytes) : ((indentWidth (c :: cs) 0).1 == 0) = !(c == 32 || c == 9) := by
  unfold indentWidth indentWidthGo
  by_cases h32 : c = 32
  · subst h32
    have := indentWidthGo_mono 0 cs (0 + 1) (0 + 1)
    simp only [beq_self_eq_true, if_true, Bool.true_or, Bool.not_true, beq_eq_false_iff_ne, ne_eq]
    omega
  · by_cases h9 : c = 9
    · subst h9
      have := indentWidthGo_mono 0 cs (0 + tabWidth (0 + 0)) (0 + 1)
      simp [tabWidth] at this ⊢; omega
    · simp [h32, h9]

theorem pliFinish_typ (line : Bytes) (k i : Nat) (typ : ListTyp) :
    (pliFinish line k i typ).2 = if restOK (line.drop i) then typ else .notList := by
  unfold pliFinish
  cases h : line.drop i with
  | nil => simp [restOK]
  | cons c cs =>
    simp only [iw_zero_iff, restOK]
    by_cases h10 : c = 10
    · subst h10; simp
    · by_cases h32 : c = 32
      · subst h32; simp
      · by_cases h9 : c = 9
        · subst h9; simp
        · simp [h10, h32, h9]

/-- the list type decided on the line after its leading spaces -/
def tailTyp : Bytes → ListTyp
  | [] => .notList
  | c :: cs =>
    if isBullet c then (if restOK cs then .bullet else .notList)
    else
      let nd := ((c :: cs).takeWhile isNumeric).length
      if nd == 0 || nd > 9 then .notList
      else
        match (c :: cs).drop nd with
        | d :: rest => if d == 46 || d == 41 then (if restOK rest then .ordered else .notList) else .notList
        | [] => .notList

theorem pli_typ (k : Nat) (tail : Bytes) (hns : tail.head? ≠ some 32) :
    (parseListItem (List.replicate k 32 ++ tail)).2 = if k > 3 then .notList else tailTyp tail := by
  unfold parseListItem
  simp only [run_length 32 k tail hns, drop_replicate_append]
  by_cases hk : k > 3
  · simp [hk]
  · simp only [hk, if_false]
    cases tail with
    | nil => simp [tailTyp]
    | cons c cs =>
      simp only [tailTyp, isBullet]
      by_cases hb : (c == 45 || c == 42 || c == 43) = true
      · simp only [hb, if_true, pliFinish_typ]
        have : (List.replicate k (32 : UInt8) ++ c :: cs).drop (k + 1) = cs := by
          rw [← List.drop_drop, drop_replicate_append]; rfl
        rw [this]
      · simp only [hb, Bool.false_eq_true, if_false]
        by_cases hnd : (((c :: cs).takeWhile isNumeric).length == 0 || decide (((c :: cs).takeWhile isNumeric).length > 9)) = true
        · simp only [hnd, if_true]
        · simp only [hnd, Bool.false_eq_true, if_false]
          cases hd : (c :: cs).drop ((c :: cs).takeWhile isNumeric).length with
          | nil => rfl
          | cons d rest =>
            simp only []
            by_cases hdel : (d == 46 || d == 41) = true
            · simp only [hdel, if_true, pliFinish_typ]
              have : (List.replicate k (32 : UInt8) ++ c :: cs).drop (k + ((c :: cs).takeWhile isNumeric).length + 1) = rest := by
                rw [Nat.add_assoc, ← List.drop_drop, drop_replicate_append, ← List.drop_drop, hd]; rfl
              rw [this]
            · simp only [hdel, Bool.false_eq_true, if_false]

theorem isBullet_not32 {c : UInt8} (h : isBullet c = true) : c ≠ 32 := by
  intro h32; subst h32; simp [isBullet] at h

theorem numeric_facts : ∀ c : UInt8, isNumeric c = true → isBullet c = false ∧ c ≠ 32 ∧ c ≠ 46 ∧ c ≠ 41 := by
  apply forall_uint8; decide +kernel

theorem takeWhile_append_stop {α} (p : α → Bool) (ds t : List α) (hds : ds.all p = true)
    (ht : ∀ x ∈ t.head?, p x = false) : (ds ++ t).takeWhile p = ds := by
  rw [List.takeWhile_append, takeWhile_all p ds hds, takeWhile_head_fails p t ht]; simp

theorem parseListItem_bullet_iff (line : Bytes) :
    (parseListItem line).2 = .bullet ↔
      ∃ k c rest, k ≤ 3 ∧ isBullet c = true ∧ line = List.replicate k 32 ++ c :: rest ∧ restOK rest = true := by
  constructor
  · intro h
    obtain ⟨k, tail, hline, hns⟩ := exists_lead_decomp line
    subst hline
    rw [pli_typ k tail hns] at h
    by_cases hk : k > 3
    · simp [hk] at h
    · simp only [hk, if_false] at h
      cases tail with
      | nil => simp [tailTyp] at h
      | cons c cs =>
        simp only [tailTyp] at h
        by_cases hb : isBullet c = true
        · simp only [hb, if_true] at h
          by_cases hr : restOK cs = true
          · exact ⟨k, c, cs, by omega, hb, rfl, hr⟩
          · simp [hr] at h
        · simp only [hb, Bool.false_eq_true, if_false] at h
          split at h
          · cases h
          · split at h
            · split at h
              · split at h <;> cases h
              · cases h
            · cases h
  · rintro ⟨k, c, rest, hk, hb, hline, hr⟩
    subst hline
    rw [pli_typ k (c :: rest) (by simpa using isBullet_not32 hb)]
    have : ¬ k > 3 := by omega
    simp [this, tailTyp, hb, hr]

theorem parseListItem_ordered_iff (line : Bytes) :
    (parseListItem line).2 = .ordered ↔
      ∃ k ds d rest, k ≤ 3 ∧ 1 ≤ ds.length ∧ ds.length ≤ 9 ∧ ds.all isNumeric = true ∧ (d = 46 ∨ d = 41) ∧
        line = List.replicate k 32 ++ (ds ++ d :: rest) ∧ restOK rest = true := by
  constructor
  · intro h
    obtain ⟨k, tail, hline, hns⟩ := exists_lead_decomp line
    subst hline
    rw [pli_typ k tail hns] at h
    by_cases hk : k > 3
    · simp [hk] at h
    · simp only [hk, if_false] at h
      cases tail with
      | nil => simp [tailTyp] at h
      | cons c cs =>
        simp only [tailTyp] at h
        by_cases hb : isBullet c = true
        · simp only [hb, if_true] at h
          split at h <;> cases h
        · simp only [hb, Bool.false_eq_true, if_false] at h
          by_cases hnd : (((c :: cs).takeWhile isNumeric).length == 0 || decide (((c :: cs).takeWhile isNumeric).length > 9)) = true
          · simp [hnd] at h
          · simp only [hnd, Bool.false_eq_true, if_false] at h
            cases hd : (c :: cs).drop ((c :: cs).takeWhile isNumeric).length with
            | nil => simp [hd] at h
            | cons d rest =>
              simp only [hd] at h
              by_cases hdel : (d == 46 || d == 41) = true
              · simp only [hdel, if_true] at h
                by_cases hr : restOK rest = true
                · have hsplit : c :: cs = (c :: cs).takeWhile isNumeric ++ d :: rest := by
                    rw [← hd, drop_len_takeWhile]; exact (List.takeWhile_append_dropWhile).symm
                  have hbounds : 1 ≤ ((c :: cs).takeWhile isNumeric).length ∧ ((c :: cs).takeWhile isNumeric).length ≤ 9 := by
                    generalize ((c :: cs).takeWhile isNumeric).length = m at hnd
                    simp at hnd; omega
                  refine ⟨k, (c :: cs).takeWhile isNumeric, d, rest, by omega, hbounds.1, hbounds.2, ?_, ?_, ?_, hr⟩
                  · rw [List.all_eq_true]; exact takeWhile_all_of _ _
                  · simpa using hdel
                  · rw [← hsplit]
                · simp [hr] at h
              · simp [hdel] at h
  · rintro ⟨k, ds, d, rest, hk, h1, h9, hds, hd, hline, hr⟩
    subst hline
    cases ds with
    | nil => simp at h1
    | cons c cs =>
      have hc := numeric_facts c (by simp only [List.all_cons, Bool.and_eq_true] at hds; exact hds.1)
      have hdn : isNumeric d = false := by rcases hd with h | h <;> subst h <;> decide
      rw [pli_typ k (c :: cs ++ d :: rest) (by simpa using hc.2.1)]
      have hk' : ¬ k > 3 := by omega
      have htw : ((c :: (cs ++ d :: rest)).takeWhile isNumeric) = c :: cs := by
        have := takeWhile_append_stop isNumeric (c :: cs) (d :: rest) hds (by simpa using hdn)
        simpa using this
      have hdrop : (c :: (cs ++ d :: rest)).drop (cs.length + 1) = d :: rest := by
        have : c :: (cs ++ d :: rest) = (c :: cs) ++ d :: rest := rfl
        rw [this, ← List.length_cons (a := c), List.drop_left]
      have hdel : (d == 46 || d == 41) = true := by rcases hd with h | h <;> subst h <;> decide
      have hlen : ¬ ((cs.length + 1 == 0) || decide (cs.length + 1 > 9)) = true := by
        simp at h9 ⊢; omega
      simp only [hk', if_false, List.cons_append, tailTyp, hc.1, Bool.false_eq_true, htw, List.length_cons, hlen, hdrop, hdel,
        if_true, hr]

theorem pliFinish_match (line : Bytes) (k i : Nat) (typ : ListTyp) (hr : restOK (line.drop i) = true) :
    let m := (pliFinish line k i typ).1
    m.r0 = 0 ∧ m.r1 = k ∧ m.r2 = k ∧ m.r3 = i ∧ m.r4 = (if line.drop i = [] then -1 else (i : Int)) ∧
    (line.drop i = [] → m.r5 = -1) ∧
    (line.drop i ≠ [] → m.r5 = line.length ∨ m.r5 = (line.length - 1 : Nat)) := by
  have ht := pliFinish_typ line k i typ
  unfold pliFinish at *
  cases h : line.drop i with
  | nil => simp
  | cons c cs =>
    rw [h] at hr
    have hcond : (c != 10 && (indentWidth (c :: cs) 0).1 == 0) = false := by
      rw [iw_zero_iff]
      simp only [restOK, Bool.or_eq_true, beq_iff_eq] at hr
      rcases hr with (h | h) | h <;> subst h <;> decide
    simp only [hcond, Bool.false_eq_true, if_false]
    refine ⟨?_, ?_, ?_, ?_, ?_, ?_, ?_⟩
    all_goals try simp
    split
    · exact Or.inr rfl
    · exact Or.inl rfl

/-- the match array of an accepted bullet item -/
theorem parseListItem_bullet_match (k : Nat) (c : UInt8) (rest : Bytes) (hk : k ≤ 3) (hb : isBullet c = true)
    (hr : restOK rest = true) :
    let m := (parseListItem (List.replicate k 32 ++ c :: rest)).1
    m.r0 = 0 ∧ m.r1 = k ∧ m.r2 = k ∧ m.r3 = (k + 1 : Nat) ∧ m.r4 = (if rest = [] then -1 else ((k + 1 : Nat) : Int)) := by
  have hns : (c :: rest).head? ≠ some 32 := by simpa using isBullet_not32 hb
  have hdrop : (List.replicate k (32 : UInt8) ++ c :: rest).drop (k + 1) = rest := by
    rw [← List.drop_drop, drop_replicate_append]; rfl
  have hfin := pliFinish_match (List.replicate k 32 ++ c :: rest) k (k + 1) .bullet (by rw [hdrop]; exact hr)
  rw [hdrop] at hfin
  unfold parseListItem
  simp only [run_length 32 k (c :: rest) hns, drop_replicate_append]
  have hk' : ¬ k > 3 := by omega
  have hb' : (c == 45 || c == 42 || c == 43) = true := hb
  simp only [hk', if_false, hb', if_true]
  exact ⟨hfin.1, hfin.2.1, hfin.2.2.1, hfin.2.2.2.1, hfin.2.2.2.2.1⟩

/-- the match array of an accepted ordered item -/
theorem parseListItem_ordered_match (k : Nat) (ds : Bytes) (d : UInt8) (rest : Bytes) (hk : k ≤ 3)
    (h1 : 1 ≤ ds.length) (h9 : ds.length ≤ 9) (hds : ds.all isNumeric = true) (hd : d = 46 ∨ d = 41)
    (hr : restOK rest = true) :
    let m := (parseListItem (List.replicate k 32 ++ (ds ++ d :: rest))).1
    m.r0 = 0 ∧ m.r1 = k ∧ m.r2 = k ∧ m.r3 = (k + ds.length + 1 : Nat) ∧
      m.r4 = (if rest = [] then -1 else ((k + ds.length + 1 : Nat) : Int)) := by
  cases ds with
  | nil => simp at h1
  | cons c cs =>
    have hc := numeric_facts c (by simp only [List.all_cons, Bool.and_eq_true] at hds; exact hds.1)
    have hdn : isNumeric d = false := by rcases hd with h | h <;> subst h <;> decide
    have hns : (c :: cs ++ d :: rest).head? ≠ some 32 := by simpa using hc.2.1
    have htw : ((c :: (cs ++ d :: rest)).takeWhile isNumeric) = c :: cs := by
      have := takeWhile_append_stop isNumeric (c :: cs) (d :: rest) hds (by simpa using hdn)
      simpa using this
    have hdrop1 : (c :: (cs ++ d :: rest)).drop (cs.length + 1) = d :: rest := by
      have : c :: (cs ++ d :: rest) = (c :: cs) ++ d :: rest := rfl
      rw [this, ← List.length_cons (a := c), List.drop_left]
    have hdrop : (List.replicate k (32 : UInt8) ++ (c :: cs ++ d :: rest)).drop (k + (cs.length + 1) + 1) = rest := by
      rw [Nat.add_assoc, ← List.drop_drop, drop_replicate_append, ← List.drop_drop]
      show ((c :: (cs ++ d :: rest)).drop (cs.length + 1)).drop 1 = rest
      rw [hdrop1]; rfl
    have hfin := pliFinish_match (List.replicate k 32 ++ (c :: cs ++ d :: rest)) k (k + (cs.length + 1) + 1) .ordered
      (by rw [hdrop]; exact hr)
    rw [hdrop] at hfin
    have hdel : (d == 46 || d == 41) = true := by rcases hd with h | h <;> subst h <;> decide
    have hlen : ¬ ((cs.length + 1 == 0) || decide (cs.length + 1 > 9)) = true := by
      simp at h9 ⊢; omega
    have hb' : (c == 45 || c == 42 || c == 43) = false := hc.1
    have hk' : ¬ k > 3 := by omega
    unfold parseListItem
    simp only [List.cons_append, run_length 32 k (c :: (cs ++ d :: rest)) hns, drop_replicate_append, hk', if_false, hb', Bool.false_eq_true, htw,
      List.length_cons, hlen, hdrop1, hdel, if_true]
    simp only [List.cons_append, List.length_cons] at hfin
    exact ⟨hfin.1, hfin.2.1, hfin.2.2.1, hfin.2.2.2.1, hfin.2.2.2.2.1⟩

/-! ### IndentPosition: which column it stops at -/

theorem tabWidth_le (n : Nat) : tabWidth n ≤ 4 ∧ 1 ≤ tabWidth n := by
  unfold tabWidth; omega

/-- the loop consumes `m` indentation bytes whose width (from column `c`, starting at width `w`) is the returned width -/
theorem ippLoop_spec (c width : Nat) (bs : Bytes) (i w : Nat) (hw : w < width + 4) :
    ∃ m, (ippLoop c width bs i 0 w).1 = i + m ∧ m ≤ bs.length ∧ (bs.take m).all isIndent = true ∧
      (ippLoop c width bs i 0 w).2 = (indentWidthGo c (bs.take m) w 0).1 ∧ (ippLoop c width bs i 0 w).2 < width + 4 := by
  induction bs generalizing i w with
  | nil => exact ⟨0, by simp [ippLoop, indentWidthGo, hw]⟩
  | cons b bs ih =>
    unfold ippLoop
    by_cases h9 : (b == 9 && decide (w < width)) = true
    · simp only [Nat.lt_irrefl, if_false, h9, if_true]
      have hb : b = 9 := by simp at h9; exact h9.1
      have hlt : w < width := by simp at h9; exact h9.2
      obtain ⟨m, h1, h2, h3, h4, h5⟩ := ih (i + 1) (w + tabWidth (c + w)) (by have := tabWidth_le (c + w); omega)
      refine ⟨m + 1, by rw [h1]; omega, by simp; omega, ?_, ?_, h5⟩
      · subst hb; simp [List.take_succ_cons, h3, isIndent]
      · subst hb
        rw [h4, List.take_succ_cons]
        simp only [indentWidthGo, beq_self_eq_true, if_true]
        have e : ((9 : UInt8) == 32) = false := by decide
        simp only [e, Bool.false_eq_true, if_false]
        exact indentWidthGo_fst_indep _ _ _ _ _
    · simp only [Nat.lt_irrefl, if_false, h9, Bool.false_eq_true]
      by_cases h32 : (b == 32 && decide (w < width)) = true
      · simp only [h32, if_true]
        have hb : b = 32 := by simp at h32; exact h32.1
        have hlt : w < width := by simp at h32; exact h32.2
        obtain ⟨m, h1, h2, h3, h4, h5⟩ := ih (i + 1) (w + 1) (by omega)
        refine ⟨m + 1, by rw [h1]; omega, by simp; omega, ?_, ?_, h5⟩
        · subst hb; simp [List.take_succ_cons, h3, isIndent]
        · subst hb
          rw [h4, List.take_succ_cons]
          simp only [indentWidthGo, beq_self_eq_true, if_true]
          exact indentWidthGo_fst_indep _ _ _ _ _
      · simp only [h32, Bool.false_eq_true, if_false]
        exact ⟨0, by simp [indentWidthGo, hw]⟩

/-- `indentPosition_column`. When `IndentPosition(bs, c, width)` succeeds with `(pos, padding)`: the first `pos` bytes
    are spaces/tabs, their width from column `c` is exactly `width + padding`, and `padding ≤ 3` — i.e. position minus
    padding denotes exactly column `c + width`. -/
theorem indentPosition_column (bs : Bytes) (c width : Nat) (hw : 0 < width)
    (hok : width ≤ (indentWidth bs c).1) :
    ∃ m pad : Nat, indentPosition bs c width = ((m : Int), (pad : Int)) ∧ m ≤ bs.length ∧
      (bs.take m).all isIndent = true ∧ (indentWidth (bs.take m) c).1 = width + pad ∧ pad ≤ 3 := by
  obtain ⟨m, h1, h2, h3, h4, h5⟩ := ippLoop_spec c width bs 0 0 (by omega)
  have hreach : width ≤ (ippLoop c width bs 0 0 0).2 := (ippLoop_reaches c width bs 0 0).mpr hok
  refine ⟨m, (ippLoop c width bs 0 0 0).2 - width, ?_, h2, h3, ?_, by omega⟩
  · unfold indentPosition indentPositionPadding
    have h0 : (width == 0) = false := by simp; omega
    simp only [h0, Bool.false_eq_true, if_false, ge_iff_le, hreach, if_true, h1]
    simp
  · unfold indentWidth; rw [← h4]; omega

theorem tabs_eq_spaces_padding (c : Nat) (p q r : Bytes) (hp : p.all isIndent = true) (hq : q.all isIndent = true)
    (hr : ∀ b ∈ r.head?, isIndent b = false) (hw : (indentWidth p c).1 = (indentWidth q c).1)
    (width : Nat) (hpos : 0 < width) (hle : width ≤ (indentWidth p c).1) :
    ∃ m₁ pad₁ m₂ pad₂ : Nat,
      indentPosition (p ++ r) c width = ((m₁ : Int), (pad₁ : Int)) ∧
      indentPosition (q ++ r) c width = ((m₂ : Int), (pad₂ : Int)) ∧
      (indentWidth ((p ++ r).take m₁) c).1 = width + pad₁ ∧ (indentWidth ((q ++ r).take m₂) c).1 = width + pad₂ ∧
      pad₁ ≤ 3 ∧ pad₂ ≤ 3 := by
  obtain ⟨e1, e2, _⟩ := tabs_eq_spaces c p q r hp hq hr hw
  obtain ⟨m₁, pad₁, h1, _, _, h1w, h1p⟩ := indentPosition_column (p ++ r) c width hpos (by rw [e1]; exact hle)
  obtain ⟨m₂, pad₂, h2, _, _, h2w, h2p⟩ := indentPosition_column (q ++ r) c width hpos (by rw [e2]; exact hle)
  exact ⟨m₁, pad₁, m₂, pad₂, h1, h2, h1w, h2w, h1p, h2p⟩

/-! ### ATX content range -/

theorem atxScanBack_stop (line : Bytes) (start j : Nat) (d : UInt8) (hj : line[j]? = some d) (hd : d ≠ 35) :
    atxScanBack line start j = .ok j := by
  cases j with
  | zero => simp [atxScanBack, hj, hd]
  | succ j => simp [atxScanBack, hj, hd]

theorem getElem?_mid (P T : Bytes) (d : UInt8) : (P ++ d :: T)[P.length]? = some d := by
  simp [List.getElem?_append_right]

theorem atxScan_run (P T : Bytes) (d : UInt8) (h start : Nat) (hd : d ≠ 35) (hs : start ≤ P.length + 1) :
    atxScanBack (P ++ d :: (List.replicate h 35 ++ T)) start (P.length + h) = .ok P.length := by
  induction h generalizing T with
  | zero => exact atxScanBack_stop _ _ _ d (by simpa using getElem?_mid P T d) hd
  | succ h ih =>
    have hre : List.replicate (h + 1) (35 : UInt8) ++ T = List.replicate h 35 ++ (35 :: T) := by
      rw [List.replicate_succ', List.append_assoc]; rfl
    rw [hre]
    have hget : (P ++ d :: (List.replicate h 35 ++ 35 :: T))[P.length + h + 1]? = some 35 := by
      have : P ++ d :: (List.replicate h 35 ++ 35 :: T) = (P ++ d :: List.replicate h 35) ++ 35 :: T := by simp
      rw [this]
      have hl : (P ++ d :: List.replicate h (35 : UInt8)).length = P.length + h + 1 := by simp; omega
      rw [← hl]; exact getElem?_mid _ _ _
    have hge : P.length + h + 1 ≥ start := by omega
    show atxScanBack _ start (P.length + h + 1) = _
    simp only [atxScanBack, hget, beq_self_eq_true, hge, decide_true, Bool.and_self, if_true]
    exact ih (35 :: T)

theorem atxContent_core (P T : Bytes) (d : UInt8) (h start : Nat) (hd : d ≠ 35) (hs : start ≤ P.length) :
    atxContent (P ++ d :: (List.replicate h 35 ++ T)) start (P.length + 1 + h) =
      .ok (some (start, P.length + 1 + (if isSpace d = true then 0 else h))) := by
  unfold atxContent
  have h1 : ¬ (P.length + 1 + h ≤ start) := by omega
  have h2 : P.length + 1 + h - 1 = P.length + h := by omega
  have hgetd : (P ++ d :: (List.replicate h 35 ++ T))[P.length]? = some d := getElem?_mid _ _ _
  simp only [h1, if_false, h2, atxScan_run P T d h start hd (by omega), hgetd]
  -- the stop position
  have hstop : (if (P.length != P.length + h && !isSpace d) = true then P.length + h else P.length) + 1
      = P.length + 1 + (if isSpace d = true then 0 else h) := by
    by_cases hsp : isSpace d = true
    · simp [hsp]
    · have hsp' : isSpace d = false := by simpa using hsp
      by_cases h0 : h = 0
      · subst h0; simp [hsp']
      · have : (P.length != P.length + h) = true := by simp; omega
        simp [hsp', this]; omega
  rw [hstop]
  have h3 : ¬ (P.length + 1 + (if isSpace d = true then 0 else h) < start) := by omega
  have hany : (((P ++ d :: (List.replicate h 35 ++ T)).drop start).take
      (P.length + 1 + (if isSpace d = true then 0 else h) - start)).any (· != 35) = true := by
    rw [List.any_eq_true]
    refine ⟨d, ?_, by simpa using hd⟩
    rw [List.mem_iff_getElem?]
    refine ⟨P.length - start, ?_⟩
    rw [List.getElem?_take]
    have hlt : P.length - start < P.length + 1 + (if isSpace d = true then 0 else h) - start := by omega
    simp only [hlt, if_true, List.getElem?_drop]
    have : start + (P.length - start) = P.length := by omega
    rw [this]; exact hgetd
  simp only [h3, if_false, hany, if_true]

theorem atx_content_range (pre s1 text trail : Bytes) (d : UInt8) (n h : Nat)
    (hn1 : 1 ≤ n) (hn6 : n ≤ 6) (hs1 : s1 ≠ []) (hs1s : s1.all isSpace = true)
    (hhead : ∀ x ∈ (text ++ [d]).head?, isSpace x = false)
    (hd35 : d ≠ 35) (hdh : isSpace d = true → 1 ≤ h) (htrail : trail.all isSpace = true) :
    atxOpen (pre ++ (List.replicate n 35 ++ (s1 ++ (text ++ d :: (List.replicate h 35 ++ trail))))) pre.length =
      .ok (some { level := n,
                  content := some (pre.length + n + s1.length,
                    pre.length + n + s1.length + text.length + 1 + (if isSpace d = true then 0 else h)) }) := by
  -- abbreviations
  have hB : ∀ x ∈ (text ++ d :: (List.replicate h 35 ++ trail)).head?, isSpace x = false := by
    cases text with
    | nil => simpa using hhead
    | cons t ts => simpa using hhead
  have hs1h : (s1 ++ (text ++ d :: (List.replicate h 35 ++ trail))).head? ≠ some 35 := by
    cases s1 with
    | nil => exact absurd rfl hs1
    | cons a s1 =>
      simp only [List.all_cons, Bool.and_eq_true] at hs1s
      simp; intro h35; subst h35; simp [isSpace] at hs1s
  -- the opening run
  have hdrop0 : (pre ++ (List.replicate n 35 ++ (s1 ++ (text ++ d :: (List.replicate h 35 ++ trail))))).drop pre.length
      = List.replicate n 35 ++ (s1 ++ (text ++ d :: (List.replicate h 35 ++ trail))) := List.drop_left
  have hrun := run_length 35 n _ hs1h
  have hdropi : (pre ++ (List.replicate n 35 ++ (s1 ++ (text ++ d :: (List.replicate h 35 ++ trail))))).drop (pre.length + n)
      = s1 ++ (text ++ d :: (List.replicate h 35 ++ trail)) := by
    rw [← List.drop_drop, hdrop0]; simp
  have hl : trimLeftSpaceLength (s1 ++ (text ++ d :: (List.replicate h 35 ++ trail))) = s1.length := by
    unfold trimLeftSpaceLength
    rw [takeWhile_append_stop isSpace s1 _ hs1s hB]
  have hs1pos : 0 < s1.length := by
    cases s1 with
    | nil => exact absurd rfl hs1
    | cons _ _ => simp
  -- the end of the text: trailing white space
  have hX : pre ++ (List.replicate n 35 ++ (s1 ++ (text ++ d :: (List.replicate h 35 ++ trail))))
      = (pre ++ (List.replicate n 35 ++ (s1 ++ (text ++ d :: List.replicate h 35)))) ++ trail := by simp
  have hXlast : ∀ x ∈ (pre ++ (List.replicate n 35 ++ (s1 ++ (text ++ d :: List.replicate h (35 : UInt8))))).getLast?, isSpace x = false := by
    intro x hx
    have e : pre ++ (List.replicate n 35 ++ (s1 ++ (text ++ d :: List.replicate h (35 : UInt8))))
        = (pre ++ (List.replicate n 35 ++ (s1 ++ text))) ++ (d :: List.replicate h 35) := by simp
    rw [e, List.getLast?_append] at hx
    cases h with
    | zero =>
      have hxd : x = d := by
        simp at hx
        first | exact hx.symm | exact hx
      rw [hxd]
      cases hsp : isSpace d with
      | false => rfl
      | true => have := hdh hsp; omega
    | succ h =>
      have hl35 : (d :: List.replicate (h + 1) (35 : UInt8)).getLast? = some 35 := by
        rw [List.replicate_succ', ← List.cons_append, List.getLast?_append]; simp
      rw [hl35] at hx
      have hx35 : x = 35 := by
        simp at hx
        first | exact hx.symm | exact hx
      rw [hx35]; decide
  have htr : trimRightSpaceLength (pre ++ (List.replicate n 35 ++ (s1 ++ (text ++ d :: (List.replicate h 35 ++ trail)))))
      = trail.length := by rw [hX]; exact trimRight_append_spaces _ trail htrail hXlast
  have hlen : (pre ++ (List.replicate n 35 ++ (s1 ++ (text ++ d :: (List.replicate h 35 ++ trail))))).length
      = pre.length + n + s1.length + text.length + 1 + h + trail.length := by simp; omega
  -- assemble
  have hP : pre ++ (List.replicate n 35 ++ (s1 ++ (text ++ d :: (List.replicate h 35 ++ trail))))
      = (pre ++ (List.replicate n 35 ++ (s1 ++ text))) ++ d :: (List.replicate h 35 ++ trail) := by simp
  have hPlen : (pre ++ (List.replicate n (35 : UInt8) ++ (s1 ++ text))).length = pre.length + n + s1.length + text.length := by
    simp; omega
  have hcore := atxContent_core (pre ++ (List.replicate n 35 ++ (s1 ++ text))) trail d h (pre.length + n + s1.length) hd35
    (by rw [hPlen]; omega)
  rw [hPlen, ← hP] at hcore
  unfold atxOpen
  simp only [hdrop0, hrun, hdropi, hl, hlen, htr]
  have c1 : (n == 0 || decide (n > 6)) = false := by simp; omega
  have c2 : ¬ (pre.length + n = pre.length + n + s1.length + text.length + 1 + h + trail.length) := by omega
  have c3 : (s1.length == 0) = false := by simp; omega
  have c4 : ¬ (pre.length + n + s1.length ≥ pre.length + n + s1.length + text.length + 1 + h + trail.length) := by omega
  have c5 : pre.length + n + s1.length + text.length + 1 + h + trail.length - trail.length
      = pre.length + n + s1.length + text.length + 1 + h := by omega
  simp only [c1, Bool.false_eq_true, if_false, beq_iff_eq, c2, c3, c4, c5, hcore]
  rfl

/-! ### list content offset: column independence on tab-free lines (3fb40b2 made the column a parameter) -/

theorem tabFree_drop (l : Bytes) (k : Nat) (h : tabFree l) : tabFree (l.drop k) :=
  fun hm => h (List.mem_of_mem_drop hm)

theorem calcListOffset_offset (source : Bytes) (m4 : Int) (h : tabFree source) (c c' : Nat) :
    calcListOffset source m4 c = calcListOffset source m4 c' := by
  simp only [calcListOffset, indentWidth_tabfree _ _ (tabFree_drop source m4.toNat h)]

theorem listItemOpen_offset (line : Bytes) (lastOff : Nat) (h : tabFree line) (c c' : Nat) :
    listItemOpen line lastOff c = listItemOpen line lastOff c' := by
  simp only [listItemOpen, calcListOffset_offset line _ h c c',
    indentPosition_tabfree _ _ _ (tabFree_drop line _ h)]

end GM.Proof.LineRec
