/-
  GM.Proof.E2EInlineHi — the UPPER bound of C05(c)'s "inline segments lie inside the block's lines": the segments the
  inline phase records for a block end at or before the end of the block's LAST line (GM.Proof.InlinesLink.parseBlock_segments
  bounds them by `len(source)`; the final cursor of the line loop never passes the last line's stop). NEW lemma, same proof
  skeleton; the inline proof files are untouched.
-/
import GM.Proof.InlinesLink
import GM.Proof.E2EAst

namespace GM.E2E
open GM GM.Text GM.Spec GM.Inl GM.Proof.Reader GM.Proof.InlinesReader GM.Proof.Inlines GM.Proof.InlinesTotal
open GM.Proof.InlinesDelims GM.Proof.BlockReaderFuel GM.Proof.InlinesLink

theorem hiOf_lastStop (segs : List Segment) : hiOf segs = BCur.lastStop segs := by
  unfold hiOf BCur.lastStop
  cases segs.getLast? <;> rfl

theorem stopOf_le_last {src : Bytes} {segs : List Segment} (F : SegFacts src segs) (c : BCur) (h0 : 0 ≤ c.ln) :
    BCur.stopOf segs c ≤ BCur.lastStop segs := by
  unfold BCur.stopOf
  split
  · rename_i hl
    rw [F.last]
    by_cases e : c.ln = BCur.k segs - 1
    · rw [e]; exact Int.le_refl _
    · have h1 := F.mono c.ln (BCur.k segs - 1) h0 (by omega) (by omega)
      have h2 := F.rng (BCur.k segs - 1) (by omega) (by omega)
      omega
  · exact Int.le_refl _

/-- the segments of the tree `parseBlock` returns end at or before the end of the block's last line -/
theorem parseBlock_segments_hi {src : Bytes} {segs : List Segment} (W : WFSegs src segs) (Z : ∀ s ∈ segs, s.padding = 0)
    (env : Env) {kids : List Inl.Node} (h : parseBlock env src segs = .ok kids) : chain 0 (hiOf segs) (segsOfL kids) := by
  have F := segFacts W
  obtain ⟨r0, e0, a0⟩ := blockReader_init F
  have hz0 : (BCur.init segs).pad = 0 := segOf_pad F Z 0 (Int.le_refl _) F.kpos
  have hI : LInv (linkCtx (BCur.segOf segs 0).start) src segs { rd := r0 } (BCur.init segs) :=
    ⟨⟨a0, hz0⟩, by simp only [segsOfL, chain, BCur.init]; exact (F.rng 0 (Int.le_refl _) F.kpos).1, LK_base _⟩
  obtain ⟨st', c', l1, l2⟩ := lineLoop_total _ F Z env (all_contracts W Z env) (blockFuel src segs) false _ _ hI
    (blockFuel_gt W Z a0.wf hz0)
  have hlk : LK (BCur.segOf segs 0).start st'.kids st'.nextId st'.bottoms := l2.lk
  obtain ⟨res, p1, _⟩ := processDelimiters_ok .nil st'.kids hlk.pos
  unfold parseBlock at h
  simp only [e0, l1, p1, bind, Except.bind, pure, Except.pure, Except.ok.injEq] at h
  subst h
  rw [segsOfL_closeLabelsL]
  have hr := bpos_wf F l2.rs.abs
  rw [(peekLine_facts F l2.rs).2] at hr
  have hle := stopOf_le_last F c' l2.rs.abs.wf.ln0
  have hch : chain 0 (hiOf segs) (segsOfL st'.kids) :=
    chain_mono (Int.le_refl _) (by rw [hiOf_lastStop]; have := hr.2.1; simp only at *; omega) l2.ch
  exact processDelimiters_chain p1 hlk.pos hlk.dseg hch

end GM.E2E
