/-
  GM.Proof.BlocksClosedClose — every `Close` and `closeBlocks` under the close discipline `CInv`.

  * `bpClose_cl`   — `Close` of the top block `b` of the open set `b :: U`: afterwards `b`'s node is `Closed` (Paragraph:
                     trimmed; setext heading: the closed paragraph's lines; everything else never had padded lines), the
                     blocks of `U` that are guarded are still attached, `CInv` holds for `U`.
  * `closeList_cl` — the loop of `closeBlocks` over the blocks `l` (top first, only the top may be a leaf).
  * `closeBlocks_cl` — parser.closeBlocks (parser.go:900-918) for a range `[to, frm]` of the stack.
-/
import GM.Proof.BlocksClosedInv

namespace GM.Blocks
open GM GM.Text GM.Spec GM.Proof.Reader
open GM.Proof.BlocksWF0 (isRaw)

/-- codeBlockParser.Close, the state it leaves: a prefix of the node's lines -/
theorem codeClose_eff {node : Nat} {s s' : St} (e : codeClose node s = .ok ((), s')) :
    ∃ k, s' = { s with nodes := s.nodes.set node { (nd s node) with lines := (nd s node).lines.take k } } := by
  unfold codeClose at e
  obtain ⟨n, s1, h1, k1⟩ := obind_ok e
  obtain ⟨rfl, hs1⟩ := ogetNode_ok h1
  subst s1
  obtain ⟨src', s2, h2, k2⟩ := obind_ok k1
  have hs2 : s2 = s := by cases h2; rfl
  subst s2
  obtain ⟨len, s3, h3, k3⟩ := obind_ok k2
  obtain ⟨_, hs3⟩ := oliftE_ok h3
  subst s3
  dsimp only at k3
  split at k3
  · obtain ⟨_, _, ht, _⟩ := obind_ok k3; cases ht
  exact ⟨_, omodNode_ok k3⟩

/-- a write of `lines` only: all links stay -/
theorem setLines_links (s : St) (X : Nat) (ls : List Segment) (i : Nat) :
    (nd ({ s with nodes := s.nodes.set X { (nd s X) with lines := ls } } : St) i).parent = (nd s i).parent ∧
    (nd ({ s with nodes := s.nodes.set X { (nd s X) with lines := ls } } : St) i).children = (nd s i).children := by
  rw [nd_mod s X (fun n => { n with lines := ls }) i]
  split
  · next hc => rw [hc.1]; exact ⟨rfl, rfl⟩
  · exact ⟨rfl, rfl⟩

theorem setLines_nd (s : St) (X : Nat) (ls : List Segment) (i : Nat) :
    nd ({ s with nodes := s.nodes.set X { (nd s X) with lines := ls } } : St) i =
      if X = i ∧ X < s.nodes.length then { (nd s X) with lines := ls } else nd s i :=
  nd_mod s X (fun n => { n with lines := ls }) i

/-- what every step of the close discipline reports next to `CInv` -/
structure CStep (s s1 : St) (U : List Block) : Prop where
  r : s1.r = s.r
  opened : s1.pc.opened = s.pc.opened
  kg : KG s s1
  npar : ∀ i, i < s.nodes.length → (nd s i).kind ≠ .paragraph → (nd s1 i).parent = (nd s i).parent
  gpar : ∀ g ∈ U, PSb g → (nd s1 g.node).parent = (nd s g.node).parent
  tmp : ∀ t, s1.pc.tmpPara = some t → s.pc.tmpPara = some t

theorem CStep.refl (s : St) (U : List Block) : CStep s s U :=
  ⟨rfl, rfl, KG.refl s, fun _ _ _ => rfl, fun _ _ _ => rfl, fun _ h => h⟩

theorem CStep.trans {a b c : St} {U : List Block} (h1 : CStep a b U) (h2 : CStep b c U) : CStep a c U :=
  ⟨h2.r.trans h1.r, h2.opened.trans h1.opened, h1.kg.trans h2.kg,
    fun i hi hk => (h2.npar i (Nat.lt_of_lt_of_le hi h1.kg.1) (by rw [h1.kg.2 i hi]; exact hk)).trans (h1.npar i hi hk),
    fun g hg hp => (h2.gpar g hg hp).trans (h1.gpar g hg hp), fun t ht => h1.tmp t (h2.tmp t ht)⟩

/-- the node of `b` gets the line list `ls` (all with padding 0 when the node is not raw), nothing else changes -/
theorem CInv.setLines {src : Bytes} {s : St} {b : Block} {U : List Block} {ls : List Segment} (h : CInv src s (b :: U))
    (B : Int) (hinv : Inv src B ({ s with nodes := s.nodes.set b.node { (nd s b.node) with lines := ls } } : St))
    (hcl : isRaw (nd s b.node).kind = false → ∀ t ∈ ls, t.padding = 0) :
    CInv src ({ s with nodes := s.nodes.set b.node { (nd s b.node) with lines := ls } } : St) U ∧
      CStep s ({ s with nodes := s.nodes.set b.node { (nd s b.node) with lines := ls } } : St) U := by
  have hlt := (h.kinds (List.mem_cons_self ..)).2
  have hnd := setLines_nd s b.node ls
  have hlk := setLines_links s b.node ls
  have hkind : ∀ i, (nd ({ s with nodes := s.nodes.set b.node { (nd s b.node) with lines := ls } } : St) i).kind =
      (nd s i).kind := by
    intro i; rw [hnd]; split
    · next hc => rw [hc.1]
    · rfl
  refine ⟨⟨⟨B, hinv⟩, h.tree.of_links hlk, fun i hr => ?_, fun g hg => ?_,
    fun a ha c hc e => h.inj a (List.mem_cons_of_mem _ ha) c (List.mem_cons_of_mem _ hc) e,
    fun g hg => h.sub g (List.mem_cons_of_mem _ hg)⟩,
    ⟨rfl, rfl, ⟨by simp, fun i _ => hkind i⟩, fun i _ _ => (hlk i).1, fun g _ _ => (hlk g.node).1, fun _ ht => ht⟩⟩
  · rw [hkind] at hr
    by_cases hi : b.node = i
    · subst hi
      left
      intro t ht
      rw [hnd, if_pos ⟨rfl, hlt⟩] at ht
      exact hcl hr t ht
    · rcases h.pad i hr with hc | ⟨b', hb', hn, hp⟩
      · left
        rw [Closed, hnd, if_neg (fun hh => hi hh.1)]; exact hc
      · rcases List.mem_cons.1 hb' with e | hm
        · subst e; exact absurd hn hi
        · exact .inr ⟨b', hm, hn, hp⟩
  · rw [(hlk g.node).1]; exact h.att g (List.mem_cons_of_mem _ hg)

/-- **`Close` of the top block under the close discipline** -/
theorem bpClose_cl {src : Bytes} {s s1 : St} {b : Block} {U : List Block} (h : CInv src s (b :: U))
    (hsrc : s.r.source = src) (hG : ∀ g ∈ U, PSb g → Guard s [b] g)
    (hsx : b.bp = .setext → ∀ t, s.pc.tmpPara = some t → ∀ g ∈ b :: U, g.bp = .paragraph → g.node ≠ t)
    (e : bpClose b.bp b.node s = .ok ((), s1)) : CInv src s1 U ∧ CStep s s1 U := by
  obtain ⟨hkb, hltb⟩ := h.kinds (List.mem_cons_self ..)
  obtain ⟨B, hB⟩ := h.inv
  obtain ⟨bnode, bbp⟩ := b
  simp only at hkb hltb e hsx
  -- a `Close` that does nothing
  have triv : s1 = s → ¬ PSb ⟨bnode, bbp⟩ → CInv src s1 U ∧ CStep s s1 U := by
    intro hs hps
    subst hs
    exact ⟨h.drop (fun hr => h.closed_of_notPS (List.mem_cons_self ..) hps hr), CStep.refl _ _⟩
  cases bbp
  case setext =>
    have e' : setextClose bnode s = .ok ((), s1) := e
    cases ht : s.pc.tmpPara with
    | none =>
      exfalso
      obtain ⟨a, _, _⟩ := setextClose_inv hB hkb hltb e'
      -- `setextClose_inv` already refutes a normal end without the key; redo the short argument
      unfold setextClose at e'
      obtain ⟨hn, sa, h1, k1⟩ := obind_ok e'
      obtain ⟨rfl, hs1⟩ := ogetNode_ok h1
      subst sa
      obtain ⟨seg, sb, h2, k2⟩ := obind_ok k1
      obtain ⟨_, hs2⟩ := oliftE_ok h2
      subst sb
      obtain ⟨_, s3, h3, k3⟩ := obind_ok k2
      have e3 := omodNode_ok h3
      obtain ⟨pc4, s4, h4, k4⟩ := obind_ok k3
      obtain ⟨rfl, hs4⟩ := ogetPc_ok h4
      subst s4
      have hpc3 : s3.pc = s.pc := by rw [e3]
      rw [hpc3, ht] at k4
      dsimp only at k4
      obtain ⟨_, _, h5, _⟩ := obind_ok k4
      cases h5
    | some t =>
      have hkt := hB.tmpk t ht
      have hne := hB.pne t hkt
      have hnt : bnode ≠ t := by intro e0; rw [e0, hkt] at hkb; cases hkb
      have hsafe := hsx rfl t ht
      -- the paragraph behind the key is closed
      have hct : Closed (nd s t) := by
        rcases h.pad t (by rw [hkt]; rfl) with hc | ⟨g, hg, hn, hp⟩
        · exact hc
        · exfalso
          have hgk := (h.kinds hg).1
          rw [hn, hkt] at hgk
          exact hsafe g hg (kind_paragraph hgk.symm) hn
      obtain ⟨hlen, ⟨hl, hln⟩, hoth, hkind, hpc, hr⟩ := setextClose_copy ht hne hnt hltb e'
      obtain ⟨htree, hpar⟩ := setextClose_tree h.tree ht hne hnt hltb e'
      obtain ⟨hinv1, _, hop1, hkg1⟩ := setextClose_inv hB hkb hltb e'
      have hgt : ∀ g ∈ U, PSb g → g.node ≠ t := by
        intro g hg hp hgt'
        rcases hp with hp | hp
        · exact hsafe g (List.mem_cons_of_mem _ hg) hp hgt'
        · have := (h.kinds (List.mem_cons_of_mem _ hg)).1
          rw [hgt', hkt, hp] at this; cases this
      have hgt' : ∀ g ∈ U, g.node ≠ t := by
        intro g hg hgt''
        by_cases hp : PSb g
        · exact hgt g hg hp hgt''
        · have hk := (h.kinds (List.mem_cons_of_mem _ hg)).1
          rw [hgt'', hkt] at hk
          exact hp (.inl (kind_paragraph hk.symm))
      refine ⟨⟨⟨B, hinv1⟩, htree, fun i hr' => ?_, fun g hg => ?_,
        fun a ha c hc e0 => h.inj a (List.mem_cons_of_mem _ ha) c (List.mem_cons_of_mem _ hc) e0,
        fun g hg => by rw [hop1]; exact h.sub g (List.mem_cons_of_mem _ hg)⟩,
        ⟨hr, hop1, hkg1, fun i _ hk => hpar i (fun e0 => hk (e0 ▸ hkt)), fun g hg hp => hpar g.node (hgt g hg hp),
          fun t' ht' => by rw [hpc] at ht'; cases ht'⟩⟩
      · rw [hkind] at hr'
        by_cases hi : i = bnode
        · subst hi; left; intro u hu; rw [hl] at hu; exact hct u hu
        · rcases h.pad i hr' with hc | ⟨b', hb', hn, hp⟩
          · left; intro u hu; rw [(hoth i hi).1] at hu; exact hc u hu
          · rcases List.mem_cons.1 hb' with e0 | hm
            · subst e0; exact absurd hn.symm hi
            · exact .inr ⟨b', hm, hn, hp⟩
      · rw [hpar g.node (hgt' g hg)]; exact h.att g (List.mem_cons_of_mem _ hg)
  case thematic =>
    exact triv (by have e' : (pure () : M Unit) s = .ok ((), s1) := e; exact (opure_ok e').2)
      (fun hp => by rcases hp with hp | hp <;> cases hp)
  case list =>
    have e' : listClose bnode s = .ok ((), s1) := e
    let Prot : Nat → Prop := fun i => (∃ g ∈ U, PSb g ∧ g.node = i) ∨ (i < s.nodes.length ∧ (nd s i).kind ≠ .paragraph)
    have hp0 : ∀ i, Prot i → i < s.nodes.length := by
      rintro i (⟨g, hg, _, rfl⟩ | ⟨h1, _⟩)
      · exact (h.kinds (List.mem_cons_of_mem _ hg)).2
      · exact h1
    have hprot : ∀ i, Prot i → (nd s i).kind = .paragraph → ∀ c ∈ (nd s bnode).children, (nd s i).parent ≠ some c := by
      rintro i (⟨g, hg, hp, rfl⟩ | ⟨_, hk⟩) hkp c hc hpc
      · obtain ⟨q, hq1, _, _, hq4⟩ := hG g hg hp
        rw [hq1] at hpc
        cases hpc
        exact hq4 ⟨bnode, .list⟩ (List.mem_singleton.2 rfl) rfl (h.tree.kid bnode _ hc)
      · exact hk hkp
    have hit := listClose_tight Prot h.tree hp0 hprot e'
    obtain ⟨hinv1, _, _, hkg1⟩ := listClose_inv hB e'
    refine ⟨⟨⟨B, hinv1⟩, hit.tree, fun i hr' => ?_, fun g hg => ?_,
      fun a ha c hc e0 => h.inj a (List.mem_cons_of_mem _ ha) c (List.mem_cons_of_mem _ hc) e0,
      fun g hg => by rw [hit.pc]; exact h.sub g (List.mem_cons_of_mem _ hg)⟩,
      ⟨hit.r, by rw [hit.pc], hkg1, fun i hi hk => hit.prot i (.inr ⟨hi, hk⟩),
        fun g hg hp => hit.prot g.node (.inl ⟨g, hg, hp, rfl⟩), fun t ht => by rw [hit.pc] at ht; exact ht⟩⟩
    · rcases Nat.lt_or_ge i s.nodes.length with hil | hil
      · obtain ⟨x1, _, x3⟩ := hit.old i hil
        rw [x3] at hr'
        rcases h.pad i hr' with hc | ⟨b', hb', hn, hp⟩
        · left; intro u hu; rw [x1] at hu; exact hc u hu
        · rcases List.mem_cons.1 hb' with e0 | hm
          · subst e0; rcases hp with hp | hp <;> cases hp
          · exact .inr ⟨b', hm, hn, hp⟩
      · rcases Nat.lt_or_ge i s1.nodes.length with hil' | hil'
        · obtain ⟨_, j, hj, hjk, hjp, hjl, _⟩ := hit.new i hil hil'
          left
          intro u hu
          rw [hjl] at hu
          rcases h.pad j (by rw [hjk]; rfl) with hc | ⟨b', hb', hn, hp⟩
          · exact hc u hu
          · exfalso
            rcases List.mem_cons.1 hb' with e0 | hm
            · subst e0; rcases hp with hp | hp <;> cases hp
            · exact hjp (.inl ⟨b', hm, hp, hn⟩)
        · left; rw [nd_default_of_ge s1 hil']; intro u hu; cases hu
    · have hgp : Prot g.node := by
        by_cases hp : PSb g
        · exact .inl ⟨g, hg, hp, rfl⟩
        · obtain ⟨hk, hl⟩ := h.kinds (List.mem_cons_of_mem _ hg)
          exact .inr ⟨hl, fun hkp => hp (.inl (kind_paragraph (by rw [← hk]; exact hkp)))⟩
      rw [hit.prot g.node hgp]; exact h.att g (List.mem_cons_of_mem _ hg)
  case listItem =>
    exact triv (by have e' : (pure () : M Unit) s = .ok ((), s1) := e; exact (opure_ok e').2)
      (fun hp => by rcases hp with hp | hp <;> cases hp)
  case code =>
    have e' : codeClose bnode s = .ok ((), s1) := e
    obtain ⟨k, hs1⟩ := codeClose_eff e'
    obtain ⟨hinv1, _, _, _⟩ := codeClose_inv hB hkb hltb e'
    subst hs1
    exact CInv.setLines (b := ⟨bnode, .code⟩) h B hinv1 (fun hr => by rw [hkb] at hr; cases hr)
  case atx =>
    exact triv (by have e' : (pure () : M Unit) s = .ok ((), s1) := e; exact (opure_ok e').2)
      (fun hp => by rcases hp with hp | hp <;> cases hp)
  case fenced =>
    have e' : fencedClose bnode s = .ok ((), s1) := e
    obtain ⟨hinv1, hr1, hop1, _⟩ := fencedClose_inv hB e'
    -- only `pc.fence` may change
    have hs1 : s1.nodes = s.nodes ∧ s1.pc.tmpPara = s.pc.tmpPara := by
      unfold fencedClose at e'
      obtain ⟨pc, sa, h1, k1⟩ := obind_ok e'
      obtain ⟨rfl, hsa⟩ := ogetPc_ok h1
      subst sa
      cases hf : s.pc.fence with
      | none => rw [hf] at k1; cases k1
      | some f =>
        rw [hf] at k1
        dsimp only at k1
        split at k1
        · rw [omodPc_ok k1]; exact ⟨rfl, rfl⟩
        · rw [(opure_ok k1).2]; exact ⟨rfl, rfl⟩
    have hnd : ∀ i, nd s1 i = nd s i := fun i => by simp only [nd, hs1.1]
    have h' := h.drop (fun hr => h.closed_of_notPS (List.mem_cons_self ..)
      (fun hp => by rcases hp with hp | hp <;> cases hp) hr)
    refine ⟨⟨⟨B, hinv1⟩, h.tree.of_links (fun i => by rw [hnd]; exact ⟨rfl, rfl⟩), fun i hr' => ?_,
      fun g hg => by rw [hnd]; exact h'.att g hg, h'.inj, fun g hg => by rw [hop1]; exact h'.sub g hg⟩,
      ⟨hr1, hop1, KG.of_nodes hs1.1, fun i _ _ => by rw [hnd], fun g _ _ => by rw [hnd],
        fun t ht => by rw [hs1.2] at ht; exact ht⟩⟩
    rw [hnd] at hr' ⊢
    exact h'.pad i hr'
  case blockquote =>
    exact triv (by have e' : (pure () : M Unit) s = .ok ((), s1) := e; exact (opure_ok e').2)
      (fun hp => by rcases hp with hp | hp <;> cases hp)
  case html =>
    exact triv (by have e' : (pure () : M Unit) s = .ok ((), s1) := e; exact (opure_ok e').2)
      (fun hp => by rcases hp with hp | hp <;> cases hp)
  case paragraph =>
    have e' : paragraphClose bnode s = .ok ((), s1) := e
    have hne := hB.pne bnode hkb
    have hl : LinesOK src (nd s bnode).lines := (nodeOK_nd hB.nodes bnode).lines
    obtain ⟨hr, hpc, ls, _, _, hpf, _, hn⟩ := (paragraphClose_lines bnode hsrc hl hne).of_ok e'
    obtain ⟨hinv1, _, _, _⟩ := paragraphClose_inv hB hsrc hkb hltb e'
    have hs1 : s1 = { s with nodes := s.nodes.set bnode { (nd s bnode) with lines := ls } } := by
      cases s1; simp only at hr hpc hn; subst hr hpc hn; rfl
    subst hs1
    exact CInv.setLines (b := ⟨bnode, .paragraph⟩) h B hinv1 (fun _ t ht => (hpf t ht).1)


/-- `CStep` without the clause about the stack (for steps that pop) -/
structure CStepW (s s1 : St) (U : List Block) : Prop where
  r : s1.r = s.r
  kg : KG s s1
  npar : ∀ i, i < s.nodes.length → (nd s i).kind ≠ .paragraph → (nd s1 i).parent = (nd s i).parent
  gpar : ∀ g ∈ U, PSb g → (nd s1 g.node).parent = (nd s g.node).parent
  tmp : ∀ t, s1.pc.tmpPara = some t → s.pc.tmpPara = some t

theorem CStep.toW {s s1 : St} {U : List Block} (h : CStep s s1 U) : CStepW s s1 U := ⟨h.r, h.kg, h.npar, h.gpar, h.tmp⟩

theorem CStepW.refl (s : St) (U : List Block) : CStepW s s U := (CStep.refl s U).toW

theorem CStepW.trans {a b c : St} {U : List Block} (h1 : CStepW a b U) (h2 : CStepW b c U) : CStepW a c U :=
  ⟨h2.r.trans h1.r, h1.kg.trans h2.kg,
    fun i hi hk => (h2.npar i (Nat.lt_of_lt_of_le hi h1.kg.1) (by rw [h1.kg.2 i hi]; exact hk)).trans (h1.npar i hi hk),
    fun g hg hp => (h2.gpar g hg hp).trans (h1.gpar g hg hp), fun t ht => h1.tmp t (h2.tmp t ht)⟩

theorem CStepW.mono {s s1 : St} {U U' : List Block} (h : CStepW s s1 U) (hs : ∀ g ∈ U', g ∈ U) : CStepW s s1 U' :=
  ⟨h.r, h.kg, h.npar, fun g hg hp => h.gpar g (hs g hg) hp, h.tmp⟩

theorem CStep.mono {s s1 : St} {U U' : List Block} (h : CStep s s1 U) (hs : ∀ g ∈ U', g ∈ U) : CStep s s1 U' :=
  ⟨h.r, h.opened, h.kg, h.npar, fun g hg hp => h.gpar g (hs g hg) hp, h.tmp⟩

theorem not_ps_of_container {b : Block} (h : b.bp.isContainer = true) : ¬ PSb b := by
  obtain ⟨n, bp⟩ := b
  rintro (hp | hp) <;> simp only at hp <;> subst hp <;> cases h

/-- a guard survives a step of the close discipline -/
theorem Guard.step {s s1 : St} {l l' : List Block} {U : List Block} {g : Block} (hg : Guard s l g) (hs : CStep s s1 U)
    (hgU : g ∈ U) (hp : PSb g) (hl : ∀ L ∈ l', L ∈ l) : Guard s1 l' g := by
  obtain ⟨q, h1, h2, h3, h4⟩ := hg
  refine ⟨q, by rw [hs.gpar g hgU hp]; exact h1, by rw [hs.kg.2 q h3]; exact h2, Nat.lt_of_lt_of_le h3 hs.kg.1,
    fun L hL hLl => ?_⟩
  rw [hs.npar q h3 h2]
  exact h4 L (hl L hL) hLl

/-- **the loop of closeBlocks under the close discipline**: the blocks `l` are closed top first (only the top may be a
    leaf), the blocks `K` stay open -/
theorem closeList_cl {src : Bytes} : ∀ (l K : List Block) (s s' : St), CInv src s (l ++ K) → s.r.source = src →
    (∀ b ∈ l.tail, b.bp.isContainer = true) → (∀ g ∈ K, PSb g → Guard s l g) →
    ((∃ b ∈ l, b.bp = .setext) → ∀ t, s.pc.tmpPara = some t → ∀ g ∈ l ++ K, g.bp = .paragraph → g.node ≠ t) →
    closeList l s = .ok ((), s') → CInv src s' K ∧ CStep s s' K := by
  intro l
  induction l with
  | nil =>
    intro K s s' h _ _ _ _ e
    unfold closeList at e
    obtain ⟨_, hs⟩ := opure_ok e
    subst s'
    exact ⟨by simpa using h, CStep.refl _ _⟩
  | cons b rest ih =>
    intro K s s' h hsrc hcont hG hsx e
    unfold closeList at e
    obtain ⟨n, s0, h0, k0⟩ := obind_ok e
    obtain ⟨hn, hs0⟩ := ogetNode_ok h0
    subst s0
    subst n
    have hrestc : ∀ g ∈ rest, g.bp.isContainer = true := fun g hg => hcont g (by simpa using hg)
    have h' : CInv src s (b :: (rest ++ K)) := by simpa using h
    have cont : ∀ s1, CInv src s1 (rest ++ K) → CStep s s1 (rest ++ K) → closeList rest s1 = .ok ((), s') →
        CInv src s' K ∧ CStep s s' K := by
      intro s1 hc1 hs1 k1
      have hG1 : ∀ g ∈ K, PSb g → Guard s1 rest g := fun g hg hp =>
        (hG g hg hp).step hs1 (List.mem_append_right _ hg) hp (fun L hL => List.mem_cons_of_mem _ hL)
      have hsx1 : (∃ b' ∈ rest, b'.bp = .setext) → ∀ t, s1.pc.tmpPara = some t → ∀ g ∈ rest ++ K, g.bp = .paragraph →
          g.node ≠ t := by
        rintro ⟨b', hb', hbs⟩
        have := hrestc b' hb'
        rw [hbs] at this; cases this
      obtain ⟨hc2, hs2⟩ := ih K s1 s' hc1 (by rw [hs1.r]; exact hsrc)
        (fun g hg => hrestc g (List.mem_of_mem_tail hg)) hG1 hsx1 k1
      exact ⟨hc2, (hs1.mono (fun g hg => List.mem_append_right _ hg)).trans hs2⟩
    dsimp only at k0
    split at k0
    · obtain ⟨_, s1, h1, k1⟩ := obind_ok k0
      obtain ⟨hc1, hs1⟩ := bpClose_cl h' hsrc (fun g hg hp => by
          rcases List.mem_append.1 hg with hg | hg
          · exact absurd hp (not_ps_of_container (hrestc g hg))
          · obtain ⟨q, q1, q2, q3, q4⟩ := hG g hg hp
            exact ⟨q, q1, q2, q3, fun L hL => q4 L (by
              simp only [List.mem_singleton] at hL; rw [hL]; exact List.mem_cons_self ..)⟩)
        (fun hb t ht g hg hgp => hsx ⟨b, List.mem_cons_self .., hb⟩ t ht g (by simpa using hg) hgp) h1
      exact cont s1 hc1 hs1 k1
    · next hpar =>
      refine cont s (h'.drop (fun hr => ?_)) (CStep.refl _ _) k0
      exfalso
      exact hpar (h'.att b (List.mem_cons_self ..))

/-- **closeBlocks under the close discipline** (parser.go:900-918) for the range `[tn, fn]` of the stack: the blocks of
    the range are closed (top first), the stack becomes `take tn ++ drop (fn+1)` -/
theorem closeBlocks_cl {src : Bytes} {s s' : St} (tn fn : Nat) (htf : tn ≤ fn) (hfl : fn < s.pc.opened.length)
    (h : CInv src s s.pc.opened) (hsrc : s.r.source = src)
    (hcont : ∀ b ∈ (((s.pc.opened.drop tn).take (fn - tn + 1)).reverse).tail, b.bp.isContainer = true)
    (hG : ∀ g ∈ s.pc.opened.take tn ++ s.pc.opened.drop (fn + 1), PSb g →
      Guard s ((s.pc.opened.drop tn).take (fn - tn + 1)).reverse g)
    (hsx : (∃ b ∈ ((s.pc.opened.drop tn).take (fn - tn + 1)).reverse, b.bp = .setext) →
      ∀ t, s.pc.tmpPara = some t → ∀ g ∈ s.pc.opened, g.bp = .paragraph → g.node ≠ t)
    (e : closeBlocks (fn : Int) (tn : Int) s = .ok ((), s')) :
    CInv src s' (s.pc.opened.take tn ++ s.pc.opened.drop (fn + 1)) ∧
      CStepW s s' (s.pc.opened.take tn ++ s.pc.opened.drop (fn + 1)) ∧
      s'.pc.opened = s.pc.opened.take tn ++ s.pc.opened.drop (fn + 1) := by
  unfold closeBlocks at e
  obtain ⟨pc, s0, h0, k0⟩ := obind_ok e
  obtain ⟨hpc, hs0⟩ := ogetPc_ok h0
  subst s0
  subst pc
  obtain ⟨_, s2, h2, k2⟩ := obind_ok k0
  have hk : ((fn : Int) - (tn : Int) + 1).toNat = fn - tn + 1 := by omega
  rw [hk, closeLoop_eq s.pc.opened tn (fn - tn + 1) (by omega)] at h2
  have hmem : ∀ b, b ∈ ((s.pc.opened.drop tn).take (fn - tn + 1)).reverse ++
      (s.pc.opened.take tn ++ s.pc.opened.drop (fn + 1)) ↔ b ∈ s.pc.opened := by
    intro b
    have e1 : s.pc.opened = s.pc.opened.take tn ++ ((s.pc.opened.drop tn).take (fn - tn + 1) ++
        s.pc.opened.drop (fn + 1)) := by
      have : s.pc.opened.drop (fn + 1) = (s.pc.opened.drop tn).drop (fn - tn + 1) := by
        rw [List.drop_drop]; congr 1; omega
      rw [this, List.take_append_drop, List.take_append_drop]
    constructor
    · intro hb
      simp only [List.mem_append, List.mem_reverse] at hb
      rcases hb with hb | hb | hb
      · exact List.mem_of_mem_drop (List.mem_of_mem_take hb)
      · exact List.mem_of_mem_take hb
      · exact List.mem_of_mem_drop hb
    · intro hb
      rw [e1] at hb
      simp only [List.mem_append, List.mem_reverse] at hb ⊢
      rcases hb with hb | hb | hb
      · exact .inr (.inl hb)
      · exact .inl hb
      · exact .inr (.inr hb)
  obtain ⟨hc2, hs2⟩ := closeList_cl _ (s.pc.opened.take tn ++ s.pc.opened.drop (fn + 1)) s s2
    (h.congr hmem) hsrc hcont hG
    (fun hx t ht g hg hgp => hsx hx t ht g ((hmem g).1 hg) hgp) h2
  -- the new stack
  have hfin : ∀ (bl : List Block), bl = s.pc.opened.take tn ++ s.pc.opened.drop (fn + 1) →
      (modPc fun pc => { pc with opened := bl }) s2 = .ok ((), s') →
      CInv src s' (s.pc.opened.take tn ++ s.pc.opened.drop (fn + 1)) ∧
        CStepW s s' (s.pc.opened.take tn ++ s.pc.opened.drop (fn + 1)) ∧
        s'.pc.opened = s.pc.opened.take tn ++ s.pc.opened.drop (fn + 1) := by
    intro bl hbl k3
    have := omodPc_ok k3
    subst this
    subst hbl
    obtain ⟨B, hB⟩ := hc2.inv
    have hnd : ∀ i, nd ({ s2 with pc := { s2.pc with opened := s.pc.opened.take tn ++ s.pc.opened.drop (fn + 1) } } : St) i
        = nd s2 i := fun _ => rfl
    refine ⟨⟨⟨B, hB.congr_pc _ rfl (fun b hb => by
        rw [hs2.opened]
        rcases List.mem_append.1 hb with hb | hb
        · exact List.mem_of_mem_take hb
        · exact List.mem_of_mem_drop hb)⟩, hc2.tree.of_links (fun i => ⟨rfl, rfl⟩), hc2.pad, hc2.att, hc2.inj,
      fun b hb => hb⟩, ⟨hs2.r, hs2.kg, hs2.npar, hs2.gpar, hs2.tmp⟩, rfl⟩
  have hslice0 : closeBlocks.slice' s.pc.opened 0 (tn : Int) = .ok (s.pc.opened.take tn) := by
    unfold closeBlocks.slice'
    rw [if_pos ⟨by omega, by omega, by omega⟩]
    simp
  have hslice1 : closeBlocks.slice' s.pc.opened ((fn : Int) + 1) (s.pc.opened.length : Int) =
      .ok (s.pc.opened.drop (fn + 1)) := by
    unfold closeBlocks.slice'
    rw [if_pos ⟨by omega, by omega, by omega⟩]
    have e1 : ((fn : Int) + 1).toNat = fn + 1 := by omega
    have e2 : ((s.pc.opened.length : Int) - ((fn : Int) + 1)).toNat = s.pc.opened.length - (fn + 1) := by omega
    rw [e1, e2, List.take_of_length_le (by simp)]
  dsimp only at k2
  split at k2
  · next hlast =>
    obtain ⟨bl, s3, h3, k3⟩ := obind_ok k2
    obtain ⟨hb, hs3⟩ := oliftE_ok h3
    subst s3
    rw [hslice0] at hb
    cases hb
    have hfl' : fn + 1 = s.pc.opened.length := by
      have : (fn : Int) = (s.pc.opened.length : Int) - 1 := by simpa using hlast
      omega
    refine hfin _ ?_ k3
    rw [hfl', List.drop_length, List.append_nil]
  · obtain ⟨a, s4, h4, k4⟩ := obind_ok k2
    obtain ⟨ha, hs4⟩ := oliftE_ok h4
    subst s4
    obtain ⟨b, s5, h5, k5⟩ := obind_ok k4
    obtain ⟨hb, hs5⟩ := oliftE_ok h5
    subst s5
    obtain ⟨bl, s6, h6, k6⟩ := obind_ok k5
    obtain ⟨hbl, hs6⟩ := opure_ok h6
    subst s6
    rw [hslice0] at ha
    rw [hslice1] at hb
    cases ha
    cases hb
    exact hfin _ hbl k6

end GM.Blocks
