/-
  GM.Proof.CMFragQMain — stage 10: a stage-6 document inside one block quote (`"> "` in front of every line). The block
  phase on the prefixed source is quotesim2's simulation of the run on the original source (`run_sim`, `StoreRel`); the
  block phase with the paragraph transformer is the plain run on bracket-free sources (hypothesis `BPFree`, proved by
  packages e2e + tnopanic); the inline phase runs on the moved line segments (`CMFragQInl`, `CMFragQPara`).
-/
import GM.Proof.CMFragQTree
import GM.Proof.CMFragQPara
import GM.Proof.CMFragRenderQ
import GM.Proof.CMFragClassQ
import GM.Proof.CMFragSpecQ

namespace GM.Proof.CMFrag
open GM GM.Text GM.Blocks GM.Spec

/-- the block phase with the link-reference-definition transformer is the plain block phase on a source without `[`
    (packages e2e — `GM.Props.ConvertE2E.block_phase_bracket_free` — and tnopanic — `block_phase_total`) -/
def BPFree : Prop :=
  ∀ src : Bytes, (∀ b ∈ src, b ≠ 91) → GM.Convert.blockPhase true src = GM.Blocks.run src

theorem segsRel_nil {S : Bytes} {L' : List Segment} (h : SegsRel S [] L') : L' = [] := by
  cases L' with
  | nil => rfl
  | cons a t => exact h.elim

theorem csegs_shape {S : Bytes} : ∀ (ls tail : List Bytes) (P : Nat), ParaAt S P (ls ++ tail) →
    ∀ s ∈ csegs P ls, ∃ (a b : Nat) (fn : Bool),
      s = { start := (a : Int), stop := (b : Int), padding := 0, forceNewline := fn } ∧ a < b ∧ b ≤ S.length
  | [], _, _, _, s, hs => by simp [csegs] at hs
  | l :: rest, tail, P, h, s, hs => by
    simp only [csegs, List.mem_cons] at hs
    rcases hs with rfl | hs
    · exact ⟨P, P + l.length + 1, true, rfl, by omega, h.1.le⟩
    · exact csegs_shape rest tail (P + l.length + 1) h.2 s hs

/-- `docTree` on the node of the prefixed run that is related to the closed node of block `b` -/
theorem docTree_blockQ {S : Bytes} (env : GM.Inl.Env) (henv : env.escapedSpace = false) (b : Raw5) (p : Nat)
    (bk : Bool) (hg : Good5' b) (hnic : isIcB b = false) (h : ParaAt S p (lines5 b)) (hp : p ≤ S.length)
    (m' : Blocks.Node) (hr : NodeRel S false (node5 p b bk) m') :
    GM.Convert.docTree true env (quotePrefix S) (.node m' []) = .ok (rawNode5 b) := by
  have hk := hr.kind
  have hlv := hr.level
  have hli := hr.lines
  have hin := hr.info
  simp only [Bool.false_eq_true, if_false] at hk
  cases b with
  | icode ls => exact absurd hnic (by simp [isIcB])
  | old b' =>
    cases b' with
    | hr x =>
      simp only [node5, node4, hrN] at hk hli
      have hl := segsRel_nil hli
      simp only [GM.Convert.docTree, GM.Convert.docTrees, GM.Convert.inlinePhase, hk, hl, GM.Convert.isRawKind,
        GM.Convert.inlineTrees, GM.Convert.liftErr, GM.Convert.blockKind, List.isEmpty_nil, bind, Except.bind, pure,
        Except.pure, rawNode5, rawNode]
      simp [GM.Convert.inlineTrees, pure, Except.pure]
    | para ls =>
      simp only [node5, node4, paraN] at hk hli
      have hpa : ParaAt S p ls := by simpa [lines5, lines4] using h
      obtain ⟨ps, hL, hG⟩ := segsRel_paraQ ls p m'.lines (linesAtE_of_paraAtLfE ls p hpa)
        (fun l hl => (hg.2 l hl).ne) hli
      have hpb := parseBlock_linesG env henv (quotePrefix S) ps ls hg.1 hg.2 hG
      have hw := wf0B_linesG ps ls hg.1 hG (fun l hl => (hg.2 l hl).ne)
      have hit := inlineTrees_linesG ps ls hG
      have hle : (paraSegsG ps ls).isEmpty = false := by
        cases hs : paraSegsG ps ls with
        | nil => rw [hs] at hw; simp [GM.LinkRef.wf0B, GM.LinkRef.wfSegsB] at hw
        | cons _ _ => rfl
      simp only [GM.Convert.docTree, GM.Convert.docTrees, GM.Convert.inlinePhase, hk, hL, GM.Convert.isRawKind, hle, hw,
        hpb, GM.Convert.liftErr, GM.Convert.blockKind, bind, Except.bind, pure, Except.pure, rawNode5, rawNode, paraNode]
      simp [hit]
    | atx level l =>
      obtain ⟨h1, h6, hgl, _⟩ := hg
      simp only [node5, node4, headN] at hk hli hlv
      obtain ⟨pre0, post, hsrc, hpre0⟩ := paraAt_decomp _ p h hp
      have hno := quiet_no_nl l 0 false hgl.quiet
      have hsrc' : S = (pre0 ++ List.replicate level 35 ++ [32]) ++ (l ++ 10 :: post) := by
        rw [hsrc]; simp [lines5, lines4, paraBytes]
      have hlen : (pre0 ++ List.replicate level 35 ++ [32]).length = p + level + 1 := by simp [hpre0]; omega
      have hln := Ln.of_append (pre0 ++ List.replicate level 35 ++ [32]) l post hno
      rw [← hsrc', hlen] at hln
      have hle := hln.le
      have hsub : sub S (p + level + 1) (p + level + 1 + l.length) = l :=
        sub_prefix S (p + level + 1) l.length l 10 rfl hln.sub
      obtain ⟨A, hL, hG⟩ := segsRel_oneQ (p + level + 1) l m'.lines hgl.ne hsub (by omega) hli
      have hpb := parseBlock_linesG env henv (quotePrefix S) [A] [l] (by simp) (by simpa using hgl) hG
      have hw := wf0B_linesG [A] [l] (by simp) hG (by simpa using hgl.ne)
      have hit := inlineTrees_linesG [A] [l] hG
      have hle' : (paraSegsG [A] [l]).isEmpty = false := rfl
      simp only [GM.Convert.docTree, GM.Convert.docTrees, GM.Convert.inlinePhase, hk, hL, GM.Convert.isRawKind, hle', hw,
        hpb, GM.Convert.liftErr, GM.Convert.blockKind, hlv, bind, Except.bind, pure, Except.pure, rawNode5, rawNode]
      simp [hit, textNodes]
  | fence fc n info ls =>
    have hS := docTree_block5 env henv (.fence fc n info ls) p bk hg h hp
    obtain ⟨hl0, hrest⟩ := h
    have elen : (List.replicate (n + 3) fc ++ info).length = n + 3 + info.length := by simp
    rw [elen] at hl0 hrest
    have e1 : p + n + 3 + info.length + 1 = p + (n + 3 + info.length) + 1 := by omega
    simp only [node5, fenceN] at hk hli hin
    have hshape := csegs_shape ls [List.replicate (n + 3) fc] (p + (n + 3 + info.length) + 1) hrest
    rw [← e1] at hshape
    have hvals := segsRel_valuesQ _ _ hli hshape
    have hle := hl0.le
    by_cases hi : info = []
    · subst hi
      simp only [List.isEmpty_nil, if_true] at hin
      have hinfo : m'.info = none := by
        cases hx : m'.info with
        | none => rfl
        | some s => rw [hx] at hin; exact hin.elim
      simp only [node5, fenceN, GM.Convert.docTree, GM.Convert.docTrees, GM.Convert.inlinePhase, GM.Convert.isRawKind,
        GM.Convert.inlineTrees, GM.Convert.liftErr, GM.Convert.blockKind, List.isEmpty_nil, if_true,
        bind, Except.bind, pure, Except.pure] at hS
      simp only [GM.Convert.docTree, GM.Convert.docTrees, GM.Convert.inlinePhase, hk, GM.Convert.isRawKind,
        GM.Convert.inlineTrees, GM.Convert.liftErr, GM.Convert.blockKind, hinfo, hvals,
        bind, Except.bind, pure, Except.pure]
      exact hS
    · have hie : info.isEmpty = false := by cases info with
        | nil => exact absurd rfl hi
        | cons a t => rfl
      simp only [hie, Bool.false_eq_true, if_false] at hin
      obtain ⟨t, hinfo, hrel⟩ : ∃ t, m'.info = some t ∧ SegRel S (sg (p + n + 3) (p + n + 3 + info.length)) t := by
        cases hx : m'.info with
        | none => rw [hx] at hin; exact hin.elim
        | some s => rw [hx] at hin; exact ⟨s, rfl, hin⟩
      have hval := segRel_valueQ_sg hrel (by
        have : 0 < info.length := by cases info with
          | nil => exact absurd rfl hi
          | cons a t => simp
        omega) (by omega)
      simp only [node5, fenceN, GM.Convert.docTree, GM.Convert.docTrees, GM.Convert.inlinePhase, GM.Convert.isRawKind,
        GM.Convert.inlineTrees, GM.Convert.liftErr, GM.Convert.blockKind, hie, Bool.false_eq_true, if_false,
        bind, Except.bind, pure, Except.pure] at hS
      simp only [GM.Convert.docTree, GM.Convert.docTrees, GM.Convert.inlinePhase, hk, GM.Convert.isRawKind,
        GM.Convert.inlineTrees, GM.Convert.liftErr, GM.Convert.blockKind, hinfo, hvals, hval,
        bind, Except.bind, pure, Except.pure]
      exact hS

/-- the children of the Blockquote -/
theorem docTrees_quoteQ {S : Bytes} (env : GM.Inl.Env) (henv : env.escapedSpace = false) :
    ∀ (cl : List (Nat × List Bytes)) (blks : List Raw5) (bs : List Bool) (kidsB : List Blocks.Node),
      AllAt S cl blks → (∀ b ∈ blks, isIcB b = false) → bs.length = cl.length →
      RelL (NodeRel S false) (mkNodes5 cl blks bs) kidsB →
      GM.Convert.docTrees true env (quotePrefix S) (kidsB.map (fun n => Tree.node n [])) = .ok (blks.map rawNode5)
  | [], [], _, kidsB, _, _, _, hr => by
    cases kidsB with
    | nil => simp [GM.Convert.docTrees, pure, Except.pure]
    | cons _ _ => simp [mkNodes5, RelL] at hr
  | [], _ :: _, _, _, h, _, _, _ => by simp [AllAt] at h
  | _ :: _, [], _, _, h, _, _, _ => by simp [AllAt] at h
  | _ :: _, _ :: _, [], _, _, _, h, _ => by simp at h
  | (p, ls) :: cl, b :: blks, bk :: bs, kidsB, h, hni, hl, hr => by
    obtain ⟨rfl, hpa, hp, hg, hrest⟩ := h
    cases kidsB with
    | nil => simp [mkNodes5, RelL] at hr
    | cons m' kidsB' =>
      simp only [mkNodes5, RelL] at hr
      have ih := docTrees_quoteQ env henv cl blks bs kidsB' hrest (fun x hx => hni x (by simp [hx]))
        (by simpa using hl) hr.2
      simp only [List.map_cons, GM.Convert.docTrees,
        docTree_blockQ env henv b p bk hg (hni b (by simp)) hpa hp m' hr.1, ih, bind,
        Except.bind, pure, Except.pure]

theorem mem_quotePrefixGo : ∀ (s : Bytes) (b : Bool) (c : UInt8), c ∈ quotePrefixGo s b → c = 62 ∨ c = 32 ∨ c ∈ s
  | [], _, c, h => by simp [quotePrefixGo] at h
  | x :: xs, b, c, h => by
    simp only [quotePrefixGo, List.mem_append, List.mem_cons] at h
    rcases h with h | h | h
    · cases b <;> simp at h
      rcases h with h | h
      · exact .inl h
      · exact .inr (.inl h)
    · exact .inr (.inr (by simp [h]))
    · rcases mem_quotePrefixGo xs _ c h with h | h | h
      · exact .inl h
      · exact .inr (.inl h)
      · exact .inr (.inr (by simp [h]))

theorem noBracket_quotePrefix (S : Bytes) (h : ∀ b ∈ S, b ≠ 91) : ∀ b ∈ quotePrefix S, b ≠ 91 := by
  intro b hb
  rcases mem_quotePrefixGo S true b hb with rfl | rfl | hm
  · decide
  · decide
  · exact h b hm

/-- **the model of `goldmark.Convert` on a stage-6 document put into a block quote** — for a source without bytes that
    could start a list item (`C08ClassL`) and without `[`, given `BPFree` -/
theorem convert_quote6 (H : BPFree) (uc : List (Nat × (Bool × Bool))) (items : List (Nat × Raw5)) (trail : Nat)
    (hgood : ∀ it ∈ items, Good5' it.2) (hseps : SepsOK6 none items) (hnoic : ∀ it ∈ items, isIcB it.2 = false)
    (hclass : C08ClassL (rawDoc6 items trail)) (hnb : ∀ b ∈ rawDoc6 items trail, b ≠ 91) :
    GM.Convert.convertCore uc cmOpts (quotePrefix (rawDoc6 items trail)) =
      .ok (strBytes "<blockquote>\n" ++ hdocHtml (items.map (·.2)) ++ strBytes "</blockquote>\n") := by
  have hno : ∀ it ∈ items, ∀ l ∈ lines5 it.2, ∀ c ∈ l, c ≠ 10 := fun it hit => lines5_no_nl it.2 (hgood it hit)
  obtain ⟨s', bs, h1, h2, h3, h4⟩ := runT_doc6 items trail (fun it hit => good5_of it.2 (hgood it hit)) hseps
    (icOK6_of_none _ false hnoic) hno
  have hrunT : GM.Convert.blockPhase true (rawDoc6 items trail) = .ok s' := h1
  have hA : GM.Blocks.run (rawDoc6 items trail) = .ok s' := by rw [← H _ hnb]; exact hrunT
  obtain ⟨sB, hB, hrel, _⟩ := run_sim hclass hA
  have hBP : GM.Convert.blockPhase true (quotePrefix (rawDoc6 items trail)) = .ok sB := by
    rw [H _ (noBracket_quotePrefix _ hnb)]; exact hB
  have hd := docAt6_raw items trail [] hno
  simp only [List.nil_append, List.length_nil] at hd
  have hall := allAt_closed items trail 0 hd hgood
  have hlen : (closedOf6 0 items).length = items.length := closedOf6_length items 0
  have hml := mkNodes5_length (closedOf6 0 items) (items.map (·.2)) bs (by simp [hlen]) (by rw [hlen]; exact h2)
  rw [h3] at hrel
  obtain ⟨bq, kidsB, htree, hbk, hbl, hkids⟩ := treeOf_quoteQ (addKids { kind := .document } 0 items.length)
    (mkNodes5 (closedOf6 0 items) (items.map (·.2)) bs) sB.nodes items.length (by simp [addKids]) rfl
    (by rw [hml, hlen]) (mkNodes5_children _ _ _) hrel
  have hdt := docTrees_quoteQ (S := rawDoc6 items trail) { refs := sB.pc.refs, uc := uc } rfl
    (closedOf6 0 items) (items.map (·.2)) bs kidsB hall
    (by intro b hb; obtain ⟨it, hit, rfl⟩ := List.mem_map.mp hb; exact hnoic it hit) (by rw [hlen]; exact h2) hkids
  have hlev : ∀ b ∈ items.map (·.2), ∀ level l, b = Raw5.old (RawBlock.atx level l) → level ≤ 6 := by
    intro b hb level l he
    obtain ⟨it, hit, rfl⟩ := List.mem_map.mp hb
    have := hgood it hit
    rw [he] at this
    exact this.2.1
  unfold GM.Convert.convertCore GM.Convert.convertWith GM.Convert.parseDoc
  simp only [hBP, GM.Convert.liftErr, bind, Except.bind, htree, GM.Convert.docTree, GM.Convert.docTrees, hdt,
    GM.Convert.inlinePhase, hbk, hbl, GM.Convert.isRawKind, GM.Convert.blockKind, List.isEmpty_nil, pure, Except.pure]
  have hit0 : GM.Convert.inlineTrees (quotePrefix (rawDoc6 items trail)) [] = .ok [] := rfl
  have := renderDoc_quoteQ (items.map (·.2)) hlev
  simpa [hit0] using this

open GM.Spec.CM GM.Spec.CMFrag in
/-- **the conformance theorem of the stage-10 fragment** (a stage-6 document inside one block quote), given `BPFree` -/
theorem fragmentQ_conforms (H : BPFree) (d : KDoc) (h : QFrag d) (uc : List (Nat × (Bool × Bool))) :
    GM.Convert.convertCore uc cmOpts (spellQ d) = .ok (expectedQ d) := by
  have hk := qfrag_kfrag d h
  have hcl := (qclean_class d h).wide.wider
  have hnb := qclean_no_bracket d h
  unfold KFrag kfragB at hk
  simp only [Bool.and_eq_true, List.all_eq_true] at hk
  obtain ⟨hok, hseps⟩ := hk
  have hgood : ∀ it ∈ d.items.map convK, Good5' it.2 := by
    intro x hx
    obtain ⟨it, hit, rfl⟩ := List.mem_map.mp hx
    exact good5_rawOfH it.block (hok it hit)
  rw [spellK_raw] at hcl hnb
  have hnoic : ∀ it ∈ d.items.map convK, isIcB it.2 = false := by
    intro x hx
    obtain ⟨it, hit, rfl⟩ := List.mem_map.mp hx
    exact isIcB_rawOfH it.block
  have hc := convert_quote6 H uc (d.items.map convK) d.trail hgood (sepsOK_of none d.items hseps) hnoic hcl hnb
  rw [spellQ_eq, spellK_raw, hc]
  have he : expectedK d = hdocHtml ((d.items.map (·.block)).map rawOfH) := by
    rw [hdocHtml_spelled _ (by
      intro b hb
      obtain ⟨it, hit, rfl⟩ := List.mem_map.mp hb
      exact hok it hit)]
    simp [expectedK, List.flatMap_map]
  rw [expectedQ, he]
  simp [convK, List.map_map, Function.comp_def]

end GM.Proof.CMFrag
