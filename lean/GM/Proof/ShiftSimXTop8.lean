/-
  GM.Proof.ShiftSimXTop8 — after a pass of `lineLoop` over an attached `Cov6` stack (`Plain6` source) every open block
  is attached and `Cov6` again (`att_lineLoop6`).
-/
import GM.Proof.ShiftSimXTop7

namespace GM.Blocks.Xs
open GM GM.Text GM.Spec GM.Proof.Reader GM.Blocks GM.Blocks.L
open GM.Blocks.Sh (K KS bind_ok_inv liftE_ok_inv a2_getNode_inv a2_getPc_inv a2_modPc_inv a2_lastOpenedBlock_inv
  llOpen llFall llBody ll_lineLoop_cons)

/-- every open block is attached and `Cov6` -/
def AttAll (t : St) : Prop := ∀ z ∈ t.pc.opened, (nd t z.node).parent.isSome = true ∧ Cov6 z.bp

theorem a8_sep (l : List Block) (hinc : (l.map (fun z : Block => z.node)).Pairwise (· < ·)) (n : Nat) :
    ∀ z ∈ l.take n, ∀ b ∈ l.drop n, z.node < b.node := by
  intro z hz b hb
  have h := hinc
  rw [← List.take_append_drop n l, List.map_append, List.pairwise_append] at h
  exact h.2.2 z.node (List.mem_map.2 ⟨z, hz, rfl⟩) b.node (List.mem_map.2 ⟨b, hb, rfl⟩)

section asm
variable {J : St → Prop} {src : Bytes} (hJr : ∀ t t' : St, J t → t'.r = t.r → J t')
  (hJo : ∀ bp, Cov6 bp → ∀ p, Keeps J (bpOpen bp p)) (hJlo : Keeps J lineOffset)
  (hJpk : ∀ (t : St) lp t1, J t → peekLine t = .ok (lp, t1) → J t1 ∧ ∀ c ∈ lp.1.getD [], c ∈ src ∨ c = 32)
  (hpl : Plain6 src)
include hJr hJo hJlo hJpk hpl

theorem a8_llOpen (b0 : Block) (rest : List Block)
    (hinc : ((b0 :: rest).map (fun z : Block => z.node)).Pairwise (· < ·)) (i : Int) (p : Nat)
    (blank : Bool) (bl : List LineStat) (t t' : St) (x : LineOutcome × List LineStat) (hj : J t)
    (hm : M6 b0 rest t)
    (hcase : (i = 0 ∧ p = 0) ∨ (0 < i ∧ ∃ b, blockAt (b0 :: rest) (i - 1) = .ok b ∧ p = b.node))
    (h : llOpen (b0 :: rest) (((b0 :: rest).length : Int) - 1) i blank bl p t = .ok (x, t')) : AttAll t' := by
  obtain ⟨hk, ho, hatt, hl⟩ := hm
  unfold llOpen at h
  obtain ⟨lastNode, u1, g1, gA⟩ := bind_ok_inv h
  obtain ⟨elast, e1⟩ := liftE_ok_inv g1
  rw [e1] at gA
  obtain ⟨r, t1, g2, gB⟩ := bind_ok_inv gA
  have hi0 : 0 ≤ i ∧ i.toNat ≤ (b0 :: rest).length := by
    rcases hcase with ⟨rfl, _⟩ | ⟨hi, b, hb, _⟩
    · exact ⟨Int.le_refl 0, Nat.zero_le _⟩
    · obtain ⟨_, hg⟩ := h7_blockAt_get hb
      have : (i - 1).toNat < (b0 :: rest).length := by
        rcases Nat.lt_or_ge (i - 1).toNat (b0 :: rest).length with hh | hh
        · exact hh
        · rw [List.getElem?_eq_none hh] at hg; cases hg
      exact ⟨by omega, by omega⟩
  have hp0 : p < t.nodes.length := by
    rcases hcase with ⟨_, rfl⟩ | ⟨_, b, hb, rfl⟩
    · exact hk.doc.1
    · exact (hk.opened b (ho ▸ Sh.blockAt_mem hb)).2
  obtain ⟨q, hw⟩ := h6_openBlocks hJr hJo hJlo hJpk hpl p blank t t1 r hj hk (fun y hy => hatt y (ho ▸ hy)) hp0 g2
  rw [ho] at hw
  obtain ⟨hk1, hattc, hL, _, new, e1, e2, e3, e4⟩ := hw
  by_cases hr : (r != OpenResult.paragraphContinuation) = true
  · rw [if_pos hr] at gB
    obtain ⟨pc, u2, g3, gC⟩ := bind_ok_inv gB
    obtain ⟨epc, e3'⟩ := a2_getPc_inv g3
    subst e3'
    subst epc
    obtain ⟨_, t2, g4, gD⟩ := bind_ok_inv gC
    cases gD
    obtain ⟨_, hget⟩ := h7_blockAt_get elast
    have hlt : ((((b0 :: rest).length : Int) - 1)).toNat < (b0 :: rest).length := by
      rcases Nat.lt_or_ge ((((b0 :: rest).length : Int) - 1)).toNat (b0 :: rest).length with hh | hh
      · exact hh
      · rw [List.getElem?_eq_none hh] at hget; cases hget
    have hslot : slotAfter (b0 :: rest) u2.pc.opened ((((b0 :: rest).length : Int) - 1)).toNat = some lastNode := by
      unfold slotAfter
      rw [e1, List.getElem?_append_left hlt, hget]
    rw [hslot] at g4
    have hfrm : ((Option.map (fun x : Block => x.node) (some lastNode) != some lastNode.node) = true) = False := by
      simp
    simp only [hfrm, if_false] at g4
    obtain ⟨_, est⟩ := closeBlocks_opened _ _ _ _ g4
    have hst : t'.pc.opened = (b0 :: rest).take i.toNat ++ new := by
      rw [est, e1, List.take_append_of_le_length hi0.2]
      have : ((((b0 :: rest).length : Int) - 1) + 1).toNat = (b0 :: rest).length := by omega
      rw [this]
      simp
    intro z hz
    rw [hst] at hz
    have hz1 : z ∈ u2.pc.opened := by
      rw [e1]
      rcases List.mem_append.1 hz with hz | hz
      · exact List.mem_append_left _ (List.mem_of_mem_take hz)
      · exact List.mem_append_right _ hz
    refine ⟨?_, (hattc z hz1).2⟩
    refine p6_closeBlocks (a := z.node) _ i u2 t' _ (fun j b h1 h2 h3 => ?_) (hattc z hz1).1 g4
    refine ⟨(hattc b (Sh.blockAt_mem h3)).2, ?_⟩
    rw [e1] at h3
    obtain ⟨_, hg⟩ := h7_blockAt_get h3
    have hjl : j.toNat < (b0 :: rest).length := by omega
    rw [List.getElem?_append_left hjl] at hg
    have hbm : b ∈ b0 :: rest := List.mem_of_getElem? hg
    have hbd : b ∈ (b0 :: rest).drop i.toNat := by
      have : ((b0 :: rest).drop i.toNat)[j.toNat - i.toNat]? = some b := by
        rw [List.getElem?_drop]
        have : i.toNat + (j.toNat - i.toNat) = j.toNat := by omega
        rw [this]; exact hg
      exact List.mem_of_getElem? this
    rcases List.mem_append.1 hz with hz | hz
    · have := a8_sep (b0 :: rest) hinc i.toNat z hz b hbd
      omega
    · have := e2 z hz
      have := (hk.opened b (ho ▸ hbm)).2
      omega
  · rw [if_neg hr] at gB
    cases gB
    exact hattc

theorem a8_lineLoop (hJc : ∀ bp, Cov6 bp → ∀ n, Keeps J (bpContinue bp n)) (b0 : Block) (rest : List Block)
    (hinc : ((b0 :: rest).map (fun z : Block => z.node)).Pairwise (· < ·)) :
    ∀ (rem : List Block) (i : Int) (bl : List LineStat) (t t' : St) (x : LineOutcome × List LineStat),
      J t → M6 b0 rest t → 0 ≤ i → (∀ z ∈ rem, z ∈ b0 :: rest) →
      lineLoop 0 (b0 :: rest) (((b0 :: rest).length : Int) - 1) rem i bl t = .ok (x, t') → AttAll t' := by
  intro rem
  induction rem with
  | nil =>
    intro i bl t t' x _ hm _ _ h
    unfold lineLoop at h
    cases h
    intro z hz
    exact hm.2.2.1 z (hm.2.1 ▸ hz)
  | cons be rem ih =>
    intro i bl t t' x hj hm hi hrem h
    rw [ll_lineLoop_cons] at h
    obtain ⟨lp, t1, h1, hA⟩ := bind_ok_inv h
    obtain ⟨hj1, _⟩ := hJpk t lp t1 hj h1
    obtain ⟨r', e1⟩ := tl_peekLine_inv h1
    subst e1
    have hm1 : M6 b0 rest { t with r := r' } :=
      hm.links (Sh.a2_KS_same (s' := { t with r := r' }) hm.1 ⟨rfl, rfl⟩).1 (LinksKept.of_nodes rfl) rfl
    have ho1 := hm1.2.1
    cases hl : lp.1 with
    | none =>
      rw [hl] at hA
      obtain ⟨_, t2, h2, hB⟩ := bind_ok_inv hA
      obtain ⟨_, e2⟩ := closeBlocks_opened _ _ _ _ h2
      obtain ⟨_, t3, h3, hC⟩ := bind_ok_inv hB
      cases h3
      cases hC
      intro b hb
      exfalso
      have e2' : t2.pc.opened = [] := by
        rw [e2, ho1]
        have : ((((b0 :: rest).length : Int) - 1) + 1).toNat = (b0 :: rest).length := by omega
        rw [this, List.drop_length]
        rfl
      have hb' : b ∈ t2.pc.opened := hb
      rw [e2'] at hb'
      cases hb'
    | some line =>
      rw [hl] at hA
      obtain ⟨y, t2, h2, hB⟩ := bind_ok_inv hA
      cases h2
      have hbe : be ∈ b0 :: rest := hrem be List.mem_cons_self
      have fall : ∀ u bl', J u → M6 b0 rest u →
          llFall 0 (b0 :: rest) (((b0 :: rest).length : Int) - 1) i
            ({ t with r := r' } : St).r.position.1 bl' u = .ok (x, t') → AttAll t' := by
        intro u bl' ju mu e
        unfold llFall at e
        by_cases c : (i != 0) = true
        · rw [if_pos c] at e
          obtain ⟨b, u1, g1, gA⟩ := bind_ok_inv e
          obtain ⟨eb, e1⟩ := liftE_ok_inv g1
          rw [e1] at gA
          have hi0 : i ≠ 0 := by simpa using c
          exact a8_llOpen hJr hJo hJlo hJpk hpl b0 rest hinc i b.node _ _ _ _ _ ju mu
            (Or.inr ⟨by omega, b, eb, rfl⟩) gA
        · rw [if_neg c] at e
          have hi0 : i = 0 := by simpa using c
          exact a8_llOpen hJr hJo hJlo hJpk hpl b0 rest hinc i 0 _ _ _ _ _ ju mu (Or.inl ⟨hi0, rfl⟩) e
      unfold llBody at hB
      obtain ⟨bn, t3, h3, hC⟩ := bind_ok_inv hB
      obtain ⟨_, e3⟩ := a2_getNode_inv h3
      subst e3
      split at hC
      · obtain ⟨st, t4, h4, hD⟩ := bind_ok_inv hC
        have hbe1 : be ∈ ({ t with r := r' } : St).pc.opened := by rw [ho1]; exact hbe
        have hbn := hm1.1.opened be hbe1
        have k4 := (Sh.a2_bpContinue_KS be.bp be.node hbn.1 _ _ _ hm1.1 h4).1
        have hm4 : M6 b0 rest t4 := hm1.links k4 ((bpContinue_frl be.bp be.node).h _ _ _ h4)
          (bpContinue_opened be.bp be.node _ _ _ h4)
        have hj4 : J t4 := hJc be.bp (hm1.2.2.1 be hbe).2 be.node _ _ _ hj1 h4
        split at hD
        · split at hD
          · obtain ⟨_, t5, h5, hE⟩ := bind_ok_inv hD
            cases hE
            have hbn4 := hm4.1.opened be (by rw [hm4.2.1]; exact hbe)
            obtain ⟨q, hw⟩ := h6_openBlocks hJr hJo hJlo hJpk hpl be.node _ t4 _ _ hj4 hm4.1
              (fun y hy => hm4.2.2.1 y (hm4.2.1 ▸ hy)) hbn4.2 h5
            exact hw.2.1
          · exact ih (i + 1) _ _ _ _ hj4 hm4 (by omega)
              (fun z hz => hrem z (List.mem_cons_of_mem _ hz)) hD
        · exact fall _ _ hj4 hm4 hD
      · exact fall _ _ hj1 hm1 hC

end asm

/-- after a pass, every open block is attached and `Cov6` (same hypotheses as `topLast_lineLoop6`) -/
theorem attAll_lineLoop6 (src : Bytes) (hpl : Plain6 src)
    (hRIo : ∀ bp, Cov6 bp → ∀ p, Keeps (Sh.lb_RIs src) (bpOpen bp p))
    (hRIc : ∀ bp, Cov6 bp → ∀ n, Keeps (Sh.lb_RIs src) (bpContinue bp n))
    (b0 : Block) (rest : List Block) (s s' : St) (bl : List LineStat) (x : LineOutcome × List LineStat)
    (hk : K s) (htop : TopLast s) (hop : s.pc.opened = b0 :: rest) (hcov : ∀ z ∈ b0 :: rest, Cov6 z.bp)
    (hri : ∃ c, RI src s.r c) (hst : StableL src 0 s)
    (hatt : ∀ z ∈ b0 :: rest, (nd s z.node).parent.isSome = true)
    (h : lineLoop 0 (b0 :: rest) (((b0 :: rest).length : Int) - 1) (b0 :: rest) 0 bl s = .ok (x, s')) :
    AttAll s' := by
  have hinc : ((b0 :: rest).map (fun z : Block => z.node)).Pairwise (· < ·) := by
    have := hst.ls.incr
    rw [hop] at this
    exact (List.pairwise_cons.1 this).2
  exact a8_lineLoop (h7_ri_r src) hRIo (Sh.lb_lineOffset_keeps src) (h7_ri_peek src) hpl hRIc b0 rest hinc
    (b0 :: rest) 0 bl s s' x hri ⟨hk, hop, fun z hz => ⟨hatt z hz, hcov z hz⟩, htop b0 (by rw [hop]; rfl)⟩
    (Int.le_refl 0) (fun z hz => hz) h

theorem att_lineLoop6 (src : Bytes) (hpl : Plain6 src)
    (hRIo : ∀ bp, Cov6 bp → ∀ p, Keeps (Sh.lb_RIs src) (bpOpen bp p))
    (hRIc : ∀ bp, Cov6 bp → ∀ n, Keeps (Sh.lb_RIs src) (bpContinue bp n))
    (b0 : Block) (rest : List Block) (s s' : St) (bl : List LineStat) (x : LineOutcome × List LineStat)
    (hk : K s) (htop : TopLast s) (hop : s.pc.opened = b0 :: rest) (hcov : ∀ z ∈ b0 :: rest, Cov6 z.bp)
    (hri : ∃ c, RI src s.r c) (hst : StableL src 0 s)
    (hatt : ∀ z ∈ b0 :: rest, (nd s z.node).parent.isSome = true)
    (h : lineLoop 0 (b0 :: rest) (((b0 :: rest).length : Int) - 1) (b0 :: rest) 0 bl s = .ok (x, s')) :
    ∀ z ∈ s'.pc.opened, (nd s' z.node).parent.isSome = true := fun z hz =>
  (attAll_lineLoop6 src hpl hRIo hRIc b0 rest s s' bl x hk htop hop hcov hri hst hatt h z hz).1

end GM.Blocks.Xs
