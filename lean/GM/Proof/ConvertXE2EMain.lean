/-
  GM.Proof.ConvertXE2EMain — C01 END TO END WITH EXTENSIONS, composition for the member sets without Table: the tree phases of
  `convertL` answer an `okN` tree from every store of the default block phase whose tree nodes have `NodeTot`; no node renderer
  panics on it; so `convertL` answers HTML. The block-phase facts enter in the shapes package tnopanic states them
  (GM.Props.ConvertNP), exactly as in GM.Proof.E2ENT.convertCore_total_of_tree_facts.
-/
import GM.Proof.ConvertXE2ECS

namespace GM.Proof.ConvertXE2E
open GM GM.Text GM.Spec GM.Inl GM.ConvertX GM.Convert GM.Proof.ConvertX GM.E2E GM.Proof.ConvertXE2ECS

variable {src : Bytes}

theorem okN_block (k : Kind) (cs : List GM.Node) (hk : blockKindOK k = true) (hc : okL cs = true) :
    okN (.mk k none cs) = true := by
  cases k <;> simp [blockKindOK] at hk <;> simp [okN, hc]
  omega

theorem inlinePhaseL_csHL (c : GCfg) (ht : c.base.table = false) {env : Env} {inItem : Bool} {n : GM.Blocks.Node}
    {kids : List Inl.Node} (h : inlinePhaseL c true env src inItem n = .ok kids) : csHL kids = true := by
  unfold inlinePhaseL at h
  split at h
  · cases h; rfl
  · simp only [ht, Bool.false_and, Bool.false_eq_true, if_false] at h
    unfold inlineLinesL at h
    split at h
    · cases h; rfl
    · split at h
      · cases h
      · exact parseBlockG_csHL c inItem env src _ kids (liftErr_ok' h)

mutual
theorem docTreeL_okN (c : GCfg) (ht : c.base.table = false) (env : Env) (escs : List Int) :
    ∀ (inItem : Bool) (t : GM.Blocks.Tree), treeAll HeadP t → ∀ x, docTreeL c true env src escs inItem t = .ok x →
    okN x = true
  | inItem, .node n cs, ha, x, h => by
    simp only [treeAll] at ha
    unfold docTreeL at h
    obtain ⟨bs, hbs, h⟩ := ebind_ok h
    obtain ⟨kids, hkids, h⟩ := ebind_ok h
    simp only [ht, Bool.false_and, Bool.false_eq_true, if_false] at h
    obtain ⟨is, his, h⟩ := ebind_ok h
    obtain ⟨k, hk, h⟩ := ebind_ok h
    rw [epure_ok h]
    have h1 := docTreesL_okL c ht env escs _ _ cs ha.2 bs hbs
    have h2 := inlineTreesL_okL c kids (inlinePhaseL_csHL c ht hkids) is (liftErr_ok' his)
    have hk' : blockKind src n = .ok k := by
      have := liftErr_ok' hk
      rwa [blockKindX_noTable _ ht] at this
    exact okN_block k _ (blockKind_ok ha.1 hk') (by rw [okL_append, h1, h2]; rfl)
theorem docTreesL_okL (c : GCfg) (ht : c.base.table = false) (env : Env) (escs : List Int) :
    ∀ (pi first : Bool) (ts : List GM.Blocks.Tree), treesAll HeadP ts → ∀ xs,
    docTreesL c true env src escs pi first ts = .ok xs → okL xs = true
  | _, _, [], _, xs, h => by unfold docTreesL at h; rw [epure_ok h]; rfl
  | pi, first, t :: rest, ha, xs, h => by
    simp only [treesAll] at ha
    unfold docTreesL at h
    obtain ⟨x, hx, h⟩ := ebind_ok h
    obtain ⟨xs', hxs, h⟩ := ebind_ok h
    rw [epure_ok h]
    simp [okL, docTreeL_okN c ht env escs _ t ha.1 x hx, docTreesL_okL c ht env escs _ _ rest ha.2 xs' hxs]
end

/-- `convertL` (no Table) answers HTML whenever the default block phase answers a store whose TREE nodes are good -/
theorem convertL_total_of_tree (c : GCfg) (ht : c.base.table = false) (uc : List (Nat × (Bool × Bool))) (o : ROpts)
    (st : GM.Blocks.St) (hst : blockPhase true src = .ok st)
    (h0 : NodeTot src (st.nodes.getD 0 default))
    (hk : ∀ p c, c ∈ (st.nodes.getD p default).children → NodeTot src (st.nodes.getD c default)) :
    ∃ html, convertL c uc o src = .ok html := by
  have hb : blockPhaseX c.base true src = .ok st := by rw [blockPhaseX_noTable c.base ht]; exact hst
  have hH : HeadOK st := blockPhase_headOK true src st hst
  obtain ⟨t, htree⟩ := docTreeL_total (src := src) c ht { refs := st.pc.refs, uc := uc } [] false _
    (treeOf_all_reach st.nodes hk st.nodes.length 0 h0)
  have hok := docTreeL_okN (src := src) c ht { refs := st.pc.refs, uc := uc } [] false _
    (treeOf_all st.nodes (headOK_getD hH) st.nodes.length 0) t htree
  have hpd : parseDocL c true uc src = .ok t := by
    unfold parseDocL
    simp only [bind, Except.bind, hb, liftErr, ht, Bool.false_eq_true, if_false]
    exact htree
  refine ⟨render (rcfgX c.base o) t, ?_⟩
  unfold convertL convertLWith renderDocX
  simp only [bind, Except.bind, hpd, renderPanics_none_of_okN _ t hok]

/-- the same from the block-phase facts in the shapes of GM.Props.ConvertNP (as GM.E2E.convertCore_total_of_tree_facts) -/
theorem convertL_total_of_tree_facts (c : GCfg) (ht : c.base.table = false) (uc : List (Nat × (Bool × Bool))) (o : ROpts)
    (st : GM.Blocks.St) (hst : blockPhase true src = .ok st)
    (hL : ∀ n ∈ st.nodes, ∀ t ∈ n.lines, 0 ≤ t.start ∧ t.start ≤ t.stop ∧ t.stop ≤ src.length ∧ 0 ≤ t.padding)
    (hW : ∀ n ∈ st.nodes, GM.Proof.BlocksWF0.isRaw n.kind = false → n.lines ≠ [] → WFSegs src n.lines)
    (hP : ∀ p c, c ∈ (st.nodes.getD p default).children → GM.Proof.BlocksWF0.isRaw (st.nodes.getD c default).kind = false →
      ∀ t ∈ (st.nodes.getD c default).lines, t.padding = 0)
    (h0 : (st.nodes.getD 0 default).lines = []) :
    ∃ html, convertL c uc o src = .ok html := by
  have hx := runT_xsegs src (paragraphTransformers_keep true) st hst
  have raw : ∀ i, RawSegsP src (st.nodes.getD i default) := by
    intro i
    by_cases hlt : i < st.nodes.length
    · have e : st.nodes.getD i default = st.nodes[i] := by simp [List.getD, hlt]
      have hm : st.nodes[i] ∈ st.nodes := List.getElem_mem hlt
      rw [e]
      exact ⟨fun _ t ht => hL _ hm t ht, (hx _ hm).info, (hx _ hm).closure⟩
    · have e : st.nodes.getD i default = default := by
        simp [List.getD, List.getElem?_eq_none (Nat.le_of_not_lt hlt)]
      rw [e]; exact rawSegsP_default src
  have wfs : ∀ i, isRawKind (st.nodes.getD i default).kind = false → (st.nodes.getD i default).lines ≠ [] →
      WFSegs src (st.nodes.getD i default).lines := by
    intro i hr hne
    by_cases hlt : i < st.nodes.length
    · have e : st.nodes.getD i default = st.nodes[i] := by simp [List.getD, hlt]
      have hm : st.nodes[i] ∈ st.nodes := List.getElem_mem hlt
      rw [e] at hr hne ⊢
      exact hW _ hm (by rw [isRaw_eq_isRawKind]; exact hr) hne
    · have e : st.nodes.getD i default = default := by
        simp [List.getD, List.getElem?_eq_none (Nat.le_of_not_lt hlt)]
      rw [e] at hne; exact absurd rfl hne
  refine convertL_total_of_tree c ht uc o st hst
    ⟨raw 0, fun _ hne => absurd h0 hne⟩ (fun p c' hc => ⟨raw c', fun hr hne => ⟨wfs c' hr hne, ?_⟩⟩)
  exact hP p c' hc (by rw [isRaw_eq_isRawKind]; exact hr)

end GM.Proof.ConvertXE2E
