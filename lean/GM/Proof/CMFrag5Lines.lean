/-
  GM.Proof.CMFrag5Lines — stage 5: the lines of a fenced code block with the block open: a content line (appended),
  the closing fence (the block is closed on that line), and the per-line loop over the whole block.
-/
import GM.Proof.CMFrag5Defs
import GM.Proof.CMFragLoop

namespace GM.Proof.CMFrag
open GM GM.Text GM.Blocks GM.Spec

/-- `LineOffset()` anywhere on a line: some value, cached -/
theorem lineOffset_any {src : Bytes} {h p : Nat} (hhp : h ≤ p) (hp : p ≤ src.length) (k e pk nodes pc) :
    ∃ lo : Int, lineOffset ⟨rdr src k h p e pk (-1), nodes, pc⟩ = .ok (lo, ⟨rdr src k h p e pk lo, nodes, pc⟩) := by
  by_cases hc : (h : Int) ≥ (p : Int)
  · exact ⟨0, by simp [lineOffset, Reader.lineOffsetOp, rdr, colLoop, hc, bind, Except.bind, pure, Except.pure]⟩
  · have hc' : ¬ (p ≤ h) := by omega
    have c2 : ¬ (src.length < p) := by omega
    exact ⟨_, by simp [lineOffset, Reader.lineOffsetOp, rdr, colLoop, hc', c2, bind, Except.bind, pure, Except.pure]; rfl⟩

theorem sub_last {src : Bytes} {p e : Nat} {w : Bytes} (h : sub src p e = w ++ [10]) (hpe : p < e) (hlen : (w ++ [10]).length = e - p) :
    sub src (e - 1) e = [10] := by
  unfold sub at *
  have e1 : e - (e - 1) = 1 := by omega
  rw [e1]
  have e2 : List.drop (e - 1) src = List.drop (e - 1 - p) (List.drop p src) := by
    rw [List.drop_drop]; congr 1; omega
  rw [e2]
  have hw : w.length = e - 1 - p := by simp at hlen; omega
  have h3 : List.take 1 (List.drop (e - 1 - p) (List.take (e - p) (List.drop p src))) = [10] := by
    rw [h, ← hw]; simp
  rw [List.drop_take] at h3
  rw [List.take_take] at h3
  have : min 1 (e - p - (e - 1 - p)) = 1 := by omega
  rw [this] at h3
  exact h3

theorem stAdvancePad_fast {src : Bytes} {n : Int} {m : Nat} {v : Bytes} (hn : n = (m : Int)) (hm : m < v.length)
    (k h p e lo nodes pc) :
    advanceAndSetPadding n 0 ⟨rdr src k h p e (some v) lo, nodes, pc⟩ =
      .ok ((), ⟨rdr src k h (p + m) e none (-1), nodes, pc⟩) := by
  subst hn
  have c : ((m : Int) < (v.length : Int)) := by omega
  simp [advanceAndSetPadding, Reader.advanceAndSetPadding, Reader.advance, rdr, c, bind, Except.bind, pure, Except.pure]

section fence
variable {src : Bytes} {p e : Nat} {v : Bytes}

/-- the fence data of the open block -/
def fdOf (fc : UInt8) (n node : Nat) : FenceData := { char := fc, indent := 0, length := ((n + 3 : Nat) : Int), node := node }

/-- fencedCodeBlockParser.Continue on a content line (already peeked) -/
theorem fencedContinue_line (hl : Ln src p e v) (fc : UInt8) (n : Nat) (c0 : UInt8) (t : Bytes) (hv : v = c0 :: t)
    (h32 : c0 ≠ 32) (h9 : c0 ≠ 9) (hfc : c0 ≠ fc) (k : Int) (d : Blocks.Node) (rest : List Blocks.Node)
    (info : Option Segment) (lines : List Segment) (b : Bool) (pc : Ctx) (hfd : pc.fence = some (fdOf fc n (rest.length + 1))) :
    fencedContinue (rest.length + 1) ⟨rdr src k p p e (some v) (-1), d :: (rest ++ [fenceN info lines b]), pc⟩ =
      .ok (stContinueNoChildren,
        ⟨rdr src k p (e - 1) e none (-1), d :: (rest ++ [fenceN info (lines ++ [csg p e]) b]), pc⟩) := by
  have hp : p < src.length := by have := hl.le; have := hl.lt; omega
  have b32 : (c0 == 32) = false := by simp [h32]
  have b9 : (c0 == 9) = false := by simp [h9]
  have hiw : indentWidthI v 0 = (0, 0) := by
    subst hv; unfold GM.Blocks.indentWidthI GM.Blocks.indentWidthGo; simp [b32, b9]
  have hscan : scanWhileEq v fc 0 = 0 := by
    subst hv
    have : (c0 == fc) = false := by simp [hfc]
    simp [scanWhileEq, countLeading, List.takeWhile, this]
  have hipp : indentPositionPadding v 0 0 0 = (0, 0) := by simp [indentPositionPadding]
  unfold fencedContinue
  simp only [bind_apply, peekLine_cached hp, getPc_run, hfd, pure_apply, lineOffset_fresh, Option.getD_some, hiw, hscan, fdOf]
  have hlenv := hl.len
  have hlt := hl.lt
  have c1 : ¬ ((0 : Int) - 0 ≥ ((n + 3 : Nat) : Int)) := by omega
  simp only [show ((0 : Int) < 4) from by decide, if_true, c1, if_false, hipp]
  have hpad : (sg p e).padding = 0 := rfl
  have hst : (sg p e).start = (p : Int) := rfl
  have hsp : (sg p e).stop = (e : Int) := rfl
  simp only [hpad, hipp, hst, hsp, show ¬ ((0 : Int) < 0) from by decide, if_false, bne_self_eq_false, Bool.false_eq_true,
    pure_apply, bind_apply, appendLine, modNode_run, getD_last, set_last]
  rw [stAdvancePad_fast (m := e - p - 1) (by omega) (by omega)]
  have e3 : p + (e - p - 1) = e - 1 := by omega
  simp [fenceN, csg, e3]

/-- the per-line loop on a content line of the open fenced code block -/
theorem lineLoop_fence_cont (hl : Ln src p e v) (fc : UInt8) (n : Nat) (c0 : UInt8) (t : Bytes) (hv : v = c0 :: t)
    (h32 : c0 ≠ 32) (h9 : c0 ≠ 9) (hfc : c0 ≠ fc) (k : Int) (d : Blocks.Node) (rest : List Blocks.Node)
    (info : Option Segment) (lines : List Segment) (b : Bool) (pc : Ctx) (hfd : pc.fence = some (fdOf fc n (rest.length + 1)))
    (hop : pc.opened = [{ node := rest.length + 1, bp := .fenced }]) (bl : List LineStat) :
    lineLoopT pts 0 [{ node := rest.length + 1, bp := .fenced }] 0 [{ node := rest.length + 1, bp := .fenced }] 0 bl
        ⟨rdr src k p p e none (-1), d :: (rest ++ [fenceN info lines b]), pc⟩ =
      .ok ((.next, bl ++ [{ lineNum := k, level := 0, isBlank := isBlank v }]),
        ⟨rdr src k p (e - 1) e none (-1), d :: (rest ++ [fenceN info (lines ++ [csg p e]) b]), pc⟩) := by
  have hp : p < src.length := by have := hl.le; have := hl.lt; omega
  have hk : ((fenceN info lines b).kind != .paragraph) = true := rfl
  rw [lineLoopT]
  simp only [bind_apply, peekLine_fresh hl.sub hp (Nat.le_of_lt hl.lt) hl.le, position_run, getNode_run, getD_last, hk,
    if_true, bpContinue, fencedContinue_line hl fc n c0 t hv h32 h9 hfc k d rest info lines b pc hfd]
  simp [stContinueNoChildren, lineLoopT, pure_apply]

/-- fencedCodeBlockParser.Continue on the closing fence (already peeked) -/
theorem fencedContinue_close (hl : Ln src p e v) (fc : UInt8) (hfc : fc = 96 ∨ fc = 126) (n : Nat)
    (hv : v = List.replicate (n + 3) fc ++ [10]) (k : Int) (nodes : List Blocks.Node) (pc : Ctx) (node : Nat)
    (hfd : pc.fence = some (fdOf fc n node)) :
    fencedContinue node ⟨rdr src k p p e (some v) (-1), nodes, pc⟩ =
      .ok (stClose, ⟨rdr src k p (e - 1) e none (-1), nodes, pc⟩) := by
  have hp : p < src.length := by have := hl.le; have := hl.lt; omega
  have hfacts : (fc == 32) = false ∧ (fc == 9) = false := by rcases hfc with h | h <;> subst h <;> decide
  have hiw : indentWidthI v 0 = (0, 0) := by
    rw [hv]; simp only [List.replicate_succ, List.cons_append]
    unfold GM.Blocks.indentWidthI GM.Blocks.indentWidthGo; simp [hfacts.1, hfacts.2]
  have hne : (10 : UInt8) ≠ fc := by rcases hfc with h | h <;> subst h <;> decide
  have hcl : ∀ m : Nat, countLeading fc (List.replicate m fc ++ [10]) = m := by
    intro m
    induction m with
    | zero => simp [countLeading, List.takeWhile, hne]
    | succ m ih => simp only [countLeading, List.replicate_succ, List.cons_append, List.takeWhile, beq_self_eq_true,
        List.length_cons] at ih ⊢; rw [ih]
  have hscan : scanWhileEq v fc 0 = ((n + 3 : Nat) : Int) := by
    rw [hv]; simp only [scanWhileEq, show ¬ ((0 : Int) < 0) from by decide, if_false, Int.toNat_zero, List.drop_zero, hcl]
    simp
  have hlenv := hl.len
  have hlt := hl.lt
  have hvl : v.length = n + 3 + 1 := by rw [hv]; simp
  have hsl : sliceFrom v ((n + 3 : Nat) : Int) = .ok [10] := by
    rw [hv]
    have c : (0 ≤ ((n + 3 : Nat) : Int) ∧ ((n + 3 : Nat) : Int) ≤ ((List.replicate (n + 3) fc ++ [10]).length : Int)) := by
      simp; omega
    simp only [sliceFrom, c, if_true, Int.toNat_natCast]
    simp
  have hlast : idx v ((v.length : Int) - 1) = .ok 10 := by
    rw [hvl, hv]
    have : (((n + 3 + 1 : Nat) : Int) - 1) = ((n + 3 : Nat) : Int) := by omega
    rw [this]
    have c : ¬ (((n + 3 : Nat) : Int) < 0) := by omega
    simp only [idx, getByte, c, if_false, Int.toNat_natCast]
    have : (List.replicate (n + 3) fc ++ [10])[n + 3]? = some 10 := by
      rw [List.getElem?_append_right (by simp)]; simp
    rw [this]
  unfold fencedContinue
  simp only [bind_apply, peekLine_cached hp, getPc_run, hfd, pure_apply, lineOffset_fresh, Option.getD_some, hiw, hscan, fdOf]
  have c1 : ((n + 3 : Nat) : Int) - 0 ≥ ((n + 3 : Nat) : Int) := by omega
  have hib : isBlank [10] = true := by decide
  simp only [show ((0 : Int) < 4) from by decide, if_true, c1, hsl, liftE_ok, bind_apply, hib, hlast]
  have hpad : (sg p e).padding = 0 := rfl
  have hst : (sg p e).start = (p : Int) := rfl
  have hsp : (sg p e).stop = (e : Int) := rfl
  simp only [bne_self_eq_false, Bool.false_eq_true, if_false, hpad, hst, hsp]
  rw [stAdvance_fast (m := e - p - 1) (by omega) (by omega)]
  have e3 : p + (e - p - 1) = e - 1 := by omega
  simp [pure_apply, e3]

theorem closeBlocks_fence (r : Reader) (d : Blocks.Node) (rest : List Blocks.Node) (x : Blocks.Node)
    (hk : x.kind = .fencedCodeBlock) (hpar : x.parent = some 0) (pc : Ctx) (fc : UInt8) (n : Nat)
    (hfd : pc.fence = some (fdOf fc n (rest.length + 1)))
    (hop : pc.opened = [{ node := rest.length + 1, bp := .fenced }]) :
    closeBlocksT pts 0 0 ⟨r, d :: (rest ++ [x]), pc⟩ =
      .ok ((), ⟨r, d :: (rest ++ [x]), { pc with opened := [], fence := none }⟩) := by
  unfold closeBlocksT
  simp only [bind_apply, getPc_run, hop]
  have e1 : ((0 : Int) - 0 + 1).toNat = 1 := by decide
  rw [e1, closeLoopT, closeLoopT]
  have e2 : ∀ blk : Block, blockAt [blk] (0 + ((0 : Nat) : Int)) = .ok blk := by intro blk; simp [blockAt]
  have hk' : (x.kind == .paragraph) = false := by rw [hk]; rfl
  simp only [bind_apply, e2, liftE_ok, getNode_run, getD_last, hk', hpar, Bool.false_and, Bool.false_eq_true, if_false,
    pure_apply, Option.isSome_some, if_true, bpClose, fencedClose, getPc_run, hfd, fdOf, beq_self_eq_true, modPc_run]
  simp [closeBlocks.slice', liftE_ok, bind_apply, modPc_run, pure_apply]

/-- the per-line loop on the closing fence: the block is closed on this line -/
theorem lineLoop_fence_close (hl : Ln src p e v) (fc : UInt8) (hfc : fc = 96 ∨ fc = 126) (n : Nat)
    (hv : v = List.replicate (n + 3) fc ++ [10]) (k : Int) (d : Blocks.Node) (rest : List Blocks.Node)
    (x : Blocks.Node) (hk : x.kind = .fencedCodeBlock) (hpar : x.parent = some 0)
    (pc : Ctx) (hfd : pc.fence = some (fdOf fc n (rest.length + 1)))
    (hop : pc.opened = [{ node := rest.length + 1, bp := .fenced }]) (bl : List LineStat) :
    ∃ lo' : Int,
    lineLoopT pts 0 [{ node := rest.length + 1, bp := .fenced }] 0 [{ node := rest.length + 1, bp := .fenced }] 0 bl
        ⟨rdr src k p p e none (-1), d :: (rest ++ [x]), pc⟩ =
      .ok ((.next, bl ++ [{ lineNum := k, level := 0, isBlank := isBlank v }]),
        ⟨rdr src k p (e - 1) e (some [10]) lo', d :: (rest ++ [x]),
          { pc with blockOffset := 0, blockIndent := 0, opened := [], fence := none }⟩) := by
  have hp : p < src.length := by have := hl.le; have := hl.lt; omega
  have hlt := hl.lt
  have hle := hl.le
  have hk1 : (x.kind != .paragraph) = true := by rw [hk]; rfl
  have hk2 : (x.kind == .paragraph) = false := by rw [hk]; rfl
  have hsub : sub src (e - 1) e = [10] := sub_last (by rw [hl.sub, hv]) hlt (by rw [← hv]; exact hl.len)
  obtain ⟨lo', hlo⟩ := lineOffset_any (src := src) (h := p) (p := e - 1) (by omega) (by omega) k e (some [10])
    (d :: (rest ++ [x])) pc
  refine ⟨lo', ?_⟩
  have hob : ∀ blank, openBlocksT pts 0 blank ⟨rdr src k p (e - 1) e none (-1), d :: (rest ++ [x]), pc⟩ =
      .ok (.noBlocksOpened, ⟨rdr src k p (e - 1) e (some [10]) lo', d :: (rest ++ [x]),
        { pc with blockOffset := 0, blockIndent := 0 }⟩) := by
    intro blank
    unfold openBlocksT
    simp only [bind_apply, lastOpenedBlock_run, hop, List.getLast?_singleton, pure_apply, source_run, retryFuel,
      getNode_run, getD_last, hk2]
    rw [openBlocksLoopT]
    have hiw : ∀ lo : Int, indentWidthI [10] lo = (0, 0) := by
      intro lo; unfold GM.Blocks.indentWidthI GM.Blocks.indentWidthGo; simp
    simp only [bind_apply, peekLine_fresh hsub (by omega) (by omega) hle, Option.getD_some, hlo, hiw]
    have hidx : idx [10] 0 = .ok 10 := rfl
    simp [modPc_run, bind_apply, hidx, liftE_ok, toContinuable, pure_apply, hop]
  rw [lineLoopT]
  simp only [bind_apply, peekLine_fresh hl.sub hp (Nat.le_of_lt hl.lt) hl.le, position_run, getNode_run, getD_last, hk1,
    if_true, bpContinue, fencedContinue_close hl fc hfc n hv k _ pc _ hfd, stClose]
  simp [liftE_ok, rdr_line, hob, pure_apply, getPc_run, hop, slotAfter, bind_apply, map_apply, blockAt]
  rw [closeBlocks_fence _ d rest x hk hpar
    { pc with blockOffset := 0, blockIndent := 0, opened := [{ node := rest.length + 1, bp := .fenced }] } fc n hfd rfl]
end fence

/-- the line segments of the code lines `ls` from byte `p` on -/
def csegs : Nat → List Bytes → List Segment
  | _, [] => []
  | p, l :: rest => csg p (p + l.length + 1) :: csegs (p + l.length + 1) rest

theorem csegs_append (p : Nat) (ls : List Bytes) (l : Bytes) :
    csegs p (ls ++ [l]) = csegs p ls ++ [csg (p + (paraBytes ls).length) (p + (paraBytes ls).length + l.length + 1)] := by
  induction ls generalizing p with
  | nil => simp [csegs, paraBytes]
  | cons a rest ih =>
    simp only [List.cons_append, csegs, ih, paraBytes, List.flatMap_cons, List.length_append, List.length_cons,
      List.length_nil]
    have e : p + a.length + 1 + (List.flatMap (fun x => x ++ [10]) rest).length =
        p + (a.length + (0 + 1) + (List.flatMap (fun x => x ++ [10]) rest).length) := by omega
    rw [e]

/-- a content line cannot be taken for indentation or for the closing fence -/
def CodeLine (fc : UInt8) (l : Bytes) : Prop := ∀ c0 t, l ++ [10] = c0 :: t → c0 ≠ 32 ∧ c0 ≠ 9 ∧ c0 ≠ fc

section fenceLoop
variable {src : Bytes}

/-- the per-line loop over the remaining content lines `more` and the closing fence of the open fenced code block -/
theorem linesLoop_fence (fc : UInt8) (hfc : fc = 96 ∨ fc = 126) (n : Nat) (d : Blocks.Node) (rest : List Blocks.Node)
    (info : Option Segment) (b : Bool) (P : Nat) :
    ∀ (more done : List Bytes) (k : Int) (fuel : Nat) (bl : List LineStat) (pc : Ctx),
      ParaAt src (P + (paraBytes done).length) (more ++ [List.replicate (n + 3) fc]) →
      (∀ l ∈ more, CodeLine fc l) → more.length + 2 ≤ fuel →
      pc.opened = [{ node := rest.length + 1, bp := .fenced }] → pc.fence = some (fdOf fc n (rest.length + 1)) →
      ∃ bl' s',
        linesLoopT pts 0 fuel bl
            ⟨rdr src k (P + (paraBytes done).length) (P + (paraBytes done).length)
              (lineEnd src (P + (paraBytes done).length)) none (-1),
              d :: (rest ++ [fenceN info (csegs P done) b]), pc⟩ = .ok ((false, bl'), s') ∧
          s'.nodes = d :: (rest ++ [fenceN info (csegs P (done ++ more)) b]) ∧ s'.pc.opened = [] ∧
          s'.pc.refs = pc.refs ∧
          ∃ k', s'.r = rdr src k' (P + (paraBytes (done ++ more ++ [List.replicate (n + 3) fc])).length)
            (P + (paraBytes (done ++ more ++ [List.replicate (n + 3) fc])).length)
            (lineEnd src (P + (paraBytes (done ++ more ++ [List.replicate (n + 3) fc])).length)) none (-1) := by
  intro more
  induction more with
  | nil =>
    intro done k fuel bl pc hpa _ hf hop hfd
    obtain ⟨f, rfl⟩ : ∃ f, fuel = f + 1 := ⟨fuel - 1, by simp at hf; omega⟩
    obtain ⟨f', rfl⟩ : ∃ f', f = f' + 1 := ⟨f - 1, by simp at hf; omega⟩
    have e1 : (((1 : Nat) : Int) - 1) = 0 := by decide
    have e0 : ((1 : Nat) == 0) = false := rfl
    obtain ⟨hl, _⟩ := hpa
    simp only [List.length_replicate] at hl
    obtain ⟨lo', hcl⟩ := lineLoop_fence_close hl fc hfc n rfl k d rest (fenceN info (csegs P done) b) rfl rfl pc hfd hop bl
    have eQ : P + (paraBytes (done ++ [] ++ [List.replicate (n + 3) fc])).length =
        P + (paraBytes done).length + (n + 3) + 1 := by
      simp only [List.append_nil, paraBytes_snoc_len, List.length_replicate]; omega
    refine ⟨bl ++ [{ lineNum := k, level := 0, isBlank := isBlank (List.replicate (n + 3) fc ++ [10]) }],
        ⟨rdr src (k + 1) (P + (paraBytes done).length + (n + 3) + 1) (P + (paraBytes done).length + (n + 3) + 1)
        (lineEnd src (P + (paraBytes done).length + (n + 3) + 1)) none (-1),
        d :: (rest ++ [fenceN info (csegs P done) b]),
        { pc with blockOffset := 0, blockIndent := 0, opened := [], fence := none }⟩, ?_, by simp, rfl, rfl,
        k + 1, by rw [eQ]⟩
    rw [linesLoopT]
    simp only [bind_apply, getPc_run, hop, List.length_singleton, e1, e0, Bool.false_eq_true, if_false]
    rw [hl.lineEnd]
    simp only [hcl, bind_apply, advanceLine_run]
    rw [linesLoopT]
    simp [bind_apply, getPc_run, pure_apply]
  | cons l more ih =>
    intro done k fuel bl pc hpa hcode hf hop hfd
    obtain ⟨f, rfl⟩ : ∃ f, fuel = f + 1 := ⟨fuel - 1, by simp at hf; omega⟩
    have e1 : (((1 : Nat) : Int) - 1) = 0 := by decide
    have e0 : ((1 : Nat) == 0) = false := rfl
    obtain ⟨hl, hm'⟩ := hpa
    have hcl := hcode l (by simp)
    have eq1 : P + (paraBytes (done ++ [l])).length = P + (paraBytes done).length + l.length + 1 := by
      rw [paraBytes_snoc_len]; omega
    have eapp : done ++ l :: more = (done ++ [l]) ++ more := by simp
    obtain ⟨c0, t, hvt⟩ : ∃ c0 t, l ++ [10] = c0 :: t := by
      cases l with
      | nil => exact ⟨10, [], rfl⟩
      | cons a r => exact ⟨a, r ++ [10], rfl⟩
    obtain ⟨h32, h9, hne⟩ := hcl c0 t hvt
    obtain ⟨bl', s', h1, h2, h3, h4, h5⟩ :=
      ih (done ++ [l]) (k + 1) f (bl ++ [{ lineNum := k, level := 0, isBlank := isBlank (l ++ [10]) }]) pc
        (by rw [eq1]; exact hm') (fun x hx => hcode x (by simp [hx])) (by simp at hf ⊢; omega) hop hfd
    refine ⟨bl', s', ?_, by rw [eapp]; exact h2, h3, h4, by rw [eapp]; exact h5⟩
    rw [linesLoopT]
    simp only [bind_apply, getPc_run, hop, List.length_singleton, e1, e0, Bool.false_eq_true, if_false]
    rw [hl.lineEnd]
    rw [lineLoop_fence_cont hl fc n c0 t hvt h32 h9 hne k d rest info (csegs P done) b pc hfd hop bl]
    simp only [advanceLine_run, bind_apply]
    rw [csegs_append, eq1] at h1
    simp only [← h1]
end fenceLoop

end GM.Proof.CMFrag
