/-
  GM.Proof.ConvertXE2EEsc — the escaped-pipe positions parseRow records (table.go:215-235, `escapedPipeCell.Pos`), on the table
  model GM.Table: along one row they are strictly ascending and lie inside the row's (trimmed) line; so the positions of one
  Table — header, then the body rows, whose lines follow each other in the source — are strictly ascending. The part of
  "the recorded escaped-pipe positions ascend" (GM.Props.ConvertXE2E.BlockPhaseXGood) that does not need the block driver.
-/
import GM.Model.Table

namespace GM.Proof.ConvertXE2EEsc
open GM GM.Table

/-- the inner loop: the positions it adds are behind the ones it was handed, at or behind `lo`, and in front of the byte the
    scan stops at -/
theorem scanCell_spec (line : Bytes) (limit segStart closure : Nat) (hb : Bool) (esc : List Nat) (lo : Nat) :
    esc.Pairwise (· < ·) → (∀ p ∈ esc, lo ≤ p ∧ p + 1 < segStart + closure) → lo ≤ segStart + max closure 1 - 1 →
    (scanCell line limit segStart closure hb esc).2.Pairwise (· < ·) ∧
      ∀ p ∈ (scanCell line limit segStart closure hb esc).2,
        lo ≤ p ∧ p + 1 < segStart + (scanCell line limit segStart closure hb esc).1 + 1 := by
  fun_induction scanCell line limit segStart closure hb esc with
  | case1 closure hb esc hlt c hc hstop =>
    intro hs hbd hlo
    exact ⟨hs, fun p hp => ⟨(hbd p hp).1, by have := (hbd p hp).2; omega⟩⟩
  | case2 closure hb esc hlt c hb' hc hstop ih =>
    intro hs hbd hlo
    have hc1 : 1 ≤ closure := by
      rcases Nat.eq_zero_or_pos closure with h0 | h0
      · subst h0; simp at hstop
      · exact h0
    by_cases hbt : hb' = true
    · rw [dif_pos hbt] at ih
      rw [if_pos hbt]
      have := ih (by
          rw [List.pairwise_append]
          refine ⟨hs, by simp, ?_⟩
          intro a ha b hb2
          simp only [List.mem_singleton] at hb2; subst hb2
          have := (hbd a ha).2; omega)
        (by
          intro p hp
          simp only [List.mem_append, List.mem_singleton] at hp
          rcases hp with hp | hp
          · exact ⟨(hbd p hp).1, by have := (hbd p hp).2; omega⟩
          · subst hp; exact ⟨by omega, by omega⟩)
        (by omega)
      exact this
    · rw [dif_neg hbt] at ih
      rw [if_neg hbt]
      exact ih hs (fun p hp => ⟨(hbd p hp).1, by have := (hbd p hp).2; omega⟩) (by omega)
  | case3 closure hb esc hlt c hb' hc ih =>
    intro hs hbd hlo
    apply ih hs
    · intro p hp
      exact ⟨(hbd p hp).1, by have := (hbd p hp).2; omega⟩
    · omega
  | case4 closure hb esc hlt =>
    intro hs hbd hlo
    exact ⟨hs, fun p hp => ⟨(hbd p hp).1, by have := (hbd p hp).2; omega⟩⟩

theorem scanCell_le (line : Bytes) (limit segStart closure : Nat) (hb : Bool) (esc : List Nat) (h : closure ≤ limit) :
    (scanCell line limit segStart closure hb esc).1 ≤ limit := by
  fun_induction scanCell line limit segStart closure hb esc <;> simp_all <;> omega

/-- the positions of all cells of a row, in order -/
def rowEsc (cells : List Cell) : List Nat := cells.flatMap (·.esc)

theorem rowEsc_cons (c : Cell) (rest : List Cell) : rowEsc (c :: rest) = c.esc ++ rowEsc rest := by
  simp [rowEsc]

theorem rowEsc_replicate_pad (n : Nat) : rowEsc (List.replicate n padCell) = [] := by
  induction n with
  | zero => rfl
  | succ k ih => rw [List.replicate_succ, rowEsc_cons, ih]; rfl

/-- the outer loop: ascending, at or behind `segStart + pos - 1`, in front of `segStart + limit` -/
theorem rowLoop_spec (src line : Bytes) (limit segStart : Nat) (aligns : List Align) (isHeader : Bool) (pos i : Nat) :
    (rowEsc (rowLoop src line limit segStart aligns isHeader pos i)).Pairwise (· < ·) ∧
      ∀ p ∈ rowEsc (rowLoop src line limit segStart aligns isHeader pos i), segStart + max pos 1 - 1 ≤ p ∧ p < segStart + limit := by
  fun_induction rowLoop src line limit segStart aligns isHeader pos i with
  | case1 pos i hlt hex => simp [rowEsc]
  | case2 pos i hlt hex alignment r ih =>
    have hsc := scanCell_spec line limit segStart pos false [] (segStart + max pos 1 - 1) (by simp) (by simp) (Nat.le_refl _)
    have hge := scanCell_ge line limit segStart pos false []
    have hle := scanCell_le line limit segStart pos false [] (Nat.le_of_lt hlt)
    obtain ⟨i1, i2⟩ := ih
    rw [rowEsc_cons]
    refine ⟨?_, ?_⟩
    · rw [List.pairwise_append]
      refine ⟨hsc.1, i1, ?_⟩
      intro a ha b hb
      have h1 := (hsc.2 a ha).2
      have h2 := (i2 b hb).1
      show a < b
      simp only [r] at h2 ⊢
      omega
    · intro p hp
      simp only [List.mem_append] at hp
      rcases hp with hp | hp
      · have := hsc.2 p hp
        simp only [r] at *
        exact ⟨this.1, by omega⟩
      · have := i2 p hp
        simp only [r] at *
        exact ⟨by omega, this.2⟩
  | case3 pos i hlt hh => simp [rowEsc]
  | case4 pos i hlt hh => rw [rowEsc_replicate_pad]; simp

/-- the row's trimmed segment and its bytes -/
def rowSeg (src : Bytes) (segment : Seg) : Seg := (segment.trimLeft src).trimRight src
def rowLine (src : Bytes) (segment : Seg) : Bytes := (rowSeg src segment).value src

theorem parseRow_eq (src : Bytes) (segment : Seg) (aligns : List Align) (isHeader : Bool) :
    parseRow src segment aligns isHeader =
      rowLoop src (rowLine src segment)
        (if (rowLine src segment).getLast? == some 124 then (rowLine src segment).length - 1 else (rowLine src segment).length)
        (rowSeg src segment).start aligns isHeader (if (rowLine src segment).head? == some 124 then 1 else 0) 0 := rfl

/-- **one row**: the positions parseRow records are strictly ascending and lie inside the row's trimmed line -/
theorem parseRow_esc (src : Bytes) (segment : Seg) (aligns : List Align) (isHeader : Bool) :
    (rowEsc (parseRow src segment aligns isHeader)).Pairwise (· < ·) ∧
      ∀ p ∈ rowEsc (parseRow src segment aligns isHeader),
        (rowSeg src segment).start ≤ p ∧ p < (rowSeg src segment).start + (rowLine src segment).length := by
  rw [parseRow_eq]
  generalize rowLine src segment = line
  generalize (rowSeg src segment).start = st
  have h := rowLoop_spec src line (if line.getLast? == some 124 then line.length - 1 else line.length) st aligns isHeader
    (if line.head? == some 124 then 1 else 0) 0
  refine ⟨h.1, fun p hp => ?_⟩
  have := h.2 p hp
  have hl : (if line.getLast? == some 124 then line.length - 1 else line.length) ≤ line.length := by split <;> omega
  refine ⟨?_, by omega⟩
  have h1 := this.1
  split at h1 <;> omega

/-! ### the row's line lies inside the paragraph line it is cut from -/

theorem slice_length_le (src : Bytes) (a b : Nat) : (slice src a b).length ≤ b - a := by
  unfold slice; exact List.length_take_le _ _

theorem takeWhile_len_le (q : UInt8 → Bool) : ∀ l : Bytes, (l.takeWhile q).length ≤ l.length
  | [] => by simp
  | a :: l => by simp only [List.takeWhile]; split <;> simp <;> have := takeWhile_len_le q l <;> omega

theorem rowSeg_bounds (src : Bytes) (seg : Seg) (h : seg.start ≤ seg.stop) :
    seg.start ≤ (rowSeg src seg).start ∧ (rowSeg src seg).start + (rowLine src seg).length ≤ seg.stop := by
  have htl : trimLeftSpaceLength (slice src seg.start seg.stop) ≤ seg.stop - seg.start := by
    unfold trimLeftSpaceLength
    exact Nat.le_trans (takeWhile_len_le _ _) (slice_length_le src _ _)
  generalize htv : trimLeftSpaceLength (slice src seg.start seg.stop) = tl at htl
  have e1 : seg.trimLeft src = { start := seg.start + tl, stop := seg.stop, padding := 0 } := by
    unfold Seg.trimLeft; rw [htv]
  unfold rowLine rowSeg
  rw [e1]
  unfold Seg.trimRight
  dsimp only
  generalize trimRightSpaceLength (slice src (seg.start + tl) seg.stop) = tr
  by_cases hc : (tr == (slice src (seg.start + tl) seg.stop).length) = true
  · rw [if_pos hc]
    simp only [Seg.value, List.replicate_zero, List.nil_append]
    have := slice_length_le src (seg.start + tl) (seg.start + tl)
    omega
  · rw [if_neg hc]
    simp only [Seg.value, List.replicate_zero, List.nil_append]
    have := slice_length_le src (seg.start + tl) (seg.stop - tr)
    omega

/-- one row, in terms of the paragraph line: ascending, inside `[seg.start, seg.stop)` -/
theorem parseRow_esc_in (src : Bytes) (seg : Seg) (aligns : List Align) (isHeader : Bool) (h : seg.start ≤ seg.stop) :
    (rowEsc (parseRow src seg aligns isHeader)).Pairwise (· < ·) ∧
      ∀ p ∈ rowEsc (parseRow src seg aligns isHeader), seg.start ≤ p ∧ p < seg.stop := by
  obtain ⟨h1, h2⟩ := parseRow_esc src seg aligns isHeader
  obtain ⟨b1, b2⟩ := rowSeg_bounds src seg h
  exact ⟨h1, fun p hp => ⟨by have := (h2 p hp).1; omega, by have := (h2 p hp).2; omega⟩⟩

/-! ### one table -/

/-- lines that follow each other in the source, none inverted -/
def OrdLines (l : List Seg) : Prop := l.Pairwise (fun a b => a.stop ≤ b.start) ∧ ∀ s ∈ l, s.start ≤ s.stop

theorem OrdLines.tail {a : Seg} {l : List Seg} (h : OrdLines (a :: l)) : OrdLines l :=
  ⟨(List.pairwise_cons.mp h.1).2, fun s hs => h.2 s (by simp [hs])⟩

/-- the positions of the body rows -/
def rowsEsc (rows : List (List Cell)) : List Nat := rows.flatMap rowEsc

theorem rows_esc (src : Bytes) (aligns : List Align) : ∀ (ls : List Seg) (lo : Nat), OrdLines ls → (∀ s ∈ ls, lo ≤ s.start) →
    (rowsEsc (ls.map fun l => parseRow src l aligns false)).Pairwise (· < ·) ∧
      ∀ p ∈ rowsEsc (ls.map fun l => parseRow src l aligns false), lo ≤ p ∧ ∃ s ∈ ls, s.start ≤ p ∧ p < s.stop
  | [], _, _, _ => by simp [rowsEsc]
  | a :: rest, lo, ho, hlo => by
    obtain ⟨r1, r2⟩ := parseRow_esc_in src a aligns false (ho.2 a (by simp))
    have hpw := List.pairwise_cons.mp ho.1
    obtain ⟨i1, i2⟩ := rows_esc src aligns rest a.stop ho.tail (fun s hs => hpw.1 s hs)
    simp only [rowsEsc, List.map_cons, List.flatMap_cons] at *
    refine ⟨?_, ?_⟩
    · rw [List.pairwise_append]
      refine ⟨r1, i1, fun x hx y hy => ?_⟩
      have := (r2 x hx).2; have := (i2 y hy).1; omega
    · intro p hp
      simp only [List.mem_append] at hp
      rcases hp with hp | hp
      · have := r2 p hp
        exact ⟨by have := hlo a (by simp); omega, a, by simp, this.1, this.2⟩
      · obtain ⟨q1, s, hs, q2⟩ := i2 p hp
        have := ho.2 a (by simp)
        exact ⟨by have := hlo a (by simp); omega, s, by simp [hs], q2⟩

/-- the positions a Table records: its header's, then its body rows' -/
def tableEsc (t : Table) : List Nat := rowEsc t.header ++ rowsEsc t.rows

theorem findTable_esc (src : Bytes) (all : List Seg) : ∀ (rest before : List Seg) (prev : Seg) (t : Table),
    OrdLines (prev :: rest) → (findTable src all before prev rest).table = some t →
    (tableEsc t).Pairwise (· < ·) ∧ ∀ p ∈ tableEsc t, ∃ s ∈ prev :: rest, s.start ≤ p ∧ p < s.stop
  | [], _, _, _, _, h => by simp [findTable] at h
  | cur :: rest, before, prev, t, ho, h => by
    unfold findTable at h
    split at h
    · obtain ⟨i1, i2⟩ := findTable_esc src all rest (before ++ [prev]) cur t ho.tail h
      exact ⟨i1, fun p hp => by
        obtain ⟨s, hs, q⟩ := i2 p hp
        exact ⟨s, by simp only [List.mem_cons] at hs ⊢; rcases hs with hs | hs <;> simp [hs], q⟩⟩
    · rename_i aligns _
      dsimp only at h
      split at h
      · cases h
      · simp only [Option.some.injEq] at h
        subst h
        obtain ⟨r1, r2⟩ := parseRow_esc_in src prev aligns true (ho.2 prev (by simp))
        have hpw := List.pairwise_cons.mp ho.1
        have hpw2 := List.pairwise_cons.mp hpw.2
        obtain ⟨i1, i2⟩ := rows_esc src aligns rest prev.stop ho.tail.tail
          (fun s hs => hpw.1 s (by simp [hs]))
        simp only [tableEsc]
        refine ⟨?_, ?_⟩
        · rw [List.pairwise_append]
          refine ⟨r1, i1, fun x hx y hy => ?_⟩
          have := (r2 x hx).2; have := (i2 y hy).1; omega
        · intro p hp
          simp only [List.mem_append] at hp
          rcases hp with hp | hp
          · exact ⟨prev, by simp, r2 p hp⟩
          · obtain ⟨_, s, hs, q⟩ := i2 p hp
            exact ⟨s, by simp [hs], q⟩

/-- **one Table**: whenever tableParagraphTransformer.Transform builds a table from lines that follow each other in the source,
    the escaped-pipe positions it records — header first, then the body rows — are strictly ascending, and each lies inside
    one of the paragraph's lines -/
theorem transform_esc (src : Bytes) (lines : List Seg) (t : Table) (ho : OrdLines lines)
    (h : (transform src lines).table = some t) :
    (tableEsc t).Pairwise (· < ·) ∧ ∀ p ∈ tableEsc t, ∃ s ∈ lines, s.start ≤ p ∧ p < s.stop := by
  unfold transform at h
  split at h
  · cases h
  · rename_i first rest
    exact findTable_esc src _ rest [] first t ho h

end GM.Proof.ConvertXE2EEsc
