/-
  GM.Proof.CMFragSpec21Src — the stage-21 fragment inside the spec model GM.Spec.CommonMark, the SOURCE relation:
  * `spellF21_eq_spellW` / `spellF21_eq_spell`: for a NON-EMPTY stage-21 document without extra blank lines (exactly one
    blank line around an indented code block) the source is `spell` of the embedded document `f21embed d`, byte for byte
    (for the wide class `f21fragWB` without the restriction `f21restrS`, hence for `F21Frag`);
  * `spellF21E_eq_spell`: the same without the final line feed (`f21embedE`).
  An underscore emphasis is written as asked for because its neighbouring source bytes are not letters or digits
  (`ctxOK21`, from `f21neighOK`); every other inline is written the same way whatever its neighbours are (`plain21`).
-/
import GM.Proof.CMFragSpec21
namespace GM.Proof.CMFrag
open GM GM.Spec.CM GM.Spec.CMFrag

/-! ### the inlines of a line -/

/-- an inline that is written the same way whatever its neighbours are -/
def plain21 (x : Inline) : Bool := simple13 x || simple16 x || simple17 x || simple18 x || simple19 x

theorem spellI_plain21 (x : Inline) (h : plain21 x = true) (pa na : Bool) : spellI pa na x = spellI false false x := by
  simp only [plain21, Bool.or_eq_true] at h
  rcases h with (((h | h) | h) | h) | h
  · exact spellI_simple13 x h pa na
  · exact spellI_simple16 x h pa na
  · exact spellI_simple17 x h pa na
  · exact spellI_simple18 x h pa na
  · exact spellI_simple19 x h pa na

/-- every inline is plain, or an emphasis without a letter or digit as neighbouring source byte -/
def ctxOK21 : Bool → List Inline → Bool
  | _, [] => true
  | pa, x :: rest => (plain21 x || (isEm20 x && !pa && !nextAl20 rest)) && ctxOK21 (endsAlnum x) rest

theorem spellIs_ctx21 (ks : List Inline) (pa : Bool) (h : ctxOK21 pa ks = true) :
    spellIs pa ks = ks.flatMap (spellI false false) := by
  induction ks generalizing pa with
  | nil => simp [spellIs]
  | cons x rest ih =>
    simp only [ctxOK21, Bool.and_eq_true] at h
    simp only [spellIs, List.flatMap_cons]
    rw [ih _ h.2]
    congr 1
    have key : ∀ na, na = nextAl20 rest → spellI pa na x = spellI false false x := by
      intro na hna
      subst hna
      have h1 := h.1
      simp only [Bool.or_eq_true, Bool.and_eq_true, Bool.not_eq_true'] at h1
      rcases h1 with h1 | h1
      · exact spellI_plain21 x h1 _ _
      · rw [h1.1.2, h1.2]
    exact key _ (by cases rest <;> rfl)

theorem plain_f21embedAtom (a : FAtomS) (h : a.isUnder = false) : plain21 (f21embedAtom a) = true := by
  cases a <;> first | rfl | cases h

theorem isEm_f21embedAtom (a : FAtomS) (h : a.isUnder = true) : isEm20 (f21embedAtom a) = true := by
  cases a <;> first | rfl | cases h

/-- the atom in front of an underscore atom does not end with a letter or digit (as source byte) -/
theorem endsAl_before21 (p x : FAtomS) (hx : x.isUnder = true) (h : f21pairOK p x = true) :
    endsAlnum (f21embedAtom p) = false := by
  cases p with
  | txt cs =>
    simp only [f21pairOK, hx, Bool.not_true, Bool.false_or, Bool.and_eq_true] at h
    simp only [f21embedAtom, endsAlnum]
    cases hg : cs.getLast? with
    | none => rfl
    | some t =>
      rw [hg] at h
      simpa [unbeforeOK] using h.1
  | _ => rfl

/-- what follows an underscore atom does not begin with a letter or digit (as source byte) -/
theorem nextAl_after21 (x : FAtomS) (hx : x.isUnder = true) (rest : List FAtomS) (tail : List Inline)
    (ht : nextAl20 tail = false) (h : f21neighOK (x :: rest) = true) :
    nextAl20 (rest.map f21embedAtom ++ tail) = false := by
  cases rest with
  | nil => simpa using ht
  | cons y r =>
    simp only [f21neighOK, Bool.and_eq_true] at h
    have h1 := h.1
    unfold f21pairOK at h1
    simp only [Bool.and_eq_true] at h1
    have h2 := h1.2
    simp only [List.map_cons, List.cons_append, nextAl20]
    cases y with
    | txt cs =>
      cases cs with
      | nil => rfl
      | cons t ts =>
        simp only [hx, Bool.not_true, Bool.false_or, List.head?_cons] at h2
        simpa [f21embedAtom, startsAlnum, unafterOK] using h2
    | _ => rfl

theorem ctx_tail21 (tail : List Inline) (ht : nextAl20 tail = false) (hc : ∀ pa, ctxOK21 pa tail = true)
    (l : List FAtomS) (p : FAtomS) (h : f21neighOK (p :: l) = true) :
    ctxOK21 (endsAlnum (f21embedAtom p)) (l.map f21embedAtom ++ tail) = true := by
  induction l generalizing p with
  | nil => simpa using hc _
  | cons x rest ih =>
    have h' := h
    simp only [f21neighOK, Bool.and_eq_true] at h'
    simp only [List.map_cons, List.cons_append, ctxOK21, Bool.and_eq_true]
    refine ⟨?_, ih x h'.2⟩
    cases hx : x.isUnder with
    | false => rw [plain_f21embedAtom x hx]; rfl
    | true =>
      rw [endsAl_before21 p x hx h'.1, nextAl_after21 x hx rest tail ht h'.2, isEm_f21embedAtom x hx]
      simp

theorem f21lineOKS_parts21 (l : List FAtomS) (h : f21lineOKS l = true) :
    (∃ cs rest, l = .txt cs :: rest) ∧ f21neighOK l = true ∧ ∀ a ∈ l, f21atomOKS a = true := by
  have hok := f21lineOKS_atoms_s21 l h
  simp only [f21lineOKS, Bool.and_eq_true] at h
  obtain ⟨⟨⟨⟨_, hfirst⟩, _⟩, _⟩, hnb⟩ := h
  refine ⟨?_, hnb, hok⟩
  unfold f21firstOKS at hfirst
  split at hfirst
  · exact ⟨_, _, rfl⟩
  · cases hfirst

theorem ctx_line21 (tail : List Inline) (ht : nextAl20 tail = false) (hc : ∀ pa, ctxOK21 pa tail = true)
    (l : List FAtomS) (h : f21lineOKS l = true) (pa : Bool) : ctxOK21 pa (l.map f21embedAtom ++ tail) = true := by
  obtain ⟨⟨cs, rest, rfl⟩, hnb, _⟩ := f21lineOKS_parts21 l h
  simp only [List.map_cons, List.cons_append, ctxOK21, Bool.and_eq_true]
  exact ⟨by rw [plain_f21embedAtom (.txt cs) rfl]; rfl, ctx_tail21 tail ht hc rest (.txt cs) hnb⟩

theorem ctx_f21embedLines (ls : List FLineS21) (h : ∀ x ∈ ls, f21lineOKS x.atoms = true) (pa : Bool) :
    ctxOK21 pa (f21embedLines ls) = true := by
  induction ls generalizing pa with
  | nil => rfl
  | cons l rest ih =>
    cases rest with
    | nil =>
      have := ctx_line21 [] rfl (fun _ => rfl) l.atoms (h l (by simp)) pa
      simpa [f21embedLines] using this
    | cons l' rest =>
      obtain ⟨atoms, hard⟩ := l
      have e : f21embedLines (⟨atoms, hard⟩ :: l' :: rest) =
          atoms.map f21embedAtom ++ (if hard then .hardBreak true 0 else .softBreak) :: f21embedLines (l' :: rest) := rfl
      rw [e]
      have ih' := ih (fun x hx => h x (by simp [hx]))
      apply ctx_line21 _ (by cases hard <;> rfl) _ atoms (h ⟨atoms, hard⟩ (by simp)) pa
      intro pa'
      cases hard
      · have : plain21 Inline.softBreak = true := rfl
        simp only [Bool.false_eq_true, if_false, ctxOK21, this, Bool.true_or, Bool.true_and]
        exact ih' _
      · have : plain21 (Inline.hardBreak true 0) = true := rfl
        simp only [if_true, ctxOK21, this, Bool.true_or, Bool.true_and]
        exact ih' _

theorem spellI_f21embedAtom (a : FAtomS) (h : f21atomOKS a = true) :
    spellI false false (f21embedAtom a) = spellFAtom a := by
  cases a with
  | txt cs => exact spellI_rembedAtom11 (.txt cs) h
  | code c => exact spellI_rembedAtom11 (.code c) h
  | em c => exact spellI_rembedAtom11 (.em c) h
  | strong c => exact spellI_rembedAtom11 (.strong c) h
  | uem c => exact spellI_rembedAtom20 (.em c) h
  | ustrong c => exact spellI_rembedAtom20 (.strong c) h
  | link t d => exact spellI_lembedAtom16 (.link t d) h
  | img t d => exact spellI_imgembedAtom17 (.img t d) h
  | auto s r => exact spellI_aembedAtom18 (.auto s r) h
  | otag n => exact spellI_h19embedAtom19 (.open n) h
  | ctag n => exact spellI_h19embedAtom19 (.close n) h

theorem flat_line21 (l : List FAtomS) (h : ∀ a ∈ l, f21atomOKS a = true) :
    (l.map f21embedAtom).flatMap (spellI false false) = spellFLineA l := by
  induction l with
  | nil => rfl
  | cons a rest ih =>
    simp only [List.map_cons, List.flatMap_cons, spellFLineA] at ih ⊢
    rw [ih (fun x hx => h x (by simp [hx])), spellI_f21embedAtom a (h a (by simp))]

theorem flat_f21embedLines (ls : List FLineS21) (h : ∀ l ∈ ls, ∀ a ∈ l.atoms, f21atomOKS a = true)
    (hlast : ∀ z, ls.getLast? = some z → z.hard = false) :
    (f21embedLines ls).flatMap (spellI false false) = GM.Spec.CMFrag.joinNl (ls.map spellFLine21) := by
  induction ls with
  | nil => simp [f21embedLines, GM.Spec.CMFrag.joinNl]
  | cons l rest ih =>
    cases rest with
    | nil =>
      have hx : l.hard = false := hlast l rfl
      simp [f21embedLines, GM.Spec.CMFrag.joinNl, flat_line21 l.atoms (h l (by simp)), spellFLine21, hx]
    | cons l' rest =>
      have hl' : ∀ z, (l' :: rest).getLast? = some z → z.hard = false := by
        intro z hz; exact hlast z (by rw [List.getLast?_cons_cons]; exact hz)
      obtain ⟨atoms, hard⟩ := l
      have e : f21embedLines (⟨atoms, hard⟩ :: l' :: rest) =
          atoms.map f21embedAtom ++ (if hard then .hardBreak true 0 else .softBreak) :: f21embedLines (l' :: rest) := rfl
      rw [e, List.flatMap_append, List.flatMap_cons, flat_line21 atoms (h ⟨atoms, hard⟩ (by simp)),
        ih (fun x hx => h x (by simp [hx])) hl']
      cases hard <;> simp [spellI, GM.Spec.CMFrag.joinNl, spellFLine21]

theorem spellIs_f21embedLines (ls : List FLineS21) (h : ∀ l ∈ ls, f21lineOKS l.atoms = true)
    (hlast : ∀ z, ls.getLast? = some z → z.hard = false) (pa : Bool) :
    spellIs pa (f21embedLines ls) = GM.Spec.CMFrag.joinNl (ls.map spellFLine21) := by
  rw [spellIs_ctx21 _ _ (ctx_f21embedLines ls h pa),
    flat_f21embedLines ls (fun l hl => f21lineOKS_atoms_s21 l.atoms (h l hl)) hlast]

theorem spellIs_fline21 (l : List FAtomS) (h : f21lineOKS l = true) (pa : Bool) :
    spellIs pa (l.map f21embedAtom) = spellFLineA l := by
  have hc := ctx_line21 [] rfl (fun _ => rfl) l h pa
  rw [List.append_nil] at hc
  rw [spellIs_ctx21 _ _ hc, flat_line21 l (f21lineOKS_atoms_s21 l h)]

theorem spellFAtom_printable21 (a : FAtomS) (h : f21atomOKS a = true) : (spellFAtom a).all printable = true := by
  cases a with
  | txt cs => exact spellRAtom_printable11 (.txt cs) h
  | code c => exact spellRAtom_printable11 (.code c) h
  | em c => exact spellRAtom_printable11 (.em c) h
  | strong c => exact spellRAtom_printable11 (.strong c) h
  | uem c => exact spellRAtom_printable20 (.em c) h
  | ustrong c => exact spellRAtom_printable20 (.strong c) h
  | link t d => exact spellLAtom_printable16 (.link t d) h
  | img t d => exact spellImgAtom_printable17 (.img t d) h
  | auto s r => exact spellAAtom_printable18 (.auto s r) h
  | otag n => exact spellH19Atom_printable19 (.open n) h
  | ctag n => exact spellH19Atom_printable19 (.close n) h

theorem spellFLineA_printable21 (l : List FAtomS) (h : ∀ a ∈ l, f21atomOKS a = true) :
    ∀ c ∈ spellFLineA l, printable c = true := by
  intro c hc
  simp only [spellFLineA, List.mem_flatMap] at hc
  obtain ⟨a, ha, hca⟩ := hc
  exact List.all_eq_true.mp (spellFAtom_printable21 a (h a ha)) c hca

theorem spellFLine21_printable (x : FLineS21) (h : f21lineOKS x.atoms = true) :
    ∀ c ∈ spellFLine21 x, printable c = true := by
  intro c hc
  unfold spellFLine21 at hc
  split at hc
  · rcases List.mem_append.mp hc with hc | hc
    · exact spellFLineA_printable21 x.atoms (f21lineOKS_atoms_s21 x.atoms h) c hc
    · simp only [List.mem_singleton] at hc; subst hc; decide
  · exact spellFLineA_printable21 x.atoms (f21lineOKS_atoms_s21 x.atoms h) c hc

theorem paraLines_f21embed (ls : List FLineS21) (hne : ls ≠ []) (hok : ∀ l ∈ ls, f21lineOKS l.atoms = true)
    (hlast : ∀ z, ls.getLast? = some z → z.hard = false) :
    (paraLines 0 0 (spellIs false (f21embedLines ls))).map (renderLine 0 0 0 0) = ls.map spellFLine21 := by
  have hpr : ∀ b ∈ ls.map spellFLine21, ∀ c ∈ b, printable c = true := by
    intro b hb c hc
    obtain ⟨l, hl, rfl⟩ := List.mem_map.mp hb
    exact spellFLine21_printable l (hok l hl) c hc
  have hsplit := splitLines_joinNl (ls.map spellFLine21) (by simpa using hne)
    (fun b hb c hc => (printable_facts c (hpr b hb c hc)).1)
  rw [paraLines, spellIs_f21embedLines ls hok hlast, hsplit]
  cases hls : ls.map spellFLine21 with
  | nil => simp at hls; exact absurd hls hne
  | cons f rest =>
    rw [hls] at hpr
    simp only [List.map_cons, List.map_map]
    congr 1
    · exact renderLine_plain f (fun c hc => (printable_facts c (hpr f (by simp) c hc)).2)
    · conv => rhs; rw [← List.map_id rest]
      apply List.map_congr_left
      intro b hb
      exact renderLine_plain b (fun c hc => (printable_facts c (hpr b (by simp [hb]) c hc)).2)

/-! #### one block -/

/-- the source lines of one block -/
def fblockLines21 : FBlockS21 → List Bytes
  | .para lines => lines.map spellFLine21
  | .heading level text => [List.replicate level 35 ++ [32] ++ spellFLineA text]
  | .thematic c n => [thematicLine c n false]
  | .fcode tilde n info lines =>
    [List.replicate (n + 3) (fenceChar tilde) ++ info] ++ lines ++ [List.replicate (n + 3) (fenceChar tilde)]
  | .icode lines => lines.map fun l => [32, 32, 32, 32] ++ l

/-- the kind of the embedded block (`kindOf`) -/
def fkind21 : FBlockS21 → Nat
  | .para _ => 1
  | .heading _ _ => 2
  | .thematic _ _ => 4
  | .fcode _ _ _ _ => 6
  | .icode _ => 5

theorem kindOf_f21embed (a : Bool) (b : FBlockS21) : kindOf (f21embedBlock a b) = fkind21 b := by
  cases b <;> rfl

theorem fkind_ne21 (b : FBlockS21) : (fkind21 b == 0) = false := by cases b <;> rfl

/-- the separator the spec model writes in front of an embedded block (an indented code block has no `abut` choice) -/
def fsep21 (prev : Nat) (a : Bool) (b : FBlockS21) : List Line :=
  match b with
  | .icode _ => if prev == 0 then [] else [blankLine]
  | _ => if prev == 0 then [] else if a && canAbut prev (f21embedBlock a b) then [] else [blankLine]

/-- one embedded block in front of any other blocks: the separator, the lines of the block, the rest -/
theorem spellBs_f21embed_cons (a : Bool) (b : FBlockS21) (prev pm : Nat) (rest : List Block) :
    spellBs false false prev pm (f21embedBlock a b :: rest) =
      fsep21 prev a b ++ spellB 0 0 (f21embedBlock a b) ++ spellBs false false (fkind21 b) 0 rest := by
  cases b <;> simp [f21embedBlock, spellBs, kindOf, bch, fsep21, fkind21]

theorem f21lastSoft_getLast (ls : List FLineS21) (h : f21lastSoftS ls = true) :
    ∀ z, ls.getLast? = some z → z.hard = false := by
  intro z hz
  unfold f21lastSoftS at h
  rw [hz] at h
  simpa using h

theorem fblockLines_f21embed (a : Bool) (b : FBlockS21) (hok : f21blockOKW b = true) :
    (spellB 0 0 (f21embedBlock a b)).map (renderLine 0 0 0 0) = fblockLines21 b := by
  cases b with
  | para lines =>
    simp only [f21blockOKW, Bool.and_eq_true, Bool.not_eq_true', List.isEmpty_eq_false_iff, List.all_eq_true] at hok
    have hp := paraLines_f21embed lines hok.1.1 hok.1.2 (f21lastSoft_getLast lines hok.2)
    simpa [f21embedBlock, spellB, fblockLines21] using hp
  | heading level text =>
    simp only [f21blockOKW, Bool.and_eq_true, decide_eq_true_eq] at hok
    have hs := spellIs_fline21 text hok.2 false
    have hpl : renderLine 0 0 0 0 (0, List.replicate level 35 ++ [32] ++ spellFLineA text) =
        List.replicate level 35 ++ [32] ++ spellFLineA text := by
      apply renderLine_plain
      intro c hc
      simp only [List.mem_append, List.mem_replicate, List.mem_singleton] at hc
      rcases hc with (hc | hc) | hc
      · rw [hc.2]; decide
      · rw [hc]; decide
      · exact (printable_facts c (spellFLineA_printable21 text (f21lineOKS_atoms_s21 text hok.2) c hc)).2
    simp only [f21embedBlock, spellB, Bool.false_eq_true, if_false, hs, fblockLines21, List.map_cons, List.map_nil]
    simpa [spaces] using hpl
  | thematic c n =>
    have h := blockLines_kembedK (.base (.thematic c n)) rfl
    have e : spellB 0 0 (f21embedBlock a (.thematic c n)) = spellBs false false 0 0 [hembedBlock (.base (.thematic c n))] := by
      simp [f21embedBlock, hembedBlock, gembedBlock, spellBs, spellB, bch]
    rw [e, h]
    rfl
  | fcode tilde n info lines =>
    have h := blockLines_kembedK (.fcode tilde n info lines) hok
    have e : spellB 0 0 (f21embedBlock a (.fcode tilde n info lines)) =
        spellBs false false 0 0 [hembedBlock (.fcode tilde n info lines)] := by
      simp [f21embedBlock, hembedBlock, spellBs, spellB, bch]
    rw [e, h]
    rfl
  | icode lines =>
    simp only [f21blockOKW, Bool.and_eq_true, List.all_eq_true] at hok
    have hl : ∀ l ∈ lines, l.all printable = true := by
      intro l hl
      have := hok.2 l hl
      simp only [icLineOK, Bool.and_eq_true] at this
      exact this.1
    have e : spellB 0 0 (f21embedBlock a (.icode lines)) = lines.map (fun l => ((4, l) : Line)) := by
      simp [f21embedBlock, spellB]
    rw [e, map_renderLine_ic lines hl]
    rfl

/-- `f21abutOK` is `canAbut` of the spec model on our blocks other than indented code blocks -/
theorem canAbut_f21embed (a b : FBlockS21) (h : f21abutOK a b = true) (ha : a.isIc = false) (hb : b.isIc = false) :
    canAbut (fkind21 a) (f21embedBlock true b) = true := by
  cases b with
  | icode _ => simp [FBlockS21.isIc] at hb
  | para ls' =>
    cases a <;> first | (simp [f21abutOK] at h; done) | (simp [FBlockS21.isIc] at ha; done) | simp [fkind21, f21embedBlock, canAbut]
  | heading level text =>
    cases a <;> first | (simp [FBlockS21.isIc] at ha; done) | simp [fkind21, f21embedBlock, canAbut]
  | thematic c n =>
    cases a with
    | para ls =>
      simp only [f21abutOK] at h
      simp [fkind21, f21embedBlock, canAbut, h]
    | icode _ => simp [FBlockS21.isIc] at ha
    | heading _ _ => simp [fkind21, f21embedBlock, canAbut]
    | thematic _ _ => simp [fkind21, f21embedBlock, canAbut]
    | fcode _ _ _ _ => simp [fkind21, f21embedBlock, canAbut]
  | fcode tilde n info lines =>
    cases a <;> first | (simp [FBlockS21.isIc] at ha; done) | simp [fkind21, f21embedBlock, canAbut]

/-! #### the lines of a document -/

/-- the source lines of the items: `sep` blank lines in front of every item -/
def docLinesF21 (its : List F21Item) : List Bytes :=
  its.flatMap fun it => List.replicate it.sep [] ++ fblockLines21 it.block

/-- the blocks behind a block `a` -/
theorem spellBs_f21embed (its : List F21Item) (hok : ∀ it ∈ its, f21blockOKW it.block = true) (a : FBlockS21)
    (hs : f21sepsOK (some a) its = true) (h1 : f21noExtraBlanksFrom (some a) its = true) (pm : Nat) :
    (spellBs false false (fkind21 a) pm (its.map fun it => f21embedBlock (it.sep == 0) it.block)).map
        (renderLine 0 0 0 0) = docLinesF21 its := by
  induction its generalizing a pm with
  | nil => simp [spellBs, docLinesF21]
  | cons it rest ih =>
    obtain ⟨s, b⟩ := it
    have hb := hok ⟨s, b⟩ (by simp)
    simp only [f21sepsOK, Bool.and_eq_true, Bool.or_eq_true, bne_iff_ne, ne_eq, Bool.not_eq_true',
      Bool.and_eq_false_iff] at hs
    simp only [f21noExtraBlanksFrom, Bool.and_eq_true, decide_eq_true_eq, Bool.or_eq_true, Bool.not_eq_true',
      beq_iff_eq, Bool.or_eq_false_iff] at h1
    obtain ⟨⟨hs1, hic1⟩, h1r⟩ := h1
    have ih' := ih (fun x hx => hok x (by simp [hx])) b hs.2 h1r 0
    have hsep : (fsep21 (fkind21 a) (s == 0) b).map (renderLine 0 0 0 0) = List.replicate s [] := by
      have hk := fkind_ne21 a
      rcases hic1 with ⟨hai, hbi⟩ | hs1'
      · by_cases h0 : s = 0
        · subst h0
          have hab : f21abutOK a b = true := by
            rcases hs.1.1 with h | h
            · exact absurd rfl h
            · exact h
          have hca := canAbut_f21embed a b hab hai hbi
          cases b <;> first | (simp [FBlockS21.isIc] at hbi; done) | simp [fsep21, hk, hca]
        · have hs1' : s = 1 := by omega
          subst hs1'
          cases b <;> simp [fsep21, hk, renderLine_blank]
      · subst hs1'
        cases b <;> simp [fsep21, hk, renderLine_blank]
    rw [List.map_cons, spellBs_f21embed_cons, List.map_append, List.map_append, ih', hsep,
      fblockLines_f21embed _ b hb]
    simp [docLinesF21]

theorem fblockLines_flatMap21 (b : FBlockS21) : (fblockLines21 b).flatMap (· ++ [10]) = spellFBlock21 b := by
  cases b with
  | para lines => simp only [fblockLines21, spellFBlock21, List.flatMap_map]
  | heading level text => simp [fblockLines21, spellFBlock21]
  | thematic c n => simp [fblockLines21, spellFBlock21]
  | fcode tilde n info lines => simp [fblockLines21, spellFBlock21]
  | icode lines => simp [fblockLines21, spellFBlock21, List.flatMap_map]

theorem docLinesF_flatMap21 (its : List F21Item) :
    (docLinesF21 its).flatMap (· ++ [10]) = its.flatMap fun it => blanks it.sep ++ spellFBlock21 it.block := by
  induction its with
  | nil => simp [docLinesF21]
  | cons it rest ih =>
    have e : docLinesF21 (it :: rest) = List.replicate it.sep [] ++ fblockLines21 it.block ++ docLinesF21 rest := by
      simp [docLinesF21]
    have hbl : ∀ n : Nat, (List.replicate n ([] : Bytes)).flatMap (· ++ [10]) = blanks n := by
      intro n
      induction n with
      | zero => rfl
      | succ n ihn => rw [List.replicate_succ, List.flatMap_cons, ihn, blanks, blanks, List.replicate_succ]; rfl
    rw [e, List.flatMap_append, List.flatMap_append, ih, fblockLines_flatMap21, hbl, List.flatMap_cons]

theorem fblockLines_ne21 (b : FBlockS21) (h : f21blockOKW b = true) : fblockLines21 b ≠ [] := by
  cases b with
  | para lines =>
    simp only [f21blockOKW, Bool.and_eq_true, Bool.not_eq_true', List.isEmpty_eq_false_iff] at h
    simpa [fblockLines21] using h.1.1
  | heading level text => simp [fblockLines21]
  | thematic c n => simp [fblockLines21]
  | fcode tilde n info lines => simp [fblockLines21]
  | icode lines =>
    simp only [f21blockOKW, Bool.and_eq_true, Bool.not_eq_true', List.isEmpty_eq_false_iff] at h
    simpa [fblockLines21] using h.1

/-- F2 for the wide class (no restriction `f21restrS`): a non-empty stage-21 document without extra blank lines —
    exactly one blank line in front of and behind every indented code block — is spelled byte for byte like the embedded
    one -/
theorem spellF21_eq_spellW (d : F21Doc) (h : f21fragWB d = true) (hb : f21noExtraBlanks d = true) (hne : d.items ≠ []) :
    spellF21 d = spell (f21embed d) := by
  simp only [f21fragWB, Bool.and_eq_true, List.all_eq_true] at h
  obtain ⟨hok, hseps⟩ := h
  obtain ⟨items, trail⟩ := d
  cases items with
  | nil => exact absurd rfl hne
  | cons it rest =>
    obtain ⟨s, b⟩ := it
    simp only [f21noExtraBlanks, f21noExtraBlanksFrom, Bool.and_eq_true, beq_iff_eq] at hb
    obtain ⟨ht, hs0, h1⟩ := hb
    simp only at ht hs0 hok hseps; subst ht; subst hs0
    have hbk := hok ⟨0, b⟩ (by simp)
    simp only [f21sepsOK] at hseps
    have hrest := spellBs_f21embed rest (fun x hx => hok x (by simp [hx])) b hseps h1 0
    have hl : (spellBs false false 0 0 ((⟨0, b⟩ :: rest : List F21Item).map fun it => f21embedBlock (it.sep == 0) it.block)).map
        (renderLine 0 0 0 0) = docLinesF21 (⟨0, b⟩ :: rest) := by
      rw [List.map_cons, spellBs_f21embed_cons, List.map_append, List.map_append, hrest, fblockLines_f21embed _ b hbk]
      cases b <;> simp [fsep21, docLinesF21]
    have hdn : docLinesF21 (⟨0, b⟩ :: rest) ≠ [] := by
      have := fblockLines_ne21 b hbk
      simp [docLinesF21, this]
    simp only [spell, f21embed, spellF21, blanks, List.replicate_zero, List.append_nil, if_true]
    rw [hl, joinLines_flatMap _ hdn, docLinesF_flatMap21]
    simp [blanks]

/-- F2 -/
theorem spellF21_eq_spell (d : F21Doc) (h : F21Frag d) (hb : f21noExtraBlanks d = true) (hne : d.items ≠ []) :
    spellF21 d = spell (f21embed d) :=
  spellF21_eq_spellW d (f21fragW_of d h) hb hne

theorem spell_f21embed_split (d : F21Doc) : spell (f21embed d) = spell (f21embedE d) ++ [10] := by
  simp [spell, f21embed, f21embedE]

/-- FE2 -/
theorem spellF21E_eq_spell (d : F21Doc) (h : F21FragE d) (hb : f21noExtraBlanks d = true) :
    spellF21E d = spell (f21embedE d) := by
  obtain ⟨hk, _, hne⟩ := f21fragE_partsS21 d h
  rw [spellF21E, spellF21_eq_spell d hk hb hne, spell_f21embed_split, List.dropLast_concat]

end GM.Proof.CMFrag
