/-
  GM.Proof.CMFragSpec13 — the stage-13 fragment (the union: the blocks of stage 6 / 7 whose paragraph lines and heading
  texts are the rich lines of stage 11, paragraph lines optionally followed by a backslash hard line break) of
  GM.Spec.CMFrag inside the spec model GM.Spec.CommonMark:
  * `expectedU_eq_expected`: the prescribed HTML of a stage-13 document is `expected` of the embedded document;
  * `spellU_eq_spell`: for a NON-EMPTY stage-13 document without extra blank lines the source is `spell` of the
    embedded document, byte for byte;
  * `expectedUE_eq_expected`, `spellUE_eq_spell`: the same without the final line feed (`uembedE`).
-/
import GM.Proof.CMFragSpec11
import GM.Proof.CMFragSpec9
import GM.Proof.CMFragSpec12
namespace GM.Proof.CMFrag
open GM GM.Spec.CM GM.Spec.CMFrag

/-! ### U1: prescribed HTML -/

theorem render_expIs_uembedLines13 (ls : List ULineS) : render (expIs (uembedLines ls)) = expULines ls := by
  induction ls with
  | nil => simp [uembedLines, expIs, render, expULines]
  | cons x rest ih =>
    cases rest with
    | nil => simp [uembedLines, expULines, render_expIs_line11]
    | cons y rest =>
      obtain ⟨atoms, hard⟩ := x
      have e : uembedLines (⟨atoms, hard⟩ :: y :: rest) =
          atoms.map eembedAtom ++ (if hard then .hardBreak true 0 else .softBreak) :: uembedLines (y :: rest) := rfl
      have e2 : expULines (⟨atoms, hard⟩ :: y :: rest) =
          expELine atoms ++ (if hard then strBytes "<br />\n" else [10]) ++ expULines (y :: rest) := rfl
      rw [e, e2, expIs_append11, render_append, render_expIs_line11, expIs, render_append, ih]
      have hbr : strBytes "<br />\n" = [60] ++ strBytes "br" ++ strBytes " />" ++ [10] := by decide +kernel
      cases hard
      · simp [expI, render, renderPiece, nl]
      · rw [if_pos rfl, if_pos rfl, hbr]
        simp [expI, render, renderPiece, nl]

theorem render_expB_upara13 (a : Bool) (ls : List ULineS) :
    render (expB false false (.para { abut := a } (uembedLines ls) 0)) = expUBlock (.para ls) := by
  rw [expB]
  simp only [wrap, Bool.false_eq_true, if_false, List.cons_append]
  have h1 : strBytes "<p>" = [60] ++ strBytes "p" ++ [62] := by decide +kernel
  have h2 : strBytes "</p>\n" = [60, 47] ++ strBytes "p" ++ [62] ++ [10] := by decide +kernel
  rw [expUBlock, h1, h2, ← render_expIs_uembedLines13]
  simp [render, renderPiece, nl]

theorem render_expB_uheading13 (a : Bool) (level : Nat) (text : ELine) (hl1 : 1 ≤ level) (hl6 : level ≤ 6) :
    render (expB false false (.heading { abut := a } level false 0 0 (text.map eembedAtom))) =
      expUBlock (.heading level text) := by
  rw [expB, expUBlock, decStr_level4 level hl1 hl6, ← render_expIs_line11]
  have h1 : strBytes "<h" = [60, 104] := by decide +kernel
  have h2 : strBytes "</h" = [60, 47, 104] := by decide +kernel
  have h3 : strBytes ">\n" = [62, 10] := by decide +kernel
  rw [h1, h2, h3]
  simp [wrap, render, renderPiece, nl]

theorem render_expB_uembed13 (a : Bool) (b : UBlockS) (hok : ublockOKS b = true) :
    render (expB false false (uembedBlock a b)) = expUBlock b := by
  cases b with
  | para lines => exact render_expB_upara13 a lines
  | heading level text =>
    simp only [ublockOKS, Bool.and_eq_true, decide_eq_true_eq] at hok
    exact render_expB_uheading13 a level text hok.1.1 hok.1.2
  | thematic c n =>
    have h := render_expB_hembedH (.base (.thematic c n)) rfl
    have e : expB false false (uembedBlock a (.thematic c n)) = expB false false (hembedBlock (.base (.thematic c n))) := by
      simp [uembedBlock, hembedBlock, gembedBlock, expB]
    rw [e, h]
    rfl
  | fcode tilde n info lines =>
    have h := render_expB_hembedH (.fcode tilde n info lines) hok
    have e : expB false false (uembedBlock a (.fcode tilde n info lines)) =
        expB false false (hembedBlock (.fcode tilde n info lines)) := by
      simp [uembedBlock, hembedBlock, expB]
    rw [e, h]
    rfl
  | icode lines => exact render_expB_iembed a (.icode lines) hok

theorem render_expBs_uembed13 (its : List UItem) (hok : ∀ it ∈ its, ublockOKS it.block = true) :
    render (expBs false false (its.map fun it => uembedBlock (it.sep == 0) it.block)) =
      its.flatMap fun it => expUBlock it.block := by
  induction its with
  | nil => simp [expBs, render]
  | cons it rest ih =>
    rw [List.map_cons, expBs, render_append, ih (fun x hx => hok x (by simp [hx])), List.flatMap_cons,
      Bool.false_and, render_expB_uembed13 _ it.block (hok it (by simp))]

theorem ufrag_okU13 (d : UDocS) (h : UFrag d) :
    (∀ it ∈ d.items, ublockOKS it.block = true) ∧ usepsOK none d.items = true := by
  have := h
  simp only [UFrag, ufragB, Bool.and_eq_true, List.all_eq_true] at this
  exact this

/-- U1 -/
theorem expectedU_eq_expected (d : UDocS) (h : UFrag d) : expectedU d = expected (uembed d) := by
  rw [expected, expectedPieces, uembed, expectedU, render_expBs_uembed13 d.items (ufrag_okU13 d h).1]

/-! ### U2: source -/

/-! #### the inlines of a paragraph -/

def simple13 : Inline → Bool
  | .text _ => true
  | .code .. => true
  | .softBreak => true
  | .hardBreak .. => true
  | .emph us _ => !us
  | .strong us _ => !us
  | _ => false

/-- … and a hard break is written the same way whatever its neighbours are -/
theorem spellI_simple13 (x : Inline) (h : simple13 x = true) (pa na : Bool) :
    spellI pa na x = spellI false false x := by
  cases x with
  | emph us kids =>
    have : us = false := by simpa [simple13] using h
    subst this; simp [spellI]
  | strong us kids =>
    have : us = false := by simpa [simple13] using h
    subst this; simp [spellI]
  | text _ => simp only [spellI]
  | code _ _ _ => simp only [spellI]
  | softBreak => simp only [spellI]
  | hardBreak _ _ => simp only [spellI]
  | _ => cases h

theorem spellIs_simple13 (ks : List Inline) (h : ∀ x ∈ ks, simple13 x = true) (pa : Bool) :
    spellIs pa ks = ks.flatMap (spellI false false) := by
  induction ks generalizing pa with
  | nil => simp [spellIs]
  | cons x rest ih =>
    simp only [spellIs]
    rw [spellI_simple13 x (h x (by simp)), ih (fun y hy => h y (by simp [hy]))]
    simp

theorem simple_uembedAtom13 (a : EAtomS) : simple13 (eembedAtom a) = true := by cases a <;> rfl

theorem simple_uembedLines13 (ls : List ULineS) : ∀ x ∈ uembedLines ls, simple13 x = true := by
  induction ls with
  | nil => simp [uembedLines]
  | cons l rest ih =>
    cases rest with
    | nil =>
      intro x hx
      simp only [uembedLines, List.mem_map] at hx
      obtain ⟨a, _, rfl⟩ := hx
      exact simple_uembedAtom13 a
    | cons l' rest =>
      have e : uembedLines (l :: l' :: rest) =
          l.atoms.map eembedAtom ++ (if l.hard then .hardBreak true 0 else .softBreak) :: uembedLines (l' :: rest) := rfl
      intro x hx
      rw [e] at hx
      rcases List.mem_append.mp hx with hx | hx
      · obtain ⟨a, _, rfl⟩ := List.mem_map.mp hx
        exact simple_uembedAtom13 a
      · rcases List.mem_cons.mp hx with rfl | hx
        · cases l.hard <;> rfl
        · exact ih x hx

theorem flat_uembedLines13 (ls : List ULineS) (h : ∀ l ∈ ls, ∀ a ∈ l.atoms, eatomOKS a = true)
    (hlast : ∀ z, ls.getLast? = some z → z.hard = false) :
    (uembedLines ls).flatMap (spellI false false) = GM.Spec.CMFrag.joinNl (ls.map spellULine) := by
  induction ls with
  | nil => simp [uembedLines, GM.Spec.CMFrag.joinNl]
  | cons l rest ih =>
    cases rest with
    | nil =>
      have hx : l.hard = false := hlast l rfl
      simp [uembedLines, GM.Spec.CMFrag.joinNl, flat_line11 l.atoms (h l (by simp)), spellULine, hx]
    | cons l' rest =>
      have hl' : ∀ z, (l' :: rest).getLast? = some z → z.hard = false := by
        intro z hz; exact hlast z (by rw [List.getLast?_cons_cons]; exact hz)
      obtain ⟨atoms, hard⟩ := l
      have e : uembedLines (⟨atoms, hard⟩ :: l' :: rest) =
          atoms.map eembedAtom ++ (if hard then .hardBreak true 0 else .softBreak) :: uembedLines (l' :: rest) := rfl
      rw [e, List.flatMap_append, List.flatMap_cons, flat_line11 atoms (h ⟨atoms, hard⟩ (by simp)),
        ih (fun x hx => h x (by simp [hx])) hl']
      cases hard <;> simp [spellI, GM.Spec.CMFrag.joinNl, spellULine]

theorem spellIs_uembedLines13 (ls : List ULineS) (h : ∀ l ∈ ls, ∀ a ∈ l.atoms, eatomOKS a = true)
    (hlast : ∀ z, ls.getLast? = some z → z.hard = false) (pa : Bool) :
    spellIs pa (uembedLines ls) = GM.Spec.CMFrag.joinNl (ls.map spellULine) := by
  rw [spellIs_simple13 _ (simple_uembedLines13 ls), flat_uembedLines13 ls h hlast]

theorem spellIs_uline13 (l : ELine) (h : ∀ a ∈ l, eatomOKS a = true) (pa : Bool) :
    spellIs pa (l.map eembedAtom) = spellELine l := by
  rw [spellIs_simple11 _ (by
    intro x hx
    obtain ⟨a, _, rfl⟩ := List.mem_map.mp hx
    exact simple_rembedAtom11 a), flat_line11 l h]

theorem spellULine_printable13 (x : ULineS) (h : elineOKS x.atoms = true) : ∀ c ∈ spellULine x, printable c = true := by
  intro c hc
  unfold spellULine at hc
  split at hc
  · rcases List.mem_append.mp hc with hc | hc
    · exact spellRLine_printable11 x.atoms h c hc
    · simp only [List.mem_singleton] at hc; subst hc; decide
  · exact spellRLine_printable11 x.atoms h c hc

theorem map_renderLine_id13 (ls : List Bytes) (h : ∀ b ∈ ls, ∀ c ∈ b, printable c = true) :
    ls.map (fun b => renderLine 0 0 0 0 ((0, b) : Line)) = ls := by
  conv => rhs; rw [← List.map_id ls]
  apply List.map_congr_left
  intro b hb
  exact renderLine_plain b (fun c hc => (printable_facts c (h b hb c hc)).2)

theorem paraLines_uembed13 (ls : List ULineS) (hne : ls ≠ []) (hok : ∀ l ∈ ls, elineOKS l.atoms = true)
    (hlast : ∀ z, ls.getLast? = some z → z.hard = false) :
    (paraLines 0 0 (spellIs false (uembedLines ls))).map (renderLine 0 0 0 0) = ls.map spellULine := by
  have hpr : ∀ b ∈ ls.map spellULine, ∀ c ∈ b, printable c = true := by
    intro b hb c hc
    obtain ⟨l, hl, rfl⟩ := List.mem_map.mp hb
    exact spellULine_printable13 l (hok l hl) c hc
  have hsplit := splitLines_joinNl (ls.map spellULine) (by simpa using hne)
    (fun b hb c hc => (printable_facts c (hpr b hb c hc)).1)
  rw [paraLines, spellIs_uembedLines13 ls (fun l hl => rlineOK_atoms_s11 l.atoms (hok l hl)) hlast, hsplit]
  cases hls : ls.map spellULine with
  | nil => simp at hls; exact absurd hls hne
  | cons f rest =>
    rw [hls] at hpr
    simp only [List.map_cons, List.map_map]
    congr 1
    · exact renderLine_plain f (fun c hc => (printable_facts c (hpr f (by simp) c hc)).2)
    · conv => rhs; rw [← List.map_id rest]
      apply List.map_congr_left
      intro b hb
      exact renderLine_plain b (fun c hc => (printable_facts c (hpr b (by simp [hb]) c hc)).2)

/-! #### one block -/

/-- the source lines of one block -/
def ublockLines13 : UBlockS → List Bytes
  | .para lines => lines.map spellULine
  | .heading level text => [List.replicate level 35 ++ [32] ++ spellELine text]
  | .thematic c n => [thematicLine c n false]
  | .fcode tilde n info lines =>
    [List.replicate (n + 3) (fenceChar tilde) ++ info] ++ lines ++ [List.replicate (n + 3) (fenceChar tilde)]
  | .icode lines => lines.map fun l => [32, 32, 32, 32] ++ l

/-- the kind of the embedded block (`kindOf`) -/
def ukind13 : UBlockS → Nat
  | .para _ => 1
  | .heading _ _ => 2
  | .thematic _ _ => 4
  | .fcode _ _ _ _ => 6
  | .icode _ => 5

theorem kindOf_uembed13 (a : Bool) (b : UBlockS) : kindOf (uembedBlock a b) = ukind13 b := by
  cases b <;> rfl

theorem ukind_ne13 (b : UBlockS) : (ukind13 b == 0) = false := by cases b <;> rfl

/-- the separator the spec model writes in front of an embedded block (an indented code block has no `abut` choice) -/
def usep13 (prev : Nat) (a : Bool) (b : UBlockS) : List Line :=
  match b with
  | .icode _ => if prev == 0 then [] else [blankLine]
  | _ => if prev == 0 then [] else if a && canAbut prev (uembedBlock a b) then [] else [blankLine]

/-- one embedded block in front of any other blocks: the separator, the lines of the block, the rest -/
theorem spellBs_uembed_cons13 (a : Bool) (b : UBlockS) (prev pm : Nat) (rest : List Block) :
    spellBs false false prev pm (uembedBlock a b :: rest) =
      usep13 prev a b ++ spellB 0 0 (uembedBlock a b) ++ spellBs false false (ukind13 b) 0 rest := by
  cases b <;> simp [uembedBlock, spellBs, kindOf, bch, usep13, ukind13]

theorem ulastSoft_getLast13 (ls : List ULineS) (h : ulastSoftS ls = true) :
    ∀ z, ls.getLast? = some z → z.hard = false := by
  intro z hz
  unfold ulastSoftS at h
  rw [hz] at h
  simpa using h

theorem ublockLines_uembed13 (a : Bool) (b : UBlockS) (hok : ublockOKS b = true) :
    (spellB 0 0 (uembedBlock a b)).map (renderLine 0 0 0 0) = ublockLines13 b := by
  cases b with
  | para lines =>
    simp only [ublockOKS, Bool.and_eq_true, Bool.not_eq_true', List.isEmpty_eq_false_iff, List.all_eq_true] at hok
    have hp := paraLines_uembed13 lines hok.1.1 hok.1.2 (ulastSoft_getLast13 lines hok.2)
    simpa [uembedBlock, spellB, ublockLines13] using hp
  | heading level text =>
    simp only [ublockOKS, Bool.and_eq_true, decide_eq_true_eq] at hok
    have hs := spellIs_uline13 text (rlineOK_atoms_s11 text hok.2) false
    have hpl : renderLine 0 0 0 0 (0, List.replicate level 35 ++ [32] ++ spellELine text) =
        List.replicate level 35 ++ [32] ++ spellELine text := by
      apply renderLine_plain
      intro c hc
      simp only [List.mem_append, List.mem_replicate, List.mem_singleton] at hc
      rcases hc with (hc | hc) | hc
      · rw [hc.2]; decide
      · rw [hc]; decide
      · exact (printable_facts c (spellRLine_printable11 text hok.2 c hc)).2
    simp only [uembedBlock, spellB, Bool.false_eq_true, if_false, hs, ublockLines13, List.map_cons, List.map_nil]
    simpa [spaces] using hpl
  | thematic c n =>
    have h := blockLines_kembedK (.base (.thematic c n)) rfl
    have e : spellB 0 0 (uembedBlock a (.thematic c n)) = spellBs false false 0 0 [hembedBlock (.base (.thematic c n))] := by
      simp [uembedBlock, hembedBlock, gembedBlock, spellBs, spellB, bch]
    rw [e, h]
    rfl
  | fcode tilde n info lines =>
    have h := blockLines_kembedK (.fcode tilde n info lines) hok
    have e : spellB 0 0 (uembedBlock a (.fcode tilde n info lines)) =
        spellBs false false 0 0 [hembedBlock (.fcode tilde n info lines)] := by
      simp [uembedBlock, hembedBlock, spellBs, spellB, bch]
    rw [e, h]
    rfl
  | icode lines =>
    simp only [ublockOKS, Bool.and_eq_true, List.all_eq_true] at hok
    have hl : ∀ l ∈ lines, l.all printable = true := by
      intro l hl
      have := hok.2 l hl
      simp only [icLineOK, Bool.and_eq_true] at this
      exact this.1
    have e : spellB 0 0 (uembedBlock a (.icode lines)) = lines.map (fun l => ((4, l) : Line)) := by
      simp [uembedBlock, spellB]
    rw [e, map_renderLine_ic lines hl]
    rfl

/-- `uabutOK` is `canAbut` of the spec model on our blocks other than indented code blocks -/
theorem canAbut_uembed13 (a b : UBlockS) (h : uabutOK a b = true) (ha : a.isIc = false) (hb : b.isIc = false) :
    canAbut (ukind13 a) (uembedBlock true b) = true := by
  cases b with
  | icode _ => simp [UBlockS.isIc] at hb
  | para ls' =>
    cases a <;> first | (simp [uabutOK] at h; done) | (simp [UBlockS.isIc] at ha; done) | simp [ukind13, uembedBlock, canAbut]
  | heading level text =>
    cases a <;> first | (simp [UBlockS.isIc] at ha; done) | simp [ukind13, uembedBlock, canAbut]
  | thematic c n =>
    cases a with
    | para ls =>
      simp only [uabutOK] at h
      simp [ukind13, uembedBlock, canAbut, h]
    | icode _ => simp [UBlockS.isIc] at ha
    | heading _ _ => simp [ukind13, uembedBlock, canAbut]
    | thematic _ _ => simp [ukind13, uembedBlock, canAbut]
    | fcode _ _ _ _ => simp [ukind13, uembedBlock, canAbut]
  | fcode tilde n info lines =>
    cases a <;> first | (simp [UBlockS.isIc] at ha; done) | simp [ukind13, uembedBlock, canAbut]

/-! #### the lines of a document -/

/-- the source lines of the items: `sep` blank lines in front of every item -/
def docLinesU13 (its : List UItem) : List Bytes :=
  its.flatMap fun it => List.replicate it.sep [] ++ ublockLines13 it.block

/-- the blocks behind a block `a` -/
theorem spellBs_uembed13 (its : List UItem) (hok : ∀ it ∈ its, ublockOKS it.block = true) (a : UBlockS)
    (hs : usepsOK (some a) its = true) (h1 : unoExtraBlanksFrom (some a) its = true) (pm : Nat) :
    (spellBs false false (ukind13 a) pm (its.map fun it => uembedBlock (it.sep == 0) it.block)).map
        (renderLine 0 0 0 0) = docLinesU13 its := by
  induction its generalizing a pm with
  | nil => simp [spellBs, docLinesU13]
  | cons it rest ih =>
    obtain ⟨s, b⟩ := it
    have hb := hok ⟨s, b⟩ (by simp)
    simp only [usepsOK, Bool.and_eq_true, Bool.or_eq_true, bne_iff_ne, ne_eq, Bool.not_eq_true',
      Bool.and_eq_false_iff] at hs
    simp only [unoExtraBlanksFrom, Bool.and_eq_true, decide_eq_true_eq, Bool.or_eq_true, Bool.not_eq_true',
      beq_iff_eq, Bool.or_eq_false_iff] at h1
    obtain ⟨⟨hs1, hic1⟩, h1r⟩ := h1
    have ih' := ih (fun x hx => hok x (by simp [hx])) b hs.2 h1r 0
    have hsep : (usep13 (ukind13 a) (s == 0) b).map (renderLine 0 0 0 0) = List.replicate s [] := by
      have hk := ukind_ne13 a
      rcases hic1 with ⟨hai, hbi⟩ | hs1'
      · by_cases h0 : s = 0
        · subst h0
          have hab : uabutOK a b = true := by
            rcases hs.1.1 with h | h
            · exact absurd rfl h
            · exact h
          have hca := canAbut_uembed13 a b hab hai hbi
          cases b <;> first | (simp [UBlockS.isIc] at hbi; done) | simp [usep13, hk, hca]
        · have hs1' : s = 1 := by omega
          subst hs1'
          cases b <;> simp [usep13, hk, renderLine_blank]
      · subst hs1'
        cases b <;> simp [usep13, hk, renderLine_blank]
    rw [List.map_cons, spellBs_uembed_cons13, List.map_append, List.map_append, ih', hsep,
      ublockLines_uembed13 _ b hb]
    simp [docLinesU13]

theorem ublockLines_flatMap13 (b : UBlockS) : (ublockLines13 b).flatMap (· ++ [10]) = spellUBlock b := by
  cases b with
  | para lines => simp only [ublockLines13, spellUBlock, List.flatMap_map]
  | heading level text => simp [ublockLines13, spellUBlock]
  | thematic c n => simp [ublockLines13, spellUBlock]
  | fcode tilde n info lines => simp [ublockLines13, spellUBlock]
  | icode lines => simp [ublockLines13, spellUBlock, List.flatMap_map]

theorem docLinesU_flatMap13 (its : List UItem) :
    (docLinesU13 its).flatMap (· ++ [10]) = its.flatMap fun it => blanks it.sep ++ spellUBlock it.block := by
  induction its with
  | nil => simp [docLinesU13]
  | cons it rest ih =>
    have e : docLinesU13 (it :: rest) = List.replicate it.sep [] ++ ublockLines13 it.block ++ docLinesU13 rest := by
      simp [docLinesU13]
    have hbl : ∀ n : Nat, (List.replicate n ([] : Bytes)).flatMap (· ++ [10]) = blanks n := by
      intro n
      induction n with
      | zero => rfl
      | succ n ihn => rw [List.replicate_succ, List.flatMap_cons, ihn, blanks, blanks, List.replicate_succ]; rfl
    rw [e, List.flatMap_append, List.flatMap_append, ih, ublockLines_flatMap13, hbl, List.flatMap_cons]

theorem ublockLines_ne13 (b : UBlockS) (h : ublockOKS b = true) : ublockLines13 b ≠ [] := by
  cases b with
  | para lines =>
    simp only [ublockOKS, Bool.and_eq_true, Bool.not_eq_true', List.isEmpty_eq_false_iff] at h
    simpa [ublockLines13] using h.1.1
  | heading level text => simp [ublockLines13]
  | thematic c n => simp [ublockLines13]
  | fcode tilde n info lines => simp [ublockLines13]
  | icode lines =>
    simp only [ublockOKS, Bool.and_eq_true, Bool.not_eq_true', List.isEmpty_eq_false_iff] at h
    simpa [ublockLines13] using h.1

/-- U2: a non-empty stage-13 document without extra blank lines — exactly one blank line in front of and behind every
    indented code block — is spelled byte for byte like the embedded one -/
theorem spellU_eq_spell (d : UDocS) (h : UFrag d) (hb : unoExtraBlanks d = true) (hne : d.items ≠ []) :
    spellU d = spell (uembed d) := by
  obtain ⟨hok, hseps⟩ := ufrag_okU13 d h
  obtain ⟨items, trail⟩ := d
  cases items with
  | nil => exact absurd rfl hne
  | cons it rest =>
    obtain ⟨s, b⟩ := it
    simp only [unoExtraBlanks, unoExtraBlanksFrom, Bool.and_eq_true, beq_iff_eq] at hb
    obtain ⟨ht, hs0, h1⟩ := hb
    simp only at ht hs0 hok hseps; subst ht; subst hs0
    have hbk := hok ⟨0, b⟩ (by simp)
    simp only [usepsOK] at hseps
    have hrest := spellBs_uembed13 rest (fun x hx => hok x (by simp [hx])) b hseps h1 0
    have hl : (spellBs false false 0 0 ((⟨0, b⟩ :: rest : List UItem).map fun it => uembedBlock (it.sep == 0) it.block)).map
        (renderLine 0 0 0 0) = docLinesU13 (⟨0, b⟩ :: rest) := by
      rw [List.map_cons, spellBs_uembed_cons13, List.map_append, List.map_append, hrest, ublockLines_uembed13 _ b hbk]
      cases b <;> simp [usep13, docLinesU13]
    have hdn : docLinesU13 (⟨0, b⟩ :: rest) ≠ [] := by
      have := ublockLines_ne13 b hbk
      simp [docLinesU13, this]
    simp only [spell, uembed, spellU, blanks, List.replicate_zero, List.append_nil, if_true]
    rw [hl, joinLines_flatMap _ hdn, docLinesU_flatMap13]
    simp [blanks]

/-! ### without the final line feed -/

theorem ufragE_partsU13 (d : UDocS) (h : UFragE d) : UFrag d ∧ d.trail = 0 ∧ d.items ≠ [] := by
  have := h
  simp only [UFragE, ufragEB, Bool.and_eq_true, beq_iff_eq, Bool.not_eq_true', List.isEmpty_eq_false_iff] at this
  exact ⟨this.1.1.1, this.1.1.2, this.1.2⟩

/-- UE1 -/
theorem expectedUE_eq_expected (d : UDocS) (h : UFragE d) : expectedU d = expected (uembedE d) := by
  have e : expected (uembedE d) = expected (uembed d) := rfl
  rw [e, expectedU_eq_expected d (ufragE_partsU13 d h).1]

theorem spell_uembed_split13 (d : UDocS) : spell (uembed d) = spell (uembedE d) ++ [10] := by
  simp [spell, uembed, uembedE]

/-- UE2 -/
theorem spellUE_eq_spell (d : UDocS) (h : UFragE d) (hb : unoExtraBlanks d = true) : spellUE d = spell (uembedE d) := by
  obtain ⟨hk, _, hne⟩ := ufragE_partsU13 d h
  rw [spellUE, spellU_eq_spell d hk hb hne, spell_uembed_split13, List.dropLast_concat]

end GM.Proof.CMFrag
