/-
  GM.Proof.E2ERender — the renderer half of the end-to-end theorems about `GM.Convert.convertCore`:

    * `convertWith_ok`: an HTML answer is `render o.rcfg t` of the tree `parseDoc` answered — ONE tree for every option set;
    * `parseDoc_err_not_render`, `convertWith_not_render`: the outcome `Err.render k` (a panic of a node renderer:
      `"0123456"[n.Level]`, `c.(*ast.Text)` in renderCodeSpan) is unreachable on parser output (from `Spec.Inv`);
    * `render_tableAlign`: without the table extension the output does not depend on the table alignment method, so the
      factorisation of C10 (stated for a pinned method) applies to the default configuration.
-/
import GM.Proof.E2ETree
import GM.Proof.RenderWF.Panic
import GM.Proof.RenderIR

namespace GM.E2E
open GM GM.Text GM.Convert GM.Spec

/-! ### the renderer state of `convertCore` -/

/-- the global options of `convertCore`'s Markdown object -/
def ROpts.opts (o : ROpts) : Opts := { unsafe_ := o.unsafe_, xhtml := o.xhtml, hardWraps := o.hardWraps }

/-- the same with the table alignment method pinned (the form C10's factorisation is stated for) -/
def ROpts.optsPinned (o : ROpts) : Opts :=
  { unsafe_ := o.unsafe_, xhtml := o.xhtml, hardWraps := o.hardWraps, tableAlign := some 1 }

theorem rcfg_eq (o : ROpts) : o.rcfg = mkRCfg (ROpts.opts o) {} := rfl

theorem rcfg_pinned (o : ROpts) : mkRCfg (ROpts.optsPinned o) {} = { o.rcfg with tableAlign := 1 } := rfl

/-! ### without the table extension the alignment method is never read -/

theorem enter_tableAlign (rc : RCfg) (a : Nat) (ht : rc.exts.table = false) (ph : Bool) (next : Option GM.Node)
    (k : GM.Kind) (attrs : Option (List Attr)) (cs : List GM.Node) :
    enter { rc with tableAlign := a } ph next k attrs cs = enter rc ph next k attrs cs := by
  cases k <;> first | rfl | simp [enter, handled, ht]

theorem leave_tableAlign (rc : RCfg) (a : Nat) (ph : Bool) (next : Option GM.Node) (k : GM.Kind) (cs : List GM.Node) :
    leave { rc with tableAlign := a } ph next k cs = leave rc ph next k cs := by
  cases k <;> rfl

mutual
theorem renderNode_tableAlign (rc : RCfg) (a : Nat) (ht : rc.exts.table = false) (ph : Bool) (next : Option GM.Node) :
    (t : GM.Node) → renderNode { rc with tableAlign := a } ph next t = renderNode rc ph next t
  | .mk k attrs cs => by
    simp only [renderNode, enter_tableAlign rc a ht, leave_tableAlign, renderNodes_tableAlign rc a ht k.isTableHeader cs]
theorem renderNodes_tableAlign (rc : RCfg) (a : Nat) (ht : rc.exts.table = false) (ph : Bool) :
    (cs : List GM.Node) → renderNodes { rc with tableAlign := a } ph cs = renderNodes rc ph cs
  | [] => by simp [renderNodes]
  | c :: rest => by
    simp only [renderNodes, renderNode_tableAlign rc a ht ph rest.head? c, renderNodes_tableAlign rc a ht ph rest]
end

/-- the output of `convertCore`'s renderer state is that of the state with the alignment method pinned -/
theorem render_pinned (o : ROpts) (t : GM.Node) : render o.rcfg t = render (mkRCfg (ROpts.optsPinned o) {}) t := by
  rw [rcfg_pinned]
  exact (renderNode_tableAlign o.rcfg 1 rfl false none t).symm

/-! ### outcomes -/

theorem liftErr_err {α} {f : Panic → Err} {x : Except Panic α} {e : Err} (h : liftErr f x = .error e) :
    ∃ p, e = f p := by
  cases x with
  | error p => simp only [liftErr, Except.error.injEq] at h; exact ⟨p, h.symm⟩
  | ok v => simp [liftErr] at h

/-- the errors of the parse phases -/
def Err.isRender : Err → Bool
  | .render _ => true
  | _ => false

theorem inlinePhase_err {guard : Bool} {env : GM.Inl.Env} {src : Bytes} {n : GM.Blocks.Node} {e : Err}
    (h : inlinePhase guard env src n = .error e) : Err.isRender e = false := by
  unfold inlinePhase at h
  split at h
  · cases h
  · split at h
    · cases h
    · split at h
      · cases h; rfl
      · obtain ⟨p, rfl⟩ := liftErr_err h; rfl

mutual
theorem docTree_err (guard : Bool) (env : GM.Inl.Env) (src : Bytes) : ∀ (t : GM.Blocks.Tree) (e : Err),
    docTree guard env src t = .error e → Err.isRender e = false
  | .node n cs, e, h => by
    unfold docTree at h
    simp only [bind, Except.bind] at h
    cases h1 : docTrees guard env src cs with
    | error e1 => rw [h1] at h; cases h; exact docTrees_err guard env src cs _ h1
    | ok bs =>
      rw [h1] at h
      simp only at h
      cases h2 : inlinePhase guard env src n with
      | error e2 => rw [h2] at h; cases h; exact inlinePhase_err h2
      | ok kids =>
        rw [h2] at h
        simp only at h
        cases h3 : liftErr Err.value (inlineTrees src kids) with
        | error e3 => rw [h3] at h; cases h; obtain ⟨p, rfl⟩ := liftErr_err h3; rfl
        | ok is =>
          rw [h3] at h
          simp only at h
          cases h4 : liftErr Err.value (blockKind src n) with
          | error e4 => rw [h4] at h; cases h; obtain ⟨p, rfl⟩ := liftErr_err h4; rfl
          | ok k => rw [h4] at h; cases h
theorem docTrees_err (guard : Bool) (env : GM.Inl.Env) (src : Bytes) : ∀ (ts : List GM.Blocks.Tree) (e : Err),
    docTrees guard env src ts = .error e → Err.isRender e = false
  | [], e, h => by unfold docTrees at h; cases h
  | t :: rest, e, h => by
    unfold docTrees at h
    simp only [bind, Except.bind] at h
    cases h1 : docTree guard env src t with
    | error e1 => rw [h1] at h; cases h; exact docTree_err guard env src t _ h1
    | ok x =>
      rw [h1] at h
      simp only at h
      cases h2 : docTrees guard env src rest with
      | error e2 => rw [h2] at h; cases h; exact docTrees_err guard env src rest _ h2
      | ok xs => rw [h2] at h; cases h
end

theorem parseDoc_err_not_render {guard : Bool} {uc : List (Nat × (Bool × Bool))} {src : Bytes} {e : Err}
    (h : parseDoc guard uc src = .error e) : Err.isRender e = false := by
  unfold parseDoc at h
  simp only [bind, Except.bind] at h
  cases hb : liftErr Err.blocks (blockPhase guard src) with
  | error p => rw [hb] at h; cases h; obtain ⟨q, rfl⟩ := liftErr_err hb; rfl
  | ok st => rw [hb] at h; exact docTree_err guard _ src _ _ h

/-- **no node renderer panics on parser output** -/
theorem parseDoc_noRenderPanic (o : ROpts) {guard : Bool} {uc : List (Nat × (Bool × Bool))} {src : Bytes} {t : GM.Node}
    (h : parseDoc guard uc src = .ok t) : renderPanics o.rcfg t = none :=
  GM.Proof.RenderWF.inv_noPanic o.rcfg t (parseDoc_inv (ROpts.opts o) {} guard uc src t h)

/-- `convertWith` is `render` of the parsed tree whenever the parse phases answer a tree — for EVERY option set -/
theorem convertWith_of_tree (o : ROpts) {guard : Bool} {uc : List (Nat × (Bool × Bool))} {src : Bytes} {t : GM.Node}
    (h : parseDoc guard uc src = .ok t) : convertWith guard uc o src = .ok (render o.rcfg t) := by
  unfold convertWith
  simp only [bind, Except.bind, h, renderDoc, parseDoc_noRenderPanic o h]

/-- an error of the parse phases is the outcome for every option set -/
theorem convertWith_of_err (o : ROpts) {guard : Bool} {uc : List (Nat × (Bool × Bool))} {src : Bytes} {e : Err}
    (h : parseDoc guard uc src = .error e) : convertWith guard uc o src = .error e := by
  unfold convertWith
  simp only [bind, Except.bind, h]

/-- an HTML answer comes from a tree of the parse phases -/
theorem convertWith_ok {o : ROpts} {guard : Bool} {uc : List (Nat × (Bool × Bool))} {src : Bytes} {html : Bytes}
    (h : convertWith guard uc o src = .ok html) :
    ∃ t, parseDoc guard uc src = .ok t ∧ html = render o.rcfg t := by
  cases hp : parseDoc guard uc src with
  | error e => rw [convertWith_of_err o hp] at h; cases h
  | ok t => rw [convertWith_of_tree o hp] at h; cases h; exact ⟨t, rfl, rfl⟩

/-- the outcome `render k` never occurs -/
theorem convertWith_not_render (o : ROpts) (guard : Bool) (uc : List (Nat × (Bool × Bool))) (src : Bytes) (k : PanicKind) :
    convertWith guard uc o src ≠ .error (.render k) := by
  intro h
  cases hp : parseDoc guard uc src with
  | error e =>
    rw [convertWith_of_err o hp] at h
    cases h
    have := parseDoc_err_not_render hp
    simp [Err.isRender] at this
  | ok t => rw [convertWith_of_tree o hp] at h; cases h

end GM.E2E
