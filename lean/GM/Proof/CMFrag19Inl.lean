/-
  GM.Proof.CMFrag19Inl — stage 19: the inline phase on a paragraph of rich lines with raw inline HTML tags `<n>`, `</n>`.
  In the table entry of `<` the autolink parser declines a tag (no `@`, no `:`), the raw-HTML parser takes it: its tag
  matcher reads the rest of the block as a rune stream (termination from `InlinesTotal.runeStream_post`, the content
  from the ASCII bytes of the tag); text + tag = one pass through `retry:`; lines, paragraphs, `parseBlock_rich19`,
  `inlineTrees_rich19`.
-/
import GM.Proof.CMFrag19Defs
import GM.Proof.CMFrag16Inl
import GM.Proof.InlinesTotal

namespace GM.Proof.CMFrag
open GM GM.Text GM.Inl
open GM.Spec (BCur WFSegs WFSegsFrom)
open GM.Proof.Reader (segFacts)
open GM.Proof.InlinesReader (RS rdFuel_gt)
open GM.Proof.InlinesTotal (runeStream_post)

/-- whatever `runeStream` answers starts with what it had collected -/
theorem runeStream_acc19 : ∀ (fuel : Nat) (rd : BlockReader) (acc st : Bytes),
    runeStream fuel rd acc = .ok st → ∃ y, st = acc.reverse ++ y
  | 0, _, _, _, h => by simp [runeStream] at h
  | fuel + 1, rd, acc, st, h => by
    rw [runeStream] at h
    simp only [bind, Except.bind] at h
    split at h
    · cases h
    · rename_i v hv
      split at h
      · simp only [pure, Except.pure] at h
        cases h; exact ⟨[], by simp⟩
      · rename_i l _
        split at h
        · simp only [pure, Except.pure] at h
          cases h; exact ⟨[], by simp⟩
        · split at h
          · cases h
          · rename_i rd' _
            obtain ⟨y, hy⟩ := runeStream_acc19 fuel rd' _ st h
            exact ⟨l.take (decodeRune l).2 ++ y, by rw [hy]; simp⟩

/-- ASCII bytes inside a line go into the stream one by one -/
theorem runeStream_ascii19 (src : Bytes) (segs : List Segment) (L j hd : Int) (e : Int) (tail : Bytes)
    (hj : j < segs.length) (htail : tail ≠ []) :
    ∀ (x : Bytes) (a : Nat) (f : Nat) (acc : Bytes), (∀ c ∈ x, c < 128) → At16 src L a e (x ++ tail) →
      runeStream (f + x.length) (rdAt src segs L j { start := a, stop := e } hd) acc =
        runeStream f (rdAt src segs L j { start := ((a + x.length : Nat) : Int), stop := e } hd) (x.reverse ++ acc)
  | [], a, f, acc, _, _ => by simp
  | c :: x, a, f, acc, hx, h => by
    have htl : 0 < tail.length := List.length_pos_iff.mpr htail
    have hc : c < 128 := hx c (by simp)
    have hne : ((decodeRune (c :: (x ++ tail))).1 == runeError) = false := by
      have : c.toNat < 128 := hc
      simp only [decodeRune, show (c < 0x80) = True from eq_true hc, if_true, runeError]
      rw [beq_eq_false_iff_ne]; omega
    have hsz : (decodeRune (c :: (x ++ tail))).2 = 1 := by
      simp only [decodeRune, show (c < 0x80) = True from eq_true hc, if_true]
    rw [show f + (c :: x).length = (f + x.length) + 1 by simp only [List.length_cons]; omega, runeStream]
    simp only [bind, Except.bind, peekLine_at16 src segs L j hd a e c (x ++ tail) h hj, hne, Bool.false_eq_true, if_false,
      hsz]
    rw [advance_at16 src segs L j hd a e _ h 1 (by simp; omega)]
    have ih := runeStream_ascii19 src segs L j hd e tail hj htail x (a + 1) f ([c] ++ acc)
      (fun y hy => hx y (by simp [hy])) (h.drop [c] _)
    simp only [List.take_succ_cons, List.take_zero, List.reverse_cons, List.reverse_nil, List.nil_append]
    rw [ih]
    simp only [List.length_cons, List.reverse_cons, List.append_assoc, List.singleton_append]
    congr 3; omega


/-! ### the tag matchers on `<n>…` and `</n>…` -/

set_option maxRecDepth 1000000 in
theorem alnum_facts19 : ∀ c : UInt8, GM.Spec.CM.isAlnumC c = true →
    isAlnum c = true ∧ isTagNameChar c = true ∧ c < 128 ∧ (emailTbl c % 2 == 1) = true ∧
      (urlTbl c / 4 % 2 == 1) = true := by
  apply forall_uint8_11
  decide

set_option maxRecDepth 1000000 in
theorem letter_facts19 : ∀ c : UInt8, GM.Spec.CM.isLetter c = true → isAlpha c = true := by
  apply forall_uint8_11
  decide

theorem dropWhile_run19 (p : UInt8 → Bool) (x : UInt8) (t : Bytes) (hx : p x = false) :
    ∀ (l : Bytes), (∀ c ∈ l, p c = true) → (l ++ x :: t).dropWhile p = x :: t
  | [], _ => by simp [List.dropWhile, hx]
  | c :: l, h => by
    simp only [List.cons_append, List.dropWhile, h c (by simp)]
    exact dropWhile_run19 p x t hx l (fun y hy => h y (by simp [hy]))

theorem tagAttrs_gt19 (y : Bytes) : tagAttrs (62 :: y) = some y := by
  unfold tagAttrs
  have h : spanB isTagWS (62 :: y) = ([], 62 :: y) := by
    simp [spanB, show isTagWS 62 = false by decide]
  split
  · rename_i hr; rw [h] at hr; simp at hr
  · rename_i c r' hr
    rw [h] at hr
    simp only [List.cons.injEq] at hr
    obtain ⟨rfl, rfl⟩ := hr
    simp [h, show isAttrNameStart 62 = false by decide, spOK]

theorem matchOpenTag19 (c : UInt8) (n' y : Bytes) (hc : GM.Spec.CM.isLetter c = true)
    (hn : ∀ x ∈ n', GM.Spec.CM.isAlnumC x = true) :
    matchOpenTag (60 :: c :: (n' ++ 62 :: y)) = some (n'.length + 3) := by
  have hd := dropWhile_run19 isTagNameChar 62 y (by decide) n' (fun x hx => (alnum_facts19 x (hn x hx)).2.1)
  simp only [matchOpenTag, letter_facts19 c hc, if_true, hd, tagAttrs_gt19]
  simp only [List.length_cons, List.length_append]
  congr 1; omega

theorem matchCloseTag19 (c : UInt8) (n' y : Bytes) (hc : GM.Spec.CM.isLetter c = true)
    (hn : ∀ x ∈ n', GM.Spec.CM.isAlnumC x = true) :
    matchCloseTag (60 :: 47 :: c :: (n' ++ 62 :: y)) = some (n'.length + 4) := by
  have hd := dropWhile_run19 isTagNameChar 62 y (by decide) n' (fun x hx => (alnum_facts19 x (hn x hx)).2.1)
  have h : spanB isTagWS (62 :: y) = ([], 62 :: y) := by
    simp [spanB, show isTagWS 62 = false by decide]
  simp only [matchCloseTag, letter_facts19 c hc, if_true, hd, h, spOK]
  simp only [List.length_cons, List.length_append]
  congr 1; omega


/-! ### the reader inside line `j` as the abstraction of `InlinesReader` sees it -/

theorem rs_at19 (src : Bytes) (segs : List Segment) (L : Int) (j a : Nat) (e hd : Int)
    (hLs : L = BCur.lastStop segs) (hseg : segs[j]? = some { start := hd, stop := e }) (hhd : hd ≤ a) (hae : (a : Int) < e) :
    RS src segs (rdAt src segs L j { start := a, stop := e } hd) { ln := j, p := a, pad := 0 } := by
  have hjl : j < segs.length := (List.getElem?_eq_some_iff.mp hseg).1
  have hk : ((j : Nat) : Int) < BCur.k segs := by simp only [BCur.k]; omega
  have hso : BCur.segOf segs (j : Int) = { start := hd, stop := e } := by
    simp [BCur.segOf, hseg]
  refine ⟨⟨rfl, rfl, rfl, rfl, ?_, hLs, ?_, Or.inl (by simp [rdAt]), ⟨by simp, by simp, ?_, ?_⟩⟩, rfl⟩
  · simp [rdAt, BCur.stopOf, hk, hso]
  · intro _; simp [rdAt, hso]
  · intro _; simp only [hso]; exact ⟨hhd, Or.inl hae⟩
  · intro h; simp only at h; omega

theorem setPosition_at19 (src : Bytes) (segs : List Segment) (L : Int) (j : Nat) (pos : Segment) (a e hd hd' : Int)
    (hseg : segs[j]? = some { start := hd, stop := e }) (h0 : 0 ≤ a) :
    (rdAt src segs L j pos hd').setPosition j { start := a, stop := e } =
      .ok (rdAt src segs L j { start := a, stop := e } hd) := by
  have hjl : j < segs.length := (List.getElem?_eq_some_iff.mp hseg).1
  have h1 : (a == -1) = false := by rw [beq_eq_false_iff_ne]; omega
  have h2 : ((j : Nat) : Int) < (segs.length : Int) := by omega
  unfold BlockReader.setPosition
  simp only [rdAt, h1, Bool.false_eq_true, if_false, h2, if_true, segAt, show ¬ ((j : Int) < 0) by omega,
    Int.toNat_natCast, hseg, bind, Except.bind, pure, Except.pure]

/-- the tag parser of the raw-HTML parser on a tag of ASCII bytes that `matcher` accepts whatever follows -/
theorem parseTag19 (src : Bytes) (segs : List Segment) (L : Int) (j a : Nat) (e hd : Int) (tag tail : Bytes)
    (matcher : Bytes → Option Nat)
    (W : WFSegs src segs) (Z : ∀ s ∈ segs, s.padding = 0) (hLs : L = BCur.lastStop segs)
    (hseg : segs[j]? = some { start := hd, stop := e }) (hhd : hd ≤ a)
    (h : At16 src L a e (tag ++ tail)) (htag : tag ≠ []) (htail : tail ≠ []) (hasc : ∀ c ∈ tag, c < 128)
    (hm : ∀ y, matcher (tag ++ y) = some tag.length) :
    parseTag matcher (rdAt src segs L j { start := a, stop := e } hd) =
      .ok (some (.rawHTML [{ start := a, stop := ((a + tag.length : Nat) : Int) }]),
        rdAt src segs L j { start := ((a + tag.length : Nat) : Int), stop := e } hd) := by
  have hjl : j < segs.length := (List.getElem?_eq_some_iff.mp hseg).1
  have hj : ((j : Nat) : Int) < segs.length := by omega
  have htl : 0 < tail.length := List.length_pos_iff.mpr htail
  have htg : 0 < tag.length := List.length_pos_iff.mpr htag
  obtain ⟨h1, h2, h3, h4⟩ := h
  have h := (⟨h1, h2, h3, h4⟩ : At16 src L a e (tag ++ tail))
  simp only [List.length_append] at h2 h3
  have hrs := rs_at19 src segs L j a e hd hLs hseg hhd (by omega)
  obtain ⟨st, hst, _⟩ := runeStream_post (segFacts W) Z (rdFuel (rdAt src segs L j { start := a, stop := e } hd)) (acc := [])
    hrs (rdFuel_gt W Z hrs)
  have hfuel : rdFuel (rdAt src segs L j { start := a, stop := e } hd) =
      (rdFuel (rdAt src segs L j { start := a, stop := e } hd) - tag.length) + tag.length := by
    have : tag.length ≤ rdFuel (rdAt src segs L j { start := a, stop := e } hd) := by
      unfold rdFuel loopFuel; simp only [rdAt]; omega
    omega
  have hst2 := hst
  rw [hfuel, runeStream_ascii19 src segs L j hd e tail hj htail tag a _ [] hasc h] at hst2
  obtain ⟨y, hy⟩ := runeStream_acc19 _ _ _ _ hst2
  simp only [List.append_nil, List.reverse_reverse] at hy
  obtain ⟨t0, tag', htt⟩ : ∃ t0 tag', tag = t0 :: tag' := by
    cases tag with
    | nil => exact absurd rfl htag
    | cons x xs => exact ⟨x, xs, rfl⟩
  have hp := peekLine_at16 src segs L j hd a e t0 (tag' ++ tail) (by rw [← List.cons_append, ← htt]; exact h) hj
  unfold parseTag
  simp only [BlockReader.position, bind, Except.bind, hst, hy, hm y]
  simp only [show (rdAt src segs L j { start := (a : Int), stop := e } hd).line = (j : Int) from rfl,
    show (rdAt src segs L j { start := (a : Int), stop := e } hd).pos = { start := (a : Int), stop := e } from rfl,
    setPosition_at19 src segs L j _ a e hd hd hseg (by omega),
    advance_at16 src segs L j hd a e _ h tag.length (by simp; omega)]
  simp only [show (rdAt src segs L j { start := ((a + tag.length : Nat) : Int), stop := e } hd).line = (j : Int) from rfl,
    show (rdAt src segs L j { start := ((a + tag.length : Nat) : Int), stop := e } hd).pos =
      { start := ((a + tag.length : Nat) : Int), stop := e } from rfl]
  rw [show (rdAt src segs L j { start := (a : Int), stop := e } hd).segments.length + 2 = (segs.length + 1) + 1 from rfl,
    rhSegments]
  simp only [bind, Except.bind, hp, BlockReader.position,
    show (rdAt src segs L j { start := (a : Int), stop := e } hd).line = (j : Int) from rfl, beq_self_eq_true, if_true,
    List.nil_append]
  have hadv : ((a + tag.length : Nat) : Int) - (a : Int) = ((tag.length : Nat) : Int) := by omega
  rw [hadv, advance_at16 src segs L j hd a e _ h tag.length (by simp; omega)]
  rfl


/-! ### the autolink parser declines a tag -/

theorem takeWhile_run19 (p : UInt8 → Bool) (x : UInt8) (t : Bytes) (hx : p x = false) :
    ∀ (l : Bytes), (∀ c ∈ l, p c = true) → (l ++ x :: t).takeWhile p = l
  | [], _ => by simp [hx]
  | c :: l, h => by
    simp only [List.cons_append, List.takeWhile, h c (by simp)]
    rw [takeWhile_run19 p x t hx l (fun y hy => h y (by simp [hy]))]

theorem findEmailIndex_gt19 (x rest : Bytes) (hx0 : x ≠ []) (hx : ∀ c ∈ x, (emailTbl c % 2 == 1) = true) :
    findEmailIndex (x ++ 62 :: rest) = -1 := by
  have htw := takeWhile_run19 (fun c => emailTbl c % 2 == 1) 62 rest (by decide) x hx
  have hl : 0 < x.length := List.length_pos_iff.mpr hx0
  unfold findEmailIndex
  simp only [htw]
  have h1 : (x.length == 0) = false := by rw [beq_eq_false_iff_ne]; omega
  simp [h1]

theorem findURLIndex_gt19 (c : UInt8) (n' rest : Bytes) (hn : ∀ x ∈ n', (urlTbl x / 4 % 2 == 1) = true) :
    findURLIndex (c :: (n' ++ 62 :: rest)) = -1 := by
  have htw := takeWhile_run19 (fun c => urlTbl c / 4 % 2 == 1) 62 rest (by decide) n' hn
  unfold findURLIndex
  simp only [htw]
  split
  · rfl
  · split
    · rfl
    · have e4 : (c :: (n' ++ 62 :: rest))[1 + n'.length]? = some 62 := by
        rw [Nat.add_comm, List.getElem?_cons_succ]; simp
      simp [e4]

theorem parseAutoLink_tag19 (src : Bytes) (segs : List Segment) (L j hd : Int) (a : Nat) (e : Int) (b : Bytes)
    (h : At16 src L a e (60 :: b)) (hj : j < segs.length)
    (he : findEmailIndex b = -1) (hu : findURLIndex b = -1) :
    parseAutoLink (rdAt src segs L j { start := a, stop := e } hd) =
      .ok (none, rdAt src segs L j { start := a, stop := e } hd) := by
  unfold parseAutoLink
  simp only [bind, Except.bind, peekLine_at16 src segs L j hd a e 60 _ h hj, Option.getD_some, List.isEmpty_cons,
    Bool.false_eq_true, if_false, List.drop_succ_cons, List.drop_zero, he, hu,
    show ((-1 : Int) < 0) = True by decide, if_true]
  rfl


/-! ### the table entry of `<` on a tag: the autolink parser declines, the raw-HTML parser takes the tag -/

/-- the bytes of a tag atom -/
def IsTag19 (tag : Bytes) : Prop :=
  ∃ c n', GM.Spec.CM.isLetter c = true ∧ (∀ x ∈ n', GM.Spec.CM.isAlnumC x = true) ∧
    (tag = 60 :: c :: (n' ++ [62]) ∨ tag = 60 :: 47 :: c :: (n' ++ [62]))

theorem isTag_ascii19 {tag : Bytes} (h : IsTag19 tag) : tag ≠ [] ∧ ∀ x ∈ tag, x < 128 := by
  obtain ⟨c, n', hc, hn, ht⟩ := h
  have hcA : GM.Spec.CM.isAlnumC c = true := by simp [GM.Spec.CM.isAlnumC, hc]
  have hc128 := (alnum_facts19 c hcA).2.2.1
  rcases ht with rfl | rfl
  · refine ⟨by simp, ?_⟩
    intro x hx
    simp only [List.mem_cons, List.mem_append, List.not_mem_nil, or_false] at hx
    rcases hx with rfl | rfl | hx | rfl
    · decide
    · exact hc128
    · exact (alnum_facts19 x (hn x hx)).2.2.1
    · decide
  · refine ⟨by simp, ?_⟩
    intro x hx
    simp only [List.mem_cons, List.mem_append, List.not_mem_nil, or_false] at hx
    rcases hx with rfl | rfl | rfl | hx | rfl
    · decide
    · decide
    · exact hc128
    · exact (alnum_facts19 x (hn x hx)).2.2.1
    · decide

theorem tag_parsers19 (env : Env) (src : Bytes) (segs : List Segment) (L : Int) (j a : Nat) (e hd : Int)
    (tag tail : Bytes) (ks : List Inl.Node) (nid : Nat) (bts : List Bottom)
    (W : WFSegs src segs) (Z : ∀ s ∈ segs, s.padding = 0) (hLs : L = BCur.lastStop segs)
    (hseg : segs[j]? = some { start := hd, stop := e }) (hhd : hd ≤ a)
    (h : At16 src L a e (tag ++ tail)) (htag : IsTag19 tag) (htail : tail ≠ []) :
    tryParsers env j { start := a, stop := e } [.autoLink, .rawHTML]
      { rd := rdAt src segs L j { start := a, stop := e } hd, kids := ks, nextId := nid, bottoms := bts } =
    .ok (some (.rawHTML [{ start := a, stop := ((a + tag.length : Nat) : Int) }]),
      { rd := rdAt src segs L j { start := ((a + tag.length : Nat) : Int), stop := e } hd, kids := ks, nextId := nid,
        bottoms := bts }) := by
  have hjl : j < segs.length := (List.getElem?_eq_some_iff.mp hseg).1
  have hj : ((j : Nat) : Int) < segs.length := by omega
  obtain ⟨htne, hasc⟩ := isTag_ascii19 htag
  obtain ⟨c, n', hc, hn, ht⟩ := htag
  have hcA : GM.Spec.CM.isAlnumC c = true := by simp [GM.Spec.CM.isAlnumC, hc]
  obtain ⟨hc1, _, _, hce, hcu⟩ := alnum_facts19 c hcA
  rcases ht with rfl | rfl
  · -- open tag
    have hline : (60 :: c :: (n' ++ [62])) ++ tail = 60 :: ((c :: n') ++ 62 :: tail) := by simp
    have hat : At16 src L a e (60 :: ((c :: n') ++ 62 :: tail)) := by rw [← hline]; exact h
    have hauto := parseAutoLink_tag19 src segs L j hd a e _ hat hj
      (findEmailIndex_gt19 (c :: n') tail (by simp) (by
        intro x hx; rcases List.mem_cons.mp hx with rfl | hx
        · exact hce
        · exact (alnum_facts19 x (hn x hx)).2.2.2.1))
      (findURLIndex_gt19 c n' tail (fun x hx => (alnum_facts19 x (hn x hx)).2.2.2.2))
    have hraw : parseRawHTML (rdAt src segs L j { start := a, stop := e } hd) =
        parseTag matchOpenTag (rdAt src segs L j { start := a, stop := e } hd) := by
      unfold parseRawHTML
      simp only [bind, Except.bind, peekLine_at16 src segs L j hd a e 60 _ hat hj, Option.getD_some]
      simp [hc1]
    have hpt := parseTag19 src segs L j a e hd (60 :: c :: (n' ++ [62])) tail matchOpenTag W Z hLs hseg hhd h htne htail
      hasc (by
        intro y
        have := matchOpenTag19 c n' y hc hn
        simp only [List.cons_append, List.append_assoc, List.nil_append, List.length_cons,
          List.length_append, List.length_nil, this])
    simp only [tryParsers, Ip.parse, liftR, bind, Except.bind, hauto,
      show (rdAt src segs L j { start := (a : Int), stop := e } hd).setPosition j { start := a, stop := e } =
        .ok (rdAt src segs L j { start := a, stop := e } hd) from setPosition_at19 src segs L j _ a e hd hd hseg (by omega),
      hraw, hpt, pure, Except.pure]
  · -- closing tag
    have hline : (60 :: 47 :: c :: (n' ++ [62])) ++ tail = 60 :: ((47 :: c :: n') ++ 62 :: tail) := by simp
    have hat : At16 src L a e (60 :: ((47 :: c :: n') ++ 62 :: tail)) := by rw [← hline]; exact h
    have hauto := parseAutoLink_tag19 src segs L j hd a e _ hat hj
      (findEmailIndex_gt19 (47 :: c :: n') tail (by simp) (by
        intro x hx
        simp only [List.mem_cons] at hx
        rcases hx with rfl | rfl | hx
        · decide
        · exact hce
        · exact (alnum_facts19 x (hn x hx)).2.2.2.1))
      (by unfold findURLIndex; simp [show (urlTbl 47 % 8 != 7) = true by decide])
    have hraw : parseRawHTML (rdAt src segs L j { start := a, stop := e } hd) =
        parseTag matchCloseTag (rdAt src segs L j { start := a, stop := e } hd) := by
      unfold parseRawHTML
      simp only [bind, Except.bind, peekLine_at16 src segs L j hd a e 60 _ hat hj, Option.getD_some]
      simp [hc1, show isAlnum 47 = false by decide]
    have hpt := parseTag19 src segs L j a e hd (60 :: 47 :: c :: (n' ++ [62])) tail matchCloseTag W Z hLs hseg hhd h htne
      htail hasc (by
        intro y
        have := matchCloseTag19 c n' y hc hn
        simp only [List.cons_append, List.append_assoc, List.nil_append, List.length_cons,
          List.length_append, List.length_nil, this])
    simp only [tryParsers, Ip.parse, liftR, bind, Except.bind, hauto,
      show (rdAt src segs L j { start := (a : Int), stop := e } hd).setPosition j { start := a, stop := e } =
        .ok (rdAt src segs L j { start := a, stop := e } hd) from setPosition_at19 src segs L j _ a e hd hd hseg (by omega),
      hraw, hpt, pure, Except.pure]


theorem noMerge_raw19 (ks : List Inl.Node) (sg : List Segment) : NoMerge8 (ks ++ [.rawHTML sg]) := by
  intro seg' h r; simp

theorem scan_tag19 (env : Env) (henv : env.escapedSpace = false) (src : Bytes) (segs : List Segment) (L : Int) (j : Nat)
    (hd : Int) (q : Nat) (bs tag rest : Bytes) (e : Int) (ks : List Inl.Node) (nid : Nat) (bts : List Bottom)
    (W : WFSegs src segs) (Z : ∀ s ∈ segs, s.padding = 0) (hLs : L = BCur.lastStop segs)
    (hseg : segs[j]? = some { start := hd, stop := e }) (hhd : hd ≤ q)
    (h : At16 src L q e (bs ++ (tag ++ rest)))
    (hbs : bs ≠ []) (hq : quiet bs 0 false = true) (hesc : escAfter bs false = false)
    (htag : IsTag19 tag) (hrest : rest ≠ []) (hnm : NoMerge8 ks) :
    scan env (bs ++ (tag ++ rest)) 0
      { st := { rd := rdAt src segs L j { start := q, stop := e } hd, kids := ks, nextId := nid, bottoms := bts },
        n := 0, sp := { start := q, stop := e }, escaped := false } =
    .ok (.hit { rd := rdAt src segs L j { start := ((q + bs.length + tag.length : Nat) : Int), stop := e } hd,
                kids := ks ++ [.text { start := q, stop := ((q + bs.length : Nat) : Int) } false false false,
                  .rawHTML [{ start := ((q + bs.length : Nat) : Int), stop := ((q + bs.length + tag.length : Nat) : Int) }]],
                nextId := nid, bottoms := bts } false) := by
  have hbl : 0 < bs.length := List.length_pos_iff.mpr hbs
  have hpars := tag_parsers19 env src segs L j (q + bs.length) e hd tag rest
    (ks ++ [.text { start := q, stop := ((q + bs.length : Nat) : Int) } false false false]) nid bts W Z hLs hseg
    (by omega) (h.drop bs _) htag hrest
  obtain ⟨tag', htt⟩ : ∃ tag', tag = 60 :: tag' := by
    obtain ⟨c, n', _, _, ht⟩ := htag
    rcases ht with rfl | rfl
    · exact ⟨_, rfl⟩
    · exact ⟨_, rfl⟩
  subst htt
  rw [scan_pre8 env henv bs _ 0 _ hq]
  simp only [hesc, Nat.zero_add, Int.zero_add]
  have hT : isTrigger env 60 bs.length false = true := by
    simp [isTrigger]; left; left; decide
  have hP : parserChar 60 bs.length = 60 := by
    have h1 : isSpace 60 = false := by decide
    have h2 : isPunct 60 = true := by decide
    simp [parserChar, h1, h2]
  have hF : parsersFor 60 = [.autoLink, .rawHTML] := by decide
  have h10 : ((60 : UInt8) == 10) = false := by decide
  rw [List.cons_append, scan]
  simp only [h10, Bool.false_eq_true, if_false, hT, hP, hF]
  simp only [List.isEmpty_cons, Bool.not_false, Bool.and_self, if_true]
  unfold trigger
  simp only [bind, Except.bind]
  rw [advance_at16 src segs L j hd q e _ h bs.length (by simp only [List.length_append, List.length_cons]; omega)]
  have hne0 : (bs.length != 0) = true := by simp; omega
  simp only [hne0, if_true, BlockReader.position, Segment.between,
    Except.map, mergeOrAppend_nomerge8 ks _ hnm, bind, Except.bind]
  simp only [show (rdAt src segs L j { start := ((q + bs.length : Nat) : Int), stop := e } hd).pos =
    { start := ((q + bs.length : Nat) : Int), stop := e } from rfl,
    show (rdAt src segs L j { start := ((q + bs.length : Nat) : Int), stop := e } hd).line = (j : Int) from rfl,
    bne_self_eq_false, Bool.false_eq_true, if_false, textOf, Int.sub_self]
  simp only [hpars, pure, Except.pure]
  simp

/-- one text atom and the tag behind it: one pass -/
theorem tag_step19 (env : Env) (henv : env.escapedSpace = false) (src : Bytes) (segs : List Segment) (L : Int) (j : Nat)
    (hd : Int) (q : Nat) (bs tag rest : Bytes) (e : Int) (ks : List Inl.Node) (nid : Nat) (bts : List Bottom) (fuel : Nat)
    (W : WFSegs src segs) (Z : ∀ s ∈ segs, s.padding = 0) (hLs : L = BCur.lastStop segs)
    (hseg : segs[j]? = some { start := hd, stop := e }) (hhd : hd ≤ q)
    (h : At16 src L q e (bs ++ (tag ++ rest))) (hend : EndOK11 rest)
    (hbs : bs ≠ []) (hq : quiet bs 0 false = true) (hesc : escAfter bs false = false)
    (htag : IsTag19 tag) (hrest : rest ≠ []) (hnm : NoMerge8 ks) :
    lineLoop env (fuel + 1) false
      { rd := rdAt src segs L j { start := q, stop := e } hd, kids := ks, nextId := nid, bottoms := bts } =
    lineLoop env fuel false
      { rd := rdAt src segs L j { start := ((q + bs.length + tag.length : Nat) : Int), stop := e } hd,
        kids := ks ++ [.text { start := q, stop := ((q + bs.length : Nat) : Int) } false false false,
          .rawHTML [{ start := ((q + bs.length : Nat) : Int), stop := ((q + bs.length + tag.length : Nat) : Int) }]],
        nextId := nid, bottoms := bts } := by
  have hjl : j < segs.length := (List.getElem?_eq_some_iff.mp hseg).1
  have hj : ((j : Nat) : Int) < segs.length := by omega
  obtain ⟨b0, bs', hbb⟩ : ∃ b0 bs', bs = b0 :: bs' := by
    cases bs with
    | nil => exact absurd rfl hbs
    | cons x xs => exact ⟨x, xs, rfl⟩
  have hp := peekLine_at16 src segs L j hd q e b0 (bs' ++ (tag ++ rest))
    (by rw [← List.cons_append, ← hbb]; exact h) hj
  rw [← List.cons_append, ← hbb] at hp
  refine lineLoop_hit8 env fuel false false _ _ _ _ hp ?_ ?_
  · rw [hbb]; rfl
  · have hcl := endOK_app11 tag rest hend bs
    rw [hcl, List.take_length]
    exact scan_tag19 env henv src segs L j hd q bs tag rest e ks nid bts W Z hLs hseg hhd h hbs hq hesc htag hrest hnm


/-! ### the children of a paragraph of rich lines -/

/-- the children one line gives, the line's atoms from byte `q` on; `soft`: the line is not the last one -/
def atomKids19 (soft : Bool) : Nat → List HAtom → List Inl.Node
  | _, [] => []
  | q, [.txt bs] => [.text { start := q, stop := ((q + bs.length : Nat) : Int) } soft false false]
  | q, .txt bs :: rest =>
    .text { start := q, stop := ((q + bs.length : Nat) : Int) } false false false :: atomKids19 soft (q + bs.length) rest
  | q, a :: rest =>
    .rawHTML [{ start := q, stop := ((q + (hatomSrc a).length : Nat) : Int) }] ::
      atomKids19 soft (q + (hatomSrc a).length) rest

/-- the inline children `parseBlock` gives a paragraph of rich lines that starts at byte `p` -/
def richKids19 : Nat → List (List HAtom) → List Inl.Node
  | _, [] => []
  | p, [l] => atomKids19 false p l
  | p, l :: l' :: rest => atomKids19 true p l ++ richKids19 (p + (hlineSrc19 l).length + 1) (l' :: rest)

/-- passes through `retry:` a line takes: one per text atom -/
def passes19 : List HAtom → Nat
  | [] => 0
  | .txt _ :: rest => passes19 rest + 1
  | _ :: rest => passes19 rest

/-- the shape of (the rest of) a rich line as the byte loop sees it -/
inductive HT19 : List HAtom → Prop
  | last (bs l0 : Bytes) (c : UInt8) : bs = l0 ++ [c] → isSpace c = false → c ≠ 92 → quiet bs 0 false = true →
      HT19 [.txt bs]
  | cons (bs : Bytes) (a : HAtom) (rest : List HAtom) : bs ≠ [] → quiet bs 0 false = true →
      escAfter bs false = false → a.isTxt19 = false → IsTag19 (hatomSrc a) → HT19 rest → HT19 (.txt bs :: a :: rest)

theorem hlineSrc_single19 (bs : Bytes) : hlineSrc19 [.txt bs] = bs := by simp [hlineSrc19, hatomSrc]

theorem hlineSrc_cons19 (bs : Bytes) (a : HAtom) (rest : List HAtom) :
    hlineSrc19 (.txt bs :: a :: rest) = bs ++ (hatomSrc a ++ hlineSrc19 rest) := by
  simp [hlineSrc19, hatomSrc]

theorem ht_ne19 {as : List HAtom} (h : HT19 as) : hlineSrc19 as ≠ [] := by
  cases h with
  | last bs l0 c hl _ _ _ => rw [hlineSrc_single19, hl]; simp
  | cons bs a rest hbs _ _ _ _ _ =>
    rw [hlineSrc_cons19]
    cases bs with
    | nil => exact absurd rfl hbs
    | cons x xs => simp

theorem ht_concat19 {as : List HAtom} (h : HT19 as) :
    ∃ l0 c, hlineSrc19 as = l0 ++ [c] ∧ isSpace c = false ∧ c ≠ 92 := by
  induction h with
  | last bs l0 c hl hs hb hq => exact ⟨l0, c, by rw [hlineSrc_single19, hl], hs, hb⟩
  | cons bs a rest _ _ _ _ _ _ ih =>
    obtain ⟨l0, c, hl, hs, hb⟩ := ih
    exact ⟨bs ++ (hatomSrc a ++ l0), c, by rw [hlineSrc_cons19, hl]; simp, hs, hb⟩

theorem atomKids_tag19 (soft : Bool) (q : Nat) (a : HAtom) (rest : List HAtom) (ha : a.isTxt19 = false) :
    atomKids19 soft q (a :: rest) =
      .rawHTML [{ start := q, stop := ((q + (hatomSrc a).length : Nat) : Int) }] ::
        atomKids19 soft (q + (hatomSrc a).length) rest := by
  cases a with
  | txt bs => simp [HAtom.isTxt19] at ha
  | «open» n => simp [atomKids19]
  | close n => simp [atomKids19]

theorem atomKids_cons19 (soft : Bool) (q : Nat) (bs : Bytes) (a : HAtom) (rest : List HAtom)
    (ha : a.isTxt19 = false) :
    atomKids19 soft q (.txt bs :: a :: rest) =
      [.text { start := q, stop := ((q + bs.length : Nat) : Int) } false false false,
        .rawHTML [{ start := ((q + bs.length : Nat) : Int), stop := ((q + bs.length + (hatomSrc a).length : Nat) : Int) }]] ++
      atomKids19 soft (q + bs.length + (hatomSrc a).length) rest := by
  rw [show atomKids19 soft q (.txt bs :: a :: rest) =
    .text { start := q, stop := ((q + bs.length : Nat) : Int) } false false false ::
      atomKids19 soft (q + bs.length) (a :: rest) by simp [atomKids19], atomKids_tag19 soft _ a rest ha]
  simp

theorem noMerge_atoms19 {as : List HAtom} (h : HT19 as) : ∀ (ks : List Inl.Node) (q : Nat),
    NoMerge8 (ks ++ atomKids19 true q as) := by
  induction h with
  | last bs l0 c hl hs hb hq => intro ks q; exact noMerge_soft8 ks _ _ _
  | cons bs a rest _ _ _ ha _ _ ih =>
    intro ks q
    rw [atomKids_cons19 _ _ _ _ _ ha, ← List.append_assoc]
    exact ih _ _

/-! ### one line -/

theorem atoms_mid19 (env : Env) (henv : env.escapedSpace = false) (src : Bytes) (segs : List Segment) (L hd : Int)
    (j : Nat) (seg' : Segment) (nid : Nat) (bts : List Bottom) (hnext : segs[j + 1]? = some seg')
    (W : WFSegs src segs) (Z : ∀ s ∈ segs, s.padding = 0) (hLs : L = BCur.lastStop segs) (e : Int)
    (hseg : segs[j]? = some { start := hd, stop := e }) :
    ∀ (as : List HAtom), HT19 as → ∀ (q : Nat) (ks : List Inl.Node) (fuel : Nat), hd ≤ q →
      At16 src L q e (hlineSrc19 as ++ [10]) → NoMerge8 ks →
      lineLoop env (fuel + passes19 as) false
        { rd := rdAt src segs L j { start := q, stop := e } hd, kids := ks, nextId := nid, bottoms := bts } =
      lineLoop env fuel false
        { rd := rdAt src segs L (j + 1) seg' seg'.start, kids := ks ++ atomKids19 true q as,
          nextId := nid, bottoms := bts } := by
  intro as h
  induction h with
  | last bs l0 c hl hs hb hq =>
    intro q ks fuel hhd hat hnm
    rw [hlineSrc_single19] at hat
    obtain ⟨h1, h2, h3, h4⟩ := hat
    simp only [List.length_append, List.length_cons, List.length_nil, Nat.zero_add] at h1 h2 h3
    have he : e = (q : Int) + bs.length + 1 := by omega
    subst he
    have := line_step8 env henv src segs L hd j q bs l0 c seg' ks nid bts fuel hl hs hb hq
      (by rw [← h1]; congr 1) (by omega) (by omega) hnext
    simp only [passes19, Nat.zero_add, atomKids19, Int.natCast_add]
    exact this
  | cons bs a rest hbs hq hesc ha htag hrt ih =>
    intro q ks fuel hhd hat hnm
    obtain ⟨l0, c, hl0, hs, hb⟩ := ht_concat19 hrt
    have hat' : At16 src L q e (bs ++ (hatomSrc a ++ (hlineSrc19 rest ++ [10]))) := by
      rw [hlineSrc_cons19] at hat
      simpa using hat
    have hend : EndOK11 (hlineSrc19 rest ++ [10]) := by rw [hl0]; exact endOK_lf11 l0 c hs hb
    have hstep := tag_step19 env henv src segs L j hd q bs (hatomSrc a) (hlineSrc19 rest ++ [10]) e ks nid bts
      (fuel + passes19 rest) W Z hLs hseg hhd hat' hend hbs hq hesc htag (by simp) hnm
    have hih := ih (q + bs.length + (hatomSrc a).length)
      (ks ++ [.text { start := q, stop := ((q + bs.length : Nat) : Int) } false false false,
        .rawHTML [{ start := ((q + bs.length : Nat) : Int), stop := ((q + bs.length + (hatomSrc a).length : Nat) : Int) }]])
      fuel (by omega) ((hat'.drop bs _).drop (hatomSrc a) _)
      (by rw [show ∀ (a b : Inl.Node), ks ++ [a, b] = (ks ++ [a]) ++ [b] by simp]; exact noMerge_raw19 _ _)
    have hp : passes19 (.txt bs :: a :: rest) = passes19 rest + 1 := by
      cases a with
      | txt _ => simp [HAtom.isTxt19] at ha
      | «open» n => simp only [passes19]
      | close n => simp only [passes19]
    rw [hp, show fuel + (passes19 rest + 1) = fuel + passes19 rest + 1 by omega, hstep, hih,
      atomKids_cons19 _ _ _ _ _ ha]
    simp

theorem atoms_last19 (env : Env) (henv : env.escapedSpace = false) (src : Bytes) (segs : List Segment) (hd : Int)
    (j : Nat) (nid : Nat) (bts : List Bottom) (hjl : j + 1 = segs.length) (L : Int)
    (W : WFSegs src segs) (Z : ∀ s ∈ segs, s.padding = 0) (hLs : L = BCur.lastStop segs)
    (hseg : segs[j]? = some { start := hd, stop := L }) :
    ∀ (as : List HAtom), HT19 as → ∀ (q : Nat) (ks : List Inl.Node) (fuel : Nat), hd ≤ q →
      At16 src L q L (hlineSrc19 as) → NoMerge8 ks →
      ∃ rd', lineLoop env (fuel + passes19 as + 1) false
        { rd := rdAt src segs L j { start := q, stop := L } hd, kids := ks, nextId := nid, bottoms := bts } =
      .ok { rd := rd', kids := ks ++ atomKids19 false q as, nextId := nid, bottoms := bts } := by
  intro as h
  induction h with
  | last bs l0 c hl hs hb hq =>
    intro q ks fuel hhd hat hnm
    rw [hlineSrc_single19] at hat
    obtain ⟨h1, h2, h3, h4⟩ := hat
    have he : L = (q : Int) + bs.length := by omega
    have := last_step8 env henv src segs hd j q bs l0 c ks nid bts fuel hl hs hb hq h1 h2 hjl
    rw [← he] at this
    simp only [passes19, Nat.zero_add, atomKids19, Int.natCast_add]
    rw [← he]
    exact ⟨_, this⟩
  | cons bs a rest hbs hq hesc ha htag hrt ih =>
    intro q ks fuel hhd hat hnm
    obtain ⟨l0, c, hl0, hs, hb⟩ := ht_concat19 hrt
    have hat' : At16 src L q L (bs ++ (hatomSrc a ++ hlineSrc19 rest)) := by
      rw [hlineSrc_cons19] at hat
      exact hat
    have hend : EndOK11 (hlineSrc19 rest) := by rw [hl0]; exact endOK_nolf11 l0 c hs
    have hstep := tag_step19 env henv src segs L j hd q bs (hatomSrc a) (hlineSrc19 rest) L ks nid bts
      (fuel + passes19 rest + 1) W Z hLs hseg hhd hat' hend hbs hq hesc htag (ht_ne19 hrt) hnm
    obtain ⟨rd', hih⟩ := ih (q + bs.length + (hatomSrc a).length)
      (ks ++ [.text { start := q, stop := ((q + bs.length : Nat) : Int) } false false false,
        .rawHTML [{ start := ((q + bs.length : Nat) : Int), stop := ((q + bs.length + (hatomSrc a).length : Nat) : Int) }]])
      fuel (by omega) ((hat'.drop bs _).drop (hatomSrc a) _)
      (by rw [show ∀ (a b : Inl.Node), ks ++ [a, b] = (ks ++ [a]) ++ [b] by simp]; exact noMerge_raw19 _ _)
    refine ⟨rd', ?_⟩
    have hp : passes19 (.txt bs :: a :: rest) = passes19 rest + 1 := by
      cases a with
      | txt _ => simp [HAtom.isTxt19] at ha
      | «open» n => simp only [passes19]
      | close n => simp only [passes19]
    rw [hp, show fuel + (passes19 rest + 1) + 1 = fuel + passes19 rest + 1 + 1 by omega, hstep, hih,
      atomKids_cons19 _ _ _ _ _ ha]
    simp


/-! ### the paragraph's line segments are well formed -/

theorem wfFrom_para19 (src : Bytes) : ∀ (ls : List Bytes) (p : Nat) (lo : Int), lo ≤ p → (∀ l ∈ ls, l ≠ []) →
    LinesAtE src p ls → WFSegsFrom src lo (paraSegs p ls)
  | [], _, _, _, _, _ => trivial
  | [l], p, lo, hlo, hne, h => by
    obtain ⟨_, hlen⟩ := h
    have : 0 < l.length := List.length_pos_iff.mpr (hne l (by simp))
    refine ⟨hlo, ?_, ?_, Int.le_refl _, rfl, trivial⟩
    · show (p : Int) < (p : Int) + l.length; omega
    · show (p : Int) + l.length ≤ src.length; omega
  | l :: l' :: rest, p, lo, hlo, hne, h => by
    obtain ⟨_, hlen, h'⟩ := h
    refine ⟨hlo, ?_, ?_, Int.le_refl _, rfl, ?_⟩
    · show (p : Int) < (p : Int) + l.length + 1; omega
    · show (p : Int) + l.length + 1 ≤ src.length; omega
    · exact wfFrom_para19 src (l' :: rest) (p + l.length + 1) _ (by show (p : Int) + l.length + 1 ≤ _; push_cast; omega)
        (fun x hx => hne x (by simp at hx ⊢; right; exact hx)) h'

theorem pad_para19 : ∀ (ls : List Bytes) (p : Nat), ∀ s ∈ paraSegs p ls, s.padding = 0
  | [], _ => by simp [paraSegs]
  | [l], p => by intro s hs; simp [paraSegs] at hs; subst hs; rfl
  | l :: l' :: rest, p => by
    intro s hs
    simp only [paraSegs, List.mem_cons] at hs
    rcases hs with rfl | hs
    · rfl
    · exact pad_para19 (l' :: rest) _ s hs

theorem lastStop_para19 (ls : List Bytes) (p : Nat) (h : ls ≠ []) :
    ((paraEnd p ls : Nat) : Int) = BCur.lastStop (paraSegs p ls) := by
  obtain ⟨s, h1, h2⟩ := paraSegs_last ls p h
  unfold BCur.lastStop
  rw [List.getLast?_eq_getElem?, h1]
  exact h2.symm

/-! ### the whole paragraph -/

def need19 : List (List HAtom) → Nat
  | [] => 1
  | l :: rest => passes19 l + need19 rest

theorem loop_rich19 (env : Env) (henv : env.escapedSpace = false) (src : Bytes) (segs : List Segment) (L : Int)
    (nid : Nat) (bts : List Bottom) (W : WFSegs src segs) (Z : ∀ s ∈ segs, s.padding = 0)
    (hLs : L = BCur.lastStop segs) :
    ∀ (ls : List (List HAtom)) (p : Nat) (done : List Segment) (ks : List Inl.Node) (f : Nat), ls ≠ [] →
      (∀ l ∈ ls, HT19 l) → LinesAtE src p (ls.map hlineSrc19) → segs = done ++ paraSegs p (ls.map hlineSrc19) →
      L = (paraEnd p (ls.map hlineSrc19) : Nat) → NoMerge8 ks →
      ∃ rd', lineLoop env (f + need19 ls) false
        { rd := rdAt src segs L done.length ((paraSegs p (ls.map hlineSrc19)).headD default) p, kids := ks,
          nextId := nid, bottoms := bts } =
        .ok { rd := rd', kids := ks ++ richKids19 p ls, nextId := nid, bottoms := bts }
  | [], _, _, _, _, h, _, _, _, _, _ => absurd rfl h
  | [l], p, done, ks, f, _, hg, hla, hsegs, hL, hnm => by
    obtain ⟨hsub, hlen⟩ := hla
    have hL' : L = (p : Int) + (hlineSrc19 l).length := by simp [hL, paraEnd]
    have hat : At16 src L p L (hlineSrc19 l) := ⟨hsub, hlen, by rw [hL']; push_cast; rfl, Int.le_refl _⟩
    have hseg : segs[done.length]? = some { start := (p : Int), stop := L } := by
      rw [hsegs, hL']; simp [paraSegs]
    obtain ⟨rd', h⟩ := atoms_last19 env henv src segs p done.length nid bts (by simp [hsegs, paraSegs]) L W Z hLs hseg
      l (hg l (by simp)) p ks f (Int.le_refl _) hat hnm
    refine ⟨rd', ?_⟩
    have e1 : (paraSegs p ([l].map hlineSrc19)).headD default = { start := (p : Int), stop := L } := by
      rw [hL']; rfl
    rw [e1]
    have e2 : f + need19 [l] = f + passes19 l + 1 := by simp [need19]; omega
    rw [e2, h]
    rfl
  | l :: l' :: rest, p, done, ks, f, _, hg, hla, hsegs, hL, hnm => by
    obtain ⟨hsub, hlen, hla'⟩ := hla
    have hrt := hg l (by simp)
    have hpL : (p : Int) + (hlineSrc19 l).length + 1 ≤ L := by
      have := paraEnd_ge ((l' :: rest).map hlineSrc19) (p + (hlineSrc19 l).length + 1)
      simp only [List.map_cons, paraEnd] at hL this
      omega
    have hsegs' : segs = (done ++ [{ start := (p : Int), stop := (p : Int) + (hlineSrc19 l).length + 1 }]) ++
        paraSegs (p + (hlineSrc19 l).length + 1) ((l' :: rest).map hlineSrc19) := by
      rw [hsegs]; simp [paraSegs]
    have hnext : segs[done.length + 1]? =
        some ((paraSegs (p + (hlineSrc19 l).length + 1) ((l' :: rest).map hlineSrc19)).headD default) := by
      rw [hsegs']
      rw [List.getElem?_append_right (by simp)]
      simp only [List.length_append, List.length_cons, List.length_nil, Nat.zero_add, Nat.sub_self]
      cases rest <;> rfl
    have hseg : segs[done.length]? = some { start := (p : Int), stop := (p : Int) + (hlineSrc19 l).length + 1 } := by
      rw [hsegs]; simp [paraSegs]
    have hat : At16 src L p ((p : Int) + (hlineSrc19 l).length + 1) (hlineSrc19 l ++ [10]) :=
      ⟨by simpa [Nat.add_assoc] using hsub, by simpa [Nat.add_assoc] using hlen, by simp; omega, hpL⟩
    have hstep := atoms_mid19 env henv src segs L p done.length _ nid bts hnext W Z hLs
      ((p : Int) + (hlineSrc19 l).length + 1) hseg l hrt p ks (f + need19 (l' :: rest)) (Int.le_refl _) hat hnm
    obtain ⟨rd', ih⟩ := loop_rich19 env henv src segs L nid bts W Z hLs (l' :: rest) (p + (hlineSrc19 l).length + 1)
      (done ++ [{ start := (p : Int), stop := (p : Int) + (hlineSrc19 l).length + 1 }])
      (ks ++ atomKids19 true p l) f (by simp)
      (fun x hx => hg x (by simp at hx ⊢; right; exact hx)) hla' hsegs' (by rw [hL]; rfl) (noMerge_atoms19 hrt ks p)
    refine ⟨rd', ?_⟩
    have e1 : (paraSegs p ((l :: l' :: rest).map hlineSrc19)).headD default =
        { start := (p : Int), stop := (p : Int) + (hlineSrc19 l).length + 1 } := rfl
    have e0 : f + need19 (l :: l' :: rest) = f + need19 (l' :: rest) + passes19 l := by
      simp only [need19]; omega
    rw [e1, e0, hstep]
    have e2 : ((done ++ [({ start := (p : Int), stop := (p : Int) + (hlineSrc19 l).length + 1 } : Segment)]).length : Int) =
        (done.length : Int) + 1 := by
      simp
    rw [e2] at ih
    have e3 : ((paraSegs (p + (hlineSrc19 l).length + 1) ((l' :: rest).map hlineSrc19)).headD default).start =
        ((p + (hlineSrc19 l).length + 1 : Nat) : Int) := by
      cases rest <;> rfl
    rw [e3]
    rw [ih]
    simp [richKids19]

/-! ### rich lines have the shape `HT19` -/

theorem isTag_of_ok19 (a : HAtom) (ha : a.isTxt19 = false) (hok : HAtomOK19 a) : IsTag19 (hatomSrc a) := by
  have key : ∀ n, TagNameOK19 n → ∃ c n', n = c :: n' ∧ GM.Spec.CM.isLetter c = true ∧
      ∀ x ∈ n', GM.Spec.CM.isAlnumC x = true := by
    intro n ⟨hne, hh, hal⟩
    cases n with
    | nil => exact absurd rfl hne
    | cons c n' => exact ⟨c, n', rfl, hh c rfl, fun x hx => hal x (by simp [hx])⟩
  cases a with
  | txt _ => simp [HAtom.isTxt19] at ha
  | «open» n =>
    obtain ⟨c, n', rfl, hc, hn⟩ := key n hok
    exact ⟨c, n', hc, hn, Or.inl (by simp [hatomSrc])⟩
  | close n =>
    obtain ⟨c, n', rfl, hc, hn⟩ := key n hok
    exact ⟨c, n', hc, hn, Or.inr (by simp [hatomSrc])⟩

theorem ht_of_rich_aux19 : ∀ (as : List HAtom), halternating19 as = true → (∃ bs rest, as = .txt bs :: rest) →
    (∃ bs, as.getLast? = some (.txt bs) ∧ ∀ c, bs.getLast? = some c → isSpace c = false ∧ c ≠ 92) →
    (∀ a ∈ as, HAtomOK19 a) → HT19 as
  | [], _, hf, _, _ => by obtain ⟨_, _, h⟩ := hf; simp at h
  | [.txt bs], _, _, hl, hok => by
    obtain ⟨bs', hb', hc⟩ := hl
    simp at hb'; subst hb'
    obtain ⟨hne, hq, _⟩ := hok (.txt bs) (by simp)
    rcases List.eq_nil_or_concat bs with h0 | ⟨l0, c, hl⟩
    · exact absurd h0 hne
    · have hl' : bs = l0 ++ [c] := by simpa using hl
      have := hc c (by simp [hl'])
      exact .last bs l0 c hl' this.1 this.2 (hq 0)
  | .txt bs :: a :: rest, ha, _, hl, hok => by
    rw [halternating19, Bool.and_eq_true] at ha
    have hat : a.isTxt19 = false := by
      cases hx : a.isTxt19 with
      | false => rfl
      | true =>
        have := ha.1
        rw [hx] at this
        exact absurd this (by simp [HAtom.isTxt19])
    obtain ⟨hne, hq, he⟩ := hok (.txt bs) (by simp)
    have htag := isTag_of_ok19 a hat (hok a (by simp))
    have halt : halternating19 (a :: rest) = true := ha.2
    cases rest with
    | nil =>
      obtain ⟨x, hx, _⟩ := hl
      simp at hx
      rw [hx] at hat; simp [HAtom.isTxt19] at hat
    | cons b rest' =>
      rw [halternating19, Bool.and_eq_true] at halt
      have hbt : b.isTxt19 = true := by
        have := halt.1
        rw [hat] at this
        cases hb : b.isTxt19 with
        | true => rfl
        | false => rw [hb] at this; simp at this
      cases b with
      | txt b' =>
        refine .cons bs a _ hne (hq 0) he hat htag
          (ht_of_rich_aux19 (.txt b' :: rest') halt.2 ⟨b', rest', rfl⟩ ?_
            (fun x h => hok x (by simp at h ⊢; right; right; exact h)))
        obtain ⟨x, hx, hc⟩ := hl
        exact ⟨x, by simpa [List.getLast?_cons_cons] using hx, hc⟩
      | «open» _ => simp [HAtom.isTxt19] at hbt
      | close _ => simp [HAtom.isTxt19] at hbt
  | .open _ :: _, _, hf, _, _ => by obtain ⟨_, _, h⟩ := hf; simp at h
  | .close _ :: _, _, hf, _, _ => by obtain ⟨_, _, h⟩ := hf; simp at h

theorem ht_of_rich19 {as : List HAtom} (h : HRichLine19 as) : HT19 as := by
  refine ht_of_rich_aux19 as h.alt (by obtain ⟨bs, rest, he, _⟩ := h.first; exact ⟨bs, rest, he⟩) ?_ h.ok
  obtain ⟨init, bs, he, hc⟩ := h.last
  exact ⟨bs, by rw [he]; simp, hc⟩


/-! ### after the loop -/

def plain19 : Inl.Node → Bool
  | .text .. => true
  | .rawHTML .. => true
  | _ => false

theorem processDelimiters_plain19 (ks : List Inl.Node) (h : ∀ n ∈ ks, plain19 n = true) :
    processDelimiters .nil ks = .ok ks := by
  unfold processDelimiters
  rw [splitLastDelim_noDelim11 ks (fun n hn => by have := h n hn; cases n <;> simp [plain19] at this <;> rfl)]

theorem closeLabelsL_plain19 : ∀ (ks : List Inl.Node), (∀ n ∈ ks, plain19 n = true) → closeLabelsL ks = ks
  | [], _ => by simp [closeLabelsL]
  | n :: rest, h => by
    have ih := closeLabelsL_plain19 rest (fun x hx => h x (by simp [hx]))
    have hn := h n (by simp)
    match n, hn with
    | .text .., _ => simp [closeLabelsL, closeLabels, ih]
    | .rawHTML .., _ => simp [closeLabelsL, closeLabels, ih]

theorem atomKids_plain19 (soft : Bool) : ∀ (as : List HAtom) (q : Nat), ∀ n ∈ atomKids19 soft q as, plain19 n = true
  | [], _ => by simp [atomKids19]
  | [.txt bs], q => by simp [atomKids19, plain19]
  | .txt bs :: b :: rest, q => by
    have ih := atomKids_plain19 soft (b :: rest) (q + bs.length)
    simp only [atomKids19, List.mem_cons]
    rintro n (rfl | hn)
    · rfl
    · exact ih n hn
  | .open m :: rest, q => by
    have ih := atomKids_plain19 soft rest (q + (hatomSrc (.open m)).length)
    simp only [atomKids19, List.mem_cons]
    rintro n (rfl | hn)
    · rfl
    · exact ih n hn
  | .close m :: rest, q => by
    have ih := atomKids_plain19 soft rest (q + (hatomSrc (.close m)).length)
    simp only [atomKids19, List.mem_cons]
    rintro n (rfl | hn)
    · rfl
    · exact ih n hn

theorem richKids_plain19 : ∀ (ls : List (List HAtom)) (p : Nat), ∀ n ∈ richKids19 p ls, plain19 n = true
  | [], _ => by simp [richKids19]
  | [l], p => atomKids_plain19 false l p
  | l :: l' :: rest, p => by
    intro n hn
    simp only [richKids19, List.mem_append] at hn
    rcases hn with hn | hn
    · exact atomKids_plain19 true l p n hn
    · exact richKids_plain19 (l' :: rest) _ n hn

/-! ### fuel -/

theorem passes_le19 {as : List HAtom} (h : HT19 as) : passes19 as ≤ (hlineSrc19 as).length := by
  induction h with
  | last bs l0 c hl _ _ _ => rw [hlineSrc_single19, hl]; simp [passes19]
  | cons bs a rest hbs _ _ ha _ _ ih =>
    have hl : 0 < bs.length := List.length_pos_iff.mpr hbs
    have hp : passes19 (.txt bs :: a :: rest) = passes19 rest + 1 := by
      cases a with
      | txt _ => simp [HAtom.isTxt19] at ha
      | «open» n => simp only [passes19]
      | close n => simp only [passes19]
    rw [hlineSrc_cons19, hp]; simp only [List.length_append]; omega

theorem need_le19 (src : Bytes) : ∀ (ls : List (List HAtom)) (p : Nat), ls ≠ [] → (∀ l ∈ ls, HT19 l) →
    LinesAtE src p (ls.map hlineSrc19) → p + need19 ls ≤ src.length + 1
  | [], _, h, _, _ => absurd rfl h
  | [l], p, _, hg, hla => by
    have := passes_le19 (hg l (by simp))
    obtain ⟨_, hlen⟩ := hla
    simp only [need19]; omega
  | l :: l' :: rest, p, _, hg, hla => by
    have := passes_le19 (hg l (by simp))
    obtain ⟨_, _, hla'⟩ := hla
    have ih := need_le19 src (l' :: rest) _ (by simp) (fun x hx => hg x (by simp at hx ⊢; right; exact hx)) hla'
    simp only [need19] at ih ⊢; omega

/-- the inline phase on a paragraph of rich lines with raw inline HTML tags -/
theorem parseBlock_rich19 (env : GM.Inl.Env) (henv : env.escapedSpace = false) (src : Bytes) (p : Nat)
    (ls : List (List HAtom)) (hne : ls ≠ []) (hg : ∀ l ∈ ls, HRichLine19 l)
    (h : LinesAtE src p (ls.map hlineSrc19)) :
    GM.Inl.parseBlock env src (paraSegs p (ls.map hlineSrc19)) = .ok (richKids19 p ls) := by
  have hrt : ∀ l ∈ ls, HT19 l := fun l hl => ht_of_rich19 (hg l hl)
  have hne' : ls.map hlineSrc19 ≠ [] := by simpa using hne
  have hfuel : need19 ls ≤ blockFuel src (paraSegs p (ls.map hlineSrc19)) := by
    have := need_le19 src ls p hne hrt h
    unfold blockFuel
    omega
  obtain ⟨f, hf⟩ : ∃ f, blockFuel src (paraSegs p (ls.map hlineSrc19)) = f + need19 ls :=
    ⟨_, (Nat.sub_add_cancel hfuel).symm⟩
  have hlne : ∀ l ∈ ls.map hlineSrc19, l ≠ [] := by
    intro l hl
    obtain ⟨x, hx, rfl⟩ := List.mem_map.mp hl
    exact ht_ne19 (hrt x hx)
  have W : WFSegs src (paraSegs p (ls.map hlineSrc19)) := by
    refine ⟨?_, wfFrom_para19 src _ p 0 (by omega) hlne h⟩
    intro h0
    have := paraSegs_length (ls.map hlineSrc19) p
    rw [h0] at this
    simp at this
    exact hne (List.length_eq_zero_iff.mp this.symm)
  obtain ⟨rd', h⟩ := loop_rich19 env henv src (paraSegs p (ls.map hlineSrc19))
    (paraEnd p (ls.map hlineSrc19) : Nat) 0 [] W (pad_para19 _ p) (lastStop_para19 _ p hne') ls p [] [] f hne hrt h rfl rfl
    noMerge_nil8
  unfold parseBlock
  simp only [bind, Except.bind, new_para _ (ls.map hlineSrc19) p hne']
  have h' : lineLoop env (blockFuel src (paraSegs p (ls.map hlineSrc19))) false
      { rd := rdAt src (paraSegs p (ls.map hlineSrc19)) (paraEnd p (ls.map hlineSrc19) : Nat) 0
          ((paraSegs p (ls.map hlineSrc19)).headD default) p } =
      .ok { rd := rd', kids := richKids19 p ls, nextId := 0, bottoms := [] } := by
    rw [hf]
    simpa using h
  rw [h']
  simp only [processDelimiters_plain19 _ (richKids_plain19 ls p), closeLabelsL_plain19 _ (richKids_plain19 ls p),
    pure, Except.pure]

/-! ### the renderer's nodes -/

theorem atomTrees19 (src : Bytes) (soft : Bool) : ∀ (as : List HAtom) (q : Nat),
    sub src q (q + (hlineSrc19 as).length) = hlineSrc19 as → q + (hlineSrc19 as).length ≤ src.length →
    GM.Convert.inlineTrees src (atomKids19 soft q as) = .ok (hatomNodes19 soft as)
  | [], _, _, _ => by simp [atomKids19, hatomNodes19, GM.Convert.inlineTrees, pure, Except.pure]
  | [.txt bs], q, h, hlen => by
    rw [hlineSrc_single19] at h hlen
    simp [atomKids19, hatomNodes19, GM.Convert.inlineTrees, GM.Convert.inlineTree, bind, Except.bind, pure, Except.pure,
      value_at8 src q bs h hlen _ _ rfl rfl]
  | .txt bs :: b :: rest, q, h, hlen => by
    have hs : hlineSrc19 (.txt bs :: b :: rest) = [] ++ bs ++ hlineSrc19 (b :: rest) := by simp [hlineSrc19, hatomSrc]
    have hs' : hlineSrc19 (.txt bs :: b :: rest) = bs ++ hlineSrc19 (b :: rest) ++ [] := by simp [hlineSrc19, hatomSrc]
    have h1 := sub_mid8 src q [] bs (hlineSrc19 (b :: rest)) (by rw [← hs]; exact h)
    have h2 := sub_mid8 src q bs (hlineSrc19 (b :: rest)) [] (by rw [← hs']; exact h)
    have hl : (hlineSrc19 (.txt bs :: b :: rest)).length = bs.length + (hlineSrc19 (b :: rest)).length := by
      rw [hs]; simp
    have ih := atomTrees19 src soft (b :: rest) (q + bs.length) h2 (by omega)
    simp only [List.length_nil, Nat.add_zero] at h1
    have hv : Segment.value { start := (q : Int), stop := ((q + bs.length : Nat) : Int) } src = .ok bs :=
      value_at8 src q bs h1 (by omega) _ _ rfl (by push_cast; rfl)
    simp only [atomKids19, hatomNodes19, GM.Convert.inlineTrees, GM.Convert.inlineTree, bind, Except.bind, pure,
      Except.pure, hv, ih]
  | .open m :: rest, q, h, hlen => by
    have hs : hlineSrc19 (.open m :: rest) = [] ++ hatomSrc (.open m) ++ hlineSrc19 rest := by simp [hlineSrc19]
    have hs' : hlineSrc19 (.open m :: rest) = hatomSrc (.open m) ++ hlineSrc19 rest ++ [] := by simp [hlineSrc19]
    have h1 := sub_mid8 src q [] (hatomSrc (.open m)) (hlineSrc19 rest) (by rw [← hs]; exact h)
    have h2 := sub_mid8 src q (hatomSrc (.open m)) (hlineSrc19 rest) [] (by rw [← hs']; exact h)
    have hl : (hlineSrc19 (.open m :: rest)).length = (hatomSrc (.open m)).length + (hlineSrc19 rest).length := by
      rw [hs]; simp
    have ih := atomTrees19 src soft rest (q + (hatomSrc (.open m)).length) h2 (by omega)
    simp only [List.length_nil, Nat.add_zero] at h1
    have hv : Segment.value { start := (q : Int), stop := ((q + (hatomSrc (.open m)).length : Nat) : Int) } src =
        .ok (hatomSrc (.open m)) :=
      value_at8 src q _ h1 (by omega) _ _ rfl (by push_cast; rfl)
    simp only [atomKids19, hatomNodes19, GM.Convert.inlineTrees, GM.Convert.inlineTree, GM.Convert.segValues, bind,
      Except.bind, pure, Except.pure, hv, ih]
  | .close m :: rest, q, h, hlen => by
    have hs : hlineSrc19 (.close m :: rest) = [] ++ hatomSrc (.close m) ++ hlineSrc19 rest := by simp [hlineSrc19]
    have hs' : hlineSrc19 (.close m :: rest) = hatomSrc (.close m) ++ hlineSrc19 rest ++ [] := by simp [hlineSrc19]
    have h1 := sub_mid8 src q [] (hatomSrc (.close m)) (hlineSrc19 rest) (by rw [← hs]; exact h)
    have h2 := sub_mid8 src q (hatomSrc (.close m)) (hlineSrc19 rest) [] (by rw [← hs']; exact h)
    have hl : (hlineSrc19 (.close m :: rest)).length = (hatomSrc (.close m)).length + (hlineSrc19 rest).length := by
      rw [hs]; simp
    have ih := atomTrees19 src soft rest (q + (hatomSrc (.close m)).length) h2 (by omega)
    simp only [List.length_nil, Nat.add_zero] at h1
    have hv : Segment.value { start := (q : Int), stop := ((q + (hatomSrc (.close m)).length : Nat) : Int) } src =
        .ok (hatomSrc (.close m)) :=
      value_at8 src q _ h1 (by omega) _ _ rfl (by push_cast; rfl)
    simp only [atomKids19, hatomNodes19, GM.Convert.inlineTrees, GM.Convert.inlineTree, GM.Convert.segValues, bind,
      Except.bind, pure, Except.pure, hv, ih]

theorem inlineTrees_richAux19 (src : Bytes) : ∀ (p : Nat) (ls : List (List HAtom)),
    LinesAtE src p (ls.map hlineSrc19) → GM.Convert.inlineTrees src (richKids19 p ls) = .ok (hrichNodes19 ls)
  | _, [], _ => by simp [richKids19, hrichNodes19, GM.Convert.inlineTrees, pure, Except.pure]
  | p, [l], h => by
    obtain ⟨hsub, hlen⟩ := h
    exact atomTrees19 src false l p hsub hlen
  | p, l :: l' :: rest, h => by
    obtain ⟨hsub, hlen, h'⟩ := h
    have hsub' := sub_prefix src p (hlineSrc19 l).length (hlineSrc19 l) 10 rfl hsub
    exact inlineTrees_append8 src _ _ _ _ (atomTrees19 src true l p hsub' (by omega))
      (inlineTrees_richAux19 src _ (l' :: rest) h')

/-- the renderer's nodes of the children of a paragraph of rich lines with raw tags (`hg` is not needed) -/
theorem inlineTrees_rich19 (src : Bytes) (p : Nat) (ls : List (List HAtom)) (_hg : ∀ l ∈ ls, HRichLine19 l)
    (h : LinesAtE src p (ls.map hlineSrc19)) :
    GM.Convert.inlineTrees src (richKids19 p ls) = .ok (hrichNodes19 ls) :=
  inlineTrees_richAux19 src p ls h

end GM.Proof.CMFrag
