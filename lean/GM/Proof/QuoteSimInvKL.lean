/-
  GM.Proof.QuoteSimInvKL — kinds never change, also for the two list parsers (continues GM.Proof.QuoteSimInvK):
  `Open` / `Continue` / `Close` of `listParser` and `listItemParser` keep `KGI n0` (the store only grows, every existing
  node keeps its kind; `listParser.Close` appends TextBlock nodes and replaces the Paragraphs of a tight list by them —
  the Paragraph nodes stay in the store with their kind). Hence `kg_bpOpen'`, `kg_bpContinue'`, `kg_bpClose'` for all ten
  parsers, without the hypothesis `bp.notList = true`.
-/
import GM.Proof.QuoteSimInvK

namespace GM.Blocks
open GM GM.Text

section
variable (n0 : List Node)

theorem kg_replaceChild (p v1 ins : Nat) : Keeps (KGI n0) (replaceChild p v1 ins) := by
  have := kg_insertBefore n0; have := kg_removeChild n0; unfold replaceChild; kgk

theorem kg_lastOffset (n : Nat) : Keeps (KGI n0) (lastOffset n) := by unfold lastOffset; kgk

theorem kg_lastChildCount (n : Nat) : Keeps (KGI n0) (lastChildCount n) := by unfold lastChildCount; kgk

theorem kg_listOpen (p : Nat) : Keeps (KGI n0) (listOpen p) := by unfold listOpen; kgk

theorem kg_listContinue (n : Nat) : Keeps (KGI n0) (listContinue n) := by
  have := kg_lastOffset n0; have := kg_lastChildCount n0; unfold listContinue; kgk

theorem kg_tightenItem (child : Nat) : ∀ gcs : List Nat, Keeps (KGI n0) (tightenItem child gcs) := by
  have := kg_replaceChild n0
  intro gcs
  induction gcs with
  | nil => unfold tightenItem; exact Keeps.pure _
  | cons gc gcs ih => unfold tightenItem; kgk

theorem kg_tightenItems : ∀ cs : List Nat, Keeps (KGI n0) (tightenItems cs) := by
  have := kg_tightenItem n0
  intro cs
  induction cs with
  | nil => unfold tightenItems; exact Keeps.pure _
  | cons c cs ih => unfold tightenItems; kgk

theorem kg_listClose (n : Nat) : Keeps (KGI n0) (listClose n) := by
  have := kg_tightenItems n0; unfold listClose; kgk

theorem kg_listItemOpen (p : Nat) : Keeps (KGI n0) (listItemOpen p) := by
  have := kg_lastOffset n0; unfold listItemOpen; kgk

theorem kg_listItemContinue (n : Nat) : Keeps (KGI n0) (listItemContinue n) := by
  have := kg_lastOffset n0; unfold listItemContinue; kgk

/-- `listItemParser.Close` does nothing -/
theorem kg_listItemClose (n : Nat) : Keeps (KGI n0) (bpClose .listItem n) := by
  unfold bpClose; exact Keeps.pure _

/-! ### all ten parsers -/

theorem kg_bpOpen' (bp : BP) (p : Nat) : Keeps (KGI n0) (bpOpen bp p) := by
  cases hb : bp.notList with
  | true => exact kg_bpOpen n0 bp hb p
  | false =>
    cases bp <;> first | cases hb | skip
    · unfold bpOpen; exact kg_listOpen n0 p
    · unfold bpOpen; exact kg_listItemOpen n0 p

theorem kg_bpContinue' (bp : BP) (n : Nat) : Keeps (KGI n0) (bpContinue bp n) := by
  cases hb : bp.notList with
  | true => exact kg_bpContinue n0 bp hb n
  | false =>
    cases bp <;> first | cases hb | skip
    · unfold bpContinue; exact kg_listContinue n0 n
    · unfold bpContinue; exact kg_listItemContinue n0 n

theorem kg_bpClose' (bp : BP) (n : Nat) : Keeps (KGI n0) (bpClose bp n) := by
  cases hb : bp.notList with
  | true => exact kg_bpClose n0 bp hb n
  | false =>
    cases bp <;> first | cases hb | skip
    · unfold bpClose; exact kg_listClose n0 n
    · exact kg_listItemClose n0 n

end

/-- the relational form, for any block parser -/
theorem kgn_bpOpen (bp : BP) (p : Nat) {s s' : St} {a : Option Nat × PState} (e : bpOpen bp p s = .ok (a, s')) :
    KGn s.nodes s'.nodes := kgn_of_keeps (fun n0 => kg_bpOpen' n0 bp p) e

theorem kgn_bpContinue (bp : BP) (n : Nat) {s s' : St} {a : PState} (e : bpContinue bp n s = .ok (a, s')) :
    KGn s.nodes s'.nodes := kgn_of_keeps (fun n0 => kg_bpContinue' n0 bp n) e

theorem kgn_bpClose (bp : BP) (n : Nat) {s s' : St} {a : Unit} (e : bpClose bp n s = .ok (a, s')) :
    KGn s.nodes s'.nodes := kgn_of_keeps (fun n0 => kg_bpClose' n0 bp n) e

end GM.Blocks
