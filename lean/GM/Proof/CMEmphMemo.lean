/-
  GM.Proof.CMEmphMemo — the `openers_bottom` table of the spec's appendix ("lower bound for future searches") as a
  variant of the reference's closing loop, parametrised by the KEY under which a failed search is remembered.
  Theorem: keyed by anything that determines `matchesRun · c` (in particular the appendix's key: delimiter character,
  whether the closer can open, closer length mod 3) the table never changes the result; keyed by (character, can-open)
  only — the seeded change C02-7 / cmark issue 383 — it does (witness).
  Semantics of the table here: per key, the NUMBER of bottom-most stack entries known not to match (clamped when the
  stack shrinks) — a count instead of the appendix's pointer into the stack.
-/
import GM.Proof.CMEmph
namespace GM.Proof.CMEmphMemo
open GM GM.Spec.CMEmph GM.Proof.CMEmph

abbrev Memo (K : Type) := List (K × Nat)

section
variable {K : Type} [DecidableEq K]

def mget : Memo K → K → Nat
  | [], _ => 0
  | (k', n) :: t, k => if k' = k then n else mget t k

def mclamp (m : Memo K) (len : Nat) : Memo K := m.map fun p => (p.1, min p.2 len)

theorem mget_mclamp (m : Memo K) (len : Nat) (k : K) : mget (mclamp m len) k = min (mget m k) len := by
  induction m with
  | nil => simp [mclamp, mget]
  | cons p t ih =>
    obtain ⟨k', n⟩ := p
    simp only [mclamp, List.map_cons, mget] at ih ⊢
    split
    · rfl
    · exact ih

/-- search only above the `skip` bottom-most entries -/
def findOpenerM (c : Run) (skip : Nat) : List Ent → List Inl → Option (Ent × List Ent × List Inl)
  | [], _ => none
  | e :: below, inner =>
    if below.length + 1 ≤ skip then none
    else if matchesRun e.d.r c then some (e, below, e.after ++ inner)
    else findOpenerM c skip below (delimText e.d.r.ch e.d.cur :: (e.after ++ inner))

variable (key : Run → K)

/-- `closeLoop` with the table: a failed search for closer `c` records that none of the entries now on the stack
    matches closers with `key c`; a successful match clamps the table to the new stack height -/
def closeLoopM (c : Run) (ci : Nat) : Nat → Stack → Memo K → Stack × Nat × Memo K
  | 0, st, m => (st, 0, m)
  | 1, st, m =>
    match findOpenerM c (mget m (key c)) st.ents [] with
    | none => (st, 1, (key c, st.ents.length) :: m)
    | some (e, below, kids) =>
      (applyMatch st.bot e below kids 1 c.ch ci, 0, mclamp m (applyMatch st.bot e below kids 1 c.ch ci).ents.length)
  | cur + 2, st, m =>
    match findOpenerM c (mget m (key c)) st.ents [] with
    | none => (st, cur + 2, (key c, st.ents.length) :: m)
    | some (e, below, kids) =>
      if 2 ≤ e.d.cur then
        closeLoopM c ci cur (applyMatch st.bot e below kids 2 c.ch ci)
          (mclamp m (applyMatch st.bot e below kids 2 c.ch ci).ents.length)
      else
        closeLoopM c ci (cur + 1) (applyMatch st.bot e below kids 1 c.ch ci)
          (mclamp m (applyMatch st.bot e below kids 1 c.ch ci).ents.length)

def stepM (i : Nat) (t : Tok) (st : Stack) (m : Memo K) : Stack × Memo K :=
  match t with
  | .chr b => (st.push (.text b), m)
  | .soft => (st.push .soft, m)
  | .hard => (st.push .hard, m)
  | .code b => (st.push (.code b), m)
  | .run r =>
    let (st', left, m') := if r.canClose then closeLoopM key r i r.len st m else (st, r.len, m)
    if left == 0 then (st', m')
    else if r.canOpen then ({ st' with ents := ⟨⟨r, i, left⟩, []⟩ :: st'.ents }, m')
    else (st'.push (delimText r.ch left), m')

def parseGoM : Nat → List Tok → Stack → Memo K → Stack
  | _, [], st, _ => st
  | i, t :: rest, st, m => parseGoM (i + 1) rest (stepM key i t st m).1 (stepM key i t st m).2

def parseM (toks : List Tok) : List Inl := (parseGoM key 0 toks ⟨[], []⟩ []).flatten

/-! ### soundness of the table -/

/-- the runs on the stack, oldest first -/
def runsOld (ents : List Ent) : List Run := (ents.map (·.d.r)).reverse

theorem runsOld_cons (e : Ent) (es : List Ent) : runsOld (e :: es) = runsOld es ++ [e.d.r] := by
  simp [runsOld]

theorem runsOld_length (ents : List Ent) : (runsOld ents).length = ents.length := by simp [runsOld]

theorem findOpener_none (c : Run) : ∀ (ents : List Ent) (inner : List Inl),
    (∀ e ∈ ents, matchesRun e.d.r c = false) → findOpener c ents inner = none := by
  intro ents
  induction ents with
  | nil => intro inner _; rfl
  | cons e es ih =>
    intro inner h
    unfold findOpener
    rw [if_neg (by simp [h e (by simp)])]
    exact ih _ (fun x hx => h x (by simp [hx]))

theorem none_findOpener (c : Run) : ∀ (ents : List Ent) (inner : List Inl),
    findOpener c ents inner = none → ∀ e ∈ ents, matchesRun e.d.r c = false := by
  intro ents
  induction ents with
  | nil => intro inner _ e he; simp at he
  | cons x xs ih =>
    intro inner h e he
    unfold findOpener at h
    split at h
    · simp at h
    · next hm =>
      simp only [List.mem_cons] at he
      rcases he with rfl | he
      · simpa using hm
      · exact ih _ h e he

/-- the table's search equals the full search when the skipped entries do not match -/
theorem findOpenerM_eq (c : Run) (skip : Nat) : ∀ (ents : List Ent) (inner : List Inl),
    (∀ r ∈ (runsOld ents).take skip, matchesRun r c = false) →
    findOpenerM c skip ents inner = findOpener c ents inner := by
  intro ents
  induction ents with
  | nil => intro inner _; rfl
  | cons e es ih =>
    intro inner h
    unfold findOpenerM
    split
    · next hle =>
      symm
      apply findOpener_none
      intro x hx
      apply h
      have hlen : (runsOld (e :: es)).length ≤ skip := by rw [runsOld_length]; simpa using hle
      rw [List.take_of_length_le hlen]
      simp only [runsOld, List.mem_reverse, List.mem_map]
      exact ⟨x, hx, rfl⟩
    · next hgt =>
      have hs : skip ≤ (runsOld es).length := by rw [runsOld_length]; omega
      have ht : (runsOld (e :: es)).take skip = (runsOld es).take skip := by
        rw [runsOld_cons, List.take_append_of_le_length hs]
      rw [ht] at h
      unfold findOpener
      split
      · rfl
      · exact ih _ h

/-- the key determines which openers a closer can take -/
def KeyOK : Prop :=
  ∀ (o c c' : Run), key c = key c' → c.canClose = true → c'.canClose = true → matchesRun o c = matchesRun o c'

/-- the table is sound for the stack: no count exceeds the height, and for every closer none of the counted
    bottom-most entries matches -/
def MS (m : Memo K) (ents : List Ent) : Prop :=
  (∀ k, mget m k ≤ ents.length) ∧
  ∀ c : Run, c.canClose = true → ∀ r ∈ (runsOld ents).take (mget m (key c)), matchesRun r c = false

theorem findOpener_suffix (c : Run) : ∀ (ents : List Ent) (inner : List Inl) (e : Ent) (below : List Ent) (kids : List Inl),
    findOpener c ents inner = some (e, below, kids) → ∃ pre, ents = pre ++ e :: below := by
  intro ents
  induction ents with
  | nil => intro inner e below kids h; simp [findOpener] at h
  | cons x xs ih =>
    intro inner e below kids h
    unfold findOpener at h
    split at h
    · simp only [Option.some.injEq, Prod.mk.injEq] at h
      obtain ⟨rfl, rfl, rfl⟩ := h
      exact ⟨[], rfl⟩
    · obtain ⟨pre, hp⟩ := ih _ e below kids h
      exact ⟨x :: pre, by simp [hp]⟩

theorem runsOld_push (st : Stack) (n : Inl) : runsOld (st.push n).ents = runsOld st.ents := by
  unfold Stack.push
  split
  · next h => simp [h]
  · next e es h => simp [h, runsOld]

theorem length_push (st : Stack) (n : Inl) : (st.push n).ents.length = st.ents.length := by
  have := congrArg List.length (runsOld_push st n)
  simpa [runsOld_length] using this

theorem applyMatch_prefix (bot : List Inl) (e : Ent) (below pre : List Ent) (kids : List Inl) (use : Nat) (ch : UInt8) (ci : Nat) :
    ∃ suf, runsOld (pre ++ e :: below) = runsOld (applyMatch bot e below kids use ch ci).ents ++ suf := by
  have h0 : runsOld (pre ++ e :: below) = runsOld below ++ ([e.d.r] ++ runsOld pre) := by
    simp [runsOld]
  unfold applyMatch
  split
  · rw [runsOld_push]; exact ⟨_, h0⟩
  · refine ⟨runsOld pre, ?_⟩
    rw [h0]; simp [runsOld]

theorem MS_shrink (m : Memo K) (ents new : List Ent) (suf : List Run) (h : MS key m ents)
    (hp : runsOld ents = runsOld new ++ suf) : MS key (mclamp m new.length) new := by
  refine ⟨fun k => by rw [mget_mclamp]; exact Nat.min_le_right _ _, ?_⟩
  intro c hc r hr
  rw [mget_mclamp] at hr
  apply h.2 c hc r
  have hle : min (mget m (key c)) new.length ≤ (runsOld new).length := by
    rw [runsOld_length]; exact Nat.min_le_right _ _
  have h1 : r ∈ (runsOld ents).take (min (mget m (key c)) new.length) := by
    rw [hp, List.take_append_of_le_length hle]; exact hr
  have h2 : (runsOld ents).take (min (mget m (key c)) new.length)
      = ((runsOld ents).take (mget m (key c))).take (min (mget m (key c)) new.length) := by
    rw [List.take_take]; congr 1; omega
  rw [h2] at h1
  exact List.mem_of_mem_take h1

theorem MS_failed (hk : KeyOK key) (m : Memo K) (ents : List Ent) (c : Run) (hc : c.canClose = true) (h : MS key m ents)
    (hf : findOpener c ents [] = none) : MS key ((key c, ents.length) :: m) ents := by
  refine ⟨?_, ?_⟩
  · intro k
    simp only [mget]
    split
    · exact Nat.le_refl _
    · exact h.1 k
  · intro c' hc' r hr
    simp only [mget] at hr
    split at hr
    · next hkk =>
      have hr' : r ∈ runsOld ents := List.mem_of_mem_take hr
      simp only [runsOld, List.mem_reverse, List.mem_map] at hr'
      obtain ⟨e, he, rfl⟩ := hr'
      rw [← hk e.d.r c c' hkk hc hc']
      exact none_findOpener c ents [] hf e he
    · exact h.2 c' hc' r hr

theorem MS_same (m : Memo K) (ents new : List Ent) (h : MS key m ents) (hr : runsOld new = runsOld ents) : MS key m new := by
  have hl : new.length = ents.length := by
    have := congrArg List.length hr; simpa [runsOld_length] using this
  exact ⟨fun k => by rw [hl]; exact h.1 k, fun c hc r hrr => h.2 c hc r (by rw [← hr]; exact hrr)⟩

theorem MS_cons (m : Memo K) (ents : List Ent) (e : Ent) (h : MS key m ents) : MS key m (e :: ents) := by
  refine ⟨fun k => Nat.le_succ_of_le (h.1 k), ?_⟩
  intro c hc r hr
  apply h.2 c hc r
  have hle : mget m (key c) ≤ (runsOld ents).length := by rw [runsOld_length]; exact h.1 _
  rw [runsOld_cons, List.take_append_of_le_length hle] at hr
  exact hr

/-- the closing loop with a soundly keyed table computes what the reference computes -/
theorem closeLoopM_eq (hk : KeyOK key) (c : Run) (hc : c.canClose = true) (ci : Nat) :
    ∀ (cur : Nat) (st : Stack) (m : Memo K), MS key m st.ents →
      (closeLoopM key c ci cur st m).1 = (closeLoop c ci cur st).1
      ∧ (closeLoopM key c ci cur st m).2.1 = (closeLoop c ci cur st).2
      ∧ MS key (closeLoopM key c ci cur st m).2.2 (closeLoop c ci cur st).1.ents := by
  intro cur st m
  fun_induction closeLoopM key c ci cur st m with
  | case1 st m => intro h; simp [closeLoop, h]
  | case2 st m hf =>
    intro h
    rw [findOpenerM_eq c _ _ _ (h.2 c hc)] at hf
    simp only [closeLoop, hf]
    exact ⟨trivial, trivial, MS_failed key hk m _ c hc h hf⟩
  | case3 st m e below kids hf =>
    intro h
    rw [findOpenerM_eq c _ _ _ (h.2 c hc)] at hf
    obtain ⟨pre, hp⟩ := findOpener_suffix c _ _ _ _ _ hf
    obtain ⟨suf, hs⟩ := applyMatch_prefix st.bot e below pre kids 1 c.ch ci
    simp only [closeLoop, hf]
    exact ⟨trivial, trivial, MS_shrink key m _ _ suf h (by rw [hp]; exact hs)⟩
  | case4 cur st m hf =>
    intro h
    rw [findOpenerM_eq c _ _ _ (h.2 c hc)] at hf
    simp only [closeLoop, hf]
    exact ⟨trivial, trivial, MS_failed key hk m _ c hc h hf⟩
  | case5 cur st m e below kids hf h2 ih =>
    intro h
    rw [findOpenerM_eq c _ _ _ (h.2 c hc)] at hf
    obtain ⟨pre, hp⟩ := findOpener_suffix c _ _ _ _ _ hf
    obtain ⟨suf, hs⟩ := applyMatch_prefix st.bot e below pre kids 2 c.ch ci
    have := ih (MS_shrink key m _ _ suf h (by rw [hp]; exact hs))
    simpa only [closeLoop, hf, h2, if_true] using this
  | case6 cur st m e below kids hf h2 ih =>
    intro h
    rw [findOpenerM_eq c _ _ _ (h.2 c hc)] at hf
    obtain ⟨pre, hp⟩ := findOpener_suffix c _ _ _ _ _ hf
    obtain ⟨suf, hs⟩ := applyMatch_prefix st.bot e below pre kids 1 c.ch ci
    have := ih (MS_shrink key m _ _ suf h (by rw [hp]; exact hs))
    simpa only [closeLoop, hf, h2, if_false] using this

theorem stepM_eq (hk : KeyOK key) (i : Nat) (t : Tok) (st : Stack) (m : Memo K) (h : MS key m st.ents) :
    (stepM key i t st m).1 = step i t st ∧ MS key (stepM key i t st m).2 (step i t st).ents := by
  cases t with
  | chr b => exact ⟨rfl, MS_same key m _ _ h (runsOld_push _ _)⟩
  | soft => exact ⟨rfl, MS_same key m _ _ h (runsOld_push _ _)⟩
  | hard => exact ⟨rfl, MS_same key m _ _ h (runsOld_push _ _)⟩
  | code b => exact ⟨rfl, MS_same key m _ _ h (runsOld_push _ _)⟩
  | run r =>
    have hp : ∀ (p : Stack × Nat × Memo K) (q : Stack × Nat),
        p = (if r.canClose then closeLoopM key r i r.len st m else (st, r.len, m)) →
        q = (if r.canClose then closeLoop r i r.len st else (st, r.len)) →
        p.1 = q.1 ∧ p.2.1 = q.2 ∧ MS key p.2.2 q.1.ents := by
      intro p q hp hq
      by_cases hc : r.canClose = true
      · simp only [hc, if_true] at hp hq; subst hp; subst hq
        exact closeLoopM_eq key hk r hc i r.len st m h
      · simp only [hc] at hp hq; subst hp; subst hq; exact ⟨rfl, rfl, h⟩
    obtain ⟨h1, h2, h3⟩ := hp _ _ rfl rfl
    simp only [stepM, step]
    generalize (if r.canClose then closeLoopM key r i r.len st m else (st, r.len, m)) = p at h1 h2 h3
    generalize (if r.canClose then closeLoop r i r.len st else (st, r.len)) = q at h1 h2 h3
    obtain ⟨st1, left1, m1⟩ := p
    obtain ⟨st2, left2⟩ := q
    simp only at h1 h2 h3 ⊢
    subst h1; subst h2
    by_cases hl : left1 = 0
    · subst hl; simpa using h3
    · by_cases ho : r.canOpen = true
      · simp only [hl, beq_iff_eq, if_false, ho, if_true]
        exact ⟨trivial, MS_cons key m1 _ _ h3⟩
      · have ho' : r.canOpen = false := by simpa using ho
        simp only [hl, beq_iff_eq, if_false, ho', Bool.false_eq_true]
        exact ⟨trivial, MS_same key m1 _ _ h3 (runsOld_push _ _)⟩

theorem parseGoM_eq (hk : KeyOK key) : ∀ (toks : List Tok) (i : Nat) (st : Stack) (m : Memo K), MS key m st.ents →
    parseGoM key i toks st m = parseGo i toks st := by
  intro toks
  induction toks with
  | nil => intro i st m _; rfl
  | cons t ts ih =>
    intro i st m h
    obtain ⟨h1, h2⟩ := stepM_eq key hk i t st m h
    rw [parseGoM, parseGo, ← h1]
    exact ih _ _ _ (by rw [h1]; exact h2)

/-- the table never changes the result when its key determines the matching -/
theorem parseM_eq (hk : KeyOK key) (toks : List Tok) : parseM key toks = parse toks := by
  unfold parseM parse
  rw [parseGoM_eq key hk toks 0 ⟨[], []⟩ [] ⟨fun _ => by simp [mget], fun _ _ r hr => by simp [mget] at hr⟩]

end

/-! ### the appendix's key, and the key of the seeded change -/

/-- "indexed by the type of delimiter, … the length of the closing delimiter run (modulo 3) and whether the closing
    delimiter can also be an opener" -/
def specKey (c : Run) : UInt8 × Bool × Nat := (c.ch, c.canOpen, c.len % 3)

/-- the key of the seeded change C02-7 / cmark issue 383: the length of the closer is missing -/
def seededKey (c : Run) : UInt8 × Bool := (c.ch, c.canOpen)

theorem specKey_ok : KeyOK specKey := by
  intro o c c' hkey hc hc'
  simp only [specKey, Prod.mk.injEq] at hkey
  obtain ⟨h1, h2, h3⟩ := hkey
  have e1 : (o.len + c.len) % 3 = (o.len + c'.len) % 3 := by omega
  simp only [matchesRun, ruleOf3, hc, hc', h1, h2, h3, e1]

/-- the appendix's table, keyed as the appendix says, is a pure optimisation of the reference -/
theorem parseM_specKey (toks : List Tok) : parseM specKey toks = parse toks := parseM_eq specKey specKey_ok toks

/-- `*a**b**c*y` (cmark issue 383): with the closer's length missing from the key the failed search of `**` (refused by
    the multiple-of-3 rule) wrongly hides the opener from the final `*` -/
def witness383 : List Tok := tokens ucls0 [42, 97, 42, 42, 98, 42, 42, 99, 42, 121]

theorem seededKey_differs :
    renderL (parseM seededKey witness383) = [42, 97] ++ tagStO ++ [98] ++ tagStC ++ [99, 42, 121]
    ∧ renderL (parse witness383) = tagEmO ++ [97] ++ tagStO ++ [98] ++ tagStC ++ [99] ++ tagEmC ++ [121] := by
  decide

end GM.Proof.CMEmphMemo
