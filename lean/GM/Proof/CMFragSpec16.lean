/-
  GM.Proof.CMFragSpec16 — the stage-16 fragment (paragraphs whose lines contain inline links `[t](d)`) of
  GM.Spec.CMFrag inside the spec model GM.Spec.CommonMark:
  * `expectedL_eq_expected`: the prescribed HTML of a stage-16 document is `expected` of the embedded document (the
    reference renderer's percent-encoding `urlEnc` and its HTML escaping are the identity on a destination of letters,
    digits and `/`: `urlEnc_dest_s16`, `escHtml_dest_s16`);
  * `spellL_eq_spell`: for a NON-EMPTY stage-16 document without extra blank lines the source is `spell` of the
    embedded document, byte for byte (an inline link without title, angle brackets and inner space is spelled
    `[text](dest)` whatever the `pa` / `na` context arguments of `spellI` are; a destination of letters, digits and `/`
    needs no angle brackets and no escapes: `spellDest_dest_s16`).
-/
import GM.Proof.CMFragSpec11
namespace GM.Proof.CMFrag
open GM GM.Spec.CM GM.Spec.CMFrag

/-! ### destinations of letters, digits and `/` -/

theorem destC_facts_s16 : ∀ c : UInt8, isDestC c = true →
    c ≠ 37 ∧ urlKeep c = true ∧ escHtmlByte c = [c] ∧ c ≠ 32 ∧ printable c = true ∧
      (if c == 40 || c == 41 || c == 92 || c == 38 || c == 60 then [92, c] else [c]) = [c] :=
  GM.forall_uint8 _ (by decide +kernel)

theorem alnum_escHtmlByte_s16 : ∀ c : UInt8, isAlnumC c = true → escHtmlByte c = [c] :=
  GM.forall_uint8 _ (by decide +kernel)

/-- the reference renderer's percent-encoding leaves letters, digits and `/` as they are -/
theorem urlEnc_dest_s16 (d : Bytes) (h : ∀ c ∈ d, isDestC c = true) : urlEnc d = d := by
  induction d with
  | nil => rfl
  | cons c rest ih =>
    have hc := destC_facts_s16 c (h c (by simp))
    have ih' := ih (fun x hx => h x (by simp [hx]))
    unfold urlEnc
    split
    · rename_i heq; cases heq
    · rename_i heq
      injection heq with h1 _
      exact absurd h1 hc.1
    · rename_i heq
      injection heq with h1 h2
      subst h1; subst h2
      simp [hc.2.1, ih']

theorem escHtml_dest_s16 (d : Bytes) (h : ∀ c ∈ d, isDestC c = true) : escHtml d = d := by
  induction d with
  | nil => rfl
  | cons c rest ih =>
    have := ih (fun x hx => h x (by simp [hx]))
    simp only [escHtml, List.flatMap_cons] at this ⊢
    rw [this, (destC_facts_s16 c (h c (by simp))).2.2.1]
    rfl

theorem escHtml_alnum_s16 (c : Bytes) (h : ∀ x ∈ c, isAlnumC x = true) : escHtml c = c := by
  induction c with
  | nil => rfl
  | cons x rest ih =>
    have := ih (fun y hy => h y (by simp [hy]))
    simp only [escHtml, List.flatMap_cons] at this ⊢
    rw [this, alnum_escHtmlByte_s16 x (h x (by simp))]
    rfl

/-- what `latomOKS` says about a link -/
theorem latomOKS_link_s16 (t d : Bytes) (h : latomOKS (.link t d) = true) :
    (t ≠ [] ∧ ∀ c ∈ t, isAlnumC c = true) ∧ (d ≠ [] ∧ ∀ c ∈ d, isDestC c = true) := by
  simp only [latomOKS, Bool.and_eq_true, Bool.not_eq_true', List.isEmpty_eq_false_iff, List.all_eq_true] at h
  exact ⟨⟨h.1.1.1, h.1.1.2⟩, ⟨h.1.2, h.2⟩⟩

/-! ### S1: prescribed HTML -/

theorem render_expI_atom16 (a : LAtomS) (h : latomOKS a = true) : render (expI (lembedAtom a)) = expLAtom a := by
  cases a with
  | txt cs => simp [lembedAtom, expI, render, renderPiece, expLAtom]
  | link t d =>
    obtain ⟨⟨_, ht⟩, ⟨_, hd⟩⟩ := latomOKS_link_s16 t d h
    have h1 : strBytes "<a href=\"" = [60] ++ strBytes "a" ++ ([32] ++ strBytes "href" ++ strBytes "=\"") := by
      decide +kernel
    have h2 : strBytes "\">" = [34] ++ [62] := by decide +kernel
    have h3 : strBytes "</a>" = [60, 47] ++ strBytes "a" ++ [62] := by decide +kernel
    have hr : render (wrap (strBytes "a") (attr "href" d) (expIs [.text (elits t)])) =
        [60] ++ strBytes "a" ++ attr "href" d ++ [62] ++ render (expIs [.text (elits t)]) ++
          [60, 47] ++ strBytes "a" ++ [62] := by
      simp [wrap, render, renderPiece]
    rw [lembedAtom, expI, urlEnc_dest_s16 d hd, escHtml_dest_s16 d hd]
    simp only [titleAttr, List.append_nil]
    rw [hr, render_expIs_elits11, escHtml_alnum_s16 t ht, expLAtom, h1, h2, h3, attr]
    simp

theorem render_expIs_line16 (l : LLine) (h : ∀ a ∈ l, latomOKS a = true) :
    render (expIs (l.map lembedAtom)) = expLLine l := by
  induction l with
  | nil => simp [expIs, render, expLLine]
  | cons a rest ih =>
    rw [List.map_cons, expIs, render_append, ih (fun x hx => h x (by simp [hx])),
      render_expI_atom16 a (h a (by simp))]
    simp [expLLine]

theorem render_expIs_lembedLines16 (ls : List LLine) (h : ∀ l ∈ ls, ∀ a ∈ l, latomOKS a = true) :
    render (expIs (lembedLines ls)) = GM.Spec.CMFrag.joinNl (ls.map expLLine) := by
  induction ls with
  | nil => simp [lembedLines, expIs, render, GM.Spec.CMFrag.joinNl]
  | cons l rest ih =>
    cases rest with
    | nil => simp [lembedLines, GM.Spec.CMFrag.joinNl, render_expIs_line16 l (h l (by simp))]
    | cons l' rest =>
      have e : lembedLines (l :: l' :: rest) = l.map lembedAtom ++ .softBreak :: lembedLines (l' :: rest) := rfl
      rw [e, expIs_append11, render_append, render_expIs_line16 l (h l (by simp)), expIs, render_append,
        ih (fun x hx => h x (by simp [hx]))]
      simp [expI, render, renderPiece, nl, GM.Spec.CMFrag.joinNl]

theorem render_expB_lpara16 (ls : List LLine) (g : Nat) (h : ∀ l ∈ ls, ∀ a ∈ l, latomOKS a = true) :
    render (expB false false (.para {} (lembedLines ls) 0)) = expLItem ⟨g, ls⟩ := by
  rw [expB]
  simp only [wrap, Bool.false_eq_true, if_false, List.cons_append]
  have h1 : strBytes "<p>" = [60] ++ strBytes "p" ++ [62] := by decide +kernel
  have h2 : strBytes "</p>\n" = [60, 47] ++ strBytes "p" ++ [62] ++ [10] := by decide +kernel
  rw [expLItem, h1, h2, ← render_expIs_lembedLines16 ls h]
  simp [render, renderPiece, nl]

theorem llineOKS_atoms_s16 (l : LLine) (h : llineOKS l = true) : ∀ a ∈ l, latomOKS a = true := by
  simp only [llineOKS, Bool.and_eq_true, List.all_eq_true] at h
  exact h.2

theorem litemOKS_parts16 (it : LItem) (h : litemOKS it = true) : it.lines ≠ [] ∧ ∀ l ∈ it.lines, llineOKS l = true := by
  simp only [litemOKS, Bool.and_eq_true, Bool.not_eq_true', List.isEmpty_eq_false_iff, List.all_eq_true] at h
  exact h

theorem render_expBs_lembed16 (its : List LItem) (hok : ∀ it ∈ its, litemOKS it = true) :
    render (expBs false false (its.map fun it => .para {} (lembedLines it.lines) 0)) = its.flatMap expLItem := by
  induction its with
  | nil => simp [expBs, render]
  | cons it rest ih =>
    have hit := (litemOKS_parts16 it (hok it (by simp))).2
    obtain ⟨g, ls⟩ := it
    rw [List.map_cons, expBs, render_append, ih (fun x hx => hok x (by simp [hx]))]
    simp [render_expB_lpara16 ls g (fun l hl => llineOKS_atoms_s16 l (hit l hl))]

/-- S1 -/
theorem expectedL_eq_expected (d : LDoc) (h : LFrag d) : expectedL d = expected (lembed d) := by
  have hok : ∀ it ∈ d.items, litemOKS it = true := by
    have := h; simp only [LFrag, lfragB, List.all_eq_true] at this; exact this
  rw [expected, expectedPieces, lembed, expectedL, render_expBs_lembed16 _ hok]

/-! ### S2: source -/

/-! #### `spellIs` on text, inline links and soft breaks: no dependence on the neighbours -/

def simple16 : Inline → Bool
  | .text _ => true
  | .link .. => true
  | .softBreak => true
  | _ => false

theorem spellI_simple16 (x : Inline) (h : simple16 x = true) (pa na : Bool) : spellI pa na x = spellI false false x := by
  cases x with
  | text _ => simp only [spellI]
  | link _ _ _ _ _ => simp only [spellI]
  | softBreak => simp only [spellI]
  | _ => cases h

theorem spellIs_simple16 (ks : List Inline) (h : ∀ x ∈ ks, simple16 x = true) (pa : Bool) :
    spellIs pa ks = ks.flatMap (spellI false false) := by
  induction ks generalizing pa with
  | nil => simp [spellIs]
  | cons x rest ih =>
    simp only [spellIs]
    rw [spellI_simple16 x (h x (by simp)), ih (fun y hy => h y (by simp [hy]))]
    simp

theorem simple_lembedAtom16 (a : LAtomS) : simple16 (lembedAtom a) = true := by cases a <;> rfl

theorem simple_lembedLines16 (ls : List LLine) : ∀ x ∈ lembedLines ls, simple16 x = true := by
  induction ls with
  | nil => simp [lembedLines]
  | cons l rest ih =>
    cases rest with
    | nil =>
      intro x hx
      simp only [lembedLines, List.mem_map] at hx
      obtain ⟨a, _, rfl⟩ := hx
      exact simple_lembedAtom16 a
    | cons l' rest =>
      have e : lembedLines (l :: l' :: rest) = l.map lembedAtom ++ .softBreak :: lembedLines (l' :: rest) := rfl
      intro x hx
      rw [e] at hx
      rcases List.mem_append.mp hx with hx | hx
      · obtain ⟨a, _, rfl⟩ := List.mem_map.mp hx
        exact simple_lembedAtom16 a
      · rcases List.mem_cons.mp hx with rfl | hx
        · rfl
        · exact ih x hx

theorem not_mem_sp_s16 (d : Bytes) (h : ∀ c ∈ d, isDestC c = true) : ¬ (32 : UInt8) ∈ d :=
  fun hm => absurd (h 32 hm) (by decide)

theorem flatMap_dest_s16 (d : Bytes) (h : ∀ c ∈ d, isDestC c = true) :
    d.flatMap (fun c => entOr false c (if c == 40 || c == 41 || c == 92 || c == 38 || c == 60 then [92, c] else [c])) = d := by
  induction d with
  | nil => rfl
  | cons c rest ih =>
    have := ih (fun x hx => h x (by simp [hx]))
    simp only [List.flatMap_cons]
    rw [this]
    simp only [entOr, Bool.false_and, Bool.false_eq_true, if_false]
    rw [(destC_facts_s16 c (h c (by simp))).2.2.2.2.2]
    rfl

/-- a non-empty destination of letters, digits and `/` is written as it is, without angle brackets -/
theorem spellDest_dest_s16 (d : Bytes) (hne : d ≠ []) (h : ∀ c ∈ d, isDestC c = true) : spellDest false d false = d := by
  have h1 : destNeedsAngle d = false := by
    simp [destNeedsAngle, not_mem_sp_s16 d h, hne]
  simp only [spellDest, h1, Bool.or_self, Bool.false_eq_true, if_false]
  exact flatMap_dest_s16 d h

theorem spellI_lembedAtom16 (a : LAtomS) (h : latomOKS a = true) : spellI false false (lembedAtom a) = spellLAtom a := by
  cases a with
  | txt cs => simp only [lembedAtom, spellI, spellLAtom]
  | link t d =>
    obtain ⟨⟨_, ht⟩, ⟨hdne, hd⟩⟩ := latomOKS_link_s16 t d h
    simp [lembedAtom, spellI, spellIs, spellLAtom, spellLinkTail, escSpell_elits_s11 t ht,
      spellDest_dest_s16 d hdne hd]

theorem flat_line16 (l : LLine) (h : ∀ a ∈ l, latomOKS a = true) :
    (l.map lembedAtom).flatMap (spellI false false) = spellLLine l := by
  induction l with
  | nil => rfl
  | cons a rest ih =>
    simp only [List.map_cons, List.flatMap_cons, spellLLine] at ih ⊢
    rw [spellI_lembedAtom16 a (h a (by simp)), ih (fun x hx => h x (by simp [hx]))]

theorem flat_lembedLines16 (ls : List LLine) (h : ∀ l ∈ ls, ∀ a ∈ l, latomOKS a = true) :
    (lembedLines ls).flatMap (spellI false false) = GM.Spec.CMFrag.joinNl (ls.map spellLLine) := by
  induction ls with
  | nil => simp [lembedLines, GM.Spec.CMFrag.joinNl]
  | cons l rest ih =>
    cases rest with
    | nil => simp [lembedLines, GM.Spec.CMFrag.joinNl, flat_line16 l (h l (by simp))]
    | cons l' rest =>
      have e : lembedLines (l :: l' :: rest) = l.map lembedAtom ++ .softBreak :: lembedLines (l' :: rest) := rfl
      rw [e, List.flatMap_append, List.flatMap_cons, flat_line16 l (h l (by simp)),
        ih (fun x hx => h x (by simp [hx]))]
      simp [spellI, GM.Spec.CMFrag.joinNl]

theorem spellIs_lembedLines16 (ls : List LLine) (h : ∀ l ∈ ls, ∀ a ∈ l, latomOKS a = true) (pa : Bool) :
    spellIs pa (lembedLines ls) = GM.Spec.CMFrag.joinNl (ls.map spellLLine) := by
  rw [spellIs_simple16 _ (simple_lembedLines16 ls), flat_lembedLines16 ls h]

/-! #### the lines of a document -/

theorem spellLAtom_printable16 (a : LAtomS) (h : latomOKS a = true) : (spellLAtom a).all printable = true := by
  cases a with
  | txt cs =>
    simp only [latomOKS, Bool.and_eq_true, List.all_eq_true] at h
    exact escSpell_printable cs (fun t ht => charOK_printable t (h.2 t ht))
  | link t d =>
    obtain ⟨⟨_, ht⟩, ⟨_, hd⟩⟩ := latomOKS_link_s16 t d h
    simp only [spellLAtom, List.all_append, Bool.and_eq_true, List.all_eq_true]
    refine ⟨⟨⟨⟨by decide, fun x hx => (alnum_facts8 x (ht x hx)).2.2⟩, by decide⟩,
      fun x hx => (destC_facts_s16 x (hd x hx)).2.2.2.2.1⟩, by decide⟩

theorem spellLLine_printable16 (l : LLine) (h : llineOKS l = true) : ∀ c ∈ spellLLine l, printable c = true := by
  intro c hc
  simp only [spellLLine, List.mem_flatMap] at hc
  obtain ⟨a, ha, hca⟩ := hc
  exact List.all_eq_true.mp (spellLAtom_printable16 a (llineOKS_atoms_s16 l h a ha)) c hca

theorem paraLines_lembed16 (ls : List LLine) (hne : ls ≠ []) (hok : ∀ l ∈ ls, llineOKS l = true) :
    (paraLines 0 0 (spellIs false (lembedLines ls))).map (renderLine 0 0 0 0) = ls.map spellLLine := by
  have hpr : ∀ b ∈ ls.map spellLLine, ∀ c ∈ b, printable c = true := by
    intro b hb c hc
    obtain ⟨l, hl, rfl⟩ := List.mem_map.mp hb
    exact spellLLine_printable16 l (hok l hl) c hc
  have hsplit := splitLines_joinNl (ls.map spellLLine) (by simpa using hne)
    (fun b hb c hc => (printable_facts c (hpr b hb c hc)).1)
  rw [paraLines, spellIs_lembedLines16 ls (fun l hl => llineOKS_atoms_s16 l (hok l hl)), hsplit]
  cases hls : ls.map spellLLine with
  | nil => simp at hls; exact absurd hls hne
  | cons f rest =>
    rw [hls] at hpr
    simp only [List.map_cons, List.map_map]
    congr 1
    · exact renderLine_plain f (fun c hc => (printable_facts c (hpr f (by simp) c hc)).2)
    · conv => rhs; rw [← List.map_id rest]
      apply List.map_congr_left
      intro b hb
      exact renderLine_plain b (fun c hc => (printable_facts c (hpr b (by simp [hb]) c hc)).2)

/-- the source lines of the items (a blank line in front of every item but the first) -/
def docLinesL16 (first : Bool) : List LItem → List Bytes
  | [] => []
  | it :: rest => (if first then [] else [[]]) ++ it.lines.map spellLLine ++ docLinesL16 false rest

theorem spellBs_lembed16 (its : List LItem) (hok : ∀ it ∈ its, litemOKS it = true) (prev pm : Nat) :
    (spellBs false false prev pm (its.map fun it => .para {} (lembedLines it.lines) 0)).map (renderLine 0 0 0 0) =
      docLinesL16 (prev == 0) its := by
  induction its generalizing prev pm with
  | nil => simp [spellBs, docLinesL16]
  | cons it rest ih =>
    obtain ⟨hne, hls⟩ := litemOKS_parts16 it (hok it (by simp))
    have hp := paraLines_lembed16 it.lines hne hls
    have ih' := ih (fun x hx => hok x (by simp [hx])) 1 0
    rw [List.map_cons, spellBs_para, List.map_append, List.map_append, hp, ih', docLinesL16]
    by_cases h0 : prev = 0
    · subst h0; simp
    · have : (prev == 0) = false := by simpa using h0
      simp [this, renderLine_blank]

theorem docLinesL_flatMap16 (its : List LItem) (hg : ∀ it ∈ its, it.gap = 0) (first : Bool) :
    (docLinesL16 first its).flatMap (· ++ [10]) = spellLItems first its := by
  induction its generalizing first with
  | nil => simp [docLinesL16, spellLItems]
  | cons it rest ih =>
    obtain ⟨g, ls⟩ := it
    have hg0 : g = 0 := hg ⟨g, ls⟩ (by simp)
    subst hg0
    rw [docLinesL16, spellLItems, List.flatMap_append, List.flatMap_append, ih (fun x hx => hg x (by simp [hx]))]
    cases first
    · simp [blanks, List.flatMap_map]
    · simp [blanks, List.flatMap_map]

theorem docLinesL_ne16 (it : LItem) (rest : List LItem) (h : litemOKS it = true) :
    docLinesL16 true (it :: rest) ≠ [] := by
  obtain ⟨hne, _⟩ := litemOKS_parts16 it h
  obtain ⟨g, ls⟩ := it
  cases ls with
  | nil => exact absurd rfl hne
  | cons l ls => simp [docLinesL16]

/-- S2: a non-empty stage-16 document without extra blank lines is spelled byte for byte like the embedded one -/
theorem spellL_eq_spell (d : LDoc) (h : LFrag d) (hb : lnoExtraBlanks d = true) (hne : d.items ≠ []) :
    spellL d = spell (lembed d) := by
  obtain ⟨items, trail⟩ := d
  simp only [lnoExtraBlanks, Bool.and_eq_true, beq_iff_eq, List.all_eq_true] at hb
  obtain ⟨ht, hg⟩ := hb
  simp only at ht hne; subst ht
  have hok : ∀ it ∈ items, litemOKS it = true := by
    have := h; simp only [LFrag, lfragB, List.all_eq_true] at this; exact this
  have hl := spellBs_lembed16 items hok 0 0
  cases items with
  | nil => exact absurd rfl hne
  | cons it rest =>
    have hdn := docLinesL_ne16 it rest (hok it (by simp))
    simp only [spell, lembed, spellL, blanks, List.replicate_zero, List.append_nil, if_true]
    rw [hl]
    simp only [beq_self_eq_true]
    rw [joinLines_flatMap _ hdn, docLinesL_flatMap16 _ hg]

end GM.Proof.CMFrag
