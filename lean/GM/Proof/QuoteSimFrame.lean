/-
  GM.Proof.QuoteSimFrame — unary frame lemmas for the block parsers (GM.Model.Blocks).
  `Keeps I m`: every successful run of `m` from a state with `I` ends in a state with `I` (nothing is said
  about panics). `Keeps` is closed under `pure` / `bind` / `if` / `match` / `throw`, so a proof for a
  parser function is a syntactic walk over its `do` block (tactic `keeps`, in the style of `pres` in
  GM.Proof.BlocksPres). The parser lemmas hold for every `I` with `PcMods I` (`I` ignores the reader and
  the node store and is closed under the unconditional context writes of the parsers: `skipList`,
  `emptyItemBlank`, reset of `tmpPara` / `fence`); `setextOpen` (sets `tmpPara` to the last opened block)
  and `fencedOpen` (sets `fence` with `indent = blockOffset ≥ 0`) take the closure under their write as
  an extra hypothesis (`*_keeps_gen`). Instances:
  * `pc.opened` (and `blockOffset`, `blockIndent`: `PcFrame`) is never touched: `bp*_opened`;
  * `pc.tmpPara ≠ some 0`: `bp*_tmp`;
  * `FenceIndOK`: `bp*_fence`.
  Also: only `setextOpen` answers `RequireParagraph`, and only when there is a last opened block
  (`requirePara_setext`).
-/
import GM.Proof.BlocksLeaf

namespace GM.Blocks
open GM GM.Text

/-- every successful run of `m` from a state with `I` ends in a state with `I` -/
def Keeps (I : St → Prop) {α : Type} (m : M α) : Prop :=
  ∀ s a s', I s → m s = .ok (a, s') → I s'

section calculus
variable {I : St → Prop}

theorem Keeps.ok {α} {m : M α} (hm : Keeps I m) {s : St} (hs : I s) {a : α} {s' : St}
    (h : m s = .ok (a, s')) : I s' := hm s a s' hs h

theorem Keeps.pure {α} (a : α) : Keeps I (pure a : M α) := by
  intro s b s' hs h
  cases h
  exact hs

theorem Keeps.bind {α β} {m : M α} {f : α → M β} (hm : Keeps I m) (hf : ∀ a, Keeps I (f a)) :
    Keeps I (m >>= f) := by
  intro s b s' hs h
  simp only [Bind.bind, StateT.bind] at h
  cases hms : m s with
  | error e => rw [hms] at h; simp [Except.bind] at h
  | ok p =>
    rw [hms] at h
    simp only [Except.bind] at h
    exact hf p.1 p.2 b s' (hm s p.1 p.2 hs hms) h

theorem Keeps.ite {α} {c : Prop} [Decidable c] {a b : M α} (ha : c → Keeps I a) (hb : ¬c → Keeps I b) :
    Keeps I (if c then a else b) := by
  split
  · exact ha ‹_›
  · exact hb ‹_›

theorem Keeps.throw {α} (e : Panic) : Keeps I (throw e : M α) := by
  intro s a s' _ h
  cases h

/-- the invariant does not look at the reader -/
structure NoR (I : St → Prop) : Prop where
  h : ∀ s r, I s → I { s with r := r }

/-- the invariant does not look at the node store -/
structure NoNodes (I : St → Prop) : Prop where
  h : ∀ s nodes, I s → I { s with nodes := nodes }

/-! primitives that do not change the state keep every `I` -/

theorem getNode_keeps (id : Nat) : Keeps I (getNode id) := by
  intro s a s' hs h; cases h; exact hs
theorem getPc_keeps : Keeps I getPc := by
  intro s a s' hs h; cases h; exact hs
theorem source_keeps : Keeps I source := by
  intro s a s' hs h; cases h; exact hs
theorem position_keeps : Keeps I position := by
  intro s a s' hs h; cases h; exact hs
theorem get_keeps : Keeps I (get : M St) := by
  intro s a s' hs h; cases h; exact hs

theorem liftE_keeps {α} (e : Except Panic α) : Keeps I (liftE e) := by
  intro s a s' hs h
  cases e with
  | error x => cases h
  | ok v => cases h; exact hs

theorem lastOpenedBlock_keeps : Keeps I lastOpenedBlock := by
  intro s a s' hs h; cases h; exact hs

/-- `lastOpenedBlock` as a function of the state -/
theorem lastOpenedBlock_eq (s : St) : lastOpenedBlock s = .ok (s.pc.opened.getLast?, s) := rfl

/-! the reader primitives keep `I` when `I` does not depend on `r` -/

theorem peekLine_keeps (hI : NoR I) : Keeps I peekLine := by
  intro s a s' hs h
  unfold peekLine at h
  cases hp : s.r.peekLine with
  | error e => rw [hp] at h; cases h
  | ok p => rw [hp] at h; cases h; exact hI.h _ _ hs

theorem lineOffset_keeps (hI : NoR I) : Keeps I lineOffset := by
  intro s a s' hs h
  unfold lineOffset at h
  cases hp : s.r.lineOffsetOp with
  | error e => rw [hp] at h; cases h
  | ok p => rw [hp] at h; cases h; exact hI.h _ _ hs

theorem advance_keeps (hI : NoR I) (n : Int) : Keeps I (advance n) := by
  intro s a s' hs h
  unfold advance at h
  cases hp : s.r.advance n with
  | error e => rw [hp] at h; cases h
  | ok p => rw [hp] at h; cases h; exact hI.h _ _ hs

theorem advanceAndSetPadding_keeps (hI : NoR I) (n p : Int) : Keeps I (advanceAndSetPadding n p) := by
  intro s a s' hs h
  unfold advanceAndSetPadding at h
  cases hp : s.r.advanceAndSetPadding n p with
  | error e => rw [hp] at h; cases h
  | ok q => rw [hp] at h; cases h; exact hI.h _ _ hs

theorem advanceLine_keeps (hI : NoR I) : Keeps I advanceLine := by
  intro s a s' hs h; cases h; exact hI.h _ _ hs

theorem setPosition_keeps (hI : NoR I) (l : Int) (p : Segment) : Keeps I (setPosition l p) := by
  intro s a s' hs h; cases h; exact hI.h _ _ hs

theorem skipBlankLinesR_keeps (hI : NoR I) : Keeps I skipBlankLinesR := by
  intro s a s' hs h
  unfold skipBlankLinesR at h
  cases hp : skipBlankLines readerOps (loopFuel s.r.source) 0 s.r with
  | error e => rw [hp] at h; cases h
  | ok q => rw [hp] at h; cases h; exact hI.h _ _ hs

/-! the node store primitives keep `I` when `I` does not depend on `nodes` -/

theorem modNode_keeps (hI : NoNodes I) (id : Nat) (f : Node → Node) : Keeps I (modNode id f) := by
  intro s a s' hs h; cases h; exact hI.h _ _ hs

theorem newNode_keeps (hI : NoNodes I) (n : Node) : Keeps I (newNode n) := by
  intro s a s' hs h; cases h; exact hI.h _ _ hs

theorem appendLine_keeps (hI : NoNodes I) (id : Nat) (seg : Segment) : Keeps I (appendLine id seg) :=
  modNode_keeps hI _ _

/-- `modPc f` keeps `I` when `f` does -/
theorem modPc_keeps (f : Ctx → Ctx) (hf : ∀ s, I s → I { s with pc := f s.pc }) : Keeps I (modPc f) := by
  intro s a s' hs h; cases h; exact hf s hs

end calculus

/-- the invariant does not look at the reader or the node store and is closed under the writes to the parse
    context that the block parsers make unconditionally (`skipList`, `emptyItemBlank`; reset of `tmpPara`
    and `fence`) -/
structure PcMods (I : St → Prop) : Prop where
  noR : NoR I
  noNodes : NoNodes I
  skipList : ∀ s b, I s → I { s with pc := { s.pc with skipList := b } }
  emptyItemBlank : ∀ s b, I s → I { s with pc := { s.pc with emptyItemBlank := b } }
  tmpNone : ∀ s, I s → I { s with pc := { s.pc with tmpPara := none } }
  fenceNone : ∀ s, I s → I { s with pc := { s.pc with fence := none } }

/-- the invariant looks only at the fields of the parse context that no block parser writes -/
structure PcFrame (I : St → Prop) : Prop where
  h : ∀ s s', I s → s'.pc.opened = s.pc.opened → s'.pc.blockOffset = s.pc.blockOffset →
    s'.pc.blockIndent = s.pc.blockIndent → I s'

theorem PcFrame.mods {I} (h : PcFrame I) : PcMods I where
  noR := ⟨fun s _ hs => h.h s _ hs rfl rfl rfl⟩
  noNodes := ⟨fun s _ hs => h.h s _ hs rfl rfl rfl⟩
  skipList := fun s _ hs => h.h s _ hs rfl rfl rfl
  emptyItemBlank := fun s _ hs => h.h s _ hs rfl rfl rfl
  tmpNone := fun s hs => h.h s _ hs rfl rfl rfl
  fenceNone := fun s hs => h.h s _ hs rfl rfl rfl

/-- `bind` where the continuation may use that its argument was returned from a state with `I` -/
theorem Keeps.bind_of {I : St → Prop} {α β} {m : M α} {f : α → M β} (hm : Keeps I m)
    (hf : ∀ a, (∃ s s', I s ∧ m s = .ok (a, s')) → Keeps I (f a)) : Keeps I (m >>= f) := by
  intro s b s' hs h
  simp only [Bind.bind, StateT.bind] at h
  cases hms : m s with
  | error e => rw [hms] at h; simp [Except.bind] at h
  | ok p =>
    rw [hms] at h
    simp only [Except.bind] at h
    exact hf p.1 ⟨s, p.2, hs, hms⟩ p.2 b s' (hm s p.1 p.2 hs hms) h

open Lean Elab Tactic Meta in
/-- `intro` when the goal is syntactically a `∀` / `→` (never unfolds a definition) -/
elab "intro_pi" : tactic => do
  let g ← getMainGoal
  let t ← instantiateMVars (← g.getType)
  if t.consumeMData.isForall then
    let (_, g') ← g.intro1
    replaceMainGoal [g']
  else
    throwError "not a pi"

macro "keeps_step" : tactic =>
  `(tactic| first
    | with_reducible apply Keeps.pure
    | with_reducible apply Keeps.bind
    | with_reducible apply Keeps.ite
    | with_reducible apply Keeps.throw
    | with_reducible apply getNode_keeps
    | with_reducible apply getPc_keeps
    | with_reducible apply source_keeps
    | with_reducible apply position_keeps
    | with_reducible apply get_keeps
    | with_reducible apply liftE_keeps
    | with_reducible apply lastOpenedBlock_keeps
    | (with_reducible apply peekLine_keeps; assumption)
    | (with_reducible apply lineOffset_keeps; assumption)
    | (with_reducible apply advance_keeps; assumption)
    | (with_reducible apply advanceAndSetPadding_keeps; assumption)
    | (with_reducible apply advanceLine_keeps; assumption)
    | (with_reducible apply setPosition_keeps; assumption)
    | (with_reducible apply skipBlankLinesR_keeps; assumption)
    | (with_reducible apply modNode_keeps; assumption)
    | (with_reducible apply newNode_keeps; assumption)
    | (with_reducible apply appendLine_keeps; assumption)
    | ((with_reducible apply modPc_keeps);
        first
        | assumption
        | (intro s hs;
           first
           | exact PcMods.skipList (by assumption) s _ hs
           | exact PcMods.emptyItemBlank (by assumption) s _ hs
           | exact PcMods.tmpNone (by assumption) s hs
           | exact PcMods.fenceNone (by assumption) s hs
           | (apply_hyp <;> first | assumption | omega | (dsimp only; omega))))
    | apply_hyp
    | intro_pi
    | split)

/-- walk over an `M` do block -/
macro "keeps" : tactic => `(tactic| repeat' keeps_step)

section parsers
variable {I : St → Prop} (hI : PcMods I)
include hI

theorem removeChild_keeps (p c : Nat) : Keeps I (removeChild p c) := by
  have := hI.noNodes
  unfold removeChild; keeps

theorem ensureIsolated_keeps (c : Nat) : Keeps I (ensureIsolated c) := by
  have := removeChild_keeps hI
  unfold ensureIsolated; keeps

theorem appendChild_keeps (p c : Nat) : Keeps I (appendChild p c) := by
  have := hI.noNodes
  have := ensureIsolated_keeps hI
  unfold appendChild; keeps

theorem insertBefore_keeps (p : Nat) (v1 : Option Nat) (ins : Nat) : Keeps I (insertBefore p v1 ins) := by
  have := hI.noNodes
  have := ensureIsolated_keeps hI
  have := appendChild_keeps hI
  unfold insertBefore; keeps

theorem nextSibling_keeps (c : Nat) : Keeps I (nextSibling c) := by
  unfold nextSibling; keeps

theorem insertAfter_keeps (p : Nat) (v1 : Option Nat) (ins : Nat) : Keeps I (insertAfter p v1 ins) := by
  have := appendChild_keeps hI
  have := nextSibling_keeps hI
  have := insertBefore_keeps hI
  unfold insertAfter; keeps

theorem replaceChild_keeps (p v1 ins : Nat) : Keeps I (replaceChild p v1 ins) := by
  have := insertBefore_keeps hI
  have := removeChild_keeps hI
  unfold replaceChild; keeps

theorem preserveLeadingTab_keeps (seg : Segment) (ind : Int) : Keeps I (preserveLeadingTab seg ind) := by
  have := hI.noR
  unfold preserveLeadingTab; keeps

theorem paragraphOpen_keeps (p : Nat) : Keeps I (paragraphOpen p) := by
  have := hI.noR; have := hI.noNodes
  unfold paragraphOpen; keeps

theorem paragraphContinue_keeps (n : Nat) : Keeps I (paragraphContinue n) := by
  have := hI.noR; have := hI.noNodes
  unfold paragraphContinue; keeps

theorem paragraphClose_keeps (n : Nat) : Keeps I (paragraphClose n) := by
  have := hI.noNodes
  have := removeChild_keeps hI
  unfold paragraphClose; keeps

theorem thematicOpen_keeps (p : Nat) : Keeps I (thematicOpen p) := by
  have := hI.noR; have := hI.noNodes
  unfold thematicOpen; keeps

theorem atxOpen_keeps (p : Nat) : Keeps I (atxOpen p) := by
  have := hI.noR; have := hI.noNodes
  unfold atxOpen; keeps

/-- `setextOpen` sets `tmpPara` to the node of the last opened block -/
theorem setextOpen_keeps_gen (p : Nat)
    (hsome : ∀ lb s, I s → s.pc.opened.getLast? = some lb →
      ∀ s2, I s2 → I { s2 with pc := { s2.pc with tmpPara := some lb.node } }) :
    Keeps I (setextOpen p) := by
  have := hI.noR; have := hI.noNodes
  unfold setextOpen
  refine Keeps.bind_of lastOpenedBlock_keeps ?_
  intro a ha
  obtain ⟨s, s', hs, hm⟩ := ha
  cases hm
  split
  · exact Keeps.pure _
  · rename_i lb heq
    have := hsome lb s hs heq
    keeps

/-- `setextClose` resets `tmpPara` -/
theorem setextClose_keeps (n : Nat) : Keeps I (setextClose n) := by
  have := hI.noNodes
  have := removeChild_keeps hI
  have := insertAfter_keeps hI
  have := nextSibling_keeps hI
  unfold setextClose; keeps

theorem codeTakeLine_keeps (n : Nat) (pos padding : Int) : Keeps I (codeTakeLine n pos padding) := by
  have := hI.noR; have := hI.noNodes
  have := preserveLeadingTab_keeps hI
  unfold codeTakeLine; keeps

theorem codeOpen_keeps (p : Nat) : Keeps I (codeOpen p) := by
  have := hI.noR; have := hI.noNodes
  have := codeTakeLine_keeps hI
  unfold codeOpen; keeps

theorem codeContinue_keeps (n : Nat) : Keeps I (codeContinue n) := by
  have := hI.noR; have := hI.noNodes
  have := codeTakeLine_keeps hI
  unfold codeContinue; keeps

theorem codeClose_keeps (n : Nat) : Keeps I (codeClose n) := by
  have := hI.noNodes
  unfold codeClose; keeps

/-- `fencedOpen` sets `fence` to a record with `indent = pc.blockOffset ≥ 0` -/
theorem fencedOpen_keeps_gen (p : Nat)
    (hfence : ∀ f : FenceData, 0 ≤ f.indent → ∀ s, I s → I { s with pc := { s.pc with fence := some f } }) :
    Keeps I (fencedOpen p) := by
  have := hI.noR; have := hI.noNodes
  unfold fencedOpen; keeps

theorem fencedContinue_keeps (n : Nat) : Keeps I (fencedContinue n) := by
  have := hI.noR; have := hI.noNodes
  have := preserveLeadingTab_keeps hI
  unfold fencedContinue; keeps

theorem fencedClose_keeps (n : Nat) : Keeps I (fencedClose n) := by
  unfold fencedClose; keeps

theorem blockquoteProcess_keeps : Keeps I blockquoteProcess := by
  have := hI.noR
  unfold blockquoteProcess; keeps

theorem blockquoteOpen_keeps (p : Nat) : Keeps I (blockquoteOpen p) := by
  have := hI.noNodes
  have := blockquoteProcess_keeps hI
  unfold blockquoteOpen; keeps

theorem blockquoteContinue_keeps (n : Nat) : Keeps I (blockquoteContinue n) := by
  have := blockquoteProcess_keeps hI
  unfold blockquoteContinue; keeps

theorem lastOffset_keeps (n : Nat) : Keeps I (lastOffset n) := by
  unfold lastOffset; keeps

theorem lastChildCount_keeps (n : Nat) : Keeps I (lastChildCount n) := by
  unfold lastChildCount; keeps

theorem listOpen_keeps (p : Nat) : Keeps I (listOpen p) := by
  have := hI.noR; have := hI.noNodes
  unfold listOpen; keeps

theorem listContinue_keeps (n : Nat) : Keeps I (listContinue n) := by
  have := hI.noR
  have := lastOffset_keeps hI
  have := lastChildCount_keeps hI
  unfold listContinue; keeps

theorem tightenItem_keeps (child : Nat) (gcs : List Nat) : Keeps I (tightenItem child gcs) := by
  have := hI.noNodes
  have := replaceChild_keeps hI
  induction gcs with
  | nil => unfold tightenItem; keeps
  | cons gc gcs ih => unfold tightenItem; keeps

theorem tightenItems_keeps (cs : List Nat) : Keeps I (tightenItems cs) := by
  have := tightenItem_keeps hI
  induction cs with
  | nil => unfold tightenItems; keeps
  | cons c cs ih => unfold tightenItems; keeps

theorem listClose_keeps (n : Nat) : Keeps I (listClose n) := by
  have := hI.noNodes
  have := tightenItems_keeps hI
  unfold listClose; keeps

theorem listItemOpen_keeps (p : Nat) : Keeps I (listItemOpen p) := by
  have := hI.noR; have := hI.noNodes
  have := lastOffset_keeps hI
  unfold listItemOpen; keeps

theorem listItemContinue_keeps (n : Nat) : Keeps I (listItemContinue n) := by
  have := hI.noR
  have := lastOffset_keeps hI
  unfold listItemContinue; keeps

theorem htmlOpen_keeps (p : Nat) : Keeps I (htmlOpen p) := by
  have := hI.noR; have := hI.noNodes
  unfold htmlOpen; keeps

theorem htmlContinue_keeps (n : Nat) : Keeps I (htmlContinue n) := by
  have := hI.noR; have := hI.noNodes
  unfold htmlContinue; keeps

theorem bpOpen_keeps_gen (bp : BP) (p : Nat)
    (hsome : ∀ lb s, I s → s.pc.opened.getLast? = some lb →
      ∀ s2, I s2 → I { s2 with pc := { s2.pc with tmpPara := some lb.node } })
    (hfence : ∀ f : FenceData, 0 ≤ f.indent → ∀ s, I s → I { s with pc := { s.pc with fence := some f } }) :
    Keeps I (bpOpen bp p) := by
  cases bp <;> unfold bpOpen
  · exact setextOpen_keeps_gen hI p hsome
  · exact thematicOpen_keeps hI p
  · exact listOpen_keeps hI p
  · exact listItemOpen_keeps hI p
  · exact codeOpen_keeps hI p
  · exact atxOpen_keeps hI p
  · exact fencedOpen_keeps_gen hI p hfence
  · exact blockquoteOpen_keeps hI p
  · exact htmlOpen_keeps hI p
  · exact paragraphOpen_keeps hI p

theorem bpContinue_keeps (bp : BP) (n : Nat) : Keeps I (bpContinue bp n) := by
  cases bp <;> unfold bpContinue
  · exact Keeps.pure _
  · exact Keeps.pure _
  · exact listContinue_keeps hI n
  · exact listItemContinue_keeps hI n
  · exact codeContinue_keeps hI n
  · exact Keeps.pure _
  · exact fencedContinue_keeps hI n
  · exact blockquoteContinue_keeps hI n
  · exact htmlContinue_keeps hI n
  · exact paragraphContinue_keeps hI n

theorem bpClose_keeps (bp : BP) (n : Nat) : Keeps I (bpClose bp n) := by
  cases bp <;> unfold bpClose
  · exact setextClose_keeps hI n
  · exact Keeps.pure _
  · exact listClose_keeps hI n
  · exact Keeps.pure _
  · exact codeClose_keeps hI n
  · exact Keeps.pure _
  · exact fencedClose_keeps hI n
  · exact Keeps.pure _
  · exact Keeps.pure _
  · exact paragraphClose_keeps hI n

end parsers

section pcframe
variable {I : St → Prop} (hI : PcFrame I)
include hI

theorem setextOpen_keeps (p : Nat) : Keeps I (setextOpen p) :=
  setextOpen_keeps_gen hI.mods p fun _ _ _ _ s2 h2 => hI.h s2 _ h2 rfl rfl rfl

theorem fencedOpen_keeps (p : Nat) : Keeps I (fencedOpen p) :=
  fencedOpen_keeps_gen hI.mods p fun _ _ s2 h2 => hI.h s2 _ h2 rfl rfl rfl

theorem bpOpen_keeps (bp : BP) (p : Nat) : Keeps I (bpOpen bp p) :=
  bpOpen_keeps_gen hI.mods bp p (fun _ _ _ _ s2 h2 => hI.h s2 _ h2 rfl rfl rfl)
    (fun _ _ s2 h2 => hI.h s2 _ h2 rfl rfl rfl)

end pcframe

/-! ### the instance `pc.opened = L` -/

/-- `pc.opened` is the list `L` -/
def OpenedIs (L : List Block) : St → Prop := fun s => s.pc.opened = L

theorem openedIs_frame (L : List Block) : PcFrame (OpenedIs L) :=
  ⟨fun _ _ hs ho _ _ => ho.trans hs⟩

theorem blockOffsetIs_frame (v : Int) : PcFrame (fun s => s.pc.blockOffset = v) :=
  ⟨fun _ _ hs _ ho _ => ho.trans hs⟩

theorem blockIndentIs_frame (v : Int) : PcFrame (fun s => s.pc.blockIndent = v) :=
  ⟨fun _ _ hs _ _ ho => ho.trans hs⟩

theorem bpOpen_opened (bp : BP) (parent : Nat) (s s' : St) (a : Option Nat × PState)
    (h : bpOpen bp parent s = .ok (a, s')) : s'.pc.opened = s.pc.opened :=
  bpOpen_keeps (openedIs_frame s.pc.opened) bp parent s a s' rfl h

theorem bpContinue_opened (bp : BP) (node : Nat) (s s' : St) (a : PState)
    (h : bpContinue bp node s = .ok (a, s')) : s'.pc.opened = s.pc.opened :=
  bpContinue_keeps (openedIs_frame s.pc.opened).mods bp node s a s' rfl h

theorem bpClose_opened (bp : BP) (node : Nat) (s s' : St) (a : Unit)
    (h : bpClose bp node s = .ok (a, s')) : s'.pc.opened = s.pc.opened :=
  bpClose_keeps (openedIs_frame s.pc.opened).mods bp node s a s' rfl h

theorem appendChild_opened (p c : Nat) (s s' : St) (a : Unit)
    (h : appendChild p c s = .ok (a, s')) : s'.pc.opened = s.pc.opened :=
  appendChild_keeps (openedIs_frame s.pc.opened).mods p c s a s' rfl h

theorem removeChild_opened (p c : Nat) (s s' : St) (a : Unit)
    (h : removeChild p c s = .ok (a, s')) : s'.pc.opened = s.pc.opened :=
  removeChild_keeps (openedIs_frame s.pc.opened).mods p c s a s' rfl h

/-! ### the temporary paragraph key never points to node 0 -/

/-- `pc.tmpPara` is not node 0 -/
def TmpNot0 : St → Prop := fun s => s.pc.tmpPara ≠ some 0

theorem tmpNot0_mods : PcMods TmpNot0 where
  noR := ⟨fun _ _ hs => hs⟩
  noNodes := ⟨fun _ _ hs => hs⟩
  skipList := fun _ _ hs => hs
  emptyItemBlank := fun _ _ hs => hs
  tmpNone := fun _ _ he => nomatch he
  fenceNone := fun _ hs => hs

theorem openedTmp_mods (L : List Block) : PcMods (fun s => s.pc.opened = L ∧ s.pc.tmpPara ≠ some 0) where
  noR := ⟨fun _ _ hs => hs⟩
  noNodes := ⟨fun _ _ hs => hs⟩
  skipList := fun _ _ hs => hs
  emptyItemBlank := fun _ _ hs => hs
  tmpNone := fun _ hs => ⟨hs.1, fun he => nomatch he⟩
  fenceNone := fun _ hs => hs

theorem bpOpen_tmp (bp : BP) (parent : Nat) (s s' : St) (a : Option Nat × PState)
    (h : bpOpen bp parent s = .ok (a, s')) (hn : ∀ b ∈ s.pc.opened, b.node ≠ 0)
    (ht : s.pc.tmpPara ≠ some 0) : s'.pc.tmpPara ≠ some 0 := by
  have hk := bpOpen_keeps_gen (openedTmp_mods s.pc.opened) bp parent (by
    intro lb s1 hs1 heq s2 hs2
    refine ⟨hs2.1, ?_⟩
    have hmem : lb ∈ s.pc.opened := by
      rw [← hs1.1]
      exact List.mem_of_getLast? heq
    intro he
    exact hn lb hmem (Option.some.inj he)) (fun _ _ _ hs2 => hs2)
  exact (hk s a s' ⟨rfl, ht⟩ h).2

theorem bpContinue_tmp (bp : BP) (node : Nat) (s s' : St) (a : PState)
    (h : bpContinue bp node s = .ok (a, s')) (ht : s.pc.tmpPara ≠ some 0) : s'.pc.tmpPara ≠ some 0 :=
  bpContinue_keeps tmpNot0_mods bp node s a s' ht h

theorem bpClose_tmp (bp : BP) (node : Nat) (s s' : St) (a : Unit)
    (h : bpClose bp node s = .ok (a, s')) (ht : s.pc.tmpPara ≠ some 0) : s'.pc.tmpPara ≠ some 0 :=
  bpClose_keeps tmpNot0_mods bp node s a s' ht h

/-! ### the fenced code block key keeps a non-negative indent -/

/-- the `indent` of the fence data in the parse context is not negative -/
def FenceIndOK (s : St) : Prop := ∀ f, s.pc.fence = some f → 0 ≤ f.indent

theorem fenceIndOK_mods : PcMods FenceIndOK where
  noR := ⟨fun _ _ hs => hs⟩
  noNodes := ⟨fun _ _ hs => hs⟩
  skipList := fun _ _ hs => hs
  emptyItemBlank := fun _ _ hs => hs
  tmpNone := fun _ hs => hs
  fenceNone := fun _ _ _ he => nomatch he

theorem bpOpen_fence (bp : BP) (parent : Nat) (s s' : St) (a : Option Nat × PState)
    (h : bpOpen bp parent s = .ok (a, s')) (hf : FenceIndOK s) : FenceIndOK s' :=
  bpOpen_keeps_gen fenceIndOK_mods bp parent (fun _ _ _ _ _ hs2 => hs2)
    (fun f hf0 _ _ g hg => by cases hg; exact hf0) s a s' hf h

theorem bpContinue_fence (bp : BP) (node : Nat) (s s' : St) (a : PState)
    (h : bpContinue bp node s = .ok (a, s')) (hf : FenceIndOK s) : FenceIndOK s' :=
  bpContinue_keeps fenceIndOK_mods bp node s a s' hf h

theorem bpClose_fence (bp : BP) (node : Nat) (s s' : St) (a : Unit)
    (h : bpClose bp node s = .ok (a, s')) (hf : FenceIndOK s) : FenceIndOK s' :=
  bpClose_keeps fenceIndOK_mods bp node s a s' hf h

/-! ### only `setextOpen` answers `RequireParagraph` -/

/-- the parser did not answer `RequireParagraph` -/
def NoReqPara (a : Option Nat × PState) : Prop := a.2.requirePara = false

theorem paragraphOpen_noReq (p : Nat) : Ret (paragraphOpen p) NoReqPara := by unfold paragraphOpen NoReqPara; ret
theorem thematicOpen_noReq (p : Nat) : Ret (thematicOpen p) NoReqPara := by unfold thematicOpen NoReqPara; ret
theorem atxOpen_noReq (p : Nat) : Ret (atxOpen p) NoReqPara := by unfold atxOpen NoReqPara; ret
theorem codeOpen_noReq (p : Nat) : Ret (codeOpen p) NoReqPara := by unfold codeOpen NoReqPara; ret
theorem fencedOpen_noReq (p : Nat) : Ret (fencedOpen p) NoReqPara := by unfold fencedOpen NoReqPara; ret
theorem htmlOpen_noReq (p : Nat) : Ret (htmlOpen p) NoReqPara := by unfold htmlOpen NoReqPara; ret
theorem blockquoteOpen_noReq (p : Nat) : Ret (blockquoteOpen p) NoReqPara := by
  unfold blockquoteOpen NoReqPara; ret
theorem listOpen_noReq (p : Nat) : Ret (listOpen p) NoReqPara := by unfold listOpen NoReqPara; ret
theorem listItemOpen_noReq (p : Nat) : Ret (listItemOpen p) NoReqPara := by unfold listItemOpen NoReqPara; ret

/-- without a last opened block `setextOpen` answers `(nil, NoChildren)` and leaves the state alone -/
theorem setextOpen_none_qs (parent : Nat) (s : St) (h : s.pc.opened.getLast? = none) :
    setextOpen parent s = .ok ((none, stNoChildren), s) := by
  unfold setextOpen
  show (lastOpenedBlock >>= _) s = _
  simp only [Bind.bind, StateT.bind, lastOpenedBlock_eq, Except.bind, h]
  rfl

theorem setextOpen_requirePara (parent : Nat) (s s' : St) (a : Option Nat × PState)
    (h : setextOpen parent s = .ok (a, s')) (hr : a.2.requirePara = true) :
    s.pc.opened.getLast? ≠ none := by
  intro hn
  rw [setextOpen_none_qs parent s hn] at h
  cases h
  cases hr

theorem requirePara_setext (bp : BP) (parent : Nat) (s s' : St) (a : Option Nat × PState)
    (h : bpOpen bp parent s = .ok (a, s')) (hr : a.2.requirePara = true) :
    bp = .setext ∧ s.pc.opened.getLast? ≠ none := by
  cases bp <;> unfold bpOpen at h
  · exact ⟨rfl, setextOpen_requirePara parent s s' a h hr⟩
  · have := (thematicOpen_noReq parent).h s a s' h; unfold NoReqPara at this; rw [this] at hr; cases hr
  · have := (listOpen_noReq parent).h s a s' h; unfold NoReqPara at this; rw [this] at hr; cases hr
  · have := (listItemOpen_noReq parent).h s a s' h; unfold NoReqPara at this; rw [this] at hr; cases hr
  · have := (codeOpen_noReq parent).h s a s' h; unfold NoReqPara at this; rw [this] at hr; cases hr
  · have := (atxOpen_noReq parent).h s a s' h; unfold NoReqPara at this; rw [this] at hr; cases hr
  · have := (fencedOpen_noReq parent).h s a s' h; unfold NoReqPara at this; rw [this] at hr; cases hr
  · have := (blockquoteOpen_noReq parent).h s a s' h; unfold NoReqPara at this; rw [this] at hr; cases hr
  · have := (htmlOpen_noReq parent).h s a s' h; unfold NoReqPara at this; rw [this] at hr; cases hr
  · have := (paragraphOpen_noReq parent).h s a s' h; unfold NoReqPara at this; rw [this] at hr; cases hr

end GM.Blocks
