import GM.Model.Table
import GM.Spec.Table

namespace GM.Proof.Table
open GM GM.Table

/-! ### parseRow: number of cells, alignments, padding -/

/-- the cells written in the source, counted from column `i`: each has a line and its column's alignment -/
def Written (aligns : List Align) (i : Nat) (w : List Cell) : Prop :=
  ∀ k c, w[k]? = some c → c.seg.isSome = true ∧ c.align = aligns.getD (i + k) Align.none

/-- the padding that follows `n` cells: none for a header, up to the column count for a body row -/
def padding (aligns : List Align) (isHeader : Bool) (n : Nat) : List Cell :=
  if isHeader then [] else List.replicate (aligns.length - n) padCell

theorem written_cons {aligns : List Align} {i : Nat} {c : Cell} {w : List Cell}
    (hc : c.seg.isSome = true ∧ c.align = aligns.getD i Align.none) (hw : Written aligns (i + 1) w) :
    Written aligns i (c :: w) := by
  intro k c' h
  cases k with
  | zero => simp at h; subst h; simpa using hc
  | succ k =>
    simp at h
    have := hw k c' h
    rw [show i + (k + 1) = i + 1 + k by omega]; exact this

/-- Shape of what the two loops of parseRow build from cell index `i` on: written cells, then padding. -/
theorem rowLoop_shape (src line : Bytes) (limit segStart : Nat) (aligns : List Align) (isHeader : Bool)
    (pos i : Nat) :
    ∃ w : List Cell,
      rowLoop src line limit segStart aligns isHeader pos i = w ++ padding aligns isHeader (i + w.length) ∧
      Written aligns i w ∧
      (isHeader = false → i ≤ aligns.length → i + w.length ≤ aligns.length) := by
  fun_induction rowLoop src line limit segStart aligns isHeader pos i with
  | case1 pos i h hret =>
    refine ⟨[], ?_, ?_, ?_⟩
    · simp at hret
      simp [padding, hret.2]; omega
    · intro k c h; simp at h
    · intro _ h; simpa using h
  | case2 pos i h hret alignment r ih =>
    obtain ⟨w, h1, h2, h3⟩ := ih
    refine ⟨{ align := alignment, seg := some (cellSeg src segStart pos r.fst), esc := r.snd } :: w, ?_, ?_, ?_⟩
    · rw [h1]; simp [show i + 1 + w.length = i + (w.length + 1) by omega]
    · exact written_cons ⟨rfl, rfl⟩ h2
    · intro hh hi
      simp [hh] at hret
      have := h3 hh (by omega)
      simp; omega
  | case3 pos i h hh =>
    exact ⟨[], by simp [padding, hh], by intro k c h; simp at h, by intro h; simp [hh] at h⟩
  | case4 pos i h hh =>
    refine ⟨[], ?_, by intro k c h; simp at h, by intro _ h; simpa using h⟩
    simp at hh
    simp [padding, hh]

theorem parseRow_shape (src : Bytes) (seg : Seg) (aligns : List Align) (isHeader : Bool) :
    ∃ w : List Cell,
      parseRow src seg aligns isHeader = w ++ padding aligns isHeader w.length ∧
      Written aligns 0 w ∧ (isHeader = false → w.length ≤ aligns.length) := by
  unfold parseRow
  obtain ⟨w, h1, h2, h3⟩ := rowLoop_shape src
    (Seg.value src ((seg.trimLeft src).trimRight src))
    (if (Seg.value src ((seg.trimLeft src).trimRight src)).getLast? = some 124
      then (Seg.value src ((seg.trimLeft src).trimRight src)).length - 1
      else (Seg.value src ((seg.trimLeft src).trimRight src)).length)
    ((seg.trimLeft src).trimRight src).start aligns isHeader
    (if (Seg.value src ((seg.trimLeft src).trimRight src)).head? = some 124 then 1 else 0) 0
  refine ⟨w, ?_, h2, ?_⟩
  · simpa using h1
  · intro hh; simpa using h3 hh (Nat.zero_le _)

/-- body rows: padded / truncated to the number of columns -/
theorem parseRow_len (src : Bytes) (seg : Seg) (aligns : List Align) :
    (parseRow src seg aligns false).length = aligns.length := by
  obtain ⟨w, h1, _, h3⟩ := parseRow_shape src seg aligns false
  have := h3 rfl
  rw [h1]; simp [padding]; omega

/-- header rows are never padded: all their cells are written in the source -/
theorem parseRow_header_written (src : Bytes) (seg : Seg) (aligns : List Align) :
    ∀ c ∈ parseRow src seg aligns true, c.seg.isSome = true := by
  obtain ⟨w, h1, h2, _⟩ := parseRow_shape src seg aligns true
  intro c hc
  rw [h1] at hc
  simp [padding] at hc
  obtain ⟨k, hk, rfl⟩ := List.getElem_of_mem hc
  exact (h2 k _ (by simp [hk])).1

/-- every cell of a row is a written cell carrying its column's alignment, or a padding cell -/
theorem parseRow_cell (src : Bytes) (seg : Seg) (aligns : List Align) (isHeader : Bool) (k : Nat) (c : Cell)
    (h : (parseRow src seg aligns isHeader)[k]? = some c) :
    (c.seg.isSome = true ∧ c.align = aligns.getD k Align.none) ∨ (c = padCell ∧ isHeader = false) := by
  obtain ⟨w, h1, h2, _⟩ := parseRow_shape src seg aligns isHeader
  rw [h1] at h
  by_cases hk : k < w.length
  · rw [List.getElem?_append_left hk] at h
    left; simpa using h2 k c h
  · rw [List.getElem?_append_right (by omega)] at h
    right
    cases isHeader with
    | true => simp [padding] at h
    | false =>
      simp only [padding, Bool.false_eq_true, if_false] at h
      have := List.mem_of_getElem? h
      simp at this
      exact ⟨this.2, rfl⟩

/-- cell `k` written in the source carries the alignment of column `k` -/
theorem parseRow_align (src : Bytes) (seg : Seg) (aligns : List Align) (isHeader : Bool) (k : Nat) (c : Cell)
    (h : (parseRow src seg aligns isHeader)[k]? = some c) (hw : c.seg.isSome = true) :
    c.align = aligns.getD k Align.none := by
  rcases parseRow_cell src seg aligns isHeader k c h with h | ⟨h, _⟩
  · exact h.2
  · subst h; simp [padCell] at hw

/-- padding cells only follow written cells: the cells written in the source form a prefix of the row -/
theorem parseRow_written_prefix (src : Bytes) (seg : Seg) (aligns : List Align) (isHeader : Bool) :
    ∃ n : Nat, ∀ (k : Nat) (c : Cell), (parseRow src seg aligns isHeader)[k]? = some c → (c.seg.isSome = true ↔ k < n) := by
  obtain ⟨w, h1, h2, _⟩ := parseRow_shape src seg aligns isHeader
  refine ⟨w.length, ?_⟩
  intro k c h
  rw [h1] at h
  by_cases hk : k < w.length
  · rw [List.getElem?_append_left hk] at h
    simp [hk, (h2 k c h).1]
  · rw [List.getElem?_append_right (by omega)] at h
    cases isHeader with
    | true => simp [padding] at h
    | false =>
      simp only [padding, Bool.false_eq_true, if_false] at h
      have := List.mem_of_getElem? h
      simp at this
      simp [hk, this.2, padCell]


/-! ### parseDelimiter -/

theorem dashes1_head {s r : Bytes} (h : dashes1 s = some r) : (45 : UInt8) ∈ s := by
  cases s with
  | nil => simp [dashes1] at h
  | cons x xs =>
    simp only [dashes1] at h
    split at h
    · rename_i hx; simp at hx; simp [hx]
    · simp at h

theorem eat_tail {c : UInt8} {s r : Bytes} (h : eat c s = some r) : ∀ x ∈ r, x ∈ s := by
  cases s with
  | nil => simp [eat] at h
  | cons y ys =>
    simp only [eat] at h
    split at h
    · simp at h; subst h; intro x hx; simp [hx]
    · simp at h

theorem mem_skipWs {x : UInt8} {s : Bytes} (h : x ∈ skipWs s) : x ∈ s :=
  (List.dropWhile_suffix reSpace).subset h

theorem classify_dash {col : Bytes} {a : Align} (h : classify col = some a) : (45 : UInt8) ∈ col := by
  unfold classify at h
  have left : tableDelimLeft col = true → (45 : UInt8) ∈ col := by
    unfold tableDelimLeft
    split
    · rename_i r hr
      split
      · rename_i r2 hr2; intro _; exact mem_skipWs (eat_tail hr _ (dashes1_head hr2))
      · simp
    · simp
  have right : tableDelimRight col = true → (45 : UInt8) ∈ col := by
    unfold tableDelimRight
    split
    · rename_i r hr; intro _; exact mem_skipWs (dashes1_head hr)
    · simp
  have center : tableDelimCenter col = true → (45 : UInt8) ∈ col := by
    unfold tableDelimCenter
    split
    · rename_i r hr
      split
      · rename_i r2 hr2; intro _; exact mem_skipWs (eat_tail hr _ (dashes1_head hr2))
      · simp
    · simp
  have nonee : tableDelimNone col = true → (45 : UInt8) ∈ col := by
    unfold tableDelimNone
    split
    · rename_i r hr; intro _; exact mem_skipWs (dashes1_head hr)
    · simp
  split at h
  · exact left ‹_›
  · split at h
    · exact right ‹_›
    · split at h
      · exact center ‹_›
      · split at h
        · exact nonee ‹_›
        · simp at h

theorem splitPipe_ne_nil (l : Bytes) : splitPipe l ≠ [] := by
  cases l with
  | nil => simp [splitPipe]
  | cons c cs =>
    simp only [splitPipe]
    split
    · simp
    · split <;> simp

theorem splitPipe_mem (l : Bytes) : ∀ col ∈ splitPipe l, ∀ x ∈ col, x ∈ l := by
  induction l with
  | nil => intro col h x hx; simp [splitPipe] at h; subst h; simp at hx
  | cons c cs ih =>
    intro col h x hx
    simp only [splitPipe] at h
    split at h
    · simp at h
      rcases h with rfl | h
      · simp at hx
      · exact List.mem_cons_of_mem _ (ih col h x hx)
    · split at h
      · rename_i hd tl heq
        simp at h
        rcases h with rfl | h
        · simp at hx
          rcases hx with rfl | hx
          · simp
          · exact List.mem_cons_of_mem _ (ih hd (by simp [heq]) x hx)
        · exact List.mem_cons_of_mem _ (ih col (by simp [heq, h]) x hx)
      · rename_i heq
        exact absurd heq (splitPipe_ne_nil cs)

theorem classifyAll_some {cols : List Bytes} {al : List Align} (h : classifyAll cols = some al) :
    al.length = cols.length ∧ ∀ col ∈ cols, (45 : UInt8) ∈ col := by
  induction cols generalizing al with
  | nil => simp [classifyAll] at h; subst h; simp
  | cons c cs ih =>
    simp only [classifyAll] at h
    split at h
    · simp at h
    · rename_i a ha
      split at h
      · simp at h
      · rename_i as has
        simp at h; subst h
        obtain ⟨h1, h2⟩ := ih has
        refine ⟨by simp [h1], ?_⟩
        intro col hcol
        simp at hcol
        rcases hcol with rfl | hcol
        · exact classify_dash ha
        · exact h2 col hcol

/-- A delimiter row yields at least one column and contains a `-`. -/
theorem parseDelimiter_some {line : Bytes} {al : List Align} (h : parseDelimiter line = some al) :
    al ≠ [] ∧ (45 : UInt8) ∈ line ∧ isTableDelim line = true := by
  unfold parseDelimiter at h
  split at h
  · simp at h
  · rename_i hd
    simp at hd
    simp only at h
    split at h
    · simp at h
    · simp at h
    · rename_i al' hne hcls
      simp at h; subst h
      refine ⟨by simpa using hne, ?_, hd⟩
      obtain ⟨hlen, hmem⟩ := classifyAll_some hcls
      -- the surviving columns are columns of the split
      generalize hc1 : (if isBlank ((splitPipe line).headD []) = true then (splitPipe line).tail else splitPipe line) = c1 at hcls hlen hmem
      have sub1 : ∀ col ∈ c1, col ∈ splitPipe line := by
        intro col hcol; rw [← hc1] at hcol
        split at hcol
        · exact List.mem_of_mem_tail hcol
        · exact hcol
      generalize hc2 : (if (!c1.isEmpty && isBlank (c1.getLastD [])) = true then c1.dropLast else c1) = c2 at hcls hlen hmem
      have sub2 : ∀ col ∈ c2, col ∈ c1 := by
        intro col hcol; rw [← hc2] at hcol
        split at hcol
        · exact (List.dropLast_subset c1) hcol
        · exact hcol
      cases c2 with
      | nil => simp at hlen; exact absurd hlen (by simpa using hne)
      | cons col rest =>
        have hd45 := hmem col (by simp)
        exact splitPipe_mem line col (sub1 col (sub2 col (by simp))) 45 hd45


/-! ### Transform -/

/-- the shape invariant of a table built by Transform -/
structure WellShaped (t : GM.Table.Table) : Prop where
  cols : t.aligns ≠ []
  header_len : t.header.length = t.aligns.length
  header_cells : ∀ k c, t.header[k]? = some c → c.seg.isSome = true ∧ c.align = t.aligns.getD k Align.none
  row_len : ∀ r ∈ t.rows, r.length = t.aligns.length
  row_cells : ∀ r ∈ t.rows, ∀ k c, r[k]? = some c →
    (c.seg.isSome = true ∧ c.align = t.aligns.getD k Align.none) ∨ c = padCell

theorem findTable_wellShaped (src : Bytes) (all before : List Seg) (prev : Seg) (rest : List Seg)
    (t : GM.Table.Table) (h : (findTable src all before prev rest).table = some t) : WellShaped t := by
  induction rest generalizing before prev with
  | nil => simp [findTable] at h
  | cons cur rest ih =>
    simp only [findTable] at h
    split at h
    · exact ih _ _ h
    · rename_i aligns hd
      split at h
      · simp at h
      · rename_i hlen
        simp at hlen
        simp at h; subst h
        refine ⟨(parseDelimiter_some hd).1, hlen.symm, ?_, ?_, ?_⟩
        · intro k c hk
          rcases parseRow_cell src prev aligns true k c hk with h | ⟨_, h⟩
          · exact h
          · simp at h
        · intro r hr
          simp at hr
          obtain ⟨l, _, rfl⟩ := hr
          exact parseRow_len src l aligns
        · intro r hr k c hk
          simp at hr
          obtain ⟨l, _, rfl⟩ := hr
          rcases parseRow_cell src l aligns false k c hk with h | ⟨h, _⟩
          · exact Or.inl h
          · exact Or.inr h

theorem transform_wellShaped (src : Bytes) (lines : List Seg) (t : GM.Table.Table)
    (h : (transform src lines).table = some t) : WellShaped t := by
  unfold transform at h
  split at h
  · simp at h
  · exact findTable_wellShaped _ _ _ _ _ _ h

/-- lines that are not delimiter rows are skipped -/
theorem findTable_skip (src : Bytes) (all : List Seg) (mid : List Seg) (before : List Seg) (prev hdr : Seg)
    (tail : List Seg) (hmid : ∀ l ∈ mid, parseDelimiter (l.value src) = Option.none)
    (hhdr : parseDelimiter (hdr.value src) = Option.none) :
    findTable src all before prev (mid ++ hdr :: tail) = findTable src all (before ++ prev :: mid) hdr tail := by
  induction mid generalizing before prev with
  | nil => simp [findTable, hhdr]
  | cons m ms ih =>
    have hm := hmid m (by simp)
    simp only [List.cons_append, findTable, hm]
    rw [ih _ _ (fun l hl => hmid l (by simp [hl]))]
    simp

/-- Transform on a paragraph whose first delimiter row (looking at lines 1, 2, …) is `dl`, preceded by `hdr`. -/
theorem transform_first_delim (src : Bytes) (pre : List Seg) (hdr dl : Seg) (rest : List Seg) (al : List Align)
    (hpre : ∀ l ∈ (pre ++ [hdr]).tail, parseDelimiter (l.value src) = Option.none)
    (hdl : parseDelimiter (dl.value src) = some al) :
    transform src (pre ++ hdr :: dl :: rest) =
      if al.length != (parseRow src hdr al true).length then
        { para := pre ++ hdr :: dl :: rest, table := Option.none }
      else
        { para := trimLastNewline pre,
          table := some { aligns := al, header := parseRow src hdr al true,
                          rows := rest.map fun l => parseRow src l al false } } := by
  cases pre with
  | nil => simp [transform, findTable, hdl]
  | cons first mid =>
    simp only [List.cons_append, transform]
    rw [findTable_skip src _ mid [] first hdr (dl :: rest)
      (fun l hl => hpre l (by simp [hl])) (hpre hdr (by simp))]
    simp [findTable, hdl]

/-! ### rendering -/

/-- the alignment a cell shows under the configured method -/
def vis (m : AlignMethod) (a : Align) : Align := if m == .nothing then Align.none else a

def toS (m : AlignMethod) (c : Cell) : Spec.Table.SCell := { a := vis m c.align, content := c.seg }

theorem renderCell_eq (m : AlignMethod) (th : Bool) (c : Cell) :
    renderCell m th c = Spec.Table.cellToks th (toS m c) := by
  simp [renderCell, Spec.Table.cellToks, toS, vis]

theorem cells_flatMap (m : AlignMethod) (th : Bool) (cs : List Cell) :
    cs.flatMap (renderCell m th) = (cs.map (toS m)).flatMap (Spec.Table.cellToks th) := by
  induction cs with
  | nil => rfl
  | cons c cs ih => simp [renderCell_eq, ih]

/-- body rows: each is `<tr>…</tr>`, the last one also closes `<tbody>` -/
theorem renderChildren_rows (m : AlignMethod) (rows : List (List Cell)) (hne : rows ≠ []) :
    renderChildren m (rows.map fun r => ({ isHeader := false, cells := r } : RowNode)) =
      (rows.map (List.map (toS m))).flatMap Spec.Table.rowToks ++ [Tok.tbodyClose] := by
  induction rows with
  | nil => exact absurd rfl hne
  | cons r rs ih =>
    cases rs with
    | nil => simp [renderChildren, renderRowNode, Spec.Table.rowToks, cells_flatMap]
    | cons r2 rs =>
      have := ih (by simp)
      simp only [List.map_cons] at this ⊢
      simp only [renderChildren] at this ⊢
      rw [this]
      simp [renderRowNode, Spec.Table.rowToks, cells_flatMap]

theorem renderSkeleton_eq (m : AlignMethod) (t : GM.Table.Table) :
    renderSkeleton m t =
      [Tok.tableOpen, Tok.theadOpen, Tok.trOpen] ++ (t.header.map (toS m)).flatMap (Spec.Table.cellToks true)
        ++ [Tok.trClose, Tok.theadClose] ++ Spec.Table.bodyToks (t.rows.map (List.map (toS m))) ++ [Tok.tableClose] := by
  unfold renderSkeleton renderNodes GM.Table.Table.children
  cases hr : t.rows with
  | nil => simp [renderChildren, renderRowNode, Spec.Table.bodyToks, cells_flatMap]
  | cons r rs =>
    simp only [renderChildren]
    rw [renderChildren_rows m (r :: rs) (by simp)]
    simp [renderRowNode, Spec.Table.bodyToks, cells_flatMap]

theorem rowFits_of_pointwise (r : List Spec.Table.SCell) (cols : List Align) (hlen : r.length = cols.length)
    (h : ∀ k c, r[k]? = some c → Spec.Table.cellFits c (cols.getD k Align.none)) : Spec.Table.rowFits r cols := by
  induction r generalizing cols with
  | nil => cases cols <;> simp_all [Spec.Table.rowFits]
  | cons c r ih =>
    cases cols with
    | nil => simp at hlen
    | cons col cols =>
      refine ⟨by simpa using h 0 c (by simp), ih cols (by simpa using hlen) ?_⟩
      intro k c' hk
      simpa using h (k + 1) c' (by simpa using hk)

theorem rendered_rectangular_of_wellShaped (m : AlignMethod) (t : GM.Table.Table) (h : WellShaped t) :
    Spec.Table.Rectangular (t.aligns.map (vis m)) (renderSkeleton m t) := by
  refine ⟨t.header.map (toS m), t.rows.map (List.map (toS m)), ?_, ?_, ?_, renderSkeleton_eq m t⟩
  · apply List.ext_getElem?
    intro k
    simp only [List.getElem?_map]
    cases hk : t.header[k]? with
    | none =>
      have : t.aligns[k]? = Option.none := by
        rw [List.getElem?_eq_none_iff] at hk ⊢; rw [← h.header_len]; exact hk
      simp [this]
    | some c =>
      have hlt : k < t.aligns.length := by
        rw [← h.header_len]; exact (List.getElem?_eq_some_iff.mp hk).1
      have := (h.header_cells k c hk).2
      simp [toS, this, List.getD_eq_getElem?_getD, List.getElem?_eq_getElem hlt]
  · intro c hc
    simp at hc
    obtain ⟨c', hc', rfl⟩ := hc
    obtain ⟨k, hk, rfl⟩ := List.getElem_of_mem hc'
    have := (h.header_cells k t.header[k] (by simp [hk])).1
    intro hnone
    simp [toS] at hnone
    simp [hnone] at this
  · intro r hr
    simp at hr
    obtain ⟨r', hr', rfl⟩ := hr
    apply rowFits_of_pointwise
    · simp [h.row_len r' hr']
    · intro k c hk
      simp only [List.getElem?_map] at hk
      cases hk' : r'[k]? with
      | none => simp [hk'] at hk
      | some c' =>
        simp [hk'] at hk; subst hk
        have hlt : k < t.aligns.length := by
          rw [← h.row_len r' hr']; exact (List.getElem?_eq_some_iff.mp hk').1
        rcases h.row_cells r' hr' k c' hk' with ⟨_, ha⟩ | hp
        · left
          simp [toS, ha, List.getD_eq_getElem?_getD, List.getElem?_eq_getElem hlt]
        · right
          subst hp
          simp [toS, padCell, vis]


/-! ### the grammar in counting terms -/

section counts
open GM.Spec.Table

/-- predicates that do not look at a cell's alignment or content -/
structure Uniform (p : Tok → Bool) : Prop where
  cell : ∀ th a, p (Tok.cellOpen th a) = p (Tok.cellOpen th Align.none)
  content : ∀ s, p (Tok.content s) = p (Tok.content Option.none)

def b (p : Tok → Bool) (t : Tok) : Nat := if p t then 1 else 0

def cellCount (p : Tok → Bool) (th : Bool) : Nat :=
  b p (Tok.cellOpen th Align.none) + b p (Tok.content Option.none) + b p (Tok.cellClose th)

theorem countP_cell (p : Tok → Bool) (hp : Uniform p) (th : Bool) (c : SCell) :
    (cellToks th c).countP p = cellCount p th := by
  simp [cellToks, List.countP_cons, cellCount, b, hp.cell th c.a, hp.content c.content]; omega

theorem countP_cells (p : Tok → Bool) (hp : Uniform p) (th : Bool) (cs : List SCell) :
    (cs.flatMap (cellToks th)).countP p = cellCount p th * cs.length := by
  induction cs with
  | nil => simp
  | cons c cs ih =>
    simp only [List.flatMap_cons, List.countP_append, ih, countP_cell p hp, List.length_cons, Nat.mul_succ]; omega

def rowCount (p : Tok → Bool) (n : Nat) : Nat := b p Tok.trOpen + cellCount p false * n + b p Tok.trClose

theorem countP_row (p : Tok → Bool) (hp : Uniform p) (r : List SCell) :
    (rowToks r).countP p = rowCount p r.length := by
  simp [rowToks, List.countP_cons, List.countP_append, countP_cells p hp, rowCount, b]; omega

theorem countP_rows (p : Tok → Bool) (hp : Uniform p) (rows : List (List SCell)) (n : Nat)
    (hlen : ∀ r ∈ rows, r.length = n) :
    (rows.flatMap rowToks).countP p = rowCount p n * rows.length := by
  induction rows with
  | nil => simp
  | cons r rs ih =>
    simp only [List.flatMap_cons, List.countP_append, List.length_cons]
    rw [ih (fun r hr => hlen r (by simp [hr])), countP_row p hp, hlen r (by simp), Nat.mul_succ]; omega

theorem countP_rect (cols : List Align) (toks : List Tok) (h : Rectangular cols toks) :
    ∃ nrows : Nat, ∀ (p : Tok → Bool), Uniform p → toks.countP p =
      b p Tok.tableOpen + b p Tok.theadOpen + b p Tok.trOpen + cellCount p true * cols.length + b p Tok.trClose + b p Tok.theadClose
      + (if nrows = 0 then 0 else b p Tok.tbodyOpen + rowCount p cols.length * nrows + b p Tok.tbodyClose) + b p Tok.tableClose := by
  obtain ⟨hdr, body, h1, _, h3, rfl⟩ := h
  have hl : hdr.length = cols.length := by rw [← h1]; simp
  have rl : ∀ r ∈ body, r.length = cols.length := fun r hr => rowFits_length (h3 r hr)
  refine ⟨body.length, ?_⟩
  intro p hp
  cases body with
  | nil => simp [bodyToks, List.countP_cons, List.countP_append, countP_cells p hp, hl, b]; omega
  | cons r rs =>
    simp only [bodyToks, List.countP_append, countP_rows p hp (r :: rs) cols.length rl, countP_cells p hp, hl]
    simp [List.countP_cons, b]; omega


/-- The grammar in counting terms: one `<table>`, one `<thead>`, at most one `<tbody>` (present iff there is a
    body row), `1 + nrows` rows, `n` header cells and `nrows * n` body cells. -/
theorem rectangular_counts (cols : List Align) (toks : List Tok) (h : Rectangular cols toks) :
    ∃ nrows : Nat,
      toks.count Tok.tableOpen = 1 ∧ toks.count Tok.theadOpen = 1 ∧
      toks.count Tok.tbodyOpen = (if nrows = 0 then 0 else 1) ∧ toks.count Tok.tbodyClose = (if nrows = 0 then 0 else 1) ∧
      toks.count Tok.trOpen = 1 + nrows ∧
      toks.countP (isCell true) = cols.length ∧ toks.countP (isCell false) = nrows * cols.length := by
  obtain ⟨nrows, hc⟩ := countP_rect cols toks h
  have u : ∀ t : Tok, (∀ th a, t ≠ Tok.cellOpen th a) → (∀ s, t ≠ Tok.content s) → Uniform (· == t) := by
    intro t h1 h2
    constructor
    · intro th a
      have e1 : (Tok.cellOpen th a == t) = false := by simpa using fun h => h1 th a h.symm
      have e2 : (Tok.cellOpen th Align.none == t) = false := by simpa using fun h => h1 th Align.none h.symm
      rw [e1, e2]
    · intro s
      have e1 : (Tok.content s == t) = false := by simpa using fun h => h2 s h.symm
      have e2 : (Tok.content Option.none == t) = false := by simpa using fun h => h2 Option.none h.symm
      rw [e1, e2]
  have ucell : ∀ th, Uniform (isCell th) := fun th => ⟨fun _ _ => rfl, fun _ => rfl⟩
  refine ⟨nrows, ?_, ?_, ?_, ?_, ?_, ?_, ?_⟩
  · rw [List.count_eq_countP, hc _ (u _ (by simp) (by simp))]
    by_cases hn : nrows = 0 <;> simp [hn, b, cellCount, rowCount]
  · rw [List.count_eq_countP, hc _ (u _ (by simp) (by simp))]
    by_cases hn : nrows = 0 <;> simp [hn, b, cellCount, rowCount]
  · rw [List.count_eq_countP, hc _ (u _ (by simp) (by simp))]
    by_cases hn : nrows = 0 <;> simp [hn, b, cellCount, rowCount]
  · rw [List.count_eq_countP, hc _ (u _ (by simp) (by simp))]
    by_cases hn : nrows = 0 <;> simp [hn, b, cellCount, rowCount]
  · rw [List.count_eq_countP, hc _ (u _ (by simp) (by simp))]
    by_cases hn : nrows = 0 <;> simp [hn, b, cellCount, rowCount]
  · rw [hc _ (ucell true)]
    by_cases hn : nrows = 0 <;> simp [hn, b, cellCount, rowCount, isCell]
  · rw [hc _ (ucell false)]
    by_cases hn : nrows = 0 <;> simp [hn, b, cellCount, rowCount, isCell, Nat.mul_comm]


end counts

end GM.Proof.Table
