/-
  GM.Proof.ConvertHE2E — the end-to-end facts behind GM.Props.C15E2E: what `parseDocH true` hands to the renderer
  (`parseDocH_spec`), what an attribute-store entry looks like to the renderer (`treeAttrs_entry`), different nodes carry
  different ids (`attrs_distinct_by_node`), and under the well-formedness hypotheses `headingsClosedB` / `headingsOnceB` the Heading nodes
  of the renderer's tree carry, in document order, a duplicate-free list of non-empty generated ids
  (`closed_headings_spec`).
-/
import GM.Proof.ConvertHTree
import GM.Proof.ConvertHRender
import GM.Proof.ConvertHEsc

namespace GM.ConvertH
open GM GM.Text GM.Blocks GM.Convert

theorem parseDocH_spec (guard : Bool) (uc : List (Nat × (Bool × Bool))) (src : Bytes) (t : GM.Node)
    (h : parseDocH true guard uc src = .ok t) :
    ∃ hs st, blockPhaseH true guard src = .ok (hs, st) ∧ HInv hs ∧
      headingAttrs t = (headingIds (finalTree st)).map (treeAttrs hs) := by
  unfold parseDocH at h
  obtain ⟨⟨hs, st⟩, hb, h⟩ := ebind_ok h
  have hb' := liftErr_ok hb
  have hr := runH_on (paragraphTransformers guard) src
  unfold blockPhaseH at hb'
  rw [hb'] at hr
  exact ⟨hs, st, hb', hr.1, docTreeH_headings hs guard _ src _ t h⟩

/-- the id of a node's attribute list -/
def idOf (hs : HS) (i : Nat) : Bytes :=
  match nodeAttrs hs i with
  | some [(_, .bytes v)] => v
  | _ => []

theorem treeAttrs_entry (hs : HS) (hh : HInv hs) (i : Nat) (as : List Attr.PAttr) (h : nodeAttrs hs i = some as) :
    as = idAttrs (idOf hs i) ∧ idOf hs i ≠ [] ∧ treeAttrs hs i = idAttr (idOf hs i) ∧ (i, idAttrs (idOf hs i)) ∈ hs.attrs ∧
      ∃ g ∈ hs.gens, g.node = i ∧ g.id = idOf hs i := by
  have hm := lookup_mem _ _ _ h
  obtain ⟨v, h1, h2, _⟩ := hh.shape _ hm
  obtain ⟨g, hg1, hg2, hg3⟩ := hh.fromGen _ hm
  simp only at h1 hg2 hg3
  subst h1
  have hv : idOf hs i = v := by simp [idOf, h, idAttrs]
  rw [hv]
  refine ⟨rfl, h2, ?_, hm, g, hg1, hg2, ?_⟩
  · simp [treeAttrs, h, idAttrs, idAttr, Attr.toTreeAttr]
  · simp only [idAttrs, List.cons.injEq, Prod.mk.injEq, Attr.Val.bytes.injEq, and_true, true_and] at hg3
    exact hg3.symm

/-- the id of a node consists of `a-z`, `0-9`, `-` -/
theorem idOf_idBytes (hs : HS) (hh : HInv hs) (i : Nat) (as : List Attr.PAttr) (h : nodeAttrs hs i = some as) :
    ∀ c ∈ idOf hs i, IdByte c = true := by
  obtain ⟨_, _, _, _, g, hg, _, hgi⟩ := treeAttrs_entry hs hh i as h
  obtain ⟨used, tbl, hgen⟩ := hh.genFrom g hg
  rw [← hgi]
  exact generate_idBytes hgen

theorem pairwise_mem {α} {R : α → α → Prop} (sym : ∀ a b, R a b → R b a) : ∀ (l : List α), l.Pairwise R →
    ∀ a ∈ l, ∀ b ∈ l, a ≠ b → R a b
  | [], _, _, ha, _, _, _ => by cases ha
  | x :: rest, hp, a, ha, b, hb, hne => by
    rw [List.pairwise_cons] at hp
    rcases List.mem_cons.1 ha with ea | ha'
    · rcases List.mem_cons.1 hb with eb | hb'
      · exact absurd (ea.trans eb.symm) hne
      · rw [ea]; exact hp.1 _ hb'
    · rcases List.mem_cons.1 hb with eb | hb'
      · rw [eb]; exact sym _ _ (hp.1 _ ha')
      · exact pairwise_mem sym rest hp.2 a ha' b hb' hne

/-- different nodes never carry the same attribute list (hence never the same id) -/
theorem attrs_distinct_by_node (hs : HS) (hh : HInv hs) (i j : Nat) (ai aj : List Attr.PAttr) (hij : i ≠ j)
    (hi : nodeAttrs hs i = some ai) (hj : nodeAttrs hs j = some aj) : ai ≠ aj := by
  have := pairwise_mem (R := fun (a b : Nat × List Attr.PAttr) => a.1 ≠ b.1 ∧ a.2 ≠ b.2)
    (fun a b h => ⟨fun e => h.1 e.symm, fun e => h.2 e.symm⟩) hs.attrs hh.pw
    (i, ai) (lookup_mem _ _ _ hi) (j, aj) (lookup_mem _ _ _ hj) (by intro e; cases e; exact hij rfl)
  exact this.2

theorem idOf_distinct (hs : HS) (hh : HInv hs) (i j : Nat) (hij : i ≠ j)
    (hi : (nodeAttrs hs i).isSome) (hj : (nodeAttrs hs j).isSome) : idOf hs i ≠ idOf hs j := by
  obtain ⟨ai, hi⟩ := Option.isSome_iff_exists.1 hi
  obtain ⟨aj, hj⟩ := Option.isSome_iff_exists.1 hj
  have h1 := (treeAttrs_entry hs hh i ai hi).1
  have h2 := (treeAttrs_entry hs hh j aj hj).1
  have := attrs_distinct_by_node hs hh i j ai aj hij hi hj
  intro e
  rw [h1, h2, e] at this
  exact this rfl

theorem closed_headings_spec (hs : HS) (hh : HInv hs) (T : TreeH) (hc : headingsClosedB hs T = true) :
    (headingIds T).map (treeAttrs hs) = ((headingIds T).map (idOf hs)).map idAttr ∧
      ∀ v ∈ (headingIds T).map (idOf hs), v ≠ [] ∧ ∃ g ∈ hs.gens, g.id = v := by
  unfold headingsClosedB at hc
  have hall' : ∀ i ∈ headingIds T, (nodeAttrs hs i).isSome = true := by
    simpa [List.all_eq_true] using hc
  refine ⟨?_, ?_⟩
  · rw [List.map_map]
    apply List.map_congr_left
    intro i hi
    obtain ⟨as, ha⟩ := Option.isSome_iff_exists.1 (hall' i hi)
    exact (treeAttrs_entry hs hh i as ha).2.2.1
  · intro v hv
    obtain ⟨i, hi, rfl⟩ := List.mem_map.1 hv
    obtain ⟨as, ha⟩ := Option.isSome_iff_exists.1 (hall' i hi)
    obtain ⟨_, h2, _, _, g, hg, _, hg2⟩ := treeAttrs_entry hs hh i as ha
    exact ⟨h2, g, hg, hg2⟩

theorem once_headings_nodup (hs : HS) (hh : HInv hs) (T : TreeH) (hc : headingsClosedB hs T = true)
    (ho : headingsOnceB T = true) : ((headingIds T).map (idOf hs)).Nodup := by
  unfold headingsClosedB at hc
  have hall' : ∀ i ∈ headingIds T, (nodeAttrs hs i).isSome = true := by
    simpa [List.all_eq_true] using hc
  have hnd' : (headingIds T).Nodup := by simpa [headingsOnceB] using ho
  unfold List.Nodup
  rw [List.pairwise_map]
  exact List.Pairwise.imp_of_mem (fun {a b} ha hb hne => idOf_distinct hs hh a b hne (hall' a ha) (hall' b hb)) hnd'

end GM.ConvertH
