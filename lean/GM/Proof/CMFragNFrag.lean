/-
  GM.Proof.CMFragNFrag — stage 14 at the level of the spec-side fragments: a stage-6 document (`QFrag`) and a document
  of the union fragment (`UQFrag`) inside `k + 1` nested block quotes, for every `k`.
-/
import GM.Proof.CMFragNBlocks
import GM.Proof.CMFragRenderN
import GM.Proof.CMFragClassUQ
import GM.Proof.CMFrag13Frag

namespace GM.Proof.CMFrag
open GM GM.Text GM.Blocks GM.Spec GM.Spec.CM GM.Spec.CMFrag

/-- **the conformance theorem of stage 14**: a stage-6 document inside `k + 1` nested block quotes -/
theorem fragmentNQ_conforms (H : BPFree) (k : Nat) (d : KDoc) (h : QFrag d) (uc : List (Nat × (Bool × Bool))) :
    GM.Convert.convertCore uc cmOpts (spellNQ k d) = .ok (expectedNQ k d) := by
  have hk := qfrag_kfrag d h
  have hcl := qclean_class d h
  have hnb := qclean_no_bracket d h
  unfold KFrag kfragB at hk
  simp only [Bool.and_eq_true, List.all_eq_true] at hk
  obtain ⟨hok, hseps⟩ := hk
  have hgood : ∀ it ∈ d.items.map convK, Good5' it.2 := by
    intro x hx
    obtain ⟨it, hit, rfl⟩ := List.mem_map.mp hx
    exact good5_rawOfH it.block (hok it hit)
  rw [spellK_raw] at hcl hnb
  have hlev : ∀ b ∈ (d.items.map convK).map (·.2), ∀ level l, b = Raw5.old (RawBlock.atx level l) → level ≤ 6 := by
    intro b hb level l he
    obtain ⟨it, hit, rfl⟩ := List.mem_map.mp hb
    have := hgood it hit
    rw [he] at this
    exact this.2.1
  have hc := convert_nest_gen H uc (d.items.map convK) d.trail (fun it hit => good5_of it.2 (hgood it hit))
    (sepsOK_of none d.items hseps) (by
      intro x hx
      obtain ⟨it, _, rfl⟩ := List.mem_map.mp hx
      exact isIcB_rawOfH it.block) (fun it hit => lines5_no_nl it.2 (hgood it hit)) hcl hnb (k + 1) _ _
    (fun env henv => repL_good env henv _ (fun b hb => by
      obtain ⟨it, hit, rfl⟩ := List.mem_map.mp hb
      exact hgood it hit))
    (renderDoc_nestN (k + 1) _ hlev)
  rw [spellNQ_eq, spellK_raw, hc]
  have he : expectedK d = hdocHtml ((d.items.map (·.block)).map rawOfH) := by
    rw [hdocHtml_spelled _ (by
      intro b hb
      obtain ⟨it, hit, rfl⟩ := List.mem_map.mp hb
      exact hok it hit)]
    simp [expectedK, List.flatMap_map]
  rw [expectedNQ, he]
  simp [convK, List.map_map, Function.comp_def]

/-- **the union fragment inside `k + 1` nested block quotes** (`k = 0`: one quote) -/
theorem fragment13NQ_conforms_of (HB : BPFree) (H : U13InlG) (k : Nat) (d : UDocS) (h : UQFrag d)
    (uc : List (Nat × (Bool × Bool))) :
    GM.Convert.convertCore uc cmOpts (quoteLinesN (k + 1) (spellU d)) = .ok (wrapQ (k + 1) (expectedU d)) := by
  have hf := uqfrag_ufrag h
  have hcl := uqclean_class d h
  have hnb := uqclean_no_bracket d h
  rw [quoteLinesN_eq, spellU_raw, ← uitemsOf_raw] at *
  have hgood := uitemsOf_good d hf
  have hc := convert_nest_gen HB uc ((uitemsOf d).map fun it => (it.1, uraw it.2)) d.trail
    (by
      intro x hx
      obtain ⟨it, hit, rfl⟩ := List.mem_map.mp hx
      exact good5_uraw it.2 (hgood it hit))
    (uitemsOf_seps d hf) (uitems_noic (uitemsOf d) (uitemsOf_noic d (uqfrag_noic h)))
    (by
      intro x hx
      obtain ⟨it, hit, rfl⟩ := List.mem_map.mp hx
      exact uraw_noNl it.2 (hgood it hit))
    hcl hnb (k + 1) ((d.items.map fun it => ublockOfS it.block).map uNode) (wrapQ (k + 1) (expectedU d))
    (fun env henv => by
      have := repL_u H env henv (d.items.map fun it => ublockOfS it.block) (ublocks_good d hf)
      simpa [uitemsOf, List.map_map, Function.comp_def] using this)
    (by rw [renderDoc_nest_uN (k + 1) _ (ublocks_good d hf), uDocHtml_ofS d hf])
  exact hc

end GM.Proof.CMFrag
