/-
  GM.Proof.ConvertXStrike — Strikethrough on a source without `~`: no `~` delimiter ever stands among `parent`'s children
  (`NT`), on such children the generalised ProcessDelimiters / link parser ARE the default ones, and the whole inline phase of a
  block is the one without the member.
-/
import GM.Proof.ConvertXSim
import GM.Proof.ConvertXTotal

namespace GM.Proof.ConvertXStrike
open GM GM.Text GM.Spec GM.Inl GM.Proof.Inlines GM.Proof.InlinesTotal GM.Proof.InlinesLink GM.Proof.ConvertXRelv
open GM.Proof.ConvertXSim GM.Proof.InlinesDelims

/-- not a `~` delimiter -/
def NT (n : Inl.Node) : Prop := ∀ id d, n = .delim id d → d.char ≠ 126

theorem NT_inv : NodeInv NT where
  text := fun _ _ _ _ _ _ h => by cases h
  emph := fun _ _ _ _ _ h => by cases h
  cons := fun id d n h id' d' e => by
    simp only [Node.delim.injEq] at e
    obtain ⟨rfl, rfl⟩ := e
    exact h id d rfl

theorem NT_of_not_delim {n : Inl.Node} (h : n.isDelim = false) : NT n := by
  intro id d e; subst e; simp [Node.isDelim] at h

/-! ### on children without a `~` delimiter the generalised ProcessDelimiters is the default one -/

theorem closerStepG_NT (b : Bottom) (pre : List Inl.Node) (cid : Nat) (cd : Delim) (post : List Inl.Node)
    (hp : allQ NT pre) : closerStepG true b pre cid cd post = closerStep b pre cid cd post := by
  unfold closerStepG closerStep
  split
  · rfl
  · split
    · rfl
    · cases hf : findOpener b cd pre.reverse [] false with
      | mk o m =>
        cases o with
        | none => rfl
        | some x =>
          obtain ⟨p1, oid, od, mid, consume⟩ := x
          have e := findOpener_eq b cd _ _ _ hf
          simp only [List.reverse_reverse, List.append_nil] at e
          have hod : od.char ≠ 126 := hp (.delim oid od) (by rw [e]; simp) oid od rfl
          have : onMatch true od consume (clearInner [] mid) = .emphasis consume (clearInner [] mid) := by
            unfold onMatch isStrikeDelim
            simp [hod]
          simp only [this]

theorem closerLoopG_NT (b : Bottom) (pre : List Inl.Node) (cid : Nat) (cd : Delim) (post : List Inl.Node) :
    allQ NT pre → NT (.delim cid cd) → allQ NT post →
    closerLoopG true b pre cid cd post = closerLoop b pre cid cd post := by
  fun_induction closerLoop b pre cid cd post with
  | case1 pre cid cd post kids hs =>
    intro hp _ _
    rw [closerLoopG]; split <;> simp_all [closerStepG_NT]
  | case2 pre cid cd post hs =>
    intro hp _ _
    rw [closerLoopG]; split <;> simp_all [closerStepG_NT]
  | case3 pre cid cd post pre' cid' cd' post' hs ih =>
    intro hp hcd hq
    have hst := closerStep_allQ NT_inv (b := b) hp hcd hq
    rw [hs] at hst
    simp only [wholeOf] at hst
    have h1 := allQ_append.mp hst
    have h2 := allQ_cons.mp h1.2
    rw [closerLoopG]
    split <;> simp_all [closerStepG_NT]

theorem processDelimitersG_NT (b : Bottom) (kids : List Inl.Node) (hk : allQ NT kids) :
    processDelimitersG true b kids = processDelimiters b kids := by
  have tail : ∀ (closer : Option Nat),
      (match closer with
        | none => (.ok (clearDelimiters b kids) : Except Panic (List Inl.Node))
        | some cid =>
          match splitAtDelim cid kids with
          | none => .error .pre
          | some (pre, cd, post) =>
            match closerLoopG true b pre cid cd post with
            | .ok kids' => .ok (clearDelimiters b kids')
            | .error e => .error e) =
      (match closer with
        | none => (.ok (clearDelimiters b kids) : Except Panic (List Inl.Node))
        | some cid =>
          match splitAtDelim cid kids with
          | none => .error .pre
          | some (pre, cd, post) =>
            match closerLoop b pre cid cd post with
            | .ok kids' => .ok (clearDelimiters b kids')
            | .error e => .error e) := by
    intro closer
    cases closer with
    | none => rfl
    | some cid =>
      simp only []
      cases hs : splitAtDelim cid kids with
      | none => rfl
      | some y =>
        obtain ⟨pre, cd, post⟩ := y
        have e := GM.Proof.Inlines.splitAtDelim_eq hs
        rw [e] at hk
        have h1 := allQ_append.mp hk
        have h2 := allQ_cons.mp h1.2
        simp only [closerLoopG_NT b pre cid cd post h1.1 h2.1 h2.2]
  unfold processDelimitersG processDelimiters
  cases splitLastDelim kids with
  | none => rfl
  | some x =>
    obtain ⟨preL, lastId, ld, lpost⟩ := x
    exact tail _

/-! ### the link parser keeps `NT` -/

/-- `pd` keeps `NT` -/
def PDNT (pd : PD) : Prop := ∀ b k r, pd b k = .ok r → allQ NT k → allQ NT r

theorem pdnt_default : PDNT processDelimiters := fun _ _ _ h hk => processDelimiters_allQ NT_inv h hk

theorem pdnt_G : PDNT (processDelimitersG true) := fun b k r h hk => by
  rw [processDelimitersG_NT b k hk] at h
  exact processDelimiters_allQ NT_inv h hk

variable {pd : PD}

theorem processLinkLabelG_NT (hpd : PDNT pd) {st st' : St} {post : List Inl.Node}
    (h : processLinkLabelG pd st = .ok (post, st')) (hk : allQ NT st.kids) : allQ NT st'.kids := by
  unfold processLinkLabelG at h
  simp only [popBottom_kids] at h
  split at h
  · contradiction
  · split at h
    · contradiction
    · split at h
      · contradiction
      · rename_i kids hp
        have hk' := hpd _ _ _ hp hk
        split at h
        · contradiction
        · rename_i pre lid lseg im po hs
          split at h
          · contradiction
          · simp at h; obtain ⟨rfl, rfl⟩ := h
            have e := splitLastLabel_eq hs
            rw [e] at hk'
            have h1 := allQ_append.mp hk'
            simp only
            exact allQ_append.mpr ⟨h1.1, allQ_single.mpr (NT_of_not_delim rfl)⟩

/-- what a link attempt leaves: children without `~` delimiters; a failed attempt leaves the children alone -/
def LinkResN (kids0 : List Inl.Node) (res : Option LinkInfo) (st' : St) : Prop :=
  allQ NT st'.kids ∧ (res = none → st'.kids = kids0)

theorem parseLinkInlineG_NT (hpd : PDNT pd) {st st' : St} {res : Option LinkInfo}
    (h : parseLinkInlineG pd st = .ok (res, st')) (hk : allQ NT st.kids) : LinkResN st.kids res st' := by
  unfold parseLinkInlineG at h
  mpaths h
  all_goals first
    | (obtain ⟨rfl, rfl⟩ := h; exact ⟨hk, fun _ => rfl⟩)
    | (rename_i v heq
       obtain ⟨rfl, rfl⟩ := h
       exact ⟨processLinkLabelG_NT hpd (st := { st with rd := _ }) heq hk, fun hh => by simp at hh⟩)

theorem parseReferenceLinkG_NT (hpd : PDNT pd) {env : Env} {st st' : St} {lseg : Segment} {res : Option LinkInfo}
    {hv : Bool} (h : parseReferenceLinkG pd env st lseg = .ok ((res, hv), st')) (hk : allQ NT st.kids) :
    LinkResN st.kids res st' := by
  unfold parseReferenceLinkG at h
  mpaths h
  all_goals first
    | (obtain ⟨⟨rfl, _⟩, rfl⟩ := h; exact ⟨hk, fun _ => rfl⟩)
    | (rename_i v heq
       obtain ⟨⟨rfl, _⟩, rfl⟩ := h
       exact ⟨processLinkLabelG_NT hpd (st := { st with rd := _ }) heq hk, fun hh => by simp at hh⟩)

theorem linkTryG_NT (hpd : PDNT pd) {env : Env} {st st' : St} {lseg : Segment} {c : UInt8} {link : Option LinkInfo}
    {hv : Bool} (h : linkTryG pd env st lseg c = .ok (link, hv, st')) (hk : allQ NT st.kids) :
    LinkResN st.kids link st' := by
  unfold linkTryG at h
  split at h
  · split at h
    · rename_i l s heq
      simp at h; obtain ⟨rfl, _, rfl⟩ := h
      exact parseLinkInlineG_NT hpd heq hk
    · contradiction
  · split at h
    · split at h
      · rename_i l hv' s heq
        simp at h; obtain ⟨rfl, _, rfl⟩ := h
        exact parseReferenceLinkG_NT hpd heq hk
      · contradiction
    · simp at h; obtain ⟨rfl, _, rfl⟩ := h
      exact ⟨hk, fun _ => rfl⟩

/-- a parser call keeps `NT`: of the children and of the node it returns -/
def POKN (r : Option Inl.Node × St) : Prop := allQ NT r.2.kids ∧ ∀ n, r.1 = some n → NT n

theorem linkFail_NT {pre post : List Inl.Node} {lseg : Segment} {st : St} {r : Option Inl.Node × St}
    (h : linkFail pre lseg post st = .ok r) (q1 : allQ NT pre) (q3 : allQ NT post) : POKN r := by
  unfold linkFail at h
  simp at h; subst h
  exact ⟨allQ_append.mpr ⟨mergeOrAppend_allQ NT_inv q1, q3⟩, by simp⟩

theorem linkDone_NT {isImage : Bool} {info : LinkInfo} {st : St} {r : Option Inl.Node × St}
    (h : linkDone isImage info st = .ok r) (hk : allQ NT st.kids) : POKN r := by
  unfold linkDone at h
  simp at h; subst h
  exact ⟨allQ_dropLast hk, by intro n hn; simp at hn; subst hn; exact NT_of_not_delim rfl⟩

theorem linkShortcutG_NT (hpd : PDNT pd) {env : Env} {st : St} {lseg segment pos : Segment} {l : Int} {isImage : Bool}
    {pre post : List Inl.Node} {r : Option Inl.Node × St}
    (h : linkShortcutG pd env st lseg segment l pos isImage pre post = .ok r)
    (hk : allQ NT st.kids) (q1 : allQ NT pre) (q3 : allQ NT post) : POKN r := by
  unfold linkShortcutG at h
  simp only [bind, Except.bind, pure, Except.pure] at h
  split at h
  · contradiction
  · split at h
    · contradiction
    · split at h
      · exact linkFail_NT h q1 q3
      · split at h
        · exact linkFail_NT h q1 q3
        · split at h
          · contradiction
          · rename_i v hv
            exact linkDone_NT h (processLinkLabelG_NT hpd (st := { st with rd := _ }) hv hk)

theorem parseLinkCloseG_NT (hpd : PDNT pd) {env : Env} {st : St} {segment : Segment} {r : Option Inl.Node × St}
    (h : parseLinkCloseG pd env st segment = .ok r) (hk : allQ NT st.kids) : POKN r := by
  unfold parseLinkCloseG at h
  split at h
  · simp at h; subst h; exact ⟨hk, by simp⟩
  · rename_i pre lid lseg isImage post hs
    have e := splitLastLabel_eq hs
    have hk0 := hk
    rw [e] at hk
    have q1 := (allQ_append.mp hk).1
    have q3 := (allQ_cons.mp (allQ_append.mp hk).2).2
    simp only [bind, Except.bind, pure, Except.pure] at h
    split at h
    · contradiction
    · rename_i rd hadv
      split at h
      · exact linkFail_NT h q1 q3
      · split at h
        · exact linkFail_NT h q1 q3
        · split at h
          · contradiction
          · split at h
            · contradiction
            · rename_i v hv
              obtain ⟨t1, t2⟩ := linkTryG_NT hpd (st := { st with rd := rd }) (link := v.1) (hv := v.2.1) (st' := v.2.2) hv
                (by simpa using hk0)
              split at h
              · exact linkDone_NT h t1
              · split at h
                · exact linkFail_NT h q1 q3
                · exact linkShortcutG_NT hpd h t1 q1 q3

theorem labelOpen_NT {st : St} {pos : Int} {im : Bool} {r : Option Inl.Node × St}
    (h : labelOpen st pos im = .ok r) (hk : allQ NT st.kids) : POKN r := by
  unfold labelOpen at h
  mpaths h
  all_goals (subst h; exact ⟨hk, by intro n hn; simp at hn; subst hn; exact NT_of_not_delim rfl⟩)

theorem parseLinkG_NT (hpd : PDNT pd) {env : Env} {st : St} {r : Option Inl.Node × St}
    (h : parseLinkG pd env st = .ok r) (hk : allQ NT st.kids) : POKN r := by
  unfold parseLinkG at h
  simp only [bind, Except.bind, pure, Except.pure, throw, throwThe, MonadExceptOf.throw] at h
  split at h
  · contradiction
  · split at h
    · contradiction
    · split at h
      · split at h
        · split at h
          · contradiction
          · exact labelOpen_NT (st := pushBottom _) h (by rw [pushBottom_kids]; exact hk)
        · simp at h; subst h; exact ⟨hk, by simp⟩
      · split at h
        · exact labelOpen_NT (st := pushBottom _) h (by rw [pushBottom_kids]; exact hk)
        · exact parseLinkCloseG_NT hpd (st := { st with rd := _ }) h hk

/-! ### on states without a `~` delimiter the link parser over both processors IS the default link parser -/

abbrev pdS : PD := processDelimitersG true

theorem processLinkLabelG_eq (st : St) (hk : allQ NT st.kids) :
    processLinkLabelG pdS st = processLinkLabel st := by
  unfold processLinkLabelG processLinkLabel
  have : pdS (popBottom st).1 (popBottom st).2.kids = processDelimiters (popBottom st).1 (popBottom st).2.kids :=
    processDelimitersG_NT _ _ (by rw [popBottom_kids]; exact hk)
  simp only [this]
  rfl

theorem parseLinkInlineG_eq (st : St) (hk : allQ NT st.kids) : parseLinkInlineG pdS st = parseLinkInline st := by
  have h1 : ∀ rd, processLinkLabelG pdS { st with rd := rd } = processLinkLabel { st with rd := rd } :=
    fun rd => processLinkLabelG_eq _ hk
  unfold parseLinkInlineG parseLinkInline
  simp only [h1]
  rfl

theorem parseReferenceLinkG_eq (env : Env) (st : St) (lseg : Segment) (hk : allQ NT st.kids) :
    parseReferenceLinkG pdS env st lseg = parseReferenceLink env st lseg := by
  have h1 : ∀ rd, processLinkLabelG pdS { st with rd := rd } = processLinkLabel { st with rd := rd } :=
    fun rd => processLinkLabelG_eq _ hk
  unfold parseReferenceLinkG parseReferenceLink
  simp only [h1]
  rfl

theorem linkShortcutG_eq (env : Env) (st : St) (lseg segment : Segment) (l : Int) (pos : Segment) (im : Bool)
    (pre post : List Inl.Node) (hk : allQ NT st.kids) :
    linkShortcutG pdS env st lseg segment l pos im pre post = linkShortcut env st lseg segment l pos im pre post := by
  have h1 : ∀ rd, processLinkLabelG pdS { st with rd := rd } = processLinkLabel { st with rd := rd } :=
    fun rd => processLinkLabelG_eq _ hk
  unfold linkShortcutG linkShortcut
  simp only [h1]
  rfl

theorem linkTryG_eq (env : Env) (st : St) (lseg : Segment) (c : UInt8) (hk : allQ NT st.kids) :
    linkTryG pdS env st lseg c = linkTry env st lseg c := by
  unfold linkTryG linkTry
  simp only [parseLinkInlineG_eq st hk, parseReferenceLinkG_eq env st lseg hk]
  rfl

theorem parseLinkCloseG_eq (env : Env) (st : St) (segment : Segment) (hk : allQ NT st.kids) :
    parseLinkCloseG pdS env st segment = parseLinkClose env st segment := by
  unfold parseLinkCloseG parseLinkClose
  cases hs : splitLastLabel st.kids with
  | none => rfl
  | some x =>
    obtain ⟨pre, ⟨lid, lseg, im⟩, post⟩ := x
    simp only [bind, Except.bind, pure, Except.pure]
    cases st.rd.advance 1 with
    | error e => rfl
    | ok rd =>
      simp only []
      split
      · rfl
      · split
        · rfl
        · cases rd.peek with
          | error e => rfl
          | ok c =>
            simp only []
            have hk' : allQ NT ({ st with rd := rd } : St).kids := hk
            rw [linkTryG_eq env { st with rd := rd } lseg c hk']
            cases ht : linkTry env { st with rd := rd } lseg c with
            | error e => rfl
            | ok r =>
              obtain ⟨link, hv, st'⟩ := r
              have htG : linkTryG pdS env { st with rd := rd } lseg c = .ok (link, hv, st') := by
                rw [linkTryG_eq env _ lseg c hk', ht]
              obtain ⟨t1, _⟩ := linkTryG_NT pdnt_G htG hk'
              simp only []
              cases link with
              | some info => rfl
              | none =>
                simp only []
                split
                · rfl
                · exact linkShortcutG_eq env st' lseg segment _ _ im pre post t1

theorem parseLinkG_eq (env : Env) (st : St) (hk : allQ NT st.kids) : parseLinkG pdS env st = parseLink env st := by
  unfold parseLinkG parseLink
  simp only [bind, Except.bind, pure, Except.pure]
  cases st.rd.peekLine with
  | error e => rfl
  | ok v =>
    simp only []
    cases v.1.1.getD [] with
    | nil => rfl
    | cons c rest =>
      simp only []
      split
      · rfl
      · split
        · rfl
        · exact parseLinkCloseG_eq env { st with rd := v.2 } _ hk

/-! ### the identity relabelling -/

mutual
theorem relv_id : ∀ n : Inl.Node, relv id n = n
  | .text .. => rfl
  | .codeSpan ks => by simp [relvL_id ks]
  | .emphasis lv ks => by simp [relvL_id ks]
  | .link im d t ks => by simp [relvL_id ks]
  | .autoLink .. => rfl
  | .rawHTML .. => rfl
  | .delim .. => rfl
  | .label .. => rfl
theorem relvL_id : ∀ l : List Inl.Node, relvL id l = l
  | [] => rfl
  | n :: rest => by simp [relv_id n, relvL_id rest]
end

theorem relvSt_id (st : St) : relvSt id st = st := by simp [relvSt, relvL_id]
theorem relvPR_id (r : Option Inl.Node × St) : relvPR id r = r := by
  obtain ⟨n, st⟩ := r
  cases n <;> simp [relvPR, relvSt_id, relv_id]
theorem map_relvPR_id (x : PRes) : x.map (relvPR id) = x := by
  cases x with
  | error e => rfl
  | ok r => simp [Except.map, relvPR_id]

theorem nt_closed : IClosed (allQ NT) where
  merge := fun _ _ h => mergeOrAppend_allQ NT_inv h
  appT := fun _ _ _ _ _ h => allQ_append.mpr ⟨h, allQ_single.mpr (NT_of_not_delim rfl)⟩
  dropT := fun _ _ _ _ _ h => allQ_append.mpr ⟨allQ_dropLast h, allQ_single.mpr (NT_of_not_delim rfl)⟩

/-- two entries that are the same function on `NT` states, the first keeping `NT` -/
theorem entrySim_of (env : Env) (ip1 ip2 : XIp)
    (heq : ∀ st, allQ NT st.kids → ip2.parse env st = ip1.parse env st)
    (hnt : ∀ st n st', allQ NT st.kids → ip1.parse env st = .ok (n, st') → POKN (n, st')) :
    EntrySim id (allQ NT) env ip1 ip2 := by
  intro st hI
  refine ⟨by rw [relvSt_id, map_relvPR_id, heq st hI], ?_⟩
  intro n st' h
  obtain ⟨a1, a2⟩ := hnt st n st' hI h
  exact ⟨a1, fun nd hn => allQ_append.mpr ⟨a1, allQ_single.mpr (a2 nd hn)⟩⟩

theorem liftR_NT {st : St} {f : BlockReader → RRes} (hf : ∀ r r' n, f r = .ok (some n, r') → n.isDelim = false)
    {n : Option Inl.Node} {st' : St} (hk : allQ NT st.kids) (h : liftR st (f st.rd) = .ok (n, st')) : POKN (n, st') := by
  unfold liftR at h
  split at h
  · rename_i nn rd heq
    simp at h; obtain ⟨rfl, rfl⟩ := h
    exact ⟨hk, fun nd hn => by subst hn; exact NT_of_not_delim (hf _ _ _ heq)⟩
  · contradiction

theorem scanDelimiter_char {env : Env} {line : Bytes} {before : Nat} {d : Delim}
    (h : scanDelimiter env line before = .ok (some d)) : d.char ≠ 126 := by
  unfold scanDelimiter at h
  split at h
  · contradiction
  · rename_i c rest
    simp only at h
    split at h
    · simp at h
    · rename_i hc
      simp at h
      rw [← h]
      simp only
      intro e
      subst e
      simp at hc

theorem parseEmphasis_NT {env : Env} {id : Nat} {r r' : BlockReader} {nd : Inl.Node}
    (h : parseEmphasis env id r = .ok (some nd, r')) : NT nd := by
  unfold parseEmphasis at h
  simp only [bind, Except.bind, pure, Except.pure] at h
  split at h
  · contradiction
  · split at h
    · contradiction
    · split at h
      · contradiction
      · rename_i d hd
        split at h
        · simp at h
        · rename_i dd
          split at h
          · contradiction
          · simp at h
            obtain ⟨rfl, _⟩ := h
            intro id' d' e
            simp only [Node.delim.injEq] at e
            obtain ⟨_, rfl⟩ := e
            show dd.char ≠ 126
            exact scanDelimiter_char hd

theorem builtin_NT (env : Env) (ip : Ip) (st : St) (n : Option Inl.Node) (st' : St) (hk : allQ NT st.kids)
    (h : ip.parse env st = .ok (n, st')) : POKN (n, st') := by
  cases ip with
  | codeSpan => exact liftR_NT (fun _ _ _ h => parseCodeSpan_nd h) hk h
  | autoLink => exact liftR_NT (fun _ _ _ h => parseAutoLink_nd h) hk h
  | rawHTML => exact liftR_NT (fun _ _ _ h => parseRawHTML_nd h) hk h
  | link =>
    have : parseLinkG processDelimiters env st = .ok (n, st') := by rw [parseLinkG_default]; exact h
    exact parseLinkG_NT pdnt_default this hk
  | emphasis =>
    simp only [Ip.parse] at h
    unfold liftR at h
    split at h
    · rename_i nn rd heq
      simp at h; obtain ⟨rfl, rfl⟩ := h
      exact ⟨hk, fun nd hn => by subst hn; exact parseEmphasis_NT heq⟩
    · contradiction

theorem task_NT (inItem : Bool) (env : Env) (st : St) (n : Option Inl.Node) (st' : St) (hk : allQ NT st.kids)
    (h : parseTask inItem env st = .ok (n, st')) : POKN (n, st') := by
  unfold parseTask at h
  mpaths h
  all_goals
    (obtain ⟨rfl, rfl⟩ := h
     refine ⟨hk, fun nd hn => ?_⟩
     first
       | (cases hn; done)
       | (cases hn; exact NT_of_not_delim (by simp [taskNode, Node.isDelim])))

/-! ### the inline phase of a block with Strikethrough on a source without `~` -/

section block
open GM.ConvertX GM.Convert GM.Proof.ConvertXTotal GM.Proof.InlinesReader GM.Proof.Reader

/-- the trigger table with Strikethrough, the entry of `~` emptied -/
def tblNoTilde (c : XCfg) (inItem : Bool) (b : UInt8) : List XIp :=
  if b == 126 then [] else inlineTbl { c with strikethrough := true } inItem b

theorem listSim_same (env : Env) : ∀ ips : List Ip, ListSim id (allQ NT) env (ips.map .builtin) (ips.map .builtin)
  | [] => .nil
  | ip :: rest => .cons (entrySim_of env _ _ (fun _ _ => rfl) (fun st n st' hk h => builtin_NT env ip st n st' hk h))
      (listSim_same env rest)

theorem linkEntry_sim (c : XCfg) (env : Env) :
    EntrySim id (allQ NT) env (linkX { c with strikethrough := true }) (linkX { c with strikethrough := false }) := by
  have e1 : linkX { c with strikethrough := true } = .ext { triggers := [33, 91, 93], parse := parseLinkG pdS } := by
    simp [linkX, pdX, pdS]
  have e2 : linkX { c with strikethrough := false } = .builtin .link := by simp [linkX]
  rw [e1, e2]
  exact entrySim_of env _ _ (fun st hk => (parseLinkG_eq env st hk).symm)
    (fun st n st' hk h => parseLinkG_NT pdnt_G h hk)

theorem tbl_sim (c : XCfg) (inItem : Bool) (env : Env) (b : UInt8) :
    ListSim id (allQ NT) env (tblNoTilde c inItem b) (inlineTbl { c with strikethrough := false } inItem b) := by
  unfold tblNoTilde inlineTbl
  by_cases h126 : (b == 126) = true
  · simp only [h126, if_true]
    exact .nil
  · simp only [h126, Bool.false_eq_true, if_false]
    by_cases h91 : (b == 91) = true
    · simp only [h91, if_true]
      by_cases ht : c.tasklist = true
      · simp only [ht, if_true, List.singleton_append]
        exact .cons (entrySim_of env _ _ (fun _ _ => rfl) (fun st n st' hk h => task_NT inItem env st n st' hk h))
          (.cons (linkEntry_sim c env) .nil)
      · have ht' : c.tasklist = false := by simpa using ht
        simp only [ht', Bool.false_eq_true, if_false, List.nil_append]
        exact .cons (linkEntry_sim c env) .nil
    · simp only [h91, Bool.false_eq_true, if_false]
      split
      · exact .cons (linkEntry_sim c env) .nil
      · exact listSim_same env _

/-- **the inline children of a block are the same with and without Strikethrough when the source has no `~`** -/
theorem parseBlockG_strike_unused (c : XCfg) (inItem : Bool) {src : Bytes} {segs : List Segment}
    (W : WFSegs src segs) (Z : ∀ s ∈ segs, s.padding = 0) (env : Env) (hsrc : (126 : UInt8) ∉ src) :
    parseBlockG env (inlineTbl { c with strikethrough := true } inItem) (pdX { c with strikethrough := true }) src segs =
      parseBlockG env (inlineTbl { c with strikethrough := false } inItem) (pdX { c with strikethrough := false })
        src segs := by
  have F := segFacts W
  obtain ⟨r0, e0, a0⟩ := blockReader_init F
  have hz0 : (BCur.init segs).pad = 0 := segOf_pad F Z 0 (Int.le_refl _) F.kpos
  have hI : LInv (Ctx.normed (linkCtx (BCur.segOf segs 0).start)) src segs { rd := r0 } (BCur.init segs) :=
    ⟨⟨a0, hz0⟩, by simp only [segsOfL, chain, BCur.init]; exact (F.rng 0 (Int.le_refl _) F.kpos).1, LK_base _⟩
  -- never consulted: the entry of `~`
  have h1 := lineLoopX_eq2 _ F Z env (inlineTbl { c with strikethrough := true } inItem) (tblNoTilde c inItem)
    (by rw [inlineTbl_32]; exact fun _ h => by cases h) (inlineTbl_contracts _ inItem W Z env)
    (by simp [tblNoTilde])
    (fun b hb => by
      have : b ≠ 126 := fun h => hsrc (h ▸ hb)
      simp [tblNoTilde, this])
    (blockFuel src segs) false _ _ hI (blockFuel_gt W Z a0.wf hz0)
  -- equal parsers on states without a `~` delimiter
  obtain ⟨h2, h3⟩ := lineLoopX_sim (g := id) nt_closed (tbl_sim c inItem env) (blockFuel src segs) false
    ({ rd := r0 } : St) allQ_nil
  rw [relvSt_id] at h2
  unfold parseBlockG
  simp only [e0, bind, Except.bind, ← h1, h2]
  cases hl : lineLoopX env (tblNoTilde c inItem) (blockFuel src segs) false { rd := r0 } with
  | error e => rfl
  | ok st' =>
    have hnt := h3 st' hl
    simp only [Except.map, relvSt_id]
    have hp : pdX { c with strikethrough := true } Bottom.nil st'.kids =
        pdX { c with strikethrough := false } Bottom.nil st'.kids := by
      simp only [pdX, if_true, Bool.false_eq_true, if_false]
      exact processDelimitersG_NT _ _ hnt
    rw [hp]

end block
end GM.Proof.ConvertXStrike
