/-
  GM.Proof.CMFragSpec5 — the stage-5 fragment (stage 4 plus fenced code blocks) of GM.Spec.CMFrag inside the spec
  model GM.Spec.CommonMark:
  * `expectedH_eq_expected`: the prescribed HTML of a stage-5 document is `expected` of the embedded document;
  * `spellH_eq_spell`: for a NON-EMPTY stage-5 document without extra blank lines the source is `spell` of the
    embedded document, byte for byte.
-/
import GM.Proof.CMFragSpec4
namespace GM.Proof.CMFrag
open GM GM.Spec.CM GM.Spec.CMFrag

/-! ### S1: prescribed HTML -/

theorem alnum_factsH : ∀ c : UInt8, isAlnumC c = true →
    (c != 32) = true ∧ printable c = true ∧ escHtmlByte c = [c] := by
  apply forall_uint8; decide +kernel

theorem infoLang_alnumH (info : Bytes) (h : ∀ c ∈ info, isAlnumC c = true) : infoLang info = info := by
  rw [infoLang]
  induction info with
  | nil => rfl
  | cons c rest ih =>
    rw [List.takeWhile_cons, (alnum_factsH c (h c (by simp))).1, if_pos rfl, ih (fun x hx => h x (by simp [hx]))]

theorem escHtml_alnumH (info : Bytes) (h : ∀ c ∈ info, isAlnumC c = true) : escHtml info = info := by
  induction info with
  | nil => rfl
  | cons c rest ih =>
    simp only [escHtml, List.flatMap_cons] at ih ⊢
    rw [ih (fun x hx => h x (by simp [hx])), (alnum_factsH c (h c (by simp))).2.2]
    rfl

theorem render_expB_hembedH (b : HBlock) (hok : hblockOK b = true) :
    render (expB false false (hembedBlock b)) = expHBlock b := by
  cases b with
  | base b => exact render_expB_gembed4 b hok
  | fcode tilde n info lines =>
    simp only [hblockOK, Bool.and_eq_true, List.all_eq_true] at hok
    rw [hembedBlock, expB, expHBlock, infoLang_alnumH info hok.1, escHtml_alnumH info hok.1]
    have h1 : strBytes "<pre><code" = [60] ++ strBytes "pre" ++ [62] ++ [60] ++ strBytes "code" := by decide +kernel
    have h2 : strBytes "</code></pre>\n" = [60, 47] ++ strBytes "code" ++ [62] ++ [60, 47] ++ strBytes "pre" ++ [62, 10] := by
      decide +kernel
    have h3 : strBytes " class=\"language-" = [32] ++ strBytes "class" ++ strBytes "=\"" ++ strBytes "language-" := by
      decide +kernel
    rw [h1, h2, h3]
    cases hi : info.isEmpty <;>
      simp [wrap, render, renderPiece, nl, attr, codeText]

theorem render_expBs_hembedH (its : List HItem) (hok : ∀ it ∈ its, hblockOK it.block = true) :
    render (expBs false false (its.map fun it => hembedBlock it.block)) = its.flatMap fun it => expHBlock it.block := by
  induction its with
  | nil => simp [expBs, render]
  | cons it rest ih =>
    rw [List.map_cons, expBs, render_append, ih (fun x hx => hok x (by simp [hx])),
      List.flatMap_cons, ← render_expB_hembedH it.block (hok it (by simp))]
    simp

/-- S1 -/
theorem expectedH_eq_expected (d : HDoc) (h : HFrag d) : expectedH d = expected (hembed d) := by
  have hok : ∀ it ∈ d.items, hblockOK it.block = true := by
    have := h; simp only [HFrag, hfragB, List.all_eq_true] at this; exact this
  rw [expected, expectedPieces, hembed, expectedH, render_expBs_hembedH d.items hok]

/-! ### S2: source -/

/-- the source lines of one block -/
def hblockLines : HBlock → List Bytes
  | .base b => gblockLines b
  | .fcode tilde n info lines =>
    [List.replicate (n + 3) (fenceChar tilde) ++ info] ++ lines ++ [List.replicate (n + 3) (fenceChar tilde)]

/-- the source lines of the items (a blank line in front of every item but the first) -/
def docLinesH (first : Bool) : List HItem → List Bytes
  | [] => []
  | it :: rest => (if first then [] else [[]]) ++ hblockLines it.block ++ docLinesH false rest

theorem spellBs_fcodeH (prev pm : Nat) (tilde : Bool) (n : Nat) (info : Bytes) (lines : List Bytes) (rest : List Block) :
    spellBs false false prev pm (.fcode {} tilde n 0 0 info 0 lines :: rest) =
      (if prev == 0 then [] else [blankLine]) ++
        ([(0, List.replicate (n + 3) (fenceChar tilde) ++ info)] ++ lines.map (fun l => (0, l)) ++
          [(0, List.replicate (n + 3) (fenceChar tilde))]) ++ spellBs false false 6 0 rest := by
  simp only [spellBs, kindOf, bch, spellB]
  cases info <;> simp [spaces, fenceChar]

/-- one embedded stage-4 block in front of any other blocks -/
theorem spellBs_gembed_consH (b : GBlock) (prev pm : Nat) (rest : List Block) :
    spellBs false false prev pm (gembedBlock b :: rest) =
      spellBs false false prev pm [gembedBlock b] ++ spellBs false false (kindOf (gembedBlock b)) 0 rest := by
  cases b <;> simp [gembedBlock, spellBs]

theorem kindOf_gembedH (b : GBlock) : (kindOf (gembedBlock b) == 0) = false := by
  cases b <;> rfl

theorem fenceChar_plainH (tilde : Bool) :
    fenceChar tilde ≠ wsMarkQ ∧ fenceChar tilde ≠ wsMarkL ∧ fenceChar tilde ≠ wsMarkD := by
  cases tilde <;> decide

theorem printable_plainH (l : Bytes) (h : l.all printable = true) :
    ∀ c ∈ l, c ≠ wsMarkQ ∧ c ≠ wsMarkL ∧ c ≠ wsMarkD :=
  fun c hc => (printable_facts c (List.all_eq_true.mp h c hc)).2

theorem map_renderLine_plainH (lines : List Bytes) (h : ∀ l ∈ lines, l.all printable = true) :
    (lines.map (fun l => ((0, l) : Line))).map (renderLine 0 0 0 0) = lines := by
  induction lines with
  | nil => rfl
  | cons l rest ih =>
    rw [List.map_cons, List.map_cons, ih (fun x hx => h x (by simp [hx])),
      renderLine_plain l (printable_plainH l (h l (by simp)))]

theorem spellBs_hembedH (its : List HItem) (hok : ∀ it ∈ its, hblockOK it.block = true) (prev pm : Nat) :
    (spellBs false false prev pm (its.map fun it => hembedBlock it.block)).map (renderLine 0 0 0 0) =
      docLinesH (prev == 0) its := by
  induction its generalizing prev pm with
  | nil => simp [spellBs, docLinesH]
  | cons it rest ih =>
    obtain ⟨g, b⟩ := it
    have hb := hok ⟨g, b⟩ (by simp)
    cases b with
    | base b =>
      have h1 := spellBs_gembed4 [⟨0, b⟩] (by intro x hx; simp only [List.mem_singleton] at hx; subst hx; exact hb) prev pm
      have ih' := ih (fun x hx => hok x (by simp [hx])) (kindOf (gembedBlock b)) 0
      simp only [List.map_cons, List.map_nil] at h1
      rw [List.map_cons, hembedBlock, spellBs_gembed_consH, List.map_append, h1, ih', kindOf_gembedH]
      simp [docLinesG, docLinesH, hblockLines]
    | fcode tilde n info lines =>
      simp only [hblockOK, Bool.and_eq_true, List.all_eq_true] at hb
      have hsep : (if prev == 0 then [] else [blankLine]).map (renderLine 0 0 0 0) =
          (if (prev == 0) = true then [] else [[]]) := by
        by_cases h0 : prev = 0
        · subst h0; simp
        · have : (prev == 0) = false := by simpa using h0
          simp [this, renderLine_blank]
      have ih' := ih (fun x hx => hok x (by simp [hx])) 6 0
      have hfc : ∀ c ∈ List.replicate (n + 3) (fenceChar tilde), c ≠ wsMarkQ ∧ c ≠ wsMarkL ∧ c ≠ wsMarkD := by
        intro c hc
        rw [List.eq_of_mem_replicate hc]
        exact fenceChar_plainH tilde
      have hinfo : ∀ c ∈ info, c ≠ wsMarkQ ∧ c ≠ wsMarkL ∧ c ≠ wsMarkD :=
        fun c hc => (printable_facts c (alnum_factsH c (hb.1 c hc)).2.1).2
      have hopen : renderLine 0 0 0 0 (0, List.replicate (n + 3) (fenceChar tilde) ++ info) =
          List.replicate (n + 3) (fenceChar tilde) ++ info := by
        apply renderLine_plain
        intro c hc
        rcases List.mem_append.mp hc with hc | hc
        · exact hfc c hc
        · exact hinfo c hc
      have hlines : ∀ l ∈ lines, l.all printable = true := by
        intro l hl
        have := hb.2 l hl
        simp only [codeLineOK, Bool.and_eq_true] at this
        exact this.1
      rw [List.map_cons, hembedBlock, spellBs_fcodeH, List.map_append, List.map_append, List.map_append,
        List.map_append, ih', hsep, map_renderLine_plainH lines hlines]
      simp only [List.map_cons, List.map_nil, hopen, renderLine_plain _ hfc, docLinesH, hblockLines]
      rfl

theorem hblockLines_flatMapH (b : HBlock) : (hblockLines b).flatMap (· ++ [10]) = spellHBlock b := by
  cases b with
  | base b => exact gblockLines_flatMap4 b
  | fcode tilde n info lines => simp [hblockLines, spellHBlock]

theorem docLinesH_flatMapH (its : List HItem) (hg : ∀ it ∈ its, it.gap = 0) (first : Bool) :
    (docLinesH first its).flatMap (· ++ [10]) = spellHItems first its := by
  induction its generalizing first with
  | nil => simp [docLinesH, spellHItems]
  | cons it rest ih =>
    obtain ⟨g, b⟩ := it
    have hg0 : g = 0 := hg ⟨g, b⟩ (by simp)
    subst hg0
    rw [docLinesH, spellHItems, List.flatMap_append, List.flatMap_append, ih (fun x hx => hg x (by simp [hx])),
      hblockLines_flatMapH]
    cases first <;> simp [blanks]

theorem docLinesH_neH (it : HItem) (rest : List HItem) (h : hblockOK it.block = true) :
    docLinesH true (it :: rest) ≠ [] := by
  obtain ⟨g, b⟩ := it
  cases b with
  | base b =>
    have := docLinesG_ne4 ⟨0, b⟩ [] h
    simp only [docLinesG, if_true, List.nil_append, List.append_nil] at this
    simp [docLinesH, hblockLines, this]
  | fcode tilde n info lines => simp [docLinesH, hblockLines]

/-- S2: a non-empty stage-5 document without extra blank lines is spelled byte for byte like the embedded one -/
theorem spellH_eq_spell (d : HDoc) (h : HFrag d) (hb : hnoExtraBlanks d = true) (hne : d.items ≠ []) :
    spellH d = spell (hembed d) := by
  obtain ⟨items, trail⟩ := d
  simp only [hnoExtraBlanks, Bool.and_eq_true, beq_iff_eq, List.all_eq_true] at hb
  obtain ⟨ht, hg⟩ := hb
  simp only at ht hne; subst ht
  have hok : ∀ it ∈ items, hblockOK it.block = true := by
    have := h; simp only [HFrag, hfragB, List.all_eq_true] at this; exact this
  have hl := spellBs_hembedH items hok 0 0
  cases items with
  | nil => exact absurd rfl hne
  | cons it rest =>
    have hdn := docLinesH_neH it rest (hok it (by simp))
    simp only [spell, hembed, spellH, blanks, List.replicate_zero, List.append_nil, if_true]
    rw [hl]
    simp only [beq_self_eq_true]
    rw [joinLines_flatMap _ hdn, docLinesH_flatMapH _ hg]

end GM.Proof.CMFrag
