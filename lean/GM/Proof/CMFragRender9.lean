/-
  GM.Proof.CMFragRender9 — the renderer half of the conformance proof for the stage-9 fragment (paragraphs whose
  lines may end in a hard line break written with a backslash) of GM.Spec.CMFrag:
  * `renderDoc_hard9`: the renderer model on Document[Paragraph[Text(soft | hard)…]…] writes `<p>` + `hardHtml9` +
    `</p>` for every paragraph and never panics;
  * `hlineOfB`, `hlineSrc_ofB9`, `hlinesOK_ofB9`, `hardHtml_ofB9`, `hardHtml_doc9`: the bridge to the spec side — the
    lines of a `BDoc` as `HLine`s, their source, `HLinesOK` from the line conditions of `bfragB`, and `hardHtml9` of
    them = the paragraph body of `expectedBD`.
-/
import GM.Proof.CMFrag9Defs
import GM.Proof.CMFragRender5
namespace GM.Proof.CMFrag
open GM GM.Spec.CM GM.Spec.CMFrag

/-! ### the renderer on paragraphs of hard / soft lines -/

/-- the renderer on one Text node of a paragraph line, with its `soft` and `hard` flags (xhtml) -/
theorem renderNode_text9 (rc : RCfg) (hes : rc.core.escSpace = false) (hhw : rc.core.hardWraps = false)
    (hea : rc.core.ea = 0) (hx : rc.core.xhtml = true) (ph : Bool) (next : Option Node) (l : Bytes)
    (soft hard : Bool) :
    renderNode rc ph next (.mk (.text l soft hard false false) none []) =
      GM.write false l ++ (if hard then strBytes "<br />\n" else if soft then [10] else []) := by
  rw [renderNode]
  cases hard <;> simp [enter, leave, handled_text, skipsChildren, renderNodes, hes, hhw, hea, hx]

theorem renderNodes_hardNodes9 (rc : RCfg) (hes : rc.core.escSpace = false) (hhw : rc.core.hardWraps = false)
    (hea : rc.core.ea = 0) (hx : rc.core.xhtml = true) (ph : Bool) (ls : List HLine) :
    renderNodes rc ph (hardNodes9 ls) = hardHtml9 ls := by
  induction ls with
  | nil => simp [hardNodes9, renderNodes, hardHtml9]
  | cons x rest ih =>
    cases rest with
    | nil => simp [hardNodes9, renderNodes, hardHtml9, renderNode_text9 rc hes hhw hea hx]
    | cons y rest =>
      rw [hardNodes9, renderNodes, renderNode_text9 rc hes hhw hea hx, ih, hardHtml9]
      cases x.hard <;> simp

theorem renderNode_para9 (rc : RCfg) (hes : rc.core.escSpace = false) (hhw : rc.core.hardWraps = false)
    (hea : rc.core.ea = 0) (hx : rc.core.xhtml = true) (ph : Bool) (next : Option Node) (ls : List HLine) :
    renderNode rc ph next (.mk .paragraph none (hardNodes9 ls)) =
      strBytes "<p>" ++ hardHtml9 ls ++ strBytes "</p>\n" := by
  rw [renderNode]
  simp only [enter, leave, handled_para, skipsChildren, openTag, Kind.isTableHeader,
    renderNodes_hardNodes9 rc hes hhw hea hx]
  have h1 : strBytes "<p>" = [60] ++ strBytes "p" ++ [62] := by decide +kernel
  rw [h1]; simp

theorem renderNodes_paras9 (rc : RCfg) (hes : rc.core.escSpace = false) (hhw : rc.core.hardWraps = false)
    (hea : rc.core.ea = 0) (hx : rc.core.xhtml = true) (ph : Bool) (ps : List (List HLine)) :
    renderNodes rc ph (ps.map fun ls => .mk .paragraph none (hardNodes9 ls)) =
      ps.flatMap fun ls => strBytes "<p>" ++ hardHtml9 ls ++ strBytes "</p>\n" := by
  induction ps with
  | nil => simp [renderNodes]
  | cons p rest ih =>
    rw [List.map_cons, renderNodes, renderNode_para9 rc hes hhw hea hx, ih]
    simp

theorem render_doc9 (rc : RCfg) (hes : rc.core.escSpace = false) (hhw : rc.core.hardWraps = false)
    (hea : rc.core.ea = 0) (hx : rc.core.xhtml = true) (ps : List (List HLine)) :
    render rc (.mk .document none (ps.map fun ls => .mk .paragraph none (hardNodes9 ls))) =
      ps.flatMap fun ls => strBytes "<p>" ++ hardHtml9 ls ++ strBytes "</p>\n" := by
  rw [render, renderNode]
  simp [enter, leave, handled_doc, skipsChildren, Kind.isTableHeader, renderNodes_paras9 rc hes hhw hea hx]

theorem renderPanicsNodes_hardNodes9 (rc : RCfg) (ls : List HLine) :
    renderPanicsNodes rc (hardNodes9 ls) = none := by
  induction ls with
  | nil => simp [hardNodes9, renderPanicsNodes]
  | cons x rest ih =>
    cases rest with
    | nil => simp [hardNodes9, renderPanicsNodes, renderPanicsNode, nodePanic]
    | cons y rest =>
      rw [hardNodes9, renderPanicsNodes, ih]
      simp [renderPanicsNode, nodePanic, renderPanicsNodes]

theorem renderPanicsNodes_paras9 (rc : RCfg) (ps : List (List HLine)) :
    renderPanicsNodes rc (ps.map fun ls => .mk .paragraph none (hardNodes9 ls)) = none := by
  induction ps with
  | nil => simp [renderPanicsNodes]
  | cons p rest ih =>
    rw [List.map_cons, renderPanicsNodes, ih]
    simp [renderPanicsNode, nodePanic, renderPanicsNodes_hardNodes9]

theorem renderPanics_doc9 (rc : RCfg) (ps : List (List HLine)) :
    renderPanics rc (.mk .document none (ps.map fun ls => .mk .paragraph none (hardNodes9 ls))) = none := by
  simp [renderPanics, renderPanicsNode, nodePanic, renderPanicsNodes_paras9]

theorem renderDoc_hard_any9 (o : GM.Convert.ROpts) (ho : o.hardWraps = false) (hx : o.xhtml = true)
    (ps : List (List HLine)) :
    GM.Convert.renderDoc o (.mk .document none (ps.map fun ls => .mk .paragraph none (hardNodes9 ls))) =
      .ok (ps.flatMap fun ls => strBytes "<p>" ++ hardHtml9 ls ++ strBytes "</p>\n") := by
  rw [GM.Convert.renderDoc, renderPanics_doc9,
    render_doc9 o.rcfg (rcfg_escSpace o) (by rw [rcfg_hardWraps, ho]) (rcfg_ea o) (by rw [rcfg_xhtml4, hx])]

/-- the renderer on a document of paragraphs of hard / soft lines -/
theorem renderDoc_hard9 (ps : List (List HLine)) :
    GM.Convert.renderDoc cmOpts (.mk .document none (ps.map fun ls => .mk .paragraph none (hardNodes9 ls))) =
      .ok (ps.flatMap fun ls => strBytes "<p>" ++ hardHtml9 ls ++ strBytes "</p>\n") :=
  renderDoc_hard_any9 cmOpts rfl rfl ps

/-! ### the bridge to the spec side (`BDoc`) -/

/-- a line of a stage-9 document as the renderer / the inline phase sees it: the spelled text and the flag -/
def hlineOfB : BLine → HLine := fun x => ⟨escSpell x.cs, x.hard⟩

/-- the source of the line is the line of `spellBD` (without the line feed) -/
theorem hlineSrc_ofB9 (x : BLine) : hlineSrc (hlineOfB x) = spellBLine x := rfl

theorem blastSoft_getLast9 (ls : List BLine) (h : blastSoft ls = true) :
    ∀ z, ls.getLast? = some z → z.hard = false := by
  intro z hz
  unfold blastSoft at h
  rw [hz] at h
  simpa using h

theorem bitemOK_parts9 (it : BItem) (h : bitemOK it = true) :
    it.lines ≠ [] ∧ (∀ x ∈ it.lines, lineOK x.cs = true) ∧ ∀ z, it.lines.getLast? = some z → z.hard = false := by
  simp only [bitemOK, Bool.and_eq_true, Bool.not_eq_true', List.isEmpty_eq_false_iff, List.all_eq_true] at h
  exact ⟨h.1.1, h.1.2, blastSoft_getLast9 it.lines h.2⟩

theorem escSpell_noLf9 (l : FLine) (h : lineOK l = true) : ∀ c ∈ escSpell l, c ≠ 10 := by
  intro c hc
  exact (printable_facts c (List.all_eq_true.mp (escSpell_printable l (lineOK_printable l h)) c hc)).1

/-- `HLinesOK` from the line conditions of `bfragB` -/
theorem hlinesOK_ofB9 (ls : List BLine) (hok : ∀ x ∈ ls, lineOK x.cs = true)
    (hlast : ∀ z, ls.getLast? = some z → z.hard = false) : HLinesOK (ls.map hlineOfB) := by
  constructor
  · intro y hy
    obtain ⟨x, hx, rfl⟩ := List.mem_map.mp hy
    exact ⟨goodLine_of_lineOK x.cs (hok x hx), escSpell_noLf9 x.cs (hok x hx)⟩
  · intro y hy
    rw [List.getLast?_map] at hy
    cases hl : ls.getLast? with
    | none => rw [hl] at hy; cases hy
    | some z =>
      rw [hl] at hy
      simp only [Option.map_some, Option.some.injEq] at hy
      subst hy
      exact hlast z hl

theorem hlinesOK_item9 (it : BItem) (h : bitemOK it = true) : HLinesOK (it.lines.map hlineOfB) :=
  hlinesOK_ofB9 it.lines (bitemOK_parts9 it h).2.1 (bitemOK_parts9 it h).2.2

/-- `hardHtml9` of the spelled lines is the paragraph body of `expectedBD` -/
theorem hardHtml_ofB9 (ls : List BLine) (hp : ∀ x ∈ ls, ∀ t ∈ x.cs, printable t.c = true) :
    hardHtml9 (ls.map hlineOfB) = expBLines ls := by
  induction ls with
  | nil => rfl
  | cons x rest ih =>
    have hw : GM.write false (hlineOfB x).l = escHtml (plain x.cs) := write_spelled x.cs (hp x (by simp))
    cases rest with
    | nil => simp only [List.map_cons, List.map_nil, hardHtml9, expBLines, hw]
    | cons y rest =>
      have ih' := ih (fun z hz => hp z (by simp [hz]))
      simp only [List.map_cons] at ih' ⊢
      rw [hardHtml9, expBLines, hw, ih']
      · rfl
      · simp

theorem flatMap_congr9 {α β : Type} (l : List α) (f g : α → List β) (h : ∀ x ∈ l, f x = g x) :
    l.flatMap f = l.flatMap g := by
  induction l with
  | nil => rfl
  | cons a rest ih =>
    rw [List.flatMap_cons, List.flatMap_cons, h a (by simp), ih (fun x hx => h x (by simp [hx]))]

/-- … for a whole document: the renderer's output on the spelled paragraphs is `expectedBD` -/
theorem hardHtml_doc9 (d : BDoc) (h : BFrag d) :
    (d.items.map fun it => it.lines.map hlineOfB).flatMap
      (fun ls => strBytes "<p>" ++ hardHtml9 ls ++ strBytes "</p>\n") = expectedBD d := by
  have hok : ∀ it ∈ d.items, bitemOK it = true := by
    have := h; simp only [BFrag, bfragB, List.all_eq_true] at this; exact this
  rw [expectedBD, List.flatMap_map]
  apply flatMap_congr9
  intro it hit
  show strBytes "<p>" ++ hardHtml9 (it.lines.map hlineOfB) ++ strBytes "</p>\n" = expBItem it
  rw [expBItem, hardHtml_ofB9 it.lines
    (fun x hx => lineOK_printable x.cs ((bitemOK_parts9 it (hok it hit)).2.1 x hx))]

end GM.Proof.CMFrag
