/-
  GM.Proof.CMFrag16Defs — stage 16 (inline links inside the text lines): lines made of text atoms and inline-link
  atoms `[t](d)`, as source bytes, as renderer nodes and as HTML. (Definitions only.)
-/
import GM.Proof.CMFrag8Inl

namespace GM.Proof.CMFrag
open GM GM.Text

/-- a piece of a line: literal text (source bytes that never consult an inline parser), or an inline link with the
    text `t` and the destination `d` (no title) -/
inductive LAtom where
  | txt (bs : Bytes)
  | link (t d : Bytes)
deriving Repr, Inhabited

/-- the source bytes of an atom: a link is written `[t](d)` -/
def latomSrc : LAtom → Bytes
  | .txt bs => bs
  | .link t d => [91] ++ t ++ [93, 40] ++ d ++ [41]

def llineSrc (as : List LAtom) : Bytes := as.flatMap latomSrc

def LAtom.isTxt : LAtom → Bool
  | .txt _ => true
  | .link _ _ => false

/-- text and link atoms alternate -/
def lalternating : List LAtom → Bool
  | a :: b :: rest => (a.isTxt != b.isTxt) && lalternating (b :: rest)
  | _ => true

/-- a byte of a destination: a letter, a digit or `/` -/
def isDestC16 (c : UInt8) : Bool := GM.Spec.CM.isAlnumC c || c == 47

/-- an atom is well formed: text = non-empty bytes that are quiet at every position of a line (in particular no
    unescaped `!`, `[`, `]`), leaving the flag `escaped` cleared; link = non-empty letters and digits as text,
    non-empty letters, digits and `/` as destination -/
def LAtomOK : LAtom → Prop
  | .txt bs => bs ≠ [] ∧ (∀ i, quiet bs i false = true) ∧ escAfter bs false = false
  | .link t d => (t ≠ [] ∧ ∀ c ∈ t, GM.Spec.CM.isAlnumC c = true) ∧ (d ≠ [] ∧ ∀ c ∈ d, isDestC16 c = true)

/-- a rich line: text atoms and links alternate, starting and ending with text; the first byte is a letter, the
    last byte neither white space nor a backslash -/
structure LRichLine (as : List LAtom) : Prop where
  alt : lalternating as = true
  first : ∃ bs rest, as = .txt bs :: rest ∧ ∀ c, bs.head? = some c → GM.Spec.CM.isLetter c = true
  last : ∃ init bs, as = init ++ [.txt bs] ∧ (∀ c, bs.getLast? = some c → isSpace c = false ∧ c ≠ 92)
  ok : ∀ a ∈ as, LAtomOK a

/-- the nodes of one line as the renderer reads them; `soft`: the line is not the last of its paragraph -/
def latomNodes (soft : Bool) : List LAtom → List GM.Node
  | [] => []
  | [.txt bs] => [.mk (.text bs soft false false false) none []]
  | .txt bs :: rest => .mk (.text bs false false false false) none [] :: latomNodes soft rest
  | .link t d :: rest =>
    .mk (.link d none) none [.mk (.text t false false false false) none []] :: latomNodes soft rest

def lrichNodes : List (List LAtom) → List GM.Node
  | [] => []
  | [l] => latomNodes false l
  | l :: l' :: rest => latomNodes true l ++ lrichNodes (l' :: rest)

/-- the HTML of one line (a destination of letters, digits and `/` is written as it is) -/
def latomHtml : LAtom → Bytes
  | .txt bs => GM.write false bs
  | .link t d => strBytes "<a href=\"" ++ d ++ strBytes "\">" ++ GM.write false t ++ strBytes "</a>"

def lrichLineHtml (as : List LAtom) : Bytes := as.flatMap latomHtml

end GM.Proof.CMFrag
