/-
  GM.Proof.QuoteSimFlags — the `HasBlankPreviousLines` flags of related stores, for sources WITHOUT A BLANK LINE (`FL`):
  there every `openBlocks` call of the two runs gets the same flag (GM.Proof.QuoteSimStats, threaded through the
  per-line loop and the outer loop), so that the relation `NodeRel.blank` gives equal flags on every node that is not
  the Document. Consequences: `FlagsOK` (what `listParser.Close` reads, hypothesis of `listClose_sim'`) on every pair of
  related stores, and `FlagsEq` (hypothesis of `quoteSimPair_eqL`) on the final stores.
-/
import GM.Proof.QuoteSimListClose
import GM.Proof.QuoteSimInvL
import GM.Proof.QuoteSimFinalL

namespace GM.Blocks
open GM GM.Text

theorem flagsEq_of_rel {src : Bytes} (hfl : FL src) {nA nB : List Node} (hn : StoreRel src nA nB) : FlagsEq nA nB :=
  fun i hi => (hn.node i).blank hfl (beq_eq_false_iff_ne.mpr hi)

theorem ustoreL_kids {nA : List Node} (hu : UStoreL nA) (c : Nat) : 0 ∉ (nA.getD c default).children := by
  rw [List.getD_eq_getElem?_getD]
  cases hg : nA[c]? with
  | none => intro h; cases h
  | some n => exact (hu.node n (List.mem_of_getElem? hg)).kids

theorem flagsOK_of {src : Bytes} (hfl : FL src) {nA nB : List Node} (hn : StoreRel src nA nB) (hu : UStoreL nA) :
    ∀ (cs : List Nat) (first : Bool), (∀ c ∈ cs, c ≠ 0) → FlagsOK nA nB cs first
  | [], _, _ => trivial
  | c :: cs, first, h => by
    refine ⟨⟨fun _ => flagsEq_of_rel hfl hn c (h c (List.mem_cons_self ..)), fun c1 hc1 => ?_⟩,
      flagsOK_of hfl hn hu cs false (fun x hx => h x (List.mem_cons_of_mem _ hx))⟩
    refine flagsEq_of_rel hfl hn c1 (fun e => ?_)
    subst e
    exact ustoreL_kids hu c (List.mem_of_mem_drop hc1)

/-- what `listClose_sim'` needs, from the relation and the store invariant -/
theorem flagsOK_node {src : Bytes} (hfl : FL src) {nA nB : List Node} (hn : StoreRel src nA nB) (hu : UStoreL nA)
    (node : Nat) : FlagsOK nA nB (nA.getD node default).children true :=
  flagsOK_of hfl hn hu _ true (fun c hc e => ustoreL_kids hu node (e ▸ hc))

end GM.Blocks
