/-
  GM.Proof.CMFrag19Defs — stage 19 (raw inline HTML tags inside the text lines): lines made of text atoms and tag atoms
  `<n>` / `</n>` (no attributes), as source bytes, as renderer nodes and as HTML. (Definitions only.)
-/
import GM.Proof.CMFrag8Inl

namespace GM.Proof.CMFrag
open GM GM.Text

/-- a piece of a line: literal text (source bytes that never consult an inline parser), an open tag `<n>`, or a
    closing tag `</n>` -/
inductive HAtom where
  | txt (bs : Bytes)
  | open (n : Bytes)
  | close (n : Bytes)
deriving Repr, Inhabited

/-- the source bytes of an atom -/
def hatomSrc : HAtom → Bytes
  | .txt bs => bs
  | .open n => [60] ++ n ++ [62]
  | .close n => [60, 47] ++ n ++ [62]

def hlineSrc19 (as : List HAtom) : Bytes := as.flatMap hatomSrc

def HAtom.isTxt19 : HAtom → Bool
  | .txt _ => true
  | _ => false

/-- text atoms and tags alternate -/
def halternating19 : List HAtom → Bool
  | a :: b :: rest => (a.isTxt19 != b.isTxt19) && halternating19 (b :: rest)
  | _ => true

/-- a tag name: an ASCII letter followed by letters and digits -/
def TagNameOK19 (n : Bytes) : Prop :=
  n ≠ [] ∧ (∀ c, n.head? = some c → GM.Spec.CM.isLetter c = true) ∧ ∀ c ∈ n, GM.Spec.CM.isAlnumC c = true

/-- an atom is well formed: text = non-empty bytes that are quiet at every position of a line (in particular no
    unescaped `<`), leaving the flag `escaped` cleared; tag = a tag name -/
def HAtomOK19 : HAtom → Prop
  | .txt bs => bs ≠ [] ∧ (∀ i, quiet bs i false = true) ∧ escAfter bs false = false
  | .open n => TagNameOK19 n
  | .close n => TagNameOK19 n

/-- a rich line: text atoms and tags alternate, starting and ending with text; the first byte is a letter, the
    last byte neither white space nor a backslash -/
structure HRichLine19 (as : List HAtom) : Prop where
  alt : halternating19 as = true
  first : ∃ bs rest, as = .txt bs :: rest ∧ ∀ c, bs.head? = some c → GM.Spec.CM.isLetter c = true
  last : ∃ init bs, as = init ++ [.txt bs] ∧ (∀ c, bs.getLast? = some c → isSpace c = false ∧ c ≠ 92)
  ok : ∀ a ∈ as, HAtomOK19 a

/-- the nodes of one line as the renderer reads them; `soft`: the line is not the last of its paragraph -/
def hatomNodes19 (soft : Bool) : List HAtom → List GM.Node
  | [] => []
  | [.txt bs] => [.mk (.text bs soft false false false) none []]
  | .txt bs :: rest => .mk (.text bs false false false false) none [] :: hatomNodes19 soft rest
  | a :: rest => .mk (.rawHTML [hatomSrc a]) none [] :: hatomNodes19 soft rest

def hrichNodes19 : List (List HAtom) → List GM.Node
  | [] => []
  | [l] => hatomNodes19 false l
  | l :: l' :: rest => hatomNodes19 true l ++ hrichNodes19 (l' :: rest)

/-- the HTML of one line (raw HTML is not filtered by `cmOpts`: a tag is written verbatim) -/
def hatomHtml19 : HAtom → Bytes
  | .txt bs => GM.write false bs
  | a => hatomSrc a

def hrichLineHtml19 (as : List HAtom) : Bytes := as.flatMap hatomHtml19

end GM.Proof.CMFrag
