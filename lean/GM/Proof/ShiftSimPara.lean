/-
  GM.Proof.ShiftSimPara — the per-parser contracts of the shift simulation (`OpenSim` / `ContinueSim` / `CloseSim`)
  and the paragraph parser (parser/paragraph.go) as the first instance; every other per-parser file follows this
  pattern.
-/
import GM.Proof.ShiftSimTree

namespace GM.Blocks.Sh
open GM GM.Text GM.Spec GM.Proof.Reader GM.Blocks

/-- the reader of run A stands on a line -/
def HasLine (b : Bytes) (s : St) : Prop := ∃ c, RI b s.r c ∧ c.p < b.length

/-- the source of run A is empty or ends with a line feed -/
def NL (b : Bytes) : Prop := b = [] ∨ b.getLast? = some 10

/-- `Open` from related states on a line: same answer (node id mapped), afterwards at least the limbo relation, and
    the full relation when the answer is nil (the next parser is tried) or HasChildren (`goto retry`); a list /
    list item that was opened leaves the flag `emptyListItemWithBlankLines` equal on both sides. -/
def OpenSim (F : Frame) (b : Bytes) (bp : BP) : Prop := ∀ parent sA sB, SR F b sA sB → HasLine b sA →
  P2 (fun x y sA' sB' => y = (x.1.map F.ι, x.2) ∧ SRLim F b sA' sB' ∧
      ((x.2.hasChildren = true ∨ x.1 = none) → SR F b sA' sB') ∧
      ((bp = .list ∨ bp = .listItem) → x.1.isSome = true → sB'.pc.emptyItemBlank = sA'.pc.emptyItemBlank))
    (bpOpen bp parent sA) (bpOpen bp (F.ι parent) sB)

/-- `Continue` from related states on a line: same answer, related states -/
def ContinueSim (F : Frame) (b : Bytes) (bp : BP) : Prop := ∀ node sA sB, SR F b sA sB → HasLine b sA → NL b →
  P2 (fun x y sA' sB' => y = x ∧ SR F b sA' sB') (bpContinue bp node sA) (bpContinue bp (F.ι node) sB)

/-- `Close` does not look at the reader (except for its source) -/
def CloseSim (F : Frame) (b : Bytes) (bp : BP) : Prop := ∀ node rA rB sA sB, SRL F b rA rB sA sB →
  P2 (fun _ _ sA' sB' => SRL F b rA rB sA' sB') (bpClose bp node sA) (bpClose bp (F.ι node) sB)

/-- facts about what `PeekLine` returned for the cursor `c` when a line is there -/
theorem view_some_facts {b : Bytes} {c : RCur} (hp : c.p < b.length) :
    ∃ l, RCur.view b c = some l ∧ (l.length : Int) = (RCur.seg b c).len ∧ 0 < l.length ∧
      (RCur.seg b c).start < (RCur.seg b c).stop ∧ 0 ≤ (RCur.seg b c).padding := by
  refine ⟨_, view_eq b c hp, view_len b c hp (view_eq b c hp), ?_, ?_, ?_⟩
  · have h1 := lt_lineEnd b hp
    have h2 := lineEnd_le b c.p
    simp [spaces, length_sub b h2]; omega
  · have h1 := lt_lineEnd b hp
    simp [RCur.seg]; omega
  · simp [RCur.seg]

theorem isBlank_nil : isBlank ([] : Bytes) = true := by decide

/-! ### paragraph.go -/

theorem paragraphOpen_sim (F : Frame) (b : Bytes) : OpenSim F b .paragraph := by
  intro parent sA sB h _
  show P2 _ (paragraphOpen parent sA) (paragraphOpen (F.ι parent) sB)
  unfold paragraphOpen
  refine P2.bind (peekLine_p2 h) (fun x y sA1 sB1 ⟨⟨c, hc, hx⟩, hy, h1⟩ => ?_)
  subst hx hy
  refine P2.bind (source_p2 h1) (fun a a' sA2 sB2 ⟨ha, hb, e1, e2⟩ => ?_)
  subst e1 e2
  rw [ha, hb]
  refine P2.bind (P := fun s t sA' sB' => t = moveSeg F.d s ∧ sA2 = sA' ∧ sB2 = sB')
    (P2.liftE (fun s t e1 e2 => ?_)) (fun s t sA3 sB3 ⟨ht, e1, e2⟩ => ?_)
  · have := trimLeftSpace_sh F _ e1
    simp only at this e2
    rw [this] at e2; cases e2; exact ⟨rfl, rfl, rfl⟩
  subst ht e1 e2
  rw [moveSeg_isEmpty]
  by_cases hemp : s.isEmpty = true
  · rw [if_pos hemp, if_pos hemp]
    exact P2.pure ⟨rfl, h1.limbo, fun _ => h1, fun hh => by cases hh <;> contradiction⟩
  · rw [if_neg hemp, if_neg hemp]
    refine P2.bind (newNode_p2 h1 _ _ (by simp [shN, shClosure])) (fun n m sA4 sB4 ⟨_, hm, _, h4⟩ => ?_)
    subst hm
    refine P2.bind (appendLine_p2 h4 n rfl) (fun _ _ sA5 sB5 h5 => ?_)
    rw [moveSeg_len]
    refine P2.bind (advance_limbo h5 _) (fun _ _ sA6 sB6 h6 => ?_)
    exact P2.pure ⟨rfl, h6, fun hh => by rcases hh with hh | hh <;> simp [stNoChildren] at hh,
      fun hh => by cases hh <;> contradiction⟩

theorem paragraphContinue_sim (F : Frame) (b : Bytes) : ContinueSim F b .paragraph := by
  intro node sA sB h _ _
  show P2 _ (paragraphContinue node sA) (paragraphContinue (F.ι node) sB)
  unfold paragraphContinue
  refine P2.bind (peekLine_p2 h) (fun x y sA1 sB1 ⟨⟨c, hc, hx⟩, hy, h1⟩ => ?_)
  subst hx hy
  simp only
  by_cases hb : isBlank ((RCur.view b c).getD []) = true
  · rw [if_pos hb, if_pos hb]; exact P2.pure ⟨rfl, h1⟩
  · rw [if_neg hb, if_neg hb]
    refine P2.bind (appendLine_p2 h1 node rfl) (fun _ _ sA2 sB2 h2 => ?_)
    have hn : 0 ≤ (RCur.seg b c).len - 1 := by
      by_cases hp : c.p < b.length
      · obtain ⟨l, _, h3, h4, _⟩ := view_some_facts hp
        omega
      · rw [view_none b c hp] at hb
        exact absurd isBlank_nil hb
    refine P2.bind (advance_p2 h2 (by rw [moveSeg_len]) hn) (fun _ _ sA3 sB3 h3 => ?_)
    exact P2.pure ⟨rfl, h3⟩

theorem paragraphClose_sim (F : Frame) (hF : F.OK) (b : Bytes) : CloseSim F b .paragraph := by
  intro node rA rB sA sB h
  show P2 _ (paragraphClose node sA) (paragraphClose (F.ι node) sB)
  unfold paragraphClose
  refine P2.bind (getNode_l h node) (fun n m sA1 sB1 ⟨hn, hm, e1, e2⟩ => ?_)
  subst e1 e2 hm
  refine P2.bind (source_l h) (fun a a' sA2 sB2 ⟨ha, hb, e1, e2⟩ => ?_)
  subst e1 e2
  rw [ha, hb]
  rw [shN_lines, List.length_map]
  have tail : ∀ sA3 sB3, SRL F b rA rB sA3 sB3 → P2 (fun _ _ sA' sB' => SRL F b rA rB sA' sB')
      ((do let n ← getNode node
           if (n.lines.length == 0) = true then
             match n.parent with
             | none => throw Panic.nil
             | some p => removeChild p node
           else pure ()) sA3)
      ((do let n ← getNode (F.ι node)
           if (n.lines.length == 0) = true then
             match n.parent with
             | none => throw Panic.nil
             | some p => removeChild p (F.ι node)
           else pure ()) sB3) := by
    intro sA3 sB3 h3
    refine P2.bind (getNode_l h3 node) (fun n2 m2 sA4 sB4 ⟨hn2, hm2, e1, e2⟩ => ?_)
    subst e1 e2 hm2
    rw [shN_lines, List.length_map, shN_parent]
    by_cases hl : (n2.lines.length == 0) = true
    · rw [if_pos hl, if_pos hl]
      cases n2.parent with
      | none => exact P2.throwL
      | some p => exact removeChild_l hF h3 p node
    · rw [if_neg hl, if_neg hl]; exact P2.pure h3
  by_cases hl : (n.lines.length != 0) = true
  · rw [if_pos hl, if_pos hl]
    refine P2.bind (P := fun s t sA' sB' => t = s.map (moveSeg F.d) ∧ sA2 = sA' ∧ sB2 = sB')
      (P2.liftE (fun s t e1 e2 => ?_)) (fun s t sA3 sB3 ⟨ht, e1, e2⟩ => ?_)
    · rw [trimLeftAll_sh F _ e1] at e2; cases e2; exact ⟨rfl, rfl, rfl⟩
    subst ht e1 e2
    rw [List.length_map]
    refine P2.bind (P := fun s t sA' sB' => t = moveSeg F.d s ∧ sA2 = sA' ∧ sB2 = sB')
      (P2.liftE (fun s t e1 e2 => ?_)) (fun l1 l1' sA3 sB3 ⟨ht, e1, e2⟩ => ?_)
    · rw [lineAt_sh F.d e1] at e2; cases e2; exact ⟨rfl, rfl, rfl⟩
    subst ht e1 e2
    refine P2.bind (P := fun s t sA' sB' => t = moveSeg F.d s ∧ sA2 = sA' ∧ sB2 = sB')
      (P2.liftE (fun s t e1 e2 => ?_)) (fun l2 l2' sA3 sB3 ⟨ht, e1, e2⟩ => ?_)
    · rw [trimRightSpace_sh F _ e1] at e2; cases e2; exact ⟨rfl, rfl, rfl⟩
    subst ht e1 e2
    refine P2.bind (P := fun s t sA' sB' => t = s.map (moveSeg F.d) ∧ sA2 = sA' ∧ sB2 = sB')
      (P2.liftE (fun s t e1 e2 => ?_)) (fun ls ls' sA3 sB3 ⟨ht, e1, e2⟩ => ?_)
    · rw [lineSet_sh F.d e1] at e2; cases e2; exact ⟨rfl, rfl, rfl⟩
    subst ht e1 e2
    refine P2.bind (modNode_l h node (fun n => { n with lines := ls }) (fun n => { n with lines := ls.map (moveSeg F.d) }) (fun a => by simp [shN]) (fun _ => rfl)) (fun _ _ sA3 sB3 h3 => ?_)
    exact tail sA3 sB3 h3
  · rw [if_neg hl, if_neg hl]; exact tail _ _ h

end GM.Blocks.Sh
