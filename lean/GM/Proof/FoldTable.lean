/-
  GM.Proof.FoldTable — decodeRune lemmas and the facts about the regenerated case-folding table
  (kernel-evaluated) that the caseFold proofs use.
-/
import GM.Model.Util
import GM.Proof.Utf8
import GM.Proof.Resolve

namespace GM.Proof
open GM

/-! ### decodeRune looks only at the continuation bytes that follow -/

theorem isCont_iff (b : UInt8) : isCont b = true ↔ 128 ≤ b.toNat ∧ b.toNat ≤ 191 := by
  simp [isCont, UInt8.le_iff_toNat_le]

theorem range3_nc (c b : UInt8) (h : isCont b = false) :
    ¬((if c = 224 then (160 : UInt8) else 128) ≤ b ∧ b ≤ (if c = 237 then (159 : UInt8) else 191)) := by
  intro ⟨h1, h2⟩
  have : isCont b = true := by
    rw [isCont_iff]
    rw [UInt8.le_iff_toNat_le] at h1 h2
    constructor
    · split at h1 <;> simp at h1 <;> omega
    · split at h2 <;> simp at h2 <;> omega
  rw [h] at this; cases this

theorem range4_nc (c b : UInt8) (h : isCont b = false) :
    ¬((if c = 240 then (144 : UInt8) else 128) ≤ b ∧ b ≤ (if c = 244 then (143 : UInt8) else 191)) := by
  intro ⟨h1, h2⟩
  have : isCont b = true := by
    rw [isCont_iff]
    rw [UInt8.le_iff_toNat_le] at h1 h2
    constructor
    · split at h1 <;> simp at h1 <;> omega
    · split at h2 <;> simp at h2 <;> omega
  rw [h] at this; cases this

theorem decodeRune_takeWhile (c : UInt8) (l : Bytes) :
    decodeRune (c :: l) = decodeRune (c :: l.takeWhile isCont) := by
  rcases l with _ | ⟨b1, _ | ⟨b2, _ | ⟨b3, l⟩⟩⟩
  · rfl
  · cases h1 : isCont b1 <;> simp [decodeRune, List.takeWhile, h1]
  · cases h1 : isCont b1
    · cases h2 : isCont b2 <;> simp [decodeRune, List.takeWhile, h1, h2, range3_nc _ _ h1]
    · cases h2 : isCont b2 <;> simp [decodeRune, List.takeWhile, h1, h2]
  · cases h1 : isCont b1
    · simp [decodeRune, List.takeWhile, h1, range3_nc _ _ h1, range4_nc _ _ h1]
    · cases h2 : isCont b2
      · simp [decodeRune, List.takeWhile, h1, h2]
      · cases h3 : isCont b3 <;> simp [decodeRune, List.takeWhile, h1, h2, h3]

theorem decodeRune_congr (c : UInt8) {l1 l2 : Bytes} (h : l1.takeWhile isCont = l2.takeWhile isCont) :
    decodeRune (c :: l1) = decodeRune (c :: l2) := by
  rw [decodeRune_takeWhile c l1, decodeRune_takeWhile c l2, h]

theorem decodeRune_width_le (l : Bytes) : (decodeRune l).2 ≤ l.length := by
  unfold decodeRune
  repeat' split
  all_goals (try (dsimp only; split))
  all_goals simp only [List.length_cons, List.length_nil]
  all_goals omega

theorem decodeRune_width_le4 (l : Bytes) : (decodeRune l).2 ≤ 4 := by
  unfold decodeRune
  repeat' split
  all_goals (try (dsimp only; split))
  all_goals simp only
  all_goals omega

theorem decodeRune_append_aux (b0 : UInt8) (x tail : Bytes) (r n : Nat) (h : decodeRune (b0 :: x) = (r, n))
    (hn : n = x.length + 1) (hx : x.length ≤ 3) (hr : r ≠ runeError) :
    decodeRune (b0 :: (x ++ tail)) = (r, n) := by
  have leaf : ∀ (p q : Nat × Nat), p = (r, n) → (p = q ∨ p.2 ≠ n ∨ p.1 = runeError) → q = (r, n) := by
    intro p q hp hc
    rcases hc with hc | hc | hc
    · rw [← hc]; exact hp
    · rw [hp] at hc; exact absurd rfl hc
    · rw [hp] at hc; exact absurd hc hr
  rcases x with _ | ⟨b1, _ | ⟨b2, _ | ⟨b3, _ | ⟨b4, x⟩⟩⟩⟩
  all_goals simp only [List.length_cons, List.length_nil] at hn hx
  all_goals try omega
  all_goals
    subst hn
    refine leaf _ _ h ?_
    rw [decodeRune.eq_def, decodeRune.eq_def]
    simp only [List.cons_append, List.nil_append]
    repeat' split
    all_goals first
      | (simp only [true_or]; done)
      | (simp only [or_true]; done)
      | (right; left; simp only; omega)
      | skip

/-- the width reported by decodeRune, minus the leading byte, is covered by continuation bytes -/
theorem decodeRune_width (c : UInt8) (cs : Bytes) :
    (decodeRune (c :: cs)).2 - 1 ≤ (cs.takeWhile isCont).length := by
  rw [decodeRune_takeWhile]
  have := decodeRune_width_le (c :: cs.takeWhile isCont)
  simp only [List.length_cons] at this
  omega

/-- a complete sequence decodes the same whatever follows it -/
theorem decodeRune_append (x tail : Bytes) (r : Nat) (h : decodeRune x = (r, x.length)) (hr : r ≠ runeError) :
    decodeRune (x ++ tail) = (r, x.length) := by
  cases x with
  | nil => simp [decodeRune] at h; exact absurd h.symm hr
  | cons b0 x =>
    have h4 := decodeRune_width_le4 (b0 :: x)
    rw [h] at h4
    simp only [List.length_cons] at h4
    exact decodeRune_append_aux b0 x tail r _ h rfl (by omega) hr

/-! ### facts about the regenerated folding table (kernel-evaluated) -/

def maskOf : List Nat → Nat
  | [] => 0
  | k :: ks => (1 <<< k) ||| maskOf ks

theorem mem_maskOf {r : Nat} {l : List Nat} (h : r ∈ l) : (maskOf l).testBit r = true := by
  induction l with
  | nil => cases h
  | cons k ks ih =>
    simp only [maskOf, Nat.testBit_or, Bool.or_eq_true]
    rcases List.mem_cons.mp h with h | h
    · left; subst h; simp [Nat.testBit_shiftLeft]
    · right; exact ih h

def upperByte (b : UInt8) : Bool := 65 ≤ b && b ≤ 90

/-- what the proofs need of one rune's encoding: a non-continuation byte followed by continuation bytes,
    decoding back to the rune; the first byte is either ≥ 0xB5 or the rune is a single ASCII byte -/
def okEnc (r : Nat) : Bool :=
  match encodeRune r with
  | [] => false
  | b0 :: conts =>
    !isCont b0 && conts.all isCont && r != runeError &&
    decodeRune (b0 :: conts) == (r, conts.length + 1) &&
    (b0 ≥ 181 || (conts.isEmpty && b0 < 128))

/-- a folding result: additionally none of its bytes is an upper-case ASCII letter or a trim-space byte -/
def okOut (r : Nat) : Bool :=
  okEnc r && (encodeRune r).all (fun b => !upperByte b && !isTrimSpace b)

def okKey (e : Nat × List Nat) : Bool :=
  match encodeRune e.1 with
  | [] => false
  | b0 :: conts => b0 ≥ 181 || (conts.isEmpty && upperByte b0 && e.2.flatMap encodeRune == [b0 + 32])

def okEntry (e : Nat × List Nat) : Bool :=
  okEnc e.1 && !e.2.isEmpty && e.2.all okOut && okKey e

/-- every entry of the regenerated table is well-formed in the above sense (1,530 entries) -/
theorem foldTable_ok : foldTable.all okEntry = true := by decide +kernel

/-- `caseFold_closed`: no folding result is itself a key of the table (bit-set of keys ∩ bit-set of results = ∅) -/
theorem foldTable_closed :
    maskOf (foldTable.map (·.1)) &&& maskOf (foldTable.flatMap (·.2)) = 0 := by decide +kernel

theorem fold_entry_ok {k : Nat} {f : List Nat} (h : lookupFold k = some f) : okEntry (k, f) = true :=
  List.all_eq_true.mp foldTable_ok _ (lookup_mem _ _ _ h)

theorem fold_closed {k r : Nat} {f : List Nat} (h : lookupFold k = some f) (hr : r ∈ f) : lookupFold r = none := by
  cases hg : lookupFold r with
  | none => rfl
  | some g =>
    have h1 : r ∈ foldTable.map (·.1) := List.mem_map.mpr ⟨(r, g), lookup_mem _ _ _ hg, rfl⟩
    have h2 : r ∈ foldTable.flatMap (·.2) := List.mem_flatMap.mpr ⟨(k, f), lookup_mem _ _ _ h, hr⟩
    have := congrArg (fun m => Nat.testBit m r) foldTable_closed
    simp only [Nat.testBit_and, mem_maskOf h1, mem_maskOf h2, Nat.zero_testBit, Bool.and_self] at this
    cases this

theorem fold_out_ok {k r : Nat} {f : List Nat} (h : lookupFold k = some f) (hr : r ∈ f) : okOut r = true := by
  have := fold_entry_ok h
  simp only [okEntry, Bool.and_eq_true] at this
  exact List.all_eq_true.mp this.1.2 _ hr

theorem fold_nonempty {k : Nat} {f : List Nat} (h : lookupFold k = some f) : f ≠ [] := by
  have := fold_entry_ok h
  simp only [okEntry, Bool.and_eq_true] at this
  intro hf; rw [hf] at this; simp at this

/-- the shape of a well-formed encoding -/
theorem okEnc_shape {r : Nat} (h : okEnc r = true) :
    ∃ b0 conts, encodeRune r = b0 :: conts ∧ isCont b0 = false ∧ conts.all isCont = true ∧ r ≠ runeError ∧
      decodeRune (b0 :: conts) = (r, conts.length + 1) ∧ (b0 ≥ 181 ∨ (conts = [] ∧ b0 < 128)) := by
  unfold okEnc at h
  split at h
  · cases h
  · rename_i b0 conts heq
    simp only [Bool.and_eq_true, Bool.not_eq_true', bne_iff_ne, ne_eq, beq_iff_eq, Bool.or_eq_true,
      decide_eq_true_eq, List.isEmpty_iff] at h
    exact ⟨b0, conts, heq, h.1.1.1.1, h.1.1.1.2, h.1.1.2, h.1.2, h.2⟩

end GM.Proof
