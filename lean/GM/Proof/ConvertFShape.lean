/-
  GM.Proof.ConvertFShape — the AST shape `shapeOKB` holds of EVERY tree in front of the transformer that `parsePhases`
  returns: the walk over the store (`treeOfF`: modes body / noteRoot / note) and the conversions (`docTreeF`, `inlineTreeF`,
  `blockKindF`) build it so, and the domain monitors of GM.Model.ConvertF answer `pre` for the stores that would not.
-/
import GM.Proof.ConvertFTree
import GM.Proof.ConvertFCons2

namespace GM.ConvertF
open GM GM.Text GM.Blocks GM.Convert GM.Proof.ConvertX

/-! ### kinds a block / a harmless inline node has -/

/-- not an Image, not one of the four footnote kinds: all walks descend through it -/
def isBlk : GM.Kind → Bool
  | .image _ _ | .footnoteLink .. | .footnoteBacklink .. | .footnote _ | .footnoteList => false
  | _ => true

theorem blk_plainB {k : GM.Kind} (h : isBlk k = true) (a : Option (List GM.Attr)) (cs : List GM.Node) :
    plainB (.mk k a cs) = plainBL cs := by cases k <;> simp_all [isBlk, plainB, isFootKind]
theorem blk_bodyOKB {k : GM.Kind} (h : isBlk k = true) (a : Option (List GM.Attr)) (cs : List GM.Node) :
    bodyOKB (.mk k a cs) = bodyOKBL cs := by cases k <;> simp_all [isBlk, bodyOKB]
theorem blk_noBacksB {k : GM.Kind} (h : isBlk k = true) (a : Option (List GM.Attr)) (cs : List GM.Node) :
    noBacksB (.mk k a cs) = noBacksBL cs := by cases k <;> simp_all [isBlk, noBacksB]
theorem blk_evNode {k : GM.Kind} (h : isBlk k = true) (u : Bool) (hh : Option Nat) (a : Option (List GM.Attr)) (cs : List GM.Node) :
    evNode u hh (.mk k a cs) = evNodes u hh cs := by cases k <;> simp_all [isBlk, evNode]
theorem blk_listsOf {k : GM.Kind} (h : isBlk k = true) (a : Option (List GM.Attr)) (cs : List GM.Node) :
    listsOf (.mk k a cs) = listsOfL cs := by cases k <;> simp_all [isBlk, listsOf]

theorem blockKind_isBlk {src : Bytes} {n : GM.Blocks.Node} {k : GM.Kind} (h : blockKind src n = .ok k) : isBlk k = true := by
  unfold blockKind at h
  split at h
  case h_8 =>
    dsimp only at h
    split at h
    · obtain ⟨a, _, h⟩ := ebind_ok h
      obtain ⟨b, hb, h⟩ := ebind_ok h
      obtain ⟨c, _, h⟩ := ebind_ok h
      rw [epure_ok h]; rfl
    · obtain ⟨b, hb, h⟩ := ebind_ok h
      obtain ⟨c, _, h⟩ := ebind_ok h
      rw [epure_ok h]; rfl
  case h_9 =>
    dsimp only at h
    split at h
    · obtain ⟨a, _, h⟩ := ebind_ok h
      obtain ⟨b, hb, h⟩ := ebind_ok h
      obtain ⟨c, _, h⟩ := ebind_ok h
      rw [epure_ok h]; rfl
    · obtain ⟨b, hb, h⟩ := ebind_ok h
      obtain ⟨c, _, h⟩ := ebind_ok h
      rw [epure_ok h]; rfl
  all_goals first
    | (rw [epure_ok h]; rfl)
    | (obtain ⟨a, _, h⟩ := ebind_ok h; rw [epure_ok h]; rfl)

/-! ### list-level helpers -/

theorem plainBL_append : ∀ a b : List GM.Node, plainBL (a ++ b) = (plainBL a && plainBL b)
  | [], b => by simp [plainBL]
  | x :: a, b => by simp [plainBL, plainBL_append a b, Bool.and_assoc]
theorem bodyOKBL_append : ∀ a b : List GM.Node, bodyOKBL (a ++ b) = (bodyOKBL a && bodyOKBL b)
  | [], b => by simp [bodyOKBL]
  | x :: a, b => by simp [bodyOKBL, bodyOKBL_append a b, Bool.and_assoc]
theorem noBacksBL_append : ∀ a b : List GM.Node, noBacksBL (a ++ b) = (noBacksBL a && noBacksBL b)
  | [], b => by simp [noBacksBL]
  | x :: a, b => by simp [noBacksBL, noBacksBL_append a b, Bool.and_assoc]
theorem evNodes_append (u : Bool) (h : Option Nat) : ∀ a b : List GM.Node, evNodes u h (a ++ b) = evNodes u h a ++ evNodes u h b
  | [], b => by simp [evNodes]
  | x :: a, b => by simp [evNodes, evNodes_append u h a b]
theorem listsOfL_append : ∀ a b : List GM.Node, listsOfL (a ++ b) = listsOfL a ++ listsOfL b
  | [], b => by simp [listsOfL]
  | x :: a, b => by simp [listsOfL, listsOfL_append a b]

/-! ### what is built from inline nodes -/

/-- no Footnote / FootnoteList / FootnoteBacklink, FootnoteLinks are leaves pointing below `n`, plain below an Image -/
def NodeOK (n : Nat) (t : GM.Node) : Prop :=
  plainB t = true ∧ bodyOKB t = true ∧ noBacksB t = true ∧ ∀ u h, ∀ e ∈ evNode u h t, e.k < n
def NodesOK (n : Nat) (ts : List GM.Node) : Prop :=
  plainBL ts = true ∧ bodyOKBL ts = true ∧ noBacksBL ts = true ∧ ∀ u h, ∀ e ∈ evNodes u h ts, e.k < n

theorem NodesOK.nil (n : Nat) : NodesOK n [] := ⟨rfl, rfl, rfl, fun _ _ e he => by simp [evNodes] at he⟩

theorem NodesOK.cons {n : Nat} {t : GM.Node} {ts : List GM.Node} (h1 : NodeOK n t) (h2 : NodesOK n ts) : NodesOK n (t :: ts) :=
  ⟨by simp [plainBL, h1.1, h2.1], by simp [bodyOKBL, h1.2.1, h2.2.1], by simp [noBacksBL, h1.2.2.1, h2.2.2.1],
   fun u h e he => by
     simp only [evNodes, List.mem_append] at he
     rcases he with he | he
     · exact h1.2.2.2 u h e he
     · exact h2.2.2.2 u h e he⟩

theorem NodesOK.append {n : Nat} {a b : List GM.Node} (h1 : NodesOK n a) (h2 : NodesOK n b) : NodesOK n (a ++ b) :=
  ⟨by simp [plainBL_append, h1.1, h2.1], by simp [bodyOKBL_append, h1.2.1, h2.2.1],
   by simp [noBacksBL_append, h1.2.2.1, h2.2.2.1],
   fun u h e he => by
     rw [evNodes_append, List.mem_append] at he
     rcases he with he | he
     · exact h1.2.2.2 u h e he
     · exact h2.2.2.2 u h e he⟩

/-- a node of a kind all walks descend through, over good children -/
theorem NodeOK.blk {n : Nat} {k : GM.Kind} (hk : isBlk k = true) (a : Option (List GM.Attr)) {cs : List GM.Node}
    (h : NodesOK n cs) : NodeOK n (.mk k a cs) :=
  ⟨by rw [blk_plainB hk]; exact h.1, by rw [blk_bodyOKB hk]; exact h.2.1, by rw [blk_noBacksB hk]; exact h.2.2.1,
   fun u hh e he => by rw [blk_evNode hk] at he; exact h.2.2.2 u hh e he⟩

mutual
theorem inlineTreeF_ok (n : Nat) (src : Bytes) : ∀ (x : GM.Inl.Node) (t : GM.Node), inlineTreeF true n src x = .ok t → NodeOK n t
  | .text .., t, h => by
    unfold inlineTreeF at h
    obtain ⟨v, _, h⟩ := ebind_ok h
    rw [epure_ok h]; exact NodeOK.blk rfl _ (NodesOK.nil n)
  | .codeSpan ks, t, h => by
    unfold inlineTreeF at h
    obtain ⟨cs, hc, h⟩ := ebind_ok h
    rw [epure_ok h]; exact NodeOK.blk rfl _ (inlineTreesF_ok n src ks cs hc)
  | .emphasis lv ks, t, h => by
    unfold inlineTreeF at h
    simp only [if_true] at h
    split at h
    · rename_i k hk
      split at h
      · rename_i hlt
        rw [epure_ok h]
        refine ⟨by simp [plainB, isFootKind, plainBL], by simp [bodyOKB], by simp [noBacksB, noBacksBL], ?_⟩
        intro u hh e he
        simp only [evNode, List.mem_singleton] at he
        rw [he]; exact hlt
      · cases h
    · obtain ⟨cs, hc, h⟩ := ebind_ok h
      rw [epure_ok h]; exact NodeOK.blk rfl _ (inlineTreesF_ok n src ks cs hc)
  | .link im d ti ks, t, h => by
    unfold inlineTreeF at h
    obtain ⟨cs, hc, h⟩ := ebind_ok h
    rw [epure_ok h]
    have ih := inlineTreesF_ok n src ks cs hc
    cases im with
    | false => exact NodeOK.blk rfl _ ih
    | true =>
      simp only [if_true]
      refine ⟨by simp [plainB, isFootKind, ih.1], by simp [bodyOKB, ih.1], by simp [noBacksB, ih.2.2.1], ?_⟩
      intro u hh e he
      simp only [evNode] at he
      exact ih.2.2.2 true hh e he
  | .autoLink .., t, h => by
    unfold inlineTreeF at h
    obtain ⟨v, _, h⟩ := ebind_ok h
    rw [epure_ok h]; exact NodeOK.blk rfl _ (NodesOK.nil n)
  | .rawHTML .., t, h => by
    unfold inlineTreeF at h
    obtain ⟨v, _, h⟩ := ebind_ok h
    rw [epure_ok h]; exact NodeOK.blk rfl _ (NodesOK.nil n)
  | .delim .., t, h => by
    unfold inlineTreeF at h
    rw [epure_ok h]; exact NodeOK.blk rfl _ (NodesOK.nil n)
  | .label .., t, h => by
    unfold inlineTreeF at h
    rw [epure_ok h]; exact NodeOK.blk rfl _ (NodesOK.nil n)
theorem inlineTreesF_ok (n : Nat) (src : Bytes) : ∀ (xs : List GM.Inl.Node) (ts : List GM.Node),
    inlineTreesF true n src xs = .ok ts → NodesOK n ts
  | [], ts, h => by
    unfold inlineTreesF at h
    rw [epure_ok h]; exact NodesOK.nil n
  | x :: rest, ts, h => by
    unfold inlineTreesF at h
    obtain ⟨t, h1, h⟩ := ebind_ok h
    obtain ⟨ts', h2, h⟩ := ebind_ok h
    rw [epure_ok h]
    exact NodesOK.cons (inlineTreeF_ok n src x t h1) (inlineTreesF_ok n src rest ts' h2)
end

/-! ### the tagged tree -/

mutual
/-- no Footnote / FootnoteList tag (a `stray` tag makes `docTreeF` fail) -/
def ftPlain : FTree → Bool
  | .node tag _ cs => (tag == .plain || tag == .stray) && ftPlainL cs
def ftPlainL : List FTree → Bool
  | [] => true
  | t :: rest => ftPlain t && ftPlainL rest
end

/-- the children of the list: the definitions `i, i+1, …`, plain below -/
def ftNoteRoots : Nat → List FTree → Bool
  | _, [] => true
  | i, .node tag _ cs :: rest => (tag == .footnote i || tag == .alien) && ftPlainL cs && ftNoteRoots (i + 1) rest

mutual
/-- outside the list: no Footnote tag; the children of a list are note roots -/
def ftBody : FTree → Bool
  | .node .list _ cs => ftNoteRoots 0 cs
  | .node (.footnote _) _ _ => false
  | .node _ _ cs => ftBodyL cs
def ftBodyL : List FTree → Bool
  | [] => true
  | t :: rest => ftBody t && ftBodyL rest
end

mutual
/-- every list node has `L` children -/
def ftListLen (L : Nat) : FTree → Bool
  | .node tag _ cs => (!tag.isList || cs.length == L) && ftListLenL L cs
def ftListLenL (L : Nat) : List FTree → Bool
  | [] => true
  | t :: rest => ftListLen L t && ftListLenL L rest
end

mutual
theorem ftPlain_listCount : ∀ t : FTree, ftPlain t = true → t.listCount = 0
  | .node tag n cs, h => by
    simp only [ftPlain, Bool.and_eq_true, Bool.or_eq_true, beq_iff_eq] at h
    have : tag.isList = false := by rcases h.1 with h1 | h1 <;> subst h1 <;> rfl
    simp [FTree.listCount, this, ftPlainL_listCount cs h.2]
theorem ftPlainL_listCount : ∀ ts : List FTree, ftPlainL ts = true → FTree.listCountL ts = 0
  | [], _ => rfl
  | t :: rest, h => by
    simp only [ftPlainL, Bool.and_eq_true] at h
    simp [FTree.listCountL, ftPlain_listCount t h.1, ftPlainL_listCount rest h.2]
end

theorem ftNoteRoots_listCount : ∀ (i : Nat) (ts : List FTree), ftNoteRoots i ts = true → FTree.listCountL ts = 0
  | _, [], _ => rfl
  | i, .node tag n cs :: rest, h => by
    simp only [ftNoteRoots, Bool.and_eq_true, Bool.or_eq_true, beq_iff_eq] at h
    have : tag.isList = false := by rcases h.1.1 with h1 | h1 <;> subst h1 <;> rfl
    simp [FTree.listCountL, FTree.listCount, this, ftPlainL_listCount cs h.1.2, ftNoteRoots_listCount (i + 1) rest h.2]

/-! ### `docTreeF` on the tagged tree -/

theorem inlinePhaseF_nolines (on g : Bool) (refs : Option (List Bytes)) (env : GM.Inl.Env) (src : Bytes) (n : Blocks.Node)
    (h : n.lines.isEmpty = true) : inlinePhaseF on g refs env src n = .ok [] := by
  unfold inlinePhaseF
  split
  · rfl
  · simp [h]

/-- the parts of a successful `docTreeF` -/
theorem docTreeF_ok {g : Bool} {refs : Option (List Bytes)} {env : GM.Inl.Env} {src : Bytes} {tag : FTag} {n : Blocks.Node}
    {cs : List FTree} {t : GM.Node} (h : docTreeF true g refs env src (.node tag n cs) = .ok t) :
    ∃ bs kids is k, docTreesF true g refs env src cs = .ok bs ∧ inlinePhaseF true g refs env src n = .ok kids ∧
      inlineTreesF true (refs.getD []).length src kids = .ok is ∧ blockKindF tag src n = .ok k ∧ t = .mk k none (bs ++ is) := by
  unfold docTreeF at h
  obtain ⟨bs, h1, h⟩ := ebind_ok h
  obtain ⟨kids, h2, h⟩ := ebind_ok h
  obtain ⟨is, h3, h⟩ := ebind_ok h
  obtain ⟨k, h4, h⟩ := ebind_ok h
  exact ⟨bs, kids, is, k, h1, h2, liftErr_ok' h3, liftErr_ok' h4, epure_ok h⟩

mutual
theorem docTreeF_plain_ok (g : Bool) (refs : Option (List Bytes)) (env : GM.Inl.Env) (src : Bytes) : ∀ (ft : FTree) (t : GM.Node),
    ftPlain ft = true → docTreeF true g refs env src ft = .ok t → NodeOK (refs.getD []).length t
  | .node tag n cs, t, hp, h => by
    obtain ⟨bs, kids, is, k, h1, h2, h3, h4, rfl⟩ := docTreeF_ok h
    simp only [ftPlain, Bool.and_eq_true, Bool.or_eq_true, beq_iff_eq] at hp
    rcases hp.1 with ht | ht
    · subst ht
      exact NodeOK.blk (blockKind_isBlk h4) _
        (NodesOK.append (docTreesF_plain_ok g refs env src cs bs hp.2 h1) (inlineTreesF_ok _ src kids is h3))
    · subst ht; cases h4
theorem docTreesF_plain_ok (g : Bool) (refs : Option (List Bytes)) (env : GM.Inl.Env) (src : Bytes) :
    ∀ (fts : List FTree) (ts : List GM.Node), ftPlainL fts = true → docTreesF true g refs env src fts = .ok ts →
      NodesOK (refs.getD []).length ts
  | [], ts, _, h => by
    unfold docTreesF at h
    rw [epure_ok h]; exact NodesOK.nil _
  | ft :: rest, ts, hp, h => by
    unfold docTreesF at h
    obtain ⟨x, h1, h⟩ := ebind_ok h
    obtain ⟨xs, h2, h⟩ := ebind_ok h
    rw [epure_ok h]
    simp only [ftPlainL, Bool.and_eq_true] at hp
    exact NodesOK.cons (docTreeF_plain_ok g refs env src ft x hp.1 h1) (docTreesF_plain_ok g refs env src rest xs hp.2 h2)
end

/-- the children of the list as the renderer-side tree has them -/
theorem docTreesF_notes_ok (g : Bool) (refs : Option (List Bytes)) (env : GM.Inl.Env) (src : Bytes) :
    ∀ (i : Nat) (fts : List FTree) (ts : List GM.Node), ftNoteRoots i fts = true → docTreesF true g refs env src fts = .ok ts →
      notesOKB i ts = true ∧ noBacksBL ts = true ∧ (∀ u h, ∀ e ∈ evNodes u h ts, e.k < (refs.getD []).length) ∧
      ts.length = fts.length
  | _, [], ts, _, h => by
    unfold docTreesF at h
    rw [epure_ok h]
    exact ⟨rfl, rfl, fun _ _ e he => by simp [evNodes] at he, rfl⟩
  | i, .node tag n cs :: rest, ts, hp, h => by
    unfold docTreesF at h
    obtain ⟨x, h1, h⟩ := ebind_ok h
    obtain ⟨xs, h2, h⟩ := ebind_ok h
    rw [epure_ok h]
    simp only [ftNoteRoots, Bool.and_eq_true, Bool.or_eq_true, beq_iff_eq] at hp
    obtain ⟨⟨ht, hc⟩, hr⟩ := hp
    obtain ⟨ih1, ih2, ih3, ih4⟩ := docTreesF_notes_ok g refs env src (i + 1) rest xs hr h2
    obtain ⟨bs, kids, is, k, g1, g2, g3, g4, rfl⟩ := docTreeF_ok h1
    rcases ht with ht | ht
    · subst ht
      have hk : k = .footnote i := by
        simp only [blockKindF] at g4
        split at g4
        · exact (epure_ok g4)
        · cases g4
      subst hk
      have hok := NodesOK.append (docTreesF_plain_ok g refs env src cs bs hc g1) (inlineTreesF_ok _ src kids is g3)
      refine ⟨by simp [notesOKB, isNoteKind, hok.1, ih1], by simp [noBacksBL, noBacksB, hok.2.2.1, ih2], ?_, by simp [ih4]⟩
      intro u hh e he
      simp only [evNodes, evNode, List.mem_append] at he
      rcases he with he | he
      · exact hok.2.2.2 u (some i) e he
      · exact ih3 u hh e he
    · subst ht; cases g4

/-- what a body subtree gives: `c` FootnoteLists, each with `L` well-formed children -/
def BodyOK (n L : Nat) (t : GM.Node) (c : Nat) : Prop :=
  bodyOKB t = true ∧ noBacksB t = true ∧ (∀ u h, ∀ e ∈ evNode u h t, e.k < n) ∧ (listsOf t).length = c ∧
    ∀ cs ∈ listsOf t, notesOKB 0 cs = true ∧ cs.length = L
def BodyOKL (n L : Nat) (ts : List GM.Node) (c : Nat) : Prop :=
  bodyOKBL ts = true ∧ noBacksBL ts = true ∧ (∀ u h, ∀ e ∈ evNodes u h ts, e.k < n) ∧ (listsOfL ts).length = c ∧
    ∀ cs ∈ listsOfL ts, notesOKB 0 cs = true ∧ cs.length = L

theorem BodyOKL.ofNodes {n L : Nat} {ts : List GM.Node} (h : NodesOK n ts) : BodyOKL n L ts 0 := by
  have := (plainL_linksH none none ts h.1).2.2
  exact ⟨h.2.1, h.2.2.1, h.2.2.2, by rw [this]; rfl, by rw [this]; intro cs hc; cases hc⟩

theorem BodyOKL.append {n L : Nat} {a b : List GM.Node} {c d : Nat} (h1 : BodyOKL n L a c) (h2 : BodyOKL n L b d) :
    BodyOKL n L (a ++ b) (c + d) :=
  ⟨by simp [bodyOKBL_append, h1.1, h2.1], by simp [noBacksBL_append, h1.2.1, h2.2.1],
   fun u h e he => by
     rw [evNodes_append, List.mem_append] at he
     rcases he with he | he
     · exact h1.2.2.1 u h e he
     · exact h2.2.2.1 u h e he,
   by rw [listsOfL_append, List.length_append, h1.2.2.2.1, h2.2.2.2.1],
   fun cs hc => by
     rw [listsOfL_append, List.mem_append] at hc
     rcases hc with hc | hc
     · exact h1.2.2.2.2 cs hc
     · exact h2.2.2.2.2 cs hc⟩

mutual
theorem docTreeF_body_ok (g : Bool) (refs : Option (List Bytes)) (env : GM.Inl.Env) (src : Bytes) (L : Nat) :
    ∀ (ft : FTree) (t : GM.Node), ftBody ft = true → ftListLen L ft = true → docTreeF true g refs env src ft = .ok t →
      BodyOK (refs.getD []).length L t ft.listCount
  | .node tag n cs, t, hb, hl, h => by
    obtain ⟨bs, kids, is, k, h1, h2, h3, h4, rfl⟩ := docTreeF_ok h
    simp only [ftListLen, Bool.and_eq_true, Bool.or_eq_true, Bool.not_eq_true', beq_iff_eq] at hl
    cases tag with
    | list =>
      simp only [ftBody] at hb
      have hlen : cs.length = L := by
        rcases hl.1 with h0 | h0
        · simp [FTag.isList] at h0
        · exact h0
      have hlines : n.lines.isEmpty = true := by
        simp only [blockKindF] at h4
        split at h4
        · assumption
        · cases h4
      have hk : k = .footnoteList := by
        simp only [blockKindF, hlines, if_true] at h4
        exact epure_ok h4
      subst hk
      rw [inlinePhaseF_nolines true g refs env src n hlines] at h2
      cases h2
      unfold inlineTreesF at h3
      have his := epure_ok h3
      subst his
      obtain ⟨n1, n2, n3, n4⟩ := docTreesF_notes_ok g refs env src 0 cs bs hb h1
      simp only [List.append_nil]
      refine ⟨by simp [bodyOKB], by simp [noBacksB, n2], fun u hh e he => by simp only [evNode] at he; exact n3 u hh e he,
        by simp [listsOf, FTree.listCount, FTag.isList, ftNoteRoots_listCount 0 cs hb], ?_⟩
      intro cs' hc
      simp only [listsOf, List.mem_singleton] at hc
      subst hc
      exact ⟨n1, by rw [n4, hlen]⟩
    | footnote j => simp [ftBody] at hb
    | stray => cases h4
    | alien => cases h4
    | plain =>
      simp only [ftBody] at hb
      have hk := blockKind_isBlk h4
      have hbs := docTreesF_body_ok g refs env src L cs bs hb hl.2 h1
      have his : BodyOKL (refs.getD []).length L is 0 := BodyOKL.ofNodes (inlineTreesF_ok _ src kids is h3)
      have hall := BodyOKL.append hbs his
      refine ⟨by rw [blk_bodyOKB hk]; exact hall.1, by rw [blk_noBacksB hk]; exact hall.2.1,
        fun u hh e he => by rw [blk_evNode hk] at he; exact hall.2.2.1 u hh e he,
        by rw [blk_listsOf hk, hall.2.2.2.1]; simp [FTree.listCount, FTag.isList],
        fun cs' hc => by rw [blk_listsOf hk] at hc; exact hall.2.2.2.2 cs' hc⟩
theorem docTreesF_body_ok (g : Bool) (refs : Option (List Bytes)) (env : GM.Inl.Env) (src : Bytes) (L : Nat) :
    ∀ (fts : List FTree) (ts : List GM.Node), ftBodyL fts = true → ftListLenL L fts = true →
      docTreesF true g refs env src fts = .ok ts → BodyOKL (refs.getD []).length L ts (FTree.listCountL fts)
  | [], ts, _, _, h => by
    unfold docTreesF at h
    rw [epure_ok h]
    exact ⟨rfl, rfl, fun _ _ e he => by simp [evNodes] at he, rfl, fun cs hc => by simp [listsOfL] at hc⟩
  | ft :: rest, ts, hb, hl, h => by
    unfold docTreesF at h
    obtain ⟨x, h1, h⟩ := ebind_ok h
    obtain ⟨xs, h2, h⟩ := ebind_ok h
    rw [epure_ok h]
    simp only [ftBodyL, ftListLenL, Bool.and_eq_true] at hb hl
    obtain ⟨a1, a2, a3, a4, a5⟩ := docTreeF_body_ok g refs env src L ft x hb.1 hl.1 h1
    obtain ⟨b1, b2, b3, b4, b5⟩ := docTreesF_body_ok g refs env src L rest xs hb.2 hl.2 h2
    refine ⟨by simp [bodyOKBL, a1, b1], by simp [noBacksBL, a2, b2], ?_, by simp [listsOfL, FTree.listCountL, a4, b4], ?_⟩
    · intro u hh e he
      simp only [evNodes, List.mem_append] at he
      rcases he with he | he
      · exact a3 u hh e he
      · exact b3 u hh e he
    · intro cs hc
      simp only [listsOfL, List.mem_append] at hc
      rcases hc with hc | hc
      · exact a5 cs hc
      · exact b5 cs hc
end

/-! ### the walk over the store builds such a tree -/

theorem tagIn_body (f : FS) (id : Nat) :
    (tagIn f .body id = .list ∧ f.list = some id) ∨ tagIn f .body id = .stray ∨ tagIn f .body id = .plain := by
  unfold tagIn
  simp only
  by_cases h : (f.list == some id) = true
  · left; simp only [h, if_true, true_and]; simpa using h
  · right
    simp only [h, Bool.false_eq_true, if_false]
    by_cases h2 : f.isFn id = true
    · left; simp [h2]
    · right; simp [h2]

theorem tagIn_noteRoot (f : FS) (i id : Nat) : tagIn f (.noteRoot i) id = .footnote i ∨ tagIn f (.noteRoot i) id = .alien := by
  unfold tagIn
  simp only
  by_cases h : f.isFn id = true
  · left; simp [h]
  · right; simp [h]

theorem tagIn_note (f : FS) (id : Nat) : tagIn f .note id = .stray ∨ tagIn f .note id = .plain := by
  unfold tagIn
  simp only
  by_cases h : (f.list == some id || f.isFn id) = true
  · left; simp [h]
  · right; simp [h]

theorem mapIdxFrom_length (g : Nat → Nat → FTree) : ∀ (k : Nat) (cs : List Nat), (mapIdxFrom g k cs).length = cs.length
  | _, [] => rfl
  | k, c :: rest => by simp [mapIdxFrom, mapIdxFrom_length g (k + 1) rest]

theorem ftNoteRoots_mapIdx (g : Nat → Nat → FTree)
    (hg : ∀ i c, ∃ tag n cs, g i c = .node tag n cs ∧ (tag = .footnote i ∨ tag = .alien) ∧ ftPlainL cs = true) :
    ∀ (k : Nat) (cs : List Nat), ftNoteRoots k (mapIdxFrom g k cs) = true
  | _, [] => rfl
  | k, c :: rest => by
    obtain ⟨tag, n, cs', e, ht, hc⟩ := hg k c
    simp only [mapIdxFrom, e, ftNoteRoots, Bool.and_eq_true, Bool.or_eq_true, beq_iff_eq]
    exact ⟨⟨ht, hc⟩, ftNoteRoots_mapIdx g hg (k + 1) rest⟩

theorem ftListLenL_mapIdx (L : Nat) (g : Nat → Nat → FTree) (hg : ∀ i c, ftListLen L (g i c) = true) :
    ∀ (k : Nat) (cs : List Nat), ftListLenL L (mapIdxFrom g k cs) = true
  | _, [] => rfl
  | k, c :: rest => by simp [mapIdxFrom, ftListLenL, hg k c, ftListLenL_mapIdx L g hg (k + 1) rest]

theorem ftPlainL_map (g : Nat → FTree) (hg : ∀ c, ftPlain (g c) = true) : ∀ cs : List Nat, ftPlainL (cs.map g) = true
  | [] => rfl
  | c :: rest => by simp [ftPlainL, hg c, ftPlainL_map g hg rest]
theorem ftBodyL_map (g : Nat → FTree) (hg : ∀ c, ftBody (g c) = true) : ∀ cs : List Nat, ftBodyL (cs.map g) = true
  | [] => rfl
  | c :: rest => by simp [ftBodyL, hg c, ftBodyL_map g hg rest]
theorem ftListLenL_map (L : Nat) (g : Nat → FTree) (hg : ∀ c, ftListLen L (g c) = true) : ∀ cs : List Nat, ftListLenL L (cs.map g) = true
  | [] => rfl
  | c :: rest => by simp [ftListLenL, hg c, ftListLenL_map L g hg rest]

theorem tagIn_list (f : FS) (m : Mode) (id : Nat) (h : tagIn f m id = .list) : f.list = some id := by
  cases m with
  | body =>
    rcases tagIn_body f id with ⟨_, h2⟩ | h' | h'
    · exact h2
    · rw [h'] at h; cases h
    · rw [h'] at h; cases h
  | noteRoot i => rcases tagIn_noteRoot f i id with h' | h' <;> rw [h'] at h <;> cases h
  | note => rcases tagIn_note f id with h' | h' <;> rw [h'] at h <;> cases h

theorem isList_iff (tag : FTag) : tag.isList = true ↔ tag = .list := by cases tag <;> simp [FTag.isList]

theorem treeOfF_shape (f : FS) (nodes : List Blocks.Node) (L : Nat)
    (hL : ∀ id, f.list = some id → (nodes.getD id default).children.length = L) : ∀ fuel : Nat,
    (∀ id, ftBody (treeOfF f nodes fuel .body id) = true) ∧
    (∀ i id, ∃ tag n cs, treeOfF f nodes fuel (.noteRoot i) id = .node tag n cs ∧ (tag = .footnote i ∨ tag = .alien) ∧
      ftPlainL cs = true) ∧
    (∀ id, ftPlain (treeOfF f nodes fuel .note id) = true) ∧
    (∀ m id, ftListLen L (treeOfF f nodes fuel m id) = true)
  | 0 => by
    refine ⟨?_, ?_, ?_, ?_⟩
    · intro id
      simp only [treeOfF]
      rcases tagIn_body f id with ⟨h, _⟩ | h | h
      · rw [h]; split <;> simp [ftBody, ftBodyL, ftNoteRoots]
      · rw [h]; simp [FTag.isList, ftBody, ftBodyL]
      · rw [h]; simp [FTag.isList, ftBody, ftBodyL]
    · intro i id
      simp only [treeOfF]
      rcases tagIn_noteRoot f i id with h | h
      · rw [h]; exact ⟨_, _, _, rfl, by simp [FTag.isList], rfl⟩
      · rw [h]; exact ⟨_, _, _, rfl, by simp [FTag.isList], rfl⟩
    · intro id
      simp only [treeOfF]
      rcases tagIn_note f id with h | h
      · rw [h]; simp [FTag.isList, ftPlain, ftPlainL]
      · rw [h]; simp [FTag.isList, ftPlain, ftPlainL]
    · intro m id
      simp only [treeOfF]
      cases htg : tagIn f m id with
      | list =>
        have hm := tagIn_list f m id htg
        have hlen := hL id hm
        by_cases hc : (nodes.getD id default).children.isEmpty = true
        · have h0 : L = 0 := by rw [← hlen]; simpa using hc
          simp [FTag.isList, hc, ftListLen, ftListLenL, h0]
        · have hc' : ¬ (nodes[id]?.getD default).children = [] := by simpa using hc
          simp [FTag.isList, hc', ftListLen, ftListLenL]
      | plain => simp [FTag.isList, ftListLen, ftListLenL]
      | footnote k => simp [FTag.isList, ftListLen, ftListLenL]
      | stray => simp [FTag.isList, ftListLen, ftListLenL]
      | alien => simp [FTag.isList, ftListLen, ftListLenL]
  | fuel + 1 => by
    obtain ⟨ih1, ih2, ih3, ih4⟩ := treeOfF_shape f nodes L hL fuel
    refine ⟨?_, ?_, ?_, ?_⟩
    · intro id
      simp only [treeOfF]
      rcases tagIn_body f id with ⟨h, _⟩ | h | h
      · rw [h]; simp only [FTag.isList, if_true, ftBody]
        exact ftNoteRoots_mapIdx _ (fun i c => ih2 i c) 0 _
      · rw [h]; simp only [FTag.isList, Bool.false_eq_true, if_false, ftBody]
        exact ftBodyL_map _ ih1 _
      · rw [h]; simp only [FTag.isList, Bool.false_eq_true, if_false, ftBody]
        exact ftBodyL_map _ ih1 _
    · intro i id
      simp only [treeOfF]
      rcases tagIn_noteRoot f i id with h | h
      · rw [h]; simp only [FTag.isList, Bool.false_eq_true, if_false]
        exact ⟨_, _, _, rfl, Or.inl rfl, ftPlainL_map _ ih3 _⟩
      · rw [h]; simp only [FTag.isList, Bool.false_eq_true, if_false]
        exact ⟨_, _, _, rfl, Or.inr rfl, ftPlainL_map _ ih3 _⟩
    · intro id
      simp only [treeOfF]
      rcases tagIn_note f id with h | h
      · rw [h]; simp only [FTag.isList, Bool.false_eq_true, if_false, ftPlain, Bool.and_eq_true]
        exact ⟨by simp, ftPlainL_map _ ih3 _⟩
      · rw [h]; simp only [FTag.isList, Bool.false_eq_true, if_false, ftPlain, Bool.and_eq_true]
        exact ⟨by simp, ftPlainL_map _ ih3 _⟩
    · intro m id
      simp only [treeOfF]
      cases htg : tagIn f m id with
      | list =>
        have hm := tagIn_list f m id htg
        simp only [FTag.isList, if_true, ftListLen, Bool.not_true, Bool.false_or, Bool.and_eq_true, beq_iff_eq,
          mapIdxFrom_length]
        exact ⟨hL id hm, ftListLenL_mapIdx L _ (fun i c => ih4 _ c) 0 _⟩
      | plain =>
        simp only [FTag.isList, Bool.false_eq_true, if_false, ftListLen, Bool.not_false, Bool.true_or, Bool.true_and]
        exact ftListLenL_map L _ (fun c => ih4 _ c) _
      | footnote k =>
        simp only [FTag.isList, Bool.false_eq_true, if_false, ftListLen, Bool.not_false, Bool.true_or, Bool.true_and]
        exact ftListLenL_map L _ (fun c => ih4 _ c) _
      | stray =>
        simp only [FTag.isList, Bool.false_eq_true, if_false, ftListLen, Bool.not_false, Bool.true_or, Bool.true_and]
        exact ftListLenL_map L _ (fun c => ih4 _ c) _
      | alien =>
        simp only [FTag.isList, Bool.false_eq_true, if_false, ftListLen, Bool.not_false, Bool.true_or, Bool.true_and]
        exact ftListLenL_map L _ (fun c => ih4 _ c) _

theorem listCountL_map_zero (g : Nat → FTree) (hg : ∀ c, (g c).listCount = 0) : ∀ cs : List Nat, FTree.listCountL (cs.map g) = 0
  | [] => rfl
  | c :: rest => by simp [FTree.listCountL, hg c, listCountL_map_zero g hg rest]

theorem tagIn_notList (f : FS) (hf : f.list = none) (m : Mode) (id : Nat) : (tagIn f m id).isList = false := by
  cases h : (tagIn f m id).isList with
  | false => rfl
  | true =>
    have := tagIn_list f m id ((isList_iff _).1 h)
    rw [hf] at this; cases this

theorem treeOfF_nolist (f : FS) (hf : f.list = none) (nodes : List Blocks.Node) : ∀ (fuel : Nat) (m : Mode) (id : Nat),
    (treeOfF f nodes fuel m id).listCount = 0
  | 0, m, id => by
    simp [treeOfF, tagIn_notList f hf m id, FTree.listCount, FTree.listCountL]
  | fuel + 1, m, id => by
    simp only [treeOfF, tagIn_notList f hf m id, Bool.false_eq_true, if_false, FTree.listCount, Nat.zero_add]
    exact listCountL_map_zero _ (fun c => treeOfF_nolist f hf nodes fuel _ c) _

theorem treeOfF_root (f : FS) (nodes : List Blocks.Node) (fuel : Nat) (m : Mode) (id : Nat) :
    ∃ tag cs, treeOfF f nodes fuel m id = .node tag (nodes.getD id default) cs ∧
      ((tagIn f m id).isList = false → tag = tagIn f m id) := by
  cases fuel with
  | zero =>
    refine ⟨_, _, rfl, ?_⟩
    intro h; simp [h]
  | succ k =>
    by_cases h : (tagIn f m id).isList = true
    · refine ⟨.list, _, by simp only [treeOfF, h, if_true]; rfl, ?_⟩
      intro h'; rw [h] at h'; cases h'
    · refine ⟨tagIn f m id, _, by simp only [treeOfF, h, Bool.false_eq_true, if_false]; rfl, fun _ => rfl⟩

theorem blockKind_document {src : Bytes} {n : Blocks.Node} (h : n.kind = .document) : blockKind src n = .ok .document := by
  unfold blockKind
  rw [h]
  rfl

/-- **the AST shape holds of every tree in front of the transformer that the parse phases return** -/
theorem shape_of_parse (guard : Bool) (uc : List (Nat × (Bool × Bool))) (src : Bytes) (f : FS) (st : St) (t : GM.Node)
    (h : parsePhases true guard uc src = .ok (f, st, t)) : shapeOKB f.list.isSome (labelsOf f st) t = true := by
  unfold parsePhases at h
  obtain ⟨fs, hb, h⟩ := ebind_ok h
  obtain ⟨f', st'⟩ := fs
  simp only at h
  by_cases hm : monitorFires f' st' (treeOfF f' st'.nodes st'.nodes.length .body 0) = true
  · simp only [hm, if_true] at h; cases h
  · simp only [hm, Bool.false_eq_true, if_false] at h
    obtain ⟨t', hd, h⟩ := ebind_ok h
    have he := epure_ok h
    simp only [Prod.mk.injEq] at he
    obtain ⟨rfl, rfl, rfl⟩ := he
    -- the tagged tree
    have hLen : (labelsOf f st).length = (listKids f st).length := by simp [labelsOf]
    have hL : ∀ id, f.list = some id → (st.nodes.getD id default).children.length = (labelsOf f st).length := by
      intro id hid
      rw [hLen]; simp [listKids, hid]
    obtain ⟨s1, _, _, s4⟩ := treeOfF_shape f st.nodes (labelsOf f st).length hL st.nodes.length
    have B := docTreeF_body_ok guard _ { refs := st.pc.refs, uc := uc } src (labelsOf f st).length _ t (s1 0) (s4 .body 0) hd
    obtain ⟨b1, b2, b3, b4, b5⟩ := B
    simp only [monitorFires, Bool.or_eq_true, decide_eq_true_eq, Bool.and_eq_true, Bool.not_eq_true', not_or] at hm
    obtain ⟨hm1, hm2⟩ := hm
    obtain ⟨tag0, cs0, hroot, htag0⟩ := treeOfF_root f st.nodes st.nodes.length .body 0
    rw [hroot] at hd
    obtain ⟨bs, kids, is, k, g1, g2, g3, g4, ht⟩ := docTreeF_ok hd
    cases hlist : f.list.isSome with
    | true =>
      -- the bound of the decoder is the number of definitions
      have hn : ((if f.list.isSome = true then some (labelsOf f st) else none : Option (List Bytes)).getD []).length =
          (labelsOf f st).length := by simp [hlist]
      rw [hn] at b3
      have hroot2 : tagIn f .body 0 = .plain ∧ (st.nodes.getD 0 default).kind = .document := by
        have : ¬ (f.list.isSome = true ∧
            (tagIn f .body 0 == .plain && (st.nodes.getD 0 default).kind == .document) = false) := hm2
        rw [hlist] at this
        simp only [true_and, Bool.not_eq_false, Bool.and_eq_true, beq_iff_eq] at this
        exact this
      have ht0 : tag0 = .plain := by rw [htag0 (by rw [hroot2.1]; rfl), hroot2.1]
      subst ht0
      have hk : k = .document := by
        simp only [blockKindF, blockKind_document hroot2.2] at g4
        cases g4; rfl
      simp only [shapeOKB, if_true, Bool.and_eq_true, Bool.true_or, and_true, List.all_eq_true, decide_eq_true_eq]
      refine ⟨⟨⟨⟨b1, by rw [ht, hk]; rfl⟩, b2⟩, ?_⟩, fun e he => b3 false none e he⟩
      cases hl : listsOf t with
      | nil => rfl
      | cons c rest =>
        cases rest with
        | nil =>
          have := b5 c (by rw [hl]; simp)
          simp [this.1, this.2]
        | cons c2 r2 =>
          rw [hl] at b4
          simp only [List.length_cons] at b4
          omega
    | false =>
      have hnone : f.list = none := by cases hf : f.list with | none => rfl | some x => rw [hf] at hlist; cases hlist
      have hn : ((if f.list.isSome = true then some (labelsOf f st) else none : Option (List Bytes)).getD []).length = 0 := by
        simp [hlist]
      rw [hn] at b3
      have hE : evNode false none t = [] := by
        cases hE : evNode false none t with
        | nil => rfl
        | cons e r => have := b3 false none e (by rw [hE]; simp); omega
      have hcnt := treeOfF_nolist f hnone st.nodes st.nodes.length .body 0
      rw [hcnt] at b4
      have hl : listsOf t = [] := List.eq_nil_of_length_eq_zero b4
      have hkind : isFootKind t.kind = false := by
        have hnl := tagIn_notList f hnone .body 0
        rw [htag0 hnl] at g4
        rcases tagIn_body f 0 with ⟨h1, _⟩ | h1 | h1
        · rw [h1] at hnl; cases hnl
        · rw [h1] at g4; cases g4
        · rw [h1] at g4
          have := blockKind_isBlk g4
          rw [ht]
          cases k <;> simp_all [isBlk, isFootKind, GM.Node.kind]
      simp only [shapeOKB, Bool.false_eq_true, if_false, Bool.and_eq_true, Bool.false_or, List.all_eq_true,
        decide_eq_true_eq, hl, hE, List.isEmpty_nil, and_self, and_true, hkind, Bool.not_false]
      exact ⟨⟨b1, b2⟩, fun e he => by cases he⟩

/-! ### what it would take to show that the monitors never fire (statements) -/

mutual
/-- no `stray` tag; a FootnoteList / Footnote has no lines -/
def FTree.clean : FTree → Bool
  | .node tag n cs =>
    (match tag with
      | .stray => false
      | .alien => true
      | .list => n.lines.isEmpty
      | .footnote _ => n.lines.isEmpty
      | .plain => true) && FTree.cleanL cs
def FTree.cleanL : List FTree → Bool
  | [] => true
  | t :: rest => t.clean && FTree.cleanL rest
end

mutual
/-- every FootnoteLink representation points below `n` -/
def linksBelow (n : Nat) : GM.Inl.Node → Bool
  | .emphasis lv kids => (match fnLinkPos? lv with | some k => decide (k < n) | none => true) && linksBelowL n kids
  | .codeSpan kids => linksBelowL n kids
  | .link _ _ _ kids => linksBelowL n kids
  | _ => true
def linksBelowL (n : Nat) : List GM.Inl.Node → Bool
  | [] => true
  | x :: rest => linksBelow n x && linksBelowL n rest
end

end GM.ConvertF
