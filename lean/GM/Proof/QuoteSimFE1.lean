/-
  GM.Proof.QuoteSimFE1 — the unary facts `BPn` (flags) and `CHn` (children but the first) of GM.Proof.QuoteSimFEDefs for
  `Open` / `Continue` / `Close` of the block parsers, in the style of GM.Proof.QuoteSimInvK(L) (`Keeps (BPI n0)`,
  `Keeps (CHI n0)`). `setextHeadingParser.Close` is excluded (it copies a flag and moves children).
-/
import GM.Proof.QuoteSimFEDefs
import GM.Proof.QuoteSimInvKL

namespace GM.Blocks
open GM GM.Text

theorem node_getD_ge (n : List Node) (i : Nat) (h : n.length ≤ i) : n.getD i default = default := by
  simp [List.getD_eq_getElem?_getD, List.getElem?_eq_none h]

/-! ## part 1: flags -/

theorem BPn.refl (n : List Node) : BPn n n :=
  ⟨Nat.le_refl _, fun _ _ => rfl, fun i hi => by rw [node_getD_ge n i hi]; rfl⟩

theorem BPn.trans {a b c : List Node} (h1 : BPn a b) (h2 : BPn b c) : BPn a c := by
  refine ⟨Nat.le_trans h1.1 h2.1, fun i hi => (h2.2.1 i (Nat.lt_of_lt_of_le hi h1.1)).trans (h1.2.1 i hi), fun i hi => ?_⟩
  by_cases hb : i < b.length
  · rw [h2.2.1 i hb]; exact h1.2.2 i hi
  · exact h2.2.2 i (Nat.le_of_not_lt hb)

theorem bpi_noR (n0 : List Node) : NoR (BPI n0) := ⟨fun _ _ hs => hs⟩

theorem bpi_modPc (n0 : List Node) (f : Ctx → Ctx) : Keeps (BPI n0) (modPc f) := by
  intro s a s' hs h; cases h; exact hs

theorem bpn_set (n : List Node) (id : Nat) (x : Node) (hx : x.blankPrev = (n.getD id default).blankPrev) :
    BPn n (n.set id x) := by
  have key : ∀ i, ((n.set id x).getD i default).blankPrev = (n.getD i default).blankPrev := by
    intro i
    simp only [List.getD_eq_getElem?_getD, List.getElem?_set]
    by_cases hi : id = i
    · subst hi
      by_cases hl : id < n.length
      · simp only [hl, if_true, Option.getD_some]
        rw [hx]; simp [List.getD_eq_getElem?_getD]
      · simp [hl]
    · simp [hi]
  refine ⟨by simp, fun i _ => key i, fun i hi => ?_⟩
  rw [key i, node_getD_ge n i hi]; rfl

theorem bpi_modNode (n0 : List Node) (id : Nat) (f : Node → Node) (hf : ∀ n, (f n).blankPrev = n.blankPrev) :
    Keeps (BPI n0) (modNode id f) := by
  intro s a s' hs h
  cases h
  exact BPn.trans hs (bpn_set _ _ _ (hf _))

theorem bpn_append (n : List Node) (x : Node) (hx : x.blankPrev = false) : BPn n (n ++ [x]) := by
  refine ⟨by simp, fun i hi => ?_, fun i hi => ?_⟩
  · simp only [List.getD_eq_getElem?_getD]
    rw [List.getElem?_append_left hi]
  · simp only [List.getD_eq_getElem?_getD]
    rw [List.getElem?_append_right hi]
    by_cases h0 : i - n.length = 0
    · rw [h0]; simpa using hx
    · have : [x][i - n.length]? = none := by
        apply List.getElem?_eq_none; simp; omega
      rw [this]; rfl

theorem bpi_newNode (n0 : List Node) (n : Node) (hn : n.blankPrev = false) : Keeps (BPI n0) (newNode n) := by
  intro s a s' hs h
  cases h
  exact BPn.trans hs (bpn_append _ _ hn)

macro "bpk_step" : tactic =>
  `(tactic| first
    | with_reducible apply Keeps.pure
    | with_reducible apply Keeps.bind
    | with_reducible apply Keeps.ite
    | with_reducible apply Keeps.throw
    | with_reducible apply getNode_keeps
    | with_reducible apply getPc_keeps
    | with_reducible apply source_keeps
    | with_reducible apply position_keeps
    | with_reducible apply get_keeps
    | with_reducible apply liftE_keeps
    | with_reducible apply lastOpenedBlock_keeps
    | (with_reducible apply peekLine_keeps; exact bpi_noR _)
    | (with_reducible apply lineOffset_keeps; exact bpi_noR _)
    | (with_reducible apply advance_keeps; exact bpi_noR _)
    | (with_reducible apply advanceAndSetPadding_keeps; exact bpi_noR _)
    | (with_reducible apply advanceLine_keeps; exact bpi_noR _)
    | (with_reducible apply setPosition_keeps; exact bpi_noR _)
    | (with_reducible apply skipBlankLinesR_keeps; exact bpi_noR _)
    | with_reducible apply bpi_modPc
    | ((with_reducible apply bpi_modNode); intro n; rfl)
    | ((with_reducible apply bpi_newNode); rfl)
    | apply_hyp
    | intro_pi
    | split)

macro "bpk" : tactic => `(tactic| repeat' bpk_step)

section
variable (n0 : List Node)

theorem bp_appendLine (id : Nat) (seg : Segment) : Keeps (BPI n0) (appendLine id seg) := by unfold appendLine; bpk
theorem bp_removeChild (p c : Nat) : Keeps (BPI n0) (removeChild p c) := by unfold removeChild; bpk
theorem bp_ensureIsolated (c : Nat) : Keeps (BPI n0) (ensureIsolated c) := by
  have := bp_removeChild n0; unfold ensureIsolated; bpk
theorem bp_appendChild (p c : Nat) : Keeps (BPI n0) (appendChild p c) := by
  have := bp_ensureIsolated n0; unfold appendChild; bpk
theorem bp_insertBefore (p : Nat) (v1 : Option Nat) (ins : Nat) : Keeps (BPI n0) (insertBefore p v1 ins) := by
  have := bp_ensureIsolated n0; have := bp_appendChild n0; unfold insertBefore; bpk
theorem bp_nextSibling (c : Nat) : Keeps (BPI n0) (nextSibling c) := by unfold nextSibling; bpk
theorem bp_insertAfter (p : Nat) (v1 : Option Nat) (ins : Nat) : Keeps (BPI n0) (insertAfter p v1 ins) := by
  have := bp_appendChild n0; have := bp_nextSibling n0; have := bp_insertBefore n0; unfold insertAfter; bpk
theorem bp_replaceChild (p v1 ins : Nat) : Keeps (BPI n0) (replaceChild p v1 ins) := by
  have := bp_insertBefore n0; have := bp_removeChild n0; unfold replaceChild; bpk
theorem bp_preserveLeadingTab (seg : Segment) (ind : Int) : Keeps (BPI n0) (preserveLeadingTab seg ind) := by
  unfold preserveLeadingTab; bpk
theorem bp_paragraphOpen (p : Nat) : Keeps (BPI n0) (paragraphOpen p) := by
  have := bp_appendLine n0; unfold paragraphOpen; bpk
theorem bp_paragraphContinue (n : Nat) : Keeps (BPI n0) (paragraphContinue n) := by
  have := bp_appendLine n0; unfold paragraphContinue; bpk
theorem bp_paragraphClose (n : Nat) : Keeps (BPI n0) (paragraphClose n) := by
  have := bp_removeChild n0; unfold paragraphClose; bpk
theorem bp_thematicOpen (p : Nat) : Keeps (BPI n0) (thematicOpen p) := by unfold thematicOpen; bpk
theorem bp_atxOpen (p : Nat) : Keeps (BPI n0) (atxOpen p) := by
  have := bp_appendLine n0; unfold atxOpen; bpk
theorem bp_setextOpen (p : Nat) : Keeps (BPI n0) (setextOpen p) := by
  have := bp_appendLine n0; unfold setextOpen; bpk
theorem bp_codeTakeLine (n : Nat) (pos padding : Int) : Keeps (BPI n0) (codeTakeLine n pos padding) := by
  have := bp_appendLine n0; have := bp_preserveLeadingTab n0; unfold codeTakeLine; bpk
theorem bp_codeOpen (p : Nat) : Keeps (BPI n0) (codeOpen p) := by
  have := bp_codeTakeLine n0; unfold codeOpen; bpk
theorem bp_codeContinue (n : Nat) : Keeps (BPI n0) (codeContinue n) := by
  have := bp_appendLine n0; have := bp_codeTakeLine n0; unfold codeContinue; bpk
theorem bp_codeClose (n : Nat) : Keeps (BPI n0) (codeClose n) := by unfold codeClose; bpk
theorem bp_fencedOpen (p : Nat) : Keeps (BPI n0) (fencedOpen p) := by unfold fencedOpen; bpk
theorem bp_fencedContinue (n : Nat) : Keeps (BPI n0) (fencedContinue n) := by
  have := bp_appendLine n0; have := bp_preserveLeadingTab n0; unfold fencedContinue; bpk
theorem bp_fencedClose (n : Nat) : Keeps (BPI n0) (fencedClose n) := by unfold fencedClose; bpk
theorem bp_blockquoteProcess : Keeps (BPI n0) blockquoteProcess := by unfold blockquoteProcess; bpk
theorem bp_blockquoteOpen (p : Nat) : Keeps (BPI n0) (blockquoteOpen p) := by
  have := bp_blockquoteProcess n0; unfold blockquoteOpen; bpk
theorem bp_blockquoteContinue (n : Nat) : Keeps (BPI n0) (blockquoteContinue n) := by
  have := bp_blockquoteProcess n0; unfold blockquoteContinue; bpk
theorem bp_htmlOpen (p : Nat) : Keeps (BPI n0) (htmlOpen p) := by
  have := bp_appendLine n0; unfold htmlOpen; bpk
theorem bp_htmlContinue (n : Nat) : Keeps (BPI n0) (htmlContinue n) := by
  have := bp_appendLine n0; unfold htmlContinue; bpk
theorem bp_lastOffset (n : Nat) : Keeps (BPI n0) (lastOffset n) := by unfold lastOffset; bpk
theorem bp_lastChildCount (n : Nat) : Keeps (BPI n0) (lastChildCount n) := by unfold lastChildCount; bpk
theorem bp_listOpen (p : Nat) : Keeps (BPI n0) (listOpen p) := by unfold listOpen; bpk
theorem bp_listContinue (n : Nat) : Keeps (BPI n0) (listContinue n) := by
  have := bp_lastOffset n0; have := bp_lastChildCount n0; unfold listContinue; bpk
theorem bp_tightenItem (child : Nat) : ∀ gcs : List Nat, Keeps (BPI n0) (tightenItem child gcs) := by
  have := bp_replaceChild n0
  intro gcs
  induction gcs with
  | nil => unfold tightenItem; exact Keeps.pure _
  | cons gc gcs ih => unfold tightenItem; bpk
theorem bp_tightenItems : ∀ cs : List Nat, Keeps (BPI n0) (tightenItems cs) := by
  have := bp_tightenItem n0
  intro cs
  induction cs with
  | nil => unfold tightenItems; exact Keeps.pure _
  | cons c cs ih => unfold tightenItems; bpk
theorem bp_listClose (n : Nat) : Keeps (BPI n0) (listClose n) := by
  have := bp_tightenItems n0; unfold listClose; bpk
theorem bp_listItemOpen (p : Nat) : Keeps (BPI n0) (listItemOpen p) := by
  have := bp_lastOffset n0; unfold listItemOpen; bpk
theorem bp_listItemContinue (n : Nat) : Keeps (BPI n0) (listItemContinue n) := by
  have := bp_lastOffset n0; unfold listItemContinue; bpk

end

/-- `Open` of every block parser: old flags kept, new nodes unflagged -/
theorem bpn_bpOpen (bp : BP) (p : Nat) : ∀ n0, Keeps (BPI n0) (bpOpen bp p) := by
  intro n0
  cases bp <;> unfold bpOpen
  · exact bp_setextOpen n0 p
  · exact bp_thematicOpen n0 p
  · exact bp_listOpen n0 p
  · exact bp_listItemOpen n0 p
  · exact bp_codeOpen n0 p
  · exact bp_atxOpen n0 p
  · exact bp_fencedOpen n0 p
  · exact bp_blockquoteOpen n0 p
  · exact bp_htmlOpen n0 p
  · exact bp_paragraphOpen n0 p

theorem bpn_bpContinue (bp : BP) (n : Nat) : ∀ n0, Keeps (BPI n0) (bpContinue bp n) := by
  intro n0
  cases bp <;> unfold bpContinue
  · exact Keeps.pure _
  · exact Keeps.pure _
  · exact bp_listContinue n0 n
  · exact bp_listItemContinue n0 n
  · exact bp_codeContinue n0 n
  · exact Keeps.pure _
  · exact bp_fencedContinue n0 n
  · exact bp_blockquoteContinue n0 n
  · exact bp_htmlContinue n0 n
  · exact bp_paragraphContinue n0 n

/-- `Close` of every block parser but the setext parser (`setextClose` copies the flag of the temporary paragraph) -/
theorem bpn_bpClose (bp : BP) (h : bp ≠ .setext) (n : Nat) : ∀ n0, Keeps (BPI n0) (bpClose bp n) := by
  intro n0
  cases bp <;> unfold bpClose
  · exact absurd rfl h
  · exact Keeps.pure _
  · exact bp_listClose n0 n
  · exact Keeps.pure _
  · exact bp_codeClose n0 n
  · exact Keeps.pure _
  · exact bp_fencedClose n0 n
  · exact Keeps.pure _
  · exact Keeps.pure _
  · exact bp_paragraphClose n0 n

theorem bpn_of_keeps {α} {m : M α} (h : ∀ n0, Keeps (BPI n0) m) {s s' : St} {a : α} (e : m s = .ok (a, s')) :
    BPn s.nodes s'.nodes := h s.nodes s a s' (BPn.refl _) e

theorem bpn_of_bpOpen (bp : BP) (p : Nat) {s s' : St} {a : Option Nat × PState} (e : bpOpen bp p s = .ok (a, s')) :
    BPn s.nodes s'.nodes := bpn_of_keeps (bpn_bpOpen bp p) e

theorem bpn_of_bpContinue (bp : BP) (n : Nat) {s s' : St} {a : PState} (e : bpContinue bp n s = .ok (a, s')) :
    BPn s.nodes s'.nodes := bpn_of_keeps (bpn_bpContinue bp n) e

theorem bpn_of_bpClose (bp : BP) (h : bp ≠ .setext) (n : Nat) {s s' : St} {a : Unit}
    (e : bpClose bp n s = .ok (a, s')) : BPn s.nodes s'.nodes := bpn_of_keeps (bpn_bpClose bp h n) e


/-! ## part 2: children but the first -/

theorem CHn.refl (n : List Node) : CHn n n := ⟨Nat.le_refl _, fun _ _ _ hc => Or.inl hc⟩

theorem CHn.trans {a b c : List Node} (h1 : CHn a b) (h2 : CHn b c) : CHn a c := by
  refine ⟨Nat.le_trans h1.1 h2.1, fun q hq x hx => ?_⟩
  rcases h2.2 q hq x hx with h | h
  · exact h1.2 q hq x h
  · exact Or.inr (Nat.le_trans h1.1 h)

/-- the general form: a child that is not the first afterwards was not the first before, or satisfies `P` -/
def Gn (P : Nat → Prop) (n n' : List Node) : Prop :=
  n.length ≤ n'.length ∧
    ∀ q, q ≠ 0 → ∀ c ∈ (n'.getD q default).children.drop 1, c ∈ (n.getD q default).children.drop 1 ∨ P c

def GI (P : Nat → Prop) (n0 : List Node) : St → Prop := fun s => Gn P n0 s.nodes

theorem Gn.refl (P : Nat → Prop) (n : List Node) : Gn P n n := ⟨Nat.le_refl _, fun _ _ _ hc => Or.inl hc⟩

theorem Gn.trans {P : Nat → Prop} {a b c : List Node} (h1 : Gn P a b) (h2 : Gn P b c) : Gn P a c := by
  refine ⟨Nat.le_trans h1.1 h2.1, fun q hq x hx => ?_⟩
  rcases h2.2 q hq x hx with h | h
  · exact h1.2 q hq x h
  · exact Or.inr h

theorem chn_iff_gn (n n' : List Node) : CHn n n' ↔ Gn (fun c => n.length ≤ c) n n' := Iff.rfl

theorem node_getD_set (n : List Node) (id q : Nat) (x : Node) :
    (n.set id x).getD q default = if id = q ∧ id < n.length then x else n.getD q default := by
  simp only [List.getD_eq_getElem?_getD, List.getElem?_set]
  by_cases hi : id = q
  · subst hi
    by_cases hl : id < n.length
    · simp [hl]
    · simp [hl]
  · simp [hi]

theorem node_getD_set_proj {β : Type} (π : Node → β) (n : List Node) (id : Nat) (x : Node)
    (h : π x = π (n.getD id default)) (q : Nat) : π ((n.set id x).getD q default) = π (n.getD q default) := by
  rw [node_getD_set]
  split
  · rename_i h'; rw [← h'.1]; exact h
  · rfl

theorem gi_noR (P : Nat → Prop) (n0 : List Node) : NoR (GI P n0) := ⟨fun _ _ hs => hs⟩

theorem gi_modPc (P : Nat → Prop) (n0 : List Node) (f : Ctx → Ctx) : Keeps (GI P n0) (modPc f) := by
  intro s a s' hs h; cases h; exact hs

theorem gn_set (P : Nat → Prop) (n : List Node) (id : Nat) (x : Node)
    (hx : ∀ c ∈ x.children.drop 1, c ∈ (n.getD id default).children.drop 1 ∨ P c) : Gn P n (n.set id x) := by
  refine ⟨by simp, fun q _ c hc => ?_⟩
  rw [node_getD_set] at hc
  split at hc
  · rename_i h'; rw [← h'.1]; exact hx c hc
  · exact Or.inl hc

theorem gi_modNode (P : Nat → Prop) (n0 : List Node) (id : Nat) (f : Node → Node)
    (hf : ∀ n, ∀ c ∈ (f n).children.drop 1, c ∈ n.children.drop 1 ∨ P c) : Keeps (GI P n0) (modNode id f) := by
  intro s a s' hs h
  cases h
  exact Gn.trans hs (gn_set P _ _ _ (hf _))

theorem gn_append (P : Nat → Prop) (n : List Node) (x : Node) (hx : x.children = []) : Gn P n (n ++ [x]) := by
  refine ⟨by simp, fun q _ c hc => ?_⟩
  by_cases hq : q < n.length
  · simp only [List.getD_eq_getElem?_getD] at hc ⊢
    rw [List.getElem?_append_left hq] at hc
    exact Or.inl hc
  · exfalso
    simp only [List.getD_eq_getElem?_getD] at hc
    rw [List.getElem?_append_right (Nat.le_of_not_lt hq)] at hc
    by_cases h0 : q - n.length = 0
    · rw [h0] at hc; simp [hx] at hc
    · have : [x][q - n.length]? = none := by
        apply List.getElem?_eq_none; simp; omega
      rw [this] at hc
      exact absurd hc (by simp [show (default : Node).children = [] from rfl])

theorem gi_newNode (P : Nat → Prop) (n0 : List Node) (n : Node) (hn : n.children = []) :
    Keeps (GI P n0) (newNode n) := by
  intro s a s' hs h
  cases h
  exact Gn.trans hs (gn_append P _ _ hn)

theorem mem_drop_erase {l : List Nat} {c x : Nat} (h : x ∈ (l.erase c).drop 1) : x ∈ l.drop 1 := by
  cases l with
  | nil => simp at h
  | cons a t =>
    rw [List.erase_cons] at h
    split at h
    · simp only [List.drop_succ_cons, List.drop_zero]
      exact List.mem_of_mem_drop h
    · simp only [List.drop_succ_cons, List.drop_zero] at h ⊢
      exact List.mem_of_mem_erase h

theorem mem_drop_append {l : List Nat} {c x : Nat} (h : x ∈ (l ++ [c]).drop 1) : x ∈ l.drop 1 ∨ x = c := by
  cases l with
  | nil => simp at h
  | cons a t =>
    simp only [List.cons_append, List.drop_succ_cons, List.drop_zero, List.mem_append, List.mem_singleton] at h ⊢
    exact h

theorem mem_insBefore_fe {v ins x : Nat} : ∀ {l : List Nat}, x ∈ insertBeforeIn v ins l → x = ins ∨ x ∈ l := by
  intro l
  induction l with
  | nil => intro h; simp [insertBeforeIn] at h; exact Or.inl h
  | cons a t ih =>
    intro h
    unfold insertBeforeIn at h
    split at h
    · rcases List.mem_cons.mp h with h | h
      · exact Or.inl h
      · exact Or.inr h
    · rcases List.mem_cons.mp h with h | h
      · exact Or.inr (by rw [h]; exact List.mem_cons_self)
      · rcases ih h with h | h
        · exact Or.inl h
        · exact Or.inr (List.mem_cons_of_mem _ h)

/-- `ReplaceChild` on the list: all elements but the first are old ones (not the first) or the new node -/
theorem mem_drop_replace {l : List Nat} {gc tb x : Nat} (h : x ∈ ((insertBeforeIn gc tb l).erase gc).drop 1) :
    x ∈ l.drop 1 ∨ x = tb := by
  cases l with
  | nil =>
    simp only [insertBeforeIn, List.erase_cons] at h
    split at h <;> simp at h
  | cons a t =>
    unfold insertBeforeIn at h
    split at h
    · rename_i hag
      rw [List.erase_cons] at h
      split at h
      · exact Or.inl h
      · rw [List.erase_cons, if_pos hag] at h
        exact Or.inl h
    · rename_i hag
      rw [List.erase_cons, if_neg hag] at h
      simp only [List.drop_succ_cons, List.drop_zero] at h ⊢
      rcases mem_insBefore_fe (List.mem_of_mem_erase h) with h | h
      · exact Or.inr h
      · exact Or.inl h

macro "chk_step" : tactic =>
  `(tactic| first
    | with_reducible apply Keeps.pure
    | with_reducible apply Keeps.bind
    | with_reducible apply Keeps.ite
    | with_reducible apply Keeps.throw
    | with_reducible apply getNode_keeps
    | with_reducible apply getPc_keeps
    | with_reducible apply source_keeps
    | with_reducible apply position_keeps
    | with_reducible apply get_keeps
    | with_reducible apply liftE_keeps
    | with_reducible apply lastOpenedBlock_keeps
    | (with_reducible apply peekLine_keeps; exact gi_noR _ _)
    | (with_reducible apply lineOffset_keeps; exact gi_noR _ _)
    | (with_reducible apply advance_keeps; exact gi_noR _ _)
    | (with_reducible apply advanceAndSetPadding_keeps; exact gi_noR _ _)
    | (with_reducible apply advanceLine_keeps; exact gi_noR _ _)
    | (with_reducible apply setPosition_keeps; exact gi_noR _ _)
    | (with_reducible apply skipBlankLinesR_keeps; exact gi_noR _ _)
    | with_reducible apply gi_modPc
    | ((with_reducible apply gi_modNode); intro n c hc; first | exact Or.inl hc | exact Or.inl (mem_drop_erase hc))
    | ((with_reducible apply gi_newNode); rfl)
    | apply_hyp
    | intro_pi
    | split)

macro "chk" : tactic => `(tactic| repeat' chk_step)

section
variable (P : Nat → Prop) (n0 : List Node)

theorem ch_appendLine (id : Nat) (seg : Segment) : Keeps (GI P n0) (appendLine id seg) := by unfold appendLine; chk
theorem ch_removeChild (p c : Nat) : Keeps (GI P n0) (removeChild p c) := by unfold removeChild; chk
theorem ch_ensureIsolated (c : Nat) : Keeps (GI P n0) (ensureIsolated c) := by
  have := ch_removeChild P n0; unfold ensureIsolated; chk
/-- `AppendChild` of a node with `P` -/
theorem ch_appendChild (p c : Nat) (hP : P c) : Keeps (GI P n0) (appendChild p c) := by
  have := ch_ensureIsolated P n0; unfold appendChild
  apply Keeps.bind (this c); intro _
  apply Keeps.bind
  · apply gi_modNode; intro n x hx
    rcases mem_drop_append hx with h | h
    · exact Or.inl h
    · exact Or.inr (h ▸ hP)
  · intro _; chk
theorem ch_preserveLeadingTab (seg : Segment) (ind : Int) : Keeps (GI P n0) (preserveLeadingTab seg ind) := by
  unfold preserveLeadingTab; chk
theorem ch_paragraphOpen (p : Nat) : Keeps (GI P n0) (paragraphOpen p) := by
  have := ch_appendLine P n0; unfold paragraphOpen; chk
theorem ch_paragraphContinue (n : Nat) : Keeps (GI P n0) (paragraphContinue n) := by
  have := ch_appendLine P n0; unfold paragraphContinue; chk
theorem ch_paragraphClose (n : Nat) : Keeps (GI P n0) (paragraphClose n) := by
  have := ch_removeChild P n0; unfold paragraphClose; chk
theorem ch_thematicOpen (p : Nat) : Keeps (GI P n0) (thematicOpen p) := by unfold thematicOpen; chk
theorem ch_atxOpen (p : Nat) : Keeps (GI P n0) (atxOpen p) := by
  have := ch_appendLine P n0; unfold atxOpen; chk
theorem ch_setextOpen (p : Nat) : Keeps (GI P n0) (setextOpen p) := by
  have := ch_appendLine P n0; unfold setextOpen; chk
theorem ch_codeTakeLine (n : Nat) (pos padding : Int) : Keeps (GI P n0) (codeTakeLine n pos padding) := by
  have := ch_appendLine P n0; have := ch_preserveLeadingTab P n0; unfold codeTakeLine; chk
theorem ch_codeOpen (p : Nat) : Keeps (GI P n0) (codeOpen p) := by
  have := ch_codeTakeLine P n0; unfold codeOpen; chk
theorem ch_codeContinue (n : Nat) : Keeps (GI P n0) (codeContinue n) := by
  have := ch_appendLine P n0; have := ch_codeTakeLine P n0; unfold codeContinue; chk
theorem ch_codeClose (n : Nat) : Keeps (GI P n0) (codeClose n) := by unfold codeClose; chk
theorem ch_fencedOpen (p : Nat) : Keeps (GI P n0) (fencedOpen p) := by unfold fencedOpen; chk
theorem ch_fencedContinue (n : Nat) : Keeps (GI P n0) (fencedContinue n) := by
  have := ch_appendLine P n0; have := ch_preserveLeadingTab P n0; unfold fencedContinue; chk
theorem ch_fencedClose (n : Nat) : Keeps (GI P n0) (fencedClose n) := by unfold fencedClose; chk
theorem ch_blockquoteProcess : Keeps (GI P n0) blockquoteProcess := by unfold blockquoteProcess; chk
theorem ch_blockquoteOpen (p : Nat) : Keeps (GI P n0) (blockquoteOpen p) := by
  have := ch_blockquoteProcess P n0; unfold blockquoteOpen; chk
theorem ch_blockquoteContinue (n : Nat) : Keeps (GI P n0) (blockquoteContinue n) := by
  have := ch_blockquoteProcess P n0; unfold blockquoteContinue; chk
theorem ch_htmlOpen (p : Nat) : Keeps (GI P n0) (htmlOpen p) := by
  have := ch_appendLine P n0; unfold htmlOpen; chk
theorem ch_htmlContinue (n : Nat) : Keeps (GI P n0) (htmlContinue n) := by
  have := ch_appendLine P n0; unfold htmlContinue; chk
theorem ch_lastOffset (n : Nat) : Keeps (GI P n0) (lastOffset n) := by unfold lastOffset; chk
theorem ch_lastChildCount (n : Nat) : Keeps (GI P n0) (lastChildCount n) := by unfold lastChildCount; chk
theorem ch_listOpen (p : Nat) : Keeps (GI P n0) (listOpen p) := by unfold listOpen; chk
theorem ch_listContinue (n : Nat) : Keeps (GI P n0) (listContinue n) := by
  have := ch_lastOffset P n0; have := ch_lastChildCount P n0; unfold listContinue; chk
theorem ch_listItemOpen (p : Nat) : Keeps (GI P n0) (listItemOpen p) := by
  have := ch_lastOffset P n0; unfold listItemOpen; chk
theorem ch_listItemContinue (n : Nat) : Keeps (GI P n0) (listItemContinue n) := by
  have := ch_lastOffset P n0; unfold listItemContinue; chk

end


/-! ### `ReplaceChild` with a fresh node, as a unit -/

theorem ch_removeChild' (P : Nat → Prop) (n0 : List Node) (p c : Nat) : Keeps (GI P n0) (removeChild p c) :=
  ch_removeChild P n0 p c

theorem modNode_getD {id : Nat} {f : Node → Node} {s s' : St} {a : Unit} (e : modNode id f s = .ok (a, s')) (q : Nat) :
    s'.nodes.getD q default = if id = q ∧ id < s.nodes.length then f (s.nodes.getD id default) else s.nodes.getD q default := by
  cases e; exact node_getD_set _ _ _ _

theorem modNode_len {id : Nat} {f : Node → Node} {s s' : St} {a : Unit} (e : modNode id f s = .ok (a, s')) :
    s'.nodes.length = s.nodes.length := by
  cases e; simp

theorem modNode_proj {β : Type} (π : Node → β) {id : Nat} {f : Node → Node} {s s' : St} {a : Unit}
    (e : modNode id f s = .ok (a, s')) (hf : ∀ n, π (f n) = π n) (q : Nat) :
    π (s'.nodes.getD q default) = π (s.nodes.getD q default) := by
  rw [modNode_getD e]
  split
  · rename_i h; rw [hf, h.1]
  · rfl

/-- `ReplaceChild(v, ins)` where `ins` has no parent: below every node, a child that is not the first afterwards was
    not the first before, or is `ins` -/
theorem replaceChild_fresh {s1 s' : St} {child gc tb : Nat} {a : Unit}
    (hp : (s1.nodes.getD tb default).parent = none) (e : replaceChild child gc tb s1 = .ok (a, s')) :
    Gn (fun c => c = tb) s1.nodes s'.nodes := by
  unfold replaceChild at e
  obtain ⟨_, s2, e1, e2⟩ := bind_inv_u e
  clear e
  unfold insertBefore at e1
  simp only at e1
  obtain ⟨vn, t, ev, f1⟩ := bind_inv_u e1
  clear e1
  cases ev
  split at f1
  · -- `gc` is not a child of `child`: AppendChild, then RemoveChild does nothing or erases
    have h1 := ch_appendChild (fun c => c = tb) s1.nodes child tb rfl s1 _ s2 (Gn.refl _ _) f1
    exact ch_removeChild (fun c => c = tb) s1.nodes child gc s2 _ s' h1 e2
  · rename_i hpar0
    have hpar : (s1.nodes.getD gc default).parent = some child := by
      simpa using hpar0
    clear hpar0
    obtain ⟨_, t1, ei, g1⟩ := bind_inv_u f1
    clear f1
    have ht1 : t1 = s1 := by
      unfold ensureIsolated at ei
      obtain ⟨cn, t, ec, ei⟩ := bind_inv_u ei
      cases ec
      simp only [hp] at ei
      cases ei; rfl
    clear ei
    subst ht1
    obtain ⟨_, t2, em1, em2⟩ := bind_inv_u g1
    clear g1
    -- t1 → t2: the children of `child`;  t2 → s2: the parent of `tb`
    have c1 := modNode_getD em1
    have p1 := modNode_proj (fun n => n.parent) em1 (fun _ => rfl)
    have l1 := modNode_len em1
    have c2 := modNode_proj (fun n => n.children) em2 (fun _ => rfl)
    have p2 := modNode_getD em2
    have l2 := modNode_len em2
    clear em1 em2
    unfold removeChild at e2
    obtain ⟨cn, t, ec, k2⟩ := bind_inv_u e2
    clear e2
    cases ec
    -- the parent of `gc` is still `child`
    have hpg : (s2.nodes.getD gc default).parent = some child := by
      rw [p2]
      split
      · rfl
      · rw [p1]; exact hpar
    split at k2
    · rename_i hc; rw [hpg] at hc; simp at hc
    · obtain ⟨_, t3, em3, em4⟩ := bind_inv_u k2
      clear k2
      have c3 := modNode_getD em3
      have l3 := modNode_len em3
      have c4 := modNode_proj (fun n => n.children) em4 (fun _ => rfl)
      have l4 := modNode_len em4
      clear em3 em4
      refine ⟨by rw [l4, l3, l2, l1]; exact Nat.le_refl _, fun q _ c hc => ?_⟩
      rw [c4, c3] at hc
      split at hc
      · rename_i hq
        change c ∈ ((s2.nodes.getD child default).children.erase gc).drop 1 at hc
        rw [c2, c1] at hc
        rw [← hq.1]
        split at hc
        · exact mem_drop_replace hc
        · exact Or.inl (mem_drop_erase hc)
      · rename_i hq
        rw [c2, c1] at hc
        split at hc
        · rename_i hq'
          exact absurd ⟨hq'.1, by rw [l2, l1]; exact hq'.2⟩ hq
        · exact Or.inl hc


/-- the invariant of part 2 in the general form -/
abbrev CG (n0 : List Node) : St → Prop := GI (fun c => n0.length ≤ c) n0

theorem chi_eq_cg (n0 : List Node) : CHI n0 = CG n0 := rfl

/-- `newNode lit` followed by `ReplaceChild(gc, the new node)`, as a unit -/
theorem cg_newReplace (n0 : List Node) (lit : Node) (hc : lit.children = []) (hp : lit.parent = none) (child gc : Nat)
    {α : Type} (k : Unit → M α) (hk : ∀ r, Keeps (CG n0) (k r)) :
    Keeps (CG n0) (newNode lit >>= fun tb => replaceChild child gc tb >>= k) := by
  intro s a s' hs h
  obtain ⟨tb, s1, e1, e2⟩ := bind_inv_u h
  obtain ⟨r, s2, e2, e3⟩ := bind_inv_u e2
  refine hk r s2 a s' ?_ e3
  have h1 : CG n0 s1 := gi_newNode _ n0 lit hc s tb s1 hs e1
  have htb : n0.length ≤ tb := by cases e1; exact hs.1
  have hpar : (s1.nodes.getD tb default).parent = none := by
    cases e1
    simp only [List.getD_eq_getElem?_getD]
    rw [List.getElem?_append_right (Nat.le_refl _)]
    simpa using hp
  have hJ := replaceChild_fresh hpar e2
  refine ⟨Nat.le_trans h1.1 hJ.1, fun q hq c hcm => ?_⟩
  rcases hJ.2 q hq c hcm with h | h
  · exact h1.2 q hq c h
  · exact Or.inr (h ▸ htb)

section
variable (n0 : List Node)

theorem cg_tightenItem (child : Nat) : ∀ gcs : List Nat, Keeps (CG n0) (tightenItem child gcs) := by
  intro gcs
  induction gcs with
  | nil => unfold tightenItem; exact Keeps.pure _
  | cons gc gcs ih =>
    unfold tightenItem
    refine Keeps.bind (getNode_keeps _) (fun g => ?_)
    simp only
    split
    · exact cg_newReplace n0 _ rfl rfl child gc _ (fun _ => ih)
    · exact ih

theorem cg_tightenItems : ∀ cs : List Nat, Keeps (CG n0) (tightenItems cs) := by
  have := cg_tightenItem n0
  intro cs
  induction cs with
  | nil => unfold tightenItems; exact Keeps.pure _
  | cons c cs ih => unfold tightenItems; chk

theorem cg_listClose (n : Nat) : Keeps (CG n0) (listClose n) := by
  have := cg_tightenItems n0; unfold listClose; chk

end

/-- `Open` of every block parser: below every node but the Document, a child that is not the first afterwards was
    not the first before, or is a new node -/
theorem chn_bpOpen (bp : BP) (p : Nat) : ∀ n0, Keeps (CHI n0) (bpOpen bp p) := by
  intro n0
  show Keeps (CG n0) _
  cases bp <;> unfold bpOpen
  · exact ch_setextOpen _ n0 p
  · exact ch_thematicOpen _ n0 p
  · exact ch_listOpen _ n0 p
  · exact ch_listItemOpen _ n0 p
  · exact ch_codeOpen _ n0 p
  · exact ch_atxOpen _ n0 p
  · exact ch_fencedOpen _ n0 p
  · exact ch_blockquoteOpen _ n0 p
  · exact ch_htmlOpen _ n0 p
  · exact ch_paragraphOpen _ n0 p

theorem chn_bpContinue (bp : BP) (n : Nat) : ∀ n0, Keeps (CHI n0) (bpContinue bp n) := by
  intro n0
  show Keeps (CG n0) _
  cases bp <;> unfold bpContinue
  · exact Keeps.pure _
  · exact Keeps.pure _
  · exact ch_listContinue _ n0 n
  · exact ch_listItemContinue _ n0 n
  · exact ch_codeContinue _ n0 n
  · exact Keeps.pure _
  · exact ch_fencedContinue _ n0 n
  · exact ch_blockquoteContinue _ n0 n
  · exact ch_htmlContinue _ n0 n
  · exact ch_paragraphContinue _ n0 n

/-- `Close` of every block parser but the setext parser (`setextClose` moves children); no extra hypotheses:
    `paragraphClose` only removes a child, `listClose` only replaces children by fresh nodes -/
theorem chn_bpClose (bp : BP) (h : bp ≠ .setext) (n : Nat) : ∀ n0, Keeps (CHI n0) (bpClose bp n) := by
  intro n0
  show Keeps (CG n0) _
  cases bp <;> unfold bpClose
  · exact absurd rfl h
  · exact Keeps.pure _
  · exact cg_listClose n0 n
  · exact Keeps.pure _
  · exact ch_codeClose _ n0 n
  · exact Keeps.pure _
  · exact ch_fencedClose _ n0 n
  · exact Keeps.pure _
  · exact Keeps.pure _
  · exact ch_paragraphClose _ n0 n

theorem chn_of_keeps {α} {m : M α} (h : ∀ n0, Keeps (CHI n0) m) {s s' : St} {a : α} (e : m s = .ok (a, s')) :
    CHn s.nodes s'.nodes := h s.nodes s a s' (CHn.refl _) e

theorem chn_of_bpOpen (bp : BP) (p : Nat) {s s' : St} {a : Option Nat × PState} (e : bpOpen bp p s = .ok (a, s')) :
    CHn s.nodes s'.nodes := chn_of_keeps (chn_bpOpen bp p) e

theorem chn_of_bpContinue (bp : BP) (n : Nat) {s s' : St} {a : PState} (e : bpContinue bp n s = .ok (a, s')) :
    CHn s.nodes s'.nodes := chn_of_keeps (chn_bpContinue bp n) e

theorem chn_of_bpClose (bp : BP) (h : bp ≠ .setext) (n : Nat) {s s' : St} {a : Unit}
    (e : bpClose bp n s = .ok (a, s')) : CHn s.nodes s'.nodes := chn_of_keeps (chn_bpClose bp h n) e


end GM.Blocks
