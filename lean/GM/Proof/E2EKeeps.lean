/-
  GM.Proof.E2EKeeps — a NODE-LOCAL invariant of the block-phase store, carried through the whole block phase with
  paragraph transformers (`GM.Blocks.runT`, `GM.Convert.blockPhase`) without any precondition on the run:

    `HeadOK s` : every node of the store whose kind is Heading has `1 ≤ Level ≤ 6`.

  A Heading's level is fixed when the node is created — by the ATX parser (atx_heading.go:93-99: `level = i - pos`,
  declined when `i == pos || level > 6`) or the setext parser (setext_headings.go:66-69: 1 or 2) — and no later step of
  the block phase writes a node's kind or level: every `modNode` of the model changes other fields only.

  `Keeps I m` ("when `m` answers normally from a store with `HeadOK`, the new store has `HeadOK`") is closed under
  `bind` / `pure` / `if` / `match`, so the proof for a model function is a syntactic walk over its `do` block (tactic
  `keeps`, after GM.Proof.BlocksPres's `pres`). Partial correctness: a Go panic / fuel error satisfies it vacuously.
-/
import GM.Proof.BlocksPres
import GM.Model.Blocks.DriverT
import GM.Model.LinkRef

namespace GM.E2E
open GM GM.Text GM.Blocks

/-- a Heading node has a level the renderer can index `"0123456"` with (and `Spec.Inv` asks for) -/
def HeadP (n : Node) : Prop := n.kind = .heading → 1 ≤ n.level ∧ n.level ≤ 6

/-- the invariant of the block-phase store -/
def HeadOK (s : St) : Prop := ∀ n ∈ s.nodes, HeadP n

/-- `BlockStoreOK` as a Boolean (what a driver / monitor can evaluate on a dumped store) -/
def headOKB (s : St) : Bool :=
  s.nodes.all fun n => n.kind != .heading || (decide (1 ≤ n.level) && decide (n.level ≤ 6))

theorem headOKB_iff (s : St) : headOKB s = true ↔ HeadOK s := by
  unfold headOKB HeadOK HeadP
  rw [List.all_eq_true]
  constructor
  · intro h n hn hk
    have := h n hn
    simp only [hk, bne_self_eq_false, Bool.false_or, Bool.and_eq_true, decide_eq_true_eq] at this
    exact this
  · intro h n hn
    by_cases hk : n.kind = .heading
    · have := h n hn hk
      simp [hk, this.1, this.2]
    · simp [hk]

/-- the node an out-of-range store lookup answers -/
theorem headP_default : HeadP (default : Node) := by
  intro h; cases h

/-- `m` keeps the invariant `I` whenever it answers normally -/
structure Keeps (I : St → Prop) {α : Type} (m : M α) : Prop where
  h : ∀ s a s', I s → m s = .ok (a, s') → I s'

variable {I : St → Prop}

theorem Keeps.pure {α} (a : α) : Keeps I (pure a : M α) :=
  ⟨fun s a' s' hs h => by cases h; exact hs⟩

theorem Keeps.bind {α β} {m : M α} {f : α → M β} (hm : Keeps I m) (hf : ∀ a, Keeps I (f a)) : Keeps I (m >>= f) := by
  constructor
  intro s b s'' hs h
  simp only [Bind.bind, StateT.bind] at h
  cases hms : m s with
  | error e => rw [hms] at h; simp [Except.bind] at h
  | ok p =>
    rw [hms] at h
    simp only [Except.bind] at h
    exact (hf p.1).h p.2 b s'' (hm.h s p.1 p.2 hs hms) h

theorem Keeps.ite {α} {c : Prop} [Decidable c] {a b : M α} (ha : c → Keeps I a) (hb : ¬ c → Keeps I b) :
    Keeps I (if c then a else b) := by
  split
  · exact ha ‹_›
  · exact hb ‹_›

theorem Keeps.throw {α} (e : Panic) : Keeps I (throw e : M α) :=
  ⟨fun _ _ _ _ h => by cases h⟩


/-- a BLIND frame invariant: it does not look at the reader or the parse context, survives every write to a node that
    leaves kind and level alone, and survives the allocation of a node with `HeadP`. (Heading levels, "node 0 is the
    Document", "kinds never change" are of this form.) -/
class Frame0 (I : St → Prop) : Prop where
  ronly : ∀ (s : St) (r : Reader) (pc : Ctx), I s → I { s with r := r, pc := pc }
  mod : ∀ (s : St) (id : Nat) (f : Node → Node), (∀ n, (f n).kind = n.kind ∧ (f n).level = n.level) → I s →
    I { s with nodes := s.nodes.set id (f (s.nodes.getD id default)) }
  new : ∀ (s : St) (n : Node), HeadP n → I s → I { s with nodes := s.nodes ++ [n] }

namespace F0
/-- a step that leaves the node store alone -/
theorem Keeps.of_nodes [Frame0 I] {α} {m : M α} (h : ∀ s a s', m s = .ok (a, s') → s'.nodes = s.nodes) : Keeps I m :=
  ⟨fun s a s' hs hm => by
    have e : s' = { s with r := s'.r, pc := s'.pc } := by
      cases s'; cases s; simp only [St.mk.injEq, true_and]; exact ⟨h _ _ _ hm, trivial⟩
    rw [e]; exact Frame0.ronly s _ _ hs⟩

theorem getNode_keeps [Frame0 I] (id : Nat) : Keeps I (getNode id) :=
  Keeps.of_nodes fun _ _ _ h => by cases h; rfl
theorem getPc_keeps [Frame0 I] : Keeps I getPc := Keeps.of_nodes fun _ _ _ h => by cases h; rfl
theorem source_keeps [Frame0 I] : Keeps I source := Keeps.of_nodes fun _ _ _ h => by cases h; rfl
theorem position_keeps [Frame0 I] : Keeps I position := Keeps.of_nodes fun _ _ _ h => by cases h; rfl
theorem get_keeps [Frame0 I] : Keeps I (get : M St) := Keeps.of_nodes fun _ _ _ h => by cases h; rfl
theorem modPc_keeps [Frame0 I] (f) : Keeps I (modPc f) := Keeps.of_nodes fun _ _ _ h => by cases h; rfl
theorem advanceLine_keeps [Frame0 I] : Keeps I advanceLine := Keeps.of_nodes fun _ _ _ h => by cases h; rfl
theorem setPosition_keeps [Frame0 I] (l : Int) (p : Segment) : Keeps I (setPosition l p) :=
  Keeps.of_nodes fun _ _ _ h => by cases h; rfl

theorem liftE_keeps [Frame0 I] {α} (e : Except Panic α) : Keeps I (liftE e) :=
  Keeps.of_nodes fun s a s' h => by
    unfold liftE at h
    cases e with
    | error x => simp [Except.map] at h
    | ok v => simp only [Except.map, Except.ok.injEq, Prod.mk.injEq] at h; rw [h.2]

theorem peekLine_keeps [Frame0 I] : Keeps I peekLine :=
  Keeps.of_nodes fun s a s' h => by
    unfold peekLine at h
    cases hr : s.r.peekLine with
    | error x => simp [hr, bind, Except.bind] at h
    | ok v => simp only [hr, bind, Except.bind, pure, Except.pure, Except.ok.injEq, Prod.mk.injEq] at h; rw [← h.2]

theorem lineOffset_keeps [Frame0 I] : Keeps I lineOffset :=
  Keeps.of_nodes fun s a s' h => by
    unfold lineOffset at h
    cases hr : s.r.lineOffsetOp with
    | error x => simp [hr, bind, Except.bind] at h
    | ok v => simp only [hr, bind, Except.bind, pure, Except.pure, Except.ok.injEq, Prod.mk.injEq] at h; rw [← h.2]

theorem advance_keeps [Frame0 I] (n : Int) : Keeps I (advance n) :=
  Keeps.of_nodes fun s a s' h => by
    unfold advance at h
    cases hr : s.r.advance n with
    | error x => simp [hr, bind, Except.bind] at h
    | ok v => simp only [hr, bind, Except.bind, pure, Except.pure, Except.ok.injEq, Prod.mk.injEq] at h; rw [← h.2]

theorem advanceAndSetPadding_keeps [Frame0 I] (n p : Int) : Keeps I (advanceAndSetPadding n p) :=
  Keeps.of_nodes fun s a s' h => by
    unfold advanceAndSetPadding at h
    cases hr : s.r.advanceAndSetPadding n p with
    | error x => simp [hr, bind, Except.bind] at h
    | ok v => simp only [hr, bind, Except.bind, pure, Except.pure, Except.ok.injEq, Prod.mk.injEq] at h; rw [← h.2]

theorem skipBlankLinesR_keeps [Frame0 I] : Keeps I skipBlankLinesR :=
  Keeps.of_nodes fun s a s' h => by
    unfold skipBlankLinesR at h
    cases hr : skipBlankLines readerOps (loopFuel s.r.source) 0 s.r with
    | error x => simp [hr, bind, Except.bind] at h
    | ok v => simp only [hr, bind, Except.bind, pure, Except.pure, Except.ok.injEq, Prod.mk.injEq] at h; rw [← h.2]

/-- a write to one node that leaves its kind and level alone (in the model: EVERY write) -/
theorem modNode_keeps [Frame0 I] (id : Nat) (f : Node → Node) (hf : ∀ n, (f n).kind = n.kind ∧ (f n).level = n.level) :
    Keeps I (modNode id f) := by
  constructor
  intro s a s' hs h
  cases h
  exact Frame0.mod s id f hf hs

/-- a new node that has `HeadP` -/
theorem newNode_keeps [Frame0 I] (n : Node) (hn : HeadP n) : Keeps I (newNode n) := by
  constructor
  intro s a s' hs h
  cases h
  exact Frame0.new s n hn hs

theorem appendLine_keeps [Frame0 I] (id : Nat) (seg : Segment) : Keeps I (appendLine id seg) :=
  modNode_keeps _ _ fun _ => ⟨rfl, rfl⟩

macro "keeps0_step" : tactic =>
  `(tactic| first
    | with_reducible apply Keeps.pure
    | with_reducible apply Keeps.bind
    | with_reducible apply Keeps.ite
    | with_reducible apply Keeps.throw
    | with_reducible apply getNode_keeps
    | with_reducible apply getPc_keeps
    | with_reducible apply source_keeps
    | with_reducible apply position_keeps
    | with_reducible apply get_keeps
    | with_reducible apply modPc_keeps
    | with_reducible apply advanceLine_keeps
    | with_reducible apply setPosition_keeps
    | with_reducible apply liftE_keeps
    | with_reducible apply peekLine_keeps
    | with_reducible apply lineOffset_keeps
    | with_reducible apply advance_keeps
    | with_reducible apply advanceAndSetPadding_keeps
    | with_reducible apply skipBlankLinesR_keeps
    | with_reducible apply appendLine_keeps
    | ((with_reducible apply modNode_keeps); exact fun _ => ⟨rfl, rfl⟩)
    | ((with_reducible apply newNode_keeps); (intro h; cases h; done))
    | apply_hyp
    | intro _
    | split)

/-- walk over an `M` do block -/
macro "keeps0" : tactic => `(tactic| repeat' keeps0_step)


theorem fencedOpen_keeps [Frame0 I] (p : Nat) : Keeps I (fencedOpen p) := by
  unfold fencedOpen; keeps0

theorem htmlContinue_keeps [Frame0 I] (n : Nat) : Keeps I (htmlContinue n) := by
  unfold htmlContinue; keeps0

end F0

/-- a FRAME invariant of the block-phase state (general form): it may look at the reader — then the seven reader
    primitives are obligations — survives a change of the parse context, every write to a node that leaves kind, level,
    info segment and closure line alone (in the model: EVERY `modNode` but the one in htmlBlockParser.Continue that sets the
    closure line), the allocation of a node with `HeadP`, no info segment and no closure line (EVERY `newNode` but the one
    of fencedCodeBlockParser.Open) — and the two exceptional parser functions are obligations of their own. -/
class Frame (I : St → Prop) : Prop where
  pcK : ∀ (s : St) (pc : Ctx), I s → I { s with pc := pc }
  peekLineK : Keeps I peekLine
  lineOffsetK : Keeps I lineOffset
  advanceK : ∀ n, Keeps I (advance n)
  advanceAndSetPaddingK : ∀ n p, Keeps I (advanceAndSetPadding n p)
  advanceLineK : Keeps I advanceLine
  setPositionK : ∀ l p, Keeps I (setPosition l p)
  skipBlankLinesRK : Keeps I skipBlankLinesR
  mod : ∀ (s : St) (id : Nat) (f : Node → Node),
    (∀ n, (f n).kind = n.kind ∧ (f n).level = n.level ∧ (f n).info = n.info ∧ (f n).closure = n.closure) → I s →
    I { s with nodes := s.nodes.set id (f (s.nodes.getD id default)) }
  new : ∀ (s : St) (n : Node), HeadP n → n.info = none → n.closure.start = -1 → I s → I { s with nodes := s.nodes ++ [n] }
  fencedOpenK : ∀ p, Keeps I (fencedOpen p)
  htmlContinueK : ∀ n, Keeps I (htmlContinue n)

/-- every blind frame invariant is a frame invariant -/
instance (priority := low) frameOfBlind [Frame0 I] : Frame I where
  pcK := fun s pc hs => by
    have := Frame0.ronly s s.r pc hs
    exact this
  peekLineK := F0.peekLine_keeps
  lineOffsetK := F0.lineOffset_keeps
  advanceK := F0.advance_keeps
  advanceAndSetPaddingK := F0.advanceAndSetPadding_keeps
  advanceLineK := F0.advanceLine_keeps
  setPositionK := F0.setPosition_keeps
  skipBlankLinesRK := F0.skipBlankLinesR_keeps
  mod := fun s id f hf hs => Frame0.mod s id f (fun n => ⟨(hf n).1, (hf n).2.1⟩) hs
  new := fun s n hn _ _ hs => Frame0.new s n hn hs
  fencedOpenK := F0.fencedOpen_keeps
  htmlContinueK := F0.htmlContinue_keeps

theorem getNode_keeps (id : Nat) : Keeps I (getNode id) := ⟨fun _ _ _ hs h => by cases h; exact hs⟩
theorem getPc_keeps : Keeps I getPc := ⟨fun _ _ _ hs h => by cases h; exact hs⟩
theorem source_keeps : Keeps I source := ⟨fun _ _ _ hs h => by cases h; exact hs⟩
theorem position_keeps : Keeps I position := ⟨fun _ _ _ hs h => by cases h; exact hs⟩
theorem get_keeps : Keeps I (get : M St) := ⟨fun _ _ _ hs h => by cases h; exact hs⟩
theorem modPc_keeps [Frame I] (f) : Keeps I (modPc f) := ⟨fun s _ _ hs h => by cases h; exact Frame.pcK s _ hs⟩
theorem advanceLine_keeps [Frame I] : Keeps I advanceLine := Frame.advanceLineK
theorem setPosition_keeps [Frame I] (l : Int) (p : Segment) : Keeps I (setPosition l p) := Frame.setPositionK l p
theorem liftE_keeps {α} (e : Except Panic α) : Keeps I (liftE e) :=
  ⟨fun s a s' hs h => by
    unfold liftE at h
    cases e with
    | error x => simp [Except.map] at h
    | ok v => simp only [Except.map, Except.ok.injEq, Prod.mk.injEq] at h; rw [← h.2]; exact hs⟩
theorem peekLine_keeps [Frame I] : Keeps I peekLine := Frame.peekLineK
theorem lineOffset_keeps [Frame I] : Keeps I lineOffset := Frame.lineOffsetK
theorem advance_keeps [Frame I] (n : Int) : Keeps I (advance n) := Frame.advanceK n
theorem advanceAndSetPadding_keeps [Frame I] (n p : Int) : Keeps I (advanceAndSetPadding n p) :=
  Frame.advanceAndSetPaddingK n p
theorem skipBlankLinesR_keeps [Frame I] : Keeps I skipBlankLinesR := Frame.skipBlankLinesRK

/-- a write to one node that leaves its kind, level, info segment and closure line alone -/
theorem modNode_keeps [Frame I] (id : Nat) (f : Node → Node)
    (hf : ∀ n, (f n).kind = n.kind ∧ (f n).level = n.level ∧ (f n).info = n.info ∧ (f n).closure = n.closure) :
    Keeps I (modNode id f) := by
  constructor
  intro s a s' hs h
  cases h
  exact Frame.mod s id f hf hs

/-- a new node that has `HeadP`, no info segment and no closure line -/
theorem newNode_keeps [Frame I] (n : Node) (hn : HeadP n) (hi : n.info = none) (hc : n.closure.start = -1) :
    Keeps I (newNode n) := by
  constructor
  intro s a s' hs h
  cases h
  exact Frame.new s n hn hi hc hs

theorem appendLine_keeps [Frame I] (id : Nat) (seg : Segment) : Keeps I (appendLine id seg) :=
  modNode_keeps _ _ fun _ => ⟨rfl, rfl, rfl, rfl⟩

macro "keeps_step" : tactic =>
  `(tactic| first
    | with_reducible apply Keeps.pure
    | with_reducible apply Keeps.bind
    | with_reducible apply Keeps.ite
    | with_reducible apply Keeps.throw
    | with_reducible apply getNode_keeps
    | with_reducible apply getPc_keeps
    | with_reducible apply source_keeps
    | with_reducible apply position_keeps
    | with_reducible apply get_keeps
    | with_reducible apply modPc_keeps
    | with_reducible apply advanceLine_keeps
    | with_reducible apply setPosition_keeps
    | with_reducible apply liftE_keeps
    | with_reducible apply peekLine_keeps
    | with_reducible apply lineOffset_keeps
    | with_reducible apply advance_keeps
    | with_reducible apply advanceAndSetPadding_keeps
    | with_reducible apply skipBlankLinesR_keeps
    | with_reducible apply appendLine_keeps
    | ((with_reducible apply modNode_keeps); exact fun _ => ⟨rfl, rfl, rfl, rfl⟩)
    | ((with_reducible apply newNode_keeps) <;> first | rfl | (intro h; cases h; done))
    | apply_hyp
    | intro _
    | split)

/-- walk over an `M` do block -/
macro "keeps" : tactic => `(tactic| repeat' keeps_step)

/-! ### tree surgery -/

section walk
variable [Frame I]


theorem lastOpenedBlock_keeps : Keeps I lastOpenedBlock := by
  unfold lastOpenedBlock; keeps

theorem removeChild_keeps (p c : Nat) : Keeps I (removeChild p c) := by
  unfold removeChild; keeps

theorem ensureIsolated_keeps (c : Nat) : Keeps I (ensureIsolated c) := by
  have := removeChild_keeps (I := I)
  unfold ensureIsolated; keeps

theorem appendChild_keeps (p c : Nat) : Keeps I (appendChild p c) := by
  have := ensureIsolated_keeps (I := I)
  unfold appendChild; keeps

theorem insertBefore_keeps (p : Nat) (v1 : Option Nat) (ins : Nat) : Keeps I (insertBefore p v1 ins) := by
  have := ensureIsolated_keeps (I := I)
  have := appendChild_keeps (I := I)
  unfold insertBefore; keeps

theorem nextSibling_keeps (c : Nat) : Keeps I (nextSibling c) := by
  unfold nextSibling; keeps

theorem insertAfter_keeps (p : Nat) (v1 : Option Nat) (ins : Nat) : Keeps I (insertAfter p v1 ins) := by
  have := appendChild_keeps (I := I)
  have := nextSibling_keeps (I := I)
  have := insertBefore_keeps (I := I)
  unfold insertAfter; keeps

theorem replaceChild_keeps (p v1 ins : Nat) : Keeps I (replaceChild p v1 ins) := by
  have := insertBefore_keeps (I := I)
  have := removeChild_keeps (I := I)
  unfold replaceChild; keeps

/-! ### the ten block parsers -/

theorem paragraphOpen_keeps (p : Nat) : Keeps I (paragraphOpen p) := by
  unfold paragraphOpen; keeps

theorem paragraphContinue_keeps (n : Nat) : Keeps I (paragraphContinue n) := by
  unfold paragraphContinue; keeps

theorem paragraphClose_keeps (n : Nat) : Keeps I (paragraphClose n) := by
  have := removeChild_keeps (I := I)
  unfold paragraphClose; keeps

theorem thematicOpen_keeps (p : Nat) : Keeps I (thematicOpen p) := by
  unfold thematicOpen; keeps

theorem scanWhileEq_ge (line : Bytes) (c : UInt8) (i : Int) (hi : 0 ≤ i) : i ≤ scanWhileEq line c i := by
  unfold scanWhileEq
  split
  · omega
  · omega

theorem atx_level (line : Bytes) (c : UInt8) (pos : Int) (h0 : ¬ pos < 0)
    (h : ¬ ((scanWhileEq line c pos == pos || decide (scanWhileEq line c pos - pos > 6)) = true)) :
    1 ≤ scanWhileEq line c pos - pos ∧ scanWhileEq line c pos - pos ≤ 6 := by
  have hge := scanWhileEq_ge line c pos (by omega)
  simp only [Bool.or_eq_true, beq_iff_eq, decide_eq_true_eq, not_or] at h
  omega

/-- atx_heading.go:93-99: the level is the length of the `#` run, and the parser declines unless it is 1..6 -/
theorem atxOpen_keeps (p : Nat) : Keeps I (atxOpen p) := by
  unfold atxOpen
  keeps
  all_goals
    refine newNode_keeps _ ?_ rfl rfl
    intro _
    exact atx_level _ _ _ (by assumption) (by assumption)

/-- setext_headings.go:66-69: level 1 (`=`) or 2 (`-`) -/
theorem setextOpen_keeps (p : Nat) : Keeps I (setextOpen p) := by
  have := lastOpenedBlock_keeps (I := I)
  have hnew : ∀ c : UInt8, Keeps I (newNode { kind := .heading, level := if c == 45 then 2 else 1 }) := by
    intro c
    refine newNode_keeps _ ?_ rfl rfl
    intro _
    simp only
    split <;> omega
  unfold setextOpen; keeps

theorem setextClose_keeps (n : Nat) : Keeps I (setextClose n) := by
  have := removeChild_keeps (I := I)
  have := insertAfter_keeps (I := I)
  have := nextSibling_keeps (I := I)
  unfold setextClose; keeps

theorem preserveLeadingTab_keeps (seg : Segment) (ind : Int) : Keeps I (preserveLeadingTab seg ind) := by
  unfold preserveLeadingTab; keeps

theorem codeTakeLine_keeps (n : Nat) (pos padding : Int) : Keeps I (codeTakeLine n pos padding) := by
  have := preserveLeadingTab_keeps (I := I)
  unfold codeTakeLine; keeps

theorem codeOpen_keeps (p : Nat) : Keeps I (codeOpen p) := by
  have := codeTakeLine_keeps (I := I)
  unfold codeOpen; keeps

theorem codeContinue_keeps (n : Nat) : Keeps I (codeContinue n) := by
  have := codeTakeLine_keeps (I := I)
  unfold codeContinue; keeps

theorem codeClose_keeps (n : Nat) : Keeps I (codeClose n) := by
  unfold codeClose; keeps

theorem fencedOpen_keeps (p : Nat) : Keeps I (fencedOpen p) := Frame.fencedOpenK p

theorem fencedContinue_keeps (n : Nat) : Keeps I (fencedContinue n) := by
  have := preserveLeadingTab_keeps (I := I)
  unfold fencedContinue; keeps

theorem fencedClose_keeps (n : Nat) : Keeps I (fencedClose n) := by
  unfold fencedClose; keeps

theorem blockquoteProcess_keeps : Keeps I blockquoteProcess := by
  unfold blockquoteProcess; keeps

theorem blockquoteOpen_keeps (p : Nat) : Keeps I (blockquoteOpen p) := by
  have := blockquoteProcess_keeps (I := I)
  unfold blockquoteOpen; keeps

theorem blockquoteContinue_keeps (n : Nat) : Keeps I (blockquoteContinue n) := by
  have := blockquoteProcess_keeps (I := I)
  unfold blockquoteContinue; keeps

theorem lastOffset_keeps (n : Nat) : Keeps I (lastOffset n) := by
  unfold lastOffset; keeps

theorem lastChildCount_keeps (n : Nat) : Keeps I (lastChildCount n) := by
  unfold lastChildCount; keeps

theorem listOpen_keeps (p : Nat) : Keeps I (listOpen p) := by
  have := lastOpenedBlock_keeps (I := I)
  unfold listOpen; keeps

theorem listContinue_keeps (n : Nat) : Keeps I (listContinue n) := by
  have := lastOpenedBlock_keeps (I := I)
  have := lastOffset_keeps (I := I)
  have := lastChildCount_keeps (I := I)
  unfold listContinue; keeps

theorem tightenItem_keeps (child : Nat) (gcs : List Nat) : Keeps I (tightenItem child gcs) := by
  have := replaceChild_keeps (I := I)
  induction gcs with
  | nil => unfold tightenItem; keeps
  | cons gc gcs ih => unfold tightenItem; keeps

theorem tightenItems_keeps (cs : List Nat) : Keeps I (tightenItems cs) := by
  have := tightenItem_keeps (I := I)
  induction cs with
  | nil => unfold tightenItems; keeps
  | cons c cs ih => unfold tightenItems; keeps

theorem listClose_keeps (n : Nat) : Keeps I (listClose n) := by
  have := tightenItems_keeps (I := I)
  unfold listClose; keeps

theorem listItemOpen_keeps (p : Nat) : Keeps I (listItemOpen p) := by
  have := lastOffset_keeps (I := I)
  unfold listItemOpen; keeps

theorem listItemContinue_keeps (n : Nat) : Keeps I (listItemContinue n) := by
  have := lastOffset_keeps (I := I)
  unfold listItemContinue; keeps

theorem htmlOpen_keeps (p : Nat) : Keeps I (htmlOpen p) := by
  have := lastOpenedBlock_keeps (I := I)
  unfold htmlOpen; keeps

theorem htmlContinue_keeps (n : Nat) : Keeps I (htmlContinue n) := Frame.htmlContinueK n

theorem bpOpen_keeps (bp : BP) (p : Nat) : Keeps I (bpOpen bp p) := by
  cases bp <;> unfold bpOpen
  · exact setextOpen_keeps p
  · exact thematicOpen_keeps p
  · exact listOpen_keeps p
  · exact listItemOpen_keeps p
  · exact codeOpen_keeps p
  · exact atxOpen_keeps p
  · exact fencedOpen_keeps p
  · exact blockquoteOpen_keeps p
  · exact htmlOpen_keeps p
  · exact paragraphOpen_keeps p

theorem bpContinue_keeps (bp : BP) (n : Nat) : Keeps I (bpContinue bp n) := by
  cases bp <;> unfold bpContinue
  · exact Keeps.pure _
  · exact Keeps.pure _
  · exact listContinue_keeps n
  · exact listItemContinue_keeps n
  · exact codeContinue_keeps n
  · exact Keeps.pure _
  · exact fencedContinue_keeps n
  · exact blockquoteContinue_keeps n
  · exact htmlContinue_keeps n
  · exact paragraphContinue_keeps n

theorem bpClose_keeps (bp : BP) (n : Nat) : Keeps I (bpClose bp n) := by
  cases bp <;> unfold bpClose
  · exact setextClose_keeps n
  · exact Keeps.pure _
  · exact listClose_keeps n
  · exact Keeps.pure _
  · exact codeClose_keeps n
  · exact Keeps.pure _
  · exact fencedClose_keeps n
  · exact Keeps.pure _
  · exact Keeps.pure _
  · exact paragraphClose_keeps n

/-! ### the driver with paragraph transformers -/

/-- every transformer of the list keeps the invariant -/
def PTsKeep (I : St → Prop) (pts : List PT) : Prop := ∀ pt ∈ pts, ∀ n, Keeps I (pt n)

theorem transformParagraph_keeps : ∀ (pts : List PT), PTsKeep I pts → ∀ n, Keeps I (transformParagraph pts n)
  | [], _, n => by unfold transformParagraph; keeps
  | pt :: pts, hp, n => by
    have h1 : ∀ n, Keeps I (pt n) := hp pt (List.mem_cons_self ..)
    have h2 := transformParagraph_keeps pts (fun q hq => hp q (List.mem_cons_of_mem _ hq))
    unfold transformParagraph; keeps

theorem toContinuable_keeps (cont : Bool) (result : OpenResult) (lb : Option Block) :
    Keeps I (toContinuable cont result lb) := by
  have := bpContinue_keeps (I := I)
  unfold toContinuable; keeps

section driver
variable {pts : List PT} (hp : PTsKeep I pts)
include hp

theorem closeLoopT_keeps (blocks : List Block) (to : Int) (k : Nat) : Keeps I (closeLoopT pts blocks to k) := by
  have := bpClose_keeps (I := I)
  have := transformParagraph_keeps (I := I) pts hp
  induction k with
  | zero => unfold closeLoopT; keeps
  | succ k ih => unfold closeLoopT; keeps

theorem closeBlocksT_keeps (frm to : Int) : Keeps I (closeBlocksT pts frm to) := by
  have := closeLoopT_keeps (I := I) hp
  unfold closeBlocksT; keeps

theorem requireParaT_keeps (parent : Nat) (last : Option Nat) (lastBlock : Option Block) :
    Keeps I (requireParaT pts parent last lastBlock) := by
  have := bpClose_keeps (I := I)
  have := transformParagraph_keeps (I := I) pts hp
  unfold requireParaT; keeps

theorem tryParsersT_keeps (parent : Nat) (blankLine continuable : Bool) (w : Int) (bps : List BP)
    (result : OpenResult) (lastBlock : Option Block) :
    Keeps I (tryParsersT pts parent blankLine continuable w bps result lastBlock) := by
  have := bpOpen_keeps (I := I)
  have := requireParaT_keeps (I := I) hp
  have := closeBlocksT_keeps (I := I) hp
  have := appendChild_keeps (I := I)
  have := lastOpenedBlock_keeps (I := I)
  induction bps generalizing result lastBlock with
  | nil => unfold tryParsersT; keeps
  | cons bp bps ih => unfold tryParsersT; keeps

theorem retryStepT_keeps (blank tdone cont : Bool) (parent : Nat) (w : Int) (bps : List BP) (result : OpenResult)
    (lb : Option Block) (again : Bool → Bool → Nat → OpenResult → Option Block → M OpenResult)
    (hk : ∀ td c p r l, Keeps I (again td c p r l)) :
    Keeps I (retryStepT pts blank tdone cont parent w bps result lb again) := by
  have := tryParsersT_keeps (I := I) hp
  have := toContinuable_keeps (I := I)
  unfold retryStepT; keeps

theorem openBlocksLoopT_keeps (blank : Bool) : ∀ (fuel : Nat) (tdone cont : Bool) (parent : Nat) (result : OpenResult)
    (lb : Option Block), Keeps I (openBlocksLoopT pts blank fuel tdone cont parent result lb) := by
  intro fuel
  induction fuel with
  | zero => intro _ _ _ _ _; unfold openBlocksLoopT; keeps
  | succ fuel ih =>
    intro tdone cont parent result lb
    have := toContinuable_keeps (I := I)
    have := fun bl td c p w bps r l => retryStepT_keeps (I := I) hp bl td c p w bps r l (openBlocksLoopT pts blank fuel) ih
    unfold openBlocksLoopT; keeps

theorem openBlocksT_keeps (parent : Nat) (blank : Bool) : Keeps I (openBlocksT pts parent blank) := by
  have := lastOpenedBlock_keeps (I := I)
  have := openBlocksLoopT_keeps (I := I) hp
  unfold openBlocksT; keeps

theorem lineLoopT_keeps (parent : Nat) (ob : List Block) (li : Int) (rest : List Block) (i : Int) (bl : List LineStat) :
    Keeps I (lineLoopT pts parent ob li rest i bl) := by
  have := closeBlocksT_keeps (I := I) hp
  have := bpContinue_keeps (I := I)
  have := openBlocksT_keeps (I := I) hp
  induction rest generalizing i bl with
  | nil => unfold lineLoopT; keeps
  | cons be rest ih => unfold lineLoopT; keeps

theorem linesLoopT_keeps (parent : Nat) : ∀ (fuel : Nat) (bl : List LineStat), Keeps I (linesLoopT pts parent fuel bl) := by
  intro fuel
  induction fuel with
  | zero => intro _; unfold linesLoopT; keeps
  | succ fuel ih =>
    intro bl
    have := lineLoopT_keeps (I := I) hp
    unfold linesLoopT; keeps

theorem blocksLoopT_keeps (parent : Nat) : ∀ (fuel : Nat) (bl : List LineStat), Keeps I (blocksLoopT pts parent fuel bl) := by
  intro fuel
  induction fuel with
  | zero => intro _; unfold blocksLoopT; keeps
  | succ fuel ih =>
    intro bl
    have := openBlocksT_keeps (I := I) hp
    have := linesLoopT_keeps (I := I) hp
    unfold blocksLoopT; keeps

theorem parseBlocksT_keeps (parent : Nat) : Keeps I (parseBlocksT pts parent) := by
  have := blocksLoopT_keeps (I := I) hp
  unfold parseBlocksT; keeps

end driver

/-- **generic whole-run theorem**: a frame invariant that holds initially holds of the store the block phase returns, for
    every source and every list of paragraph transformers that keep it -/
theorem runT_keeps {pts : List PT} (hp : PTsKeep I pts) (src : Bytes) (h0 : I (initSt src)) (st : St)
    (h : runT pts src = .ok st) : I st := by
  unfold runT at h
  cases hr : parseBlocksT pts 0 (initSt src) with
  | error e => simp [hr, Except.map] at h
  | ok x =>
    simp only [hr, Except.map, Except.ok.injEq] at h
    subst h
    exact (parseBlocksT_keeps hp 0).h _ x.1 x.2 h0 hr

/-! ### the link-reference paragraph transformer -/

theorem transformFinish_keeps (node : Nat) (n : Node) (removes : List (Int × Int)) (refs : GM.LinkRef.RefMap) :
    Keeps I (GM.LinkRef.transformFinish node n removes refs) := by
  have := replaceChild_keeps (I := I)
  unfold GM.LinkRef.transformFinish; keeps

theorem transform_keeps (node : Nat) : Keeps I (GM.LinkRef.transform node) := by
  have := transformFinish_keeps (I := I)
  unfold GM.LinkRef.transform; keeps

theorem guardedTransform_keeps (node : Nat) : Keeps I (GM.LinkRef.guardedTransform node) := by
  have := transform_keeps (I := I)
  unfold GM.LinkRef.guardedTransform; keeps

end walk

/-! ### instance 1: heading levels -/

instance : Frame0 HeadOK where
  ronly := fun _ _ _ h => h
  mod := fun s id f hf hs => by
    intro n hn
    simp only at hn
    rcases List.mem_or_eq_of_mem_set hn with h1 | h1
    · exact hs n h1
    · subst h1
      have hk := hf (s.nodes.getD id default)
      have hold : HeadP (s.nodes.getD id default) := by
        by_cases hlt : id < s.nodes.length
        · have : s.nodes.getD id default = s.nodes[id] := by simp [List.getD, hlt]
          rw [this]; exact hs _ (List.getElem_mem hlt)
        · have : s.nodes.getD id default = default := by
            simp [List.getD, List.getElem?_eq_none (Nat.le_of_not_lt hlt)]
          rw [this]; exact headP_default
      intro h
      rw [hk.1] at h
      rw [hk.2]
      exact hold h
  new := fun s n hn hs => by
    intro m hm
    simp only [List.mem_append, List.mem_singleton] at hm
    rcases hm with h1 | h1
    · exact hs m h1
    · subst h1; exact hn

theorem headOK_init (src : Bytes) : HeadOK (initSt src) := by
  intro n hn
  simp only [initSt, List.mem_singleton] at hn
  subst hn
  intro h; cases h

/-- **the store the block phase returns has `HeadOK`**, for every source and every list of paragraph transformers
    that keep it -/
theorem runT_headOK {pts : List PT} (hp : PTsKeep HeadOK pts) (src : Bytes) (st : St) (h : runT pts src = .ok st) :
    HeadOK st :=
  runT_keeps hp src (headOK_init src) st h

/-! ### instance 2: node 0 is the Document -/

/-- the store is not empty and its first node is the Document -/
def RootDoc (s : St) : Prop := ∃ d rest, s.nodes = d :: rest ∧ d.kind = .document

instance : Frame0 RootDoc where
  ronly := fun _ _ _ h => h
  mod := fun s id f hf hs => by
    obtain ⟨d, rest, e, hd⟩ := hs
    cases id with
    | zero => exact ⟨f d, rest, by simp [e], by rw [(hf d).1]; exact hd⟩
    | succ k => exact ⟨d, rest.set k (f (s.nodes.getD (k + 1) default)), by simp [e], hd⟩
  new := fun s n _ hs => by
    obtain ⟨d, rest, e, hd⟩ := hs
    exact ⟨d, rest ++ [n], by simp [e], hd⟩

theorem rootDoc_init (src : Bytes) : RootDoc (initSt src) := ⟨_, [], rfl, rfl⟩

theorem runT_rootDoc {pts : List PT} (hp : PTsKeep RootDoc pts) (src : Bytes) (st : St) (h : runT pts src = .ok st) :
    RootDoc st :=
  runT_keeps hp src (rootDoc_init src) st h

end GM.E2E
