/-
  GM.Proof.E2EKeeps — a NODE-LOCAL invariant of the block-phase store, carried through the whole block phase with
  paragraph transformers (`GM.Blocks.runT`, `GM.Convert.blockPhase`) without any precondition on the run:

    `HeadOK s` : every node of the store whose kind is Heading has `1 ≤ Level ≤ 6`.

  A Heading's level is fixed when the node is created — by the ATX parser (atx_heading.go:93-99: `level = i - pos`,
  declined when `i == pos || level > 6`) or the setext parser (setext_headings.go:66-69: 1 or 2) — and no later step of
  the block phase writes a node's kind or level: every `modNode` of the model changes other fields only.

  `Keeps m` ("when `m` answers normally from a store with `HeadOK`, the new store has `HeadOK`") is closed under
  `bind` / `pure` / `if` / `match`, so the proof for a model function is a syntactic walk over its `do` block (tactic
  `keeps`, after GM.Proof.BlocksPres's `pres`). Partial correctness: a Go panic / fuel error satisfies it vacuously.
-/
import GM.Proof.BlocksPres
import GM.Model.Blocks.DriverT
import GM.Model.LinkRef

namespace GM.E2E
open GM GM.Text GM.Blocks

/-- a Heading node has a level the renderer can index `"0123456"` with (and `Spec.Inv` asks for) -/
def HeadP (n : Node) : Prop := n.kind = .heading → 1 ≤ n.level ∧ n.level ≤ 6

/-- the invariant of the block-phase store -/
def HeadOK (s : St) : Prop := ∀ n ∈ s.nodes, HeadP n

/-- `BlockStoreOK` as a Boolean (what a driver / monitor can evaluate on a dumped store) -/
def headOKB (s : St) : Bool :=
  s.nodes.all fun n => n.kind != .heading || (decide (1 ≤ n.level) && decide (n.level ≤ 6))

theorem headOKB_iff (s : St) : headOKB s = true ↔ HeadOK s := by
  unfold headOKB HeadOK HeadP
  rw [List.all_eq_true]
  constructor
  · intro h n hn hk
    have := h n hn
    simp only [hk, bne_self_eq_false, Bool.false_or, Bool.and_eq_true, decide_eq_true_eq] at this
    exact this
  · intro h n hn
    by_cases hk : n.kind = .heading
    · have := h n hn hk
      simp [hk, this.1, this.2]
    · simp [hk]

/-- the node an out-of-range store lookup answers -/
theorem headP_default : HeadP (default : Node) := by
  intro h; cases h

/-- `m` keeps `HeadOK` whenever it answers normally -/
structure Keeps {α : Type} (m : M α) : Prop where
  h : ∀ s a s', HeadOK s → m s = .ok (a, s') → HeadOK s'

theorem Keeps.pure {α} (a : α) : Keeps (pure a : M α) :=
  ⟨fun s a' s' hs h => by cases h; exact hs⟩

theorem Keeps.bind {α β} {m : M α} {f : α → M β} (hm : Keeps m) (hf : ∀ a, Keeps (f a)) : Keeps (m >>= f) := by
  constructor
  intro s b s'' hs h
  simp only [Bind.bind, StateT.bind] at h
  cases hms : m s with
  | error e => rw [hms] at h; simp [Except.bind] at h
  | ok p =>
    rw [hms] at h
    simp only [Except.bind] at h
    exact (hf p.1).h p.2 b s'' (hm.h s p.1 p.2 hs hms) h

theorem Keeps.ite {α} {c : Prop} [Decidable c] {a b : M α} (ha : c → Keeps a) (hb : ¬ c → Keeps b) :
    Keeps (if c then a else b) := by
  split
  · exact ha ‹_›
  · exact hb ‹_›

theorem Keeps.throw {α} (e : Panic) : Keeps (throw e : M α) :=
  ⟨fun _ _ _ _ h => by cases h⟩

/-- a step that leaves the node store alone -/
theorem Keeps.of_nodes {α} {m : M α} (h : ∀ s a s', m s = .ok (a, s') → s'.nodes = s.nodes) : Keeps m :=
  ⟨fun s a s' hs hm => by intro n hn; rw [h s a s' hm] at hn; exact hs n hn⟩

theorem getNode_keeps (id : Nat) : Keeps (getNode id) :=
  Keeps.of_nodes fun _ _ _ h => by cases h; rfl
theorem getPc_keeps : Keeps getPc := Keeps.of_nodes fun _ _ _ h => by cases h; rfl
theorem source_keeps : Keeps source := Keeps.of_nodes fun _ _ _ h => by cases h; rfl
theorem position_keeps : Keeps position := Keeps.of_nodes fun _ _ _ h => by cases h; rfl
theorem get_keeps : Keeps (get : M St) := Keeps.of_nodes fun _ _ _ h => by cases h; rfl
theorem modPc_keeps (f) : Keeps (modPc f) := Keeps.of_nodes fun _ _ _ h => by cases h; rfl
theorem advanceLine_keeps : Keeps advanceLine := Keeps.of_nodes fun _ _ _ h => by cases h; rfl
theorem setPosition_keeps (l : Int) (p : Segment) : Keeps (setPosition l p) :=
  Keeps.of_nodes fun _ _ _ h => by cases h; rfl

theorem liftE_keeps {α} (e : Except Panic α) : Keeps (liftE e) :=
  Keeps.of_nodes fun s a s' h => by
    unfold liftE at h
    cases e with
    | error x => simp [Except.map] at h
    | ok v => simp only [Except.map, Except.ok.injEq, Prod.mk.injEq] at h; rw [h.2]

theorem peekLine_keeps : Keeps peekLine :=
  Keeps.of_nodes fun s a s' h => by
    unfold peekLine at h
    cases hr : s.r.peekLine with
    | error x => simp [hr, bind, Except.bind] at h
    | ok v => simp only [hr, bind, Except.bind, pure, Except.pure, Except.ok.injEq, Prod.mk.injEq] at h; rw [← h.2]

theorem lineOffset_keeps : Keeps lineOffset :=
  Keeps.of_nodes fun s a s' h => by
    unfold lineOffset at h
    cases hr : s.r.lineOffsetOp with
    | error x => simp [hr, bind, Except.bind] at h
    | ok v => simp only [hr, bind, Except.bind, pure, Except.pure, Except.ok.injEq, Prod.mk.injEq] at h; rw [← h.2]

theorem advance_keeps (n : Int) : Keeps (advance n) :=
  Keeps.of_nodes fun s a s' h => by
    unfold advance at h
    cases hr : s.r.advance n with
    | error x => simp [hr, bind, Except.bind] at h
    | ok v => simp only [hr, bind, Except.bind, pure, Except.pure, Except.ok.injEq, Prod.mk.injEq] at h; rw [← h.2]

theorem advanceAndSetPadding_keeps (n p : Int) : Keeps (advanceAndSetPadding n p) :=
  Keeps.of_nodes fun s a s' h => by
    unfold advanceAndSetPadding at h
    cases hr : s.r.advanceAndSetPadding n p with
    | error x => simp [hr, bind, Except.bind] at h
    | ok v => simp only [hr, bind, Except.bind, pure, Except.pure, Except.ok.injEq, Prod.mk.injEq] at h; rw [← h.2]

theorem skipBlankLinesR_keeps : Keeps skipBlankLinesR :=
  Keeps.of_nodes fun s a s' h => by
    unfold skipBlankLinesR at h
    cases hr : skipBlankLines readerOps (loopFuel s.r.source) 0 s.r with
    | error x => simp [hr, bind, Except.bind] at h
    | ok v => simp only [hr, bind, Except.bind, pure, Except.pure, Except.ok.injEq, Prod.mk.injEq] at h; rw [← h.2]

/-- a write to one node that keeps `HeadP` (in the model: every write that leaves kind and level alone) -/
theorem modNode_keeps (id : Nat) (f : Node → Node) (hf : ∀ n, HeadP n → HeadP (f n)) : Keeps (modNode id f) := by
  constructor
  intro s a s' hs h
  cases h
  intro n hn
  simp only at hn
  rcases List.mem_or_eq_of_mem_set hn with h1 | h1
  · exact hs n h1
  · subst h1
    apply hf
    by_cases hlt : id < s.nodes.length
    · have : s.nodes.getD id default = s.nodes[id] := by simp [List.getD, hlt]
      rw [this]; exact hs _ (List.getElem_mem hlt)
    · have : s.nodes.getD id default = default := by
        simp [List.getD, List.getElem?_eq_none (Nat.le_of_not_lt hlt)]
      rw [this]; exact headP_default

/-- a new node that has `HeadP` -/
theorem newNode_keeps (n : Node) (hn : HeadP n) : Keeps (newNode n) := by
  constructor
  intro s a s' hs h
  cases h
  intro m hm
  simp only [List.mem_append, List.mem_singleton] at hm
  rcases hm with h1 | h1
  · exact hs m h1
  · subst h1; exact hn

theorem appendLine_keeps (id : Nat) (seg : Segment) : Keeps (appendLine id seg) :=
  modNode_keeps _ _ fun _ h => h

macro "keeps_step" : tactic =>
  `(tactic| first
    | with_reducible apply Keeps.pure
    | with_reducible apply Keeps.bind
    | with_reducible apply Keeps.ite
    | with_reducible apply Keeps.throw
    | with_reducible apply getNode_keeps
    | with_reducible apply getPc_keeps
    | with_reducible apply source_keeps
    | with_reducible apply position_keeps
    | with_reducible apply get_keeps
    | with_reducible apply modPc_keeps
    | with_reducible apply advanceLine_keeps
    | with_reducible apply setPosition_keeps
    | with_reducible apply liftE_keeps
    | with_reducible apply peekLine_keeps
    | with_reducible apply lineOffset_keeps
    | with_reducible apply advance_keeps
    | with_reducible apply advanceAndSetPadding_keeps
    | with_reducible apply skipBlankLinesR_keeps
    | with_reducible apply appendLine_keeps
    | ((with_reducible apply modNode_keeps); exact fun _ h => h)
    | ((with_reducible apply newNode_keeps); (intro h; cases h; done))
    | apply_hyp
    | intro _
    | split)

/-- walk over an `M` do block -/
macro "keeps" : tactic => `(tactic| repeat' keeps_step)

/-! ### tree surgery -/

theorem lastOpenedBlock_keeps : Keeps lastOpenedBlock := by
  unfold lastOpenedBlock; keeps

theorem removeChild_keeps (p c : Nat) : Keeps (removeChild p c) := by
  unfold removeChild; keeps

theorem ensureIsolated_keeps (c : Nat) : Keeps (ensureIsolated c) := by
  have := removeChild_keeps
  unfold ensureIsolated; keeps

theorem appendChild_keeps (p c : Nat) : Keeps (appendChild p c) := by
  have := ensureIsolated_keeps
  unfold appendChild; keeps

theorem insertBefore_keeps (p : Nat) (v1 : Option Nat) (ins : Nat) : Keeps (insertBefore p v1 ins) := by
  have := ensureIsolated_keeps
  have := appendChild_keeps
  unfold insertBefore; keeps

theorem nextSibling_keeps (c : Nat) : Keeps (nextSibling c) := by
  unfold nextSibling; keeps

theorem insertAfter_keeps (p : Nat) (v1 : Option Nat) (ins : Nat) : Keeps (insertAfter p v1 ins) := by
  have := appendChild_keeps
  have := nextSibling_keeps
  have := insertBefore_keeps
  unfold insertAfter; keeps

theorem replaceChild_keeps (p v1 ins : Nat) : Keeps (replaceChild p v1 ins) := by
  have := insertBefore_keeps
  have := removeChild_keeps
  unfold replaceChild; keeps

/-! ### the ten block parsers -/

theorem paragraphOpen_keeps (p : Nat) : Keeps (paragraphOpen p) := by
  unfold paragraphOpen; keeps

theorem paragraphContinue_keeps (n : Nat) : Keeps (paragraphContinue n) := by
  unfold paragraphContinue; keeps

theorem paragraphClose_keeps (n : Nat) : Keeps (paragraphClose n) := by
  have := removeChild_keeps
  unfold paragraphClose; keeps

theorem thematicOpen_keeps (p : Nat) : Keeps (thematicOpen p) := by
  unfold thematicOpen; keeps

theorem scanWhileEq_ge (line : Bytes) (c : UInt8) (i : Int) (hi : 0 ≤ i) : i ≤ scanWhileEq line c i := by
  unfold scanWhileEq
  split
  · omega
  · omega

theorem atx_level (line : Bytes) (c : UInt8) (pos : Int) (h0 : ¬ pos < 0)
    (h : ¬ ((scanWhileEq line c pos == pos || decide (scanWhileEq line c pos - pos > 6)) = true)) :
    1 ≤ scanWhileEq line c pos - pos ∧ scanWhileEq line c pos - pos ≤ 6 := by
  have hge := scanWhileEq_ge line c pos (by omega)
  simp only [Bool.or_eq_true, beq_iff_eq, decide_eq_true_eq, not_or] at h
  omega

/-- atx_heading.go:93-99: the level is the length of the `#` run, and the parser declines unless it is 1..6 -/
theorem atxOpen_keeps (p : Nat) : Keeps (atxOpen p) := by
  unfold atxOpen
  keeps
  all_goals
    apply newNode_keeps
    intro _
    exact atx_level _ _ _ (by assumption) (by assumption)

/-- setext_headings.go:66-69: level 1 (`=`) or 2 (`-`) -/
theorem setextOpen_keeps (p : Nat) : Keeps (setextOpen p) := by
  have := lastOpenedBlock_keeps
  have hnew : ∀ c : UInt8, Keeps (newNode { kind := .heading, level := if c == 45 then 2 else 1 }) := by
    intro c
    apply newNode_keeps
    intro _
    simp only
    split <;> omega
  unfold setextOpen; keeps

theorem setextClose_keeps (n : Nat) : Keeps (setextClose n) := by
  have := removeChild_keeps
  have := insertAfter_keeps
  have := nextSibling_keeps
  unfold setextClose; keeps

theorem preserveLeadingTab_keeps (seg : Segment) (ind : Int) : Keeps (preserveLeadingTab seg ind) := by
  unfold preserveLeadingTab; keeps

theorem codeTakeLine_keeps (n : Nat) (pos padding : Int) : Keeps (codeTakeLine n pos padding) := by
  have := preserveLeadingTab_keeps
  unfold codeTakeLine; keeps

theorem codeOpen_keeps (p : Nat) : Keeps (codeOpen p) := by
  have := codeTakeLine_keeps
  unfold codeOpen; keeps

theorem codeContinue_keeps (n : Nat) : Keeps (codeContinue n) := by
  have := codeTakeLine_keeps
  unfold codeContinue; keeps

theorem codeClose_keeps (n : Nat) : Keeps (codeClose n) := by
  unfold codeClose; keeps

theorem fencedOpen_keeps (p : Nat) : Keeps (fencedOpen p) := by
  unfold fencedOpen; keeps

theorem fencedContinue_keeps (n : Nat) : Keeps (fencedContinue n) := by
  have := preserveLeadingTab_keeps
  unfold fencedContinue; keeps

theorem fencedClose_keeps (n : Nat) : Keeps (fencedClose n) := by
  unfold fencedClose; keeps

theorem blockquoteProcess_keeps : Keeps blockquoteProcess := by
  unfold blockquoteProcess; keeps

theorem blockquoteOpen_keeps (p : Nat) : Keeps (blockquoteOpen p) := by
  have := blockquoteProcess_keeps
  unfold blockquoteOpen; keeps

theorem blockquoteContinue_keeps (n : Nat) : Keeps (blockquoteContinue n) := by
  have := blockquoteProcess_keeps
  unfold blockquoteContinue; keeps

theorem lastOffset_keeps (n : Nat) : Keeps (lastOffset n) := by
  unfold lastOffset; keeps

theorem lastChildCount_keeps (n : Nat) : Keeps (lastChildCount n) := by
  unfold lastChildCount; keeps

theorem listOpen_keeps (p : Nat) : Keeps (listOpen p) := by
  have := lastOpenedBlock_keeps
  unfold listOpen; keeps

theorem listContinue_keeps (n : Nat) : Keeps (listContinue n) := by
  have := lastOpenedBlock_keeps
  have := lastOffset_keeps
  have := lastChildCount_keeps
  unfold listContinue; keeps

theorem tightenItem_keeps (child : Nat) (gcs : List Nat) : Keeps (tightenItem child gcs) := by
  have := replaceChild_keeps
  induction gcs with
  | nil => unfold tightenItem; keeps
  | cons gc gcs ih => unfold tightenItem; keeps

theorem tightenItems_keeps (cs : List Nat) : Keeps (tightenItems cs) := by
  have := tightenItem_keeps
  induction cs with
  | nil => unfold tightenItems; keeps
  | cons c cs ih => unfold tightenItems; keeps

theorem listClose_keeps (n : Nat) : Keeps (listClose n) := by
  have := tightenItems_keeps
  unfold listClose; keeps

theorem listItemOpen_keeps (p : Nat) : Keeps (listItemOpen p) := by
  have := lastOffset_keeps
  unfold listItemOpen; keeps

theorem listItemContinue_keeps (n : Nat) : Keeps (listItemContinue n) := by
  have := lastOffset_keeps
  unfold listItemContinue; keeps

theorem htmlOpen_keeps (p : Nat) : Keeps (htmlOpen p) := by
  have := lastOpenedBlock_keeps
  unfold htmlOpen; keeps

theorem htmlContinue_keeps (n : Nat) : Keeps (htmlContinue n) := by
  unfold htmlContinue; keeps

theorem bpOpen_keeps (bp : BP) (p : Nat) : Keeps (bpOpen bp p) := by
  cases bp <;> unfold bpOpen
  · exact setextOpen_keeps p
  · exact thematicOpen_keeps p
  · exact listOpen_keeps p
  · exact listItemOpen_keeps p
  · exact codeOpen_keeps p
  · exact atxOpen_keeps p
  · exact fencedOpen_keeps p
  · exact blockquoteOpen_keeps p
  · exact htmlOpen_keeps p
  · exact paragraphOpen_keeps p

theorem bpContinue_keeps (bp : BP) (n : Nat) : Keeps (bpContinue bp n) := by
  cases bp <;> unfold bpContinue
  · exact Keeps.pure _
  · exact Keeps.pure _
  · exact listContinue_keeps n
  · exact listItemContinue_keeps n
  · exact codeContinue_keeps n
  · exact Keeps.pure _
  · exact fencedContinue_keeps n
  · exact blockquoteContinue_keeps n
  · exact htmlContinue_keeps n
  · exact paragraphContinue_keeps n

theorem bpClose_keeps (bp : BP) (n : Nat) : Keeps (bpClose bp n) := by
  cases bp <;> unfold bpClose
  · exact setextClose_keeps n
  · exact Keeps.pure _
  · exact listClose_keeps n
  · exact Keeps.pure _
  · exact codeClose_keeps n
  · exact Keeps.pure _
  · exact fencedClose_keeps n
  · exact Keeps.pure _
  · exact Keeps.pure _
  · exact paragraphClose_keeps n

/-! ### the driver with paragraph transformers -/

/-- every transformer of the list keeps the invariant -/
def PTsKeep (pts : List PT) : Prop := ∀ pt ∈ pts, ∀ n, Keeps (pt n)

theorem transformParagraph_keeps : ∀ (pts : List PT), PTsKeep pts → ∀ n, Keeps (transformParagraph pts n)
  | [], _, n => by unfold transformParagraph; keeps
  | pt :: pts, hp, n => by
    have h1 : ∀ n, Keeps (pt n) := hp pt (List.mem_cons_self ..)
    have h2 := transformParagraph_keeps pts (fun q hq => hp q (List.mem_cons_of_mem _ hq))
    unfold transformParagraph; keeps

theorem toContinuable_keeps (cont : Bool) (result : OpenResult) (lb : Option Block) :
    Keeps (toContinuable cont result lb) := by
  have := bpContinue_keeps
  unfold toContinuable; keeps

section driver
variable {pts : List PT} (hp : PTsKeep pts)
include hp

theorem closeLoopT_keeps (blocks : List Block) (to : Int) (k : Nat) : Keeps (closeLoopT pts blocks to k) := by
  have := bpClose_keeps
  have := transformParagraph_keeps pts hp
  induction k with
  | zero => unfold closeLoopT; keeps
  | succ k ih => unfold closeLoopT; keeps

theorem closeBlocksT_keeps (frm to : Int) : Keeps (closeBlocksT pts frm to) := by
  have := closeLoopT_keeps hp
  unfold closeBlocksT; keeps

theorem requireParaT_keeps (parent : Nat) (last : Option Nat) (lastBlock : Option Block) :
    Keeps (requireParaT pts parent last lastBlock) := by
  have := bpClose_keeps
  have := transformParagraph_keeps pts hp
  unfold requireParaT; keeps

theorem tryParsersT_keeps (parent : Nat) (blankLine continuable : Bool) (w : Int) (bps : List BP)
    (result : OpenResult) (lastBlock : Option Block) :
    Keeps (tryParsersT pts parent blankLine continuable w bps result lastBlock) := by
  have := bpOpen_keeps
  have := requireParaT_keeps hp
  have := closeBlocksT_keeps hp
  have := appendChild_keeps
  have := lastOpenedBlock_keeps
  induction bps generalizing result lastBlock with
  | nil => unfold tryParsersT; keeps
  | cons bp bps ih => unfold tryParsersT; keeps

theorem retryStepT_keeps (blank tdone cont : Bool) (parent : Nat) (w : Int) (bps : List BP) (result : OpenResult)
    (lb : Option Block) (again : Bool → Bool → Nat → OpenResult → Option Block → M OpenResult)
    (hk : ∀ td c p r l, Keeps (again td c p r l)) :
    Keeps (retryStepT pts blank tdone cont parent w bps result lb again) := by
  have := tryParsersT_keeps hp
  have := toContinuable_keeps
  unfold retryStepT; keeps

theorem openBlocksLoopT_keeps (blank : Bool) : ∀ (fuel : Nat) (tdone cont : Bool) (parent : Nat) (result : OpenResult)
    (lb : Option Block), Keeps (openBlocksLoopT pts blank fuel tdone cont parent result lb) := by
  intro fuel
  induction fuel with
  | zero => intro _ _ _ _ _; unfold openBlocksLoopT; keeps
  | succ fuel ih =>
    intro tdone cont parent result lb
    have := toContinuable_keeps
    have := fun bl td c p w bps r l => retryStepT_keeps hp bl td c p w bps r l (openBlocksLoopT pts blank fuel) ih
    unfold openBlocksLoopT; keeps

theorem openBlocksT_keeps (parent : Nat) (blank : Bool) : Keeps (openBlocksT pts parent blank) := by
  have := lastOpenedBlock_keeps
  have := openBlocksLoopT_keeps hp
  unfold openBlocksT; keeps

theorem lineLoopT_keeps (parent : Nat) (ob : List Block) (li : Int) (rest : List Block) (i : Int) (bl : List LineStat) :
    Keeps (lineLoopT pts parent ob li rest i bl) := by
  have := closeBlocksT_keeps hp
  have := bpContinue_keeps
  have := openBlocksT_keeps hp
  induction rest generalizing i bl with
  | nil => unfold lineLoopT; keeps
  | cons be rest ih => unfold lineLoopT; keeps

theorem linesLoopT_keeps (parent : Nat) : ∀ (fuel : Nat) (bl : List LineStat), Keeps (linesLoopT pts parent fuel bl) := by
  intro fuel
  induction fuel with
  | zero => intro _; unfold linesLoopT; keeps
  | succ fuel ih =>
    intro bl
    have := lineLoopT_keeps hp
    unfold linesLoopT; keeps

theorem blocksLoopT_keeps (parent : Nat) : ∀ (fuel : Nat) (bl : List LineStat), Keeps (blocksLoopT pts parent fuel bl) := by
  intro fuel
  induction fuel with
  | zero => intro _; unfold blocksLoopT; keeps
  | succ fuel ih =>
    intro bl
    have := openBlocksT_keeps hp
    have := linesLoopT_keeps hp
    unfold blocksLoopT; keeps

theorem parseBlocksT_keeps (parent : Nat) : Keeps (parseBlocksT pts parent) := by
  have := blocksLoopT_keeps hp
  unfold parseBlocksT; keeps

end driver

theorem headOK_init (src : Bytes) : HeadOK (initSt src) := by
  intro n hn
  simp only [initSt, List.mem_singleton] at hn
  subst hn
  intro h; cases h

/-- **the store the block phase returns has `HeadOK`**, for every source and every list of paragraph transformers
    that keep it -/
theorem runT_headOK {pts : List PT} (hp : PTsKeep pts) (src : Bytes) (st : St) (h : runT pts src = .ok st) :
    HeadOK st := by
  unfold runT at h
  cases hr : parseBlocksT pts 0 (initSt src) with
  | error e => simp [hr, Except.map] at h
  | ok x =>
    simp only [hr, Except.map, Except.ok.injEq] at h
    subst h
    exact (parseBlocksT_keeps hp 0).h _ x.1 x.2 (headOK_init src) hr

/-! ### the link-reference paragraph transformer -/

theorem transformFinish_keeps (node : Nat) (n : Node) (removes : List (Int × Int)) (refs : GM.LinkRef.RefMap) :
    Keeps (GM.LinkRef.transformFinish node n removes refs) := by
  have := replaceChild_keeps
  unfold GM.LinkRef.transformFinish; keeps

theorem transform_keeps (node : Nat) : Keeps (GM.LinkRef.transform node) := by
  have := transformFinish_keeps
  unfold GM.LinkRef.transform; keeps

theorem guardedTransform_keeps (node : Nat) : Keeps (GM.LinkRef.guardedTransform node) := by
  have := transform_keeps
  unfold GM.LinkRef.guardedTransform; keeps

end GM.E2E
