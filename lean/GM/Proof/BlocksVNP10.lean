-- GENERATED from BlocksTNP10.lean by tools/port_blocks_v.py (package headingids): the same proofs for the monitored driver runV. Do not edit.
/-
  GM.Proof.BlocksTNP10 — GM.Proof.BlocksTNP6 (one `openBlocksV` call, list-aware layer) under the WEAKER source condition
  `NoSetextBar src`: no view of a line of the source is a setext heading underline (`matchesSetextHeadingBar` answers
  false everywhere). Then the setext heading parser may be tried (the bytes `-` and `=` are allowed: bullet lists,
  text) but always declines (`setextOpen_bar`, `open_noBar`), so `requireParaV` is never entered, `.retryTransformed` is
  never answered and temporaryParagraphKey stays unset. Same walk as BlocksTNP6 (namespace `GM.Blocks.L.BV`).
-/
import GM.Proof.BlocksVNP3
import GM.Proof.BlocksVNP2
import GM.Proof.BlocksDet

namespace GM.Blocks.L.BV
open GM GM.Text GM.Spec GM.Proof.Reader GM.Blocks.TV

/-- what `tryParsersV` hands back (cf. `L.TPPostL`) -/
def TPPostLT (src : Bytes) (old pre : List Block) (root : Nat) (s0 sb : St) (c : RCur)
    (x : TryOutcomeT × OpenResult × Option Block) (s' : St) : Prop :=
  ∃ c' new', RI src s'.r c' ∧ PadOK c' ∧ c.p ≤ c'.p ∧ WinL src old pre root s0 s' new' ∧
    ((x.2.1 = .noBlocksOpened ∧ new' = [] ∧ x.2.2 = old.getLast?) ∨ (x.2.1 = .newBlocksOpened ∧ new' ≠ [])) ∧
    (∀ k ∈ new', ∀ b ∈ old, CompatT s' k b) ∧ s'.pc.tmpPara = none ∧
    match x.1 with
    | .retry p => (∀ b ∈ new', b.bp.isContainer = true) ∧ p = lastNode root (pre ++ new') ∧
        ((c.p < c'.p ∧ (nd s' p).kind ≠ .list) ∨ (c' = c ∧ DueNew src sb s' c p))
    | .retryTransformed => False
    | .done => Leafy new' ∧ (nd s' (lastNode root (pre ++ new'))).kind ≠ .list

/-- no view of (the rest of) a line of the source is a setext heading underline -/
def NoSetextBar (src : Bytes) : Prop :=
  ∀ (c : RCur) (ch : UInt8), matchesSetextHeadingBar ((RCur.view src c).getD []) ≠ .ok (ch, true)

/-- setextHeadingParser.Open only answers a node on an underline -/
theorem setextOpen_bar (src : Bytes) (parent : Nat) (s : St) (c : RCur) (h : RI src s.r c) (hlt : c.p < src.length) :
    OKL (fun a _ => a.1.isSome = true → ∃ ch, matchesSetextHeadingBar ((RCur.view src c).getD []) = .ok (ch, true))
      (setextOpen parent s) := by
  unfold setextOpen
  have fin : ∀ r1, OKL (fun (a : Option Nat × PState) (_ : St) => a.1.isSome = true →
        ∃ ch, matchesSetextHeadingBar ((RCur.view src c).getD []) = .ok (ch, true))
      (.ok ((none, stNoChildren), { s with r := r1 })) := fun r1 => OKL.ok (fun hh => by cases hh)
  refine OKL.bind (m := lastOpenedBlock) (P := fun v s' => s' = s) (OKL.ok rfl) (fun v s1 hs1 => ?_)
  subst hs1
  cases v with
  | none => exact fin s1.r
  | some lb =>
    simp only
    refine OKL.bind (m := getNode lb.node) (P := fun v s' => s' = s1) (OKL.ok rfl) (fun ln s2 hs2 => ?_)
    subst hs2
    by_cases hg : (ln.kind != Kind.paragraph || ln.parent != some parent) = true
    · rw [if_pos hg]; exact fin s2.r
    · rw [if_neg hg]
      refine OKL.bind (peekLine_okl h) (fun x s3 hx => ?_)
      obtain ⟨hx, r1, hs3, h1⟩ := hx
      subst hx hs3
      simp only
      have hv := view_eq src c hlt
      have hl2 := view_length src c hlt hv
      obtain ⟨v, hm⟩ := matchesSetextHeadingBar_total ((RCur.view src c).getD [])
        (by rw [hv]; simp only [Option.getD_some]; intro e; rw [e] at hl2; simp at hl2)
      refine OKL.bind (liftE_okl (P := fun a s' => a = v ∧ s' = { s2 with r := r1 }) hm ⟨rfl, rfl⟩) (fun a s4 ha => ?_)
      obtain ⟨ha, hs4⟩ := ha
      subst ha hs4
      obtain ⟨ch, ok⟩ := a
      simp only
      by_cases hok : (!ok) = true
      · rw [if_pos hok]; exact fin r1
      · rw [if_neg hok]
        simp only [bind, StateT.bind, newNode, appendLine, modNode, modPc, pure, StateT.pure, Except.bind, Except.pure]
        refine OKL.ok (fun _ => ⟨ch, ?_⟩)
        have : ok = true := by cases ok <;> simp at hok ⊢
        rw [hm, this]


variable {e : Panic} {pts : List PT}

theorem tryTailL_okl {src : Bytes} {old pre : List Block} {root : Nat} {s0 sb : St} {c c' : RCur} (parent id : Nat) (bp : BP)
    (st : PState) (lb0 : Option Block) (s : St) (new : List Block) (hm : MidL src old pre root s0 id bp s new)
    (hq : parent = lastNode root (pre ++ new))
    (hw0 : ∀ b ∈ old, b.node < s0.nodes.length) (hleafy : Leafy old) (hfresh : ∀ b ∈ new, s0.nodes.length ≤ b.node)
    (hallc : ∀ b ∈ new, b.bp.isContainer = true)
    (hri : RI src s.r c') (hpad : PadOK c') (hle : c.p ≤ c'.p)
    (hprog : st.hasChildren = true → (c.p < c'.p ∧ bp ≠ .list) ∨ (c' = c ∧ bp = .list))
    (hkids : st.hasChildren = true → bp.isContainer = true)
    (hP1 : (nd s parent).kind = .list → bp = .listItem) (hP1' : bp = .listItem → (nd s parent).kind = .list)
    (hlistHC : bp = .list → st.hasChildren = true) (hdue : bp = .list → DueFacts src sb c)
    (htmp : s.pc.tmpPara = none) :
    OKE e (TPPostLT src old pre root s0 sb c)
      ((do
        appendChild parent id
        modPc fun pc => { pc with opened := pc.opened ++ [{ node := id, bp := bp }] }
        if st.hasChildren then return (TryOutcomeT.retry id, OpenResult.newBlocksOpened, lb0)
        return (TryOutcomeT.done, OpenResult.newBlocksOpened, lb0) : M _) s) := by
  obtain ⟨hqid, hqlt⟩ := hm.parent_lt
  rw [← hq] at hqid hqlt
  have hidlt : id < s.nodes.length := hm.nb.lt
  simp only [bind, StateT.bind, appendChild_fresh parent id s hm.idpar, Except.bind, modPc, pure, StateT.pure, Except.pure]
  generalize hs1 : (upd (upd s parent fun n => { n with children := n.children ++ [id] }) id
      fun n => { n with parent := some parent }) = s1
  have hf : FrameEq s s1 := by
    rw [← hs1]
    exact (upd_frame s parent (f := fun n => { n with children := n.children ++ [id] }) (fun n => ⟨rfl, rfl, rfl⟩)).trans
      (upd_frame _ id (f := fun n => { n with parent := some parent }) (fun n => ⟨rfl, rfl, rfl⟩))
  have hlen1 : (upd s parent fun n => { n with children := n.children ++ [id] }).nodes.length = s.nodes.length := by
    simp [upd]
  have hnd_id : nd s1 id = { nd s id with parent := some parent } := by
    rw [← hs1, nd_upd, if_pos ⟨rfl, by rw [hlen1]; exact hidlt⟩, nd_upd, if_neg (by intro h; omega)]
  have hnd_q : nd s1 parent = { nd s parent with children := (nd s parent).children ++ [id] } := by
    rw [← hs1, nd_upd, if_neg (by intro h; omega), nd_upd, if_pos ⟨rfl, hqlt⟩]
  have hnd_o : ∀ j, j ≠ id → j ≠ parent → nd s1 j = nd s j := by
    intro j h1 h2
    rw [← hs1, nd_upd, if_neg (by intro h; exact h1 h.1.symm), nd_upd, if_neg (by intro h; exact h2 h.1.symm)]
  have hkind1 : ∀ j, (nd s1 j).kind = (nd s j).kind := fun j => (hf.same j).1
  have hpar1 : ∀ j, j ≠ id → (nd s1 j).parent = (nd s j).parent := by
    intro j hj
    by_cases h2 : j = parent
    · rw [h2, hnd_q]
    · rw [hnd_o j hj h2]
  have hch1 : ∀ j, j ≠ parent → (nd s1 j).children = (nd s j).children := by
    intro j hj
    by_cases h2 : j = id
    · rw [h2, hnd_id]
    · rw [hnd_o j h2 hj]
  have hoff1 : ∀ j, (nd s1 j).offset = (nd s j).offset := by
    intro j
    by_cases h1 : j = id
    · rw [h1, hnd_id]
    · by_cases h2 : j = parent
      · rw [h2, hnd_q]
      · rw [hnd_o j h1 h2]
  -- the final state
  generalize hs2 : ({ r := s1.r, nodes := s1.nodes, pc := { s1.pc with opened := s1.pc.opened ++ [{ node := id, bp := bp }] } } : St) = s2
  have hr2 : s2.r = s.r := by rw [← hs2]; exact hf.r
  have hn2 : s2.nodes = s1.nodes := by rw [← hs2]
  have hop2 : s2.pc.opened = s.pc.opened ++ [{ node := id, bp := bp }] := by rw [← hs2]; simp only; rw [hf.pc]
  have htmp2 : s2.pc.tmpPara = s.pc.tmpPara := by rw [← hs2]; simp only; rw [hf.pc]
  have hfen2 : s2.pc.fence = s.pc.fence := by rw [← hs2]; simp only; rw [hf.pc]
  have hnd2 : ∀ j, nd s2 j = nd s1 j := fun j => by simp only [nd, hn2]
  have hext : Ext s s2 := by
    have := hf.ext
    exact ⟨by rw [hn2]; exact this.len, fun j hj => by rw [hnd2]; exact this.kind j hj,
      fun j hj hk hl => by rw [hnd2]; exact this.linesNE j hj hk hl⟩
  have hnodes2 : NodesOK src s2 := by
    have := hf.nodesOK hm.nodes
    intro n hn; rw [hn2] at hn; exact this n hn
  have hkeys2 : KeysOK s2 := hm.keys.ext hext (.inl htmp2) (.inl hfen2)
  have hbok : ∀ b, BlockOK s b → BlockOK s2 b := fun b hb =>
    hb.ext hext (fun hp => by rw [htmp2]; exact (hb.setext hp).2) (fun hp => by rw [hfen2]; exact hb.fenced hp)
  have hkidq : (nd s parent).kind = .list → (nd s id).kind = .listItem := fun h => by rw [hm.nb.kind, hP1 h]; rfl
  -- the list part of the store
  have hls2 : LStore s2 root := by
    refine ⟨⟨?_, ?_, ?_⟩, ?_, by rw [hnd2, hkind1]; exact hm.ls.rootKind, by rw [hn2, hf.len]; exact hm.ls.rootLt, ?_, ?_⟩
    · intro i lc hk hmem
      rw [hnd2, hkind1] at hk
      rw [hnd2] at hmem
      by_cases hi : i = parent
      · rw [hi, hnd_q] at hmem
        simp only [List.mem_append, List.mem_singleton] at hmem
        rcases hmem with hmem | hmem
        · obtain ⟨a, b⟩ := hm.ls.kids.kids i lc hk (by rw [hi]; exact hmem)
          exact ⟨by rw [hn2, hf.len]; exact a, by rw [hnd2, hkind1]; exact b⟩
        · rw [hmem]
          exact ⟨by rw [hn2, hf.len]; exact hidlt, by rw [hnd2, hkind1]; exact hkidq (hi ▸ hk)⟩
      · rw [hch1 i hi] at hmem
        obtain ⟨a, b⟩ := hm.ls.kids.kids i lc hk hmem
        exact ⟨by rw [hn2, hf.len]; exact a, by rw [hnd2, hkind1]; exact b⟩
    · intro i hk
      rw [hnd2, hkind1] at hk
      rw [hnd2, hoff1]
      exact hm.ls.kids.off i hk
    · intro i p hp hk
      rw [hnd2] at hp
      rw [hnd2, hkind1] at hk ⊢
      by_cases hi : i = id
      · rw [hi, hnd_id] at hp
        simp only [Option.some.injEq] at hp
        rw [← hp] at hk
        rw [hi]; exact hkidq hk
      · rw [hpar1 i hi] at hp
        exact hm.ls.kids.pk i p hp hk
    · intro i p hp
      rw [hnd2] at hp
      rw [hn2, hf.len]
      by_cases hi : i = id
      · rw [hi, hnd_id] at hp
        simp only [Option.some.injEq] at hp
        rw [← hp]; exact hqlt
      · rw [hpar1 i hi] at hp
        exact hm.ls.plt i p hp
    · intro b hb hc
      rw [hop2] at hb
      rw [hnd2]
      rcases List.mem_append.1 hb with hb | hb
      · rw [hpar1 b.node (by have := hm.idgt b hb; omega)]
        exact hm.ls.attached b hb hc
      · simp only [List.mem_singleton] at hb; subst hb
        simp only; rw [hnd_id]; rfl
    · rw [hop2, List.map_append, ← List.cons_append]
      refine List.pairwise_append.2 ⟨hm.ls.incr, by simp, ?_⟩
      intro a ha b hb
      simp only [List.map_cons, List.map_nil, List.mem_singleton] at hb
      subst hb
      simp only [List.mem_cons, List.mem_map] at ha
      rcases ha with rfl | ⟨x, hx, rfl⟩
      · exact hm.rootid
      · exact hm.idgt x hx
  -- the chain
  have hchain2 : ChainedO s2 root (pre ++ (new ++ [{ node := id, bp := bp }])) := by
    rw [← List.append_assoc, chainedO_append]
    constructor
    · have hpw := hm.incr'
      by_cases hne : pre ++ new = []
      · rw [hne]; trivial
      refine chainedO_agree root (pre ++ new) hm.chain (fun a _ => by rw [hnd2, hkind1]) ?_ ?_
      · intro b hb
        rw [hnd2, hpar1 b.node (by have := hm.idgt b (hm.sub b hb); omega)]
      · intro a ha
        rw [hnd2]
        have := pairwise_lt_lastNode root (pre ++ new) hpw hne a ha
        rw [hch1 a (by rw [hq]; omega)]
    · rw [← hq]
      refine ⟨⟨fun hk => ?_, fun hi => ?_⟩, trivial⟩
      · rw [hnd2, hkind1] at hk
        refine ⟨hP1 hk, ?_, ?_⟩
        · simp only; rw [hnd2, hnd_id]
        · rw [hnd2, hnd_q]; simp
      · simp only at hi
        rw [hnd2, hkind1]; exact hP1' hi
  have hwin : WinL src old pre root s0 s2 (new ++ [{ node := id, bp := bp }]) := by
    refine ⟨hnodes2, hkeys2, hm.ext.trans hext, ?_, ?_, hw0, hleafy, ?_, hls2, hchain2, ?_, fun h => absurd h (by simp)⟩
    · rcases hm.shape with h | ⟨h1, h2⟩
      · exact .inl (by rw [hop2, h, List.append_assoc])
      · exact .inr ⟨h1, by simp, by rw [hop2, h2, List.append_assoc]⟩
    · intro b hb
      rw [hop2] at hb
      rcases List.mem_append.1 hb with hb | hb
      · exact hbok b (hm.blocks b hb)
      · simp only [List.mem_singleton] at hb; subst hb; exact hbok _ hm.nb
    · intro b hb
      rcases List.mem_append.1 hb with hb | hb
      · exact hfresh b hb
      · simp only [List.mem_singleton] at hb; subst hb; exact hm.idge
    · obtain ⟨suf, e⟩ := hm.stack
      exact ⟨suf, by rw [hop2, e, List.append_assoc]⟩
  have hcompat : ∀ k ∈ new ++ [{ node := id, bp := bp }], ∀ b ∈ old, CompatT s2 k b := by
    intro k hk b hb
    rcases List.mem_append.1 hk with hk | hk
    · exact CompatT.of_container_left (hallc k hk)
    · simp only [List.mem_singleton] at hk; subst hk
      refine ⟨⟨fun hse => hm.setextOld hse b hb, fun hfe _ f hf2 => ?_⟩, fun _ _ => ?_⟩
      · obtain ⟨f', hf', hfn⟩ := hm.fenceNew hfe
        rw [hfen2, hf'] at hf2
        cases hf2
        have := hw0 b hb
        have := hm.idge
        omega
      · have := hw0 b hb
        have := hm.idge
        simp only; omega
  have hne : new ++ [({ node := id, bp := bp } : Block)] ≠ [] := by simp
  have hlast : lastNode root (pre ++ (new ++ [({ node := id, bp := bp } : Block)])) = id := by
    rw [← List.append_assoc, lastNode_concat]
  by_cases hc : st.hasChildren = true
  · rw [if_pos hc]
    refine OKE.ok ⟨c', _, by rw [hr2]; exact hri, hpad, hle, hwin, .inr ⟨rfl, hne⟩, hcompat, by rw [htmp2]; exact htmp, ?_, hlast.symm, ?_⟩
    · intro b hb
      rcases List.mem_append.1 hb with hb | hb
      · exact hallc b hb
      · simp only [List.mem_singleton] at hb; subst hb; exact hkids hc
    · rcases hprog hc with ⟨h, hbl⟩ | ⟨h1, h2⟩
      · refine .inl ⟨h, ?_⟩
        rw [hnd2, hkind1, hm.nb.kind]
        exact fun hk => hbl (kind_list hk)
      · refine .inr ⟨h1, ?_⟩
        have hd := hdue h2
        refine ⟨by rw [hnd2, hkind1, hm.nb.kind, h2]; rfl, ?_, ⟨⟨id, bp⟩, by rw [hop2]; simp, rfl⟩, hd.m, hd.th, hd.wasNotList⟩
        rw [hnd2, hch1 id (by omega)]
        exact hm.idkids h2
  · rw [if_neg hc]
    refine OKE.ok ⟨c', _, by rw [hr2]; exact hri, hpad, hle, hwin, .inr ⟨rfl, hne⟩, hcompat, by rw [htmp2]; exact htmp, leafy_snoc hallc _, ?_⟩
    rw [hlast, hnd2, hkind1, hm.nb.kind]
    intro hk
    exact hc (hlistHC (kind_list hk))


section tp
variable {src : Bytes} (lsp : LSp src) (hNB : NoSetextBar src)
include lsp hNB

/-- on such a source the setext heading parser never answers a node -/
theorem open_noBar (bp : BP) (parent : Nat) (s : St) (c : RCur) (hc : LineCtx src s c) (hk : KidsOK s) :
    OKL (fun a _ => bp = .setext → a.1.isSome = true → False) (bpOpen bp parent s) := by
  by_cases hb : bp = .setext
  · subst hb
    have := setextOpen_bar src parent s c hc.ri hc.lt
    exact this.mono (fun a _ h _ his => by obtain ⟨ch, e'⟩ := h his; exact hNB c ch e')
  · exact (openAllW lsp bp parent s c hc hk).mono (fun _ _ _ h => absurd h hb)

theorem tryStepL {old pre : List Block} {root : Nat} {s0 sb : St} (cl : Call old pre) (parent : Nat) (blank cont : Bool) (w : Int)
    (bp : BP) (bps : List BP) (result : OpenResult) (lastBlock : Option Block) (s : St) (c : RCur) (new : List Block)
    (hc : LineCtx src s c) (hw : WinL src old pre root s0 s new) (hallc : ∀ b ∈ new, b.bp.isContainer = true)
    (hq : parent = lastNode root (pre ++ new))
    (hres : (result = .noBlocksOpened ∧ new = [] ∧ lastBlock = old.getLast?) ∨ (result = .newBlocksOpened ∧ new ≠ []))
    (hs1 : ¬ (cont && result == OpenResult.noBlocksOpened && !bp.canInterruptParagraph) = true)
    (hs2 : ¬ (decide (w > 3) && !bp.canAcceptIndentedLine) = true)
    (htmp : s.pc.tmpPara = none)
    (hP1 : ∀ a s1, OpenPostW src bp parent s c a s1 → a.1.isSome = true → (nd s parent).kind = .list → bp = .listItem)
    (hdue : ∀ a s1, OpenPostW src bp parent s c a s1 → a.1.isSome = true → bp = .list → DueFacts src sb c)
    (hK : ∀ st s1, OpenPostW src bp parent s c (none, st) s1 → s1.pc.tmpPara = none →
      OKE e (TPPostLT src old pre root s0 sb c) (tryParsersV pts parent blank cont w bps result s.pc.opened.getLast? s1)) :
    OKE e (TPPostLT src old pre root s0 sb c) (tryParsersV pts parent blank cont w (bp :: bps) result lastBlock s) := by
  unfold tryParsersV
  simp only []
  rw [if_neg hs1, if_neg hs2]
  refine OKE.bind (m := lastOpenedBlock) (P := fun lb s1 => lb = s.pc.opened.getLast? ∧ s1 = s) (OKE.ok ⟨rfl, rfl⟩)
    (fun lb0 sx hlb => ?_)
  obtain ⟨hlb0, hsx⟩ := hlb
  subst sx
  refine OKE.bind (OKE.of_okl (OKL.and (openAllW lsp bp parent s c hc hw.ls.kids)
    (open_noBar lsp hNB bp parent s c hc hw.ls.kids))) (fun x s1 hO' => ?_)
  obtain ⟨hO, hbar⟩ := hO'
  obtain ⟨nodeopt, st⟩ := x
  have htmp1 : s1.pc.tmpPara = none := by
    rcases hO.tmp with ⟨h, h2, _⟩ | ⟨_, h⟩
    · exact (hbar h h2).elim
    · rw [h]; exact htmp
  cases nodeopt with
  | none =>
    simp only []
    rw [hlb0]
    exact hK st s1 hO htmp1
  | some id =>
    simp only []
    obtain ⟨hm1, hid, hop1, hnd1, hlen1, hreq⟩ := open_someL hO hw hallc
    obtain ⟨c', hri, hpad, hle, _, hprog⟩ := hO.ri
    have hkids : st.hasChildren = true → bp.isContainer = true := fun h => (hO.kids h).1
    have hparlt : parent < s.nodes.length := by
      rcases lastNode_mem root (pre ++ new) with e | ⟨b, hb, e⟩
      · rw [hq, e]; exact hw.ls.rootLt
      · rw [hq, e]
        obtain ⟨suf, es⟩ := hw.stack
        refine (hw.blocks b ?_).lt
        rw [es]
        rcases List.mem_append.1 hb with h | h
        · exact List.mem_append_left _ (List.mem_append_left _ h)
        · exact List.mem_append_right _ h
    have hP1s : (nd s parent).kind = .list → bp = .listItem := hP1 _ _ hO rfl
    have hP1s' : bp = .listItem → (nd s parent).kind = .list := fun hb => (hO.itemFacts hb).1 rfl
    have hlistHC : bp = .list → st.hasChildren = true := fun hb => (hO.listFacts hb rfl).1
    have hdue' : bp = .list → DueFacts src sb c := hdue _ _ hO rfl
    have hprog' : st.hasChildren = true → (c.p < c'.p ∧ bp ≠ .list) ∨ (c' = c ∧ bp = .list) := fun h => by
      rcases hprog h with h' | ⟨h1, h2⟩
      · exact .inl h'
      · exact .inr ⟨h2, h1⟩
    -- the tail: AppendChild, push
    have tail : ∀ (sX : St) (newX : List Block), MidL src old pre root s0 id bp sX newX → sX.r = s1.r → sX.pc.tmpPara = none →
        (∀ b ∈ newX, s0.nodes.length ≤ b.node) → (∀ b ∈ newX, b.bp.isContainer = true) →
        parent = lastNode root (pre ++ newX) → (nd sX parent).kind = (nd s parent).kind →
        OKE e (TPPostLT src old pre root s0 sb c)
          ((do
            appendChild parent id
            modPc fun pc => { pc with opened := pc.opened ++ [{ node := id, bp := bp }] }
            if st.hasChildren then return (TryOutcomeT.retry id, OpenResult.newBlocksOpened, lb0)
            return (TryOutcomeT.done, OpenResult.newBlocksOpened, lb0) : M _) sX) := by
      intro sX newX hmX hrX htX hfX haX hqX hkX
      exact tryTailL_okl parent id bp st lb0 sX newX hmX hqX hw.oldlt hw.leafyOld hfX haX (by rw [hrX]; exact hri) hpad hle
        hprog' hkids (fun h => hP1s (by rw [← hkX]; exact h)) (fun h => by rw [hkX]; exact hP1s' h) hlistHC hdue' htX
    -- the middle: blank flag, the `last.Parent() == nil` test; `K` = the tail
    have mid : ∀ (K : M (TryOutcomeT × OpenResult × Option Block)),
        (∀ (sX : St) (newX : List Block), MidL src old pre root s0 id bp sX newX → sX.r = s1.r → sX.pc.tmpPara = none →
          (∀ b ∈ newX, s0.nodes.length ≤ b.node) → (∀ b ∈ newX, b.bp.isContainer = true) →
          parent = lastNode root (pre ++ newX) → (nd sX parent).kind = (nd s parent).kind →
          OKE e (TPPostLT src old pre root s0 sb c) (K sX)) →
        ∀ (sX : St), MidL src old pre root s0 id bp sX new → sX.r = s1.r → sX.pc.tmpPara = none → (nd sX parent).kind = (nd s parent).kind →
        (∀ lb, lb0 = some lb → (nd sX lb.node).parent.isSome = true ∨
            (new = [] ∧ sX.pc.opened = old ∧ old.getLast? = some lb)) →
        OKE e (TPPostLT src old pre root s0 sb c)
          ((modNode id (fun n => { n with blankPrev := blank }) >>= fun _ =>
            match Option.map (fun x => x.node) lb0 with
            | some l => getNode l >>= fun n =>
                if n.parent.isNone = true then
                  getPc >>= fun pc =>
                    closeBlocksV pts ((pc.opened.length : Int) - 1) ((pc.opened.length : Int) - 1) >>= fun _ => K
                else K
            | none => K) sX) := by
      intro K hK sX hmX hrX htX hkX hcase
      have hfr : FrameEq sX (upd sX id fun n => { n with blankPrev := blank }) :=
        upd_frame sX id (f := fun n => { n with blankPrev := blank }) (fun n => ⟨rfl, rfl, rfl⟩)
      have hts : TreeSame sX (upd sX id fun n => { n with blankPrev := blank }) :=
        upd_treeSame sX id (f := fun n => { n with blankPrev := blank }) (fun n => ⟨rfl, rfl, rfl, rfl⟩)
      have hm3 := hmX.same hfr.ext (hfr.nodesOK hmX.nodes) hts (by rw [hfr.pc]) (by rw [hfr.pc]) (by rw [hfr.pc])
      have hpar3 : ∀ j, (nd (upd sX id fun n => { n with blankPrev := blank }) j).parent = (nd sX j).parent :=
        fun j => (hts.same j).2.1
      have hk3 : (nd (upd sX id fun n => { n with blankPrev := blank }) parent).kind = (nd s parent).kind := by
        rw [(hts.same parent).1]; exact hkX
      refine OKE.bind (m := modNode id fun n => { n with blankPrev := blank })
        (P := fun _ s3 => s3 = upd sX id fun n => { n with blankPrev := blank }) (OKE.ok rfl) (fun _ s3 h3 => ?_)
      subst h3
      cases hl : lb0 with
      | none => exact hK _ new hm3 (by rw [hfr.r, hrX]) (by rw [hfr.pc]; exact htX) hw.fresh hallc hq hk3
      | some lb =>
        simp only [Option.map]
        refine OKE.bind (m := getNode lb.node)
          (P := fun n s4 => n = nd (upd sX id fun n => { n with blankPrev := blank }) lb.node ∧
            s4 = upd sX id fun n => { n with blankPrev := blank }) (OKE.ok ⟨rfl, rfl⟩) (fun n s4 h4 => ?_)
        obtain ⟨h4n, h4s⟩ := h4
        subst h4n h4s
        by_cases hnn : (nd (upd sX id fun n => { n with blankPrev := blank }) lb.node).parent.isNone = true
        · rw [if_pos hnn]
          rcases hcase lb hl with hsome | ⟨hnew, hopX, hlast⟩
          · exfalso
            rw [hpar3] at hnn
            cases hh : (nd sX lb.node).parent with
            | none => rw [hh] at hsome; cases hsome
            | some _ => rw [hh] at hnn; cases hnn
          · refine OKE.bind (m := getPc)
              (P := fun pc s5 => pc = (upd sX id fun n => { n with blankPrev := blank }).pc ∧
                s5 = upd sX id fun n => { n with blankPrev := blank }) (OKE.ok ⟨rfl, rfl⟩) (fun pc s5 h5 => ?_)
            obtain ⟨h5p, h5s⟩ := h5
            subst h5p h5s
            have hop3 : (upd sX id fun n => { n with blankPrev := blank }).pc.opened = old.dropLast ++ [lb] := by
              rw [hfr.pc, hopX]; exact eq_dropLast_append_of_getLast? old lb hlast
            have hp3 : (nd (upd sX id fun n => { n with blankPrev := blank }) lb.node).parent.isSome = false := by
              cases hh : (nd (upd sX id fun n => { n with blankPrev := blank }) lb.node).parent with
              | none => rfl
              | some _ => rw [hh] at hnn; cases hnn
            subst hnew
            have hne : old ≠ [] := by intro h; rw [h] at hlast; cases hlast
            -- the popped block is not a container (it has no parent), so it is not the last block of `pre`
            have hsufne : ∃ suf, old = pre ++ suf ∧ suf ≠ [] := by
              obtain ⟨suf0, e0, h0⟩ := cl.pref
              refine ⟨suf0, e0, fun hs => ?_⟩
              have hcont := h0 hs lb hlast
              have hmem : lb ∈ sX.pc.opened := by rw [hopX]; exact List.mem_of_getLast? hlast
              have := hmX.ls.attached lb hmem hcont
              rw [← hpar3] at this
              rw [this] at hp3; cases hp3
            have hm4 := hm3.pop (by rw [hfr.pc, hopX]) hne hsufne
            refine OKE.bind (P := fun _ s6 => s6 = { (upd sX id fun n => { n with blankPrev := blank }) with
                pc := { (upd sX id fun n => { n with blankPrev := blank }).pc with opened := old.dropLast } })
              (by rw [closeBlocksV_last_skip pts old.dropLast lb _ hop3 hp3]; exact OKE.ok rfl) (fun _ s6 h6 => ?_)
            subst h6
            exact hK _ [] hm4 (by simp only; rw [hfr.r, hrX]) (by simp only; rw [hfr.pc]; exact htX) (fun _ h => by cases h) (fun _ h => by cases h) hq hk3
        · rw [if_neg hnn]
          exact hK _ new hm3 (by rw [hfr.r, hrX]) (by rw [hfr.pc]; exact htX) hw.fresh hallc hq hk3
    -- the `last` of the non-RequireParagraph path
    have hcase1 : ∀ lb, lb0 = some lb → (nd s1 lb.node).parent.isSome = true ∨
        (new = [] ∧ s1.pc.opened = old ∧ old.getLast? = some lb) := by
      intro lb hl
      by_cases hnew : new = []
      · right
        have hop : s.pc.opened = old := by
          rcases hw.shape with h | ⟨_, h, _⟩
          · rw [h, hnew, List.append_nil]
          · exact absurd hnew h
        exact ⟨hnew, by rw [hop1, hop], by rw [← hop, ← hlb0, hl]⟩
      · left
        have hlast : new.getLast? = some lb := by
          have : s.pc.opened.getLast? = new.getLast? := by
            cases hne : new.getLast? with
            | none => exact absurd (List.getLast?_eq_none_iff.1 hne) hnew
            | some x => rcases hw.shape with h | ⟨_, _, h⟩ <;> rw [h, List.getLast?_append, hne] <;> rfl
          rw [← this, ← hlb0, hl]
        have hmem : lb ∈ s.pc.opened := by
          rcases hw.shape with h | ⟨_, _, h⟩ <;> rw [h] <;> exact List.mem_append_right _ (List.mem_of_getLast? hlast)
        rw [hnd1 _ (hw.blocks lb hmem).lt]
        exact hw.ls.attached lb hmem (hallc lb (List.mem_of_getLast? hlast))
    have hk1 : (nd s1 parent).kind = (nd s parent).kind := by rw [hnd1 _ hparlt]
    by_cases hrq : st.requirePara = true
    · exact (hbar (hO.req hrq).1 (hO.req hrq).2).elim
    · rw [if_neg hrq]
      simp only [pure_bind, Bool.false_eq_true, if_false]
      exact mid _ tail s1 hm1 rfl htmp1 hk1 hcase1

theorem tryParsersL {old pre : List Block} {root : Nat} {s0 sb : St} (cl : Call old pre) (parent : Nat) (blank cont : Bool)
    (w : Int) (c : RCur) (bpsAll : List BP)
    (hstruct : BP.list ∈ bpsAll → ∃ pre0, bpsAll = pre0 ++ [BP.list, BP.listItem] ++ freeParsers ∧
      ∀ q ∈ pre0, q = BP.setext ∨ q = BP.thematic)
    (htrig : ∀ (ch : UInt8) (l : List BP),
      (lineOf src c)[(indentWidthI (lineOf src c) (loVal src c)).2.toNat]? = some ch → triggered ch = some l → BP.list ∈ bpsAll →
      l = bpsAll) :
    ∀ (bps tried : List BP), tried ++ bps = bpsAll → ∀ (result : OpenResult) (lastBlock : Option Block) (s : St)
      (new : List Block), LineCtx src s c → WinL src old pre root s0 s new → s.pc.tmpPara = none → (∀ b ∈ new, b.bp.isContainer = true) →
      parent = lastNode root (pre ++ new) →
      ((result = .noBlocksOpened ∧ new = [] ∧ lastBlock = old.getLast?) ∨ (result = .newBlocksOpened ∧ new ≠ [])) →
      (nd s parent).kind ≠ .list → s.nodes = sb.nodes → s.pc.opened = sb.pc.opened →
      (BP.thematic ∈ tried → w > 3 ∨ TH src c) →
      OKE e (TPPostLT src old pre root s0 sb c) (tryParsersV pts parent blank cont w bps result lastBlock s) := by
  intro bps
  induction bps with
  | nil =>
    intro tried _ result lastBlock s new hc hw htmp hallc hq hres hpk _ _ _
    unfold tryParsersV
    exact OKE.ok ⟨c, new, hc.ri, hc.pad, Nat.le_refl _, hw, hres, fun k hk b _ => CompatT.of_container_left (hallc k hk),
      htmp, leafy_of_all hallc, by rw [← hq]; exact hpk⟩
  | cons bp bps ih =>
    intro tried htr result lastBlock s new hc hw htmp hallc hq hres hpk hsn hso hacc
    have ihn := ih (tried ++ [bp]) (by rw [List.append_assoc]; exact htr)
    by_cases hs1 : (cont && result == OpenResult.noBlocksOpened && !bp.canInterruptParagraph) = true
    · unfold tryParsersV
      simp only []
      rw [if_pos hs1]
      refine ihn result lastBlock s new hc hw htmp hallc hq hres hpk hsn hso (fun hth => ?_)
      rcases List.mem_append.1 hth with h | h
      · exact hacc h
      · simp only [List.mem_singleton] at h
        rw [← h] at hs1
        simp [BP.canInterruptParagraph] at hs1
    by_cases hs2 : (decide (w > 3) && !bp.canAcceptIndentedLine) = true
    · unfold tryParsersV
      simp only []
      rw [if_neg hs1, if_pos hs2]
      refine ihn result lastBlock s new hc hw htmp hallc hq hres hpk hsn hso (fun hth => ?_)
      rcases List.mem_append.1 hth with h | h
      · exact hacc h
      · left
        simp only [Bool.and_eq_true, decide_eq_true_eq] at hs2
        exact hs2.1
    refine tryStepL lsp hNB cl parent blank cont w bp bps result lastBlock s c new hc hw hallc hq hres hs1 hs2
      htmp
      (fun _ _ _ _ hk => absurd hk hpk) ?_ ?_
    · -- a list opened: what the next `goto retry` needs
      intro a s1 hO his hbl
      subst hbl
      obtain ⟨_, _, hm, hnl⟩ := hO.listFacts rfl his
      refine ⟨hm, ?_, ?_⟩
      · intro ch l pre' rest' hch htg hl hpre' hth
        have hlmem : BP.list ∈ bpsAll := by rw [← htr]; simp
        have hlb := htrig ch l hch htg hlmem
        obtain ⟨pre0, hp0, hq0⟩ := hstruct hlmem
        have hn0 : BP.list ∉ pre0 := fun hh => by rcases hq0 _ hh with h | h <;> cases h
        have hn' : BP.list ∉ pre' := fun hh => by rcases hpre' _ hh with h | h <;> cases h
        have e1 : pre' = pre0 := by
          refine append_cons_unique BP.list pre' pre0 rest' ([BP.listItem] ++ freeParsers) ?_ hn' hn0
          rw [← hl, hlb, hp0]; simp
        -- `tried` is that prefix, too
        have hnt : BP.list ∉ tried := by
          intro hh
          have hcount : (tried ++ BP.list :: bps).count BP.list = (pre0 ++ [BP.list, BP.listItem] ++ freeParsers).count BP.list := by
            rw [htr, hp0]
          rw [List.count_append, List.count_cons_self, List.count_append, List.count_append,
            List.count_eq_zero_of_not_mem hn0] at hcount
          have h1 : 0 < tried.count BP.list := List.count_pos_iff.2 hh
          have h2 : ([BP.list, BP.listItem] : List BP).count BP.list = 1 := by decide
          have h3 : freeParsers.count BP.list = 0 := by decide
          omega
        have e2 : tried = pre0 := by
          refine append_cons_unique BP.list tried pre0 bps ([BP.listItem] ++ freeParsers) ?_ hnt hn0
          rw [htr, hp0]; simp
        rw [e1, ← e2] at hth
        rcases hacc hth with h | h
        · exfalso
          apply hs2
          simp [BP.canAcceptIndentedLine, h]
        · exact h
      · unfold lastIsList
        rw [← hsn, ← hso]
        cases hl : s.pc.opened.getLast? with
        | none => rfl
        | some lb =>
          rw [hl] at hnl
          simp only at hnl ⊢
          simpa [nd] using hnl
    · -- the parser declined
      intro st s1 hO htmp1
      obtain ⟨hc1, hw1, ho1, hn1⟩ := open_noneL hO hc hw hallc
      have hlbold : result = .noBlocksOpened → s.pc.opened.getLast? = old.getLast? := by
        intro hr
        rcases hres with ⟨_, hn, _⟩ | ⟨h, _⟩
        · rcases hw.shape with h | ⟨_, h, _⟩
          · rw [h, hn, List.append_nil]
          · exact absurd hn h
        · rw [hr] at h; cases h
      refine ihn result _ s1 new hc1 hw1 htmp1 hallc hq ?_ (by rw [nd_eq_of_nodes_eq hn1]; exact hpk) (by rw [hn1, hsn])
        (by rw [ho1, hso]) (fun hth => ?_)
      · rcases hres with ⟨h1, h2, _⟩ | h
        · exact .inl ⟨h1, h2, hlbold h1⟩
        · exact .inr h
      · rcases List.mem_append.1 hth with h | h
        · exact hacc h
        · simp only [List.mem_singleton] at h
          right
          have := hO.thematic h.symm
          simpa using this.symm



theorem tryItemL {old pre : List Block} {root : Nat} {s0 sb : St} (cl : Call old pre) (parent : Nat) (blank cont : Bool)
    (w : Int) (c : RCur) (pre0 : List BP) (hpre0 : ∀ q ∈ pre0, q = BP.setext ∨ q = BP.thematic) (ch : UInt8)
    (hch : (lineOf src c)[(indentWidthI (lineOf src c) (loVal src c)).2.toNat]? = some ch)
    (htg : triggered ch = some (pre0 ++ [BP.list, BP.listItem] ++ freeParsers)) (hw3 : ¬ w > 3) :
    ∀ (todo done : List BP), done ++ todo = pre0 → ∀ (result : OpenResult) (lastBlock : Option Block) (s : St)
      (new : List Block), LineCtx src s c → WinL src old pre root s0 s new → s.pc.tmpPara = none → (∀ b ∈ new, b.bp.isContainer = true) →
      parent = lastNode root (pre ++ new) →
      ((result = .noBlocksOpened ∧ new = [] ∧ lastBlock = old.getLast?) ∨ (result = .newBlocksOpened ∧ new ≠ [])) →
      Due src s c parent →
      OKE e (TPPostLT src old pre root s0 sb c)
        (tryParsersV pts parent blank cont w (todo ++ [BP.list, BP.listItem] ++ freeParsers) result lastBlock s) := by
  have hns2 : ∀ bp : BP, ¬ (decide (w > 3) && !bp.canAcceptIndentedLine) = true := by
    intro bp h; simp only [Bool.and_eq_true, decide_eq_true_eq] at h; exact hw3 h.1
  have hlbold : ∀ (result : OpenResult) (s : St) (new : List Block), WinL src old pre root s0 s new →
      ((result = .noBlocksOpened ∧ new = [] ∧ True) ∨ (result = .newBlocksOpened ∧ new ≠ [])) →
      result = .noBlocksOpened → s.pc.opened.getLast? = old.getLast? := by
    intro result s new hw hres hr
    rcases hres with ⟨_, hn, _⟩ | ⟨h, _⟩
    · rcases hw.shape with h | ⟨_, h, _⟩
      · rw [h, hn, List.append_nil]
      · exact absurd hn h
    · rw [hr] at h; cases h
  have hres' : ∀ (result : OpenResult) (lastBlock : Option Block) (s : St) (new : List Block), WinL src old pre root s0 s new →
      ((result = .noBlocksOpened ∧ new = [] ∧ lastBlock = old.getLast?) ∨ (result = .newBlocksOpened ∧ new ≠ [])) →
      ((result = .noBlocksOpened ∧ new = [] ∧ s.pc.opened.getLast? = old.getLast?) ∨ (result = .newBlocksOpened ∧ new ≠ [])) := by
    intro result lastBlock s new hw hres
    rcases hres with ⟨h1, h2, h3⟩ | h
    · exact .inl ⟨h1, h2, hlbold result s new hw (.inl ⟨h1, h2, trivial⟩) h1⟩
    · exact .inr h
  intro todo
  induction todo with
  | nil =>
    intro done _ result lastBlock s new hc hw htmp hallc hq hres hdue
    simp only [List.nil_append, List.cons_append]
    -- listParser.Open declines
    refine tryStepL lsp hNB cl parent blank cont w .list _ result lastBlock s c new hc hw hallc hq hres
      (by simp [BP.canInterruptParagraph]) (hns2 _) htmp ?_ ?_ ?_
    · intro a s1 hO his _
      exfalso
      obtain ⟨_, hsk, _, hnl⟩ := hO.listFacts rfl his
      rcases hdue.nl with h | ⟨lb, h1, h2⟩
      · rw [hsk] at h; cases h
      · rw [h1] at hnl; exact hnl h2
    · intro a s1 hO his _
      exfalso
      obtain ⟨_, hsk, _, hnl⟩ := hO.listFacts rfl his
      rcases hdue.nl with h | ⟨lb, h1, h2⟩
      · rw [hsk] at h; cases h
      · rw [h1] at hnl; exact hnl h2
    · intro st s1 hO htmp1
      obtain ⟨hc1, hw1, ho1, hn1⟩ := open_noneL hO hc hw hallc
      -- listItemParser.Open opens
      refine tryStepL lsp hNB cl parent blank cont w .listItem _ result _ s1 c new hc1 hw1 hallc hq
        (by rw [← ho1]; exact hres' result lastBlock s1 new hw1 (by
          rcases hres with ⟨h1, h2, h3⟩ | h
          · exact .inl ⟨h1, h2, h3⟩
          · exact .inr h))
        (by simp [BP.canInterruptParagraph]) (hns2 _) htmp1 (fun _ _ _ _ _ => rfl) (fun _ _ _ _ h => by cases h) ?_
      intro st2 s2 hO2 _
      exfalso
      have hk1 : (nd s1 parent).kind = .list := by rw [nd_eq_of_nodes_eq hn1]; exact hdue.kind
      have := (hO2.itemFacts rfl).2.2 hk1 (fun m typ he => by
        have : li_lastOff s1 parent = li_lastOff s parent := by unfold li_lastOff; simp only [nd_eq_of_nodes_eq hn1]
        rw [this]; exact hdue.m m typ he)
      cases this
  | cons q todo ih =>
    intro done hd result lastBlock s new hc hw htmp hallc hq hres hdue
    have hqm : q ∈ pre0 := by rw [← hd]; simp
    have hcan : q.canInterruptParagraph = true := by rcases hpre0 q hqm with h | h <;> rw [h] <;> rfl
    have hnone : ∀ a s1, OpenPostW src q parent s c a s1 → a.1.isSome = true → False := by
      intro a s1 hO his
      rcases hpre0 q hqm with h | h
      · subst h
        rcases hO.tmp with ⟨_, _, lb, h1, h2, h3, _⟩ | ⟨h', _⟩
        · have := hw.ls.kids.pk lb.node parent h3 hdue.kind
          rw [h2] at this; cases this
        · rcases h' with h' | h'
          · exact h' rfl
          · rw [h'] at his; cases his
      · subst h
        have h1 := hO.thematic rfl
        have h2 := hdue.th ch _ pre0 ([BP.listItem] ++ freeParsers) hch htg (by simp) hpre0 hqm
        rw [h2] at h1; rw [h1] at his; cases his
    simp only [List.cons_append]
    refine tryStepL lsp hNB cl parent blank cont w q _ result lastBlock s c new hc hw hallc hq hres
      (by simp [hcan]) (hns2 _) htmp (fun a s1 hO his _ => (hnone a s1 hO his).elim) (fun a s1 hO his _ => (hnone a s1 hO his).elim) ?_
    intro st s1 hO htmp1
    obtain ⟨hc1, hw1, ho1, hn1⟩ := open_noneL hO hc hw hallc
    have hpc1 : s1.pc = s.pc := hO.keepPc (by rcases hpre0 q hqm with h | h; exact .inl h; exact .inr h) rfl
    have := ih (done ++ [q]) (by rw [List.append_assoc]; exact hd) result s.pc.opened.getLast? s1 new hc1 hw1 htmp1 hallc hq
      (hres' result lastBlock s new hw hres) (hdue.congr hn1 hpc1)
    simpa only [List.append_assoc] using this


end tp

/-- what `openBlocksV` hands back (cf. `L.OBPostL`) -/
def OBPostLT (src : Bytes) (old pre : List Block) (root : Nat) (s0 : St) (c : RCur) (res : OpenResult) (s' : St) : Prop :=
  ∃ c' new', RIa src s'.r c' ∧ c.p ≤ c'.p ∧ WinL src old pre root s0 s' new' ∧ Leafy new' ∧
    (∀ k ∈ new', ∀ b ∈ old, CompatT s' k b) ∧ (res = .paragraphContinuation → new' = []) ∧
    (nd s' (lastNode root (pre ++ new'))).kind ≠ .list ∧ (new' = [] → TreeSame s0 s') ∧ s'.pc.tmpPara = none

/-- the state invariant at line boundaries (cf. `L.StableL`); the temporary paragraph key is unset -/
structure StableLT (src : Bytes) (root : Nat) (s : St) : Prop where
  nodes : NodesOK src s
  keys : KeysOK s
  blocks : ∀ b ∈ s.pc.opened, BlockOK s b
  leafy : Leafy s.pc.opened
  ls : LStore s root
  chain : ChainedO s root s.pc.opened
  endOK : (nd s (lastNode root s.pc.opened)).kind ≠ .list
  tmp : s.pc.tmpPara = none

section tp2
variable {src : Bytes} (lsp : LSp src) (hNB : NoSetextBar src)
include lsp

theorem toContinuableL {old pre : List Block} {root : Nat} {s0 : St} (cont : Bool) (result : OpenResult)
    (lastBlock : Option Block) (s : St) (c c0 : RCur) (new : List Block) (hri : RI src s.r c) (hpad : PadOK c)
    (hle : c0.p ≤ c.p) (hw : WinL src old pre root s0 s new) (hleafy : Leafy new)
    (hcompat : ∀ k ∈ new, ∀ b ∈ old, CompatT s k b)
    (hres : (result = .noBlocksOpened ∧ new = [] ∧ lastBlock = old.getLast?) ∨ (result = .newBlocksOpened ∧ new ≠ []))
    (hcont : cont = true → ∃ lb, old.getLast? = some lb ∧ lb.bp = .paragraph)
    (hend : (nd s (lastNode root (pre ++ new))).kind ≠ .list) (hplt : lastNode root (pre ++ new) < s.nodes.length)
    (htmp : s.pc.tmpPara = none) :
    OKE e (OBPostLT src old pre root s0 c0) (toContinuable cont result lastBlock s) := by
  unfold toContinuable
  have fin : OKE e (OBPostLT src old pre root s0 c0) ((pure result : M OpenResult) s) := by
    refine OKE.ok ⟨c, new, hri.toRIa, hle, hw, hleafy, hcompat, fun h => ?_, hend, hw.tsame, htmp⟩
    rcases hres with ⟨h', _⟩ | ⟨h', _⟩ <;> rw [h'] at h <;> cases h
  by_cases hc : (result == OpenResult.noBlocksOpened && cont) = true
  · rw [if_pos hc]
    simp only [Bool.and_eq_true, beq_iff_eq] at hc
    obtain ⟨hr, hct⟩ := hc
    obtain ⟨lb, hlast, hbp⟩ := hcont hct
    rcases hres with ⟨_, hnew, hlb⟩ | ⟨h', _⟩
    · subst hnew
      rw [hlb, hlast]
      simp only []
      have hop : s.pc.opened = old := by
        rcases hw.shape with h | ⟨_, h, _⟩
        · rw [h, List.append_nil]
        · exact absurd rfl h
      have hmem : lb ∈ s.pc.opened := by rw [hop]; exact List.mem_of_getLast? hlast
      obtain ⟨lnode, lbp⟩ := lb
      simp only at hbp
      subst hbp
      have hpc := paragraphContinue_spec' src lnode s c hri hpad hw.nodes hw.keys (hw.blocks _ hmem)
      have hpc' : OKL (fun st s1 => ContPost src .paragraph s c st s1 ∧ TreeSame s s1) (bpContinue .paragraph lnode s) := by
        rcases hpc with ⟨a, s1, e1, h1⟩ | e1
        · exact .inl ⟨a, s1, e1, h1, lsp.contTS .paragraph lnode s a s1 e1⟩
        · exact .inr e1
      refine OKE.bind (m := bpContinue .paragraph lnode) (OKE.of_okl hpc') (fun st s1 h1 => ?_)
      obtain ⟨h1, hts⟩ := h1
      obtain ⟨c1, hria, _, hle1, _, _⟩ := h1.ria
      have hwin : WinL src old pre root s0 s1 [] :=
        hw.same h1.ext h1.nodes hts (by rw [h1.pc]) (by rw [h1.pc]) (by rw [h1.pc])
      have fin' : ∀ r : OpenResult, OKE e (OBPostLT src old pre root s0 c0) ((pure r : M OpenResult) s1) := fun r =>
        OKE.ok ⟨c1, [], hria, Nat.le_trans hle hle1, hwin, by intro b hb; simp at hb, by simp, fun _ => rfl,
          by rw [(hts.same _).1]; exact hend, hwin.tsame, by rw [h1.pc]; exact htmp⟩
      by_cases hst : st.cont = true
      · rw [if_pos hst]; exact fin' _
      · rw [if_neg hst]; exact fin' _
    · rw [hr] at h'; cases h'
  · rw [if_neg hc]; exact fin



include hNB

theorem openBlocksLoopL {old pre : List Block} {root : Nat} {s0 : St} {c0 : RCur} (cl : Call old pre)
    (blank cont : Bool) (hcont : cont = true → ∃ lb, old.getLast? = some lb ∧ lb.bp = .paragraph) :
    ∀ (fuel : Nat) (tdone : Bool) (parent : Nat) (result : OpenResult) (lb : Option Block) (s : St) (c : RCur) (new : List Block),
      RI src s.r c → PadOK c → c0.p ≤ c.p → WinL src old pre root s0 s new → s.pc.tmpPara = none → (∀ b ∈ new, b.bp.isContainer = true) →
      parent = lastNode root (pre ++ new) →
      ((result = .noBlocksOpened ∧ new = [] ∧ lb = old.getLast?) ∨ (result = .newBlocksOpened ∧ new ≠ [])) →
      ((nd s parent).kind = .list → Due src s c parent) →
      OKE e (OBPostLT src old pre root s0 c0) (openBlocksLoopV pts blank fuel tdone cont parent result lb s) := by
  intro fuel
  induction fuel with
  | zero => intro _ _ _ _ _ _ _ _ _ _ _ _ _ _ _ _; exact .inl (.inr rfl)
  | succ fuel ih =>
    intro tdone parent result lb s c new hri hpad hle hw htmp hallc hq hres hmode
    have hcompat0 : ∀ (sX : St), ∀ k ∈ new, ∀ b ∈ old, CompatT sX k b :=
      fun _ k hk _ _ => CompatT.of_container_left (hallc k hk)
    unfold openBlocksLoopV
    refine OKE.bind (OKE.of_okl (peekLine_okl hri)) (fun x s1 hx => ?_)
    obtain ⟨hx, r1, hs1, h1⟩ := hx
    subst hx hs1
    simp only
    refine OKE.bind (OKE.of_okl (lineOffset_okl (s := { s with r := r1 }) h1)) (fun lo s2 hlo => ?_)
    obtain ⟨hlo, r2, hs2, h2⟩ := hlo
    subst hs2
    generalize hline : (RCur.view src c).getD [] = line
    have hb := indentWidthI_bounds line lo
    generalize hpos : (indentWidthI line lo).2 = pos at hb
    generalize hwd : (indentWidthI line lo).1 = wd
    refine OKE.bind (m := modPc _)
      (P := fun _ s3 => s3.r = r2 ∧ s3.nodes = s.nodes ∧ s3.pc.opened = s.pc.opened ∧ s3.pc.tmpPara = s.pc.tmpPara ∧
        s3.pc.fence = s.pc.fence ∧ s3.pc.skipList = s.pc.skipList ∧
        s3.pc.blockOffset = (if pos ≥ (line.length : Int) then -1 else pos))
      (OKE.ok ⟨rfl, rfl, by simp only; split <;> rfl, by simp only; split <;> rfl, by simp only; split <;> rfl,
        by simp only; split <;> rfl, by simp only; split <;> rfl⟩) (fun _ s3 h3 => ?_)
    obtain ⟨h3r, h3n, h3o, h3t, h3f, h3s, h3b⟩ := h3
    have hri3 : RI src s3.r c := by rw [h3r]; exact h2
    have hw3 : WinL src old pre root s0 s3 new := hw.congr h3n h3o h3t h3f
    have htmp3 : s3.pc.tmpPara = none := by rw [h3t]; exact htmp
    have hk3 : (nd s3 parent).kind = (nd s parent).kind := by rw [nd_eq_of_nodes_eq h3n]
    have hmode3 : (nd s3 parent).kind = .list → Due src s3 c parent := fun hk =>
      (hmode (by rw [← hk3]; exact hk)).congr' h3n h3o h3s
    have hplt3 : lastNode root (pre ++ new) < s3.nodes.length := by
      rcases lastNode_mem root (pre ++ new) with e | ⟨b, hb', e⟩
      · rw [e]; exact hw3.ls.rootLt
      · rw [e]
        obtain ⟨suf, es⟩ := hw3.stack
        refine (hw3.blocks b ?_).lt
        rw [es]
        rcases List.mem_append.1 hb' with h | h
        · exact List.mem_append_left _ (List.mem_append_left _ h)
        · exact List.mem_append_right _ h
    -- the exits before the parsers are tried: only when the parent is not a List
    have exit : (nd s3 parent).kind ≠ .list → ∀ (r : OpenResult) (l : Option Block),
        ((r = .noBlocksOpened ∧ new = [] ∧ l = old.getLast?) ∨ (r = .newBlocksOpened ∧ new ≠ [])) →
        OKE e (OBPostLT src old pre root s0 c0) (toContinuable cont r l s3) := fun hk r l hr =>
      toContinuableL lsp cont r l s3 c c0 new hri3 hpad hle hw3 (leafy_of_all hallc) (hcompat0 s3) hr hcont
        (by rw [← hq]; exact hk) hplt3 htmp3
    -- in a `Due` state the line is a list item: facts about it
    have hdueLine : (nd s3 parent).kind = .list → ∃ (m : M6) (typ : ListTyp) (ch : UInt8) (pre0 : List BP),
        matchesListItem line false = (m, typ) ∧ typ ≠ .notList ∧ pos = m.r1 ∧ wd = m.r1 ∧ m.r1 ≤ 3 ∧ 0 ≤ m.r1 ∧
        line[m.r1.toNat]? = some ch ∧ triggered ch = some (pre0 ++ [BP.list, BP.listItem] ++ freeParsers) ∧
        (∀ q ∈ pre0, q = BP.setext ∨ q = BP.thematic) ∧ (∀ i : Nat, (i : Int) < m.r1 → line[i]? = some 32) ∧ lo = loVal src c := by
      intro hk
      have hd := hmode3 hk
      have hlo' : lo = loVal src c := hlo hd.lt
      cases hmt : matchesListItem line false with
      | mk m typ =>
        have hmt' : matchesListItem (lineOf src c) false = (m, typ) := by rw [← hmt, ← hline]
        obtain ⟨htyp, _⟩ := hd.m m typ hmt'
        have ok := matchesListItem_ok line false m typ hmt htyp
        have hiw := det_indent_of_item line m typ lo hmt htyp
        obtain ⟨ch, l, hch, htg, pre0, hl, hp0⟩ := det_trigger_of_item line m typ hmt htyp
        refine ⟨m, typ, ch, pre0, rfl, htyp, ?_, ?_, ok.r1_le, ok.r1_ge, hch, by rw [htg, hl], hp0, ok.spaces, hlo'⟩
        · rw [← hpos, hiw]
        · rw [← hwd, hiw]
    by_cases hnone : (RCur.view src c).isNone = true
    · rw [if_pos hnone]
      refine exit (fun hk => ?_) _ _ hres
      have := (hmode3 hk).lt
      rw [view_eq src c this] at hnone; simp at hnone
    rw [if_neg hnone]
    have hp : c.p < src.length := by
      rcases Nat.lt_or_ge c.p src.length with hp | hp
      · exact hp
      · rw [view_none src c (by omega)] at hnone; simp at hnone
    have hvl := view_length src c hp (view_eq src c hp)
    have hlen : 1 ≤ line.length := by rw [← hline, view_eq src c hp]; simp only [Option.getD_some]; omega
    obtain ⟨b0, hb0, hb0'⟩ := idx_ok line 0 (by omega) (by omega)
    refine OKE.bind (OKE.of_okl (liftE_okl (P := fun a s' => a = b0 ∧ s' = s3) hb0 ⟨rfl, rfl⟩)) (fun a sy hy => ?_)
    obtain ⟨ha, hsy⟩ := hy
    subst a sy
    by_cases hnl : (b0 == 10) = true
    · rw [if_pos hnl]
      refine exit (fun hk => ?_) _ _ hres
      obtain ⟨m, typ, ch, pre0, _, _, _, _, _, h0, hch, htg, _, hsp, _⟩ := hdueLine hk
      have hb10 : b0 = 10 := by simpa using hnl
      rcases Int.lt_or_le 0 m.r1 with hlt | hge
      · have := hsp 0 (by simpa using hlt)
        simp only [Int.toNat_zero] at hb0'
        rw [this] at hb0'; cases hb0'; cases hb10
      · have e0 : m.r1 = 0 := by omega
        rw [e0] at hch
        simp only [Int.toNat_zero] at hb0' hch
        rw [hch] at hb0'; cases hb0'
        rw [hb10, triggered_nl] at htg; cases htg
    rw [if_neg hnl]
    have hctx : LineCtx src s3 c := by
      refine ⟨hri3, hp, hpad, ?_, hw3.nodes⟩
      rw [h3b, hline]
      split
      · omega
      · omega
    -- the rest of the iteration, for the parser list `bps`
    have tail : ∀ bps : List BP,
        (((nd s3 parent).kind ≠ .list ∧
            (BP.list ∈ bps → ∃ pre0, bps = pre0 ++ [BP.list, BP.listItem] ++ freeParsers ∧
              ∀ q ∈ pre0, q = BP.setext ∨ q = BP.thematic) ∧
            (∀ (ch : UInt8) (l : List BP),
              (lineOf src c)[(indentWidthI (lineOf src c) (loVal src c)).2.toNat]? = some ch → triggered ch = some l →
                BP.list ∈ bps → l = bps)) ∨
          ((nd s3 parent).kind = .list ∧ ∃ (ch : UInt8) (pre0 : List BP),
            (lineOf src c)[(indentWidthI (lineOf src c) (loVal src c)).2.toNat]? = some ch ∧
            triggered ch = some (pre0 ++ [BP.list, BP.listItem] ++ freeParsers) ∧
            (∀ q ∈ pre0, q = BP.setext ∨ q = BP.thematic) ∧ bps = pre0 ++ [BP.list, BP.listItem] ++ freeParsers ∧ ¬ wd > 3)) →
        OKE e (OBPostLT src old pre root s0 c0)
        (retryStepV pts blank tdone cont parent wd bps result lb (openBlocksLoopV pts blank fuel) s3) := by
      intro bps hbps
      unfold retryStepV
      refine OKE.bind (m := get) (P := fun sb sy => sb = s3 ∧ sy = s3) (OKE.ok ⟨rfl, rfl⟩) (fun sb sy hy => ?_)
      obtain ⟨hsb, hsy⟩ := hy
      subst sb sy
      have htp : OKE e (TPPostLT src old pre root s0 s3 c) (tryParsersV pts parent blank cont wd bps result lb s3) := by
        rcases hbps with ⟨hk, hst, htr⟩ | ⟨hk, ch, pre0, hch, htg, hp0, hbe, hw3'⟩
        · exact tryParsersL lsp hNB cl parent blank cont wd c bps hst htr bps [] rfl result lb s3 new hctx hw3 htmp3 hallc hq hres hk
            rfl rfl (fun h => by cases h)
        · rw [hbe]
          exact tryItemL lsp hNB cl parent blank cont wd c pre0 hp0 ch hch htg hw3' pre0 [] rfl result lb s3 new hctx hw3 htmp3 hallc
            hq hres (hmode3 hk)
      refine OKE.bind htp (fun x s4 h4 => ?_)
      obtain ⟨outcome, res, lb'⟩ := x
      obtain ⟨c', new', hri4, hpad4, hle4, hw4, hres4, hcompat4, htmp4, hout⟩ := h4
      have hplt4 : lastNode root (pre ++ new') < s4.nodes.length := by
        rcases lastNode_mem root (pre ++ new') with e | ⟨b, hb', e⟩
        · rw [e]; exact hw4.ls.rootLt
        · rw [e]
          obtain ⟨suf, es⟩ := hw4.stack
          refine (hw4.blocks b ?_).lt
          rw [es]
          rcases List.mem_append.1 hb' with h | h
          · exact List.mem_append_left _ (List.mem_append_left _ h)
          · exact List.mem_append_right _ h
      cases outcome with
      | retry p' =>
        simp only at hout ⊢
        obtain ⟨hallc4, hp4, hprog4⟩ := hout
        refine OKE.bind (m := get) (P := fun sb sy => sb = s4 ∧ sy = s4) (OKE.ok ⟨rfl, rfl⟩) (fun sb sy hy => ?_)
        obtain ⟨hsb, hsy⟩ := hy
        subst sb sy
        have hlt : retryMeasure s4 < retryMeasure s3 := by
          rcases hprog4 with ⟨hpr, _⟩ | ⟨hcc, hdn⟩
          · unfold retryMeasure
            rw [hri4.source, hri3.source, hri4.pos, hri3.pos]
            simp only [Int.toNat_natCast]
            have := hri4.inRange
            split <;> split <;> omega
          · subst hcc
            unfold retryMeasure
            rw [hri4.source, hri3.source, hri4.pos, hri3.pos]
            have h4l : lastIsList s4 = true := by
              obtain ⟨lbx, hl1, hl2⟩ := hdn.isLast
              unfold lastIsList
              rw [hl1]
              simp only
              have := hdn.kind
              rw [← hl2] at this
              simp only [nd] at this
              rw [this]; rfl
            rw [h4l, hdn.wasNotList]
            simp
        rw [if_neg (by simp [hlt])]
        refine ih tdone p' res lb' s4 c' new' hri4 hpad4 (Nat.le_trans hle hle4) hw4 htmp4 hallc4 hp4 hres4 (fun hk => ?_)
        rcases hprog4 with ⟨_, hnk⟩ | ⟨hcc, hdn⟩
        · exact absurd hk hnk
        · subst hcc
          refine ⟨hp, hdn.kind, fun m typ he => ?_, hdn.th, .inr ?_⟩
          · obtain ⟨m', typ', he', ht', hr'⟩ := hdn.m
            rw [he'] at he; cases he
            have : li_lastOff s4 p' = 0 := by unfold li_lastOff; rw [hdn.noKids]; rfl
            rw [this]
            exact ⟨ht', by omega⟩
          · obtain ⟨lbx, hl1, hl2⟩ := hdn.isLast
            exact ⟨lbx, hl1, by rw [hl2]; exact hdn.kind⟩
      | retryTransformed => exact hout.elim
      | done =>
        simp only at hout ⊢
        exact toContinuableL lsp cont res lb' s4 c' c0 new' hri4 hpad4 (Nat.le_trans hle hle4) hw4 hout.1 hcompat4 hres4 hcont
          hout.2 hplt4 htmp4
    -- which parsers
    have hlineOf : lineOf src c = line := hline
    by_cases hpl : pos < (line.length : Int)
    · rw [if_pos hpl]
      obtain ⟨b1, hb1, hb1'⟩ := idx_ok line pos hb.1 hpl
      refine OKE.bind (OKE.of_okl (liftE_okl (P := fun a s' => a = b1 ∧ s' = s3) hb1 ⟨rfl, rfl⟩)) (fun a sy hy => ?_)
      obtain ⟨ha, hsy⟩ := hy
      subst a sy
      simp only [pure_bind]
      refine tail _ ?_
      by_cases hk : (nd s3 parent).kind = .list
      · right
        obtain ⟨m, typ, ch, pre0, _, _, hpm, hwm, hr3, _, hch, htg, hp0, _, hlo'⟩ := hdueLine hk
        have hchb : ch = b1 := by rw [← hpm] at hch; rw [hch] at hb1'; cases hb1'; rfl
        subst hchb
        refine ⟨hk, ch, pre0, ?_, htg, hp0, by rw [htg]; rfl, by rw [hwm]; omega⟩
        rw [hlineOf, ← hlo', hpos, hpm]; exact hch
      · left
        refine ⟨hk, ?_, ?_⟩
        · intro hl
          cases htr : triggered b1 with
          | none => rw [htr] at hl; exact absurd hl (by decide)
          | some l => rw [htr] at hl; exact det_triggered_list b1 l htr hl
        · intro ch l hch htg hl
          by_cases hlo' : lo = loVal src c
          · rw [hlineOf, ← hlo', hpos] at hch
            rw [hch] at hb1'; cases hb1'
            rw [htg]; rfl
          · exact absurd (hlo hp) hlo'
    · rw [if_neg hpl]
      simp only [pure_bind]
      refine tail _ ?_
      by_cases hk : (nd s3 parent).kind = .list
      · exfalso
        obtain ⟨m, typ, ch, pre0, _, _, hpm, _, _, h0, hch, _⟩ := hdueLine hk
        have : m.r1.toNat < line.length := by
          rcases Nat.lt_or_ge m.r1.toNat line.length with h | h
          · exact h
          · rw [List.getElem?_eq_none h] at hch; cases hch
        omega
      · left
        exact ⟨hk, fun hl => absurd hl (by decide), fun _ _ _ _ hl => absurd hl (by decide)⟩



theorem openBlocksL {root : Nat} (pre : List Block) (parent : Nat) (blank : Bool) (s : St) (c : RCur)
    (hri : RI src s.r c) (hpad : PadOK c) (hst : StableLT src root s) (cl : Call s.pc.opened pre)
    (hpar : parent = lastNode root pre) (hmode : (nd s parent).kind = .list → Due src s c parent) :
    OKE e (OBPostLT src s.pc.opened pre root s c) (openBlocksV pts parent blank s) := by
  unfold openBlocksV
  refine OKE.bind (m := lastOpenedBlock) (P := fun lb s1 => lb = s.pc.opened.getLast? ∧ s1 = s) (OKE.ok ⟨rfl, rfl⟩)
    (fun lb0 sx hlb => ?_)
  obtain ⟨hlb0, hsx⟩ := hlb
  subst sx
  have hw : WinL src s.pc.opened pre root s s [] := by
    obtain ⟨suf0, e0, _⟩ := cl.pref
    refine ⟨hst.nodes, hst.keys, Ext.refl s, .inl (by simp), hst.blocks, fun b hb => (hst.blocks b hb).lt, hst.leafy, by simp,
      hst.ls, ?_, ⟨suf0, by simp [← e0]⟩, fun _ => TreeSame.refl s⟩
    rw [List.append_nil]
    have := hst.chain
    rw [e0, chainedO_append] at this
    exact this.1
  have run : ∀ cont : Bool, (cont = true → ∃ lb, s.pc.opened.getLast? = some lb ∧ lb.bp = .paragraph) →
      OKE e (OBPostLT src s.pc.opened pre root s c)
        ((do let v ← source; openBlocksLoopV pts blank (retryFuel v) false cont parent OpenResult.noBlocksOpened lb0) s) := by
    intro cont hcont
    refine OKE.bind (m := source) (P := fun v sy => v = s.r.source ∧ sy = s) (OKE.ok ⟨rfl, rfl⟩) (fun v sy hy => ?_)
    obtain ⟨hv, hsy⟩ := hy
    subst v sy
    exact openBlocksLoopL lsp hNB cl blank cont hcont _ false parent .noBlocksOpened lb0 s c [] hri hpad (Nat.le_refl _) hw
      hst.tmp (by simp) (by rw [List.append_nil]; exact hpar) (.inl ⟨rfl, rfl, hlb0⟩) hmode
  cases hl : lb0 with
  | none =>
    simp only [pure_bind]
    rw [← hl]
    exact run false (fun h => by cases h)
  | some lb =>
    simp only []
    refine OKE.bind (m := getNode lb.node)
      (P := fun v sy => v = nd s lb.node ∧ sy = s) (OKE.ok ⟨rfl, rfl⟩) (fun v sy hy => ?_)
    obtain ⟨hv, hsy⟩ := hy
    subst v sy
    simp only [pure_bind]
    rw [← hl]
    refine run _ (fun h => ?_)
    have hlast : s.pc.opened.getLast? = some lb := by rw [← hlb0, hl]
    have hk := (hst.blocks lb (List.mem_of_getLast? hlast)).kind
    have : (nd s lb.node).kind = Kind.paragraph := by simpa using h
    rw [this] at hk
    exact ⟨lb, hlast, kind_paragraph hk.symm⟩


end tp2

end GM.Blocks.L.BV
