/-
  GM.Proof.ConvertFTree — the tree `finishDoc` builds shows exactly the ids / hrefs / numbers GM.Footnote.render computes for
  the abstraction of the tree in front of it (`treeOutput = absOutput`), under the AST well-formedness `shapeOKB`.
  Part 1 (this section): `fill` hands the fields out in event order.
-/
import GM.Model.ConvertF
import GM.Proof.Footnote
import GM.Proof.ConvertFAbs

namespace GM.ConvertF
open GM GM.Footnote

/-- a Link as it is read back from a tree node (`Index` is a `Nat` there) -/
def nat (l : Link) : Link := { l with index := (l.index.toNat : Int) }

/-- the fields (by position) of the events that satisfy `p` -/
def pick (p : RawEv → Bool) : List RawEv → List Link → List Link
  | e :: es, l :: ls => (if p e then [l] else []) ++ pick p es ls
  | _, _ => []

theorem pick_nil_left (p : RawEv → Bool) (ls : List Link) : pick p [] ls = [] := by
  cases ls <;> rfl

theorem pick_append (p : RawEv → Bool) : ∀ (es1 es2 : List RawEv) (ls : List Link), es1.length ≤ ls.length →
    pick p (es1 ++ es2) ls = pick p es1 ls ++ pick p es2 (ls.drop es1.length)
  | [], es2, ls, _ => by simp [pick_nil_left]
  | e :: es1, es2, [], h => by simp at h
  | e :: es1, es2, l :: ls, h => by
    simp only [List.cons_append, pick, List.length_cons, List.drop_succ_cons, List.append_assoc]
    rw [pick_append p es1 es2 ls (by simpa using h)]

theorem pick_none (p : RawEv → Bool) : ∀ (es : List RawEv) (ls : List Link), (∀ e ∈ es, p e = false) → pick p es ls = []
  | [], ls, _ => pick_nil_left p ls
  | e :: es, [], _ => rfl
  | e :: es, l :: ls, h => by
    simp only [pick, h e (by simp), Bool.false_eq_true, if_false, List.nil_append]
    exact pick_none p es ls (fun e' he' => h e' (by simp [he']))

theorem pick_congr (p q : RawEv → Bool) : ∀ (es : List RawEv) (ls : List Link), (∀ e ∈ es, p e = q e) → pick p es ls = pick q es ls
  | [], ls, _ => by simp [pick_nil_left]
  | e :: es, [], _ => rfl
  | e :: es, l :: ls, h => by
    simp only [pick, h e (by simp)]
    rw [pick_congr p q es ls (fun e' he' => h e' (by simp [he']))]

mutual
/-- the FootnoteLinks the renderer reaches whose enclosing Footnote is `q` (`h` = the Footnote enclosing the node) -/
def linksH (q : Option Nat) (h : Option Nat) : GM.Node → List Link
  | .mk (.footnoteLink i rc ri) _ _ => if h == q then [{ index := (i : Int), refCount := rc, refIndex := ri }] else []
  | .mk (.image _ _) _ _ => []
  | .mk (.footnote k) _ cs => linksHL q (some k) cs
  | .mk _ _ cs => linksHL q h cs
def linksHL (q : Option Nat) (h : Option Nat) : List GM.Node → List Link
  | [] => []
  | n :: rest => linksH q h n ++ linksHL q h rest
end

mutual
theorem evNode_length (u u' : Bool) (h h' : Option Nat) : ∀ n : GM.Node, (evNode u h n).length = (evNode u' h' n).length
  | .mk k a cs => by
    cases k <;> simp only [evNode, List.length_cons, List.length_nil] <;> exact evNodes_length _ _ _ _ cs
theorem evNodes_length (u u' : Bool) (h h' : Option Nat) : ∀ ns : List GM.Node, (evNodes u h ns).length = (evNodes u' h' ns).length
  | [] => rfl
  | n :: rest => by
    simp only [evNodes, List.length_append, evNode_length u u' h h' n, evNodes_length u u' h h' rest]
end

mutual
theorem evNode_under (h : Option Nat) : ∀ n : GM.Node, ∀ e ∈ evNode true h n, e.dropped = true
  | .mk k a cs => by
    cases k <;> simp only [evNode, List.mem_singleton, forall_eq] <;> exact evNodes_under _ cs
theorem evNodes_under (h : Option Nat) : ∀ ns : List GM.Node, ∀ e ∈ evNodes true h ns, e.dropped = true
  | [] => by simp [evNodes]
  | n :: rest => by
    intro e he
    simp only [evNodes, List.mem_append] at he
    rcases he with he | he
    · exact evNode_under h n e he
    · exact evNodes_under h rest e he
end

/-- the events that count for `q`: the link is reached by the renderer and its enclosing Footnote is `q` -/
def Pq (q : Option Nat) (e : RawEv) : Bool := !e.dropped && e.host == q

mutual
theorem fill_snd (u : Bool) (h : Option Nat) : ∀ (n : GM.Node) (fs : List Link), (evNode u h n).length ≤ fs.length →
    (fill fs n).2 = fs.drop (evNode u h n).length
  | .mk k a cs, fs, hl => by
    cases k
    case footnoteLink i rc ri =>
      cases fs with
      | nil => simp [evNode] at hl
      | cons l rest => simp [fill, evNode]
    all_goals
      simp only [evNode] at hl ⊢
      simp only [fill]
      exact fillL_snd _ _ cs fs hl
theorem fillL_snd (u : Bool) (h : Option Nat) : ∀ (ns : List GM.Node) (fs : List Link), (evNodes u h ns).length ≤ fs.length →
    (fillL fs ns).2 = fs.drop (evNodes u h ns).length
  | [], fs, _ => by simp [fillL, evNodes]
  | n :: rest, fs, hl => by
    simp only [evNodes, List.length_append] at hl
    have h1 := fill_snd u h n fs (by omega)
    have h2 := fillL_snd u h rest (fill fs n).2 (by rw [h1, List.length_drop]; omega)
    simp only [fillL, evNodes, List.length_append]
    rw [h2, h1, List.drop_drop]
end

mutual
theorem fill_links (q : Option Nat) : ∀ (n : GM.Node) (fs : List Link) (h : Option Nat), (evNode false h n).length ≤ fs.length →
    linksH q h (fill fs n).1 = (pick (Pq q) (evNode false h n) fs).map nat
  | .mk k a cs, fs, h, hl => by
    cases k
    case footnoteLink i rc ri =>
      cases fs with
      | nil => simp [evNode] at hl
      | cons l rest =>
        simp only [fill, linksH, evNode, pick, Pq, Bool.not_false, Bool.true_and, pick_nil_left, List.append_nil]
        split <;> simp [nat]
    case image d t =>
      simp only [fill, linksH, evNode]
      rw [pick_none]
      · rfl
      · intro e he
        simp [Pq, evNodes_under h cs e he]
    case footnote j =>
      simp only [evNode] at hl ⊢
      simp only [fill, linksH]
      exact fillL_links q cs fs (some j) hl
    all_goals
      simp only [evNode] at hl ⊢
      simp only [fill, linksH]
      exact fillL_links q cs fs h hl
theorem fillL_links (q : Option Nat) : ∀ (ns : List GM.Node) (fs : List Link) (h : Option Nat), (evNodes false h ns).length ≤ fs.length →
    linksHL q h (fillL fs ns).1 = (pick (Pq q) (evNodes false h ns) fs).map nat
  | [], fs, h, _ => by simp [fillL, linksHL, evNodes, pick_nil_left]
  | n :: rest, fs, h, hl => by
    simp only [evNodes, List.length_append] at hl
    have h1 := fill_snd false h n fs (by omega)
    simp only [fillL, linksHL, evNodes]
    rw [pick_append _ _ _ _ (by omega), List.map_append, fill_links q n fs h (by omega),
      fillL_links q rest (fill fs n).2 h (by rw [h1, List.length_drop]; omega), h1]
end

/-! ### Part 2: `fill` does not change the shape of the tree -/

mutual
/-- the tree with the fields of its FootnoteLinks erased -/
def skel : GM.Node → GM.Node
  | .mk (.footnoteLink _ _ _) a cs => .mk (.footnoteLink 0 0 0) a (skelL cs)
  | .mk k a cs => .mk k a (skelL cs)
def skelL : List GM.Node → List GM.Node
  | [] => []
  | n :: rest => skel n :: skelL rest
end

theorem skelL_length : ∀ ns : List GM.Node, (skelL ns).length = ns.length
  | [] => rfl
  | n :: rest => by simp [skelL, skelL_length rest]

mutual
theorem skel_fill : ∀ (n : GM.Node) (fs : List Link), skel (fill fs n).1 = skel n
  | .mk k a cs, fs => by
    cases k
    case footnoteLink i rc ri => cases fs <;> simp [fill, skel]
    all_goals simp only [fill, skel, skelL_fillL cs fs]
theorem skelL_fillL : ∀ (ns : List GM.Node) (fs : List Link), skelL (fillL fs ns).1 = skelL ns
  | [], fs => by simp [fillL, skelL]
  | n :: rest, fs => by simp only [fillL, skelL, skel_fill n fs, skelL_fillL rest (fill fs n).2]
end

mutual
theorem plainB_skel : ∀ n : GM.Node, plainB (skel n) = plainB n
  | .mk k a cs => by cases k <;> simp only [skel, plainB, isFootKind, plainBL_skel cs]
theorem plainBL_skel : ∀ ns : List GM.Node, plainBL (skelL ns) = plainBL ns
  | [] => rfl
  | n :: rest => by simp only [skelL, plainBL, plainB_skel n, plainBL_skel rest]
end

mutual
theorem bodyOKB_skel : ∀ n : GM.Node, bodyOKB (skel n) = bodyOKB n
  | .mk k a cs => by
    cases k
    case footnoteLink i rc ri => cases cs <;> simp [skel, bodyOKB, skelL]
    case image d t => simp only [skel, bodyOKB, plainBL_skel cs]
    all_goals simp only [skel, bodyOKB, bodyOKBL_skel cs]
theorem bodyOKBL_skel : ∀ ns : List GM.Node, bodyOKBL (skelL ns) = bodyOKBL ns
  | [] => rfl
  | n :: rest => by simp only [skelL, bodyOKBL, bodyOKB_skel n, bodyOKBL_skel rest]
end

mutual
theorem noBacksB_skel : ∀ n : GM.Node, noBacksB (skel n) = noBacksB n
  | .mk k a cs => by cases k <;> simp only [skel, noBacksB, noBacksBL_skel cs]
theorem noBacksBL_skel : ∀ ns : List GM.Node, noBacksBL (skelL ns) = noBacksBL ns
  | [] => rfl
  | n :: rest => by simp only [skelL, noBacksBL, noBacksB_skel n, noBacksBL_skel rest]
end

mutual
theorem listsOf_skel : ∀ n : GM.Node, listsOf (skel n) = (listsOf n).map skelL
  | .mk k a cs => by cases k <;> simp only [skel, listsOf, List.map_cons, List.map_nil, listsOfL_skel cs]
theorem listsOfL_skel : ∀ ns : List GM.Node, listsOfL (skelL ns) = (listsOfL ns).map skelL
  | [] => rfl
  | n :: rest => by simp only [skelL, listsOfL, List.map_append, listsOf_skel n, listsOfL_skel rest]
end

theorem notesOKB_skel : ∀ (k : Nat) (cs : List GM.Node), notesOKB k (skelL cs) = notesOKB k cs
  | _, [] => rfl
  | k, .mk kind a ks :: rest => by
    cases kind <;> simp [skelL, skel, notesOKB, isNoteKind, plainBL_skel ks, notesOKB_skel (k + 1) rest]

theorem skel_kind_foot (n : GM.Node) : isFootKind (skel n).kind = isFootKind n.kind := by
  obtain ⟨k, a, cs⟩ := n
  cases k <;> simp [skel, GM.Node.kind, isFootKind]

/-! ### Part 3: what the shape says about one tree -/

theorem linksOfL_append : ∀ (a b : List GM.Node), linksOfL (a ++ b) = linksOfL a ++ linksOfL b
  | [], b => by simp [linksOfL]
  | x :: a, b => by simp only [List.cons_append, linksOfL, linksOfL_append a b, List.append_assoc]

theorem backsOfL_append : ∀ (a b : List GM.Node), backsOfL (a ++ b) = backsOfL a ++ backsOfL b
  | [], b => by simp [backsOfL]
  | x :: a, b => by simp only [List.cons_append, backsOfL, backsOfL_append a b, List.append_assoc]

theorem itemsOfL_append : ∀ (a b : List GM.Node), itemsOfL (a ++ b) = itemsOfL a ++ itemsOfL b
  | [], b => by simp [itemsOfL]
  | x :: a, b => by simp only [List.cons_append, itemsOfL, itemsOfL_append a b, List.append_assoc]

mutual
/-- below a node without Footnote / FootnoteList the enclosing Footnote does not change -/
theorem plain_linksH (q h : Option Nat) : ∀ n : GM.Node, plainB n = true →
    linksH q h n = (if h == q then linksOf n else []) ∧ itemsOf n = [] ∧ listsOf n = []
  | .mk k a cs, hp => by
    cases k
    case footnote j => simp [plainB, isFootKind] at hp
    case footnoteList => simp [plainB, isFootKind] at hp
    case footnoteLink i rc ri =>
      simp only [plainB, isFootKind, Bool.not_false, Bool.true_and] at hp
      have := plainL_linksH q h cs hp
      simp only [linksH, linksOf, itemsOf, listsOf, this.2.1, this.2.2, and_self, and_true]
    case image d t =>
      simp only [plainB, isFootKind, Bool.not_false, Bool.true_and] at hp
      have := plainL_linksH q h cs hp
      simp only [linksH, linksOf, itemsOf, listsOf, this.2.2, and_true]
      split <;> rfl
    all_goals
      simp only [plainB, isFootKind, Bool.not_false, Bool.true_and] at hp
      have := plainL_linksH q h cs hp
      simp only [linksH, linksOf, itemsOf, listsOf, this.1, this.2.1, this.2.2, and_self]
theorem plainL_linksH (q h : Option Nat) : ∀ ns : List GM.Node, plainBL ns = true →
    linksHL q h ns = (if h == q then linksOfL ns else []) ∧ itemsOfL ns = [] ∧ listsOfL ns = []
  | [], _ => by simp [linksHL, linksOfL, itemsOfL, listsOfL]
  | n :: rest, hp => by
    simp only [plainBL, Bool.and_eq_true] at hp
    have h1 := plain_linksH q h n hp.1
    have h2 := plainL_linksH q h rest hp.2
    simp only [linksHL, linksOfL, itemsOfL, listsOfL, h1.1, h1.2.1, h1.2.2, h2.1, h2.2.1, h2.2.2, List.append_nil, and_self, and_true]
    split <;> simp
end

mutual
theorem noBacks_backsOf : ∀ n : GM.Node, noBacksB n = true → backsOf n = []
  | .mk k a cs, hp => by
    cases k
    case footnoteBacklink i rc ri => simp [noBacksB] at hp
    case image d t => simp [backsOf]
    all_goals
      simp only [noBacksB] at hp
      simp only [backsOf, noBacksL_backsOfL cs hp]
theorem noBacksL_backsOfL : ∀ ns : List GM.Node, noBacksBL ns = true → backsOfL ns = []
  | [], _ => rfl
  | n :: rest, hp => by
    simp only [noBacksBL, Bool.and_eq_true] at hp
    simp only [backsOfL, noBacks_backsOf n hp.1, noBacksL_backsOfL rest hp.2, List.append_nil]
end

/-- the links of the `j`-th child of a list -/
def noteLinks (cs : List GM.Node) (j : Nat) : List Link :=
  match cs[j]? with
  | some (.mk _ _ ks) => linksOfL ks
  | none => []

theorem isNoteKind_eq {k : Nat} {kind : GM.Kind} (h : isNoteKind k kind = true) : kind = .footnote k := by
  cases kind <;> simp [isNoteKind] at h
  subst h; rfl

/-- the children of the list: nothing for the body; for the Footnote `j` the links of the `(j − k0)`-th child -/
theorem notes_linksH (h : Option Nat) : ∀ (cs : List GM.Node) (k0 : Nat), notesOKB k0 cs = true →
    linksHL none h cs = [] ∧ ∀ j, linksHL (some j) h cs = (if k0 ≤ j then noteLinks cs (j - k0) else [])
  | [], k0, _ => by simp [linksHL, noteLinks]
  | .mk kind a ks :: rest, k0, hn => by
    simp only [notesOKB, Bool.and_eq_true] at hn
    obtain ⟨⟨hk, hp⟩, hr⟩ := hn
    have hk' := isNoteKind_eq hk
    subst hk'
    have ih := notes_linksH h rest (k0 + 1) hr
    have hpl := fun q => (plainL_linksH q (some k0) ks hp).1
    refine ⟨?_, ?_⟩
    · simp only [linksHL, linksH, hpl none, ih.1]
      simp
    · intro j
      simp only [linksHL, linksH, hpl (some j), ih.2 j]
      by_cases hj : k0 = j
      · subst hj
        have : ¬ (k0 + 1 ≤ k0) := by omega
        simp [noteLinks, this]
      · have h1 : (some k0 == some j) = false := by simp [hj]
        simp only [h1, Bool.false_eq_true, if_false, List.nil_append]
        by_cases hle : k0 + 1 ≤ j
        · have : k0 ≤ j := by omega
          simp only [hle, this, if_true, noteLinks]
          have e : j - k0 = (j - (k0 + 1)) + 1 := by omega
          rw [e, List.getElem?_cons_succ]
        · have : ¬ k0 ≤ j := by omega
          simp [hle, this]

/-- every FootnoteList met has well-formed children -/
def HL (ls : List (List GM.Node)) : Prop := ∀ cs ∈ ls, notesOKB 0 cs = true

theorem HL_append {a b : List (List GM.Node)} (h : HL (a ++ b)) : HL a ∧ HL b :=
  ⟨fun cs hc => h cs (by simp [hc]), fun cs hc => h cs (by simp [hc])⟩

mutual
/-- outside the list: the body keeps exactly the links whose enclosing Footnote is none, holds no item, and the links
    enclosed by Footnote `j` are those of the `j`-th child of the list(s) -/
theorem body_node : ∀ n : GM.Node, bodyOKB n = true → isFootKind n.kind = false → HL (listsOf n) →
    linksOf (dropLists n) = linksH none none n ∧ itemsOf (dropLists n) = [] ∧
    ∀ j, linksH (some j) none n = (listsOf n).flatMap (fun cs => noteLinks cs j)
  | .mk k a cs, hb, hf, hl => by
    cases k
    case footnote j => simp [bodyOKB] at hb
    case footnoteList => simp [GM.Node.kind, isFootKind] at hf
    case footnoteLink i rc ri =>
      simp only [bodyOKB, List.isEmpty_iff] at hb
      subst hb
      simp [dropLists, dropListsL, linksOf, linksH, itemsOf, itemsOfL, listsOf, listsOfL]
    case image d t =>
      simp only [bodyOKB] at hb
      have := plainL_linksH none none cs hb
      simp [dropLists, linksOf, linksH, itemsOf, listsOf, this.2.2]
    all_goals
      simp only [bodyOKB] at hb
      simp only [listsOf] at hl
      have := body_list cs hb hl
      simp only [dropLists, linksOf, linksH, itemsOf, listsOf, this.1, this.2.1, true_and]
      exact this.2.2
theorem body_list : ∀ ns : List GM.Node, bodyOKBL ns = true → HL (listsOfL ns) →
    linksOfL (dropListsL ns) = linksHL none none ns ∧ itemsOfL (dropListsL ns) = [] ∧
    ∀ j, linksHL (some j) none ns = (listsOfL ns).flatMap (fun cs => noteLinks cs j)
  | [], _, _ => by simp [dropListsL, linksOfL, linksHL, itemsOfL, listsOfL]
  | .mk k a cs :: rest, hb, hl => by
    simp only [bodyOKBL, Bool.and_eq_true] at hb
    simp only [listsOfL] at hl
    obtain ⟨hl1, hl2⟩ := HL_append hl
    have ih := body_list rest hb.2 hl2
    cases k
    case footnote j => simp [bodyOKB] at hb
    case footnoteList =>
      have hn := notes_linksH none cs 0 (hl1 cs (by simp [listsOf]))
      simp only [dropListsL, linksHL, linksH, listsOfL, listsOf, ih.1, ih.2.1, hn.1, List.nil_append, true_and]
      intro j
      simp [hn.2 j, ih.2.2 j]
    all_goals
      have hn := body_node (.mk _ a cs) hb.1 (by simp [GM.Node.kind, isFootKind]) hl1
      simp only [dropListsL, linksOfL, linksHL, itemsOfL, listsOfL, hn.1, hn.2.1, ih.1, ih.2.1, List.append_nil, true_and]
      intro j
      simp [hn.2.2 j, ih.2.2 j]
end

/-! ### Part 4: the FootnoteList the transformer builds -/

theorem linksOfL_backs : ∀ bs : List Link, linksOfL (bs.map backNode) = []
  | [] => rfl
  | b :: rest => by simp [linksOfL, backNode, linksOf, linksOfL_backs rest]

theorem backsOfL_backs : ∀ bs : List Link, backsOfL (bs.map backNode) = bs.map nat
  | [] => rfl
  | b :: rest => by simp [backsOfL, backNode, backsOf, nat, backsOfL_backs rest]

theorem dropLast_getLast? {α : Type} : ∀ (l : List α) (a : α), l.getLast? = some a → l.dropLast ++ [a] = l
  | [], a, h => by simp at h
  | [x], a, h => by simp at h; simp [h]
  | x :: y :: r, a, h => by
    rw [List.getLast?_cons_cons] at h
    simp [dropLast_getLast? (y :: r) a h]

theorem appendBacks_cases (backs ks : List GM.Node) :
    appendBacks backs ks = ks ++ backs ∨
    ∃ init a pcs, ks = init ++ [.mk .paragraph a pcs] ∧ appendBacks backs ks = init ++ [.mk .paragraph a (pcs ++ backs)] := by
  unfold appendBacks
  cases hg : ks.getLast? with
  | none => left; rfl
  | some n =>
    obtain ⟨k, a, pcs⟩ := n
    have hks : ks.dropLast ++ [GM.Node.mk k a pcs] = ks := dropLast_getLast? ks _ hg
    cases k
    case paragraph => right; exact ⟨ks.dropLast, a, pcs, hks.symm, rfl⟩
    all_goals left; rfl

theorem appendBacks_links (bs : List Link) (ks : List GM.Node) :
    linksOfL (appendBacks (bs.map backNode) ks) = linksOfL ks := by
  rcases appendBacks_cases (bs.map backNode) ks with h | ⟨init, a, pcs, h1, h2⟩
  · rw [h, linksOfL_append, linksOfL_backs, List.append_nil]
  · rw [h2, h1]
    simp [linksOfL_append, linksOfL, linksOf, linksOfL_backs]

theorem appendBacks_backs (bs : List Link) (ks : List GM.Node) (hn : noBacksBL ks = true) :
    backsOfL (appendBacks (bs.map backNode) ks) = bs.map nat := by
  have h0 := noBacksL_backsOfL ks hn
  rcases appendBacks_cases (bs.map backNode) ks with h | ⟨init, a, pcs, h1, h2⟩
  · rw [h, backsOfL_append, backsOfL_backs, h0, List.nil_append]
  · rw [h2]
    rw [h1] at h0
    simp only [backsOfL_append, backsOfL, backsOf, List.append_nil, List.append_eq_nil_iff] at h0
    simp [backsOfL_append, backsOfL, backsOf, backsOfL_backs, h0.1, h0.2]

/-- one kept definition: its links are those of the `src`-th child of the list, its back-links the transformer's -/
theorem noteNode_spec (notes : List GM.Node) (fn : FNode)
    (hn : ∀ (k : GM.Kind) (a : Option (List GM.Attr)) (ks : List GM.Node),
      notes[fn.src]? = some (GM.Node.mk k a ks) → noBacksBL ks = true) :
    linksOf (noteNode notes fn) = noteLinks notes fn.src ∧
    itemsOf (noteNode notes fn) = [(fn.index.toNat, fn.backs.map nat)] := by
  unfold noteNode noteLinks
  cases hg : notes[fn.src]? with
  | none => simp [linksOf, itemsOf, linksOfL_backs, backsOfL_backs]
  | some n =>
    obtain ⟨k, a, ks⟩ := n
    simp [linksOf, itemsOf, appendBacks_links, appendBacks_backs fn.backs ks (hn k a ks hg)]

theorem listNode_spec (tr : Transformed) (notes : List GM.Node)
    (hn : ∀ (j : Nat) (k : GM.Kind) (a : Option (List GM.Attr)) (ks : List GM.Node),
      notes[j]? = some (GM.Node.mk k a ks) → noBacksBL ks = true) :
    linksOf (listNode tr notes) = tr.nodes.flatMap (fun fn => noteLinks notes fn.src) ∧
    itemsOf (listNode tr notes) = tr.nodes.map (fun fn => (fn.index.toNat, fn.backs.map nat)) := by
  unfold listNode
  simp only [linksOf, itemsOf]
  generalize tr.nodes = ns
  induction ns with
  | nil => simp [linksOfL, itemsOfL]
  | cons fn rest ih =>
    have := noteNode_spec notes fn (hn fn.src)
    simp only [List.map_cons, linksOfL, itemsOfL, this.1, this.2, ih.1, ih.2, List.flatMap_cons, List.singleton_append,
      and_self]

mutual
theorem noBacks_lists : ∀ n : GM.Node, noBacksB n = true → ∀ cs ∈ listsOf n, noBacksBL cs = true
  | .mk k a cs, hp => by
    cases k
    case footnoteBacklink i rc ri => simp [noBacksB] at hp
    case footnoteList =>
      simp only [noBacksB] at hp
      simpa [listsOf] using hp
    all_goals
      simp only [noBacksB] at hp
      simp only [listsOf]
      exact noBacksL_lists cs hp
theorem noBacksL_lists : ∀ ns : List GM.Node, noBacksBL ns = true → ∀ cs ∈ listsOfL ns, noBacksBL cs = true
  | [], _ => by simp [listsOfL]
  | n :: rest, hp => by
    simp only [noBacksBL, Bool.and_eq_true] at hp
    intro cs hc
    simp only [listsOfL, List.mem_append] at hc
    rcases hc with hc | hc
    · exact noBacks_lists n hp.1 cs hc
    · exact noBacksL_lists rest hp.2 cs hc
end

theorem noBacksL_get : ∀ (cs : List GM.Node) (j : Nat) (k : GM.Kind) (a : Option (List GM.Attr)) (ks : List GM.Node),
    noBacksBL cs = true → notesOKB 0 cs = true ∨ True → cs[j]? = some (.mk k a ks) → isFootKind k = true → noBacksBL ks = true
  | [], j, _, _, _, _, _, h, _ => by simp at h
  | n :: rest, 0, k, a, ks, hp, _, h, hf => by
    simp only [List.getElem?_cons_zero, Option.some.injEq] at h
    subst h
    simp only [noBacksBL, Bool.and_eq_true] at hp
    cases k <;> simp_all [noBacksB, isFootKind]
  | n :: rest, j + 1, k, a, ks, hp, _, h, hf => by
    simp only [noBacksBL, Bool.and_eq_true] at hp
    simp only [List.getElem?_cons_succ] at h
    exact noBacksL_get rest j k a ks hp.2 (Or.inr trivial) h hf

theorem notesOKB_get : ∀ (cs : List GM.Node) (k0 j : Nat) (k : GM.Kind) (a : Option (List GM.Attr)) (ks : List GM.Node),
    notesOKB k0 cs = true → cs[j]? = some (.mk k a ks) → k = .footnote (k0 + j)
  | [], _, j, _, _, _, _, h => by simp at h
  | .mk kind a' ks' :: rest, k0, 0, k, a, ks, hn, h => by
    simp only [List.getElem?_cons_zero, Option.some.injEq, GM.Node.mk.injEq] at h
    simp only [notesOKB, Bool.and_eq_true] at hn
    rw [← h.1]
    exact isNoteKind_eq hn.1.1
  | .mk kind a' ks' :: rest, k0, j + 1, k, a, ks, hn, h => by
    simp only [notesOKB, Bool.and_eq_true] at hn
    simp only [List.getElem?_cons_succ] at h
    have := notesOKB_get rest (k0 + 1) j k a ks hn.2 h
    rw [this]; congr 1; omega

/-! ### Part 5: assembly -/

open GM.Proof.Footnote GM.Proof.FootnoteAbs GM.Spec.Footnote

/-- the event predicate behind `Pq` -/
def Pq' (q : Option Nat) (x : Event × Link) : Bool := !x.1.dropped && x.1.host == q

theorem pick_pairs (q : Option Nat) (labels : List Bytes) : ∀ (E : List RawEv) (P : List (Event × Link)),
    P.map (·.1) = E.map (RawEv.event labels) → pick (Pq q) E (P.map (·.2)) = (P.filter (Pq' q)).map (·.2)
  | [], [], _ => rfl
  | [], _ :: _, h => by simp at h
  | _ :: _, [], h => by simp at h
  | e :: E, x :: P, h => by
    simp only [List.map_cons, List.cons.injEq] at h
    have hx : Pq' q x = Pq q e := by simp [Pq', Pq, h.1, RawEv.event]
    simp only [List.map_cons, pick, List.filter_cons, hx, pick_pairs q labels E P h.2]
    split <;> simp

theorem filter_of_imp {α : Type} (a b : α → Bool) (l : List α) (h : ∀ x ∈ l, a x = true → b x = true) :
    l.filter a = (l.filter b).filter a := by
  rw [List.filter_filter]
  apply List.filter_congr
  intro x hx
  cases ha : a x with
  | false => simp
  | true => simp [h x hx ha]

theorem keepDefs_get (idxs : List Int) : ∀ (D : List Def) (pos : Nat) (n : FNode), n ∈ keepDefs idxs pos D →
    ∃ d, D[n.src - pos]? = some d ∧ 0 ≤ d.index ∧ pos ≤ n.src
  | [], _, n, h => by simp [keepDefs] at h
  | d :: ds, pos, n, h => by
    by_cases hi : d.index < 0
    · simp only [keepDefs, hi, if_true] at h
      obtain ⟨d', h1, h2, h3⟩ := keepDefs_get idxs ds (pos + 1) n h
      refine ⟨d', ?_, h2, by omega⟩
      have e : n.src - pos = (n.src - (pos + 1)) + 1 := by omega
      rw [e, List.getElem?_cons_succ]; exact h1
    · simp only [keepDefs, hi, if_false, List.mem_cons] at h
      rcases h with h | h
      · subst h
        exact ⟨d, by simp, by omega, by simp⟩
      · obtain ⟨d', h1, h2, h3⟩ := keepDefs_get idxs ds (pos + 1) n h
        refine ⟨d', ?_, h2, by omega⟩
        have e : n.src - pos = (n.src - (pos + 1)) + 1 := by omega
        rw [e, List.getElem?_cons_succ]; exact h1

theorem kept_def (labels : List Bytes) (evs : List Event) (fn : FNode) (h : fn ∈ (transform labels evs).nodes) :
    ∃ d, (transform labels evs).defs[fn.src]? = some d ∧ 0 ≤ d.index := by
  simp only [transform] at h ⊢
  have := (sortChildren_perm _).mem_iff.1 h
  obtain ⟨d, h1, h2, _⟩ := keepDefs_get _ _ 0 fn this
  exact ⟨d, by simpa using h1, h2⟩

theorem nat_of_nonneg {l : Link} (h : 0 ≤ l.index) : nat l = l := by
  cases l with
  | mk i rc ri => simp only [nat, Link.mk.injEq, and_true]; simp only at h; omega

theorem event_label_mem (labels : List Bytes) (e : RawEv) (h : e.k < labels.length) : (e.event labels).label ∈ labels := by
  simp only [RawEv.event, List.getD_eq_getElem?_getD, List.getElem?_eq_getElem h, Option.getD_some]
  exact List.getElem_mem h

theorem host_isNone_eq (h : Option Nat) : h.isNone = (h == none) := by cases h <;> rfl

/-- the links of the tree after `fill`, by enclosing Footnote, are the transformer's numbered links -/
theorem filled_links (labels : List Bytes) (t : GM.Node)
    (hk : ∀ e ∈ evNode false none t, e.k < labels.length) (q : Option Nat)
    (hq : ∀ x ∈ pairs labels (events labels t), Pq' q x = true →
      isRendered (transform labels (events labels t)).defs x.1 = true) :
    linksH q none (fill (linkFields (transform labels (events labels t))) t).1 =
      ((transform labels (events labels t)).links.filter (Pq' q)).map (·.2) := by
  have hres : ∀ e ∈ events labels t, e.label ∈ labels := by
    intro e he
    simp only [events, List.mem_map] at he
    obtain ⟨r, hr, rfl⟩ := he
    exact event_label_mem labels r (hk r hr)
  have hP := pairs_fst labels (events labels t) hres
  have hF : linkFields (transform labels (events labels t)) = (pairs labels (events labels t)).map (·.2) := rfl
  have hlen : (evNode false none t).length ≤ (linkFields (transform labels (events labels t))).length := by
    rw [hF, List.length_map]
    have h1 := congrArg List.length hP
    rw [List.length_map] at h1
    have h2 : (events labels t).length = (evNode false none t).length := by simp [events]
    omega
  rw [fill_links q t _ none hlen, hF, pick_pairs q labels _ _ (by rw [hP]; rfl)]
  rw [filter_of_imp (Pq' q) (fun p => isRendered (transform labels (events labels t)).defs p.1) _ hq,
    pairs_rendered]
  rw [List.map_map]
  apply List.map_congr_left
  intro x hx
  have hx' := (List.mem_filter.1 hx).1
  obtain ⟨k, h1, _, h3⟩ := (facts [] labels (events labels t)).link_idx x hx'
  simp only [Function.comp]
  exact nat_of_nonneg (by rw [h3]; omega)

/-- what the shape of the tree in front of the transformer says about the tree after `fill` -/
theorem shape_fill (labels : List Bytes) (t : GM.Node) (fs : List Link) (hb : bodyOKB t = true) (hnb : noBacksB t = true)
    (hl : (match listsOf t with
      | [] => true
      | [cs] => notesOKB 0 cs && cs.length == labels.length
      | _ => false) = true) :
    bodyOKB (fill fs t).1 = true ∧ noBacksB (fill fs t).1 = true ∧ HL (listsOf (fill fs t).1) ∧
    (listsOf (fill fs t).1 = [] ∨ ∃ c, listsOf (fill fs t).1 = [c]) := by
  have hskel := skel_fill t fs
  refine ⟨by rw [← bodyOKB_skel, hskel, bodyOKB_skel]; exact hb, by rw [← noBacksB_skel, hskel, noBacksB_skel]; exact hnb, ?_⟩
  have hm : (listsOf (fill fs t).1).map skelL = (listsOf t).map skelL := by rw [← listsOf_skel, hskel, listsOf_skel]
  cases hlt : listsOf t with
  | nil =>
    rw [hlt] at hm
    simp only [List.map_nil, List.map_eq_nil_iff] at hm
    rw [hm]
    exact ⟨fun cs hc => by simp at hc, Or.inl rfl⟩
  | cons c rest =>
    cases rest with
    | nil =>
      rw [hlt] at hm hl
      simp only [Bool.and_eq_true] at hl
      cases hl' : listsOf (fill fs t).1 with
      | nil => rw [hl'] at hm; simp at hm
      | cons c' rest' =>
        rw [hl'] at hm
        simp only [List.map_cons, List.map_nil, List.cons.injEq, List.map_eq_nil_iff] at hm
        obtain ⟨h1, h2⟩ := hm
        subst h2
        refine ⟨?_, Or.inr ⟨c', rfl⟩⟩
        intro cs hc
        simp only [List.mem_singleton] at hc
        subst hc
        rw [← notesOKB_skel, h1, notesOKB_skel]
        exact hl.1
    | cons c2 rest2 => rw [hlt] at hl; simp at hl

theorem flatMap_congr' {α β : Type} (l : List α) (f g : α → List β) (h : ∀ x ∈ l, f x = g x) : l.flatMap f = l.flatMap g := by
  induction l with
  | nil => rfl
  | cons x rest ih =>
    simp only [List.flatMap_cons, h x (by simp), ih (fun y hy => h y (by simp [hy]))]

/-- **the tree the transformer builds shows the output of the abstraction** (a FootnoteList is in the context) -/
theorem tree_shows_list (pre : Bytes) (labels : List Bytes) (t : GM.Node) (hs : shapeOKB true labels t = true) :
    treeOutput pre (finishDoc true (transform labels (events labels t)) t) = absOutput pre labels (events labels t) := by
  obtain ⟨k, a, cs⟩ := t
  simp only [shapeOKB, Bool.and_eq_true, Bool.true_or, and_true, List.all_eq_true, decide_eq_true_eq] at hs
  obtain ⟨⟨⟨⟨hb, hd⟩, hnb⟩, hlists⟩, hk⟩ := hs
  have hdoc : k = .document := by
    cases k <;> simp [GM.Node.kind, isDocKind] at hd
    rfl
  subst hdoc
  generalize hevs : events labels (.mk .document a cs) = evs
  have Fni : ∀ fn ∈ (transform labels evs).nodes, ∃ k : Nat, 1 ≤ k ∧ fn.index = (k : Int) := by
    intro fn hfn
    obtain ⟨k, h1, _, h3⟩ := node_index (facts pre labels evs) fn hfn
    exact ⟨k, h1, h3⟩
  have Fnb : ∀ fn ∈ (transform labels evs).nodes, ∀ b ∈ fn.backs, b.index = fn.index := by
    intro fn hfn b hb
    rw [(facts pre labels evs).node_backs fn hfn] at hb
    exact (mem_backlinks.1 hb).1
  have Fkd : ∀ fn ∈ (transform labels evs).nodes, ∃ d, (transform labels evs).defs[fn.src]? = some d ∧ 0 ≤ d.index :=
    fun fn hfn => kept_def labels evs fn hfn
  have Fab : absOutput pre labels evs =
      ((if (transform labels evs).listed then (transform labels evs).nodes.map (renderItem pre) else []).map
          (fun it => (it.id, it.backs)),
       (renderedLinks (transform labels evs)).map fun p => renderRef pre p.2) := rfl
  have FL1 := fun q hq => filled_links labels (.mk .document a cs) hk q hq
  rw [hevs] at FL1
  generalize htr : transform labels evs = tr at Fni Fnb Fkd Fab FL1
  -- the tree after `fill`
  obtain ⟨hb', hnb', hHL, hone⟩ := shape_fill labels (.mk .document a cs) (linkFields tr) hb hnb hlists
  have ht' : (fill (linkFields tr) (.mk .document a cs)).1 = .mk .document a (fillL (linkFields tr) cs).1 := by simp [fill]
  have B := body_node _ hb' (by rw [ht']; rfl) hHL
  -- links by enclosing Footnote
  have hnone : linksH none none (fill (linkFields tr) (.mk .document a cs)).1 = (bodyLinks tr.links).map (·.2) := by
    have := FL1 none (by
      intro x _ hx
      simp only [Pq', Bool.and_eq_true, Bool.not_eq_true', beq_iff_eq] at hx
      simp [isRendered, hx.1, hx.2])
    rw [this]
    simp only [bodyLinks, host_isNone_eq]
    rfl
  have hsome : ∀ fn ∈ tr.nodes, linksH (some fn.src) none (fill (linkFields tr) (.mk .document a cs)).1 =
      (hostedLinks tr.links fn).map (·.2) := by
    intro fn hfn
    obtain ⟨d, hd1, hd2⟩ := Fkd fn hfn
    have := FL1 (some fn.src) (by
      intro x _ hx
      simp only [Pq', Bool.and_eq_true, Bool.not_eq_true', beq_iff_eq] at hx
      simp [isRendered, hx.1, hx.2, hd1, hd2])
    rw [this]
    rfl
  -- the notes the list node is built from
  have hnotes : ∀ j, noteLinks ((listsOf (fill (linkFields tr) (.mk .document a cs)).1).head?.getD []) j =
      (listsOf (fill (linkFields tr) (.mk .document a cs)).1).flatMap (fun c => noteLinks c j) := by
    intro j
    rcases hone with h0 | ⟨c, h1⟩
    · rw [h0]; simp [noteLinks]
    · rw [h1]; simp
  have hnb2 : ∀ (j : Nat) (k : GM.Kind) (a' : Option (List GM.Attr)) (ks : List GM.Node),
      ((listsOf (fill (linkFields tr) (.mk .document a cs)).1).head?.getD [])[j]? = some (GM.Node.mk k a' ks) →
      noBacksBL ks = true := by
    intro j k a' ks hg
    rcases hone with h0 | ⟨c, h1⟩
    · rw [h0] at hg; simp at hg
    · rw [h1] at hg
      simp only [List.head?_cons, Option.getD_some] at hg
      have hc1 := noBacks_lists _ hnb' c (by rw [h1]; simp)
      have hc2 := hHL c (by rw [h1]; simp)
      have hk' := notesOKB_get c 0 j k a' ks hc2 hg
      exact noBacksL_get c j k a' ks hc1 (Or.inr trivial) hg (by rw [hk']; rfl)
  have LN := listNode_spec tr _ hnb2
  -- the final tree
  have hfin : finishDoc true tr (.mk .document a cs) =
      .mk .document a (dropListsL (fillL (linkFields tr) cs).1 ++
        (if tr.listed then [listNode tr ((listsOf (fill (linkFields tr) (.mk .document a cs)).1).head?.getD [])] else [])) := by
    simp only [finishDoc, Bool.not_true, Bool.false_eq_true, if_false, ht', dropLists]
  have hB1 : linksOfL (dropListsL (fillL (linkFields tr) cs).1) = (bodyLinks tr.links).map (·.2) := by
    have := B.1
    rw [ht'] at this
    simp only [dropLists, linksOf] at this
    rw [this, ← ht', hnone]
  have hB2 : itemsOfL (dropListsL (fillL (linkFields tr) cs).1) = [] := by
    have := B.2.1
    rw [ht'] at this
    simpa only [dropLists, itemsOf] using this
  have hLinks : tr.nodes.flatMap (fun fn => noteLinks ((listsOf (fill (linkFields tr) (.mk .document a cs)).1).head?.getD []) fn.src) =
      (tr.nodes.flatMap (hostedLinks tr.links)).map (·.2) := by
    rw [List.map_flatMap]
    apply flatMap_congr'
    intro fn hfn
    rw [hnotes, ← B.2.2 fn.src, hsome fn hfn]
  -- items
  have hItems : (tr.nodes.map fun fn => (fn.index.toNat, fn.backs.map nat)).map
        (fun p => (itemId pre (p.1 : Int), p.2.map (linkId pre))) =
      (tr.nodes.map (renderItem pre)).map (fun it => (it.id, it.backs)) := by
    rw [List.map_map, List.map_map]
    apply List.map_congr_left
    intro fn hfn
    obtain ⟨k, h1, h3⟩ := Fni fn hfn
    simp only [Function.comp, renderItem, Prod.mk.injEq]
    refine ⟨by rw [h3]; simp, ?_⟩
    rw [List.map_map]
    apply List.map_congr_left
    intro b hbm
    have := Fnb fn hfn b hbm
    simp only [Function.comp]
    rw [nat_of_nonneg (by rw [this, h3]; omega)]
  rw [hfin, Fab]
  simp only [treeOutput, linksOf, itemsOf, linksOfL_append, itemsOfL_append, hB1, hB2, List.nil_append]
  cases hl : tr.listed with
  | false =>
    simp [renderedLinks, hl, linksOfL, itemsOfL, List.map_map]
  | true =>
    simp only [if_true, linksOfL, itemsOfL, List.append_nil, LN.1, LN.2, hLinks, hItems, renderedLinks, hl,
      List.map_append, List.map_map]
    rfl

/-! ### without a FootnoteList in the context -/

mutual
theorem noEvents_linksH (q h : Option Nat) : ∀ n : GM.Node, evNode false h n = [] → linksH q h n = []
  | .mk k a cs, he => by
    cases k
    case footnoteLink i rc ri => simp [evNode] at he
    case image d t => simp [linksH]
    case footnote j =>
      simp only [evNode] at he
      simp only [linksH, noEventsL_linksHL q (some j) cs he]
    all_goals
      simp only [evNode] at he
      simp only [linksH, noEventsL_linksHL q h cs he]
theorem noEventsL_linksHL (q h : Option Nat) : ∀ ns : List GM.Node, evNodes false h ns = [] → linksHL q h ns = []
  | [], _ => rfl
  | n :: rest, he => by
    simp only [evNodes, List.append_eq_nil_iff] at he
    simp only [linksHL, noEvents_linksH q h n he.1, noEventsL_linksHL q h rest he.2, List.append_nil]
end

mutual
theorem dropLists_id : ∀ n : GM.Node, listsOf n = [] → dropLists n = n
  | .mk k a cs, hl => by
    cases k
    case footnoteList => simp [listsOf] at hl
    all_goals
      simp only [listsOf] at hl
      simp only [dropLists, dropListsL_id cs hl]
theorem dropListsL_id : ∀ ns : List GM.Node, listsOfL ns = [] → dropListsL ns = ns
  | [], _ => rfl
  | .mk k a cs :: rest, hl => by
    simp only [listsOfL, List.append_eq_nil_iff] at hl
    cases k
    case footnoteList => simp [listsOf] at hl
    all_goals
      simp only [dropListsL, dropLists_id _ hl.1, dropListsL_id rest hl.2]
end

theorem absOutput_nil (pre : Bytes) (labels : List Bytes) : absOutput pre labels [] = ([], []) := by
  simp [absOutput, GM.Footnote.render, transform, inlinePhase, renderedLinks, bodyLinks, numberLinks]

/-- without a FootnoteList in the context the transformer returns the tree, which holds no item and no reference -/
theorem tree_shows_nolist (pre : Bytes) (labels : List Bytes) (t : GM.Node) (hs : shapeOKB false labels t = true) :
    treeOutput pre (finishDoc false (transform labels (events labels t)) t) = absOutput pre labels (events labels t) := by
  simp only [shapeOKB, Bool.and_eq_true, Bool.false_or, List.isEmpty_iff] at hs
  obtain ⟨⟨⟨⟨⟨hb, hd⟩, _⟩, _⟩, _⟩, he, hl⟩ := hs
  have hf : isFootKind t.kind = false := by simpa using hd
  have B := body_node t hb hf (by rw [hl]; intro cs hc; simp at hc)
  rw [dropLists_id t hl] at B
  have hev : events labels t = [] := by simp [events, he]
  rw [hev, absOutput_nil]
  simp only [finishDoc, Bool.not_false, if_true, treeOutput, B.2.1, B.1, noEvents_linksH none none t he, List.map_nil]

/-- **the tree the renderer receives shows exactly the output of GM.Footnote.render on its abstraction** -/
theorem tree_shows (hasList : Bool) (pre : Bytes) (labels : List Bytes) (t : GM.Node) (hs : shapeOKB hasList labels t = true) :
    treeOutput pre (finishDoc hasList (transform labels (events labels t)) t) = absOutput pre labels (events labels t) := by
  cases hasList with
  | false => exact tree_shows_nolist pre labels t hs
  | true => exact tree_shows_list pre labels t hs

end GM.ConvertF
