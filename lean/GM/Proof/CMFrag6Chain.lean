/-
  GM.Proof.CMFrag6Chain — stage 6: the loops of parseBlocks over a document whose blocks may follow each other without a
  blank line. `blocksLoopT` opens the first block of a run of blocks; `linesLoopT` then runs through the whole run
  (every further block is opened while its predecessor is still open) until a blank line, the end of the source, or
  the closing fence of a fenced code block.
-/
import GM.Proof.CMFrag6Abut

namespace GM.Proof.CMFrag
open GM GM.Text GM.Blocks GM.Spec

/-- the tail of one iteration of `blocksLoopT`: the per-line loop, then the next iteration -/
def tailT (fl fb : Nat) (bl : List LineStat) : M Unit := do
  let (ret, bl') ← linesLoopT pts 0 fl bl
  if ret then pure () else blocksLoopT pts 0 fb bl'

theorem tailT_of_lines {fl fb : Nat} {bl : List LineStat} {s : St} {ret : Bool} {bl' : List LineStat} {s1 : St}
    (h : linesLoopT pts 0 fl bl s = .ok ((ret, bl'), s1)) :
    tailT fl fb bl s = (if ret = true then pure () else blocksLoopT pts 0 fb bl') s1 := by
  unfold tailT
  simp only [bind_apply, h]

section chain
variable {src : Bytes}

/-- the per-line loop over the continuation lines `more` of the open paragraph, up to the line behind the paragraph -/
theorem para_body (d : Blocks.Node) (rest : List Blocks.Node) (b : Bool) (P : Nat) :
    ∀ (more done : List Bytes) (k : Int) (fl : Nat) (bl : List LineStat) (pc : Ctx),
      ParaAt src (P + (paraBytes done).length) more → (∀ l ∈ more, BlkLine l) →
      pc.opened = [{ node := rest.length + 1, bp := .paragraph }] →
      ∃ bl' k' pc', pc'.opened = pc.opened ∧ pc'.refs = pc.refs ∧
        linesLoopT pts 0 (fl + more.length) bl
            ⟨rdr src k (P + (paraBytes done).length) (P + (paraBytes done).length)
              (lineEnd src (P + (paraBytes done).length)) none (-1),
              d :: (rest ++ [paraN (openSegs P done) b]), pc⟩ =
          linesLoopT pts 0 fl bl'
            ⟨rdr src k' (P + (paraBytes (done ++ more)).length) (P + (paraBytes (done ++ more)).length)
              (lineEnd src (P + (paraBytes (done ++ more)).length)) none (-1),
              d :: (rest ++ [paraN (openSegs P (done ++ more)) b]), pc'⟩ := by
  intro more
  induction more with
  | nil =>
    intro done k fl bl pc _ _ _
    exact ⟨bl, k, pc, rfl, rfl, by simp⟩
  | cons l more ih =>
    intro done k fl bl pc hm hb hop
    obtain ⟨hl, hm'⟩ := hm
    obtain ⟨c, t, hlc, hc⟩ := (hb l (by simp)).first
    have eq1 : P + (paraBytes (done ++ [l])).length = P + (paraBytes done).length + l.length + 1 := by
      rw [paraBytes_snoc_len]; omega
    have eapp : done ++ l :: more = (done ++ [l]) ++ more := by simp
    have e1 : (((1 : Nat) : Int) - 1) = 0 := by decide
    have e0 : ((1 : Nat) == 0) = false := rfl
    obtain ⟨bl', k', pc', ho', hr', h1⟩ :=
      ih (done ++ [l]) (k + 1) fl (bl ++ [{ lineNum := k, level := 0, isBlank := isBlank (l ++ [10]) }])
        { pc with blockOffset := 0, blockIndent := 0 } (by rw [eq1]; exact hm') (fun x hx => hb x (by simp [hx])) hop
    refine ⟨bl', k', pc', ho', hr', ?_⟩
    have efl : fl + (l :: more).length = (fl + more.length) + 1 := by simp; omega
    rw [efl, linesLoopT]
    simp only [bind_apply, getPc_run, hop, List.length_singleton, e1, e0, Bool.false_eq_true, if_false]
    rw [hl.lineEnd]
    rw [lineLoop_cont hl (c := c) (t := t ++ [10]) (by rw [hlc]; rfl) hc k d rest (openSegs P done) b pc hop bl]
    simp only [advanceLine_run, bind_apply]
    rw [openSegs_append, eq1] at h1
    rw [eapp]
    exact h1

/-- the previous block — all of its lines have been read, the reader stands at `q`, the line behind it — is still
    open: `x` its node now, `xc` its node once closed, `pbp` its parser -/
inductive OpenPrev (src : Bytes) : Nat → Blocks.Node → Blocks.Node → BP → Prop
  | leaf (q : Nat) (pbp : BP) (x : Blocks.Node) (hbp : closingBP pbp) (hk : x.kind ≠ .paragraph) (hpar : x.parent = some 0) :
      OpenPrev src q x x pbp
  | para (P : Nat) (ls : List Bytes) (b : Bool) (hne : ls ≠ []) (hpa : ParaAt src P ls) (hb : ∀ l ∈ ls, BlkLine l) :
      OpenPrev src (P + (paraBytes ls).length) (paraN (openSegs P ls) b) (paraN (paraSegs P ls) b) .paragraph

theorem OpenPrev.parent {q x xc pbp} (h : OpenPrev src q x xc pbp) : x.parent = some 0 := by
  cases h with
  | leaf _ _ _ _ _ hpar => exact hpar
  | para _ _ _ _ _ _ => rfl

/-- the previous block is closed by a blank line or by the end of the source -/
theorem prev_end {q : Nat} {x xc : Blocks.Node} {pbp : BP} (hprev : OpenPrev src q x xc pbp) (d : Blocks.Node)
    (rest : List Blocks.Node) (k : Int) (fuel : Nat) (bl : List LineStat) (pc : Ctx) (haft : After src q) (hf : 2 ≤ fuel)
    (hop : pc.opened = [{ node := rest.length + 1, bp := pbp }]) :
    ∃ ret bl' s',
      linesLoopT pts 0 fuel bl ⟨rdr src k q q (lineEnd src q) none (-1), d :: (rest ++ [x]), pc⟩ = .ok ((ret, bl'), s') ∧
        s'.nodes = d :: (rest ++ [xc]) ∧ s'.pc.opened = [] ∧ s'.pc.refs = pc.refs ∧
        ((ret = true ∧ q = src.length) ∨
         (ret = false ∧ Ln src q (q + 1) [10] ∧
            ∃ k', s'.r = rdr src k' (q + 1) (q + 1) (lineEnd src (q + 1)) none (-1))) := by
  cases hprev with
  | leaf _ _ _ hbp hk hpar => exact linesLoop_leaf pbp hbp d rest x hk hpar q k fuel bl pc haft hf hop
  | para P ls b hne hpa hb =>
    have := linesLoop_para (src := src) d rest b P [] ls k fuel bl pc hne hpa trivial (by simpa using hb)
      (by simpa using haft) (by simpa using hf) hop
    simpa using this

theorem set_pen (d : Blocks.Node) (rest : List Blocks.Node) (x y n : Blocks.Node) :
    (d :: ((rest ++ [x]) ++ [n])).set (rest.length + 1) y = d :: ((rest ++ [y]) ++ [n]) := by
  simp [List.set_append_left, List.set_append_right]

/-- the first line of a block directly behind the previous block: the block is opened, the previous one closed -/
theorem abut_generic {q e : Nat} {v : Bytes} {x xc : Blocks.Node} {pbp : BP} (hprev : OpenPrev src q x xc pbp)
    (hl : Ln src q e v) (c0 : UInt8) (hidx : idx v 0 = .ok c0) (h10 : (c0 == 10) = false)
    (hiw : indentWidthI v 0 = (0, 0)) (k : Int) (d : Blocks.Node) (rest : List Blocks.Node) (pc : Ctx)
    (hop : pc.opened = [{ node := rest.length + 1, bp := pbp }]) (bl : List LineStat)
    (r' : Reader) (hr' : r'.source = src) (nn : Bool → Blocks.Node) (nbp : BP) (pcS : Ctx)
    (hpcS : pcS.opened = [{ node := rest.length + 1, bp := pbp }, { node := (rest ++ [x]).length + 1, bp := nbp }])
    (htry : ∀ bk, tryParsersT pts 0 bk (x.kind == .paragraph) 0 ((triggered c0).getD freeParsers) .noBlocksOpened
        (some { node := rest.length + 1, bp := pbp })
        ⟨rdr src k q q e (some v) 0, d :: (rest ++ [x]), { pc with blockOffset := 0, blockIndent := 0 }⟩ =
      .ok ((.done, .newBlocksOpened, some { node := rest.length + 1, bp := pbp }),
        ⟨r', { d with children := d.children ++ [(rest ++ [x]).length + 1] } :: ((rest ++ [x]) ++ [nn bk]), pcS⟩)) :
    ∃ bk, lineLoopT pts 0 [{ node := rest.length + 1, bp := pbp }] 0 [{ node := rest.length + 1, bp := pbp }] 0 bl
        ⟨rdr src k q q e none (-1), d :: (rest ++ [x]), pc⟩ =
      .ok ((.next, bl ++ [{ lineNum := k, level := 0, isBlank := isBlank v }]),
        ⟨r', { d with children := d.children ++ [(rest ++ [x]).length + 1] } :: ((rest ++ [xc]) ++ [nn bk]),
          { pcS with opened := [{ node := (rest ++ [x]).length + 1, bp := nbp }] }⟩) := by
  have hgx : ∀ (bk : Bool), ({ d with children := d.children ++ [(rest ++ [x]).length + 1] } ::
      ((rest ++ [x]) ++ [nn bk])).getD (rest.length + 1) default = x := fun bk => getD_pen d rest x _ _
  cases hprev with
  | leaf _ _ _ hbp hk hpar =>
    have hkf : (x.kind == .paragraph) = false := by simp [hk]
    rw [hkf] at htry
    obtain ⟨bk, h⟩ := lineLoop6_leaf hl c0 hidx h10 hiw pbp hbp k d rest x hk hpar pc hop bl
      { node := (rest ++ [x]).length + 1, bp := nbp }
      (fun bk => ⟨r', { d with children := d.children ++ [(rest ++ [x]).length + 1] } :: ((rest ++ [x]) ++ [nn bk]), pcS⟩)
      (fun _ => hpcS) hgx htry
    exact ⟨bk, h⟩
  | para P ls b hne hpa hb =>
    have hkt : ((paraN (openSegs P ls) b).kind == .paragraph) = true := rfl
    rw [hkt] at htry
    obtain ⟨bk, h⟩ := lineLoop6_para hne hpa hb hl c0 hidx h10 hiw k d rest b pc hop bl
      { node := (rest ++ [paraN (openSegs P ls) b]).length + 1, bp := nbp }
      (fun bk => ⟨r', { d with children := d.children ++ [(rest ++ [paraN (openSegs P ls) b]).length + 1] } ::
        ((rest ++ [paraN (openSegs P ls) b]) ++ [nn bk]), pcS⟩)
      (fun _ => hpcS) hgx (fun bk => by simp) (fun _ => hr') htry
    refine ⟨bk, ?_⟩
    rw [h]
    simp only [set_pen]

/-! ### the state behind the first line of a block -/

/-- the parser of a block -/
def bp5 : Raw5 → BP
  | .old (.para _) => .paragraph
  | .old (.atx _ _) => .atx
  | .old (.hr _) => .thematic
  | .fence _ _ _ _ => .fenced

/-- the node of a block right after `Open` (first line from `p` to `e`) -/
def first5 (p e : Nat) : Raw5 → Bool → Blocks.Node
  | .old (.para _), bk => paraN [sg p e] bk
  | .old (.atx level _), bk => headN level [sg (p + level + 1) (e - 1)] bk
  | .old (.hr _), bk => hrN bk
  | .fence _ n info _, bk => fenceN (if info.isEmpty then none else some (sg (p + n + 3) (e - 1))) [] bk

/-- the parse context right after `Open` of a block whose node is `m + 1` -/
def pcAF (b : Raw5) (m : Nat) (pc : Ctx) : Ctx :=
  match b with
  | .fence fc n _ _ =>
    { pc with blockOffset := 0, blockIndent := 0, opened := [{ node := m + 1, bp := .fenced }],
              fence := some (fdOf fc n (m + 1)) }
  | b => { pc with blockOffset := 0, blockIndent := 0, opened := [{ node := m + 1, bp := bp5 b }] }

/-- the first line of a block (with its line feed) -/
def firstLine : Raw5 → Bytes
  | b => (lines5 b).headD [] ++ [10]

/-- may block `b` directly follow the previous block (`isPara`: the previous block is a paragraph)? -/
def AbutOK5 (isPara : Bool) : Raw5 → Prop
  | .old (.para _) => isPara = false
  | .old (.hr h) => isPara = true → h.head? ≠ some 45
  | _ => True

/-- the state at the start of the line behind the first line of block `b` (which went from `p` to `e`) -/
def AF (src : Bytes) (k : Int) (e : Nat) (d : Blocks.Node) (cs : List Blocks.Node) (b : Raw5) (p : Nat) (bk : Bool)
    (pc : Ctx) : St :=
  ⟨rdr src k e e (lineEnd src e) none (-1),
    { d with children := d.children ++ [cs.length + 1] } :: (cs ++ [first5 p e b bk]), pcAF b cs.length pc⟩

theorem paraKind_of {q x xc pbp} (h : OpenPrev src q x xc pbp) : ∃ isPara : Bool, (x.kind == .paragraph) = isPara ∧
    (isPara = true → pbp = .paragraph) := by
  cases h with
  | leaf _ _ _ _ hk _ => exact ⟨false, by simp [hk], fun h => by cases h⟩
  | para _ _ _ _ _ _ => exact ⟨true, rfl, fun _ => rfl⟩

/-- one pass of the per-line loop that ends with `.next`, then AdvanceLine -/
theorem pass_next {q e p' : Nat} {v : Bytes} (hl : Ln src q e v) (k : Int) (N nodes' : List Blocks.Node) (pc pc' : Ctx)
    (blk : Block) (hop : pc.opened = [blk]) (bl BL : List LineStat) (pk : Option Bytes) (lo : Int) (fl : Nat)
    (hp : lineLoopT pts 0 [blk] 0 [blk] 0 bl ⟨rdr src k q q e none (-1), N, pc⟩ =
      .ok ((.next, BL), ⟨rdr src k q p' e pk lo, nodes', pc'⟩)) :
    linesLoopT pts 0 (fl + 1) bl ⟨rdr src k q q (lineEnd src q) none (-1), N, pc⟩ =
      linesLoopT pts 0 fl BL ⟨rdr src (k + 1) e e (lineEnd src e) none (-1), nodes', pc'⟩ := by
  have e1 : (((1 : Nat) : Int) - 1) = 0 := by decide
  have e0 : ((1 : Nat) == 0) = false := rfl
  rw [linesLoopT]
  simp only [bind_apply, getPc_run, hop, List.length_singleton, e1, e0, Bool.false_eq_true, if_false]
  rw [hl.lineEnd, hp]
  simp only [bind_apply, advanceLine_run]

/-- one pass of the per-line loop on the first line of block `b` directly behind the open previous block -/
theorem abut_any {q e : Nat} {x xc : Blocks.Node} {pbp : BP} (hprev : OpenPrev src q x xc pbp) (b : Raw5) (hg : Good5 b)
    (hl : Ln src q e (firstLine b)) (hab : AbutOK5 (x.kind == .paragraph) b) (k : Int) (d : Blocks.Node)
    (rest : List Blocks.Node) (pc : Ctx) (hop : pc.opened = [{ node := rest.length + 1, bp := pbp }]) (bl : List LineStat)
    (fl : Nat) :
    ∃ BL bk, linesLoopT pts 0 (fl + 1) bl ⟨rdr src k q q (lineEnd src q) none (-1), d :: (rest ++ [x]), pc⟩ =
      linesLoopT pts 0 fl BL (AF src (k + 1) e d (rest ++ [xc]) b q bk pc) := by
  have hxp := hprev.parent
  have hgx := getD_pen d rest x
  cases b with
  | old b' =>
    cases b' with
    | para ls =>
      obtain ⟨hne, hbk⟩ := hg
      cases ls with
      | nil => exact absurd rfl hne
      | cons l0 more =>
        obtain ⟨c, t, hlc, hc⟩ := (hbk l0 (by simp)).first
        obtain ⟨h32, h9, h10, hsp, htr, hbr⟩ := letter_facts c hc
        have hv : firstLine (.old (.para (l0 :: more))) = c :: (t ++ [10]) := by simp [firstLine, lines5, lines4, hlc]
        have hkf : (x.kind == .paragraph) = false := hab
        have hiw : indentWidthI (firstLine (.old (.para (l0 :: more)))) 0 = (0, 0) := by
          rw [hv]; unfold GM.Blocks.indentWidthI GM.Blocks.indentWidthGo; simp [h32, h9]
        have hidx : idx (firstLine (.old (.para (l0 :: more)))) 0 = .ok c := by rw [hv]; rfl
        have htl : (triggered c).getD freeParsers = [.code, .paragraph] := by rw [htr]; rfl
        obtain ⟨bk, hp⟩ := abut_generic hprev hl c hidx h10 hiw k d rest pc hop bl
          (rdr src k q (e - 1) e none (-1)) rfl (fun bk => paraN [sg q e] bk) .paragraph
          { pc with blockOffset := 0, blockIndent := 0,
                    opened := [{ node := rest.length + 1, bp := pbp }, { node := (rest ++ [x]).length + 1, bp := .paragraph }] }
          rfl (fun bk => by
            rw [hkf, htl]
            exact try6_line hl hv hc pts k d (rest ++ [x]) (rest.length + 1) x hgx hxp pbp
              { pc with blockOffset := 0, blockIndent := 0 } hop bk)
        refine ⟨bl ++ [{ lineNum := k, level := 0, isBlank := isBlank (firstLine (.old (.para (l0 :: more)))) }], bk, ?_⟩
        rw [pass_next hl k _ _ pc _ _ hop bl _ _ _ fl hp]
        simp [AF, first5, pcAF, bp5]
    | atx level l =>
      obtain ⟨h1l, h6l, hbl', hlast⟩ := hg
      obtain ⟨m, rfl⟩ : ∃ m, level = m + 1 := ⟨level - 1, by omega⟩
      have hv : firstLine (.old (.atx (m + 1) l)) = List.replicate (m + 1) 35 ++ 32 :: (l ++ [10]) := by
        simp [firstLine, lines5, lines4]
      have hiw : indentWidthI (firstLine (.old (.atx (m + 1) l))) 0 = (0, 0) := by
        rw [hv, List.replicate_succ]; unfold GM.Blocks.indentWidthI GM.Blocks.indentWidthGo; simp
      have hidx : idx (firstLine (.old (.atx (m + 1) l))) 0 = .ok 35 := by rw [hv, List.replicate_succ]; rfl
      have htl : (triggered 35).getD freeParsers = [.atx, .code, .paragraph] := by decide
      obtain ⟨bk, hp⟩ := abut_generic hprev hl 35 hidx (by decide) hiw k d rest pc hop bl
        (rdr src k q q e (some (firstLine (.old (.atx (m + 1) l)))) 0) rfl
        (fun bk => headN (m + 1) [sg (q + (m + 1) + 1) (e - 1)] bk) .atx
        { pc with blockOffset := 0, blockIndent := 0,
                  opened := [{ node := rest.length + 1, bp := pbp }, { node := (rest ++ [x]).length + 1, bp := .atx }] }
        rfl (fun bk => by
          rw [htl]
          exact try6_atx hl (m + 1) l hv h1l h6l hbl' hlast _ pts k d (rest ++ [x]) (rest.length + 1) x hgx hxp pbp
            { pc with blockOffset := 0, blockIndent := 0 } hop rfl bk)
      refine ⟨bl ++ [{ lineNum := k, level := 0, isBlank := isBlank (firstLine (.old (.atx (m + 1) l))) }], bk, ?_⟩
      rw [pass_next hl k _ _ pc _ _ hop bl _ _ _ fl hp]
      simp [AF, first5, pcAF, bp5]
    | hr h =>
      obtain ⟨ch, n, hch, hh⟩ := hg
      have hv : firstLine (.old (.hr h)) = List.replicate (n + 3) ch ++ [10] := by simp [firstLine, lines5, lines4, hh]
      have hfacts : (ch == 32) = false ∧ (ch == 9) = false ∧ (ch == 10) = false := by
        rcases hch with h' | h' | h' <;> subst h' <;> decide
      have hiw : indentWidthI (firstLine (.old (.hr h))) 0 = (0, 0) := by
        rw [hv, List.replicate_succ]; unfold GM.Blocks.indentWidthI GM.Blocks.indentWidthGo; simp [hfacts.1, hfacts.2.1]
      have hidx : idx (firstLine (.old (.hr h))) 0 = .ok ch := by rw [hv, List.replicate_succ]; rfl
      have hset : ch = 45 → (x.kind == .paragraph) = false := by
        intro h45
        cases hk : (x.kind == .paragraph) with
        | false => rfl
        | true =>
          have := hab hk
          rw [hh, List.replicate_succ] at this
          simp [h45] at this
      obtain ⟨bk, hp⟩ := abut_generic hprev hl ch hidx hfacts.2.2 hiw k d rest pc hop bl
        (rdr src k q (e - 1) e none (-1)) rfl (fun bk => hrN bk) .thematic
        { pc with blockOffset := 0, blockIndent := 0,
                  opened := [{ node := rest.length + 1, bp := pbp }, { node := (rest ++ [x]).length + 1, bp := .thematic }] }
        rfl (fun bk => try6_hr hl ch hch n hv pts k d (rest ++ [x]) (rest.length + 1) x hgx hxp hset pbp
          { pc with blockOffset := 0, blockIndent := 0 } hop bk)
      refine ⟨bl ++ [{ lineNum := k, level := 0, isBlank := isBlank (firstLine (.old (.hr h))) }], bk, ?_⟩
      rw [pass_next hl k _ _ pc _ _ hop bl _ _ _ fl hp]
      simp [AF, first5, pcAF, bp5]
  | fence fc n info ls =>
    obtain ⟨hfc, hinfo, hcode⟩ := hg
    have hv : firstLine (.fence fc n info ls) = List.replicate (n + 3) fc ++ (info ++ [10]) := by
      simp [firstLine, lines5]
    have hfacts : (fc == 32) = false ∧ (fc == 9) = false ∧ (fc == 10) = false := by
      rcases hfc with h' | h' <;> subst h' <;> decide
    have hiw : indentWidthI (firstLine (.fence fc n info ls)) 0 = (0, 0) := by
      rw [hv, List.replicate_succ]; unfold GM.Blocks.indentWidthI GM.Blocks.indentWidthGo; simp [hfacts.1, hfacts.2.1]
    have hidx : idx (firstLine (.fence fc n info ls)) 0 = .ok fc := by rw [hv, List.replicate_succ]; rfl
    have htl : (triggered fc).getD freeParsers = [.fenced, .code, .paragraph] := by
      rcases hfc with h' | h' <;> subst h' <;> decide
    obtain ⟨bk, hp⟩ := abut_generic hprev hl fc hidx hfacts.2.2 hiw k d rest pc hop bl
      (rdr src k q q e (some (firstLine (.fence fc n info ls))) 0) rfl
      (fun bk => fenceN (if info.isEmpty then none else some (sg (q + n + 3) (e - 1))) [] bk) .fenced
      { pc with blockOffset := 0, blockIndent := 0,
                opened := [{ node := rest.length + 1, bp := pbp }, { node := (rest ++ [x]).length + 1, bp := .fenced }],
                fence := some { char := fc, indent := 0, length := ((n + 3 : Nat) : Int), node := (rest ++ [x]).length + 1 } }
      rfl (fun bk => by
        rw [htl]
        exact try6_fence hl fc hfc n info hinfo hv _ pts k d (rest ++ [x]) (rest.length + 1) x hgx hxp pbp
          { pc with blockOffset := 0, blockIndent := 0 } hop rfl bk)
    refine ⟨bl ++ [{ lineNum := k, level := 0, isBlank := isBlank (firstLine (.fence fc n info ls)) }], bk, ?_⟩
    rw [pass_next hl k _ _ pc _ _ hop bl _ _ _ fl hp]
    simp [AF, first5, pcAF, bp5, fdOf]

theorem isBlank_first (b : Raw5) (hg : Good5 b) : isBlank (firstLine b) = false := by
  cases b with
  | old b' =>
    cases b' with
    | para ls =>
      obtain ⟨hne, hbk⟩ := hg
      cases ls with
      | nil => exact absurd rfl hne
      | cons l0 more =>
        obtain ⟨c, t, hlc, hc⟩ := (hbk l0 (by simp)).first
        obtain ⟨_, _, _, hsp, _, _⟩ := letter_facts c hc
        simp [firstLine, lines5, lines4, hlc, isBlank, hsp]
    | atx level l =>
      obtain ⟨h1l, _, _, _⟩ := hg
      obtain ⟨m, rfl⟩ : ∃ m, level = m + 1 := ⟨level - 1, by omega⟩
      have : isSpace 35 = false := by decide
      simp [firstLine, lines5, lines4, List.replicate_succ, isBlank, this]
    | hr h =>
      obtain ⟨ch, n, hch, hh⟩ := hg
      have : isSpace ch = false := by rcases hch with h' | h' | h' <;> subst h' <;> decide
      simp [firstLine, lines5, lines4, hh, List.replicate_succ, isBlank, this]
  | fence fc n info ls =>
    have : isSpace fc = false := by rcases hg.1 with h' | h' <;> subst h' <;> decide
    simp [firstLine, lines5, List.replicate_succ, isBlank, this]

/-- one iteration of the outer loop up to behind the first line of block `b`, which is opened with nothing open -/
theorem open_any {q s e : Nat} (hbl : BlanksAt src q s) (b : Raw5) (hg : Good5 b) (hl : Ln src (q + s) e (firstLine b))
    (k : Int) (d : Blocks.Node) (cs : List Blocks.Node) (pc : Ctx) (hop : pc.opened = []) (bl : List LineStat) (f : Nat) :
    ∃ BL bk, blocksLoopT pts 0 (f + 1) bl ⟨rdr src k q q (lineEnd src q) none (-1), d :: cs, pc⟩ =
      tailT f f BL (AF src (k + s + 1) e d cs b (q + s) bk pc) := by
  have hnb := isBlank_first b hg
  refine ⟨if ((s : Int) != 0) = true then [] else bl,
    isBlankLine (k + (s : Int) - 1) 0 (if ((s : Int) != 0) = true then [] else bl), ?_⟩
  cases b with
  | old b' =>
    cases b' with
    | para ls =>
      obtain ⟨hne, hbk⟩ := hg
      cases ls with
      | nil => exact absurd rfl hne
      | cons l0 more =>
        obtain ⟨c, t, hlc, hc⟩ := (hbk l0 (by simp)).first
        have hv : firstLine (.old (.para (l0 :: more))) = c :: (t ++ [10]) := by simp [firstLine, lines5, lines4, hlc]
        rw [blocksLoopT]
        simp only [bind_apply, skipR_text k hbl hl hnb, Bool.not_true, Bool.false_eq_true, if_false, position_run,
          getPc_run, hop, List.length_nil, rdr_line, blankStats,
          openBlocks_line hl hv hc pts _ d cs pc hop _ (some (firstLine (.old (.para (l0 :: more))))) (Or.inr rfl)]
        simp only [bne_self_eq_false, Bool.false_eq_true, if_false, bind_apply, advanceLine_run, tailT, AF, first5, pcAF, bp5]
    | atx level l =>
      obtain ⟨h1l, h6l, hbl', hlast⟩ := hg
      have hv : firstLine (.old (.atx level l)) = List.replicate level 35 ++ 32 :: (l ++ [10]) := by
        simp [firstLine, lines5, lines4]
      rw [blocksLoopT]
      simp only [bind_apply, skipR_text k hbl hl hnb, Bool.not_true, Bool.false_eq_true, if_false, position_run,
        getPc_run, hop, List.length_nil, rdr_line, blankStats,
        openBlocks_atx hl level l hv h1l h6l hbl' hlast pts _ d cs pc hop _ _ (Or.inr rfl)]
      simp only [bne_self_eq_false, Bool.false_eq_true, if_false, bind_apply, advanceLine_run, tailT, AF, first5, pcAF, bp5]
    | hr h =>
      obtain ⟨ch, n, hch, hh⟩ := hg
      have hv : firstLine (.old (.hr h)) = List.replicate (n + 3) ch ++ [10] := by simp [firstLine, lines5, lines4, hh]
      rw [blocksLoopT]
      simp only [bind_apply, skipR_text k hbl hl hnb, Bool.not_true, Bool.false_eq_true, if_false, position_run,
        getPc_run, hop, List.length_nil, rdr_line, blankStats,
        openBlocks_hr hl ch hch n hv pts _ d cs pc hop _ _ (Or.inr rfl)]
      simp only [bne_self_eq_false, Bool.false_eq_true, if_false, bind_apply, advanceLine_run, tailT, AF, first5, pcAF, bp5]
  | fence fc n info ls =>
    obtain ⟨hfc, hinfo, hcode⟩ := hg
    have hv : firstLine (.fence fc n info ls) = List.replicate (n + 3) fc ++ (info ++ [10]) := by
      simp [firstLine, lines5]
    rw [blocksLoopT]
    simp only [bind_apply, skipR_text k hbl hl hnb, Bool.not_true, Bool.false_eq_true, if_false, position_run,
      getPc_run, hop, List.length_nil, rdr_line, blankStats,
      openBlocks_fence hl fc hfc n info hinfo hv pts _ d cs pc hop _ _ (Or.inr rfl)]
    simp only [bne_self_eq_false, Bool.false_eq_true, if_false, bind_apply, advanceLine_run, tailT, AF, first5, pcAF, bp5,
      fdOf]
end chain

end GM.Proof.CMFrag
