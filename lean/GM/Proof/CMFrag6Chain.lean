/-
  GM.Proof.CMFrag6Chain — stage 6: the loops of parseBlocks over a document whose blocks may follow each other without a
  blank line. `blocksLoopT` opens the first block of a run of blocks; `linesLoopT` then runs through the whole run
  (every further block is opened while its predecessor is still open) until a blank line, the end of the source, or
  the closing fence of a fenced code block.
-/
import GM.Proof.CMFrag12Code

namespace GM.Proof.CMFrag
open GM GM.Text GM.Blocks GM.Spec

/-- the tail of one iteration of `blocksLoopT`: the per-line loop, then the next iteration -/
def tailT (fl fb : Nat) (bl : List LineStat) : M Unit := do
  let (ret, bl') ← linesLoopT pts 0 fl bl
  if ret then pure () else blocksLoopT pts 0 fb bl'

theorem tailT_of_lines {fl fb : Nat} {bl : List LineStat} {s : St} {ret : Bool} {bl' : List LineStat} {s1 : St}
    (h : linesLoopT pts 0 fl bl s = .ok ((ret, bl'), s1)) :
    tailT fl fb bl s = (if ret = true then pure () else blocksLoopT pts 0 fb bl') s1 := by
  unfold tailT
  simp only [bind_apply, h]

section chain
variable {src : Bytes}

/-- the per-line loop over the continuation lines `more` of the open paragraph, up to the line behind the paragraph -/
theorem para_body (d : Blocks.Node) (rest : List Blocks.Node) (b : Bool) (P : Nat) :
    ∀ (more done : List Bytes) (k : Int) (fl : Nat) (bl : List LineStat) (pc : Ctx),
      ParaAt src (P + (paraBytes done).length) more → (∀ l ∈ more, BlkLine l) →
      pc.opened = [{ node := rest.length + 1, bp := .paragraph }] →
      ∃ bl' k' pc', pc'.opened = pc.opened ∧ pc'.refs = pc.refs ∧
        linesLoopT pts 0 (fl + more.length) bl
            ⟨rdr src k (P + (paraBytes done).length) (P + (paraBytes done).length)
              (lineEnd src (P + (paraBytes done).length)) none (-1),
              d :: (rest ++ [paraN (openSegs P done) b]), pc⟩ =
          linesLoopT pts 0 fl bl'
            ⟨rdr src k' (P + (paraBytes (done ++ more)).length) (P + (paraBytes (done ++ more)).length)
              (lineEnd src (P + (paraBytes (done ++ more)).length)) none (-1),
              d :: (rest ++ [paraN (openSegs P (done ++ more)) b]), pc'⟩ := by
  intro more
  induction more with
  | nil =>
    intro done k fl bl pc _ _ _
    exact ⟨bl, k, pc, rfl, rfl, by simp⟩
  | cons l more ih =>
    intro done k fl bl pc hm hb hop
    obtain ⟨hl, hm'⟩ := hm
    obtain ⟨c, t, hlc, hc⟩ := (hb l (by simp)).first
    have eq1 : P + (paraBytes (done ++ [l])).length = P + (paraBytes done).length + l.length + 1 := by
      rw [paraBytes_snoc_len]; omega
    have eapp : done ++ l :: more = (done ++ [l]) ++ more := by simp
    have e1 : (((1 : Nat) : Int) - 1) = 0 := by decide
    have e0 : ((1 : Nat) == 0) = false := rfl
    obtain ⟨bl', k', pc', ho', hr', h1⟩ :=
      ih (done ++ [l]) (k + 1) fl (bl ++ [{ lineNum := k, level := 0, isBlank := isBlank (l ++ [10]) }])
        { pc with blockOffset := 0, blockIndent := 0 } (by rw [eq1]; exact hm') (fun x hx => hb x (by simp [hx])) hop
    refine ⟨bl', k', pc', ho', hr', ?_⟩
    have efl : fl + (l :: more).length = (fl + more.length) + 1 := by simp; omega
    rw [efl, linesLoopT]
    simp only [bind_apply, getPc_run, hop, List.length_singleton, e1, e0, Bool.false_eq_true, if_false]
    rw [hl.lineEnd]
    rw [lineLoop_cont hl (c := c) (t := t ++ [10]) (by rw [hlc]; rfl) hc k d rest (openSegs P done) b pc hop bl]
    simp only [advanceLine_run, bind_apply]
    rw [openSegs_append, eq1] at h1
    rw [eapp]
    exact h1

/-- the per-line loop over the further lines `more` of the open indented code block -/
theorem code_body (d : Blocks.Node) (rest : List Blocks.Node) (b : Bool) (P : Nat) :
    ∀ (more done : List Bytes) (k : Int) (fl : Nat) (bl : List LineStat) (pc : Ctx),
      ParaAt src (P + (paraBytes (icLines done)).length) (icLines more) → (∀ l ∈ more, IcLine l) →
      pc.opened = [{ node := rest.length + 1, bp := .code }] →
      ∃ bl' k',
        linesLoopT pts 0 (fl + more.length) bl
            ⟨rdr src k (P + (paraBytes (icLines done)).length) (P + (paraBytes (icLines done)).length)
              (lineEnd src (P + (paraBytes (icLines done)).length)) none (-1),
              d :: (rest ++ [codeN (icsegs P done) b]), pc⟩ =
          linesLoopT pts 0 fl bl'
            ⟨rdr src k' (P + (paraBytes (icLines (done ++ more))).length) (P + (paraBytes (icLines (done ++ more))).length)
              (lineEnd src (P + (paraBytes (icLines (done ++ more))).length)) none (-1),
              d :: (rest ++ [codeN (icsegs P (done ++ more)) b]), pc⟩ := by
  intro more
  induction more with
  | nil =>
    intro done k fl bl pc _ _ _
    exact ⟨bl, k, by simp⟩
  | cons l more ih =>
    intro done k fl bl pc hm hb hop
    obtain ⟨hl, hm'⟩ := hm
    obtain ⟨c, t, hlc, hc⟩ := (hb l (by simp)).first
    have eq1 : P + (paraBytes (icLines (done ++ [l]))).length = P + (paraBytes (icLines done)).length + 4 + l.length + 1 := by
      rw [icLines_snoc_len]; omega
    have elen : (ind4 ++ l).length = 4 + l.length := by simp [ind4]; omega
    rw [elen] at hl hm'
    have eapp : done ++ l :: more = (done ++ [l]) ++ more := by simp
    have e1 : (((1 : Nat) : Int) - 1) = 0 := by decide
    have e0 : ((1 : Nat) == 0) = false := rfl
    obtain ⟨bl', k', h1⟩ :=
      ih (done ++ [l]) (k + 1) fl (bl ++ [{ lineNum := k, level := 0, isBlank := isBlank ((ind4 ++ l) ++ [10]) }])
        pc (by rw [eq1]; have e : P + (paraBytes (icLines done)).length + (4 + l.length) + 1 =
                 P + (paraBytes (icLines done)).length + 4 + l.length + 1 := by omega
               rw [← e]; exact hm') (fun x hx => hb x (by simp [hx])) hop
    refine ⟨bl', k', ?_⟩
    have efl : fl + (l :: more).length = (fl + more.length) + 1 := by simp; omega
    rw [efl, linesLoopT]
    simp only [bind_apply, getPc_run, hop, List.length_singleton, e1, e0, Bool.false_eq_true, if_false]
    rw [hl.lineEnd]
    rw [lineLoop_code_cont hl (c := c) (t := t ++ [10]) (by rw [hlc]; simp) hc k d rest (icsegs P done) b pc bl]
    simp only [advanceLine_run, bind_apply]
    rw [icsegs_append, eq1] at h1
    rw [eapp]
    have e2 : P + (paraBytes (icLines done)).length + (4 + l.length) + 1 =
        P + (paraBytes (icLines done)).length + 4 + l.length + 1 := by omega
    rw [e2]
    exact h1

/-- the previous block — all of its lines have been read, the reader stands at `q`, the line behind it — is still
    open: `x` its node now, `xc` its node once closed, `pbp` its parser -/
inductive OpenPrev (src : Bytes) : Nat → Blocks.Node → Blocks.Node → BP → Prop
  | leaf (q : Nat) (pbp : BP) (x : Blocks.Node) (hbp : closingBP pbp) (hk : x.kind ≠ .paragraph) (hpar : x.parent = some 0) :
      OpenPrev src q x x pbp
  | para (P : Nat) (ls : List Bytes) (b : Bool) (hne : ls ≠ []) (hpa : ParaAt src P ls) (hb : ∀ l ∈ ls, BlkLine l) :
      OpenPrev src (P + (paraBytes ls).length) (paraN (openSegs P ls) b) (paraN (paraSegs P ls) b) .paragraph
  /-- an indented code block that has absorbed the `j` blank lines behind it -/
  | code (P : Nat) (ls : List Bytes) (j : Nat) (b : Bool) (hne : ls ≠ []) (hpa : ParaAt src P (icLines ls))
      (hg : ∀ l ∈ ls, IcLine l) (hbl : BlanksAt src (P + (paraBytes (icLines ls)).length) j) :
      OpenPrev src (P + (paraBytes (icLines ls)).length + j)
        (codeN (icsegs P ls ++ blankSegs (P + (paraBytes (icLines ls)).length) j) b) (codeN (icsegs P ls) b) .code

theorem OpenPrev.parent {q x xc pbp} (h : OpenPrev src q x xc pbp) : x.parent = some 0 := by
  cases h with
  | leaf _ _ _ _ _ hpar => exact hpar
  | para _ _ _ _ _ _ => rfl
  | code _ _ _ _ _ _ _ _ => rfl

theorem OpenPrev.kind_eq {q x xc pbp} (h : OpenPrev src q x xc pbp) : xc.kind = x.kind := by
  cases h <;> rfl

theorem OpenPrev.code_kind {q x xc} (h : OpenPrev src q x xc .code) : (x.kind == .paragraph) = false := by
  cases h with
  | leaf _ _ _ hbp _ _ => rcases hbp with h | h <;> cases h
  | code _ _ _ _ _ _ _ _ => rfl

/-- a blank line behind the open indented code block is appended to it: the block stays open -/
theorem code_absorb {q : Nat} {x xc : Blocks.Node} (hprev : OpenPrev src q x xc .code) (hl : Ln src q (q + 1) [10])
    (d : Blocks.Node) (rest : List Blocks.Node) (k : Int) (fl : Nat) (bl : List LineStat) (pc : Ctx)
    (hop : pc.opened = [{ node := rest.length + 1, bp := .code }]) :
    ∃ x' bl', OpenPrev src (q + 1) x' xc .code ∧
      linesLoopT pts 0 (fl + 1) bl ⟨rdr src k q q (lineEnd src q) none (-1), d :: (rest ++ [x]), pc⟩ =
        linesLoopT pts 0 fl bl'
          ⟨rdr src (k + 1) (q + 1) (q + 1) (lineEnd src (q + 1)) none (-1), d :: (rest ++ [x']), pc⟩ := by
  cases hprev with
  | leaf _ _ _ hbp _ _ => rcases hbp with h | h <;> cases h
  | code P ls j b hne hpa hg hbl =>
    have e1 : (((1 : Nat) : Int) - 1) = 0 := by decide
    have e0 : ((1 : Nat) == 0) = false := rfl
    have hnew := OpenPrev.code (src := src) P ls (j + 1) b hne hpa hg (blanksAt_snoc j _ hbl hl)
    rw [show P + (paraBytes (icLines ls)).length + (j + 1) = P + (paraBytes (icLines ls)).length + j + 1 from by omega]
      at hnew
    refine ⟨codeN (icsegs P ls ++ blankSegs (P + (paraBytes (icLines ls)).length) (j + 1)) b,
      bl ++ [{ lineNum := k, level := 0, isBlank := true }], hnew, ?_⟩
    rw [linesLoopT]
    simp only [bind_apply, getPc_run, hop, List.length_singleton, e1, e0, Bool.false_eq_true, if_false]
    rw [hl.lineEnd, lineLoop_code_blank hl k d rest _ b pc bl]
    simp only [advanceLine_run, bind_apply, blankSegs_snoc, List.append_assoc]

/-- the end of the source closes the open indented code block; the blank lines it has absorbed are removed -/
theorem code_eof {q : Nat} {x xc : Blocks.Node} (hprev : OpenPrev src q x xc .code) (hq : q = src.length)
    (d : Blocks.Node) (rest : List Blocks.Node) (k : Int) (fuel : Nat) (bl : List LineStat) (pc : Ctx) (hf : 1 ≤ fuel)
    (hop : pc.opened = [{ node := rest.length + 1, bp := .code }]) :
    ∃ s', linesLoopT pts 0 fuel bl ⟨rdr src k q q (lineEnd src q) none (-1), d :: (rest ++ [x]), pc⟩ =
        .ok ((true, bl), s') ∧
      s'.nodes = d :: (rest ++ [xc]) ∧ s'.pc.opened = [] ∧ s'.pc.refs = pc.refs := by
  obtain ⟨f, rfl⟩ : ∃ f, fuel = f + 1 := ⟨fuel - 1, by omega⟩
  have e1 : (((1 : Nat) : Int) - 1) = 0 := by decide
  have e0 : ((1 : Nat) == 0) = false := rfl
  cases hprev with
  | leaf _ _ _ hbp _ _ => rcases hbp with h | h <;> cases h
  | code P ls j b hne hpa hg hbl =>
    obtain ⟨A, s, hA, hs⟩ := icsegs_split ls P hne hpa hg
    have hB := blankSegs_blank j _ hbl
    rw [hA, hq]
    refine ⟨⟨rdr src (k + 1) (lineEnd src src.length) (lineEnd src src.length)
      (lineEnd src (lineEnd src src.length)) none (-1), d :: (rest ++ [codeN (A ++ [s]) b]),
      { pc with opened := [] }⟩, ?_, rfl, rfl, rfl⟩
    rw [linesLoopT]
    simp only [bind_apply, getPc_run, hop, List.length_singleton, e1, e0, Bool.false_eq_true, if_false]
    rw [lineLoop_code_eof k _ d rest A s _ b hs hB pc hop bl]
    simp [pure_apply]

/-- the previous block is closed by a blank line or by the end of the source -/
theorem prev_end {q : Nat} {x xc : Blocks.Node} {pbp : BP} (hprev : OpenPrev src q x xc pbp) (d : Blocks.Node)
    (rest : List Blocks.Node) (k : Int) (fuel : Nat) (bl : List LineStat) (pc : Ctx) (haft : After src q) (hf : 2 ≤ fuel)
    (hop : pc.opened = [{ node := rest.length + 1, bp := pbp }]) (hnc : pbp ≠ .code) :
    ∃ ret bl' s',
      linesLoopT pts 0 fuel bl ⟨rdr src k q q (lineEnd src q) none (-1), d :: (rest ++ [x]), pc⟩ = .ok ((ret, bl'), s') ∧
        s'.nodes = d :: (rest ++ [xc]) ∧ s'.pc.opened = [] ∧ s'.pc.refs = pc.refs ∧
        ((ret = true ∧ q = src.length) ∨
         (ret = false ∧ Ln src q (q + 1) [10] ∧
            ∃ k', s'.r = rdr src k' (q + 1) (q + 1) (lineEnd src (q + 1)) none (-1))) := by
  cases hprev with
  | leaf _ _ _ hbp hk hpar => exact linesLoop_leaf pbp hbp d rest x hk hpar q k fuel bl pc haft hf hop
  | para P ls b hne hpa hb =>
    have := linesLoop_para (src := src) d rest b P [] ls k fuel bl pc hne hpa trivial (by simpa using hb)
      (by simpa using haft) (by simpa using hf) hop
    simpa using this
  | code _ _ _ _ _ _ _ _ => exact absurd rfl hnc

theorem set_pen (d : Blocks.Node) (rest : List Blocks.Node) (x y n : Blocks.Node) :
    (d :: ((rest ++ [x]) ++ [n])).set (rest.length + 1) y = d :: ((rest ++ [y]) ++ [n]) := by
  simp [List.set_append_left, List.set_append_right]

/-- the first line of a block directly behind the previous block: the block is opened, the previous one closed -/
theorem abut_generic {q e : Nat} {v : Bytes} {x xc : Blocks.Node} {pbp : BP} (hprev : OpenPrev src q x xc pbp)
    (hl : Ln src q e v) (c0 : UInt8) (hidx : idx v 0 = .ok c0) (h10 : (c0 == 10) = false) (hsp : isSpace c0 = false)
    (hiw : indentWidthI v 0 = (0, 0)) (k : Int) (d : Blocks.Node) (rest : List Blocks.Node) (pc : Ctx)
    (hop : pc.opened = [{ node := rest.length + 1, bp := pbp }]) (bl : List LineStat)
    (r' : Reader) (hr' : r'.source = src) (nn : Bool → Blocks.Node) (nbp : BP) (pcS : Ctx)
    (hpcS : pcS.opened = [{ node := rest.length + 1, bp := pbp }, { node := (rest ++ [x]).length + 1, bp := nbp }])
    (htry : ∀ bk, tryParsersT pts 0 bk (x.kind == .paragraph) 0 ((triggered c0).getD freeParsers) .noBlocksOpened
        (some { node := rest.length + 1, bp := pbp })
        ⟨rdr src k q q e (some v) 0, d :: (rest ++ [x]), { pc with blockOffset := 0, blockIndent := 0 }⟩ =
      .ok ((.done, .newBlocksOpened, some { node := rest.length + 1, bp := pbp }),
        ⟨r', { d with children := d.children ++ [(rest ++ [x]).length + 1] } :: ((rest ++ [x]) ++ [nn bk]), pcS⟩)) :
    ∃ bk, lineLoopT pts 0 [{ node := rest.length + 1, bp := pbp }] 0 [{ node := rest.length + 1, bp := pbp }] 0 bl
        ⟨rdr src k q q e none (-1), d :: (rest ++ [x]), pc⟩ =
      .ok ((.next, bl ++ [{ lineNum := k, level := 0, isBlank := isBlank v }]),
        ⟨r', { d with children := d.children ++ [(rest ++ [x]).length + 1] } :: ((rest ++ [xc]) ++ [nn bk]),
          { pcS with opened := [{ node := (rest ++ [x]).length + 1, bp := nbp }] }⟩) := by
  have hgx : ∀ (bk : Bool), ({ d with children := d.children ++ [(rest ++ [x]).length + 1] } ::
      ((rest ++ [x]) ++ [nn bk])).getD (rest.length + 1) default = x := fun bk => getD_pen d rest x _ _
  cases hprev with
  | leaf _ _ _ hbp hk hpar =>
    have hkf : (x.kind == .paragraph) = false := by simp [hk]
    rw [hkf] at htry
    obtain ⟨bk, h⟩ := lineLoop6_leaf hl c0 hidx h10 hiw pbp hbp k d rest x hk hpar pc hop bl
      { node := (rest ++ [x]).length + 1, bp := nbp }
      (fun bk => ⟨r', { d with children := d.children ++ [(rest ++ [x]).length + 1] } :: ((rest ++ [x]) ++ [nn bk]), pcS⟩)
      (fun _ => hpcS) hgx htry
    exact ⟨bk, h⟩
  | para P ls b hne hpa hb =>
    have hkt : ((paraN (openSegs P ls) b).kind == .paragraph) = true := rfl
    rw [hkt] at htry
    obtain ⟨bk, h⟩ := lineLoop6_para hne hpa hb hl c0 hidx h10 hiw k d rest b pc hop bl
      { node := (rest ++ [paraN (openSegs P ls) b]).length + 1, bp := nbp }
      (fun bk => ⟨r', { d with children := d.children ++ [(rest ++ [paraN (openSegs P ls) b]).length + 1] } ::
        ((rest ++ [paraN (openSegs P ls) b]) ++ [nn bk]), pcS⟩)
      (fun _ => hpcS) hgx (fun bk => by simp) (fun _ => hr') htry
    refine ⟨bk, ?_⟩
    rw [h]
    simp only [set_pen]
  | code P ls j b hne hpa hg hbl =>
    obtain ⟨A, s, hA, hs⟩ := icsegs_split ls P hne hpa hg
    have hB := blankSegs_blank j _ hbl
    obtain ⟨t, hv⟩ := cons_of_idx0 hidx
    rw [hA] at htry hgx hpcS ⊢
    have hkt : ((codeN (A ++ [s] ++ blankSegs (P + (paraBytes (icLines ls)).length) j) b).kind == .paragraph) = false := rfl
    rw [hkt] at htry
    obtain ⟨bk, h⟩ := lineLoop6_code hl hv hsp hiw k d rest A s _ b hs hB pc hop bl
      { node := (rest ++ [codeN (A ++ [s] ++ blankSegs (P + (paraBytes (icLines ls)).length) j) b]).length + 1, bp := nbp }
      (fun bk => ⟨r', { d with children := d.children ++
          [(rest ++ [codeN (A ++ [s] ++ blankSegs (P + (paraBytes (icLines ls)).length) j) b]).length + 1] } ::
        ((rest ++ [codeN (A ++ [s] ++ blankSegs (P + (paraBytes (icLines ls)).length) j) b]) ++ [nn bk]), pcS⟩)
      (fun _ => hpcS) hgx (fun _ => hr') htry
    refine ⟨bk, ?_⟩
    rw [h]
    simp only [set_pen]

/-! ### the state behind the first line of a block -/

/-- the parser of a block -/
def bp5 : Raw5 → BP
  | .old (.para _) => .paragraph
  | .old (.atx _ _) => .atx
  | .old (.hr _) => .thematic
  | .fence _ _ _ _ => .fenced
  | .icode _ => .code

/-- the node of a block right after `Open` (first line from `p` to `e`) -/
def first5 (p e : Nat) : Raw5 → Bool → Blocks.Node
  | .old (.para _), bk => paraN [sg p e] bk
  | .old (.atx level _), bk => headN level [sg (p + level + 1) (e - 1)] bk
  | .old (.hr _), bk => hrN bk
  | .fence _ n info _, bk => fenceN (if info.isEmpty then none else some (sg (p + n + 3) (e - 1))) [] bk
  | .icode _, bk => codeN [csg (p + 4) e] bk

/-- the parse context right after `Open` of a block whose node is `m + 1` -/
def pcAF (b : Raw5) (m : Nat) (pc : Ctx) : Ctx :=
  match b with
  | .fence fc n _ _ =>
    { pc with blockOffset := 0, blockIndent := 0, opened := [{ node := m + 1, bp := .fenced }],
              fence := some (fdOf fc n (m + 1)) }
  | .icode _ => { pc with blockOffset := 4, blockIndent := 4, opened := [{ node := m + 1, bp := .code }] }
  | b => { pc with blockOffset := 0, blockIndent := 0, opened := [{ node := m + 1, bp := bp5 b }] }

/-- the first line of a block (with its line feed) -/
def firstLine : Raw5 → Bytes
  | b => (lines5 b).headD [] ++ [10]

/-- may block `b` directly follow the previous block (`isPara`: the previous block is a paragraph)? -/
def AbutOK5 (isPara : Bool) : Raw5 → Prop
  | .old (.para _) => isPara = false
  | .old (.hr h) => isPara = true → h.head? ≠ some 45
  | .icode _ => isPara = false
  | _ => True

/-- the state at the start of the line behind the first line of block `b` (which went from `p` to `e`) -/
def AF (src : Bytes) (k : Int) (e : Nat) (d : Blocks.Node) (cs : List Blocks.Node) (b : Raw5) (p : Nat) (bk : Bool)
    (pc : Ctx) : St :=
  ⟨rdr src k e e (lineEnd src e) none (-1),
    { d with children := d.children ++ [cs.length + 1] } :: (cs ++ [first5 p e b bk]), pcAF b cs.length pc⟩

theorem paraKind_of {q x xc pbp} (h : OpenPrev src q x xc pbp) : ∃ isPara : Bool, (x.kind == .paragraph) = isPara ∧
    (isPara = true → pbp = .paragraph) := by
  cases h with
  | leaf _ _ _ _ hk _ => exact ⟨false, by simp [hk], fun h => by cases h⟩
  | para _ _ _ _ _ _ => exact ⟨true, rfl, fun _ => rfl⟩
  | code _ _ _ _ _ _ _ _ => exact ⟨false, rfl, fun h => by cases h⟩

/-- one pass of the per-line loop that ends with `.next`, then AdvanceLine -/
theorem pass_next {q e p' : Nat} {v : Bytes} (hl : Ln src q e v) (k : Int) (N nodes' : List Blocks.Node) (pc pc' : Ctx)
    (blk : Block) (hop : pc.opened = [blk]) (bl BL : List LineStat) (pk : Option Bytes) (lo : Int) (fl : Nat)
    (hp : lineLoopT pts 0 [blk] 0 [blk] 0 bl ⟨rdr src k q q e none (-1), N, pc⟩ =
      .ok ((.next, BL), ⟨rdr src k q p' e pk lo, nodes', pc'⟩)) :
    linesLoopT pts 0 (fl + 1) bl ⟨rdr src k q q (lineEnd src q) none (-1), N, pc⟩ =
      linesLoopT pts 0 fl BL ⟨rdr src (k + 1) e e (lineEnd src e) none (-1), nodes', pc'⟩ := by
  have e1 : (((1 : Nat) : Int) - 1) = 0 := by decide
  have e0 : ((1 : Nat) == 0) = false := rfl
  rw [linesLoopT]
  simp only [bind_apply, getPc_run, hop, List.length_singleton, e1, e0, Bool.false_eq_true, if_false]
  rw [hl.lineEnd, hp]
  simp only [bind_apply, advanceLine_run]

/-- one pass of the per-line loop on the first line of block `b` directly behind the open previous block -/
theorem abut_any {q e : Nat} {x xc : Blocks.Node} {pbp : BP} (hprev : OpenPrev src q x xc pbp) (b : Raw5) (hg : Good5 b)
    (hl : Ln src q e (firstLine b)) (hab : AbutOK5 (x.kind == .paragraph) b) (hic : pbp = .code → isIcB b = false)
    (k : Int) (d : Blocks.Node)
    (rest : List Blocks.Node) (pc : Ctx) (hop : pc.opened = [{ node := rest.length + 1, bp := pbp }]) (bl : List LineStat)
    (fl : Nat) :
    ∃ BL bk, linesLoopT pts 0 (fl + 1) bl ⟨rdr src k q q (lineEnd src q) none (-1), d :: (rest ++ [x]), pc⟩ =
      linesLoopT pts 0 fl BL (AF src (k + 1) e d (rest ++ [xc]) b q bk pc) := by
  have hxp := hprev.parent
  have hgx := getD_pen d rest x
  cases b with
  | old b' =>
    cases b' with
    | para ls =>
      obtain ⟨hne, hbk⟩ := hg
      cases ls with
      | nil => exact absurd rfl hne
      | cons l0 more =>
        obtain ⟨c, t, hlc, hc⟩ := (hbk l0 (by simp)).first
        obtain ⟨h32, h9, h10, hsp, htr, hbr⟩ := letter_facts c hc
        have hv : firstLine (.old (.para (l0 :: more))) = c :: (t ++ [10]) := by simp [firstLine, lines5, lines4, hlc]
        have hkf : (x.kind == .paragraph) = false := hab
        have hiw : indentWidthI (firstLine (.old (.para (l0 :: more)))) 0 = (0, 0) := by
          rw [hv]; unfold GM.Blocks.indentWidthI GM.Blocks.indentWidthGo; simp [h32, h9]
        have hidx : idx (firstLine (.old (.para (l0 :: more)))) 0 = .ok c := by rw [hv]; rfl
        have htl : (triggered c).getD freeParsers = [.code, .paragraph] := by rw [htr]; rfl
        obtain ⟨bk, hp⟩ := abut_generic hprev hl c hidx h10 hsp hiw k d rest pc hop bl
          (rdr src k q (e - 1) e none (-1)) rfl (fun bk => paraN [sg q e] bk) .paragraph
          { pc with blockOffset := 0, blockIndent := 0,
                    opened := [{ node := rest.length + 1, bp := pbp }, { node := (rest ++ [x]).length + 1, bp := .paragraph }] }
          rfl (fun bk => by
            rw [hkf, htl]
            exact try6_line hl hv hc pts k d (rest ++ [x]) (rest.length + 1) x hgx hxp pbp
              { pc with blockOffset := 0, blockIndent := 0 } hop bk)
        refine ⟨bl ++ [{ lineNum := k, level := 0, isBlank := isBlank (firstLine (.old (.para (l0 :: more)))) }], bk, ?_⟩
        rw [pass_next hl k _ _ pc _ _ hop bl _ _ _ fl hp]
        simp [AF, first5, pcAF, bp5]
    | atx level l =>
      obtain ⟨h1l, h6l, hbl', hlast⟩ := hg
      obtain ⟨m, rfl⟩ : ∃ m, level = m + 1 := ⟨level - 1, by omega⟩
      have hv : firstLine (.old (.atx (m + 1) l)) = List.replicate (m + 1) 35 ++ 32 :: (l ++ [10]) := by
        simp [firstLine, lines5, lines4]
      have hiw : indentWidthI (firstLine (.old (.atx (m + 1) l))) 0 = (0, 0) := by
        rw [hv, List.replicate_succ]; unfold GM.Blocks.indentWidthI GM.Blocks.indentWidthGo; simp
      have hidx : idx (firstLine (.old (.atx (m + 1) l))) 0 = .ok 35 := by rw [hv, List.replicate_succ]; rfl
      have htl : (triggered 35).getD freeParsers = [.atx, .code, .paragraph] := by decide
      obtain ⟨bk, hp⟩ := abut_generic hprev hl 35 hidx (by decide) (by decide) hiw k d rest pc hop bl
        (rdr src k q q e (some (firstLine (.old (.atx (m + 1) l)))) 0) rfl
        (fun bk => headN (m + 1) [sg (q + (m + 1) + 1) (e - 1)] bk) .atx
        { pc with blockOffset := 0, blockIndent := 0,
                  opened := [{ node := rest.length + 1, bp := pbp }, { node := (rest ++ [x]).length + 1, bp := .atx }] }
        rfl (fun bk => by
          rw [htl]
          exact try6_atx hl (m + 1) l hv h1l h6l hbl' hlast _ pts k d (rest ++ [x]) (rest.length + 1) x hgx hxp pbp
            { pc with blockOffset := 0, blockIndent := 0 } hop rfl bk)
      refine ⟨bl ++ [{ lineNum := k, level := 0, isBlank := isBlank (firstLine (.old (.atx (m + 1) l))) }], bk, ?_⟩
      rw [pass_next hl k _ _ pc _ _ hop bl _ _ _ fl hp]
      simp [AF, first5, pcAF, bp5]
    | hr h =>
      obtain ⟨ch, n, hch, hh⟩ := hg
      have hv : firstLine (.old (.hr h)) = List.replicate (n + 3) ch ++ [10] := by simp [firstLine, lines5, lines4, hh]
      have hfacts : (ch == 32) = false ∧ (ch == 9) = false ∧ (ch == 10) = false := by
        rcases hch with h' | h' | h' <;> subst h' <;> decide
      have hsp : isSpace ch = false := by rcases hch with h' | h' | h' <;> subst h' <;> decide
      have hiw : indentWidthI (firstLine (.old (.hr h))) 0 = (0, 0) := by
        rw [hv, List.replicate_succ]; unfold GM.Blocks.indentWidthI GM.Blocks.indentWidthGo; simp [hfacts.1, hfacts.2.1]
      have hidx : idx (firstLine (.old (.hr h))) 0 = .ok ch := by rw [hv, List.replicate_succ]; rfl
      have hset : ch = 45 → (x.kind == .paragraph) = false := by
        intro h45
        cases hk : (x.kind == .paragraph) with
        | false => rfl
        | true =>
          have := hab hk
          rw [hh, List.replicate_succ] at this
          simp [h45] at this
      obtain ⟨bk, hp⟩ := abut_generic hprev hl ch hidx hfacts.2.2 hsp hiw k d rest pc hop bl
        (rdr src k q (e - 1) e none (-1)) rfl (fun bk => hrN bk) .thematic
        { pc with blockOffset := 0, blockIndent := 0,
                  opened := [{ node := rest.length + 1, bp := pbp }, { node := (rest ++ [x]).length + 1, bp := .thematic }] }
        rfl (fun bk => try6_hr hl ch hch n hv pts k d (rest ++ [x]) (rest.length + 1) x hgx hxp hset pbp
          { pc with blockOffset := 0, blockIndent := 0 } hop bk)
      refine ⟨bl ++ [{ lineNum := k, level := 0, isBlank := isBlank (firstLine (.old (.hr h))) }], bk, ?_⟩
      rw [pass_next hl k _ _ pc _ _ hop bl _ _ _ fl hp]
      simp [AF, first5, pcAF, bp5]
  | fence fc n info ls =>
    obtain ⟨hfc, hinfo, hcode⟩ := hg
    have hv : firstLine (.fence fc n info ls) = List.replicate (n + 3) fc ++ (info ++ [10]) := by
      simp [firstLine, lines5]
    have hfacts : (fc == 32) = false ∧ (fc == 9) = false ∧ (fc == 10) = false := by
      rcases hfc with h' | h' <;> subst h' <;> decide
    have hsp : isSpace fc = false := by rcases hfc with h' | h' <;> subst h' <;> decide
    have hiw : indentWidthI (firstLine (.fence fc n info ls)) 0 = (0, 0) := by
      rw [hv, List.replicate_succ]; unfold GM.Blocks.indentWidthI GM.Blocks.indentWidthGo; simp [hfacts.1, hfacts.2.1]
    have hidx : idx (firstLine (.fence fc n info ls)) 0 = .ok fc := by rw [hv, List.replicate_succ]; rfl
    have htl : (triggered fc).getD freeParsers = [.fenced, .code, .paragraph] := by
      rcases hfc with h' | h' <;> subst h' <;> decide
    obtain ⟨bk, hp⟩ := abut_generic hprev hl fc hidx hfacts.2.2 hsp hiw k d rest pc hop bl
      (rdr src k q q e (some (firstLine (.fence fc n info ls))) 0) rfl
      (fun bk => fenceN (if info.isEmpty then none else some (sg (q + n + 3) (e - 1))) [] bk) .fenced
      { pc with blockOffset := 0, blockIndent := 0,
                opened := [{ node := rest.length + 1, bp := pbp }, { node := (rest ++ [x]).length + 1, bp := .fenced }],
                fence := some { char := fc, indent := 0, length := ((n + 3 : Nat) : Int), node := (rest ++ [x]).length + 1 } }
      rfl (fun bk => by
        rw [htl]
        exact try6_fence hl fc hfc n info hinfo hv _ pts k d (rest ++ [x]) (rest.length + 1) x hgx hxp pbp
          { pc with blockOffset := 0, blockIndent := 0 } hop rfl bk)
    refine ⟨bl ++ [{ lineNum := k, level := 0, isBlank := isBlank (firstLine (.fence fc n info ls)) }], bk, ?_⟩
    rw [pass_next hl k _ _ pc _ _ hop bl _ _ _ fl hp]
    simp [AF, first5, pcAF, bp5, fdOf]
  | icode ls =>
    obtain ⟨hne, hg'⟩ := hg
    cases ls with
    | nil => exact absurd rfl hne
    | cons l0 more =>
      obtain ⟨c, t, hlc, hc⟩ := (hg' l0 (by simp)).first
      have hv : firstLine (.icode (l0 :: more)) = ind4 ++ c :: (t ++ [10]) := by
        simp [firstLine, lines5, icLines, hlc]
      have hkf : (x.kind == .paragraph) = false := hab
      have hvl : 4 < (firstLine (.icode (l0 :: more))).length := by rw [hv]; simp [ind4]
      have hiw : indentWidthI (firstLine (.icode (l0 :: more))) 0 = (4, ((4 : Nat) : Int)) := by
        rw [hv]; exact ic_width hc
      have hidx0 : idx (firstLine (.icode (l0 :: more))) 0 = .ok 32 := by rw [hv]; rfl
      have hidx : idx (firstLine (.icode (l0 :: more))) ((4 : Nat) : Int) = .ok c := by rw [hv]; rfl
      cases hprev with
      | para _ _ _ _ _ _ => exact absurd hkf (by simp [paraN])
      | code _ _ _ _ _ _ _ _ => exact absurd (hic rfl) (by simp [isIcB])
      | leaf _ _ _ hbp hk hpar =>
        obtain ⟨bk, hp⟩ := lineLoop6_leaf12 hl 4 4 hvl 32 c hidx0 (by decide) hidx hiw pbp hbp k d rest x hk hpar pc hop bl
          { node := (rest ++ [x]).length + 1, bp := .code }
          (fun bk => ⟨rdr src k q (e - 1) e none (-1),
            { d with children := d.children ++ [(rest ++ [x]).length + 1] } ::
              ((rest ++ [x]) ++ [codeN [csg (q + 4) e] bk]),
            { pc with blockOffset := 4, blockIndent := 4,
                      opened := [{ node := rest.length + 1, bp := pbp }, { node := (rest ++ [x]).length + 1, bp := .code }] }⟩)
          (fun _ => rfl) (fun bk => getD_pen d rest x _ _)
          (fun bk => try6_ic hl hv hc k d (rest ++ [x]) (rest.length + 1) x hgx hxp pbp
            { pc with blockOffset := 4, blockIndent := 4 } hop bk)
        refine ⟨bl ++ [{ lineNum := k, level := 0, isBlank := isBlank (firstLine (.icode (l0 :: more))) }], bk, ?_⟩
        rw [pass_next hl k _ _ pc _ _ hop bl _ _ _ fl hp]
        simp [AF, first5, pcAF, bp5]

theorem isBlank_first (b : Raw5) (hg : Good5 b) : isBlank (firstLine b) = false := by
  cases b with
  | old b' =>
    cases b' with
    | para ls =>
      obtain ⟨hne, hbk⟩ := hg
      cases ls with
      | nil => exact absurd rfl hne
      | cons l0 more =>
        obtain ⟨c, t, hlc, hc⟩ := (hbk l0 (by simp)).first
        obtain ⟨_, _, _, hsp, _, _⟩ := letter_facts c hc
        simp [firstLine, lines5, lines4, hlc, isBlank, hsp]
    | atx level l =>
      obtain ⟨h1l, _, _, _⟩ := hg
      obtain ⟨m, rfl⟩ : ∃ m, level = m + 1 := ⟨level - 1, by omega⟩
      have : isSpace 35 = false := by decide
      simp [firstLine, lines5, lines4, List.replicate_succ, isBlank, this]
    | hr h =>
      obtain ⟨ch, n, hch, hh⟩ := hg
      have : isSpace ch = false := by rcases hch with h' | h' | h' <;> subst h' <;> decide
      simp [firstLine, lines5, lines4, hh, List.replicate_succ, isBlank, this]
  | fence fc n info ls =>
    have : isSpace fc = false := by rcases hg.1 with h' | h' <;> subst h' <;> decide
    simp [firstLine, lines5, List.replicate_succ, isBlank, this]
  | icode ls =>
    obtain ⟨hne, hg'⟩ := hg
    cases ls with
    | nil => exact absurd rfl hne
    | cons l0 more =>
      obtain ⟨c, t, hlc, hc⟩ := (hg' l0 (by simp)).first
      simp [firstLine, lines5, icLines, hlc, isBlank, ind4, hc]

/-- one iteration of the outer loop up to behind the first line of block `b`, which is opened with nothing open -/
theorem open_any {q s e : Nat} (hbl : BlanksAt src q s) (b : Raw5) (hg : Good5 b) (hl : Ln src (q + s) e (firstLine b))
    (k : Int) (d : Blocks.Node) (cs : List Blocks.Node) (pc : Ctx) (hop : pc.opened = []) (bl : List LineStat) (f : Nat) :
    ∃ BL bk, blocksLoopT pts 0 (f + 1) bl ⟨rdr src k q q (lineEnd src q) none (-1), d :: cs, pc⟩ =
      tailT f f BL (AF src (k + s + 1) e d cs b (q + s) bk pc) := by
  have hnb := isBlank_first b hg
  refine ⟨if ((s : Int) != 0) = true then [] else bl,
    isBlankLine (k + (s : Int) - 1) 0 (if ((s : Int) != 0) = true then [] else bl), ?_⟩
  cases b with
  | old b' =>
    cases b' with
    | para ls =>
      obtain ⟨hne, hbk⟩ := hg
      cases ls with
      | nil => exact absurd rfl hne
      | cons l0 more =>
        obtain ⟨c, t, hlc, hc⟩ := (hbk l0 (by simp)).first
        have hv : firstLine (.old (.para (l0 :: more))) = c :: (t ++ [10]) := by simp [firstLine, lines5, lines4, hlc]
        rw [blocksLoopT]
        simp only [bind_apply, skipR_text k hbl hl hnb, Bool.not_true, Bool.false_eq_true, if_false, position_run,
          getPc_run, hop, List.length_nil, rdr_line, blankStats,
          openBlocks_line hl hv hc pts _ d cs pc hop _ (some (firstLine (.old (.para (l0 :: more))))) (Or.inr rfl)]
        simp only [bne_self_eq_false, Bool.false_eq_true, if_false, bind_apply, advanceLine_run, tailT, AF, first5, pcAF, bp5]
    | atx level l =>
      obtain ⟨h1l, h6l, hbl', hlast⟩ := hg
      have hv : firstLine (.old (.atx level l)) = List.replicate level 35 ++ 32 :: (l ++ [10]) := by
        simp [firstLine, lines5, lines4]
      rw [blocksLoopT]
      simp only [bind_apply, skipR_text k hbl hl hnb, Bool.not_true, Bool.false_eq_true, if_false, position_run,
        getPc_run, hop, List.length_nil, rdr_line, blankStats,
        openBlocks_atx hl level l hv h1l h6l hbl' hlast pts _ d cs pc hop _ _ (Or.inr rfl)]
      simp only [bne_self_eq_false, Bool.false_eq_true, if_false, bind_apply, advanceLine_run, tailT, AF, first5, pcAF, bp5]
    | hr h =>
      obtain ⟨ch, n, hch, hh⟩ := hg
      have hv : firstLine (.old (.hr h)) = List.replicate (n + 3) ch ++ [10] := by simp [firstLine, lines5, lines4, hh]
      rw [blocksLoopT]
      simp only [bind_apply, skipR_text k hbl hl hnb, Bool.not_true, Bool.false_eq_true, if_false, position_run,
        getPc_run, hop, List.length_nil, rdr_line, blankStats,
        openBlocks_hr hl ch hch n hv pts _ d cs pc hop _ _ (Or.inr rfl)]
      simp only [bne_self_eq_false, Bool.false_eq_true, if_false, bind_apply, advanceLine_run, tailT, AF, first5, pcAF, bp5]
  | fence fc n info ls =>
    obtain ⟨hfc, hinfo, hcode⟩ := hg
    have hv : firstLine (.fence fc n info ls) = List.replicate (n + 3) fc ++ (info ++ [10]) := by
      simp [firstLine, lines5]
    rw [blocksLoopT]
    simp only [bind_apply, skipR_text k hbl hl hnb, Bool.not_true, Bool.false_eq_true, if_false, position_run,
      getPc_run, hop, List.length_nil, rdr_line, blankStats,
      openBlocks_fence hl fc hfc n info hinfo hv pts _ d cs pc hop _ _ (Or.inr rfl)]
    simp only [bne_self_eq_false, Bool.false_eq_true, if_false, bind_apply, advanceLine_run, tailT, AF, first5, pcAF, bp5,
      fdOf]
  | icode ls =>
    obtain ⟨hne, hg'⟩ := hg
    cases ls with
    | nil => exact absurd rfl hne
    | cons l0 more =>
      obtain ⟨c, t, hlc, hc⟩ := (hg' l0 (by simp)).first
      have hv : firstLine (.icode (l0 :: more)) = ind4 ++ c :: (t ++ [10]) := by
        simp [firstLine, lines5, icLines, hlc]
      rw [blocksLoopT]
      simp only [bind_apply, skipR_text k hbl hl hnb, Bool.not_true, Bool.false_eq_true, if_false, position_run,
        getPc_run, hop, List.length_nil, rdr_line, blankStats,
        openBlocks_ic hl hv hc _ d cs pc hop _ _ (Or.inr rfl)]
      simp only [bne_self_eq_false, Bool.false_eq_true, if_false, bind_apply, advanceLine_run, tailT, AF, first5, pcAF, bp5]
end chain

end GM.Proof.CMFrag
