/-
  GM.Proof.BlocksOrd — the ORDER clause of C05(c) and the `WF0` hand-over to the inline phase, as list-level
  statements, and the REDUCTION of the two open whole-run statements of GM.Props.Blocks
  (`LinesInRange`, `InlineLinesWF0`) to what is really missing.

  * `OrdFrom lo ls` — "the line segments `ls` increase": the first starts at or behind `lo`, each next one at or
    behind the previous stop (exactly the recursion of `GM.Blocks.linesOK` and of `WFSegsFrom`).
  * `linesOK_iff`, `allLinesOK_iff` — the Boolean oracle the driver evaluates (`blocks lines`) is range + order.
  * `linesInRange_iff_ordered` — since the range clause is proved for every source (`run_ok_all`), the open
    statement `LinesInRange src` is EQUIVALENT to the order clause alone.
  * `wf0_iff_parts`, `inlineWF0_iff_parts` — `WF0` = non-empty list + order + per-segment facts (non-empty segment,
    inside the source, padding 0, no ForceNewline); with the range clause proved, `BlocksEstablishWF0 src` is
    equivalent to: order + (start < stop, padding = 0, no ForceNewline) on every inline-bearing node.
  * the list algebra of the per-line protocol (`Below`, `OrdFrom.append_fresh`, `Shrinks`): what an append to a
    node whose lines all end at or before the start `L` of the current source line does, and what the trims /
    prefixes / copies of the `Close` functions do.
-/
import GM.Proof.BlocksNoPanicAll
import GM.Proof.BlocksWF0

namespace GM.Blocks
open GM GM.Text GM.Spec GM.Proof.Reader
open GM.Proof.InlinesReader (WF0)

/-! ### the order clause -/

/-- the segments increase, starting at or behind `lo` -/
def OrdFrom : Int → List Segment → Prop
  | _, [] => True
  | lo, s :: rest => lo ≤ s.start ∧ OrdFrom s.stop rest

theorem OrdFrom.mono {lo lo' : Int} (h : lo' ≤ lo) : ∀ {ls : List Segment}, OrdFrom lo ls → OrdFrom lo' ls
  | [], _ => trivial
  | _ :: _, ⟨h1, h2⟩ => ⟨Int.le_trans h h1, h2⟩

/-- every segment ends at or before `L` -/
def Below (L : Int) (ls : List Segment) : Prop := ∀ t ∈ ls, t.stop ≤ L

theorem Below.mono {L L' : Int} (h : L ≤ L') {ls : List Segment} (hb : Below L ls) : Below L' ls :=
  fun t ht => Int.le_trans (hb t ht) h

theorem Below.nil (L : Int) : Below L [] := fun _ h => by cases h

/-- **the append of the per-line protocol**: a block whose lines increase and all end at or before the start `L`
    of the current source line receives a segment that starts at or behind `L` — the lines still increase -/
theorem OrdFrom.append_fresh {L : Int} {t : Segment} (ht : L ≤ t.start) :
    ∀ {lo : Int} {ls : List Segment}, OrdFrom lo ls → Below L ls → lo ≤ t.start → OrdFrom lo (ls ++ [t])
  | _, [], _, _, hlo => ⟨hlo, trivial⟩
  | _, s :: _, ⟨h1, h2⟩, hb, _ =>
    ⟨h1, OrdFrom.append_fresh ht h2 (fun u hu => hb u (List.mem_cons_of_mem _ hu))
      (Int.le_trans (hb s (List.mem_cons_self ..)) ht)⟩

/-- after such an append every line ends at or before the end `E` of the current source line -/
theorem Below.append {L E : Int} {t : Segment} {ls : List Segment} (hb : Below L ls) (hLE : L ≤ E) (ht : t.stop ≤ E) :
    Below E (ls ++ [t]) := by
  intro u hu
  rcases List.mem_append.1 hu with h | h
  · exact Int.le_trans (hb u h) hLE
  · simp only [List.mem_singleton] at h; rw [h]; exact ht

/-- what the `Close` functions do to a line list, segment by segment: `TrimLeftSpace` / `TrimRightSpace` keep every
    segment inside what it was -/
def Shrinks : List Segment → List Segment → Prop
  | [], [] => True
  | a :: as, b :: bs => a.start ≤ b.start ∧ b.stop ≤ a.stop ∧ Shrinks as bs
  | _, _ => False

theorem Shrinks.refl : ∀ ls : List Segment, Shrinks ls ls
  | [] => trivial
  | a :: as => ⟨Int.le_refl _, Int.le_refl _, Shrinks.refl as⟩

theorem Shrinks.trans : ∀ {a b c : List Segment}, Shrinks a b → Shrinks b c → Shrinks a c
  | [], [], [], _, _ => trivial
  | [], [], _ :: _, _, h => h.elim
  | [], _ :: _, _, h, _ => h.elim
  | _ :: _, [], _, h, _ => h.elim
  | _ :: _, _ :: _, [], _, h => h.elim
  | _ :: _, _ :: _, _ :: _, ⟨h1, h2, h3⟩, ⟨k1, k2, k3⟩ =>
    ⟨Int.le_trans h1 k1, Int.le_trans k2 h2, Shrinks.trans h3 k3⟩

theorem Shrinks.length : ∀ {a b : List Segment}, Shrinks a b → b.length = a.length
  | [], [], _ => rfl
  | [], _ :: _, h => h.elim
  | _ :: _, [], h => h.elim
  | _ :: as, _ :: bs, ⟨_, _, h⟩ => by simp [Shrinks.length h]

/-- shrinking keeps the order … -/
theorem OrdFrom.shrinks : ∀ {a b : List Segment} {lo : Int}, Shrinks a b → OrdFrom lo a → OrdFrom lo b
  | [], [], _, _, _ => trivial
  | [], _ :: _, _, h, _ => h.elim
  | _ :: _, [], _, h, _ => h.elim
  | _ :: _, _ :: _, _, ⟨h1, h2, h3⟩, ⟨k1, k2⟩ =>
    ⟨Int.le_trans k1 h1, OrdFrom.shrinks h3 (OrdFrom.mono h2 k2)⟩

/-- … and the bound -/
theorem Below.shrinks {L : Int} : ∀ {a b : List Segment}, Shrinks a b → Below L a → Below L b
  | [], [], _, _ => Below.nil L
  | [], _ :: _, h, _ => h.elim
  | _ :: _, [], h, _ => h.elim
  | a :: as, b :: bs, ⟨_, h2, h3⟩, hb => by
    intro u hu
    rcases List.mem_cons.1 hu with h | h
    · rw [h]; exact Int.le_trans h2 (hb a (List.mem_cons_self ..))
    · exact Below.shrinks h3 (fun v hv => hb v (List.mem_cons_of_mem _ hv)) u h

/-- replacing one line by a shrunk one (`lines.Set(length-1, lastLine.TrimRightSpace(..))`) shrinks the list -/
theorem Shrinks.set : ∀ (ls : List Segment) (i : Nat) (t : Segment) (hi : i < ls.length),
    ls[i].start ≤ t.start → t.stop ≤ ls[i].stop → Shrinks ls (ls.set i t)
  | [], _, _, hi, _, _ => by simp at hi
  | a :: as, 0, t, _, h1, h2 => ⟨h1, h2, Shrinks.refl as⟩
  | a :: as, i + 1, t, hi, h1, h2 =>
    ⟨Int.le_refl _, Int.le_refl _, Shrinks.set as i t (by simpa using hi) (by simpa using h1) (by simpa using h2)⟩

/-- a prefix of the lines (`lines.SetSliced(0, n)` of codeBlockParser.Close) keeps order and bound -/
theorem OrdFrom.take : ∀ (n : Nat) {lo : Int} {ls : List Segment}, OrdFrom lo ls → OrdFrom lo (ls.take n)
  | 0, _, _, _ => by simp [OrdFrom]
  | _ + 1, _, [], _ => by simp [OrdFrom]
  | n + 1, _, _ :: _, ⟨h1, h2⟩ => ⟨h1, OrdFrom.take n h2⟩

theorem Below.take {L : Int} (n : Nat) {ls : List Segment} (h : Below L ls) : Below L (ls.take n) :=
  fun t ht => h t (List.mem_of_mem_take ht)

/-! ### the driver's oracle `blocks lines` is range + order -/

theorem linesOK_iff (len : Int) : ∀ (ls : List Segment) (lo : Int),
    linesOK len lo ls = true ↔
      (∀ t ∈ ls, 0 ≤ t.start ∧ t.start ≤ t.stop ∧ t.stop ≤ len ∧ 0 ≤ t.padding) ∧ OrdFrom lo ls
  | [], lo => by simp [linesOK, OrdFrom]
  | s :: rest, lo => by
    simp only [linesOK, Bool.and_eq_true, decide_eq_true_eq, linesOK_iff len rest s.stop, OrdFrom, List.mem_cons,
      forall_eq_or_imp]
    constructor
    · rintro ⟨⟨⟨⟨⟨h1, h2⟩, h3⟩, h4⟩, h5⟩, h6, h7⟩
      exact ⟨⟨⟨h1, h2, h3, h4⟩, h6⟩, h5, h7⟩
    · rintro ⟨⟨⟨h1, h2, h3, h4⟩, h6⟩, h5, h7⟩
      exact ⟨⟨⟨⟨⟨h1, h2⟩, h3⟩, h4⟩, h5⟩, h6, h7⟩

theorem allLinesOK_iff (src : Bytes) (s : St) :
    allLinesOK src s = true ↔ ∀ n ∈ s.nodes, LinesOK src n.lines ∧ OrdFrom (-1) n.lines := by
  simp only [allLinesOK, List.all_eq_true, linesOK_iff]
  exact Iff.rfl

/-- with all starts ≥ 0 the lower bound −1 of the oracle and the lower bound 0 of `WFSegs` are the same -/
theorem ordFrom_zero_of_neg {ls : List Segment} (h0 : ∀ t ∈ ls, 0 ≤ t.start) (h : OrdFrom (-1) ls) : OrdFrom 0 ls := by
  cases ls with
  | nil => trivial
  | cons a rest => exact ⟨h0 a (List.mem_cons_self ..), h.2⟩

/-- the final state of the block phase and its range clause (GM.Blocks.run_ok_all), for a given normal end -/
theorem nodesOK_of_run {src : Bytes} {s : St} (h : run src = .ok s) : NodesOK src s := by
  obtain ⟨s', h', hn⟩ := run_ok_all src
  rw [h] at h'; cases h'; exact hn

/-- the block phase always ends normally -/
theorem run_ok (src : Bytes) : ∃ s, run src = .ok s := by
  obtain ⟨s, h, _⟩ := run_ok_all src; exact ⟨s, h⟩

/-- **REDUCTION of C05(c) for block lines to its order clause.** The range clause holds for every source
    (`lines_in_range`), so the statement the driver evaluates (`allLinesOK`) is equivalent to: in the final store the
    lines of every node increase. -/
theorem allLinesOK_iff_ordered {src : Bytes} {s : St} (h : run src = .ok s) :
    allLinesOK src s = true ↔ ∀ n ∈ s.nodes, OrdFrom 0 n.lines := by
  have hn := nodesOK_of_run h
  rw [allLinesOK_iff]
  constructor
  · intro hh n hm
    exact ordFrom_zero_of_neg (fun t ht => ((hh n hm).1 t ht).1) (hh n hm).2
  · intro hh n hm
    exact ⟨(hn n hm).lines, OrdFrom.mono (by decide) (hh n hm)⟩

/-! ### `WF0` in parts -/

theorem wfSegsFrom_iff (src : Bytes) : ∀ (ls : List Segment) (lo : Int),
    WFSegsFrom src lo ls ↔ OrdFrom lo ls ∧
      ∀ t ∈ ls, t.start < t.stop ∧ t.stop ≤ src.length ∧ 0 ≤ t.padding ∧ t.forceNewline = false
  | [], lo => by simp [WFSegsFrom, OrdFrom]
  | s :: rest, lo => by
    simp only [WFSegsFrom, OrdFrom, wfSegsFrom_iff src rest s.stop, List.mem_cons, forall_eq_or_imp]
    constructor
    · rintro ⟨h1, h2, h3, h4, h5, h6, h7⟩
      exact ⟨⟨h1, h6⟩, ⟨h2, h3, h4, h5⟩, h7⟩
    · rintro ⟨⟨h1, h6⟩, ⟨h2, h3, h4, h5⟩, h7⟩
      exact ⟨h1, h2, h3, h4, h5, h6, h7⟩

/-- `WF0` = a line list that is not empty, increases from 0, and whose every segment is not empty, ends inside the
    source, has padding 0 and no ForceNewline -/
theorem wf0_iff_parts (src : Bytes) (ls : List Segment) :
    WF0 src ls ↔ ls ≠ [] ∧ OrdFrom 0 ls ∧
      ∀ t ∈ ls, t.start < t.stop ∧ t.stop ≤ src.length ∧ t.padding = 0 ∧ t.forceNewline = false := by
  unfold WF0 WFSegs
  rw [wfSegsFrom_iff]
  constructor
  · rintro ⟨⟨h1, h2, h3⟩, h4⟩
    exact ⟨h1, h2, fun t ht => ⟨(h3 t ht).1, (h3 t ht).2.1, h4 t ht, (h3 t ht).2.2.2⟩⟩
  · rintro ⟨h1, h2, h3⟩
    exact ⟨⟨h1, h2, fun t ht => ⟨(h3 t ht).1, (h3 t ht).2.1, by rw [(h3 t ht).2.2.1]; exact Int.le_refl _, (h3 t ht).2.2.2⟩⟩,
      fun t ht => (h3 t ht).2.2.1⟩

open GM.Proof.BlocksWF0 in
/-- **REDUCTION of the hand-over statement.** With the range clause proved, "every inline-bearing node of the final
    store has `WF0` lines" is equivalent to: on every inline-bearing node the lines increase and every line is a
    non-empty segment with padding 0 and without ForceNewline. -/
theorem allInlineWF0_iff_parts {src : Bytes} {s : St} (h : run src = .ok s) :
    allInlineWF0 src s = true ↔ ∀ n ∈ s.nodes, inlineBearing n = true →
      OrdFrom 0 n.lines ∧ ∀ t ∈ n.lines, t.start < t.stop ∧ t.padding = 0 ∧ t.forceNewline = false := by
  have hn := nodesOK_of_run h
  simp only [allInlineWF0, List.all_eq_true, Bool.or_eq_true, Bool.not_eq_true']
  constructor
  · intro hh n hm hb
    rcases hh n hm with h1 | h1
    · rw [hb] at h1; cases h1
    · obtain ⟨_, h2, h3⟩ := (wf0_iff_parts src n.lines).1 ((wf0B_iff src n.lines).1 h1)
      exact ⟨h2, fun t ht => ⟨(h3 t ht).1, (h3 t ht).2.2.1, (h3 t ht).2.2.2⟩⟩
  · intro hh n hm
    cases hb : inlineBearing n with
    | false => exact .inl rfl
    | true =>
      right
      obtain ⟨h2, h3⟩ := hh n hm hb
      refine (wf0B_iff src n.lines).2 ((wf0_iff_parts src n.lines).2 ⟨?_, h2, fun t ht => ?_⟩)
      · intro he
        simp [inlineBearing, he] at hb
      · exact ⟨(h3 t ht).1, ((hn n hm).lines t ht).2.2.1, (h3 t ht).2.1, (h3 t ht).2.2⟩

end GM.Blocks

