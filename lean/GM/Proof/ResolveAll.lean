import GM.Proof.Resolve

/-! util.unescapeAndResolve (the single-pass resolver used by URLEscape since 65e7267) keeps valid UTF-8 valid. -/

namespace GM.Proof
open GM

theorem isRefBodyByte_ascii (c : UInt8) (h : isRefBodyByte c = true) : c < 128 := by
  unfold isRefBodyByte at h
  rcases Bool.or_eq_true _ _ |>.mp h with h | h
  · exact isAlnum_ascii c h
  · have : c = 35 := by simpa using h
    subst this; decide

theorem takeWhile_ascii (l : Bytes) : asciiAll (l.takeWhile isRefBodyByte) = true := by
  induction l with
  | nil => rfl
  | cons c cs ih =>
    simp only [List.takeWhile]
    split
    · rename_i hc
      unfold asciiAll at ih ⊢
      rw [List.all_cons, ih]
      simp [isRefBodyByte_ascii c hc]
    · rfl

theorem asciiAll_append {a b : Bytes} (ha : asciiAll a = true) (hb : asciiAll b = true) : asciiAll (a ++ b) = true := by
  unfold asciiAll at *; rw [List.all_append, ha, hb]; rfl

theorem unescapeAndResolve_valid_st (v : Bytes) :
    ∀ st, u8run st v = .s0 → u8run st (unescapeAndResolve v) = .s0 := by
  fun_induction unescapeAndResolve v with
  | case1 => intro st h; exact h
  | case2 c => intro st h; exact h
  | case3 c d rest0 hcd ih =>
    intro st h
    simp only [Bool.and_eq_true, beq_iff_eq] at hcd
    obtain ⟨hc, hd⟩ := hcd
    subst hc
    obtain ⟨hst, h1⟩ := u8run_ascii_head (by decide) h
    subst hst
    have hd' := isPunct_ascii d hd
    obtain ⟨_, h2⟩ := u8run_ascii_head hd' h1
    rw [u8run_cons, u8step_ascii _ d hd']
    exact ih _ h2
  | case4 c d rest0 hcd hc rest hdrop ref r hr ih =>
    -- `&` + body + `;`: the candidate was resolved
    intro st h
    have hc' : c = 38 := by simpa using hc
    subst hc'
    obtain ⟨hst, h1⟩ := u8run_ascii_head (by decide) h
    subst hst
    have hsplit : d :: rest0 = (d :: rest0).takeWhile isRefBodyByte ++ 59 :: rest := by
      have := List.takeWhile_append_dropWhile (p := isRefBodyByte) (l := d :: rest0)
      rw [hdrop] at this; exact this.symm
    have hbody := takeWhile_ascii (d :: rest0)
    rw [hsplit] at h1
    have h2 := u8run_ascii_mid hbody h1
    obtain ⟨_, h3⟩ := u8run_ascii_head (c := 59) (by decide) h2
    -- the candidate itself is ASCII, hence valid from the start state
    have href : u8run .s0 ref = .s0 := by
      have hasc : asciiAll ref = true := by
        show asciiAll (38 :: ((d :: rest0).takeWhile isRefBodyByte ++ [59])) = true
        have : asciiAll ((d :: rest0).takeWhile isRefBodyByte ++ [59]) = true :=
          asciiAll_append hbody (by decide)
        unfold asciiAll at this ⊢
        rw [List.all_cons, this]; decide
      rw [u8run_asciiAll ref hasc]; simp [ref]
    have hrv : u8run .s0 r = .s0 := by
      show u8run .s0 (if resolveNumeric ref != ref then resolveNumeric ref else resolveEntities ref) = .s0
      split
      · exact resolveNumeric_valid_st ref _ href
      · exact resolveEntities_valid_st ref _ href
    rw [u8run_append, hrv]
    exact ih _ h3
  | case5 c d rest0 hcd hc rest hdrop ref r hr ih =>
    intro st h
    rw [u8run_cons] at h ⊢
    exact ih _ h
  | case6 c d rest0 hcd hc hno ih =>
    intro st h
    rw [u8run_cons] at h ⊢
    exact ih _ h
  | case7 c d rest0 hcd hc ih =>
    intro st h
    rw [u8run_cons] at h ⊢
    exact ih _ h

theorem unescapeAndResolve_valid (v : Bytes) (h : validUtf8 v = true) : validUtf8 (unescapeAndResolve v) = true := by
  simp only [validUtf8, beq_iff_eq] at *
  exact unescapeAndResolve_valid_st v _ h

end GM.Proof
