/-
  GM.Proof.ConvertFInl — C11 for the INLINE PHASE: while the context holds no FootnoteList the inline phase over the trigger
  table with the footnote parser is the default inline phase (GM.Inl.parseBlock), for every block with well-formed
  padding-free lines. The parser IS consulted (at every `!` and `[`) and may ADVANCE the reader before it returns nil
  (`list == nil` is tested behind `block.Advance`); the loop's SetPosition gives back the very reader it saved: under the
  invariant of the totality proof (GM.Proof.InlinesLoopTotal: the reader stands for a cursor) every field but `lineOffset`
  is determined by the cursor, and `lineOffset` is −1 behind `Advance` and behind `SetPosition`.
-/
import GM.Model.ExtFootnoteX
import GM.Proof.InlinesLoopX
import GM.Proof.BlockReaderFuel

namespace GM.ConvertF
open GM GM.Text GM.Spec GM.Inl GM.Proof.Reader GM.Proof.InlinesReader GM.Proof.Inlines GM.Proof.InlinesTotal
open GM.Proof.InlinesLink GM.Proof.BlockReaderFuel

variable {src : Bytes} {segs : List Segment}

/-! ### `lineOffset` behind Advance / SetPosition -/

theorem setPosition_lo {r r' : BlockReader} {l : Int} {p : Segment} (h : r.setPosition l p = .ok r') : r'.lineOffset = -1 := by
  unfold BlockReader.setPosition at h
  simp only at h
  split at h
  · split at h
    · simp only [bind, Except.bind] at h
      cases hs : segAt r.segments l with
      | error e => rw [hs] at h; cases h
      | ok s => rw [hs] at h; cases h; rfl
    · cases h; rfl
  · split at h
    · simp only [bind, Except.bind] at h
      cases hs : segAt r.segments l with
      | error e => rw [hs] at h; cases h
      | ok s => rw [hs] at h; cases h; rfl
    · cases h; rfl

theorem advanceLine_lo {r r' : BlockReader} (h : r.advanceLine = .ok r') : r'.lineOffset = -1 := by
  unfold BlockReader.advanceLine at h
  simp only [bind, Except.bind] at h
  cases hs : BlockReader.setPosition (r.line + 1) { start := -1, stop := -1 } r with
  | error e => rw [hs] at h; cases h
  | ok x =>
    rw [hs] at h
    simp only [pure, Except.pure, Except.ok.injEq] at h
    rw [← h]
    exact (setPosition_lo hs : x.lineOffset = -1)

theorem advanceLoop_lo : ∀ (n : Nat) (r r' : BlockReader), r.lineOffset = -1 → r.advanceLoop n = .ok r' → r'.lineOffset = -1
  | 0, r, r', hl, h => by unfold BlockReader.advanceLoop at h; cases h; exact hl
  | n + 1, r, r', hl, h => by
    unfold BlockReader.advanceLoop at h
    split at h
    · exact advanceLoop_lo n _ r' (by exact hl) h
    · split at h
      · simp only [bind, Except.bind] at h
        cases ha : r.advanceLine with
        | error e => rw [ha] at h; cases h
        | ok x =>
          rw [ha] at h
          exact advanceLoop_lo n x r' (advanceLine_lo ha) h
      · exact advanceLoop_lo n _ r' (by exact hl) h

theorem advance_lo {r r' : BlockReader} {n : Int} (h : r.advance n = .ok r') : r'.lineOffset = -1 := by
  unfold BlockReader.advance at h
  simp only at h
  split at h
  · cases h; rfl
  · exact advanceLoop_lo _ _ r' rfl h

/-- two readers that stand for the same live cursor and have dropped their cached line offset are equal -/
theorem rs_eq {r r' : BlockReader} {c : BCur} (h : RS src segs r c) (h' : RS src segs r' c) (hl : c.ln < BCur.k segs)
    (h1 : r.lineOffset = -1) (h2 : r'.lineOffset = -1) : r' = r := by
  obtain ⟨a, _⟩ := h
  obtain ⟨a', _⟩ := h'
  cases r with
  | mk s1 s2 s3 s4 s5 s6 s7 s8 =>
    cases r' with
    | mk t1 t2 t3 t4 t5 t6 t7 t8 =>
      have e1 := a.source; have e1' := a'.source
      have e2 := a.segments; have e2' := a'.segments
      have e3 := a.segLen; have e3' := a'.segLen
      have e4 := a.line; have e4' := a'.line
      have e5 := a.pos; have e5' := a'.pos
      have e6 := a.head hl; have e6' := a'.head hl
      have e7 := a.last; have e7' := a'.last
      simp only at e1 e1' e2 e2' e3 e3' e4 e4' e5 e5' e6 e6' e7 e7' h1 h2
      subst e1 e2 e3 e4 e5 e6 e7 h1
      subst e1' e2' e3' e4' e5' e6' e7' h2
      rfl

/-! ### the parser run without a FootnoteList -/

theorem findClosureBr_lt : ∀ (bs : Bytes) (i j : Nat), GM.Ext.findClosureBr bs i = some j → i ≤ j ∧ j < i + bs.length
  | [], _, _, h => by simp [GM.Ext.findClosureBr] at h
  | [c], i, j, h => by
    simp only [GM.Ext.findClosureBr] at h
    split at h
    · cases h; simp
    · cases h
  | c :: d :: rest, i, j, h => by
    simp only [GM.Ext.findClosureBr] at h
    split at h
    · have := findClosureBr_lt rest (i + 2) j h
      simp only [List.length_cons]; omega
    · split at h
      · cases h; simp
      · split at h
        · cases h
        · have := findClosureBr_lt (d :: rest) (i + 1) j h
          simp only [List.length_cons] at this ⊢; omega

/-- (*footnoteParser).Parse without a list, from a state of the default loop: nil, only the reader may have moved — to a
    state that still stands for a cursor -/
theorem parseFootnote_none_run (F : SegFacts src segs) (Z : ∀ s ∈ segs, s.padding = 0) (env : Env) (st : St) (c : BCur)
    (line : Bytes) (h : RS src segs st.rd c) (hv : BCur.view src segs c = some line) :
    ∃ rdX cX, parseFootnote none env st = .ok (none, { st with rd := rdX }) ∧ RS src segs rdX cX := by
  obtain ⟨hpl, hpos⟩ := peekLine_facts F h
  obtain ⟨v1, v2, v3, v4, v5, v6, v7, v8⟩ := view_some F h.abs.wf h.pad hv
  have hsame : ({ st with rd := st.rd } : St) = st := by cases st; rfl
  have helper : ∀ p0 closure : Nat, p0 + 1 + closure < line.length →
      ∃ v r' c', BlockReader.valueOp (Segment.mk (st.rd.pos.start + ((p0 + 1 : Nat) : Int))
          (st.rd.pos.start + ((p0 + 1 + closure : Nat) : Int)) 0 false) st.rd = .ok v ∧
        st.rd.advance (((p0 + 1 + closure : Nat) : Int) + 1) = .ok r' ∧ RS src segs r' c' := by
    intro p0 closure hlt
    obtain ⟨v, hval⟩ := valueOp_ok F h.abs
      { start := st.rd.pos.start + ((p0 + 1 : Nat) : Int), stop := st.rd.pos.start + ((p0 + 1 + closure : Nat) : Int) }
      (by have := first_le_p F h.abs.wf; rw [hpos]; simp only; omega) (by simp only; omega)
    obtain ⟨r', c', e1, e2, _⟩ := advance_ok F Z h (n := ((p0 + 1 + closure : Nat) : Int) + 1) (by omega) (by omega)
    exact ⟨v, r', c', hval, e1, e2⟩
  unfold parseFootnote
  simp only [hpl, hv, bind, Except.bind, pure, Except.pure, Option.getD_some]
  split
  · split
    · exact ⟨st.rd, c, by rw [hsame], h⟩
    · split
      · exact ⟨st.rd, c, by rw [hsame], h⟩
      · split
        · exact ⟨st.rd, c, by rw [hsame], h⟩
        · rename_i hp1 hp2 _ closure hcl
          have hb := findClosureBr_lt _ 0 closure hcl
          simp only [List.length_drop, Nat.zero_add] at hb
          obtain ⟨v, r', c', hval, e1, e2⟩ := helper 2 closure (by omega)
          simp only [hval, e1]
          exact ⟨r', c', rfl, e2⟩
  · split
    · exact ⟨st.rd, c, by rw [hsame], h⟩
    · split
      · exact ⟨st.rd, c, by rw [hsame], h⟩
      · split
        · exact ⟨st.rd, c, by rw [hsame], h⟩
        · rename_i hp1 hp2 _ closure hcl
          have hb := findClosureBr_lt _ 0 closure hcl
          simp only [List.length_drop, Nat.zero_add] at hb
          obtain ⟨v, r', c', hval, e1, e2⟩ := helper 1 closure (by omega)
          simp only [hval, e1]
          exact ⟨r', c', rfl, e2⟩

/-! ### the loop -/

open GM.Proof.InlinesLoopX in
/-- consulted first, the footnote parser returns nil and the loop's SetPosition gives back the saved reader: the rest of
    the table entry sees the very state the default loop sees -/
theorem tryParsersX_fn (F : SegFacts src segs) (Z : ∀ s ∈ segs, s.padding = 0) (env : Env) {r1 : BlockReader} {c1 : BCur}
    {line : Bytes} (a2 : RS src segs r1 c1) (hlo : r1.lineOffset = -1) (vs1 : BCur.view src segs c1 = some line)
    (ips : List Ip) (st0 : St) (hrd : st0.rd = r1) :
    tryParsersX env r1.position.1 r1.position.2 (.ext (footnoteParser none) :: ips.map .builtin) st0 =
      tryParsers env r1.position.1 r1.position.2 ips st0 := by
  obtain ⟨rdX, cX, e, hX⟩ := parseFootnote_none_run F Z env st0 c1 line (by rw [hrd]; exact a2) vs1
  obtain ⟨r3, s1, s2⟩ := setPosition_restore F a2 hX
  obtain ⟨v1, _⟩ := view_some F a2.abs.wf a2.pad vs1
  have h3 : r3 = r1 := rs_eq a2 s2 v1 hlo (setPosition_lo s1)
  have hst : ({ ({ st0 with rd := rdX } : St) with rd := r3 } : St) = st0 := by
    rw [h3, ← hrd]
  rw [tryParsersX]
  simp only [XIp.parse, footnoteParser, e, bind, Except.bind, s1, hst]
  exact tryParsersX_builtin env _ _ ips st0

/-- a trigger table that is the default one with the footnote parser (no list) in front of some entries -/
def FnTable (tbl : UInt8 → List XIp) : Prop :=
  ∀ b, tbl b = baseTbl b ∨ (tbl b = .ext (footnoteParser none) :: baseTbl b ∧ (parsersFor b).isEmpty = false)

theorem fnTable_inlineTblF : FnTable (inlineTblF true none) := by
  intro b
  unfold inlineTblF
  by_cases h : (b == 33 || b == 91) = true
  · right
    simp only [Bool.true_and, h, if_true, true_and]
    simp only [Bool.or_eq_true, beq_iff_eq] at h
    rcases h with h | h <;> subst h <;> rfl
  · left
    simp only [Bool.true_and, h, Bool.false_eq_true, if_false]

theorem fnTable_isEmpty {tbl : UInt8 → List XIp} (hT : FnTable tbl) (b : UInt8) :
    (tbl b).isEmpty = (parsersFor b).isEmpty := by
  rcases hT b with h | ⟨h, h2⟩
  · rw [h]; simp [baseTbl]
  · rw [h, h2]; rfl

open GM.Proof.InlinesLoopX in
/-- the byte loop over such a table is the default byte loop, from every state of the default run (the induction of
    GM.Proof.InlinesLoopTotal.scan_total, with the equality of the two loops as the statement) -/
theorem scanX_fn (X : Ctx) (F : SegFacts src segs) (Z : ∀ s ∈ segs, s.padding = 0) (env : Env)
    (hC : ∀ ip, PContract X src segs (trigOf ip) (ip.parse env)) (tbl : UInt8 → List XIp) (hT : FnTable tbl) :
    ∀ (bs : Bytes) (i : Nat) (s : Inl.Scan) (v : Bytes) (c : BCur), ScanInv X src segs v bs i s c →
    scanX env tbl bs i s = scan env bs i s := by
  intro bs
  induction bs with
  | nil => intro i s v c _; rfl
  | cons b cs ih =>
    intro i s v c hS
    have hlen := hS.len
    simp only [List.length_cons] at hlen
    have hpre := hS.pre
    have hvb : v.drop s.n.toNat = b :: (v.drop (s.n.toNat + 1)) := by
      obtain ⟨t, ht⟩ := hpre
      have h1 : (v.drop s.n.toNat).head? = some b := by rw [← ht]; rfl
      have h2 : v.drop (s.n.toNat + 1) = (v.drop s.n.toNat).tail := by
        rw [← List.drop_one, List.drop_drop]
      rw [h2]
      cases hd : v.drop s.n.toNat with
      | nil => rw [hd] at h1; simp at h1
      | cons x xs => rw [hd] at h1; simp at h1; subst h1; rfl
    have hcs : cs <+: v.drop (s.n.toNat + 1) := by
      obtain ⟨t, ht⟩ := hpre
      rw [hvb] at ht
      simp at ht
      exact ⟨t, ht⟩
    have hskip : scanX env tbl cs (i + 1) (bump b s) = scan env cs (i + 1) (bump b s) := by
      apply ih (i + 1) (bump b s) v c
      have hb : (bump b s).st = s.st ∧ (bump b s).sp = s.sp ∧ (bump b s).n = s.n + 1 := by
        unfold bump; split
        · exact ⟨rfl, rfl, rfl⟩
        · split <;> exact ⟨rfl, rfl, rfl⟩
      have hn0 := hS.n0
      have e : (s.n + 1).toNat = s.n.toNat + 1 := by omega
      exact { inv := by rw [hb.1]; exact hS.inv, view := hS.view, spStart := by rw [hb.2.1]; exact hS.spStart,
              spStop := by rw [hb.2.1]; exact hS.spStop, spPad := by rw [hb.2.1]; exact hS.spPad,
              n0 := by rw [hb.2.2]; omega, len := by rw [hb.2.2, e]; omega,
              pre := by rw [hb.2.2, e]; exact hcs, i0 := fun h => by omega }
    simp only [scanX, scan, fnTable_isEmpty hT]
    split
    · rfl
    · split
      · rename_i htrig
        simp only [Bool.and_eq_true, Bool.not_eq_true', List.isEmpty_eq_false_iff_exists_mem] at htrig
        have hpc : parserChar b i = b := by
          unfold parserChar
          simp only
          split
          · rename_i h32
            exfalso
            obtain ⟨ip, hip⟩ := htrig.2
            unfold parserChar at hip
            simp only [h32, if_true] at hip
            simp [parsersFor] at hip
          · rfl
        rw [hpc] at htrig ⊢
        have hnlt : s.n.toNat < v.length := by omega
        have w := hS.inv.rs.abs.wf
        have hz := hS.inv.rs.pad
        obtain ⟨v1, v2, v3, v4, v5, v6, v7, v8⟩ := view_some F w hz hS.view
        obtain ⟨r1, a1, a2⟩ := advance_inline F Z hS.inv.rs (n := s.n) hS.n0 (by omega) (by omega)
        have hnn : c.p + s.n = c.p + (s.n.toNat : Int) := by have := hS.n0; omega
        obtain ⟨vs1, vs2⟩ := view_shift F w hz hS.view hnlt
        rw [← hnn] at vs1 vs2
        rw [hvb] at vs1
        have hpos1 := (peekLine_facts F a2).2
        have hbetween : s.sp.between r1.position.2 = .ok { start := c.p, stop := c.p + s.n, padding := 0 } := by
          simp only [Segment.between, BlockReader.position, hpos1, hS.spStop, vs2, bne_self_eq_false, Bool.false_eq_true,
            if_false, hS.spStart, hS.spPad]
          rfl
        have hkids : ∃ ks sp', (if (i != 0) = true then
              (s.sp.between r1.position.2).map (fun seg => (mergeOrAppend s.st.kids seg, r1.position.2))
            else (pure (s.st.kids, s.sp) : Except Panic (List Node × Segment))) = .ok (ks, sp') ∧
            chain 0 (c.p + s.n) (segsOfL ks) ∧ X.LK ks s.st.nextId s.st.bottoms ∧ sp'.start = c.p + s.n ∧
            sp'.stop = BCur.stopOf segs c ∧ sp'.padding = 0 := by
          by_cases hi : i = 0
          · have hn := hS.i0 hi
            simp only [hi, bne_self_eq_false, Bool.false_eq_true, if_false, pure, Except.pure]
            refine ⟨_, _, rfl, ?_, hS.inv.lk, ?_, hS.spStop, hS.spPad⟩
            · rw [hn]; simpa using hS.inv.ch
            · rw [hn, hS.spStart]; omega
          · have : (i != 0) = true := by simpa using hi
            simp only [this, if_true, hbetween, Except.map]
            refine ⟨_, _, rfl, ?_, X.merge _ hS.inv.lk, ?_, ?_, ?_⟩
            · exact chain_mergeOrAppend (s := { start := c.p, stop := c.p + s.n, padding := 0 }) hS.inv.ch
                (by simp only; have := hS.n0; omega)
            · simp [BlockReader.position, hpos1]
            · simp [BlockReader.position, hpos1, vs2]
            · simp [BlockReader.position, hpos1]
        obtain ⟨ks, sp', hk1, hk2, hk3, hk4, hk5, hk6⟩ := hkids
        have hI1 : LInv X src segs { s.st with rd := r1, kids := ks } { c with p := c.p + s.n } := ⟨a2, hk2, hk3⟩
        obtain ⟨n, st', c', t1, t2, t3, t4, t5⟩ := tryParsers_total X F env hC a2 vs1 (parsersFor b)
          { s.st with rd := r1, kids := ks } hI1 (fun ip hip => parsersFor_trig hip)
        -- the table entry of `b`: with or without the footnote parser in front, the default parsers see the same state
        have htry : tryParsersX env r1.position.1 r1.position.2 (tbl b) { s.st with rd := r1, kids := ks } =
            tryParsers env r1.position.1 r1.position.2 (parsersFor b) { s.st with rd := r1, kids := ks } := by
          rcases hT b with hb | ⟨hb, _⟩
          · rw [hb]; exact tryParsersX_builtin env _ _ _ _
          · rw [hb]; exact tryParsersX_fn F Z env a2 (advance_lo a1) vs1 (parsersFor b) _ rfl
        have htr : trigger env (parsersFor b) i s = (match n with
            | some nd => .ok (.inl { st' with kids := st'.kids ++ [nd] })
            | none => .ok (.inr { s with st := st', n := 0, sp := sp' })) := by
          unfold trigger
          simp only [a1, bind, Except.bind, hk1, t1]
          cases n <;> rfl
        have htrX : triggerX env (tbl b) i s = trigger env (parsersFor b) i s := by
          unfold triggerX trigger
          simp only [a1, bind, Except.bind, hk1, htry]
          rfl
        rw [htrX, htr]
        cases n with
        | some nd => rfl
        | none =>
          simp only
          obtain ⟨rfl, t6, t7⟩ := t5
          apply ih (i + 1) (bump b { s with st := st', n := 0, sp := sp' }) (b :: v.drop (s.n.toNat + 1))
            { c with p := c.p + s.n }
          have hb : (bump b { s with st := st', n := 0, sp := sp' }).st = st' ∧
              (bump b { s with st := st', n := 0, sp := sp' }).sp = sp' ∧
              (bump b { s with st := st', n := 0, sp := sp' }).n = 1 := by
            unfold bump; split
            · exact ⟨rfl, rfl, rfl⟩
            · split <;> exact ⟨rfl, rfl, rfl⟩
          have hl2 : (v.drop (s.n.toNat + 1)).length = v.length - (s.n.toNat + 1) := by simp
          exact { inv := by rw [hb.1]; exact ⟨t2, t6, t7⟩, view := vs1, spStart := by rw [hb.2.1]; exact hk4,
                  spStop := by rw [hb.2.1, hk5, vs2], spPad := by rw [hb.2.1]; exact hk6,
                  n0 := by rw [hb.2.2]; omega,
                  len := by rw [hb.2.2]; simp only [List.length_cons, hl2]; omega,
                  pre := by rw [hb.2.2]; simpa using hcs, i0 := fun h => by omega }
      · exact hskip

open GM.Proof.InlinesLoopX in
/-- the `retry:` loop over such a table, from any state the loop invariant of the default run holds for -/
theorem lineLoopX_fn (X : Ctx) (F : SegFacts src segs) (Z : ∀ s ∈ segs, s.padding = 0) (env : Env)
    (hC : ∀ ip, PContract X src segs (trigOf ip) (ip.parse env)) (tbl : UInt8 → List XIp) (hT : FnTable tbl) :
    ∀ (fuel : Nat) (esc : Bool) (st : St) (c : BCur), LInv X src segs st c →
    (BCur.remaining segs c).toNat < fuel → lineLoopX env tbl fuel esc st = lineLoop env fuel esc st := by
  intro fuel
  induction fuel with
  | zero => intro esc st c _ hf; omega
  | succ f ih =>
    intro esc st c hI hf
    obtain ⟨hpl, hpos⟩ := peekLine_facts F hI.rs
    simp only [lineLoopX, lineLoop, hpl, bind, Except.bind]
    cases hv : BCur.view src segs c with
    | none => rfl
    | some line =>
      obtain ⟨v1, v2, v3, v4, v5, v6, v7, v8⟩ := view_some F hI.rs.abs.wf hI.rs.pad hv
      have hne : line.isEmpty = false := by
        cases line with
        | nil => simp at v6; omega
        | cons a t => rfl
      simp only [hne, Bool.false_eq_true, if_false]
      have hS : ScanInv X src segs line (line.take (classify line).1) 0
          { st := st, n := 0, sp := st.rd.position.2, escaped := esc } c :=
        { inv := hI, view := hv, spStart := by simp [BlockReader.position, hpos],
          spStop := by simp [BlockReader.position, hpos], spPad := by simp [BlockReader.position, hpos],
          n0 := Int.le_refl _, len := by simp [List.length_take]; omega,
          pre := by simpa using List.take_prefix _ _, i0 := fun _ => rfl }
      rw [scanX_fn X F Z env hC tbl hT _ 0 _ line c hS]
      obtain ⟨res, r1, r2⟩ := scan_total X F Z env hC _ 0 _ line c hS
      simp only [r1]
      cases res with
      | hit st' e' =>
        obtain ⟨c', q1, q2, q3⟩ := r2
        exact ih e' st' c' q1 (by omega)
      | eol s' =>
        obtain ⟨v', c', q1, q2, q3⟩ := r2
        obtain ⟨st2, c2, g1, g2, g3⟩ := endOfLine_total X F Z (flags := (classify line).2) q1
        simp only [BlockReader.position, hI.rs.abs.line, ← q3, g1]
        exact ih _ st2 c2 g2 (by omega)

open GM.Proof.InlinesLoopX in
/-- **the inline phase of a block while the context holds no FootnoteList is the default inline phase** -/
theorem parseBlockX_fn (W : WFSegs src segs) (Z : ∀ s ∈ segs, s.padding = 0) (env : Env) :
    parseBlockX env (inlineTblF true none) src segs = parseBlock env src segs := by
  have F := segFacts W
  obtain ⟨r0, e0, a0⟩ := blockReader_init F
  have hz0 : (BCur.init segs).pad = 0 := segOf_pad F Z 0 (Int.le_refl _) F.kpos
  have hI : LInv (linkCtx (BCur.segOf segs 0).start) src segs { rd := r0 } (BCur.init segs) :=
    ⟨⟨a0, hz0⟩, by simp only [segsOfL, chain, BCur.init]; exact (F.rng 0 (Int.le_refl _) F.kpos).1, LK_base _⟩
  have h := lineLoopX_fn _ F Z env (all_contracts W Z env) (inlineTblF true none) fnTable_inlineTblF (blockFuel src segs)
    false _ _ hI (blockFuel_gt W Z a0.wf hz0)
  unfold parseBlockX parseBlock
  simp only [e0, bind, Except.bind, h]

end GM.ConvertF
