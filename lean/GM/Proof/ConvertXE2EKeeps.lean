/-
  GM.Proof.ConvertXE2EKeeps — the table paragraph transformer keeps EVERY frame invariant of package e2e (GM.Proof.E2EKeeps.Frame:
  heading levels, "node 0 is the Document", info / closure segments in range, …): it allocates `thematicBreak` records without
  info segment and closure line and only rewrites `lines`, `children`, `parent`. So these invariants hold of every store the
  block phase of ANY member set returns.
-/
import GM.Proof.E2EXSegs
import GM.Proof.E2ETree
import GM.Model.ConvertX

namespace GM.E2E
open GM GM.Text GM.Blocks GM.TableX

section
variable {I : St → Prop} [Frame I]

theorem headP_thematic (n : Blocks.Node) (h : n.kind = .thematicBreak) : HeadP n := by
  intro hk; rw [h] at hk; cases hk

theorem addCells_keeps (src : Bytes) (row : Nat) : ∀ cells, Keeps I (addCells src row cells)
  | [] => by unfold addCells; exact Keeps.pure _
  | c :: rest => by
    unfold addCells
    refine Keeps.bind (newNode_keeps _ (headP_thematic _ rfl) ?_ rfl) (fun id => ?_)
    · rfl
    · exact Keeps.bind (appendChild_keeps _ _) (fun _ => addCells_keeps src row rest)

theorem addRow_keeps (src : Bytes) (table tag : Nat) (cells) : Keeps I (addRow src table tag cells) := by
  unfold addRow
  refine Keeps.bind (newNode_keeps _ (headP_thematic _ rfl) rfl rfl) (fun id => ?_)
  exact Keeps.bind (addCells_keeps src id cells) (fun _ => appendChild_keeps _ _)

theorem addRows_keeps (src : Bytes) (table : Nat) : ∀ rows, Keeps I (addRows src table rows)
  | [] => by unfold addRows; exact Keeps.pure _
  | r :: rest => by
    unfold addRows
    exact Keeps.bind (addRow_keeps src table _ r) (fun _ => addRows_keeps src table rest)

theorem buildTable_keeps (src : Bytes) (node : Nat) (parent : Option Nat) (para) (t) :
    Keeps I (buildTable src node parent para t) := by
  unfold buildTable
  refine Keeps.bind (newNode_keeps _ (headP_thematic _ rfl) rfl rfl) (fun table => ?_)
  refine Keeps.bind (addRow_keeps src table _ _) (fun _ => ?_)
  refine Keeps.bind (addRows_keeps src table _) (fun _ => ?_)
  refine Keeps.bind (modNode_keeps _ _ (fun _ => ⟨rfl, rfl, rfl, rfl⟩)) (fun _ => ?_)
  cases parent with
  | none => exact Keeps.throw _
  | some p =>
    refine Keeps.bind (getNode_keeps p) (fun pn => ?_)
    refine Keeps.bind (insertBefore_keeps _ _ _) (fun _ => ?_)
    exact Keeps.ite (fun _ => removeChild_keeps _ _) (fun _ => Keeps.pure _)

/-- **the table paragraph transformer keeps every frame invariant** -/
theorem transformPT_keeps (src : Bytes) (node : Nat) : Keeps I (transformPT src node) := by
  unfold transformPT
  refine Keeps.bind (getNode_keeps node) (fun n => ?_)
  refine Keeps.bind source_keeps (fun rsrc => ?_)
  refine Keeps.ite (fun _ => Keeps.throw _) (fun _ => ?_)
  split
  · exact Keeps.pure _
  · exact buildTable_keeps src node _ _ _

open GM.ConvertX in
/-- the transformer list of every member set keeps every frame invariant -/
theorem paragraphTransformersX_keep (c : XCfg) (guard : Bool) (src : Bytes) : PTsKeep I (paragraphTransformersX c guard src) := by
  intro pt hpt n
  unfold paragraphTransformersX at hpt
  simp only [List.mem_append] at hpt
  rcases hpt with hpt | hpt
  · exact paragraphTransformers_keep guard pt hpt n
  · split at hpt
    · simp only [List.mem_singleton] at hpt; subst hpt; exact transformPT_keeps src n
    · cases hpt
end

open GM.ConvertX in
/-- Heading levels 1..6 in every store the block phase of ANY member set returns -/
theorem blockPhaseX_headOK (c : XCfg) (guard : Bool) (src : Bytes) (st : St) (h : blockPhaseX c guard src = .ok st) : HeadOK st :=
  runT_headOK (paragraphTransformersX_keep c guard src) src st h

open GM.ConvertX in
/-- node 0 is the Document -/
theorem blockPhaseX_rootDoc (c : XCfg) (guard : Bool) (src : Bytes) (st : St) (h : blockPhaseX c guard src = .ok st) : RootDoc st :=
  runT_rootDoc (paragraphTransformersX_keep c guard src) src st h

open GM.ConvertX in
/-- a fenced block's info segment and an HTML block's closure line are in range -/
theorem blockPhaseX_xsegs (c : XCfg) (guard : Bool) (src : Bytes) (st : St) (h : blockPhaseX c guard src = .ok st) :
    ∀ n ∈ st.nodes, XP src n :=
  runT_xsegs src (paragraphTransformersX_keep c guard src) st h

end GM.E2E
