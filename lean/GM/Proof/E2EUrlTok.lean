/-
  GM.Proof.E2EUrlTok — C04 at token level over `convertCore`: the safe-mode HTML is a word of the grammar `WFHtmlU`
  (GM.Proof.E2EUrlTokMain.render_wf + `parseDoc_inv`), hence the strict tokenizer accepts it and `Spec.urlsOK` holds of its
  tokens (GM.Proof.E2EUrlTokTokenize).
-/
import GM.Proof.E2ERender
import GM.Proof.E2EUrlTokTokenize

namespace GM.E2E
open GM GM.Text GM.Convert GM.Spec

/-- for EVERY tree with the invariant of C03, in safe mode: tokens with harmless `href` / `src` values -/
theorem render_urlsOK (o : Opts) (e : Exts) (t : GM.Node) (hsafe : o.unsafe_ = false)
    (hinv : Spec.Inv (mkRCfg o e) t = true) :
    ∃ ts, tokenize (render (mkRCfg o e) t) = some ts ∧ urlsOK lookupEntity ts = true :=
  GM.Proof.RenderWFU.urlsOK_of_wfU (GM.Proof.RenderWFU.render_wf o e t hsafe hinv)

theorem safe_urls_harmless_tokens (uc : List (Nat × (Bool × Bool))) (o : ROpts) (src : Bytes) (html : Bytes)
    (h : convertCore uc o src = .ok html) (hsafe : o.unsafe_ = false) :
    ∃ ts, tokenize html = some ts ∧ urlsOK lookupEntity ts = true := by
  obtain ⟨t, ht, rfl⟩ := convertWith_ok h
  exact render_urlsOK (ROpts.opts o) {} t hsafe (parseDoc_inv (ROpts.opts o) {} true uc src t ht)

end GM.E2E
