/-
  GM.Proof.BlocksFrames — what the block parsers' `Continue` / `Close` do to the tree links of the node store.

  (A) `TSame m`: a partial-correctness calculus ("if `m` ends normally, then nothing about kind / parent / children /
      offset / store length changed"), closed under the `do` constructs, with a tactic `tsame` that walks a `do` block.
      All ten `Continue`s, `codeClose`, `fencedClose` are `TSame`.
  (B) the three `Close`s that do tree surgery (paragraph, setext heading, list) respect the tree-link frame `TF`.
-/
import GM.Proof.BlocksInvL
import GM.Proof.BlocksSpecHtml
import GM.Proof.BlocksSpecCode
import GM.Proof.BlocksSpecFenced

namespace GM.Blocks
open GM GM.Text GM.Spec GM.Proof.Reader

/-! ### (A) the `TreeSame` calculus -/

/-- if `m` ends normally, the tree links are what they were -/
structure TSame {α : Type} (m : M α) : Prop where
  h : ∀ s a s', m s = .ok (a, s') → TreeSame s s'

theorem TSame.pure {α} (a : α) : TSame (Pure.pure a : M α) :=
  ⟨fun s _ _ h => by cases h; exact TreeSame.refl s⟩

theorem TSame.bind {α β} {m : M α} {f : α → M β} (hm : TSame m) (hf : ∀ a, TSame (f a)) : TSame (m >>= f) := by
  constructor
  intro s b s' h
  simp only [Bind.bind, StateT.bind] at h
  cases hx : m s with
  | error e => rw [hx] at h; simp [Except.bind] at h
  | ok p =>
    rw [hx] at h; simp only [Except.bind] at h
    exact (hm.h s p.1 p.2 hx).trans ((hf p.1).h p.2 b s' h)

theorem TSame.ite {α} {c : Prop} [Decidable c] {a b : M α} (ha : TSame a) (hb : TSame b) :
    TSame (if c then a else b) := by split <;> assumption

theorem TSame.throw {α} (e : Panic) : TSame (throw e : M α) := ⟨fun _ _ _ h => by cases h⟩

/-- a computation whose result state has the old node store -/
theorem TSame.of_nodes {α} {m : M α} (h : ∀ s a s', m s = .ok (a, s') → s'.nodes = s.nodes) : TSame m :=
  ⟨fun s a s' e => TreeSame.of_nodes_eq (h s a s' e)⟩

theorem getNode_tsame (id : Nat) : TSame (getNode id) := .of_nodes fun _ _ _ h => by cases h; rfl
theorem getPc_tsame : TSame getPc := .of_nodes fun _ _ _ h => by cases h; rfl
theorem modPc_tsame (f : Ctx → Ctx) : TSame (modPc f) := .of_nodes fun _ _ _ h => by cases h; rfl
theorem source_tsame : TSame source := .of_nodes fun _ _ _ h => by cases h; rfl
theorem position_tsame : TSame position := .of_nodes fun _ _ _ h => by cases h; rfl
theorem setPosition_tsame (l : Int) (p : Segment) : TSame (setPosition l p) := .of_nodes fun _ _ _ h => by cases h; rfl
theorem get_tsame : TSame (get : M St) := .of_nodes fun _ _ _ h => by cases h; rfl
theorem advanceLine_tsame : TSame advanceLine := .of_nodes fun _ _ _ h => by cases h; rfl

theorem liftE_tsame {α} (e : Except Panic α) : TSame (liftE e) := .of_nodes fun s a s' h => by
  cases e with
  | error x => cases h
  | ok v => cases h; rfl

theorem peekLine_tsame : TSame peekLine := .of_nodes fun s a s' h => by
  unfold peekLine at h
  cases hx : s.r.peekLine with
  | error e => simp [hx, bind, Except.bind] at h
  | ok p => simp only [hx, bind, Except.bind, pure, Except.pure] at h; cases h; rfl

theorem lineOffset_tsame : TSame lineOffset := .of_nodes fun s a s' h => by
  unfold lineOffset at h
  cases hx : s.r.lineOffsetOp with
  | error e => simp [hx, bind, Except.bind] at h
  | ok p => simp only [hx, bind, Except.bind, pure, Except.pure] at h; cases h; rfl

theorem advance_tsame (n : Int) : TSame (advance n) := .of_nodes fun s a s' h => by
  unfold advance at h
  cases hx : s.r.advance n with
  | error e => simp [hx, bind, Except.bind] at h
  | ok p => simp only [hx, bind, Except.bind, pure, Except.pure] at h; cases h; rfl

theorem advanceAndSetPadding_tsame (n p : Int) : TSame (advanceAndSetPadding n p) := .of_nodes fun s a s' h => by
  unfold advanceAndSetPadding at h
  cases hx : s.r.advanceAndSetPadding n p with
  | error e => simp [hx, bind, Except.bind] at h
  | ok p => simp only [hx, bind, Except.bind, pure, Except.pure] at h; cases h; rfl

/-- overwriting node `i` by a node with the same tree links -/
theorem fr_treeSame_set (s : St) (i : Nat) (m : Node) (r : Reader) (pc : Ctx)
    (hm : m.kind = (nd s i).kind ∧ m.parent = (nd s i).parent ∧ m.children = (nd s i).children ∧
      m.offset = (nd s i).offset) : TreeSame s { r := r, nodes := s.nodes.set i m, pc := pc } := by
  refine ⟨by simp, fun j => ?_⟩
  by_cases hi : i < s.nodes.length
  · simp only [nd, nd_set _ _ _ _ hi]
    split
    · rename_i e; subst e; exact hm
    · exact ⟨rfl, rfl, rfl, rfl⟩
  · simp only [nd]
    rw [List.set_eq_of_length_le (Nat.le_of_not_lt hi)]
    exact ⟨rfl, rfl, rfl, rfl⟩

/-- `modNode` with an update that keeps `kind`, `parent`, `children`, `offset` -/
theorem modNode_tsame (i : Nat) (f : Node → Node)
    (hf : ∀ n, (f n).kind = n.kind ∧ (f n).parent = n.parent ∧ (f n).children = n.children ∧ (f n).offset = n.offset) :
    TSame (modNode i f) :=
  ⟨fun s _ _ h => by cases h; exact fr_treeSame_set s i _ s.r s.pc (hf _)⟩

theorem appendLine_tsame (i : Nat) (seg : Segment) : TSame (appendLine i seg) :=
  modNode_tsame i _ fun _ => ⟨rfl, rfl, rfl, rfl⟩

macro "tsame_step" : tactic =>
  `(tactic| first
    | with_reducible apply TSame.pure
    | with_reducible apply TSame.bind
    | with_reducible apply TSame.ite
    | with_reducible apply TSame.throw
    | with_reducible apply getNode_tsame
    | with_reducible apply getPc_tsame
    | with_reducible apply modPc_tsame
    | with_reducible apply source_tsame
    | with_reducible apply position_tsame
    | with_reducible apply setPosition_tsame
    | with_reducible apply get_tsame
    | with_reducible apply peekLine_tsame
    | with_reducible apply lineOffset_tsame
    | with_reducible apply advance_tsame
    | with_reducible apply advanceAndSetPadding_tsame
    | with_reducible apply advanceLine_tsame
    | with_reducible apply liftE_tsame
    | with_reducible apply appendLine_tsame
    | ((with_reducible apply modNode_tsame); intro _; exact ⟨rfl, rfl, rfl, rfl⟩)
    | apply_hyp
    | intro _
    | split)

/-- walk over an `M` do block -/
macro "tsame" : tactic => `(tactic| repeat' tsame_step)

theorem lastOpenedBlock_tsame : TSame lastOpenedBlock := by unfold lastOpenedBlock; tsame
theorem lastOffset_tsame (n : Nat) : TSame (lastOffset n) := by unfold lastOffset; tsame
theorem lastChildCount_tsame (n : Nat) : TSame (lastChildCount n) := by unfold lastChildCount; tsame
theorem blockquoteProcess_tsame : TSame blockquoteProcess := by unfold blockquoteProcess; tsame
theorem preserveLeadingTab_tsame (seg : Segment) (ind : Int) : TSame (preserveLeadingTab seg ind) := by
  unfold preserveLeadingTab; tsame

theorem codeTakeLine_tsame (n : Nat) (pos padding : Int) : TSame (codeTakeLine n pos padding) := by
  have := preserveLeadingTab_tsame
  unfold codeTakeLine; tsame

theorem paragraphContinue_tsame (n : Nat) : TSame (paragraphContinue n) := by unfold paragraphContinue; tsame

theorem codeContinue_tsame (n : Nat) : TSame (codeContinue n) := by
  have := codeTakeLine_tsame
  unfold codeContinue; tsame

theorem codeClose_tsame (n : Nat) : TSame (codeClose n) := by unfold codeClose; tsame

theorem fencedContinue_tsame (n : Nat) : TSame (fencedContinue n) := by
  have := preserveLeadingTab_tsame
  unfold fencedContinue; tsame

theorem fencedClose_tsame (n : Nat) : TSame (fencedClose n) := by unfold fencedClose; tsame

theorem blockquoteContinue_tsame (n : Nat) : TSame (blockquoteContinue n) := by
  have := blockquoteProcess_tsame
  unfold blockquoteContinue; tsame

theorem listContinue_tsame (n : Nat) : TSame (listContinue n) := by
  have := lastOpenedBlock_tsame
  have := lastOffset_tsame
  have := lastChildCount_tsame
  unfold listContinue; tsame

theorem listItemContinue_tsame (n : Nat) : TSame (listItemContinue n) := by
  have := lastOffset_tsame
  unfold listItemContinue; tsame

theorem htmlContinue_tsame (n : Nat) : TSame (htmlContinue n) := by unfold htmlContinue; tsame

theorem bpContinue_tsame (bp : BP) (n : Nat) : TSame (bpContinue bp n) := by
  cases bp <;> unfold bpContinue
  · exact TSame.pure _
  · exact TSame.pure _
  · exact listContinue_tsame n
  · exact listItemContinue_tsame n
  · exact codeContinue_tsame n
  · exact TSame.pure _
  · exact fencedContinue_tsame n
  · exact blockquoteContinue_tsame n
  · exact htmlContinue_tsame n
  · exact paragraphContinue_tsame n

/-- no `Continue` of a default block parser changes a tree link -/
theorem bpContinue_treeSame (bp : BP) (node : Nat) (s : St) (st : PState) (s' : St)
    (h : bpContinue bp node s = .ok (st, s')) : TreeSame s s' :=
  (bpContinue_tsame bp node).h s st s' h

theorem codeClose_treeSame (node : Nat) (s s' : St) (h : bpClose .code node s = .ok ((), s')) : TreeSame s s' :=
  (codeClose_tsame node).h s () s' h

theorem fencedClose_treeSame (node : Nat) (s s' : St) (h : bpClose .fenced node s = .ok ((), s')) : TreeSame s s' :=
  (fencedClose_tsame node).h s () s' h

/-! ### (B) the `Close`s that do tree surgery

`TFK s s'`: the frame `TF` for a step that does not grow the store (all kinds stay); `TFX s s'`: the frame for a step
that may grow it. Both are transitive (`TF` alone is not: it does not say that kinds stay). -/

theorem fr_tf_trans {s1 s2 s3 : St} (h1 : TF s1 s2) (l1 : s1.nodes.length ≤ s2.nodes.length)
    (k1 : ∀ i, i < s1.nodes.length → (nd s2 i).kind = (nd s1 i).kind)
    (h2 : TF s2 s3) (k2 : ∀ i, i < s2.nodes.length → (nd s3 i).kind = (nd s2 i).kind) : TF s1 s3 where
  parent := fun i hi hc => by
    rw [h2.parent i (Nat.lt_of_lt_of_le hi l1) (by rw [k1 i hi]; exact hc), h1.parent i hi hc]
  kids := fun i hi hc => by
    rw [h2.kids i (Nat.lt_of_lt_of_le hi l1) (by rw [k1 i hi]; exact hc), h1.kids i hi hc]
  offset := fun i hi => by rw [h2.offset i (Nat.lt_of_lt_of_le hi l1), h1.offset i hi]
  newParent := fun i p hp hk => by
    obtain ⟨_, hp2⟩ := h2.newParent i p hp hk
    have hpl : p < s2.nodes.length := by
      rcases Nat.lt_or_ge p s2.nodes.length with h | h
      · exact h
      · exact absurd hk (h2.newKind p h).1
    rw [k2 p hpl] at hk
    exact h1.newParent i p hp2 hk
  newKind := fun i hi => by
    rcases Nat.lt_or_ge i s2.nodes.length with h | h
    · rw [k2 i h]; exact h1.newKind i hi
    · exact h2.newKind i h

structure TFX (s s' : St) : Prop where
  tf : TF s s'
  len : s.nodes.length ≤ s'.nodes.length
  kind : ∀ i, i < s.nodes.length → (nd s' i).kind = (nd s i).kind

structure TFK (s s' : St) : Prop where
  tf : TF s s'
  len : s'.nodes.length = s.nodes.length
  kind : ∀ i, (nd s' i).kind = (nd s i).kind

theorem TFK.tfx {s s' : St} (h : TFK s s') : TFX s s' := ⟨h.tf, Nat.le_of_eq h.len.symm, fun i _ => h.kind i⟩

theorem TreeSame.tfk {s s' : St} (h : TreeSame s s') : TFK s s' := ⟨h.tf, h.len, fun i => (h.same i).1⟩

theorem TFX.refl (s : St) : TFX s s := (TreeSame.refl s).tfk.tfx

theorem TFX.trans {s1 s2 s3 : St} (h1 : TFX s1 s2) (h2 : TFX s2 s3) : TFX s1 s3 :=
  ⟨fr_tf_trans h1.tf h1.len h1.kind h2.tf h2.kind, Nat.le_trans h1.len h2.len,
    fun i hi => by rw [h2.kind i (Nat.lt_of_lt_of_le hi h1.len), h1.kind i hi]⟩

theorem TFK.trans {s1 s2 s3 : St} (h1 : TFK s1 s2) (h2 : TFK s2 s3) : TFK s1 s3 :=
  ⟨(h1.tfx.trans h2.tfx).tf, by rw [h2.len, h1.len], fun i => by rw [h2.kind i, h1.kind i]⟩

theorem fr_lt_of_kind (s : St) (i : Nat) (h : (nd s i).kind ≠ .document) : i < s.nodes.length := by
  rcases Nat.lt_or_ge i s.nodes.length with hi | hi
  · exact hi
  · rw [nd_default_of_ge s hi] at h; exact absurd rfl h

theorem fr_lt_of_parent (s : St) (i p : Nat) (h : (nd s i).parent = some p) : i < s.nodes.length := by
  rcases Nat.lt_or_ge i s.nodes.length with hi | hi
  · exact hi
  · rw [nd_default_of_ge s hi] at h; cases h

theorem TFX.kind' {s s' : St} (h : TFX s s') (i : Nat) (hk : (nd s i).kind ≠ .document) :
    (nd s' i).kind = (nd s i).kind := h.kind i (fr_lt_of_kind s i hk)

/-- overwriting node `i`: the kind and the offset stay; the parent pointer may only change when `i` is not a container,
    and not to a List; the child list may only change when `i` is not a List -/
theorem fr_set_tfk (s : St) (i : Nat) (m : Node) (r : Reader) (pc : Ctx)
    (hk : m.kind = (nd s i).kind) (ho : m.offset = (nd s i).offset)
    (hp : m.parent = (nd s i).parent ∨
      ((nd s i).kind.isCont = false ∧ ∀ p, m.parent = some p → (nd s p).kind ≠ .list))
    (hc : m.children = (nd s i).children ∨ (nd s i).kind ≠ .list) :
    TFK s { r := r, nodes := s.nodes.set i m, pc := pc } := by
  by_cases hi : i < s.nodes.length
  · have key : ∀ j, nd { r := r, nodes := s.nodes.set i m, pc := pc } j = if i = j then m else nd s j :=
      fun j => nd_set _ _ _ _ hi
    have hkind : ∀ j, (nd { r := r, nodes := s.nodes.set i m, pc := pc } j).kind = (nd s j).kind := by
      intro j; rw [key]; split
      · rename_i e; subst e; exact hk
      · rfl
    refine ⟨⟨?_, ?_, ?_, ?_, ?_⟩, by simp, hkind⟩
    · intro j _ hcj; rw [key]; split
      · rename_i e; subst e
        rcases hp with h | ⟨h, _⟩
        · exact h
        · rw [h] at hcj; cases hcj
      · rfl
    · intro j _ hcj; rw [key]; split
      · rename_i e; subst e
        rcases hc with h | h
        · exact h
        · exact absurd hcj h
      · rfl
    · intro j _; rw [key]; split
      · rename_i e; subst e; exact ho
      · rfl
    · intro j p hpj hkp
      rw [hkind] at hkp
      rw [key] at hpj
      by_cases e : i = j
      · subst e
        rw [if_pos rfl] at hpj
        rcases hp with h | ⟨_, h⟩
        · exact ⟨hi, by rw [← h]; exact hpj⟩
        · exact absurd hkp (h p hpj)
      · rw [if_neg e] at hpj
        exact ⟨fr_lt_of_parent s j p hpj, hpj⟩
    · intro j hj
      rw [hkind, nd_default_of_ge s hj]
      exact ⟨by decide, by decide⟩
  · rw [List.set_eq_of_length_le (Nat.le_of_not_lt hi)]
    exact (TreeSame.of_nodes_eq (s := s) (s' := { r := r, nodes := s.nodes, pc := pc }) rfl).tfk

theorem fr_nd_append (s : St) (n : Node) (r : Reader) (pc : Ctx) (j : Nat) :
    nd { r := r, nodes := s.nodes ++ [n], pc := pc } j =
      if j < s.nodes.length then nd s j else if j = s.nodes.length then n else default := by
  simp only [nd, List.getD_eq_getElem?_getD]
  split
  · rename_i h; rw [List.getElem?_append_left h]
  · rename_i h
    rw [List.getElem?_append_right (Nat.le_of_not_lt h)]
    split
    · rename_i e; simp [e]
    · rename_i e
      have : j - s.nodes.length ≠ 0 := by omega
      cases hh : j - s.nodes.length with
      | zero => exact absurd hh this
      | succ k => simp

/-- a new node that is neither a List nor a ListItem and has no parent -/
theorem fr_newNode_tfx (s : St) (n : Node) (hk : n.kind ≠ .list ∧ n.kind ≠ .listItem) (hp : n.parent = none) :
    TFX s { s with nodes := s.nodes ++ [n] } := by
  have key := fr_nd_append s n s.r s.pc
  refine ⟨⟨?_, ?_, ?_, ?_, ?_⟩, by simp, ?_⟩
  · intro j hj _; rw [key, if_pos hj]
  · intro j hj _; rw [key, if_pos hj]
  · intro j hj; rw [key, if_pos hj]
  · intro j p hpj _
    rw [key] at hpj
    split at hpj
    · rename_i h; exact ⟨h, hpj⟩
    · split at hpj
      · rw [hp] at hpj; cases hpj
      · cases hpj
  · intro j hj
    rw [key, if_neg (Nat.not_lt_of_ge hj)]
    split
    · exact hk
    · exact ⟨by decide, by decide⟩
  · intro j hj; rw [key, if_pos hj]

/-! #### inversion of the monad operations -/

theorem fr_bind_ok {α β} {m : M α} {f : α → M β} {s : St} {b : β} {s' : St} (h : (m >>= f) s = .ok (b, s')) :
    ∃ a s1, m s = .ok (a, s1) ∧ f a s1 = .ok (b, s') := by
  simp only [Bind.bind, StateT.bind] at h
  cases hx : m s with
  | error e => rw [hx] at h; simp [Except.bind] at h
  | ok p => rw [hx] at h; simp only [Except.bind] at h; exact ⟨p.1, p.2, rfl, h⟩

theorem fr_liftE_ok {α} {e : Except Panic α} {s : St} {a : α} {s' : St} (h : liftE e s = .ok (a, s')) :
    e = .ok a ∧ s' = s := by
  cases e with
  | error x => cases h
  | ok v => cases h; exact ⟨rfl, rfl⟩

theorem fr_modNode_ok {i : Nat} {f : Node → Node} {s : St} {a : Unit} {s' : St} (h : modNode i f s = .ok (a, s')) :
    s' = { s with nodes := s.nodes.set i (f (nd s i)) } := by cases h; rfl

theorem fr_modNode_treeSame {i : Nat} {f : Node → Node} {s : St} {a : Unit} {s' : St} (h : modNode i f s = .ok (a, s'))
    (hf : ∀ n, (f n).kind = n.kind ∧ (f n).parent = n.parent ∧ (f n).children = n.children ∧ (f n).offset = n.offset) :
    TreeSame s s' := (modNode_tsame i f hf).h _ _ _ h

/-! #### the tree operations -/

/-- `RemoveChild(p, c)` with `p` not a List and `c` not a container -/
theorem fr_removeChild_tfk (p c : Nat) (s s' : St) (hp : (nd s p).kind ≠ .list) (hc : (nd s c).kind.isCont = false)
    (h : removeChild p c s = .ok ((), s')) : TFK s s' := by
  unfold removeChild at h
  obtain ⟨cn, s1, h1, h⟩ := fr_bind_ok h
  cases h1
  split at h
  · cases h; exact (TreeSame.refl s).tfk
  · obtain ⟨_, s1, h1, h⟩ := fr_bind_ok h
    have e1 := fr_modNode_ok h1
    have e2 := fr_modNode_ok h
    have t1 : TFK s s1 := by
      rw [e1]; exact fr_set_tfk s p _ _ _ rfl rfl (.inl rfl) (.inr hp)
    refine t1.trans ?_
    rw [e2]
    exact fr_set_tfk s1 c _ _ _ rfl rfl (.inr ⟨by rw [t1.kind c]; exact hc, fun q hq => by cases hq⟩) (.inl rfl)

theorem fr_ensureIsolated_none (c : Nat) (s s' : St) (hp : (nd s c).parent = none)
    (h : ensureIsolated c s = .ok ((), s')) : s' = s := by
  unfold ensureIsolated at h
  obtain ⟨cn, s1, h1, h⟩ := fr_bind_ok h
  cases h1
  simp only [hp] at h
  cases h; rfl

/-- the common part of `AppendChild` / `InsertBefore`: `ins` (not a container, without parent) becomes a child of `p`
    (not a List) -/
theorem fr_attach_tfk (g : List Nat → List Nat) (p c : Nat) (s s' : St) (hp : (nd s p).kind ≠ .list)
    (hc : (nd s c).kind.isCont = false) (hcp : (nd s c).parent = none)
    (h : (do
      ensureIsolated c
      modNode p fun n => { n with children := g n.children }
      modNode c fun n => { n with parent := some p } : M Unit) s = .ok ((), s')) : TFK s s' := by
  obtain ⟨_, s0, h0, h2⟩ := fr_bind_ok h
  have e0 := fr_ensureIsolated_none c s s0 hcp h0
  rw [e0] at h2
  obtain ⟨_, s1, h1, h3⟩ := fr_bind_ok h2
  have e1 := fr_modNode_ok h1
  have e2 := fr_modNode_ok h3
  have t1 : TFK s s1 := by
    rw [e1]; exact fr_set_tfk s p _ _ _ rfl rfl (.inl rfl) (.inr hp)
  refine t1.trans ?_
  rw [e2]
  refine fr_set_tfk s1 c _ _ _ rfl rfl (.inr ⟨by rw [t1.kind c]; exact hc, fun q hq => ?_⟩) (.inl rfl)
  cases hq
  rw [t1.kind p]; exact hp

theorem fr_appendChild_tfk (p c : Nat) (s s' : St) (hp : (nd s p).kind ≠ .list)
    (hc : (nd s c).kind.isCont = false) (hcp : (nd s c).parent = none)
    (h : appendChild p c s = .ok ((), s')) : TFK s s' := by
  unfold appendChild at h
  exact fr_attach_tfk (fun l => l ++ [c]) p c s s' hp hc hcp h

theorem fr_insertBefore_tfk (p v ins : Nat) (s s' : St) (hp : (nd s p).kind ≠ .list)
    (hc : (nd s ins).kind.isCont = false) (hcp : (nd s ins).parent = none)
    (h : insertBefore p (some v) ins s = .ok ((), s')) : TFK s s' := by
  unfold insertBefore at h
  simp only at h
  obtain ⟨vn, s1, h1, h⟩ := fr_bind_ok h
  cases h1
  split at h
  · exact fr_appendChild_tfk p ins s s' hp hc hcp h
  · exact fr_attach_tfk (fun l => insertBeforeIn v ins l) p ins s s' hp hc hcp h

/-- `ReplaceChild(p, v, ins)`: `p` not a List, `v` not a container, `ins` not a container and without parent -/
theorem fr_replaceChild_tfk (p v ins : Nat) (s s' : St) (hp : (nd s p).kind ≠ .list)
    (hv : (nd s v).kind.isCont = false) (hc : (nd s ins).kind.isCont = false) (hcp : (nd s ins).parent = none)
    (h : replaceChild p v ins s = .ok ((), s')) : TFK s s' := by
  unfold replaceChild at h
  obtain ⟨_, s1, h1, h⟩ := fr_bind_ok h
  have t1 := fr_insertBefore_tfk p v ins s s1 hp hc hcp h1
  exact t1.trans (fr_removeChild_tfk p v s1 s' (by rw [t1.kind p]; exact hp) (by rw [t1.kind v]; exact hv) h)

/-! #### listParser.Close -/

theorem fr_tightenItem_tfx (child : Nat) : ∀ (gcs : List Nat) (s s' : St), (nd s child).kind = .listItem →
    tightenItem child gcs s = .ok ((), s') → TFX s s' := by
  intro gcs
  induction gcs with
  | nil => intro s s' _ h; unfold tightenItem at h; cases h; exact TFX.refl s
  | cons gc gcs ih =>
    intro s s' hk h
    unfold tightenItem at h
    obtain ⟨g, s0, h0, h1⟩ := fr_bind_ok h
    cases h0
    simp only at h1
    split at h1
    · rename_i hpar
      have hgk : (nd s gc).kind = .paragraph := eq_of_beq hpar
      obtain ⟨tb, s1, h2, h3⟩ := fr_bind_ok h1
      cases h2
      obtain ⟨_, s2, h4, h5⟩ := fr_bind_ok h3
      have t1 := fr_newNode_tfx s { kind := .textBlock, lines := (nd s gc).lines, linesNil := (nd s gc).linesNil }
        ⟨(by intro e; cases e), (by intro e; cases e)⟩ rfl
      have k1 := t1.kind' child (by rw [hk]; decide)
      have k2 := t1.kind' gc (by rw [hgk]; decide)
      have k3 := fr_nd_append s { kind := .textBlock, lines := (nd s gc).lines, linesNil := (nd s gc).linesNil }
        s.r s.pc s.nodes.length
      rw [if_neg (Nat.lt_irrefl _), if_pos rfl] at k3
      have t2 := fr_replaceChild_tfk child gc s.nodes.length _ s2 (by rw [k1, hk]; decide) (by rw [k2, hgk]; rfl)
        (by rw [k3]; rfl) (by rw [k3]) h4
      have t3 := ih s2 s' (by rw [t2.kind, k1, hk]) h5
      exact t1.trans (t2.tfx.trans t3)
    · exact ih s s' hk h1

theorem fr_tightenItems_tfx : ∀ (cs : List Nat) (s s' : St), (∀ c ∈ cs, (nd s c).kind = .listItem) →
    tightenItems cs s = .ok ((), s') → TFX s s' := by
  intro cs
  induction cs with
  | nil => intro s s' _ h; unfold tightenItems at h; cases h; exact TFX.refl s
  | cons child rest ih =>
    intro s s' hk h
    unfold tightenItems at h
    obtain ⟨cn, s0, h0, h1⟩ := fr_bind_ok h
    cases h0
    obtain ⟨_, s1, h2, h3⟩ := fr_bind_ok h1
    have t1 := fr_tightenItem_tfx child _ s s1 (hk child (by simp)) h2
    refine t1.trans (ih s1 s' (fun c hc => ?_) h3)
    have := hk c (by simp [hc])
    rw [t1.kind' c (by rw [this]; decide), this]

/-- closing a List (making the items of a tight list TextBlocks) respects the tree-link frame -/
theorem listClose_tf (node : Nat) (s s' : St) (hkids : KidsOK s) (hkind : (nd s node).kind = .list)
    (h : listClose node s = .ok ((), s')) : TF s s' := by
  unfold listClose at h
  obtain ⟨list, s0, h0, h1⟩ := fr_bind_ok h
  cases h0
  obtain ⟨st, s0, h0, h2⟩ := fr_bind_ok h1
  cases h0
  simp only at h2
  obtain ⟨_, s1, h3, h4⟩ := fr_bind_ok h2
  have t1 : TreeSame s s1 := fr_modNode_treeSame h3 (fun _ => ⟨rfl, rfl, rfl, rfl⟩)
  split at h4
  · have t2 := fr_tightenItems_tfx _ s1 s' (fun c hc => by
      rw [(t1.same c).1]; exact (hkids.kids node c hkind hc).2) h4
    exact (t1.tfk.tfx.trans t2).tf
  · cases h4; exact t1.tf

/-! #### setextHeadingParser.Close -/

theorem setextClose_tf (node : Nat) (s s' : St) (hk : KeysOK s) (hb : BlockOK s ⟨node, .setext⟩) (hkids : KidsOK s)
    (h : setextClose node s = .ok ((), s')) : TF s s' := by
  unfold setextClose at h
  obtain ⟨_, htmp⟩ := hb.setext rfl
  have hkind : (nd s node).kind = .heading := hb.kind
  obtain ⟨t, ht⟩ := Option.isSome_iff_exists.mp htmp
  obtain ⟨_, htkind, htlines⟩ := hk.tmp t ht
  have hne : node ≠ t := by
    intro e; rw [e, htkind] at hkind; cases hkind
  obtain ⟨hn, s0, h0, h1⟩ := fr_bind_ok h
  cases h0
  obtain ⟨seg, s0, h0, h2⟩ := fr_bind_ok h1
  obtain ⟨_, e0⟩ := fr_liftE_ok h0
  rw [e0] at h2
  obtain ⟨_, s1, h3, h4⟩ := fr_bind_ok h2
  have e1 := fr_modNode_ok h3
  have t1 : TreeSame s s1 := fr_modNode_treeSame h3 (fun _ => ⟨rfl, rfl, rfl, rfl⟩)
  have epc : s1.pc.tmpPara = some t := by rw [e1]; exact ht
  obtain ⟨pc, s2, h5, h6⟩ := fr_bind_ok h4
  cases h5
  simp only [epc] at h6
  obtain ⟨tmp, s2, h7, h8⟩ := fr_bind_ok h6
  cases h7
  clear h6
  have h6 := h8
  obtain ⟨_, s2, h9, h10⟩ := fr_bind_ok h6
  have e2 : s2.nodes = s1.nodes := by cases h9; rfl
  obtain ⟨tn, s3, h11, h12⟩ := fr_bind_ok h10
  cases h11
  have etn : s2.nodes.getD t default = s.nodes.getD t default := by
    simp only [e2, e1]
    exact SpecHtml.getD_set_ne _ _ _ _ _ hne
  rw [etn] at h12
  have t2 : TreeSame s s2 := t1.trans (TreeSame.of_nodes_eq e2)
  split at h12
  · rename_i hc
    exfalso
    cases hh : (nd s t).lines with
    | nil => exact htlines hh
    | cons a b => rw [hh] at hc; simp at hc
  · obtain ⟨_, s3, h13, h14⟩ := fr_bind_ok h12
    have t3 : TreeSame s2 s3 := fr_modNode_treeSame h13 (fun _ => ⟨rfl, rfl, rfl, rfl⟩)
    have t4 : TreeSame s s3 := t2.trans t3
    cases htp : (s.nodes.getD t default).parent with
    | none => simp only [htp] at h14; cases h14; exact t4.tf
    | some tp =>
      simp only [htp] at h14
      have hntl : (nd s tp).kind ≠ .list := by
        intro hl
        have := hkids.pk t tp htp hl
        rw [htkind] at this; cases this
      have t5 := fr_removeChild_tfk tp t s3 s' (by rw [(t4.same tp).1]; exact hntl)
        (by rw [(t4.same t).1, htkind]; rfl) h14
      exact (t4.tfk.trans t5).tf

/-! #### paragraphParser.Close -/

theorem fr_trimLeftAll_length (src : Bytes) : ∀ (ls ls' : List Segment), trimLeftAll src ls = .ok ls' →
    ls'.length = ls.length := by
  intro ls
  induction ls with
  | nil => intro ls' h; cases h; rfl
  | cons l ls ih =>
    intro ls' h
    unfold trimLeftAll at h
    cases h1 : l.trimLeftSpace src with
    | error e => simp [h1, bind, Except.bind] at h
    | ok l' =>
      cases h2 : trimLeftAll src ls with
      | error e => simp [h1, h2, bind, Except.bind] at h
      | ok ls2 =>
        simp only [h1, h2, bind, Except.bind, pure, Except.pure] at h
        cases h
        simp [ih ls2 h2]

theorem fr_lineSet_length (ls ls' : List Segment) (i : Int) (v : Segment) (h : lineSet ls i v = .ok ls') :
    ls'.length = ls.length := by
  unfold lineSet at h
  split at h
  · cases h; simp
  · cases h

theorem paragraphClose_tf {src : Bytes} (node : Nat) (s s' : St) (hb : BlockOK s ⟨node, .paragraph⟩)
    (_hn : NodesOK src s) (h : paragraphClose node s = .ok ((), s')) : TreeSame s s' := by
  have hlines : (nd s node).lines ≠ [] := hb.para rfl
  unfold paragraphClose at h
  obtain ⟨n, s0, h0, h1⟩ := fr_bind_ok h
  cases h0
  obtain ⟨sr, s0, h0, h2⟩ := fr_bind_ok h1
  cases h0
  simp only at h2
  have hlen : (nd s node).lines.length ≠ 0 := fun e => hlines (List.length_eq_zero_iff.mp e)
  split at h2
  · obtain ⟨ls, s1, a1, h3⟩ := fr_bind_ok h2
    obtain ⟨el1, e1⟩ := fr_liftE_ok a1
    rw [e1] at h3
    obtain ⟨ll, s2, a2, h4⟩ := fr_bind_ok h3
    obtain ⟨_, e2⟩ := fr_liftE_ok a2
    rw [e2] at h4
    obtain ⟨ll2, s3, a3, h5⟩ := fr_bind_ok h4
    obtain ⟨_, e3⟩ := fr_liftE_ok a3
    rw [e3] at h5
    obtain ⟨ls2, s4, a4, h6⟩ := fr_bind_ok h5
    obtain ⟨el4, e4⟩ := fr_liftE_ok a4
    rw [e4] at h6
    obtain ⟨_, s5, a5, h7⟩ := fr_bind_ok h6
    have t1 : TreeSame s s5 := fr_modNode_treeSame a5 (fun _ => ⟨rfl, rfl, rfl, rfl⟩)
    have e5 := fr_modNode_ok a5
    have hl2 : ls2.length ≠ 0 := by
      rw [fr_lineSet_length _ _ _ _ el4, fr_trimLeftAll_length _ _ _ el1]; exact hlen
    obtain ⟨n2, s6, a6, h8⟩ := fr_bind_ok h7
    cases a6
    have en : (s5.nodes.getD node default).lines = ls2 := by
      rw [e5]; simp only
      rw [SpecHtml.getD_set_eq _ _ _ _ hb.lt]
    rw [en] at h8
    split at h8
    · rename_i hc
      exfalso
      apply hl2
      simpa using hc
    · cases h8; exact t1
  · rename_i hc
    exfalso
    apply hlen
    simpa using hc

/-! #### summary: every `Close` respects the tree-link frame -/

theorem bpClose_tf (src : Bytes) (bp : BP) (node : Nat) (s s' : St) (hn : NodesOK src s) (hk : KeysOK s)
    (hb : BlockOK s ⟨node, bp⟩) (hkids : KidsOK s) (h : bpClose bp node s = .ok ((), s')) : TF s s' := by
  cases bp <;> unfold bpClose at h
  · exact setextClose_tf node s s' hk hb hkids h
  · cases h; exact (TreeSame.refl s).tf
  · exact listClose_tf node s s' hkids hb.kind h
  · cases h; exact (TreeSame.refl s).tf
  · exact ((codeClose_tsame node).h s () s' h).tf
  · cases h; exact (TreeSame.refl s).tf
  · exact ((fencedClose_tsame node).h s () s' h).tf
  · cases h; exact (TreeSame.refl s).tf
  · cases h; exact (TreeSame.refl s).tf
  · exact (paragraphClose_tf node s s' hb hn h).tf

end GM.Blocks
