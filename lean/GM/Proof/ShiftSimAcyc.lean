/-
  GM.Proof.ShiftSimAcyc — the node store the block parsers build is acyclic: ids grow downwards (`Acyc`).
  Calculus: `Keeps I` of GM.Proof.QuoteSimFrame for invariants over the node store:
  * `NodeInv I`: `I` ignores the reader and the parse context, is kept by a `List.set` that keeps `parent` and
    `children`, and by the push of an isolated node (tactic `ac`): every `Open` / `Continue`;
  * `TreeInv I`: also kept by a `List.set` whose new links point downwards: the tree operations and `Close`.
  Instances: `Acyc`, `AcycLt k` (`Acyc` and `k` in range), `LenGe k`, `IsFresh k n`.
-/
import GM.Proof.QuoteSimNonePos

namespace GM.Blocks.Sh
open GM GM.Text GM.Blocks

/-- links point downwards: every child has a larger id than its parent, and a parent pointer is smaller than
    the node's id -/
def Acyc (s : St) : Prop :=
  (∀ j c, c ∈ (s.nodes.getD j default).children → j < c) ∧
  (∀ i p, (s.nodes.getD i default).parent = some p → p < i)

/-- `Acyc`, and `k` is the id of a node of the store -/
def AcycLt (k : Nat) (s : St) : Prop := Acyc s ∧ k < s.nodes.length

/-- the store has at least `k` nodes -/
def LenGe (k : Nat) (s : St) : Prop := k ≤ s.nodes.length

/-- `n` is a node of the store created after the store had `k` nodes, without links -/
def IsFresh (k n : Nat) (s : St) : Prop :=
  k ≤ n ∧ n < s.nodes.length ∧ (s.nodes.getD n default).parent = none ∧ (s.nodes.getD n default).children = []

/-! ### lists -/

theorem ac_getD_set (l : List Node) (i j : Nat) (v : Node) :
    (l.set i v).getD j default = if i = j ∧ i < l.length then v else l.getD j default := by
  simp only [List.getD_eq_getElem?_getD, List.getElem?_set]
  by_cases h : i = j
  · subst h
    by_cases h2 : i < l.length
    · simp [h2]
    · simp [h2]
  · simp [h]

theorem ac_getD_push (l : List Node) (n : Node) (j : Nat) :
    (l ++ [n]).getD j default =
      if j < l.length then l.getD j default else if j = l.length then n else default := by
  simp only [List.getD_eq_getElem?_getD]
  by_cases h : j < l.length
  · simp [h, List.getElem?_append_left]
  · by_cases h2 : j = l.length
    · subst h2; simp
    · have : l.length + 1 ≤ j := by omega
      simp [h, h2, List.getElem?_eq_none, this]

theorem ac_getD_default (l : List Node) (j : Nat) (h : l.length ≤ j) : l.getD j default = default := by
  simp [List.getD_eq_getElem?_getD, List.getElem?_eq_none, h]

theorem ac_mem_insertBeforeIn (v ins x : Nat) : ∀ l : List Nat, x ∈ insertBeforeIn v ins l → x ∈ l ∨ x = ins
  | [] => fun hx => by
    unfold insertBeforeIn at hx
    exact Or.inr (List.mem_singleton.1 hx)
  | a :: rest => fun hx => by
    unfold insertBeforeIn at hx
    split at hx
    · rcases List.mem_cons.1 hx with h1 | h1
      · exact Or.inr h1
      · exact Or.inl h1
    · rcases List.mem_cons.1 hx with h1 | h1
      · exact Or.inl (by rw [h1]; exact List.mem_cons_self)
      · rcases ac_mem_insertBeforeIn v ins x rest h1 with h2 | h2
        · exact Or.inl (List.mem_cons_of_mem _ h2)
        · exact Or.inr h2

/-! ### the invariants -/

/-- an invariant over the node store that the parsers' own writes keep -/
structure NodeInv (I : St → Prop) : Prop where
  noR : NoR I
  pc : ∀ s pc, I s → I { s with pc := pc }
  setSame : ∀ s id v, I s → v.parent = (s.nodes.getD id default).parent →
    v.children = (s.nodes.getD id default).children → I { s with nodes := s.nodes.set id v }
  push : ∀ s n, I s → n.parent = none → n.children = [] → I { s with nodes := s.nodes ++ [n] }

/-- an invariant over the node store that new links pointing downwards keep -/
structure TreeInv (I : St → Prop) : Prop where
  base : NodeInv I
  set : ∀ s id v, I s → (∀ x, x ∈ v.children → x ∈ (s.nodes.getD id default).children ∨ id < x) →
    (∀ q, v.parent = some q → (s.nodes.getD id default).parent = some q ∨ q < id) →
    I { s with nodes := s.nodes.set id v }

theorem ac_set (s : St) (id : Nat) (v : Node) (hs : Acyc s)
    (hc : ∀ x, x ∈ v.children → x ∈ (s.nodes.getD id default).children ∨ id < x)
    (hp : ∀ q, v.parent = some q → (s.nodes.getD id default).parent = some q ∨ q < id) :
    Acyc { s with nodes := s.nodes.set id v } := by
  obtain ⟨hA, hB⟩ := hs
  constructor
  · intro j c hm
    simp only [ac_getD_set] at hm
    split at hm
    · rename_i h
      obtain ⟨rfl, _⟩ := h
      rcases hc c hm with h1 | h1
      · exact hA _ _ h1
      · exact h1
    · exact hA _ _ hm
  · intro i p hm
    simp only [ac_getD_set] at hm
    split at hm
    · rename_i h
      obtain ⟨rfl, _⟩ := h
      rcases hp p hm with h1 | h1
      · exact hB _ _ h1
      · exact h1
    · exact hB _ _ hm

theorem ac_push (s : St) (n : Node) (hs : Acyc s) (hp : n.parent = none) (hc : n.children = []) :
    Acyc { s with nodes := s.nodes ++ [n] } := by
  obtain ⟨hA, hB⟩ := hs
  constructor
  · intro j c hm
    simp only [ac_getD_push] at hm
    split at hm
    · exact hA _ _ hm
    · split at hm
      · rw [hc] at hm; cases hm
      · cases hm
  · intro i p hm
    simp only [ac_getD_push] at hm
    split at hm
    · exact hB _ _ hm
    · split at hm
      · rw [hp] at hm; cases hm
      · cases hm

theorem ac_acyc_tree : TreeInv Acyc where
  base :=
    { noR := ⟨fun _ _ hs => hs⟩
      pc := fun _ _ hs => hs
      setSame := fun s id v hs hp hc =>
        ac_set s id v hs (fun x hx => Or.inl (hc ▸ hx)) (fun q hq => Or.inl (hp ▸ hq))
      push := ac_push }
  set := ac_set

theorem ac_lenGe_tree (k : Nat) : TreeInv (LenGe k) where
  base :=
    { noR := ⟨fun _ _ hs => hs⟩
      pc := fun _ _ hs => hs
      setSame := fun s id v hs _ _ => by
        show k ≤ (s.nodes.set id v).length
        rw [List.length_set]; exact hs
      push := fun s n hs _ _ => by
        show k ≤ (s.nodes ++ [n]).length
        rw [List.length_append]; exact Nat.le_trans hs (Nat.le_add_right _ _) }
  set := fun s id v hs _ _ => by
    show k ≤ (s.nodes.set id v).length
    rw [List.length_set]; exact hs

/-- a tree invariant together with `k` in range -/
theorem TreeInv.lt {I : St → Prop} (hI : TreeInv I) (k : Nat) :
    TreeInv (fun s => I s ∧ k < s.nodes.length) where
  base :=
    { noR := ⟨fun s r hs => ⟨hI.base.noR.h s r hs.1, hs.2⟩⟩
      pc := fun s pc hs => ⟨hI.base.pc s pc hs.1, hs.2⟩
      setSame := fun s id v hs hp hc => ⟨hI.base.setSame s id v hs.1 hp hc, by
        show k < (s.nodes.set id v).length
        rw [List.length_set]; exact hs.2⟩
      push := fun s n hs hp hc => ⟨hI.base.push s n hs.1 hp hc, by
        show k < (s.nodes ++ [n]).length
        rw [List.length_append]; exact Nat.lt_of_lt_of_le hs.2 (Nat.le_add_right _ _)⟩ }
  set := fun s id v hs hc hp => ⟨hI.set s id v hs.1 hc hp, by
    show k < (s.nodes.set id v).length
    rw [List.length_set]; exact hs.2⟩

theorem ac_acycLt_tree (k : Nat) : TreeInv (AcycLt k) := ac_acyc_tree.lt k

theorem ac_isFresh_node (k n : Nat) : NodeInv (IsFresh k n) where
  noR := ⟨fun _ _ hs => hs⟩
  pc := fun _ _ hs => hs
  setSame := fun s id v hs hp hc => by
    obtain ⟨h1, h2, h3, h4⟩ := hs
    refine ⟨h1, ?_, ?_, ?_⟩
    · show n < (s.nodes.set id v).length
      rw [List.length_set]; exact h2
    · show ((s.nodes.set id v).getD n default).parent = none
      rw [ac_getD_set]
      split
      · rename_i h; obtain ⟨rfl, _⟩ := h; rw [hp]; exact h3
      · exact h3
    · show ((s.nodes.set id v).getD n default).children = []
      rw [ac_getD_set]
      split
      · rename_i h; obtain ⟨rfl, _⟩ := h; rw [hc]; exact h4
      · exact h4
  push := fun s m hs _ _ => by
    obtain ⟨h1, h2, h3, h4⟩ := hs
    refine ⟨h1, ?_, ?_, ?_⟩
    · show n < (s.nodes ++ [m]).length
      rw [List.length_append]; exact Nat.lt_of_lt_of_le h2 (Nat.le_add_right _ _)
    · show ((s.nodes ++ [m]).getD n default).parent = none
      rw [ac_getD_push, if_pos h2]; exact h3
    · show ((s.nodes ++ [m]).getD n default).children = []
      rw [ac_getD_push, if_pos h2]; exact h4

/-! ### primitives -/

section prims
variable {I : St → Prop}

theorem ac_modPc (hI : NodeInv I) (f : Ctx → Ctx) : Keeps I (modPc f) :=
  modPc_keeps f fun s hs => hI.pc s _ hs

/-- a write that keeps `parent` and `children` -/
theorem ac_modNode (hI : NodeInv I) (id : Nat) (f : Node → Node)
    (h : ∀ n, (f n).parent = n.parent ∧ (f n).children = n.children) : Keeps I (modNode id f) := by
  intro s a s' hs hm
  cases hm
  exact hI.setSame s id _ hs (h _).1 (h _).2

/-- a write whose new links point downwards -/
theorem ac_modNode_tree (hI : TreeInv I) (id : Nat) (f : Node → Node)
    (hc : ∀ n x, x ∈ (f n).children → x ∈ n.children ∨ id < x)
    (hp : ∀ n q, (f n).parent = some q → n.parent = some q ∨ q < id) : Keeps I (modNode id f) := by
  intro s a s' hs hm
  cases hm
  exact hI.set s id _ hs (hc _) (hp _)

theorem ac_newNode (hI : NodeInv I) (n : Node) (h : n.parent = none ∧ n.children = []) :
    Keeps I (newNode n) := by
  intro s a s' hs hm
  cases hm
  exact hI.push s n hs h.1 h.2

theorem ac_appendLine (hI : NodeInv I) (id : Nat) (seg : Segment) : Keeps I (appendLine id seg) :=
  ac_modNode hI id _ fun _ => ⟨rfl, rfl⟩

/-- `newNode` first: the rest runs on the id `nodes.length` of a state with `I` -/
theorem ac_bind_new {β} (hI : NodeInv I) (n : Node) (f : Nat → M β) (hp : n.parent = none)
    (hc : n.children = []) (hf : ∀ s, I s → Keeps I (f s.nodes.length)) : Keeps I (newNode n >>= f) := by
  intro s b s' hs h
  have h' : f s.nodes.length { s with nodes := s.nodes ++ [n] } = .ok (b, s') := h
  exact hf s hs _ b s' (hI.push s n hs hp hc) h'

end prims

/-- a `pure` first: the rest runs on its value -/
theorem ac_pure_bind {I : St → Prop} {α β} (a : α) (f : α → M β) (h : Keeps I (f a)) :
    Keeps I (pure a >>= f) :=
  fun s b s' hs hm => h s b s' hs hm

/-- a `throw` first: no successful run -/
theorem ac_throw_bind {I : St → Prop} {α β} (e : Panic) (f : α → M β) :
    Keeps I ((throw e : M α) >>= f) := by
  intro s b s' _ hm
  have hm' : (Except.error e : Except Panic (β × St)) = .ok (b, s') := hm
  cases hm'

macro "ac_step" : tactic =>
  `(tactic| first
    | with_reducible apply Keeps.pure
    | with_reducible apply ac_pure_bind
    | with_reducible apply ac_throw_bind
    | with_reducible apply Keeps.bind
    | with_reducible apply Keeps.ite
    | with_reducible apply Keeps.throw
    | with_reducible apply getNode_keeps
    | with_reducible apply getPc_keeps
    | with_reducible apply source_keeps
    | with_reducible apply position_keeps
    | with_reducible apply get_keeps
    | with_reducible apply liftE_keeps
    | with_reducible apply lastOpenedBlock_keeps
    | (with_reducible apply peekLine_keeps; exact NodeInv.noR (by first | assumption | apply_hyp))
    | (with_reducible apply lineOffset_keeps; exact NodeInv.noR (by first | assumption | apply_hyp))
    | (with_reducible apply advance_keeps; exact NodeInv.noR (by first | assumption | apply_hyp))
    | (with_reducible apply advanceAndSetPadding_keeps; exact NodeInv.noR (by first | assumption | apply_hyp))
    | (with_reducible apply advanceLine_keeps; exact NodeInv.noR (by first | assumption | apply_hyp))
    | (with_reducible apply setPosition_keeps; exact NodeInv.noR (by first | assumption | apply_hyp))
    | (with_reducible apply skipBlankLinesR_keeps; exact NodeInv.noR (by first | assumption | apply_hyp))
    | (with_reducible apply ac_modPc; first | assumption | apply_hyp)
    | (with_reducible apply ac_appendLine; first | assumption | apply_hyp)
    | ((with_reducible apply ac_modNode); (first | assumption | apply_hyp); (intro n; exact ⟨rfl, rfl⟩))
    | ((with_reducible apply ac_newNode); (first | assumption | apply_hyp); (exact ⟨rfl, rfl⟩))
    | apply_hyp
    | intro_pi
    | split)

/-- walk over an `M` do block that keeps an invariant of the node store -/
macro "ac" : tactic => `(tactic| repeat' ac_step)

/-! ### the primitives, for `Acyc` -/

theorem ac_acyc : NodeInv Acyc := ac_acyc_tree.base

theorem ac_peekLine : Keeps Acyc peekLine := peekLine_keeps ac_acyc.noR
theorem ac_lineOffset : Keeps Acyc lineOffset := lineOffset_keeps ac_acyc.noR
theorem ac_advance (n : Int) : Keeps Acyc (advance n) := advance_keeps ac_acyc.noR n
theorem ac_advanceAndSetPadding (n p : Int) : Keeps Acyc (advanceAndSetPadding n p) :=
  advanceAndSetPadding_keeps ac_acyc.noR n p
theorem ac_advanceLine : Keeps Acyc advanceLine := advanceLine_keeps ac_acyc.noR
theorem ac_position : Keeps Acyc position := position_keeps
theorem ac_setPosition (l : Int) (p : Segment) : Keeps Acyc (setPosition l p) := setPosition_keeps ac_acyc.noR l p
theorem ac_source : Keeps Acyc source := source_keeps
theorem ac_getPc : Keeps Acyc getPc := getPc_keeps
theorem ac_modPc_acyc (f : Ctx → Ctx) : Keeps Acyc (modPc f) := ac_modPc ac_acyc f
theorem ac_getNode (id : Nat) : Keeps Acyc (getNode id) := getNode_keeps id
theorem ac_liftE {α} (e : Except Panic α) : Keeps Acyc (liftE e) := liftE_keeps e
theorem ac_skipBlankLinesR : Keeps Acyc skipBlankLinesR := skipBlankLinesR_keeps ac_acyc.noR
theorem ac_newNode_acyc (n : Node) (h : n.parent = none ∧ n.children = []) : Keeps Acyc (newNode n) :=
  ac_newNode ac_acyc n h
theorem ac_modNode_acyc (id : Nat) (f : Node → Node)
    (h : ∀ n, (f n).parent = n.parent ∧ (f n).children = n.children) : Keeps Acyc (modNode id f) :=
  ac_modNode ac_acyc id f h
theorem ac_appendLine_acyc (id : Nat) (seg : Segment) : Keeps Acyc (appendLine id seg) :=
  ac_appendLine ac_acyc id seg

/-! ### tree operations -/

section tree
variable {I : St → Prop} (hI : TreeInv I)
include hI

theorem ac_removeChild_gen (p c : Nat) : Keeps I (removeChild p c) := by
  have hb := hI.base
  unfold removeChild
  refine Keeps.bind (getNode_keeps _) fun cn => ?_
  split
  · exact Keeps.pure _
  · refine Keeps.bind ?_ fun _ => ?_
    · exact ac_modNode_tree hI p _ (fun n x hx => Or.inl (List.mem_of_mem_erase hx))
        (fun n q hq => Or.inl hq)
    · exact ac_modNode_tree hI c _ (fun n x hx => Or.inl hx) (fun n q hq => nomatch hq)

theorem ac_ensureIsolated_gen (c : Nat) : Keeps I (ensureIsolated c) := by
  have hb := hI.base
  have := ac_removeChild_gen hI
  unfold ensureIsolated; ac

theorem ac_link_children (p c : Nat) (h : p < c) :
    Keeps I (modNode p fun n => { n with children := n.children ++ [c] }) :=
  ac_modNode_tree hI p _ (fun n x hx => by
    rcases List.mem_append.1 hx with h1 | h1
    · exact Or.inl h1
    · rw [List.mem_singleton.1 h1]; exact Or.inr h) (fun n q hq => Or.inl hq)

theorem ac_link_parent (p c : Nat) (h : p < c) :
    Keeps I (modNode c fun n => { n with parent := some p }) :=
  ac_modNode_tree hI c _ (fun n x hx => Or.inl hx) (fun n q hq => by
    cases hq; exact Or.inr h)

theorem ac_appendChild_gen (p c : Nat) (h : p < c) : Keeps I (appendChild p c) := by
  have hb := hI.base
  have := ac_ensureIsolated_gen hI
  have := ac_link_children hI p c h
  have := ac_link_parent hI p c h
  unfold appendChild; ac

theorem ac_insertBefore_gen (p : Nat) (v1 : Option Nat) (ins : Nat) (h : p < ins) :
    Keeps I (insertBefore p v1 ins) := by
  have hb := hI.base
  have := ac_ensureIsolated_gen hI
  have := ac_appendChild_gen hI p ins h
  have := ac_link_parent hI p ins h
  have : ∀ v, Keeps I (modNode p fun n => { n with children := insertBeforeIn v ins n.children }) := fun v =>
    ac_modNode_tree hI p _ (fun n x hx => by
      rcases ac_mem_insertBeforeIn v ins x _ hx with h1 | h1
      · exact Or.inl h1
      · rw [h1]; exact Or.inr h) (fun n q hq => Or.inl hq)
  unfold insertBefore; ac

theorem ac_nextSibling_gen (c : Nat) : Keeps I (nextSibling c) := by
  unfold nextSibling; ac

theorem ac_insertAfter_gen (p : Nat) (v1 : Option Nat) (ins : Nat) (h : p < ins) :
    Keeps I (insertAfter p v1 ins) := by
  have hb := hI.base
  have := ac_appendChild_gen hI p ins h
  have := ac_nextSibling_gen hI
  have := fun v1 => ac_insertBefore_gen hI p v1 ins h
  unfold insertAfter; ac

theorem ac_replaceChild_gen (p v1 ins : Nat) (h : p < ins) : Keeps I (replaceChild p v1 ins) := by
  have := ac_insertBefore_gen hI p (some v1) ins h
  have := ac_removeChild_gen hI
  unfold replaceChild; ac

end tree

theorem ac_removeChild (p c : Nat) : Keeps Acyc (removeChild p c) := ac_removeChild_gen ac_acyc_tree p c
theorem ac_ensureIsolated (c : Nat) : Keeps Acyc (ensureIsolated c) := ac_ensureIsolated_gen ac_acyc_tree c
theorem ac_appendChild (p c : Nat) (h : p < c) : Keeps Acyc (appendChild p c) :=
  ac_appendChild_gen ac_acyc_tree p c h
theorem ac_insertBefore (p : Nat) (v1 : Option Nat) (ins : Nat) (h : p < ins) :
    Keeps Acyc (insertBefore p v1 ins) := ac_insertBefore_gen ac_acyc_tree p v1 ins h
theorem ac_insertAfter (p : Nat) (v1 : Option Nat) (ins : Nat) (h : p < ins) :
    Keeps Acyc (insertAfter p v1 ins) := ac_insertAfter_gen ac_acyc_tree p v1 ins h
theorem ac_replaceChild (p v1 ins : Nat) (h : p < ins) : Keeps Acyc (replaceChild p v1 ins) :=
  ac_replaceChild_gen ac_acyc_tree p v1 ins h

/-! ### `Open` and `Continue`: no tree operation -/

section parsers
variable {I : St → Prop} (hI : NodeInv I)
include hI

theorem ac_preserveLeadingTab (seg : Segment) (ind : Int) : Keeps I (preserveLeadingTab seg ind) := by
  unfold preserveLeadingTab; ac

theorem ac_lastOffset (n : Nat) : Keeps I (lastOffset n) := by
  unfold lastOffset; ac

theorem ac_lastChildCount (n : Nat) : Keeps I (lastChildCount n) := by
  unfold lastChildCount; ac

theorem ac_paragraphOpen (p : Nat) : Keeps I (paragraphOpen p) := by
  unfold paragraphOpen; ac

theorem ac_paragraphContinue (n : Nat) : Keeps I (paragraphContinue n) := by
  unfold paragraphContinue; ac

theorem ac_thematicOpen (p : Nat) : Keeps I (thematicOpen p) := by
  unfold thematicOpen; ac

theorem ac_atxOpen (p : Nat) : Keeps I (atxOpen p) := by
  unfold atxOpen; ac

theorem ac_setextOpen (p : Nat) : Keeps I (setextOpen p) := by
  unfold setextOpen; ac

theorem ac_codeTakeLine (n : Nat) (pos padding : Int) : Keeps I (codeTakeLine n pos padding) := by
  have := ac_preserveLeadingTab hI
  unfold codeTakeLine; ac

theorem ac_codeOpen (p : Nat) : Keeps I (codeOpen p) := by
  have := ac_codeTakeLine hI
  unfold codeOpen; ac

theorem ac_codeContinue (n : Nat) : Keeps I (codeContinue n) := by
  have := ac_codeTakeLine hI
  unfold codeContinue; ac

theorem ac_fencedOpen (p : Nat) : Keeps I (fencedOpen p) := by
  unfold fencedOpen; ac

theorem ac_fencedContinue (n : Nat) : Keeps I (fencedContinue n) := by
  have := ac_preserveLeadingTab hI
  unfold fencedContinue; ac

theorem ac_blockquoteProcess : Keeps I blockquoteProcess := by
  unfold blockquoteProcess; ac

theorem ac_blockquoteOpen (p : Nat) : Keeps I (blockquoteOpen p) := by
  have := ac_blockquoteProcess hI
  unfold blockquoteOpen; ac

theorem ac_blockquoteContinue (n : Nat) : Keeps I (blockquoteContinue n) := by
  have := ac_blockquoteProcess hI
  unfold blockquoteContinue; ac

theorem ac_listOpen (p : Nat) : Keeps I (listOpen p) := by
  unfold listOpen; ac

theorem ac_listContinue (n : Nat) : Keeps I (listContinue n) := by
  have := ac_lastOffset hI
  have := ac_lastChildCount hI
  unfold listContinue; ac

theorem ac_listItemOpen (p : Nat) : Keeps I (listItemOpen p) := by
  have := ac_lastOffset hI
  unfold listItemOpen; ac

theorem ac_listItemContinue (n : Nat) : Keeps I (listItemContinue n) := by
  have := ac_lastOffset hI
  unfold listItemContinue; ac

theorem ac_htmlOpen (p : Nat) : Keeps I (htmlOpen p) := by
  unfold htmlOpen; ac

theorem ac_htmlContinue (n : Nat) : Keeps I (htmlContinue n) := by
  unfold htmlContinue; ac

theorem ac_codeClose (n : Nat) : Keeps I (codeClose n) := by
  unfold codeClose; ac

theorem ac_fencedClose (n : Nat) : Keeps I (fencedClose n) := by
  unfold fencedClose; ac

theorem ac_bpOpen (bp : BP) (p : Nat) : Keeps I (bpOpen bp p) := by
  cases bp <;> unfold bpOpen
  · exact ac_setextOpen hI p
  · exact ac_thematicOpen hI p
  · exact ac_listOpen hI p
  · exact ac_listItemOpen hI p
  · exact ac_codeOpen hI p
  · exact ac_atxOpen hI p
  · exact ac_fencedOpen hI p
  · exact ac_blockquoteOpen hI p
  · exact ac_htmlOpen hI p
  · exact ac_paragraphOpen hI p

theorem ac_bpContinue (bp : BP) (n : Nat) : Keeps I (bpContinue bp n) := by
  cases bp <;> unfold bpContinue
  · exact Keeps.pure _
  · exact Keeps.pure _
  · exact ac_listContinue hI n
  · exact ac_listItemContinue hI n
  · exact ac_codeContinue hI n
  · exact Keeps.pure _
  · exact ac_fencedContinue hI n
  · exact ac_blockquoteContinue hI n
  · exact ac_htmlContinue hI n
  · exact ac_paragraphContinue hI n

end parsers

/-! ### `Close` -/

theorem ac_paragraphClose_gen {I : St → Prop} (hI : TreeInv I) (n : Nat) : Keeps I (paragraphClose n) := by
  have hb := hI.base
  have := ac_removeChild_gen hI
  unfold paragraphClose; ac

/-- `Acyc`, and every id of `bs` is in range -/
def AcycBs (bs : List Nat) (s : St) : Prop := Acyc s ∧ ∀ p, p ∈ bs → p < s.nodes.length

theorem ac_acycBs_tree (bs : List Nat) : TreeInv (AcycBs bs) where
  base :=
    { noR := ⟨fun _ _ hs => hs⟩
      pc := fun _ _ hs => hs
      setSame := fun s id v hs hp hc => ⟨ac_acyc.setSame s id v hs.1 hp hc, fun p hm => by
        show p < (s.nodes.set id v).length
        rw [List.length_set]; exact hs.2 p hm⟩
      push := fun s n hs hp hc => ⟨ac_push s n hs.1 hp hc, fun p hm => by
        show p < (s.nodes ++ [n]).length
        rw [List.length_append]; exact Nat.lt_of_lt_of_le (hs.2 p hm) (Nat.le_add_right _ _)⟩ }
  set := fun s id v hs hc hp => ⟨ac_set s id v hs.1 hc hp, fun p hm => by
    show p < (s.nodes.set id v).length
    rw [List.length_set]; exact hs.2 p hm⟩

/-- a parent pointer read from the store is in range -/
theorem ac_parent_lt (s : St) (hs : Acyc s) (node p : Nat) (h : (s.nodes.getD node default).parent = some p) :
    p < s.nodes.length := by
  have h1 := hs.2 node p h
  have h2 : node < s.nodes.length := by
    apply Nat.lt_of_not_le
    intro hle
    rw [ac_getD_default _ _ hle] at h
    cases h
  omega

/-- after `getNode`, the parent pointer read is known to be in range -/
theorem ac_bind_getNode {β} (bs : List Nat) (node : Nat) (f : Node → M β)
    (hf : ∀ n, Keeps (AcycBs (n.parent.toList ++ bs)) (f n)) : Keeps (AcycBs bs) (getNode node >>= f) := by
  intro s b s' hs h
  have h' : f (s.nodes.getD node default) s = .ok (b, s') := h
  have := hf _ s b s' ⟨hs.1, fun p hm => by
    rcases List.mem_append.1 hm with h1 | h1
    · apply ac_parent_lt s hs.1 node p
      cases hpar : (s.nodes.getD node default).parent with
      | none => rw [hpar] at h1; cases h1
      | some q =>
        rw [hpar] at h1
        rw [List.mem_singleton.1 h1]
    · exact hs.2 p h1⟩ h'
  exact ⟨this.1, fun p hm => this.2 p (List.mem_append_right _ hm)⟩

macro "ac_inv" : tactic => `(tactic| first | assumption | exact (ac_acycBs_tree _).base)

macro "acn_step" : tactic =>
  `(tactic| first
    | ((with_reducible apply ac_bind_new) <;> first | rfl | ac_inv | skip)
    | ((with_reducible apply ac_insertAfter_gen (ac_acycBs_tree _));
        (exact (And.right ‹AcycBs _ _›) _ (by simp [*])))
    | ((with_reducible apply ac_replaceChild_gen (ac_acycBs_tree _));
        (exact (And.right ‹AcycBs _ _›) _ (by simp [*])))
    | ac_step)

macro "acn" : tactic => `(tactic| repeat' acn_step)

macro "acb" : tactic => `(tactic| repeat' first | with_reducible apply ac_bind_getNode | acn_step)

theorem ac_setextClose_bs (n : Nat) : Keeps (AcycBs []) (setextClose n) := by
  have hb := fun bs => (ac_acycBs_tree bs).base
  have := fun bs => ac_removeChild_gen (ac_acycBs_tree bs)
  have := fun bs => ac_nextSibling_gen (ac_acycBs_tree bs)
  unfold setextClose; acb

theorem ac_of_bs {α} {m : M α} (h : Keeps (AcycBs []) m) : Keeps Acyc m :=
  fun s a s' hs hm => (h s a s' ⟨hs, fun _ hp => nomatch hp⟩ hm).1

theorem ac_setextClose (n : Nat) : Keeps Acyc (setextClose n) := ac_of_bs (ac_setextClose_bs n)

theorem ac_tightenItem (child : Nat) (bs : List Nat) (hc : child ∈ bs) :
    ∀ gcs, Keeps (AcycBs bs) (tightenItem child gcs)
  | [] => by unfold tightenItem; exact Keeps.pure _
  | gc :: gcs => by
    have ih := ac_tightenItem child bs hc gcs
    have hb := (ac_acycBs_tree bs).base
    unfold tightenItem; acn

theorem ac_tightenItems : ∀ (cs : List Nat) (bs : List Nat), Keeps (AcycBs bs) (tightenItems cs)
  | [], bs => by unfold tightenItems; exact Keeps.pure _
  | child :: rest, bs => by
    unfold tightenItems
    intro s b s' hs h
    have h' : (tightenItem child (s.nodes.getD child default).children >>= fun _ => tightenItems rest) s
        = .ok (b, s') := h
    by_cases hlt : child < s.nodes.length
    · have hk : Keeps (AcycBs (child :: bs))
          (tightenItem child (s.nodes.getD child default).children >>= fun _ => tightenItems rest) :=
        Keeps.bind (ac_tightenItem child _ List.mem_cons_self _) fun _ => ac_tightenItems rest _
      have := hk s b s' ⟨hs.1, fun p hm => by
        rcases List.mem_cons.1 hm with h1 | h1
        · rw [h1]; exact hlt
        · exact hs.2 p h1⟩ h'
      exact ⟨this.1, fun p hm => this.2 p (List.mem_cons_of_mem _ hm)⟩
    · rw [ac_getD_default _ _ (Nat.le_of_not_lt hlt)] at h'
      have h'' : tightenItems rest s = .ok (b, s') := h'
      exact ac_tightenItems rest bs s b s' hs h''

theorem ac_listClose_bs (n : Nat) : Keeps (AcycBs []) (listClose n) := by
  have hb := (ac_acycBs_tree []).base
  have := fun cs => ac_tightenItems cs []
  unfold listClose; ac

theorem ac_listClose (n : Nat) : Keeps Acyc (listClose n) := ac_of_bs (ac_listClose_bs n)

theorem ac_paragraphClose (n : Nat) : Keeps Acyc (paragraphClose n) := ac_paragraphClose_gen ac_acyc_tree n

/-- every `Continue` keeps `Acyc` -/
theorem bpContinue_acyc (bp : BP) (node : Nat) : Keeps Acyc (bpContinue bp node) := ac_bpContinue ac_acyc bp node

/-- every `Open` keeps `Acyc` -/
theorem bpOpen_acyc (bp : BP) (parent : Nat) : Keeps Acyc (bpOpen bp parent) := ac_bpOpen ac_acyc bp parent

/-- every `Close` keeps `Acyc` -/
theorem bpClose_acyc (bp : BP) (node : Nat) : Keeps Acyc (bpClose bp node) := by
  cases bp <;> unfold bpClose
  · exact ac_setextClose node
  · exact Keeps.pure _
  · exact ac_listClose node
  · exact Keeps.pure _
  · exact ac_codeClose ac_acyc node
  · exact Keeps.pure _
  · exact ac_fencedClose ac_acyc node
  · exact Keeps.pure _
  · exact Keeps.pure _
  · exact ac_paragraphClose node

/-! ### the store never shrinks -/

section len
variable (k : Nat)

theorem ac_modNode_len (id : Nat) (f : Node → Node) : Keeps (LenGe k) (modNode id f) := by
  intro s a s' hs hm
  cases hm
  show k ≤ (s.nodes.set id _).length
  rw [List.length_set]; exact hs

theorem ac_newNode_len (n : Node) : Keeps (LenGe k) (newNode n) := by
  intro s a s' hs hm
  cases hm
  show k ≤ (s.nodes ++ [n]).length
  rw [List.length_append]; exact Nat.le_trans hs (Nat.le_add_right _ _)

theorem ac_removeChild_len (p c : Nat) : Keeps (LenGe k) (removeChild p c) := by
  have hb := (ac_lenGe_tree k).base
  have := ac_modNode_len k
  unfold removeChild; ac

theorem ac_ensureIsolated_len (c : Nat) : Keeps (LenGe k) (ensureIsolated c) := by
  have := ac_removeChild_len k
  unfold ensureIsolated; ac

theorem ac_appendChild_len (p c : Nat) : Keeps (LenGe k) (appendChild p c) := by
  have := ac_modNode_len k
  have := ac_ensureIsolated_len k
  unfold appendChild; ac

theorem ac_insertBefore_len (p : Nat) (v1 : Option Nat) (ins : Nat) : Keeps (LenGe k) (insertBefore p v1 ins) := by
  have := ac_modNode_len k
  have := ac_ensureIsolated_len k
  have := ac_appendChild_len k
  unfold insertBefore; ac

theorem ac_nextSibling_len (c : Nat) : Keeps (LenGe k) (nextSibling c) := by
  unfold nextSibling; ac

theorem ac_insertAfter_len (p : Nat) (v1 : Option Nat) (ins : Nat) : Keeps (LenGe k) (insertAfter p v1 ins) := by
  have := ac_appendChild_len k
  have := ac_nextSibling_len k
  have := ac_insertBefore_len k
  unfold insertAfter; ac

theorem ac_replaceChild_len (p v1 ins : Nat) : Keeps (LenGe k) (replaceChild p v1 ins) := by
  have := ac_insertBefore_len k
  have := ac_removeChild_len k
  unfold replaceChild; ac

theorem ac_paragraphClose_len (n : Nat) : Keeps (LenGe k) (paragraphClose n) := by
  have hb := (ac_lenGe_tree k).base
  have := ac_modNode_len k
  have := ac_removeChild_len k
  unfold paragraphClose; ac

theorem ac_setextClose_len (n : Nat) : Keeps (LenGe k) (setextClose n) := by
  have hb := (ac_lenGe_tree k).base
  have := ac_modNode_len k
  have := ac_newNode_len k
  have := ac_removeChild_len k
  have := ac_nextSibling_len k
  have := ac_insertAfter_len k
  unfold setextClose; ac

theorem ac_tightenItem_len (child : Nat) : ∀ gcs, Keeps (LenGe k) (tightenItem child gcs)
  | [] => by unfold tightenItem; exact Keeps.pure _
  | gc :: gcs => by
    have ih := ac_tightenItem_len child gcs
    have := ac_newNode_len k
    have := ac_replaceChild_len k
    unfold tightenItem; ac

theorem ac_tightenItems_len : ∀ cs, Keeps (LenGe k) (tightenItems cs)
  | [] => by unfold tightenItems; exact Keeps.pure _
  | c :: cs => by
    have ih := ac_tightenItems_len cs
    have := ac_tightenItem_len k
    unfold tightenItems; ac

theorem ac_listClose_len (n : Nat) : Keeps (LenGe k) (listClose n) := by
  have := ac_modNode_len k
  have := ac_tightenItems_len k
  unfold listClose; ac

theorem ac_bpClose_len (bp : BP) (n : Nat) : Keeps (LenGe k) (bpClose bp n) := by
  have hb := (ac_lenGe_tree k).base
  cases bp <;> unfold bpClose
  · exact ac_setextClose_len k n
  · exact Keeps.pure _
  · exact ac_listClose_len k n
  · exact Keeps.pure _
  · exact ac_codeClose hb n
  · exact Keeps.pure _
  · exact ac_fencedClose hb n
  · exact Keeps.pure _
  · exact Keeps.pure _
  · exact ac_paragraphClose_len k n

end len

/-- an `Open` never shrinks the store -/
theorem bpOpen_len (bp : BP) (parent : Nat) (s s' : St) (a : Option Nat × PState)
    (h : bpOpen bp parent s = .ok (a, s')) : s.nodes.length ≤ s'.nodes.length :=
  ac_bpOpen (ac_lenGe_tree s.nodes.length).base bp parent s a s' (Nat.le_refl _) h

/-- a `Continue` never shrinks the store -/
theorem bpContinue_len (bp : BP) (node : Nat) (s s' : St) (a : PState)
    (h : bpContinue bp node s = .ok (a, s')) : s.nodes.length ≤ s'.nodes.length :=
  ac_bpContinue (ac_lenGe_tree s.nodes.length).base bp node s a s' (Nat.le_refl _) h

/-- a `Close` never shrinks the store -/
theorem bpClose_len (bp : BP) (node : Nat) (s s' : St) (a : Unit)
    (h : bpClose bp node s = .ok (a, s')) : s.nodes.length ≤ s'.nodes.length :=
  ac_bpClose_len s.nodes.length bp node s a s' (Nat.le_refl _) h

/-! ### an `Open` answers a fresh node -/

/-- an answer `some n` is a node created during the run, without links -/
def FreshT (k : Nat) (m : M (Option Nat × PState)) : Prop :=
  ∀ s a s', LenGe k s → m s = .ok (a, s') → ∀ n, a.1 = some n → IsFresh k n s'

/-- after `node` was created: the answer is `node` or nil, and `node` stays without links -/
def FreshTail (k node : Nat) (m : M (Option Nat × PState)) : Prop :=
  ∀ s a s', IsFresh k node s → m s = .ok (a, s') → ∀ n, a.1 = some n → IsFresh k n s'

section freshcalc
variable {k : Nat}

theorem FreshT.pure_none (st : PState) : FreshT k (pure (none, st)) := by
  intro s a s' _ h n hn
  cases h
  cases hn

theorem FreshT.throw (e : Panic) : FreshT k (throw e) := by
  intro s a s' _ h
  cases h

theorem FreshT.bind {α} {m : M α} {f : α → M (Option Nat × PState)} (hm : Keeps (LenGe k) m)
    (hf : ∀ a, FreshT k (f a)) : FreshT k (m >>= f) := by
  intro s b s' hs h
  simp only [Bind.bind, StateT.bind] at h
  cases hms : m s with
  | error e => rw [hms] at h; simp [Except.bind] at h
  | ok p =>
    rw [hms] at h
    simp only [Except.bind] at h
    exact hf p.1 p.2 b s' (hm s p.1 p.2 hs hms) h

theorem FreshT.ite {c : Prop} [Decidable c] {a b : M (Option Nat × PState)} (ha : c → FreshT k a)
    (hb : ¬c → FreshT k b) : FreshT k (if c then a else b) := by
  split
  · exact ha ‹_›
  · exact hb ‹_›

theorem FreshT.bind_new (n : Node) (f : Nat → M (Option Nat × PState)) (hp : n.parent = none)
    (hc : n.children = []) (hf : ∀ node, FreshTail k node (f node)) : FreshT k (newNode n >>= f) := by
  intro s b s' hs h
  have h' : f s.nodes.length { s with nodes := s.nodes ++ [n] } = .ok (b, s') := h
  refine hf _ _ b s' ⟨hs, ?_, ?_, ?_⟩ h'
  · show s.nodes.length < (s.nodes ++ [n]).length
    rw [List.length_append]; exact Nat.lt_succ_self _
  · show ((s.nodes ++ [n]).getD s.nodes.length default).parent = none
    rw [ac_getD_push, if_neg (Nat.lt_irrefl _), if_pos rfl]; exact hp
  · show ((s.nodes ++ [n]).getD s.nodes.length default).children = []
    rw [ac_getD_push, if_neg (Nat.lt_irrefl _), if_pos rfl]; exact hc

theorem FreshTail.pure_some (node : Nat) (st : PState) : FreshTail k node (pure (some node, st)) := by
  intro s a s' hs h n hn
  cases h
  cases hn
  exact hs

theorem FreshTail.pure_none (node : Nat) (st : PState) : FreshTail k node (pure (none, st)) := by
  intro s a s' _ h n hn
  cases h
  cases hn

theorem FreshTail.throw (node : Nat) (e : Panic) : FreshTail k node (throw e) := by
  intro s a s' _ h
  cases h

theorem FreshTail.bind {α} {node : Nat} {m : M α} {f : α → M (Option Nat × PState)}
    (hm : Keeps (IsFresh k node) m) (hf : ∀ a, FreshTail k node (f a)) : FreshTail k node (m >>= f) := by
  intro s b s' hs h
  simp only [Bind.bind, StateT.bind] at h
  cases hms : m s with
  | error e => rw [hms] at h; simp [Except.bind] at h
  | ok p =>
    rw [hms] at h
    simp only [Except.bind] at h
    exact hf p.1 p.2 b s' (hm s p.1 p.2 hs hms) h

theorem FreshTail.ite {node : Nat} {c : Prop} [Decidable c] {a b : M (Option Nat × PState)}
    (ha : c → FreshTail k node a) (hb : ¬c → FreshTail k node b) : FreshTail k node (if c then a else b) := by
  split
  · exact ha ‹_›
  · exact hb ‹_›

end freshcalc

macro "fr_step" : tactic =>
  `(tactic| first
    | with_reducible apply FreshT.pure_none
    | with_reducible apply FreshT.throw
    | with_reducible apply FreshTail.pure_some
    | with_reducible apply FreshTail.pure_none
    | with_reducible apply FreshTail.throw
    | ((with_reducible apply FreshT.bind_new) <;> first | rfl | skip)
    | ((with_reducible apply FreshT.bind); focus (ac; done))
    | ((with_reducible apply FreshTail.bind); focus (ac; done))
    | with_reducible apply FreshT.ite
    | with_reducible apply FreshTail.ite
    | intro_pi
    | split)

/-- walk over the `do` block of an `Open` -/
macro "fr" : tactic => `(tactic| repeat' fr_step)

section fresh
variable (k : Nat)

theorem ac_paragraphOpen_fresh (p : Nat) : FreshT k (paragraphOpen p) := by
  have hb1 := (ac_lenGe_tree k).base
  have hb2 := ac_isFresh_node k
  unfold paragraphOpen; fr

theorem ac_thematicOpen_fresh (p : Nat) : FreshT k (thematicOpen p) := by
  have hb1 := (ac_lenGe_tree k).base
  have hb2 := ac_isFresh_node k
  unfold thematicOpen; fr

theorem ac_atxOpen_fresh (p : Nat) : FreshT k (atxOpen p) := by
  have hb1 := (ac_lenGe_tree k).base
  have hb2 := ac_isFresh_node k
  unfold atxOpen; fr

theorem ac_setextOpen_fresh (p : Nat) : FreshT k (setextOpen p) := by
  have hb1 := (ac_lenGe_tree k).base
  have hb2 := ac_isFresh_node k
  unfold setextOpen; fr

theorem ac_codeOpen_fresh (p : Nat) : FreshT k (codeOpen p) := by
  have hb1 := (ac_lenGe_tree k).base
  have hb2 := ac_isFresh_node k
  have := fun node => ac_codeTakeLine (hb2 node)
  unfold codeOpen; fr

theorem ac_fencedOpen_fresh (p : Nat) : FreshT k (fencedOpen p) := by
  have hb1 := (ac_lenGe_tree k).base
  have hb2 := ac_isFresh_node k
  unfold fencedOpen; fr

theorem ac_blockquoteOpen_fresh (p : Nat) : FreshT k (blockquoteOpen p) := by
  have hb1 := (ac_lenGe_tree k).base
  have hb2 := ac_isFresh_node k
  have := ac_blockquoteProcess hb1
  unfold blockquoteOpen; fr

theorem ac_htmlOpen_fresh (p : Nat) : FreshT k (htmlOpen p) := by
  have hb1 := (ac_lenGe_tree k).base
  have hb2 := ac_isFresh_node k
  unfold htmlOpen; fr

theorem ac_listOpen_fresh (p : Nat) : FreshT k (listOpen p) := by
  have hb1 := (ac_lenGe_tree k).base
  have hb2 := ac_isFresh_node k
  unfold listOpen; fr

theorem ac_listItemOpen_fresh (p : Nat) : FreshT k (listItemOpen p) := by
  have hb1 := (ac_lenGe_tree k).base
  have hb2 := ac_isFresh_node k
  have := ac_lastOffset hb1
  unfold listItemOpen; fr

theorem ac_bpOpen_fresh (bp : BP) (p : Nat) : FreshT k (bpOpen bp p) := by
  cases bp <;> unfold bpOpen
  · exact ac_setextOpen_fresh k p
  · exact ac_thematicOpen_fresh k p
  · exact ac_listOpen_fresh k p
  · exact ac_listItemOpen_fresh k p
  · exact ac_codeOpen_fresh k p
  · exact ac_atxOpen_fresh k p
  · exact ac_fencedOpen_fresh k p
  · exact ac_blockquoteOpen_fresh k p
  · exact ac_htmlOpen_fresh k p
  · exact ac_paragraphOpen_fresh k p

end fresh

/-- the node an `Open` answers was created during the run and has no links -/
theorem bpOpen_fresh (bp : BP) (parent : Nat) (s s' : St) (n : Nat) (st : PState)
    (h : bpOpen bp parent s = .ok ((some n, st), s')) :
    s.nodes.length ≤ n ∧ n < s'.nodes.length ∧ (s'.nodes.getD n default).parent = none ∧
      (s'.nodes.getD n default).children = [] :=
  ac_bpOpen_fresh s.nodes.length bp parent s _ s' (Nat.le_refl _) h n rfl

end GM.Blocks.Sh
