/-
  GM.Proof.BlocksTNO12 — the close discipline through one successful attempt of the candidate loop WITH transformers
  (GM.Proof.BlocksClosedDrv for `CInvG`; the heading between `Open` and the push is a parentless Heading, which
  `CInvG.pad` exempts): `TailPre`, `tryTailB_clG` (`AppendChild`, push), `tailT_clG` (`SetBlankPreviousLines`, the
  dead `last.Parent() == nil` pop, `AppendChild`, push).
-/
import GM.Proof.BlocksTNO37

namespace GM.Blocks.TX
open GM GM.Text GM.Spec GM.Proof.Reader GM.LinkRef GM.Blocks.TO GM.TableX
open GM.Proof.BlocksWF0 (isRaw)

variable {F : Prop}

/-- **one transformer call on a Paragraph that has left the open set** (the popped paragraph of the RequireParagraph
    path: `Closed`, no open block's node): the discipline is kept; a node it adds is a TextBlock below the paragraph's
    parent -/
theorem ptpost_cl0 {src : Bytes} {s s1 : St} {x0 : Nat} {U : List Block} (h : CInvG F src s U)
    (hltb : x0 < s.nodes.length) (hkp : (nd s x0).kind = .paragraph) (hneU : ∀ g ∈ U, g.node ≠ x0)
    (hcl : Closed (nd s x0))
    (hnt : ∀ t, s.pc.tmpPara = some t → (F ∨ ∃ b ∈ s.pc.opened, b.bp = .setext) → t ≠ x0)
    (hp : PTPost x0 s s1) :
    CInvG F src s1 U ∧ CStep s s1 U ∧
      (∀ i, i < s.nodes.length → i ≠ x0 → (nd s1 i).parent = (nd s i).parent) ∧
      ((nd s1 x0).parent = (nd s x0).parent ∨ (nd s1 x0).parent = none) ∧
      (∀ i, s.nodes.length ≤ i → i < s1.nodes.length →
        (nd s1 i).kind = .textBlock ∧ (nd s1 i).parent = (nd s x0).parent ∧ (nd s x0).parent.isSome = true) := by
  obtain ⟨B, D, hB⟩ := h.inv
  obtain ⟨hB1, hr1, hop1, hkg1, htm1, _⟩ := hB.ptpost hltb hnt hkp hp
  rcases hp.res with ⟨refs, k, _, e⟩ | ⟨refs, p, hpar, e⟩
  · -- KEEP
    have hnds : ∀ i, nd s1 i = nd ({ s with nodes := s.nodes.set x0 { (nd s x0) with lines := (nd s x0).lines.drop k } } : St) i := by
      intro i; rw [e]
    have hlk : ∀ i, (nd s1 i).parent = (nd s i).parent ∧ (nd s1 i).children = (nd s i).children := fun i => by
      rw [hnds]; exact setLines_links s x0 _ i
    have hnd := setLines_nd s x0 ((nd s x0).lines.drop k)
    have hlen : s1.nodes.length = s.nodes.length := by rw [e]; simp
    refine ⟨⟨⟨B, D, hB1⟩, h.tree.of_links hlk, fun i hr => ?_, fun g hg => by rw [(hlk g.node).1]; exact h.att g hg, h.nodup,
      fun g hg => by rw [hop1]; exact h.sub g hg, fun i hn => ?_⟩,
      ⟨hr1, hop1, hkg1, fun i _ _ => (hlk i).1, fun g _ _ => (hlk g.node).1, fun t ht => by rw [htm1] at ht; exact ht⟩,
      fun i _ _ => (hlk i).1, .inl (hlk x0).1, fun i h1 h2 => by omega⟩
    by_cases hi : x0 = i
    · subst hi
      left
      rw [Closed, hnds, hnd, if_pos ⟨rfl, hltb⟩]
      intro u hu
      exact hcl u (List.mem_of_mem_drop hu)
    · have hki : (nd s1 i).kind = (nd s i).kind := by rw [hnds, hnd, if_neg (fun hh => hi hh.1)]
      rw [hki] at hr
      rcases h.pad i hr with hc | hc | hab
      · left; rw [Closed, hnds, hnd, if_neg (fun hh => hi hh.1)]; exact hc
      · exact .inr (.inl hc)
      · exact .inr (.inr ⟨by rw [hki]; exact hab.1, by rw [(hlk i).1]; exact hab.2⟩)
    · by_cases hi : x0 = i
      · subst hi
        rw [hkg1.2 x0 hltb, hkp] at hn; cases hn
      · have e0 : nd s1 i = nd s i := by rw [hnds, hnd, if_neg (fun hh => hi hh.1)]
        rw [e0] at hn ⊢; exact h.nl i hn
  · -- GONE
    have hEn : (ptEmptied s x0 refs).nodes = s.nodes.set x0 { (nd s x0) with lines := [] } := rfl
    have hElt : x0 < (ptEmptied s x0 refs).nodes.length := by rw [hEn, List.length_set]; exact hltb
    have hElen : (ptEmptied s x0 refs).nodes.length = s.nodes.length := by rw [hEn, List.length_set]
    have hEp : (nd (ptEmptied s x0 refs) x0).parent = some p := by rw [nd_of_set_self hEn hltb]; exact hpar
    obtain ⟨s2, e2, hf, hpn⟩ := T.ptReplace_eq x0 p (nd s x0).blankPrev (ptEmptied s x0 refs) hElt hEp
    have hs2 : s2 = s1 := by rw [e2] at e; cases e; rfl
    subst hs2
    have hlkE : ∀ i, (nd (ptEmptied s x0 refs) i).parent = (nd s i).parent ∧
        (nd (ptEmptied s x0 refs) i).children = (nd s i).children := fun i => setLines_links s x0 [] i
    have htE : TreeOK (ptEmptied s x0 refs) := h.tree.of_links hlkE
    have e' := e
    unfold ptReplace at e'
    obtain ⟨t, sA, hA, kA⟩ := obind_ok e'
    obtain ⟨ht, hsA⟩ := onewNode_ok hA
    have hnA : sA.nodes = (ptEmptied s x0 refs).nodes ++ [{ kind := .textBlock, blankPrev := (nd s x0).blankPrev }] := by
      rw [hsA]
    have htA : TreeOK sA := htE.snoc hnA rfl rfl
    have hplt : p < x0 := h.tree.par_lt x0 p hpar
    obtain ⟨t1, l1, f1, pins, _⟩ := replaceChild_tree (p := p) (v1 := x0) (ins := t) htA (by rw [ht, hElen]; omega)
      (by rw [ht, hnA]; simp) (by rw [ht, hElen]; omega) kA
    have hndA : ∀ i, nd sA i = if i < s.nodes.length then nd (ptEmptied s x0 refs) i
        else if i = s.nodes.length then { kind := .textBlock, blankPrev := (nd s x0).blankPrev } else default := by
      intro i; rw [nd_snoc hnA i, hElen]
    have frame : ∀ i, i < s.nodes.length → i ≠ x0 → (nd s2 i).parent = (nd s i).parent := by
      intro i hi hne
      rw [f1 i (by rw [ht, hElen]; omega) hne, hndA, if_pos hi]
      exact (hlkE i).1
    have hsame : ∀ i, (nd s2 i).kind = (nd sA i).kind ∧ (nd s2 i).lines = (nd sA i).lines := fun i => by
      have := hf.same i
      rw [hsA]
      exact ⟨this.1, this.2.1⟩
    have hlen2 : s2.nodes.length = s.nodes.length + 1 := by rw [l1, hnA]; simp [hElen]
    refine ⟨⟨⟨B, D, hB1⟩, t1, fun i hr => ?_, fun g hg => ?_, h.nodup, fun g hg => by rw [hop1]; exact h.sub g hg,
        fun i hn => ?_⟩,
      ⟨hr1, hop1, hkg1, fun i hi hk => frame i hi (fun e0 => hk (e0 ▸ hkp)),
        fun g hg _ => frame g.node (h.kinds hg).2 (hneU g hg),
        fun t ht => by rw [htm1] at ht; exact ht⟩, frame, .inr hpn, fun i h1 h2 => ?_⟩
    · rw [(hsame i).1] at hr
      rw [Closed, (hsame i).2]
      rw [hndA] at hr ⊢
      by_cases h1 : i < s.nodes.length
      · rw [if_pos h1] at hr ⊢
        by_cases hi : i = x0
        · subst hi; left; rw [nd_of_set_self hEn hltb]; intro u hu; cases hu
        · rw [nd_of_set_ne hEn hi] at hr ⊢
          rcases h.pad i hr with hc | hc | hab
          · exact .inl hc
          · exact .inr (.inl hc)
          · refine .inr (.inr ⟨?_, by rw [frame i h1 hi]; exact hab.2⟩)
            rw [(hsame i).1, hndA, if_pos h1, nd_of_set_ne hEn hi]; exact hab.1
      · rw [if_neg h1]
        left
        split
        · intro u hu; cases hu
        · intro u hu; cases hu
    · rw [frame g.node (h.kinds hg).2 (hneU g hg)]
      exact h.att g hg
    · rw [(hsame i).1] at hn
      rw [(hsame i).2]
      rw [hndA] at hn ⊢
      by_cases h1 : i < s.nodes.length
      · rw [if_pos h1] at hn ⊢
        by_cases hi : i = x0
        · subst hi; rw [nd_of_set_self hEn hltb]
        · rw [nd_of_set_ne hEn hi] at hn ⊢; exact h.nl i hn
      · rw [if_neg h1]
        split <;> rfl
    · have hi : i = s.nodes.length := by omega
      subst hi
      refine ⟨?_, ?_, by rw [hpar]; rfl⟩
      · rw [(hsame _).1, hndA, if_neg (by omega), if_pos rfl]
      · have : t = s.nodes.length := by rw [ht, hElen]
        rw [← this, pins, hpar]

/-- what is known about the node `Open` has just built, while the tail of the attempt runs -/
structure TailPre (F : Prop) (src : Bytes) (n0 tp parent node : Nat) (bp : BP) (s : St) : Prop where
  cx : CInvG F src s s.pc.opened
  lt : node < s.nodes.length
  par : (nd s node).parent = none
  kind : (nd s node).kind = bp.kind
  fresh : ∀ b ∈ s.pc.opened, b.node < node
  plt : parent < node
  pk : (nd s parent).kind ≠ .paragraph
  ptp : parent = tp ∨ n0 ≤ parent
  n0le : n0 ≤ node
  np : NewPar n0 tp s
  closedNew : bp ≠ .setext → isRaw (nd s node).kind = false → Closed (nd s node)
  src : s.r.source = src
  tmpne : ∀ t, s.pc.tmpPara = some t → t ≠ node

/-- `InvGFX.push` without a claim about the new block (it joins `D`) -/
theorem InvGFX.pushD {F : Prop} {D : List Block} {src : Bytes} {B : Int} {s : St} (hi : InvGFX D F src B s) (node : Nat) (bp : BP)
    (hk : (nd s node).kind = bp.kind) (hlt : node < s.nodes.length)
    (hgt : ∀ b ∈ s.pc.opened, b.node < node) (hnt : ∀ t, s.pc.tmpPara = some t → t ≠ node) (hsx : bp = .setext → F) :
    InvGFX (⟨node, bp⟩ :: D) False src B { s with pc := { s.pc with opened := s.pc.opened ++ [{ node := node, bp := bp }] } } := by
  refine ⟨hi.nrb, ?_, hi.pnb, hi.tmpk, fun b hb => ?_, hi.nodes, fun t ht hm => ?_, hi.raw, hi.pnl, fun b hb hd hbp => ?_⟩
  · exact List.pairwise_append.2 ⟨hi.ord, List.pairwise_singleton _ _, fun a ha b hb => by
      simp only [List.mem_singleton] at hb; rw [hb]; exact hgt a ha⟩
  · rcases List.mem_append.1 hb with h | h
    · exact hi.kinds b h
    · simp only [List.mem_singleton] at h; rw [h]; exact ⟨hk, hlt⟩
  · obtain ⟨b, hb, hs⟩ := hm.resolve_left id
    have hm' : F ∨ ∃ b ∈ s.pc.opened, b.bp = .setext := by
      rcases List.mem_append.1 hb with h | h
      · exact .inr ⟨b, h, hs⟩
      · simp only [List.mem_singleton] at h; rw [h] at hs; exact .inl (hsx hs)
    obtain ⟨a1, a2⟩ := hi.tl t ht hm'
    refine ⟨a1, fun b' hb' => ?_⟩
    rcases List.mem_append.1 hb' with h | h
    · exact a2 b' h
    · simp only [List.mem_singleton] at h; rw [h]; exact fun e0 => hnt t ht e0.symm
  · rcases List.mem_append.1 hb with h | h
    · exact hi.pol b h (fun hx => hd (List.mem_cons_of_mem _ hx)) hbp
    · simp only [List.mem_singleton] at h; exact absurd (h ▸ List.mem_cons_self ..) hd

section tl
variable {src : Bytes}

/-- `AppendChild`, push, answer -/
theorem tryTailB_clG (n0 tp parent node : Nat) (bp : BP) (hc : Bool) (lb' : Option Block) (s3 s' : St)
    (x : TryOutcomeT × OpenResult × Option Block) (hp : TailPre F src n0 tp parent node bp s3) (hsx : bp = .setext → F)
    (e : (do
        appendChild parent node
        modPc fun pc => { pc with opened := pc.opened ++ [{ node := node, bp := bp }] }
        if hc = true then pure (TryOutcomeT.retry node, OpenResult.newBlocksOpened, lb')
          else pure (TryOutcomeT.done, OpenResult.newBlocksOpened, lb') : M _) s3 = .ok (x, s')) :
    CInvG False src s' s'.pc.opened ∧ NewPar n0 tp s' ∧ s'.nodes.length = s3.nodes.length ∧
      s'.pc.tmpPara = s3.pc.tmpPara ∧ s'.pc.opened = s3.pc.opened ++ [{ node := node, bp := bp }] ∧
      (∀ i, (nd s' i).kind = (nd s3 i).kind) ∧
      x = (if hc = true then TryOutcomeT.retry node else TryOutcomeT.done, OpenResult.newBlocksOpened, lb') := by
  obtain ⟨_, s4, h4, k4⟩ := obind_ok e
  have hlk := appendChild_lk h4
  obtain ⟨t4, l4, f4, p4⟩ := appendChild_tree hp.cx.tree hp.plt hp.lt h4
  obtain ⟨_, s5, h5, k5⟩ := obind_ok k4
  have e5 := omodPc_ok h5
  subst s5
  have hs' : s' = { s4 with pc := { s4.pc with opened := s4.pc.opened ++ [{ node := node, bp := bp }] } } ∧
      x = (if hc = true then TryOutcomeT.retry node else TryOutcomeT.done, OpenResult.newBlocksOpened, lb') := by
    split at k5
    · next h => obtain ⟨a, b⟩ := opure_ok k5; rw [if_pos h]; exact ⟨b, a⟩
    · next h => obtain ⟨a, b⟩ := opure_ok k5; rw [if_neg h]; exact ⟨b, a⟩
  obtain ⟨hs', hxx⟩ := hs'
  subst s'
  obtain ⟨B, D, hB⟩ := hp.cx.inv
  have hk4 : (nd s4 node).kind = bp.kind := by rw [(hlk.same node).2.2]; exact hp.kind
  have hlt4 : node < s4.nodes.length := by rw [hlk.len]; exact hp.lt
  have hop4 : s4.pc.opened = s3.pc.opened := by rw [hlk.pc]
  have hnd : ∀ i, nd ({ s4 with pc := { s4.pc with opened := s4.pc.opened ++ [{ node := node, bp := bp }] } } : St) i =
      nd s4 i := fun _ => rfl
  refine ⟨⟨⟨B, _, (hB.lk hlk).pushD node bp hk4 hlt4 (by rw [hop4]; exact hp.fresh) (by rw [hlk.pc]; exact hp.tmpne) hsx⟩,
    t4.of_links (fun i => ⟨rfl, rfl⟩), fun i hr => ?_, fun g hg => ?_, ?_, fun g hg => hg,
    fun i hn => by
      rw [hnd] at hn ⊢
      rw [(hlk.same i).2.2] at hn; rw [(hlk.same i).1]; exact hp.cx.nl i hn⟩, fun x hx q hq => ?_, l4,
    by show s4.pc.tmpPara = _; rw [hlk.pc], by show s4.pc.opened ++ _ = _; rw [hop4], fun i => (hlk.same i).2.2, hxx⟩
  · -- pad
    rw [hnd] at hr ⊢
    rw [(hlk.same i).2.2] at hr
    by_cases hin : i = node
    · subst hin
      by_cases hbs : bp = .setext
      · exact .inr (.inl ⟨⟨i, bp⟩, by show _ ∈ s4.pc.opened ++ _; simp, rfl, .inr hbs⟩)
      · left; rw [Closed, (hlk.same i).1]; exact hp.closedNew hbs hr
    · rcases hp.cx.pad i hr with hc' | ⟨b, hb, hn, hps⟩ | hab
      · left; rw [Closed, (hlk.same i).1]; exact hc'
      · exact .inr (.inl ⟨b, by show b ∈ s4.pc.opened ++ _; rw [hop4]; exact List.mem_append_left _ hb, hn, hps⟩)
      · exact .inr (.inr ⟨by rw [(hlk.same i).2.2]; exact hab.1, by rw [f4 i hin]; exact hab.2⟩)
  · -- att
    rw [hnd]
    have hg' : g ∈ s3.pc.opened ++ [{ node := node, bp := bp }] := by rw [← hop4]; exact hg
    rcases List.mem_append.1 hg' with hg' | hg'
    · have hne : g.node ≠ node := Nat.ne_of_lt (hp.fresh g hg')
      rw [f4 g.node hne]; exact hp.cx.att g hg'
    · simp only [List.mem_singleton] at hg'; rw [hg']; show (nd s4 node).parent.isSome = true; rw [p4]; rfl
  · -- nodup
    show ((s4.pc.opened ++ [({ node := node, bp := bp } : Block)]).map (fun b : Block => b.node)).Nodup
    rw [hop4, List.map_append]
    refine List.nodup_append.2 ⟨hp.cx.nodup, by simp, fun a ha b hb => ?_⟩
    simp only [List.map_cons, List.map_nil, List.mem_singleton] at hb
    obtain ⟨g, hg, rfl⟩ := List.mem_map.1 ha
    rw [hb]; exact Nat.ne_of_lt (hp.fresh g hg)
  · -- NewPar
    rw [hnd] at hq
    rw [hnd]
    by_cases hxn : x = node
    · subst hxn
      rw [p4] at hq; cases hq
      exact ⟨hp.ptp, by rw [(hlk.same _).2.2]; exact hp.pk, by rw [hlk.len]; have := hp.plt; have := hp.lt; omega⟩
    · rw [f4 x hxn] at hq
      obtain ⟨a1, a2, a3⟩ := hp.np x hx q hq
      exact ⟨a1, by rw [(hlk.same _).2.2]; exact a2, by rw [hlk.len]; exact a3⟩

/-- a step of the tail that keeps lines, kinds and links -/
theorem TailPre.same {n0 tp parent node : Nat} {bp : BP} {s s' : St} (hp : TailPre F src n0 tp parent node bp s)
    (hlk : LK s s') (hl : ∀ i, (nd s' i).parent = (nd s i).parent ∧ (nd s' i).children = (nd s i).children) :
    TailPre F src n0 tp parent node bp s' :=
  ⟨by rw [hlk.pc]; exact hp.cx.same hlk hl, by rw [hlk.len]; exact hp.lt, by rw [(hl node).1]; exact hp.par,
    by rw [(hlk.same node).2.2]; exact hp.kind, by rw [hlk.pc]; exact hp.fresh, hp.plt,
    by rw [(hlk.same parent).2.2]; exact hp.pk, hp.ptp, hp.n0le,
    fun x hx q hq => by
      rw [(hl x).1] at hq
      obtain ⟨a1, a2, a3⟩ := hp.np x hx q hq
      exact ⟨a1, by rw [(hlk.same q).2.2]; exact a2, by rw [hlk.len]; exact a3⟩,
    fun hb hr => by
      rw [(hlk.same node).2.2] at hr
      rw [Closed, (hlk.same node).1]; exact hp.closedNew hb hr,
    by rw [hlk.r]; exact hp.src, by rw [hlk.pc]; exact hp.tmpne⟩

/-- behind the RequireParagraph part of one successful attempt: `SetBlankPreviousLines`, the `last.Parent() == nil` pop
    (dead: the last opened block is attached), `AppendChild`, push, answer -/
theorem tailT_clG {pts : List PT} (n0 tp parent node : Nat) (bp : BP) (blank hch : Bool) (lb' : Option Block) (s3 s' : St)
    (x : TryOutcomeT × OpenResult × Option Block) (hp3 : TailPre F src n0 tp parent node bp s3)
    (hlpar : ∀ l, lb'.map (·.node) = some l → (nd s3 l).parent.isSome = true) (hsx : bp = .setext → F)
    (e : (do
        modNode node fun n => { n with blankPrev := blank }
        match Option.map (fun x => x.node) lb' with
          | some l => do
            let __do_lift ← getNode l
            if __do_lift.parent.isNone = true then do
                let __do_lift ← getPc
                closeBlocksT pts ((__do_lift.opened.length : Int) - 1) ((__do_lift.opened.length : Int) - 1)
                appendChild parent node
                modPc fun pc => { pc with opened := pc.opened ++ [{ node := node, bp := bp }] }
                if hch = true then pure (TryOutcomeT.retry node, OpenResult.newBlocksOpened, lb')
                  else pure (TryOutcomeT.done, OpenResult.newBlocksOpened, lb')
              else do
                appendChild parent node
                modPc fun pc => { pc with opened := pc.opened ++ [{ node := node, bp := bp }] }
                if hch = true then pure (TryOutcomeT.retry node, OpenResult.newBlocksOpened, lb')
                  else pure (TryOutcomeT.done, OpenResult.newBlocksOpened, lb')
          | none => do
            appendChild parent node
            modPc fun pc => { pc with opened := pc.opened ++ [{ node := node, bp := bp }] }
            if hch = true then pure (TryOutcomeT.retry node, OpenResult.newBlocksOpened, lb')
              else pure (TryOutcomeT.done, OpenResult.newBlocksOpened, lb') : M _) s3 = .ok (x, s')) :
    CInvG False src s' s'.pc.opened ∧ NewPar n0 tp s' ∧ s'.nodes.length = s3.nodes.length ∧
      s'.pc.tmpPara = s3.pc.tmpPara ∧ s'.pc.opened = s3.pc.opened ++ [{ node := node, bp := bp }] ∧
      (∀ i, (nd s' i).kind = (nd s3 i).kind) ∧
      x = (if hch = true then TryOutcomeT.retry node else TryOutcomeT.done, OpenResult.newBlocksOpened, lb') := by
  obtain ⟨_, s4, h4, k4⟩ := obind_ok e
  have hlk := modNode_lk h4 (fun _ => ⟨rfl, rfl, rfl⟩)
  have hl4 := modNode_links h4 (fun _ => ⟨rfl, rfl⟩)
  have hp4 := hp3.same hlk hl4
  have fin : (do
        appendChild parent node
        modPc fun pc => { pc with opened := pc.opened ++ [{ node := node, bp := bp }] }
        if hch = true then pure (TryOutcomeT.retry node, OpenResult.newBlocksOpened, lb')
          else pure (TryOutcomeT.done, OpenResult.newBlocksOpened, lb') : M _) s4 = .ok (x, s') →
      CInvG False src s' s'.pc.opened ∧ NewPar n0 tp s' ∧ s'.nodes.length = s3.nodes.length ∧
        s'.pc.tmpPara = s3.pc.tmpPara ∧ s'.pc.opened = s3.pc.opened ++ [{ node := node, bp := bp }] ∧
        (∀ i, (nd s' i).kind = (nd s3 i).kind) ∧
        x = (if hch = true then TryOutcomeT.retry node else TryOutcomeT.done, OpenResult.newBlocksOpened, lb') := by
    intro h
    obtain ⟨a1, a2, a3, a4, a5, a6, a7⟩ := tryTailB_clG n0 tp parent node bp hch lb' s4 s' x hp4 hsx h
    exact ⟨a1, a2, a3.trans hlk.len, by rw [a4, hlk.pc], by rw [a5, hlk.pc], fun i => (a6 i).trans (hlk.same i).2.2, a7⟩
  cases lb' with
  | none =>
    dsimp only [Option.map] at k4
    exact fin k4
  | some lb0 =>
    dsimp only [Option.map] at k4
    obtain ⟨ln, s6, h6, k6⟩ := obind_ok k4
    obtain ⟨hln, hs6⟩ := ogetNode_ok h6
    subst s6
    subst ln
    split at k6
    · next hnone =>
      exfalso
      have := hlpar lb0.node rfl
      have e' : (nd s4 lb0.node).parent = (nd s3 lb0.node).parent := (hl4 lb0.node).1
      have hn' : (nd s4 lb0.node).parent.isNone = true := hnone
      rw [e'] at hn'
      cases hq : (nd s3 lb0.node).parent with
      | none => rw [hq] at this; cases this
      | some q => rw [hq] at hn'; cases hn'
    · exact fin k6

end tl

/-! ### the table step on a Paragraph that has left the open set -/

/-- what the nodes added by a transformer call on the popped paragraph `x0` look like: no Paragraph; the parent is the
    paragraph's parent or another new node that is not a Paragraph -/
def FreshOK (x0 : Nat) (s s1 : St) : Prop :=
  ∀ i, s.nodes.length ≤ i → i < s1.nodes.length → (nd s1 i).kind ≠ .paragraph ∧
    ∀ q, (nd s1 i).parent = some q → (some q = (nd s x0).parent) ∨
      (s.nodes.length ≤ q ∧ q < s1.nodes.length ∧ (nd s1 q).kind ≠ .paragraph)

theorem tablepost_cl0 {src : Bytes} {s s1 : St} {x0 : Nat} {U : List Block} {t : GM.Table.Table} {p : Nat}
    (h : CInvG F src s U) (hltb : x0 < s.nodes.length) (hkp : (nd s x0).kind = .paragraph) (hneU : ∀ g ∈ U, g.node ≠ x0)
    (hcl : Closed (nd s x0))
    (hnt : ∀ t, s.pc.tmpPara = some t → (F ∨ ∃ b ∈ s.pc.opened, b.bp = .setext) → t ≠ x0)
    (htb : (GM.Table.transform src ((nd s x0).lines.map toSeg)).table = some t) (hpar : (nd s x0).parent = some p)
    (hT : TablePost (RecD src t) x0 p ((GM.Table.transform src ((nd s x0).lines.map toSeg)).para.map ofSeg) s s1) :
    CInvG F src s1 U ∧ CStep s s1 U ∧
      (∀ i, i < s.nodes.length → i ≠ x0 → (nd s1 i).parent = (nd s i).parent) ∧
      ((nd s1 x0).parent = (nd s x0).parent ∨ (nd s1 x0).parent = none) ∧ FreshOK x0 s s1 := by
  obtain ⟨B, D, hB0⟩ := h.inv
  have hB : InvGFX (s.pc.opened ++ D) F src B s := hB0.dmono (fun _ hx => List.mem_append_right _ hx)
  have hv := hB.tblLinesB hkp
  obtain ⟨hB1, hr1, hop1, hkg1, htm1, hlo1⟩ := hB.tabledata hltb hnt hkp
    (fun b' hb' _ => List.mem_append_left _ hb') htb (tablePost_toData hT hpar)
  have hlines := table_lines hv htb
  obtain ⟨L', hL'⟩ : ∃ L', (GM.Table.transform src ((nd s x0).lines.map toSeg)).para.map ofSeg = L' := ⟨_, rfl⟩
  rw [hL'] at hT hlines
  have hself : nd s1 x0 = { (nd s x0) with lines := L', parent := if L'.isEmpty then none else some p } := hT.self
  have hpo : ∀ i, i < s.nodes.length → i ≠ x0 → (nd s1 i).parent = (nd s i).parent := fun i hi hne => (hT.old i hi hne).2
  have hclL : ∀ x ∈ L', x.padding = 0 := by
    rcases hlines with h0 | ⟨init, u, rest, hls, _, h0⟩
    · rw [h0]; intro x hx; cases hx
    · rw [h0]
      intro x hx
      simp only [List.mem_append, List.mem_singleton] at hx
      rcases hx with hx | hx
      · exact hcl x (by rw [hls]; simp [hx])
      · subst hx; exact hcl u (by rw [hls]; simp)
  have hfk : ∀ i, s.nodes.length ≤ i → i < s1.nodes.length → (nd s1 i).kind = .thematicBreak :=
    fun i h1 h2 => recD_kind (hT.fresh i h1 h2)
  have hfresh : ∀ i, s.nodes.length ≤ i → Closed (nd s1 i) ∧ (noLinesKind (nd s1 i).kind = true → (nd s1 i).lines = []) := by
    intro i hi
    rcases Nat.lt_or_ge i s1.nodes.length with h2 | h2
    · exact ⟨recD_closed hv htb (hT.fresh i hi h2), fun hn => by rw [hfk i hi h2] at hn; cases hn⟩
    · rw [nd_default_of_ge s1 h2]
      exact ⟨fun x hx => (by cases hx), fun _ => rfl⟩
  refine ⟨⟨⟨B, _, hB1⟩, hT.tree, fun i hr => ?_, fun g hg => ?_, h.nodup, fun g hg => by rw [hop1]; exact h.sub g hg,
      fun i hn => ?_⟩,
    ⟨hr1, hop1, hkg1, fun i hi hk => hpo i hi (fun e0 => hk (e0 ▸ hkp)),
      fun g hg _ => hpo g.node (h.kinds hg).2 (hneU g hg), fun x hx => by rw [htm1] at hx; exact hx⟩,
    hpo, ?_, fun i h1 h2 => ⟨by rw [hfk i h1 h2]; decide, fun q hq => ?_⟩⟩
  · rcases Nat.lt_or_ge i s.nodes.length with hi | hi
    · by_cases hx : i = x0
      · subst hx
        left
        rw [hself]
        exact hclL
      · rw [hkg1.2 i hi] at hr
        rcases h.pad i hr with hc | hc | hab
        · left; rw [Closed, hlo1 i hi hx]; exact hc
        · exact .inr (.inl hc)
        · exact .inr (.inr ⟨by rw [hkg1.2 i hi]; exact hab.1, by rw [hpo i hi hx]; exact hab.2⟩)
    · exact .inl (hfresh i hi).1
  · rw [hpo g.node (h.kinds hg).2 (hneU g hg)]; exact h.att g hg
  · rcases Nat.lt_or_ge i s.nodes.length with hi | hi
    · by_cases hx : i = x0
      · subst hx; rw [hkg1.2 i hltb, hkp] at hn; cases hn
      · rw [hkg1.2 i hi] at hn; rw [hlo1 i hi hx]; exact h.nl i hn
    · exact (hfresh i hi).2 hn
  · rw [hself]
    cases hemp : L'.isEmpty with
    | true => exact .inr rfl
    | false => exact .inl (by simp only [Bool.false_eq_true, if_false]; exact hpar.symm)
  · by_cases hi0 : i = s.nodes.length
    · subst hi0
      rw [hT.tpar] at hq
      left; rw [← hq, hpar]
    · have hq0 := hT.fpar i q (by omega) hq
      have hqi : q < i := hT.tree.par_lt i q hq
      exact .inr ⟨hq0, by omega, by rw [hfk q hq0 (by omega)]; decide⟩

theorem ptpostT_cl0 {src : Bytes} {s s2 : St} {x0 : Nat} {U : List Block} (h : CInvG F src s U)
    (hltb : x0 < s.nodes.length) (hkp : (nd s x0).kind = .paragraph) (hneU : ∀ g ∈ U, g.node ≠ x0)
    (hcl : Closed (nd s x0))
    (hnt : ∀ t, s.pc.tmpPara = some t → (F ∨ ∃ b ∈ s.pc.opened, b.bp = .setext) → t ≠ x0)
    (hp : PTPostT src x0 s s2) :
    CInvG F src s2 U ∧ CStep s s2 U ∧
      (∀ i, i < s.nodes.length → i ≠ x0 → (nd s2 i).parent = (nd s i).parent) ∧
      ((nd s2 x0).parent = (nd s x0).parent ∨ (nd s2 x0).parent = none) ∧ FreshOK x0 s s2 := by
  rcases hp with hp | ⟨s1, t, p, h1, htb, hpar, hT⟩
  · obtain ⟨a1, a2, a3, a4, a5⟩ := ptpost_cl0 h hltb hkp hneU hcl hnt hp
    refine ⟨a1, a2, a3, a4, fun i hi1 hi2 => ?_⟩
    obtain ⟨b1, b2, _⟩ := a5 i hi1 hi2
    exact ⟨by rw [b1]; decide, fun q hq => .inl (by rw [← hq, b2])⟩
  · obtain ⟨a1, a2, a3, a4, a5⟩ := ptpost_cl0 h hltb hkp hneU hcl hnt h1
    have hlt1 : x0 < s1.nodes.length := Nat.lt_of_lt_of_le hltb a2.kg.1
    have hkp1 : (nd s1 x0).kind = .paragraph := by rw [a2.kg.2 x0 hltb]; exact hkp
    have hcl1 : Closed (nd s1 x0) := by
      rcases a1.pad x0 (by rw [hkp1]; rfl) with hc | ⟨g, hg, hn, _⟩ | hab
      · exact hc
      · exact absurd hn (hneU g hg)
      · rw [hkp1] at hab; cases hab.1
    have hpar0 : (nd s1 x0).parent = (nd s x0).parent := by
      rcases a4 with a4 | a4
      · exact a4
      · rw [a4] at hpar; cases hpar
    obtain ⟨c1, c2, c3, c4, c5⟩ := tablepost_cl0 a1 hlt1 hkp1 hneU hcl1
      (fun x hx hm => hnt x (a2.tmp x hx) (by rw [a2.opened] at hm; exact hm)) htb hpar (hT a1.tree)
    refine ⟨c1, a2.trans c2, fun i hi hne => (c3 i (Nat.lt_of_lt_of_le hi a2.kg.1) hne).trans (a3 i hi hne), ?_,
      fun i hi1 hi2 => ?_⟩
    · rcases c4 with c4 | c4
      · exact .inl (c4.trans hpar0)
      · exact .inr c4
    · rcases Nat.lt_or_ge i s1.nodes.length with h1' | h1'
      · obtain ⟨b1, b2, _⟩ := a5 i hi1 h1'
        have hne : i ≠ x0 := by omega
        refine ⟨by rw [c2.kg.2 i h1', b1]; decide, fun q hq => .inl ?_⟩
        rw [c3 i h1' hne] at hq
        rw [← hq, b2]
      · obtain ⟨d1, d2⟩ := c5 i h1' hi2
        refine ⟨d1, fun q hq => ?_⟩
        rcases d2 q hq with d2 | ⟨d2, d3, d4⟩
        · exact .inl (by rw [d2, hpar0])
        · exact .inr ⟨Nat.le_trans a2.kg.1 d2, d3, d4⟩

end GM.Blocks.TX
