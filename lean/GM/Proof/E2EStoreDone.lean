/-
  GM.Proof.E2EStoreDone — round 2, last step: the info / closure hypotheses are theorems (GM.Proof.E2EXSegs), so
  * `Err.value p` of `convertCore` only needs "the LINES of raw blocks are in range" (`NodesOK` shape), and
  * C05 over `parseAst` only needs the four store hypotheses `StoreHypsCore` (lines in range, lines ordered, Document / List
    without lines, ListItem ⇔ List).
-/
import GM.Proof.E2EXSegs
import GM.Proof.E2EInlineDone

namespace GM.E2E
open GM GM.Text GM.Convert GM.Spec

theorem blockPhase_xsegs (guard : Bool) (src : Bytes) (st : GM.Blocks.St) (h : blockPhase guard src = .ok st) :
    ∀ n ∈ st.nodes, XP src n :=
  runT_xsegs src (paragraphTransformers_keep guard) st h

/-- the raw-block half of `Err.value` from lines alone -/
theorem rawSegs_of_lines (guard : Bool) (src : Bytes) (st : GM.Blocks.St) (h : blockPhase guard src = .ok st)
    (hl : ∀ n ∈ st.nodes, isRawKind n.kind = true → ∀ t ∈ n.lines, segInRange src t) : RawSegsInRange src st :=
  fun n hn => ⟨hl n hn, (blockPhase_xsegs guard src st h n hn).info, (blockPhase_xsegs guard src st h n hn).closure⟩

theorem convertCore_noValue_of_lines (uc : List (Nat × (Bool × Bool))) (o : ROpts) (src : Bytes)
    (hB : ∀ st, blockPhase true src = .ok st →
      ∀ n ∈ st.nodes, isRawKind n.kind = true → ∀ t ∈ n.lines, segInRange src t) (p : Panic) :
    convertCore uc o src ≠ .error (.value p) :=
  convertCore_noValue_of_raw uc o src (fun st hst => rawSegs_of_lines true src st hst (hB st hst)) p

/-- the store hypotheses that remain for C05 -/
structure StoreHypsCore (src : Bytes) (st : GM.Blocks.St) : Prop where
  /-- `LinesInRange`: C05(c) range clause (shape of `GM.Blocks.NodesOK` / `GM.Props.Blocks.lines_in_range`) -/
  lines : ∀ n ∈ st.nodes, ∀ t ∈ n.lines, 0 ≤ t.start ∧ t.start ≤ t.stop ∧ t.stop ≤ src.length ∧ 0 ≤ t.padding
  /-- `LinesOrdered`: a block's lines increase (shape of `GM.Blocks.OrdFrom 0`) -/
  ord : ∀ n ∈ st.nodes, ordFrom 0 n.lines
  /-- `ContainersHaveNoLines`: the Document and List nodes never receive a line -/
  noLines : ∀ n ∈ st.nodes, (n.kind = .document ∨ n.kind = .list) → n.lines = []
  /-- `ListShape`: a child is a ListItem exactly when its parent is a List (one direction is `GM.Blocks.KidsOK.kids`) -/
  listShape : ∀ i, ∀ c ∈ (st.nodes.getD i default).children,
    ((st.nodes.getD c default).kind = .listItem ↔ (st.nodes.getD i default).kind = .list)

theorem storeHyps_of_core (guard : Bool) (src : Bytes) (st : GM.Blocks.St) (h : blockPhase guard src = .ok st)
    (hc : StoreHypsCore src st) : StoreHyps src st where
  lines := hc.lines
  info := fun n hn => (blockPhase_xsegs guard src st h n hn).info
  closure := fun n hn => (blockPhase_xsegs guard src st h n hn).closure
  ord := hc.ord
  noLines := hc.noLines
  listShape := hc.listShape

/-- C05 end to end from the four store hypotheses -/
theorem parseAst_wfAst_core (uc : List (Nat × (Bool × Bool))) (src : Bytes) (a : ATree)
    (h : parseAst true uc src = .ok a) (hS : ∀ st, blockPhase true src = .ok st → StoreHypsCore src st) :
    wfAst src.length (dumpAst a) = none :=
  parseAst_wfAst_store uc src a h (fun st hst => storeHyps_of_core true src st hst (hS st hst))

end GM.E2E
