/-
  GM.Proof.ConvertXE2ECS — "every CodeSpan holds Text nodes only" (`csH`, hereditary) of the tree the inline phase over the
  members' trigger table answers, all 16 member sets: the one shape fact the node renderers need of the inline children
  (`c.(*ast.Text)` in renderCodeSpan). Carried through every default inline parser, the members' parsers, the byte loop over
  the open table, ProcessDelimiters with both processors (by the relabelling) and CloseBlock. The walk over the link parser and
  the loop is the one of GM.Proof.ConvertFLinks (package fnx), re-run for this property.
-/
import GM.Proof.ConvertFLinks
import GM.Proof.ConvertXE2E

namespace GM.Proof.ConvertXE2ECS
open GM GM.Text GM.Inl GM.Proof.Inlines GM.Proof.InlinesTotal GM.Proof.InlinesDelims GM.Inl.FLinks
open GM.Proof.ConvertXE2E GM.Proof.ConvertXRelv GM.Proof.ConvertXTotal

/-- (`n` is a dummy index: it keeps the statements in the shape of GM.Proof.ConvertFLinks) -/
def CS (_n : Nat) (x : Inl.Node) : Prop := csH x = true

theorem csHL_iff (n : Nat) : ∀ l : List Inl.Node, csHL l = true ↔ allQ (CS n) l
  | [] => by simp [csHL, allQ]
  | x :: rest => by
    simp only [csHL, Bool.and_eq_true, csHL_iff n rest]
    exact (allQ_cons (Q := CS n)).symm

theorem cs_text (n : Nat) (s : Segment) (a b c : Bool) : CS n (.text s a b c) := by simp [CS, csH]
theorem cs_delim (n : Nat) (id : Nat) (d : Delim) : CS n (.delim id d) := by simp [CS, csH]
theorem cs_label (n : Nat) (id : Nat) (s : Segment) (im : Bool) : CS n (.label id s im) := by simp [CS, csH]
theorem cs_autoLink (n : Nat) (e : Bool) (s : Segment) : CS n (.autoLink e s) := by simp [CS, csH]
theorem cs_rawHTML (n : Nat) (s : List Segment) : CS n (.rawHTML s) := by simp [CS, csH]
theorem cs_link (n : Nat) (im : Bool) (d : Bytes) (t : Option Bytes) {ks : List Inl.Node} (h : allQ (CS n) ks) :
    CS n (.link im d t ks) := by
  simp only [CS, csH]; exact (csHL_iff n ks).2 h
theorem cs_emph' (n : Nat) (c : Int) {ks : List Inl.Node} (h : allQ (CS n) ks) : CS n (.emphasis c ks) := by
  simp only [CS, csH]; exact (csHL_iff n ks).2 h
theorem cs_emph (n : Nat) (c : Int) {ks : List Inl.Node} (_hc : 1 ≤ c) (h : allQ (CS n) ks) : CS n (.emphasis c ks) :=
  cs_emph' n c h

theorem cs_inv (n : Nat) : NodeInv1 (CS n) where
  text := cs_text n
  emph := fun c ks hc h => cs_emph n c hc h
  cons := fun id d _ _ => cs_delim n id _

mutual
theorem wf_cs (n : Nat) (lab : Bool) : ∀ x : Inl.Node, wf lab x = true → CS n x
  | .text .., _ => cs_text n ..
  | .codeSpan ks, h => by simpa [CS, csH, wf] using h
  | .emphasis lv ks, h => by
    simp only [wf, Bool.and_eq_true] at h
    exact cs_emph' n lv (wfL_cs n lab ks h.2)
  | .link _ _ _ ks, h => by
    simp only [wf, Bool.and_eq_true] at h
    exact cs_link n _ _ _ (wfL_cs n lab ks h.1)
  | .autoLink .., _ => cs_autoLink n ..
  | .rawHTML .., _ => cs_rawHTML n ..
  | .delim .., _ => cs_delim n ..
  | .label .., _ => cs_label n ..
theorem wfL_cs (n : Nat) (lab : Bool) : ∀ l : List Inl.Node, wfL lab l = true → allQ (CS n) l
  | [], _ => allQ_nil
  | x :: rest, h => by
    simp only [wfL, Bool.and_eq_true] at h
    exact allQ_cons.mpr ⟨wf_cs n lab x h.1, wfL_cs n lab rest h.2⟩
end

/-- a node the default parsers may append -/
theorem top_cs (n : Nat) {x : Inl.Node} (h : top x = true) : CS n x := by
  unfold top at h
  cases x with
  | delim id d => exact cs_delim n id d
  | _ => exact wf_cs n true _ (by simpa [Node.isDelim] using h)

/-! ### the link parser -/

variable {n : Nat}

theorem processLinkLabel_cs {st st' : St} {post : List Inl.Node} (h : processLinkLabel st = .ok (post, st'))
    (hk : allQ (CS n) st.kids) : allQ (CS n) st'.kids ∧ allQ (CS n) post := by
  unfold processLinkLabel at h
  simp only [popBottom_kids] at h
  split at h
  · contradiction
  · split at h
    · contradiction
    · split at h
      · contradiction
      · rename_i kids hp
        have hk' := processDelimiters_allQ1 (cs_inv n) hp hk
        split at h
        · contradiction
        · rename_i pre lid lseg im po hs
          split at h
          · contradiction
          · simp at h; obtain ⟨rfl, rfl⟩ := h
            have e := splitLastLabel_eq hs
            rw [e] at hk'
            have h1 := allQ_append.mp hk'
            have h2 := allQ_cons.mp h1.2
            exact ⟨allQ_append.mpr ⟨h1.1, allQ_single.mpr (cs_label n _ _ _)⟩, h2.2⟩

/-- what a link parse hands back -/
def LinkResC (n : Nat) (res : Option LinkInfo) (st' : St) : Prop :=
  allQ (CS n) st'.kids ∧ ∀ info, res = some info → allQ (CS n) info.kids

theorem linkResC_fail {st' : St} (hk : allQ (CS n) st'.kids) : LinkResC n none st' :=
  ⟨hk, by intro info hi; simp at hi⟩

theorem linkResC_ok {st st' : St} {post : List Inl.Node} {d : Bytes} {t : Option Bytes}
    (h : processLinkLabel st = .ok (post, st')) (hk : allQ (CS n) st.kids) :
    LinkResC n (some { dest := d, title := t, kids := post }) st' := by
  obtain ⟨a1, a2⟩ := processLinkLabel_cs h hk
  refine ⟨a1, ?_⟩
  intro info hi
  simp at hi; subst hi
  exact a2

theorem parseLinkInline_cs {st st' : St} {res : Option LinkInfo}
    (h : parseLinkInline st = .ok (res, st')) (hk : allQ (CS n) st.kids) : LinkResC n res st' := by
  unfold parseLinkInline at h
  mpaths h
  all_goals first
    | (obtain ⟨rfl, rfl⟩ := h; exact linkResC_fail hk)
    | (rename_i v heq
       obtain ⟨rfl, rfl⟩ := h
       exact linkResC_ok (st := { st with rd := _ }) heq hk)

theorem parseReferenceLink_cs {env : Env} {st st' : St} {lseg : Segment} {res : Option LinkInfo} {hv : Bool}
    (h : parseReferenceLink env st lseg = .ok ((res, hv), st')) (hk : allQ (CS n) st.kids) : LinkResC n res st' := by
  unfold parseReferenceLink at h
  mpaths h
  all_goals first
    | (obtain ⟨⟨rfl, _⟩, rfl⟩ := h; exact linkResC_fail hk)
    | (rename_i v heq
       obtain ⟨⟨rfl, _⟩, rfl⟩ := h
       exact linkResC_ok (st := { st with rd := _ }) heq hk)

/-- the invariant a parser call keeps -/
def POKC (n : Nat) (r : Option Inl.Node × St) : Prop := allQ (CS n) r.2.kids ∧ ∀ x, r.1 = some x → CS n x

theorem linkFail_cs {pre post : List Inl.Node} {lseg : Segment} {st : St} {r : Option Inl.Node × St}
    (h : linkFail pre lseg post st = .ok r) (q1 : allQ (CS n) pre) (q3 : allQ (CS n) post) : POKC n r := by
  unfold linkFail at h
  simp at h; subst h
  exact ⟨allQ_append.mpr ⟨mergeOrAppend_allQ1 (cs_inv n) q1, q3⟩, by simp⟩

theorem linkDone_cs {isImage : Bool} {info : LinkInfo} {st : St} {r : Option Inl.Node × St}
    (h : linkDone isImage info st = .ok r) (hk : allQ (CS n) st.kids) (hi : allQ (CS n) info.kids) : POKC n r := by
  unfold linkDone at h
  simp at h; subst h
  exact ⟨allQ_dropLast hk, by intro x hx; simp at hx; subst hx; exact cs_link n _ _ _ hi⟩

theorem linkShortcut_cs {env : Env} {st : St} {lseg segment pos : Segment} {l : Int} {isImage : Bool}
    {pre post : List Inl.Node} {r : Option Inl.Node × St}
    (h : linkShortcut env st lseg segment l pos isImage pre post = .ok r)
    (hk : allQ (CS n) st.kids) (q1 : allQ (CS n) pre) (q3 : allQ (CS n) post) : POKC n r := by
  unfold linkShortcut at h
  simp only [bind, Except.bind, pure, Except.pure] at h
  split at h
  · contradiction
  · split at h
    · contradiction
    · split at h
      · exact linkFail_cs h q1 q3
      · split at h
        · exact linkFail_cs h q1 q3
        · split at h
          · contradiction
          · rename_i v hv
            obtain ⟨a1, a2⟩ := processLinkLabel_cs (st := { st with rd := _ }) hv hk
            exact linkDone_cs h a1 a2

theorem linkTry_cs {env : Env} {st st' : St} {lseg : Segment} {c : UInt8} {link : Option LinkInfo}
    {hv : Bool} (h : linkTry env st lseg c = .ok (link, hv, st')) (hk : allQ (CS n) st.kids) :
    LinkResC n link st' := by
  unfold linkTry at h
  split at h
  · split at h
    · rename_i l s hl
      simp at h; obtain ⟨rfl, _, rfl⟩ := h
      exact parseLinkInline_cs hl hk
    · contradiction
  · split at h
    · split at h
      · rename_i l v s hl
        simp at h; obtain ⟨rfl, _, rfl⟩ := h
        exact parseReferenceLink_cs hl hk
      · contradiction
    · simp at h; obtain ⟨rfl, _, rfl⟩ := h
      exact linkResC_fail hk

theorem parseLinkClose_cs {env : Env} {st : St} {segment : Segment} {r : Option Inl.Node × St}
    (h : parseLinkClose env st segment = .ok r) (hk : allQ (CS n) st.kids) : POKC n r := by
  unfold parseLinkClose at h
  split at h
  · simp at h; subst h; exact ⟨hk, by simp⟩
  · rename_i pre lid lseg isImage post hs
    have e := splitLastLabel_eq hs
    have hk0 := hk
    rw [e] at hk
    have q1 := (allQ_append.mp hk).1
    have q3 := (allQ_cons.mp (allQ_append.mp hk).2).2
    simp only [bind, Except.bind, pure, Except.pure] at h
    split at h
    · contradiction
    · rename_i rd hadv
      split at h
      · exact linkFail_cs h q1 q3
      · split at h
        · exact linkFail_cs h q1 q3
        · split at h
          · contradiction
          · split at h
            · contradiction
            · rename_i v hv
              obtain ⟨t1, t3⟩ := linkTry_cs (n := n) (st := { st with rd := rd }) (link := v.1) (hv := v.2.1) (st' := v.2.2) hv
                (by simpa using hk0)
              split at h
              · rename_i info hi
                exact linkDone_cs h t1 (t3 info hi)
              · split at h
                · exact linkFail_cs h q1 q3
                · exact linkShortcut_cs h t1 q1 q3

theorem labelOpen_cs {st : St} {pos : Int} {im : Bool} {r : Option Inl.Node × St}
    (h : labelOpen st pos im = .ok r) (hk : allQ (CS n) st.kids) : POKC n r := by
  unfold labelOpen at h
  mpaths h
  all_goals (subst h; exact ⟨hk, by intro x hx; simp at hx; subst hx; exact cs_label n _ _ _⟩)

theorem parseLink_cs {env : Env} {st : St} {r : Option Inl.Node × St}
    (h : parseLink env st = .ok r) (hk : allQ (CS n) st.kids) : POKC n r := by
  unfold parseLink at h
  simp only [bind, Except.bind, pure, Except.pure, throw, throwThe, MonadExceptOf.throw] at h
  split at h
  · contradiction
  · split at h
    · contradiction
    · split at h
      · split at h
        · split at h
          · contradiction
          · exact labelOpen_cs (st := pushBottom _) h (by rw [pushBottom_kids]; exact hk)
        · simp at h; subst h; exact ⟨hk, by simp⟩
      · split at h
        · exact labelOpen_cs (st := pushBottom _) h (by rw [pushBottom_kids]; exact hk)
        · exact parseLinkClose_cs (st := { st with rd := _ }) h hk

/-! ### the loop over the trigger table with the footnote parser -/

theorem liftR_cs {st : St} {x : RRes} {r : Option Inl.Node × St} (h : liftR st x = .ok r)
    (hk : allQ (CS n) st.kids) (hn : ∀ y rd, x = .ok (some y, rd) → top y = true) : POKC n r := by
  unfold liftR at h
  split at h
  · rename_i y rd
    simp at h; subst h
    exact ⟨hk, by intro m hm; simp at hm; subst hm; exact top_cs n (hn _ _ rfl)⟩
  · contradiction

theorem ipParse_cs {env : Env} {ip : Ip} {st : St} {r : Option Inl.Node × St}
    (h : ip.parse env st = .ok r) (hk : allQ (CS n) st.kids) : POKC n r := by
  cases ip with
  | codeSpan => exact liftR_cs h hk (fun _ _ e => parseCodeSpan_top e)
  | link => exact parseLink_cs h hk
  | autoLink => exact liftR_cs h hk (fun _ _ e => parseAutoLink_top e)
  | rawHTML => exact liftR_cs h hk (fun _ _ e => parseRawHTML_top e)
  | emphasis => exact liftR_cs (st := { st with nextId := _ }) h hk (fun _ _ e => parseEmphasis_top e)


/-- every parser of the table keeps the invariant -/
def TblCS (n : Nat) (env : Env) (ips : List XIp) : Prop :=
  ∀ ip ∈ ips, ∀ (st : St) (r : Option Inl.Node × St), ip.parse env st = .ok r → allQ (CS n) st.kids → POKC n r


theorem tryParsersX_cs {env : Env} {sl : Int} {sp : Segment} :
    ∀ (ips : List XIp) {st : St} {r : Option Inl.Node × St}, TblCS n env ips →
    tryParsersX env sl sp ips st = .ok r → allQ (CS n) st.kids → POKC n r := by
  intro ips
  induction ips with
  | nil => intro st r _ h hk; simp [tryParsersX, pure, Except.pure] at h; subst h; exact ⟨hk, by simp⟩
  | cons ip rest ih =>
    intro st r ht h hk
    simp only [tryParsersX, bind, Except.bind, pure, Except.pure] at h
    split at h
    · contradiction
    · rename_i v hv
      have := ht ip (List.mem_cons_self ..) st v hv hk
      split at h
      · rename_i y hy
        simp at h; subst h
        exact ⟨this.1, by intro m hm; simp at hm; subst hm; exact this.2 _ hy⟩
      · split at h
        · contradiction
        · exact ih (st := { v.2 with rd := _ }) (fun q hq => ht q (List.mem_cons_of_mem _ hq)) h this.1

theorem triggerX_cs {env : Env} {ips : List XIp} {i : Nat} {s : Inl.Scan} {r : Sum St Inl.Scan} (ht : TblCS n env ips)
    (h : triggerX env ips i s = .ok r) (hk : allQ (CS n) s.st.kids) :
    (match r with | .inl st => allQ (CS n) st.kids | .inr s' => allQ (CS n) s'.st.kids) := by
  unfold triggerX at h
  obtain ⟨rd, _, h⟩ := bind_ok h
  obtain ⟨ks, hks, h⟩ := bind_ok h
  obtain ⟨w, hw, h⟩ := bind_ok h
  have hkids : allQ (CS n) ks.1 := by
    split at hks
    · cases hb : s.sp.between rd.position.2 with
      | error e => rw [hb] at hks; simp [Except.map] at hks
      | ok seg => rw [hb] at hks; simp [Except.map] at hks; subst hks; exact mergeOrAppend_allQ1 (cs_inv n) hk
    · simp [pure, Except.pure] at hks; subst hks; exact hk
  have := tryParsersX_cs _ (st := { s.st with rd := _, kids := _ }) ht hw hkids
  split at h
  · rename_i nd hnd
    simp [pure, Except.pure] at h; subst h
    exact allQ_append.mpr ⟨this.1, allQ_single.mpr (this.2 _ hnd)⟩
  · simp [pure, Except.pure] at h; subst h; exact this.1

theorem scanX_cs {env : Env} {tbl : UInt8 → List XIp} (ht : ∀ b, TblCS n env (tbl b)) :
    ∀ (bs : Bytes) (i : Nat) (s : Inl.Scan) {res : ScanRes}, scanX env tbl bs i s = .ok res → allQ (CS n) s.st.kids →
    (match res with | .hit st _ => allQ (CS n) st.kids | .eol s' => allQ (CS n) s'.st.kids) := by
  intro bs
  induction bs with
  | nil => intro i s res h hk; simp [scanX, pure, Except.pure] at h; subst h; exact hk
  | cons c cs ih =>
    intro i s res h hk
    simp only [scanX] at h
    split at h
    · simp [pure, Except.pure] at h; subst h; exact hk
    · split at h
      · split at h
        · rename_i st hts
          simp [pure, Except.pure] at h; subst h
          exact triggerX_cs (ht _) hts hk
        · rename_i s' hts
          exact ih _ _ h (by rw [bump_st]; exact triggerX_cs (ht _) hts hk)
        · contradiction
      · exact ih _ _ h (by rw [bump_st]; exact hk)

theorem eolText_cs {src : Bytes} {flags : Nat} {diff : Segment} {kids : List Inl.Node} {r : Segment × List Inl.Node}
    (h : eolText src flags diff kids = .ok r) (hk : allQ (CS n) kids) : allQ (CS n) r.2 := by
  unfold eolText at h
  split at h
  · simp [pure, Except.pure] at h; subst h; exact hk
  · obtain ⟨seg, _, h⟩ := bind_ok h
    split at h
    · split at h
      · split at h
        · obtain ⟨t', _, h⟩ := bind_ok h
          simp [pure, Except.pure] at h; subst h
          exact allQ_append.mpr ⟨allQ_dropLast hk, allQ_single.mpr (cs_text n _ _ _ _)⟩
        · simp [pure, Except.pure] at h; subst h; exact hk
      · simp [pure, Except.pure] at h; subst h; exact hk
    · simp [pure, Except.pure] at h; subst h; exact hk

theorem endOfLine_cs {flags : Nat} {l : Int} {s : Inl.Scan} {st' : St} (h : endOfLine flags l s = .ok st')
    (hk : allQ (CS n) s.st.kids) : allQ (CS n) st'.kids := by
  unfold endOfLine at h
  obtain ⟨rd, _, h⟩ := bind_ok h
  dsimp only at h
  split at h
  · simp [pure, Except.pure] at h; subst h; exact hk
  · obtain ⟨diff, _, h⟩ := bind_ok h
    obtain ⟨tk, htk, h⟩ := bind_ok h
    obtain ⟨rd', _, h⟩ := bind_ok h
    simp [pure, Except.pure] at h; subst h
    exact allQ_append.mpr ⟨eolText_cs htk hk, allQ_single.mpr (cs_text n _ _ _ _)⟩

theorem lineLoopX_cs {env : Env} {tbl : UInt8 → List XIp} (ht : ∀ b, TblCS n env (tbl b)) :
    ∀ (fuel : Nat) (esc : Bool) (st : St) {st' : St}, lineLoopX env tbl fuel esc st = .ok st' → allQ (CS n) st.kids →
    allQ (CS n) st'.kids := by
  intro fuel
  induction fuel with
  | zero => intro esc st st' h; simp [lineLoopX] at h
  | succ f ih =>
    intro esc st st' h hk
    simp only [lineLoopX] at h
    obtain ⟨pl, _, h⟩ := bind_ok h
    split at h
    · simp [pure, Except.pure] at h; subst h; exact hk
    · split at h
      · simp [throw, throwThe, MonadExceptOf.throw] at h
      · obtain ⟨r, hr, h⟩ := bind_ok h
        have hs := scanX_cs ht _ _ _ hr (by exact hk)
        split at h
        · exact ih _ _ h hs
        · obtain ⟨st2, h2, h⟩ := bind_ok h
          exact ih _ _ h (endOfLine_cs h2 hs)


/-! ### relabelling, the generalised ProcessDelimiters / link parser -/

mutual
theorem csH_relv (g : Int → Int) : ∀ x : Inl.Node, csH (relv g x) = csH x
  | .text .. => rfl
  | .codeSpan ks => by simp only [relv_codeSpan, csH, all_isText_relv]
  | .emphasis lv ks => by simp only [relv_emphasis, csH, csHL_relv g ks]
  | .link im d t ks => by simp only [relv_link, csH, csHL_relv g ks]
  | .autoLink .. => rfl
  | .rawHTML .. => rfl
  | .delim .. => rfl
  | .label .. => rfl
theorem csHL_relv (g : Int → Int) : ∀ l : List Inl.Node, csHL (relvL g l) = csHL l
  | [] => rfl
  | x :: rest => by simp [relvL, csHL, csH_relv g x, csHL_relv g rest]
end

theorem allQ_cs_relvL (g : Int → Int) (l : List Inl.Node) : allQ (CS n) (relvL g l) ↔ allQ (CS n) l := by
  rw [← csHL_iff, ← csHL_iff, csHL_relv]

theorem cs_relv (g : Int → Int) (x : Inl.Node) : CS n (relv g x) ↔ CS n x := by
  simp only [CS, csH_relv]

theorem processDelimitersG_cs (sk : Bool) {b : Bottom} {kids res : List Inl.Node}
    (h : processDelimitersG sk b kids = .ok res) (hk : allQ (CS n) kids) : allQ (CS n) res := by
  have e := processDelimitersG_relv (gN_ok sk) b kids
  rw [h] at e
  have := processDelimiters_allQ1 (cs_inv n) e ((allQ_cs_relvL gN kids).mpr hk)
  exact (allQ_cs_relvL gN res).mp this

theorem parseLinkG_cs (sk : Bool) {env : Env} {st : St} {r : Option Inl.Node × St}
    (h : parseLinkG (processDelimitersG sk) env st = .ok r) (hk : allQ (CS n) st.kids) : POKC n r := by
  have e := parseLinkG_relv (GM.Proof.ConvertXE2EPad.pdsim_G sk) env st
  rw [h] at e
  have := parseLink_cs (n := n) e (by simpa [relvSt] using (allQ_cs_relvL gN st.kids).mpr hk)
  obtain ⟨h1, h2⟩ := this
  refine ⟨by simpa [relvPR, relvSt] using (allQ_cs_relvL gN r.2.kids).mp (by simpa [relvPR, relvSt] using h1), ?_⟩
  intro x hx
  have : (relvPR gN r).1 = some (relv gN x) := by simp [relvPR, hx]
  exact (cs_relv gN x).mp (h2 _ this)

/-! ### the members' parsers -/

theorem parseStrike_cs {env : Env} {st : St} {r : Option Inl.Node × St} (h : parseStrike env st = .ok r)
    (hk : allQ (CS n) st.kids) : POKC n r := by
  unfold parseStrike at h
  obtain ⟨before, _, h⟩ := bind_ok h
  obtain ⟨pl, _, h⟩ := bind_ok h
  obtain ⟨d, _, h⟩ := bind_ok h
  split at h
  · simp [pure, Except.pure] at h; subst h; exact ⟨hk, by simp⟩
  · split at h
    · simp [pure, Except.pure] at h; subst h; exact ⟨hk, by simp⟩
    · obtain ⟨rd, _, h⟩ := bind_ok h
      simp [pure, Except.pure] at h; subst h
      exact ⟨hk, by intro x hx; simp at hx; subst hx; exact cs_delim n _ _⟩

theorem parseTask_cs {inItem : Bool} {env : Env} {st : St} {r : Option Inl.Node × St}
    (h : parseTask inItem env st = .ok r) (hk : allQ (CS n) st.kids) : POKC n r := by
  unfold parseTask at h
  split at h
  · simp at h; subst h; exact ⟨hk, by simp⟩
  · split at h
    · simp at h; subst h; exact ⟨hk, by simp⟩
    · obtain ⟨pl, _, h⟩ := bind_ok h
      dsimp only at h
      split at h
      · split at h
        · obtain ⟨rd, _, h⟩ := bind_ok h
          simp [pure, Except.pure] at h; subst h
          exact ⟨hk, by intro x hx; simp at hx; subst hx; exact cs_emph' n _ allQ_nil⟩
        · simp [pure, Except.pure] at h; subst h; exact ⟨hk, by simp⟩
      · simp [pure, Except.pure] at h; subst h; exact ⟨hk, by simp⟩

theorem linkifyFinish_cs {st : St} {segment : Segment} {strip : Bool} {ln : Bytes} {proto email : Bool} {m1 : Nat}
    {r : Option Inl.Node × St} (h : linkifyFinish st segment strip ln proto email m1 = .ok r)
    (hk : allQ (CS n) st.kids) : POKC n r := by
  unfold linkifyFinish at h
  obtain ⟨rd, _, h⟩ := bind_ok h
  simp [pure, Except.pure] at h; subst h
  refine ⟨?_, by intro x hx; simp at hx; subst hx; exact cs_autoLink n _ _⟩
  simp only
  split
  · exact mergeOrAppend_allQ1 (cs_inv n) hk
  · exact hk

theorem parseLinkify_cs {env : Env} {st : St} {r : Option Inl.Node × St} (h : parseLinkify env st = .ok r)
    (hk : allQ (CS n) st.kids) : POKC n r := by
  unfold parseLinkify at h
  split at h
  · simp at h; subst h; exact ⟨hk, by simp⟩
  · obtain ⟨pl, _, h⟩ := bind_ok h
    dsimp only at h
    split at h
    · simp [throw, throwThe, MonadExceptOf.throw] at h
    · try dsimp only at h
      split at h
      · obtain ⟨m1', _, h⟩ := bind_ok h
        exact linkifyFinish_cs (st := { st with rd := _ }) h hk
      · obtain ⟨q, _, h⟩ := bind_ok h
        split at h
        · simp [pure, Except.pure] at h; subst h; exact ⟨hk, by simp⟩
        · exact linkifyFinish_cs (st := { st with rd := _ }) h hk

open GM.ConvertX in
theorem tblCS_inlineTblL (c : GCfg) (inItem : Bool) (env : Env) (b : UInt8) : TblCS n env (inlineTblL c inItem b) := by
  intro ip hip st r h hk
  have hlink : ∀ st r, (linkX c.base).parse env st = .ok r → allQ (CS n) st.kids → POKC n r := by
    intro st r h hk
    unfold linkX at h
    split at h
    · rename_i hc
      have e : pdX c.base = processDelimitersG true := by unfold pdX; rw [if_pos hc]
      change parseLinkG (pdX c.base) env st = .ok r at h
      rw [e] at h
      exact parseLinkG_cs true h hk
    · exact ipParse_cs (ip := .link) h hk
  unfold inlineTblL at hip
  simp only [List.mem_append] at hip
  rcases hip with hip | hip
  · unfold inlineTbl at hip
    split at hip
    · split at hip
      · simp only [List.mem_singleton] at hip; subst hip; exact parseStrike_cs (env := env) h hk
      · cases hip
    · split at hip
      · simp only [List.mem_append, List.mem_singleton] at hip
        rcases hip with hip | hip
        · split at hip
          · simp only [List.mem_singleton] at hip; subst hip; exact parseTask_cs (env := env) h hk
          · cases hip
        · subst hip; exact hlink st r h hk
      · split at hip
        · simp only [List.mem_singleton] at hip; subst hip; exact hlink st r h hk
        · unfold baseTbl at hip
          obtain ⟨ip0, _, rfl⟩ := List.mem_map.1 hip
          exact ipParse_cs (ip := ip0) h hk
  · split at hip
    · simp only [List.mem_singleton] at hip; subst hip; exact parseLinkify_cs (env := env) h hk
    · cases hip

mutual
theorem closeLabels_cs (n : Nat) : ∀ x : Inl.Node, CS n x → CS n (closeLabels x)
  | .text .., h => by simpa [closeLabels] using h
  | .codeSpan ks, h => by
    -- the children of a code span are Text nodes: CloseBlock leaves them alone
    simp only [CS, csH] at h
    simp only [closeLabels, CS, csH]
    have : closeLabelsL ks = ks := closeLabelsL_allText ks h
    rw [this]; exact h
  | .emphasis lv ks, h => by
    simp only [closeLabels]
    exact cs_emph' n _ (closeLabelsL_cs n ks ((csHL_iff n ks).1 (by simpa [CS, csH] using h)))
  | .link _ _ _ ks, h => by
    simp only [closeLabels]
    exact cs_link n _ _ _ (closeLabelsL_cs n ks ((csHL_iff n ks).1 (by simpa [CS, csH] using h)))
  | .autoLink .., h => by simpa [closeLabels] using h
  | .rawHTML .., h => by simpa [closeLabels] using h
  | .delim .., h => by simpa [closeLabels] using h
  | .label .., _ => by simp only [closeLabels]; exact cs_text n ..
theorem closeLabelsL_cs (n : Nat) : ∀ l : List Inl.Node, allQ (CS n) l → allQ (CS n) (closeLabelsL l)
  | [], _ => by simpa [closeLabelsL] using (allQ_nil (Q := CS n))
  | x :: rest, h => by
    simp only [closeLabelsL]
    exact allQ_cons.mpr ⟨closeLabels_cs n x (allQ_cons.mp h).1, closeLabelsL_cs n rest (allQ_cons.mp h).2⟩
theorem closeLabelsL_allText : ∀ ks : List Inl.Node, ks.all isText = true → closeLabelsL ks = ks
  | [], _ => by simp [closeLabelsL]
  | x :: rest, h => by
    simp only [List.all_cons, Bool.and_eq_true] at h
    obtain ⟨h1, h2⟩ := h
    cases x <;> simp [isText] at h1
    simp [closeLabelsL, closeLabels, closeLabelsL_allText rest h2]
end

open GM.ConvertX in
/-- **every CodeSpan of the tree the inline phase answers holds Text nodes only**, all 16 member sets, every source and lines -/
theorem parseBlockG_csHL (c : GCfg) (inItem : Bool) (env : Env) (src : Bytes) (lines : List Segment) (kids : List Inl.Node)
    (h : parseBlockG env (inlineTblL c inItem) (pdX c.base) src lines = .ok kids) : csHL kids = true := by
  unfold parseBlockG at h
  obtain ⟨rd, _, h⟩ := bind_ok h
  obtain ⟨st, hst, h⟩ := bind_ok h
  obtain ⟨ks, hks, h⟩ := bind_ok h
  simp [pure, Except.pure] at h; subst h
  have h1 := lineLoopX_cs (n := 0) (fun b => tblCS_inlineTblL c inItem env b) _ _ _ hst (by intro x hx; cases hx)
  rw [pdX_eq_G] at hks
  exact (csHL_iff 0 _).2 (closeLabelsL_cs 0 _ (processDelimitersG_cs _ hks h1))

end GM.Proof.ConvertXE2ECS
