/-
  GM.Proof.ShiftSimXTree — the AST mutators the block phase uses (`RemoveChild`, `AppendChild`, `InsertBefore`,
  `InsertAfter`, `ReplaceChild`, `NextSibling`) under the relation `SRL` of the shift simulation: called with ids
  mapped by `ι`, they end in related stores. The children `kids0` that B's Document has in front are old nodes, never
  the image of an id under `ι`, so list surgery on the children commutes with `kids0 ++ map ι _`.
-/
import GM.Proof.ShiftSimXOps

namespace GM.Blocks.Xs
open GM GM.Text GM.Spec GM.Proof.Reader GM.Blocks

/-! ### list surgery -/

theorem map_erase_ι (F : Frame) (c : Nat) : ∀ l : List Nat, (l.erase c).map F.ι = (l.map F.ι).erase (F.ι c) := by
  intro l
  induction l with
  | nil => rfl
  | cons a l ih =>
    simp only [List.map_cons, List.erase_cons, ι_beq]
    split
    · rfl
    · simp only [List.map_cons, ih]

theorem nextIn_map_ι (F : Frame) (c : Nat) : ∀ l : List Nat, nextIn (F.ι c) (l.map F.ι) = (nextIn c l).map F.ι := by
  intro l
  induction l with
  | nil => rfl
  | cons a l ih =>
    cases l with
    | nil => rfl
    | cons b rest =>
      simp only [List.map_cons, nextIn, ι_beq] at ih ⊢
      split
      · rfl
      · exact ih

theorem nextIn_kids (F : Frame) (hF : F.OK) (c : Nat) (l : List Nat) : ∀ (k : List Nat), (∀ x ∈ k, x ∈ F.kids0) →
    nextIn (F.ι c) (k ++ l.map F.ι) = (nextIn c l).map F.ι := by
  intro k
  induction k with
  | nil => intro _; exact nextIn_map_ι F c l
  | cons a k ih =>
    intro hk
    have ha : (a == F.ι c) = false := by
      apply beq_eq_false_iff_ne.mpr
      intro e
      exact ι_not_kid F hF c (e ▸ hk a (List.mem_cons_self))
    have ih' := ih (fun x hx => hk x (List.mem_cons_of_mem _ hx))
    cases hkl : k ++ l.map F.ι with
    | nil =>
      have hk0 : k = [] := (List.append_eq_nil_iff.mp hkl).1
      have hl0 : l = [] := by simpa using (List.append_eq_nil_iff.mp hkl).2
      subst hk0 hl0
      rfl
    | cons b rest =>
      rw [hkl] at ih'
      simp only [List.cons_append, hkl, nextIn, ha]
      exact ih'

theorem insertBeforeIn_map_ι (F : Frame) (v ins : Nat) : ∀ l : List Nat,
    insertBeforeIn (F.ι v) (F.ι ins) (l.map F.ι) = (insertBeforeIn v ins l).map F.ι := by
  intro l
  induction l with
  | nil => rfl
  | cons a l ih =>
    simp only [List.map_cons, insertBeforeIn, ι_beq]
    split
    · rfl
    · simp only [List.map_cons, ih]

theorem insertBeforeIn_kids (F : Frame) (hF : F.OK) (v ins : Nat) (l : List Nat) : ∀ (k : List Nat),
    (∀ x ∈ k, x ∈ F.kids0) →
    insertBeforeIn (F.ι v) (F.ι ins) (k ++ l.map F.ι) = k ++ (insertBeforeIn v ins l).map F.ι := by
  intro k
  induction k with
  | nil => intro _; exact insertBeforeIn_map_ι F v ins l
  | cons a k ih =>
    intro hk
    have ha : (a == F.ι v) = false := by
      apply beq_eq_false_iff_ne.mpr
      intro e
      exact ι_not_kid F hF v (e ▸ hk a (List.mem_cons_self))
    simp only [List.cons_append, insertBeforeIn, ha]
    rw [ih (fun x hx => hk x (List.mem_cons_of_mem _ hx))]
    rfl

/-- the children of B's node -/
def kidsB (F : Frame) (root : Bool) (ch : List Nat) : List Nat := (if root then F.kids0 else []) ++ ch.map F.ι

theorem kidsB_pre (F : Frame) (root : Bool) : ∀ x ∈ (if root then F.kids0 else []), x ∈ F.kids0 := by
  intro x hx; cases root <;> simp at hx ⊢; exact hx

theorem kidsB_erase (F : Frame) (hF : F.OK) (root : Bool) (ch : List Nat) (c : Nat) :
    (kidsB F root ch).erase (F.ι c) = kidsB F root (ch.erase c) := by
  unfold kidsB
  rw [List.erase_append_right _ (fun hm => ι_not_kid F hF c (kidsB_pre F root _ hm)), map_erase_ι]

theorem kidsB_append (F : Frame) (root : Bool) (ch : List Nat) (c : Nat) :
    kidsB F root ch ++ [F.ι c] = kidsB F root (ch ++ [c]) := by
  unfold kidsB; simp

theorem kidsB_nextIn (F : Frame) (hF : F.OK) (root : Bool) (ch : List Nat) (c : Nat) :
    nextIn (F.ι c) (kidsB F root ch) = (nextIn c ch).map F.ι :=
  nextIn_kids F hF c ch _ (kidsB_pre F root)

theorem kidsB_insertBefore (F : Frame) (hF : F.OK) (root : Bool) (ch : List Nat) (v ins : Nat) :
    insertBeforeIn (F.ι v) (F.ι ins) (kidsB F root ch) = kidsB F root (insertBeforeIn v ins ch) :=
  insertBeforeIn_kids F hF v ins ch _ (kidsB_pre F root)

theorem shN_children (F : Frame) (root : Bool) (n : Node) : (shN F root n).children = kidsB F root n.children := rfl
theorem shN_parent (F : Frame) (root : Bool) (n : Node) : (shN F root n).parent = n.parent.map F.ι := rfl
theorem shN_kind (F : Frame) (root : Bool) (n : Node) : (shN F root n).kind = n.kind := rfl
theorem shN_lines (F : Frame) (root : Bool) (n : Node) : (shN F root n).lines = n.lines.map (moveSeg F.d) := rfl
theorem shN_linesNil (F : Frame) (root : Bool) (n : Node) : (shN F root n).linesNil = n.linesNil := rfl
theorem shN_blankPrev (F : Frame) (root : Bool) (n : Node) : (shN F root n).blankPrev = n.blankPrev := rfl

theorem map_ι_ne (F : Frame) (o : Option Nat) (p : Nat) : (o.map F.ι != some (F.ι p)) = (o != some p) := by
  cases o with
  | none => rfl
  | some q =>
    simp only [Option.map_some, bne, Option.some_beq_some, ι_beq]

theorem map_ι_beq (F : Frame) (o : Option Nat) (p : Nat) : (o.map F.ι == some (F.ι p)) = (o == some p) := by
  cases o with
  | none => rfl
  | some q => simp only [Option.map_some, Option.some_beq_some, ι_beq]

/-! ### the mutators -/

theorem removeChild_l {F b rA rB sA sB} (hF : F.OK) (h : SRL F b rA rB sA sB) (p c : Nat) :
    P2 (fun _ _ sA' sB' => SRL F b rA rB sA' sB') (removeChild p c sA) (removeChild (F.ι p) (F.ι c) sB) := by
  unfold removeChild
  refine P2.bind (getNode_l h c) (fun x y sA1 sB1 ⟨hx, hy, e1, e2⟩ => ?_)
  subst e1 e2 hy
  rw [shN_parent, map_ι_ne]
  by_cases hc : (x.parent != some p) = true
  · rw [if_pos hc, if_pos hc]; exact P2.pure h
  · rw [if_neg hc, if_neg hc]
    refine P2.bind (modNode_l h p _ _ (fun a => ?_) (fun _ => rfl)) (fun _ _ sA2 sB2 h2 => ?_)
    · show { shN F (p == 0) a with children := (shN F (p == 0) a).children.erase (F.ι c) } = _
      rw [shN_children, kidsB_erase F hF]; rfl
    · refine modNode_l h2 c _ _ (fun a => ?_) (fun _ => rfl)
      simp [shN]

theorem ensureIsolated_l {F b rA rB sA sB} (hF : F.OK) (h : SRL F b rA rB sA sB) (c : Nat) :
    P2 (fun _ _ sA' sB' => SRL F b rA rB sA' sB') (ensureIsolated c sA) (ensureIsolated (F.ι c) sB) := by
  unfold ensureIsolated
  refine P2.bind (getNode_l h c) (fun x y sA1 sB1 ⟨hx, hy, e1, e2⟩ => ?_)
  subst e1 e2 hy
  rw [shN_parent]
  cases x.parent with
  | none => exact P2.pure h
  | some q => exact removeChild_l hF h q c

theorem appendChild_l {F b rA rB sA sB} (hF : F.OK) (h : SRL F b rA rB sA sB) (p c : Nat) :
    P2 (fun _ _ sA' sB' => SRL F b rA rB sA' sB') (appendChild p c sA) (appendChild (F.ι p) (F.ι c) sB) := by
  unfold appendChild
  refine P2.bind (ensureIsolated_l hF h c) (fun _ _ sA1 sB1 h1 => ?_)
  refine P2.bind (modNode_l h1 p _ _ (fun a => ?_) (fun _ => rfl)) (fun _ _ sA2 sB2 h2 => ?_)
  · show { shN F (p == 0) a with children := (shN F (p == 0) a).children ++ [F.ι c] } = _
    rw [shN_children, kidsB_append]; rfl
  · refine modNode_l h2 c _ _ (fun a => ?_) (fun _ => rfl)
    simp [shN]

theorem insertBefore_l {F b rA rB sA sB} (hF : F.OK) (h : SRL F b rA rB sA sB) (p : Nat) (v1 : Option Nat) (ins : Nat) :
    P2 (fun _ _ sA' sB' => SRL F b rA rB sA' sB') (insertBefore p v1 ins sA)
      (insertBefore (F.ι p) (v1.map F.ι) (F.ι ins) sB) := by
  unfold insertBefore
  cases v1 with
  | none => exact appendChild_l hF h p ins
  | some v =>
    simp only [Option.map_some]
    refine P2.bind (getNode_l h v) (fun x y sA1 sB1 ⟨hx, hy, e1, e2⟩ => ?_)
    subst e1 e2 hy
    rw [shN_parent, map_ι_ne]
    by_cases hc : (x.parent != some p) = true
    · rw [if_pos hc, if_pos hc]; exact appendChild_l hF h p ins
    · rw [if_neg hc, if_neg hc]
      refine P2.bind (ensureIsolated_l hF h ins) (fun _ _ sA1 sB1 h1 => ?_)
      refine P2.bind (modNode_l h1 p _ _ (fun a => ?_) (fun _ => rfl)) (fun _ _ sA2 sB2 h2 => ?_)
      · show { shN F (p == 0) a with children := insertBeforeIn (F.ι v) (F.ι ins) (shN F (p == 0) a).children } = _
        rw [shN_children, kidsB_insertBefore F hF]; rfl
      · refine modNode_l h2 ins _ _ (fun a => ?_) (fun _ => rfl)
        simp [shN]

theorem nextSibling_l {F b rA rB sA sB} (hF : F.OK) (h : SRL F b rA rB sA sB) (c : Nat) :
    P2 (fun x y sA' sB' => y = x.map F.ι ∧ sA' = sA ∧ sB' = sB) (nextSibling c sA) (nextSibling (F.ι c) sB) := by
  unfold nextSibling
  refine P2.bind (getNode_l h c) (fun x y sA1 sB1 ⟨hx, hy, e1, e2⟩ => ?_)
  subst e1 e2 hy
  rw [shN_parent]
  cases x.parent with
  | none => exact P2.pure ⟨rfl, rfl, rfl⟩
  | some q =>
    simp only [Option.map_some]
    refine P2.bind (getNode_l h q) (fun x2 y2 sA2 sB2 ⟨hx2, hy2, e1, e2⟩ => ?_)
    subst e1 e2 hy2
    rw [shN_children, kidsB_nextIn F hF]
    exact P2.pure ⟨rfl, rfl, rfl⟩

theorem insertAfter_l {F b rA rB sA sB} (hF : F.OK) (h : SRL F b rA rB sA sB) (p : Nat) (v1 : Option Nat) (ins : Nat) :
    P2 (fun _ _ sA' sB' => SRL F b rA rB sA' sB') (insertAfter p v1 ins sA)
      (insertAfter (F.ι p) (v1.map F.ι) (F.ι ins) sB) := by
  unfold insertAfter
  cases v1 with
  | none => exact appendChild_l hF h p ins
  | some v =>
    simp only [Option.map_some]
    refine P2.bind (nextSibling_l hF h v) (fun x y sA1 sB1 ⟨hy, e1, e2⟩ => ?_)
    subst e1 e2 hy
    rw [map_ι_beq]
    by_cases hc : (x == some ins) = true
    · rw [if_pos hc, if_pos hc]
      refine P2.bind (nextSibling_l hF h ins) (fun x2 y2 sA2 sB2 ⟨hy2, e1, e2⟩ => ?_)
      subst e1 e2 hy2
      exact insertBefore_l hF h p x2 ins
    · rw [if_neg hc, if_neg hc]
      exact insertBefore_l hF h p x ins

theorem replaceChild_l {F b rA rB sA sB} (hF : F.OK) (h : SRL F b rA rB sA sB) (p v1 ins : Nat) :
    P2 (fun _ _ sA' sB' => SRL F b rA rB sA' sB') (replaceChild p v1 ins sA)
      (replaceChild (F.ι p) (F.ι v1) (F.ι ins) sB) := by
  unfold replaceChild
  refine P2.bind (insertBefore_l hF h p (some v1) ins) (fun _ _ sA1 sB1 h1 => ?_)
  exact removeChild_l hF h1 p v1

end GM.Blocks.Xs
