/-
  GM.Proof.CMFragNIter — stage 14: the iteration over the number of nested block quotes, and the composed theorem,
  abstract in what `docTree` reads from a representing node (`RepDT`).
-/
import GM.Proof.CMFragNMain

namespace GM.Proof.CMFrag
open GM GM.Text GM.Blocks GM.Spec

theorem repL_base {S : Bytes} : ∀ (items : List (Nat × Raw5)) (trail q : Nat) (bs : List Bool),
    DocAt6 S q items trail → (∀ it ∈ items, Good5 it.2) → (∀ it ∈ items, isIcB it.2 = false) →
    (∀ it ∈ items, ∀ l ∈ lines5 it.2, ∀ c ∈ l, c ≠ 10) →
    bs.length = items.length →
    RelL (Rep S) (items.map (·.2)) (mkNodes5 (closedOf6 q items) (items.map (·.2)) bs)
  | [], _, _, _, _, _, _, _, _ => by simp [mkNodes5, closedOf6, RelL]
  | _ :: _, _, _, [], _, _, _, _, hl => by simp at hl
  | (s, b) :: rest, trail, q, bk :: bs, hd, hg, hni, hno, hl => by
    obtain ⟨_, hpa, hdr⟩ := hd
    have hle := docAt6_le rest trail _ hdr
    simp only [List.map_cons, closedOf6, mkNodes5, RelL]
    exact ⟨rep_base b (q + s) bk (hg (s, b) (by simp)) (hni (s, b) (by simp)) (hno (s, b) (by simp)) hpa (by omega),
      repL_base rest trail _ bs hdr (fun it hit => hg it (by simp [hit])) (fun it hit => hni it (by simp [hit]))
        (fun it hit => hno it (by simp [hit]))
        (by simpa using hl)⟩

theorem repL_step {X : Bytes} : ∀ (blks : List Raw5) (leavesA leavesB : List Blocks.Node),
    (∀ b ∈ blks, LinesNE b) → RelL (Rep X) blks leavesA → RelL (NodeRel X false) leavesA leavesB →
    RelL (Rep (quotePrefix X)) blks leavesB
  | [], [], [], _, _, _ => trivial
  | [], [], _ :: _, _, _, h => h.elim
  | [], _ :: _, _, _, h, _ => h.elim
  | _ :: _, [], _, _, h, _ => h.elim
  | _ :: _, _ :: _, [], _, _, h => h.elim
  | b :: blks, m :: ms, m' :: ms', hne, h1, h2 =>
    ⟨rep_step b (hne b (by simp)) m m' h1.1 h2.1, repL_step blks ms ms' (fun x hx => hne x (by simp [hx])) h1.2 h2.2⟩

theorem docTrees_rep (env : GM.Inl.Env) (X : Bytes) : ∀ (blks : List Raw5) (ns : List GM.Node) (leaves : List Blocks.Node),
    RelL (Rep X) blks leaves → (∀ m ∈ leaves, m.children = []) → RelL (RepDT env) blks ns →
    GM.Convert.docTrees true env X (leaves.map fun m => Tree.node m []) = .ok ns
  | [], [], [], _, _, _ => by simp [GM.Convert.docTrees, pure, Except.pure]
  | [], [], _ :: _, h, _, _ => h.elim
  | [], _ :: _, _, _, _, h => h.elim
  | _ :: _, [], _, _, _, h => h.elim
  | _ :: _, _ :: _, [], h, _, _ => h.elim
  | b :: blks, n :: ns, m :: ms, h1, hc, h2 => by
    have ih := docTrees_rep env X blks ns ms h1.2 (fun x hx => hc x (by simp [hx])) h2.2
    simp only [List.map_cons, GM.Convert.docTrees, h2.1 X m h1.1 (hc m (by simp)), ih, bind, Except.bind, pure,
      Except.pure]

/-- the run on the document inside `k` nested block quotes -/
theorem nest_run (H : BPFree) (items : List (Nat × Raw5)) (trail : Nat)
    (hgood : ∀ it ∈ items, Good5 it.2) (hseps : SepsOK6 none items) (hnoic : ∀ it ∈ items, isIcB it.2 = false)
    (hno : ∀ it ∈ items, ∀ l ∈ lines5 it.2, ∀ c ∈ l, c ≠ 10)
    (hclass : C08Class (rawDoc6 items trail)) (hnb : ∀ b ∈ rawDoc6 items trail, b ≠ 91) :
    ∀ k, ∃ (s : St) (leaves : List Blocks.Node),
      GM.Blocks.run (qpN k (rawDoc6 items trail)) = .ok s ∧ QShapeN k items.length s.nodes leaves ∧
      RelL (Rep (qpN k (rawDoc6 items trail))) (items.map (·.2)) leaves ∧
      C08Class (qpN k (rawDoc6 items trail)) ∧ (∀ b ∈ qpN k (rawDoc6 items trail), b ≠ 91)
  | 0 => by
    obtain ⟨s', bs, h1, h2, h3, h4⟩ := runT_doc6 items trail hgood hseps (icOK6_of_none _ false hnoic) hno
    have hrunT : GM.Convert.blockPhase true (rawDoc6 items trail) = .ok s' := h1
    have hA : GM.Blocks.run (rawDoc6 items trail) = .ok s' := by rw [← H _ hnb]; exact hrunT
    have hd := docAt6_raw items trail [] hno
    simp only [List.nil_append, List.length_nil] at hd
    have hlen : (closedOf6 0 items).length = items.length := closedOf6_length items 0
    have hml := mkNodes5_length (closedOf6 0 items) (items.map (·.2)) bs (by simp [hlen]) (by rw [hlen]; exact h2)
    have hq := qshape_baseN (addKids { kind := .document } 0 items.length)
      (mkNodes5 (closedOf6 0 items) (items.map (·.2)) bs) rfl rfl (by rw [hml, hlen]; simp [addKids])
      (mkNodes5_children _ _ _)
    rw [hml, hlen, ← h3] at hq
    exact ⟨s', _, hA, hq, repL_base items trail 0 bs hd hgood hnoic hno h2, hclass, hnb⟩
  | k + 1 => by
    obtain ⟨s, leaves, hA, hq, hrep, hc, hb⟩ := nest_run H items trail hgood hseps hnoic hno hclass hnb k
    obtain ⟨sB, hB, hrel, _⟩ := run_sim hc.wide.wider hA
    obtain ⟨leavesB, hqB, hrl⟩ := qshape_stepN hq hrel
    refine ⟨sB, leavesB, hB, hqB, ?_, c08Class_prefixN hc, noBracket_prefixN hb⟩
    exact repL_step _ leaves leavesB (fun b hb' => by
      obtain ⟨it, hit, rfl⟩ := List.mem_map.mp hb'
      exact linesNE_of_good it.2 (hgood it hit)) hrep hrl

/-- **the model of `goldmark.Convert` on a stage-6 document of blocks good for the block phase inside `k` nested block
    quotes** (`k = 0`: not quoted), given what `docTree` reads from a representing node and what the renderer writes -/
theorem convert_nest_gen (H : BPFree) (uc : List (Nat × (Bool × Bool))) (items : List (Nat × Raw5)) (trail : Nat)
    (hgood : ∀ it ∈ items, Good5 it.2) (hseps : SepsOK6 none items) (hnoic : ∀ it ∈ items, isIcB it.2 = false)
    (hno : ∀ it ∈ items, ∀ l ∈ lines5 it.2, ∀ c ∈ l, c ≠ 10)
    (hclass : C08Class (rawDoc6 items trail)) (hnb : ∀ b ∈ rawDoc6 items trail, b ≠ 91)
    (k : Nat) (ns : List GM.Node) (html : Bytes)
    (hblk : ∀ env : GM.Inl.Env, env.escapedSpace = false → RelL (RepDT env) (items.map (·.2)) ns)
    (hr : GM.Convert.renderDoc cmOpts (nestNodeN k ns) = .ok html) :
    GM.Convert.convertCore uc cmOpts (qpN k (rawDoc6 items trail)) = .ok html := by
  obtain ⟨s, leaves, hA, hq, hrep, _, hb⟩ := nest_run H items trail hgood hseps hnoic hno hclass hnb k
  have hBP : GM.Convert.blockPhase true (qpN k (rawDoc6 items trail)) = .ok s := by rw [H _ hb]; exact hA
  have hdt := docTrees_rep { refs := s.pc.refs, uc := uc } (qpN k (rawDoc6 items trail)) (items.map (·.2)) ns leaves hrep
    hq.leaf (hblk _ rfl)
  have htree := docTree_nestN hq { refs := s.pc.refs, uc := uc } (qpN k (rawDoc6 items trail)) ns hdt
  unfold GM.Convert.convertCore GM.Convert.convertWith GM.Convert.parseDoc
  simp only [hBP, GM.Convert.liftErr, bind, Except.bind, htree]
  exact hr

end GM.Proof.CMFrag
